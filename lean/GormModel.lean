-- Root of the `GormModel` library: model files (core-only) and property theorems.
import GormModel.Model.Limit
import GormModel.Model.Batches
import GormModel.Model.Pipeline
import GormModel.Props.C15
import GormModel.Props.C19
import GormModel.Props.C18
import GormModel.Props.C17
import GormModel.Props.C05
import GormModel.Props.C13
import GormModel.Props.C11
