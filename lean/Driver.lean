/-
  Line-protocol driver: one JSON array per input line, one JSON value per output line.
  Imports model files only (core-only) plus Lean.Data.Json, so it links as a `lean_exe`.
-/
import GormModel.Drv.C15
import GormModel.Drv.C17
import GormModel.Drv.Gen
import GormModel.Drv.C13
import GormModel.Drv.C11
open Lean Gorm Gorm.Drv

def handle (args : Array Json) : Option Json := do
  let op ← jStr? (arg args 0)
  (handleC15 op args) <|> (handleC17 op args) <|> (handleGen op args) <|> (handleC13 op args) <|> (handleC11 op args)

partial def loop (hin hout : IO.FS.Stream) : IO Unit := do
  let line ← hin.getLine
  if line.isEmpty then return ()
  let out := match Json.parse line with
    | .ok (Json.arr a) => (handle a).getD (Json.str "bad-op")
    | _ => Json.str "bad-op"
  hout.putStrLn out.compress
  loop hin hout

def main : IO Unit := do
  let hin ← IO.getStdin
  let hout ← IO.getStdout
  loop hin hout
  hout.flush
