/-
  Line-protocol driver: one JSON array per input line, one JSON value per output line.
  Imports model files only (core-only), so it links as a `lean_exe`.
-/
import Lean.Data.Json
import GormModel.Model.Limit
import GormModel.Model.Batches
open Lean Gorm

def jInt? (j : Json) : Option Int := j.getInt?.toOption
def jNat? (j : Json) : Option Nat := j.getNat?.toOption
def jStr? (j : Json) : Option String := j.getStr?.toOption
def jArr? (j : Json) : Option (Array Json) := j.getArr?.toOption

def optIntJ : Option Int → Json
  | some n => Json.num (JsonNumber.fromInt n)
  | none => Json.null

def natListJ (l : List Nat) : Json := Json.arr (l.map (fun n => Json.num (JsonNumber.fromNat n))).toArray

def parseLimCalls (j : Json) : Option (List LimCall) := do
  let a ← jArr? j
  a.toList.mapM fun c => do
    let p ← jArr? c
    let k ← jStr? (p[0]?.getD Json.null)
    let n ← jInt? (p[1]?.getD Json.null)
    match k with
    | "limit" => some (LimCall.limit n)
    | "offset" => some (LimCall.offset n)
    | _ => none

def handle (args : Array Json) : Option Json := do
  let op ← jStr? (args[0]?.getD Json.null)
  match op with
  | "limit.merge" =>
    -- ["limit.merge", [["limit",3],["offset",-1],...]] -> [effLimit|null, effOffset|null]
    let cs ← parseLimCalls (args[1]?.getD Json.null)
    let st := applyCalls none cs
    some (Json.arr #[optIntJ (effLimitOf st), optIntJ (effOffsetOf st)])
  | "batches" =>
    -- ["batches", rows:[nat], calls, batchSize] -> {"batches":[[..]],"find":[..],"fuel":bool,"pk":bool}
    let rowsJ ← jArr? (args[1]?.getD Json.null)
    let rows ← rowsJ.toList.mapM jNat?
    let cs ← parseLimCalls (args[2]?.getD Json.null)
    let b ← jInt? (args[3]?.getD Json.null)
    let st := applyCalls none cs
    let out := findInBatches rows st b (rows.length + 2)
    some (Json.mkObj [
      ("batches", Json.arr (out.batches.map natListJ).toArray),
      ("find", natListJ (findAll rows st)),
      ("fuel", Json.bool out.outOfFuel),
      ("pk", Json.bool out.pkRequired)])
  | _ => none

partial def loop (hin hout : IO.FS.Stream) : IO Unit := do
  let line ← hin.getLine
  if line.isEmpty then return ()
  let out := match Json.parse line with
    | .ok (Json.arr a) => (handle a).getD (Json.str "bad-op")
    | _ => Json.str "bad-op"
  hout.putStrLn out.compress
  loop hin hout

def main : IO Unit := do
  let hin ← IO.getStdin
  let hout ← IO.getStdout
  loop hin hout
  hout.flush
