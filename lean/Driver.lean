/-
  Line-protocol driver: one JSON array per input line, one JSON value per output line.
  Imports model files only (core-only) plus Lean.Data.Json, so it links as a `lean_exe`.
-/
import GormModel.Drv.Gen
import GormModel.Drv.C01
import GormModel.Drv.C02
import GormModel.Drv.C03
import GormModel.Drv.C04
import GormModel.Drv.C06
import GormModel.Drv.C07
import GormModel.Drv.C08
import GormModel.Drv.C09
import GormModel.Drv.C10
import GormModel.Drv.C11
import GormModel.Drv.C12
import GormModel.Drv.C13
import GormModel.Drv.C14
import GormModel.Drv.C15
import GormModel.Drv.C16
import GormModel.Drv.C17
import GormModel.Drv.C18
import GormModel.Drv.C19
import GormModel.Drv.C20
open Lean Gorm Gorm.Drv

def handle (args : Array Json) : Option Json := do
  let op ← jStr? (arg args 0)
  (handleGen op args) <|> (handleC01 op args) <|> (handleC02 op args) <|> (handleC03 op args) <|> (handleC04 op args) <|> (handleC06 op args) <|> (handleC07 op args) <|> (handleC08 op args) <|> (handleC09 op args) <|> (handleC10 op args) <|> (handleC11 op args) <|> (handleC12 op args) <|> (handleC13 op args) <|> (handleC14 op args) <|> (handleC15 op args) <|> (handleC16 op args) <|> (handleC17 op args) <|> (handleC20 op args) <|> (handleC18 op args) <|> (handleC19 op args)

partial def loop (hin hout : IO.FS.Stream) : IO Unit := do
  let line ← hin.getLine
  if line.isEmpty then return ()
  let out := match Json.parse line with
    | .ok (Json.arr a) => (handle a).getD (Json.str "bad-op")
    | _ => Json.str "bad-op"
  hout.putStrLn out.compress
  loop hin hout

def main : IO Unit := do
  let hin ← IO.getStdin
  let hout ← IO.getStdout
  loop hin hout
  hout.flush
