import GormModel.Drv.Util
import GormModel.Model.Where
import GormModel.Model.InList
import GormModel.Gen.GuardWhereFacts
import GormModel.Drv.C02b
open Lean
namespace Gorm.Drv
namespace HC02

def parseJoiner (j : Json) : Option Joiner :=
  match jStr? j with
  | some "and" => some .and
  | some "or" => some .or
  | _ => none

mutual
partial def parseCore (j : Json) : Option Core :=
  match j.getObjVal? "a" with
  | .ok v => do
    let a ← jArr? v
    some (.atom (← jNat? (arg a 0)) (← jBool? (arg a 1)) (← jStr? (arg a 2)))
  | .error _ =>
    match j.getObjVal? "p" with
    | .ok v => (parseFlat v).map Core.paren
    | .error _ =>
      match j.getObjVal? "s" with
      | .ok v => do
        let a ← jArr? v
        some (.splice (← jStr? (arg a 0)) (← parseFlat (arg a 1)))
      | .error _ => none
partial def parseFlat (j : Json) : Option Flat := do
  let a ← jArr? j
  a.toList.mapM fun it => do
    let p ← jArr? it
    some (← parseJoiner (arg p 0), ← jNat? (arg p 1), ← parseCore (arg p 2))
end

def parseKind (s : String) : Option AtomKind :=
  match s with
  | "eq" => some .eq | "neq" => some .neq | "gt" => some .gt | "gte" => some .gte
  | "lt" => some .lt | "lte" => some .lte | "like" => some .like | "in" => some .inK
  | _ => none

def parseAtom (j : Json) : Option Atom := do
  let col ← jStr? (← (j.getObjVal? "col").toOption)
  let kind ← parseKind (← jStr? (← (j.getObjVal? "kind").toOption))
  let vj ← (j.getObjVal? "val").toOption
  let val ← match vj with
    | Json.str "scalar" => some ValShape.scalar
    | Json.str "nil" => some ValShape.nil
    | _ => (jNat? vj).map ValShape.list
  let id ← jNat? (← (j.getObjVal? "id").toOption)
  some { col, kind, val, id }

partial def parseEx (j : Json) : Option Ex :=
  match j.getObjVal? "raw" with
  | .ok v => do
    let a ← jArr? v
    some (.raw (← jStr? (arg a 0)).toList (← jBool? (arg a 1)) (← jStr? (arg a 2)) (← parseFlat (arg a 3)))
  | .error _ =>
    match j.getObjVal? "atom" with
    | .ok v => (parseAtom v).map Ex.atom
    | .error _ =>
      match j.getObjVal? "and" with
      | .ok v => do some (.and (← (← jArr? v).toList.mapM parseEx))
      | .error _ =>
        match j.getObjVal? "or" with
        | .ok v => do some (.or (← (← jArr? v).toList.mapM parseEx))
        | .error _ =>
          match j.getObjVal? "not" with
          | .ok v => do some (.not (← (← jArr? v).toList.mapM parseEx))
          | .error _ => none

def parseOp (j : Json) : Option ChainOp :=
  match jStr? j with
  | some "where" => some .where_
  | some "not" => some .not_
  | some "or" => some .or_
  | _ => none

mutual
partial def parseForm (j : Json) : Option Form :=
  match j with
  | Json.str "empty" => some .empty
  | _ =>
    match j.getObjVal? "raw" with
    | .ok v => do
      let a ← jArr? v
      some (.raw (← jStr? (arg a 0)).toList (← jBool? (arg a 1)) (← jStr? (arg a 2)) (← parseFlat (arg a 3)))
    | .error _ =>
      match j.getObjVal? "col" with
      | .ok v => (parseAtom v).map Form.col
      | .error _ =>
        match j.getObjVal? "fields" with
        | .ok v => do some (.fields (← (← jArr? v).toList.mapM parseAtom))
        | .error _ =>
          match j.getObjVal? "expr" with
          | .ok v => (parseEx v).map Form.expr
          | .error _ =>
            match j.getObjVal? "group" with
            | .ok v => do some (.group (chainExprs (← parseChain v)))
            | .error _ => none
partial def parseChain (j : Json) : Option (List (ChainOp × Form)) := do
  let a ← jArr? j
  a.toList.mapM fun it => do
    let p ← jArr? it
    some (← parseOp (arg p 0), ← parseForm (arg p 1))
end

/-- envs: array of arrays of "t"/"f"/"u" indexed by predicate id -/
def parseEnv (j : Json) : Option (Nat → V3) := do
  let a ← jArr? j
  let vs ← a.toList.mapM fun v => match jStr? v with
    | some "t" => some V3.t | some "f" => some V3.f | some "u" => some V3.u | _ => none
  some (fun i => vs.getD i .u)

def v3J : V3 → Json | .t => "t" | .f => "f" | .u => "u"

def parseSoft (j : Json) : Option (Bool × Option Atom) := do
  -- [unscoped, filterAtom|null]
  let a ← jArr? j
  let un ← jBool? (arg a 0)
  match arg a 1 with
  | Json.null => some (un, none)
  | v => some (un, some (← parseAtom v))

def parseFinKind (s : String) : Option FinKind :=
  match s with
  | "count" => some .count | "find" => some .find | "first" => some .first | "take" => some .take
  | "last" => some .last | "pluck" => some .pluck | "scan" => some .scan | "rows" => some .rows
  | "update" => some .update | "delete" => some .delete
  | _ => none

def parseAtoms (j : Json) : Option (List Atom) := do
  (← jArr? j).toList.mapM parseAtom

def parseStmtOp (j : Json) : Option StmtOp := do
  let a ← jArr? j
  match jStr? (arg a 0) with
  | some "cond" => some (.cond (← parseOp (arg a 1)) (← parseForm (arg a 2)))
  | some "cw" => some (.clauseWhere (← (← jArr? (arg a 1)).toList.mapM parseEx))
  | some "unscoped" => some .unscoped
  | some "fin" => some (.fin (← parseFinKind (← jStr? (arg a 1))) (← parseAtoms (arg a 2)) (← jBool? (arg a 3)))
  | _ => none

def parseMapVal (a : Array Json) : Option MapVal :=
  match jStr? (arg a 1) with
  | some "scalar" => some .scalar
  | some "nil" => some .nil
  | some "slice" => do
    let es ← jArr? (arg a 2)
    some (.slice (← es.toList.mapM fun e => (jBool? e).map fun b => if b then Elem.null else Elem.val))
  | _ => none

def atomShapeJ (a : Atom) : Json :=
  match a.kind, a.val with
  | .inK, .list n => Json.arr #[Json.str "in", Json.str a.col, natJ n, natJ a.id]
  | .eq, .nil => Json.arr #[Json.str "eq-null", Json.str a.col]
  | _, _ => Json.arr #[Json.str "eq", Json.str a.col]

def parseOptInt (j : Json) : Option (Option Int) :=
  match j with
  | Json.null => some none
  | _ => (j.getInt?.toOption).map some

def stateJ (s : StmtState) (rejected : Bool) : Json :=
  Json.mkObj [
    ("nexprs", match s.w.exprs with | none => Json.null | some es => natJ es.length),
    ("marker", Json.bool s.w.softEnabled),
    ("unscoped", Json.bool s.unscoped),
    ("keys", Json.arr (s.keys.toArray.qsort (· < ·) |>.map Json.str)),
    ("rejected", Json.bool rejected),
    ("sound", Json.bool (whereSound (s.w.exprs.getD []))),
    ("where", Json.str (textFlat (whereBuild (s.w.exprs.getD []))))]

end HC02
open HC02 in
def handleC02 (op : String) (args : Array Json) : Option Json := do
  match op with
  | "detector" => some (Json.bool (detector (← jStr? (arg args 1)).toList))
  | "expr.build" => some (Json.str (textFlat (← parseEx (arg args 1)).build))
  | "where.build" =>
    let es ← (← jArr? (arg args 1)).toList.mapM parseEx
    some (Json.str (textFlat (whereBuild es)))
  | "chain.render" =>
    -- ["chain.render", chain, [unscoped, filter|null], envs] -> {sql, vals, missing}
    let ch ← parseChain (arg args 1)
    let (un, filt) ← parseSoft (arg args 2)
    let envs ← (← jArr? (arg args 3)).toList.mapM parseEnv
    let es := chainExprs ch
    let st0 : WhereState := { exprs := if es.isEmpty then none else some es, softEnabled := false }
    let st := match filt with
      | some f => softDeleteModify un f st0
      | none => st0
    let flat := whereBuild (st.exprs.getD [])
    some (Json.mkObj [
      ("sql", Json.str (textFlat flat)),
      ("vals", Json.arr (envs.map (fun e => v3J (sqlEval e flat))).toArray),
      ("missing", Json.bool (missingWhere Gen.guardRejectsEmptyWhere false st)),
      ("sound", Json.bool (whereSound (st.exprs.getD []))),
      ("mixedNot", Json.bool (anyMixedNot (st.exprs.getD []))),
      ("nexprs", natJ (st.exprs.getD []).length)])
  | "map.cond" =>
    -- ["map.cond", [[key, "scalar"|"nil"|"slice", [isNull…]]…]] (keys sorted) -> expression shapes; the atom id carries the
    -- number of NULL elements so that the shape records that they stay INSIDE the list
    let entries ← (← jArr? (arg args 1)).toList.mapM fun e => do
      let a ← jArr? e
      let v ← parseMapVal a
      let nulls := match v with
        | .slice es => (es.filter (· == Elem.null)).length
        | _ => 0
      some (← jStr? (arg a 0), nulls, v)
    some (Json.arr ((mapConds entries).map atomShapeJ).toArray)
  | "in.sem" =>
    -- ["in.sem", x|null, [e|null…], negated] -> "t"/"f"/"u"
    let x ← parseOptInt (arg args 1)
    let es ← (← jArr? (arg args 2)).toList.mapM parseOptInt
    let neg ← jBool? (arg args 3)
    let v := inListVal x es
    some (v3J (if neg then v.not else v))
  | "guard" =>
    -- ["guard", chain, softFilter|null, unscoped, pk|null, allowGlobal] -> missing?
    let ch ← parseChain (arg args 1)
    let soft ← match arg args 2 with
      | Json.null => some none
      | v => (parseAtom v).map some
    let un ← jBool? (arg args 3)
    let pk ← match arg args 4 with
      | Json.null => some none
      | v => (parseAtom v).map some
    let ag ← jBool? (arg args 5)
    let after := (jBool? (arg args 6)).getD false   -- an earlier condition-free query ran on the same statement
    some (Json.bool (missingWhere Gen.guardRejectsEmptyWhere ag (if after then guardStateAfterQuery ch pk soft un else guardState ch pk soft un)))
  | "stmt.run" =>
    -- ["stmt.run", softFilter|null, [modelKey atoms], allowGlobal, [ops]] -> state after every op (+ guard decision)
    let soft ← match arg args 1 with
      | Json.null => some none
      | v => (parseAtom v).map some
    let mk ← parseAtoms (arg args 2)
    let ag ← jBool? (arg args 3)
    let ops ← (← jArr? (arg args 4)).toList.mapM parseStmtOp
    let cfg : StmtCfg := { soft := soft, modelKey := mk, allowGlobal := ag }
    let (_, out) := ops.foldl (fun (acc : StmtState × Array Json) op =>
      let rej := match op with
        | .fin k vk same => finRejected Gen.guardRejectsEmptyWhere cfg acc.1 k vk same
        | _ => false
      let s' := stmtStep cfg acc.1 op
      (s', acc.2.push (stateJ s' rej))) (StmtState.fresh, #[])
    some (Json.arr out)
  | _ => handleC02b op args   -- round 4: Drv/C02b.lean (val.dispatch, rekey.tie)

end Gorm.Drv
