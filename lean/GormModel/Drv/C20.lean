import GormModel.Drv.Util
import GormModel.Model.Migrate
import GormModel.Model.MigrateOpts
import GormModel.Model.MigrateJoin
import GormModel.Model.MigrateCols
import GormModel.Model.MigrateNames
open Lean
namespace Gorm.Drv
open Gorm.Mig
namespace HC20

def oStr (j : Json) (k : String) : Option Str := (j.getObjVal? k).toOption >>= jStr? |>.map String.toList
def oBool (j : Json) (k : String) : Option Bool := (j.getObjVal? k).toOption >>= jBool?
def oInt (j : Json) (k : String) : Option Int := (j.getObjVal? k).toOption >>= jInt?
def oArr (j : Json) (k : String) : Option (Array Json) := (j.getObjVal? k).toOption >>= jArr?
def sJ (s : Str) : Json := Json.str (String.ofList s)

def parseGType : Str → GType
  | ['t', 'i', 'm', 'e'] => .time
  | ['b', 'o', 'o', 'l'] => .bool
  | _ => .other

def parseField (j : Json) : Option FieldDecl := do
  some { dbName := ← oStr j "db", ignoreMigration := ← oBool j "ignore", primaryKey := ← oBool j "pk",
         dataTypeSql := ← oStr j "type", size := ← oInt j "size", precision := ← oInt j "prec",
         notNull := ← oBool j "notnull", hasDefault := ← oBool j "hasdef", defaultIface := ← oBool j "defiface",
         defaultValue := ← oStr j "def", defaultExplained := ← oStr j "defx", gtype := parseGType (← oStr j "gtype"),
         comment := ← oStr j "comment", unique := ← oBool j "unique" }

def pairIB (j : Json) (k : String) : Option (Int × Bool) := do
  let a ← oArr j k
  some (← jInt? (arg a 0), ← jBool? (arg a 1))
def pairBB (j : Json) (k : String) : Option (Bool × Bool) := do
  let a ← oArr j k
  some (← jBool? (arg a 0), ← jBool? (arg a 1))
def pairSB (j : Json) (k : String) : Option (Str × Bool) := do
  let a ← oArr j k
  some ((← jStr? (arg a 0)).toList, ← jBool? (arg a 1))

def parseCol (j : Json) : Option ColumnInfo := do
  some { typeName := ← oStr j "type", aliases := (← (← oArr j "aliases").toList.mapM jStr?).map String.toList,
         length := ← pairIB j "length", decimal := ← pairIB j "decimal", nullable := ← pairBB j "nullable",
         dflt := ← pairSB j "default", comment := ← pairSB j "comment", unique := ← pairBB j "unique" }

def actJ : ColAct → Json
  | .alter => Json.str "alter"
  | .dropUnique => Json.str "dropUnique"
  | .createUnique => Json.str "createUnique"

def strs (j : Json) (k : String) : Option (List Str) := do
  some ((← (← oArr j k).toList.mapM jStr?).map String.toList)

def parseModel (j : Json) : Option ModelDecl := do
  some { table := ← oStr j "table", fields := ← (← oArr j "fields").toList.mapM parseField,
         fks := ← strs j "fks", checks := ← strs j "checks", indexes := ← strs j "indexes" }

def parseTable (j : Json) : Option TableState := do
  let cols ← (← oArr j "cols").toList.mapM fun c => do
    some (← oStr c "name", ← parseCol (← (c.getObjVal? "info").toOption))
  some { cols := cols, constraints := ← strs j "constraints", indexes := ← strs j "indexes" }

def ddlJ : DDL → Json
  | .createTable m => Json.arr #[Json.str "createTable", sJ m.table]
  | .addColumn _ f => Json.arr #[Json.str "addColumn", sJ f.dbName]
  | .alterColumn _ f => Json.arr #[Json.str "alterColumn", sJ f.dbName]
  | .createUnique _ f => Json.arr #[Json.str "createUnique", sJ f.dbName]
  | .dropUnique _ f => Json.arr #[Json.str "dropUnique", sJ f.dbName]
  | .createConstraint _ n => Json.arr #[Json.str "createConstraint", sJ n]
  | .createIndex _ n => Json.arr #[Json.str "createIndex", sJ n]

def parseDeps (j : Json) : Option ModelDeps := do
  let joins ← (← oArr j "joins").toList.mapM fun x => do
    let a ← jArr? x
    let fs := match arg a 0 with
      | Json.null => none
      | v => (jStr? v).map String.toList
    some (fs, (← jStr? (arg a 1)).toList)
  some { table := ← oStr j "table", depends := ← strs j "depends", joins := joins }

def parseRelKind : Str → RelKind
  | ['h', 'a', 's', '_', 'o', 'n', 'e'] => .hasOne
  | ['h', 'a', 's', '_', 'm', 'a', 'n', 'y'] => .hasMany
  | ['b', 'e', 'l', 'o', 'n', 'g', 's', '_', 't', 'o'] => .belongsTo
  | _ => .many2many

def parseRelDecl (j : Json) : Option RelDecl := do
  let con : Option (Str × Str × Str) ← match (j.getObjVal? "con").toOption with
    | some Json.null | none => some none
    | some v => do
      let a ← jArr? v
      some (some ((← jStr? (arg a 0)).toList, (← jStr? (arg a 1)).toList, (← jStr? (arg a 2)).toList))
  let join : Option Str := match (j.getObjVal? "join").toOption with
    | some (Json.str x) => some x.toList
    | _ => none
  some { kind := parseRelKind (← oStr j "kind"), target := ← oStr j "target", ignoreMigration := ← oBool j "ignore",
         con := con, join := join }

def parseModelRels (j : Json) : Option ModelRels := do
  some { table := ← oStr j "table", rels := ← (← oArr j "rels").toList.mapM parseRelDecl }

def parseEntry (j : Json) : Option IdxEntry := do
  some { name := ← oStr j "name", cls := ← oStr j "class", typ := ← oStr j "type", whr := ← oStr j "where",
         comment := ← oStr j "comment", option := ← oStr j "option", field := ← oStr j "field", priority := ← oInt j "priority" }

def parseFieldId (j : Json) : Option FieldId := do
  some { id := ← oStr j "id", schema := ← oStr j "schema" }

def parseRef (j : Json) : Option Ref := do
  let pk ← match (j.getObjVal? "pk").toOption with
    | some Json.null => some none
    | some v => (parseFieldId v).map some
    | none => none
  some { primaryKey := pk, primaryValue := ← oStr j "pv", foreignKey := ← parseFieldId (← (j.getObjVal? "fk").toOption),
         ownPrimaryKey := ← oBool j "own" }

def parseRelType : Str → RelType
  | ['b', 'e', 'l', 'o', 'n', 'g', 's', '_', 't', 'o'] => .belongsTo
  | ['h', 'a', 's', '_', 'o', 'n', 'e'] => .hasOne
  | ['h', 'a', 's', '_', 'm', 'a', 'n', 'y'] => .hasMany
  | _ => .many2many

def parseRel (j : Json) : Option Rel := do
  some { key := ← oStr j "key", typ := parseRelType (← oStr j "type"), schema := ← oStr j "schema",
         fieldSchema := ← oStr j "fieldSchema", refs := ← (← oArr j "refs").toList.mapM parseRef,
         hasJoinTable := ← oBool j "join", tag := ← oStr j "tag", defaultName := ← oStr j "defname" }

def fidJ (f : FieldId) : Json := sJ f.id

def constraintJ (c : Constraint) : Json :=
  Json.mkObj [("name", sJ c.name), ("schema", sJ c.schema), ("ref", sJ c.refSchema),
    ("fks", Json.arr (c.fks.map fidJ).toArray), ("refs", Json.arr (c.refs.map fidJ).toArray),
    ("ondelete", sJ c.onDelete), ("onupdate", sJ c.onUpdate)]

def oNat (j : Json) (k : String) : Option Nat := (oInt j k).map Int.toNat

/-- {"field": <FieldDecl json>, "depth": n, "perm": bool} -/
def parseRaw (j : Json) : Option RawField := do
  some { decl := ← parseField (← (j.getObjVal? "field").toOption), depth := ← oNat j "depth", perm := ← oBool j "perm" }

def parseRelTyp : Str → RelType
  | ['b', 'e', 'l', 'o', 'n', 'g', 's', '_', 't', 'o'] => .belongsTo
  | ['h', 'a', 's', '_', 'o', 'n', 'e'] => .hasOne
  | ['h', 'a', 's', '_', 'm', 'a', 'n', 'y'] => .hasMany
  | _ => .many2many

/-- "check" | "unique" | "none" | {"typ", "child", "join"} -/
def parseFound (j : Json) : Option Found :=
  match j with
  | Json.str "check" => some .check
  | Json.str "unique" => some .unique
  | Json.str _ => some .none
  | o => do
    some (.rel { typ := parseRelTyp (← oStr o "typ"), fieldSchemaTable := ← oStr o "child", joinTable := ← oStr o "join" })

def foundJ : Found → Json
  | .check => Json.str "check"
  | .unique => Json.str "unique"
  | .rel _ => Json.str "rel"
  | .none => Json.str "none"

end HC20
open HC20 in
/-- ops:
    ["mig.column", field, col]            -> {"acts":[…], "full": lower-cased full type, "trace":{…}}
    ["mig.auto", model, table|null]       -> [[kind, name]…]   (one AutoMigrate iteration for one model)
    ["mig.reorder", [deps…], [values…], autoAdd] -> [table…]
    ["mig.reorderopt", [{table, rels:[{kind,target,ignore,con:null|[name,schema,ref],join:null|table}…]}…], [values…], autoAdd,
        disableFK, ignoreRel] -> [table…]      (ReorderModels under the configuration switches)
    ["mig.fksopt", [models…], [tables…], disableFK, ignoreRel] -> {table: [constraint names AutoMigrate/CreateTable reconcile]}
    ["mig.constraint", rel, [rels of the referenced schema…]] -> null | {name,schema,ref,fks,refs,ondelete,onupdate}
    ["mig.addcolumn", table, field]       -> the ALTER TABLE … ADD … statement text
    ["mig.jointag", tag]                  -> {tag, body, settings:[[KEY,value]…], unique, indexed, pk, autoinc}: the join-table
        field buildMany2ManyRelation derives from a source field with struct tag `tag` (Model/MigrateJoin.lean)
    ["mig.indexes", [entries…]]           -> [{name,class,type,where,comment,option,fields:[[field,priority]…]}…] -/
def handleC20 (op : String) (args : Array Json) : Option Json := do
  match op with
  | "mig.column" =>
    let f ← parseField (arg args 1)
    let ci ← parseCol (arg args 2)
    let t := trace f ci
    some (Json.mkObj [
      ("acts", Json.arr ((migrateColumn f ci).map actJ).toArray),
      ("full", sJ (fullLower f)),
      ("trace", Json.mkObj [("type", Json.bool t.typeAlter), ("same", Json.bool t.sameType), ("size", Json.bool t.sizeAlter),
        ("prec", Json.bool t.precAlter), ("null", Json.bool t.nullAlter), ("before", Json.bool t.beforeDefault),
        ("after", Json.bool t.afterDefault), ("comment", Json.bool t.commentAlter)])])
  | "mig.auto" =>
    let m ← parseModel (arg args 1)
    let c : Catalog ← match arg args 2 with
      | Json.null => some []
      | t => (parseTable t).map (fun ts => [(m.table, ts)])
    some (Json.arr ((autoMigrateOne m c).map ddlJ).toArray)
  | "mig.reorder" =>
    let g ← (← jArr? (arg args 1)).toList.mapM parseDeps
    let vs := (← (← jArr? (arg args 2)).toList.mapM jStr?).map String.toList
    let autoAdd ← jBool? (arg args 3)
    some (Json.arr ((reorderModels g vs autoAdd).map sJ).toArray)
  | "mig.reorderopt" =>
    let ms ← (← jArr? (arg args 1)).toList.mapM parseModelRels
    let vs := (← (← jArr? (arg args 2)).toList.mapM jStr?).map String.toList
    let autoAdd ← jBool? (arg args 3)
    let o : MigOpts := { disableFK := ← jBool? (arg args 4), ignoreRel := ← jBool? (arg args 5) }
    some (Json.arr ((reorderModelsOpt o ms vs autoAdd).map sJ).toArray)
  | "mig.fksopt" =>
    let ms ← (← jArr? (arg args 1)).toList.mapM parseModelRels
    let ts := (← (← jArr? (arg args 2)).toList.mapM jStr?).map String.toList
    let o : MigOpts := { disableFK := ← jBool? (arg args 3), ignoreRel := ← jBool? (arg args 4) }
    some (Json.mkObj (ts.filterMap fun t =>
      (ms.find? (fun m => m.table = t)).map fun m =>
        (String.ofList t, Json.arr ((fksOpt o m).toArray.qsort (fun a b => String.ofList a < String.ofList b) |>.map sJ))))
  | "mig.constraint" =>
    let rel ← parseRel (arg args 1)
    let rels ← (← jArr? (arg args 2)).toList.mapM parseRel
    some (match parseConstraint rel rels with
      | none => Json.null
      | some c => constraintJ c)
  | "mig.addcolumn" =>
    let t := (← jStr? (arg args 1)).toList
    let f ← parseField (arg args 2)
    some (sJ (addColumnSQL t f))
  | "mig.jointag" =>
    let tag := (← jStr? (arg args 1)).toList
    let c := joinCol joinStrip tag
    some (Json.mkObj [("tag", sJ c.tag), ("body", sJ c.body),
      ("settings", Json.arr (c.settings.map fun p => Json.arr #[sJ p.1, sJ p.2]).toArray),
      ("unique", Json.bool c.unique), ("indexed", Json.bool c.indexed), ("pk", Json.bool c.primaryKey),
      ("autoinc", Json.bool c.autoIncrement)])
  | "mig.indexes" =>
    let es ← (← jArr? (arg args 1)).toList.mapM parseEntry
    some (Json.arr ((parseIndexes es).map fun i => Json.mkObj [
      ("name", sJ i.name), ("class", sJ i.cls), ("type", sJ i.typ), ("where", sJ i.whr), ("comment", sJ i.comment),
      ("option", sJ i.option),
      ("fields", Json.arr (i.fields.map fun p => Json.arr #[sJ p.1, Json.num (JsonNumber.fromInt p.2)]).toArray)]).toArray)
  | "mig.autoraw" =>
    -- ["mig.autoraw", {table, raw:[…], fks, checks, indexes}, table|null]: AutoMigrate's iteration over the OWNERS of the columns
    let j := arg args 1
    let raw ← (← oArr j "raw").toList.mapM parseRaw
    let m := modelOfRaw (← oStr j "table") raw (← strs j "fks") (← strs j "checks") (← strs j "indexes")
    let c : Catalog ← match arg args 2 with
      | Json.null => some []
      | t => (parseTable t).map (fun ts => [(m.table, ts)])
    some (Json.mkObj [("ddl", Json.arr ((autoMigrateOne m c).map ddlJ).toArray),
      ("dbnames", Json.arr ((resolveColumns raw).map (fun f => sJ f.dbName)).toArray),
      ("owners", Json.arr ((resolveColumns raw).map (fun f => sJ f.comment)).toArray),
      ("unique", Json.arr ((resolveColumns raw).map (fun f => Json.bool (declaredUnique raw f.dbName))).toArray)])
  | "mig.guesstable" =>
    -- ["mig.guesstable", schemaTable, found]: the table GuessConstraintInterfaceAndTable answers with, and stmt.Table
    let s := (← jStr? (arg args 1)).toList
    let k ← parseFound (arg args 2)
    some (Json.mkObj [("table", sJ (guessTable s k)), ("stmt", sJ (stmtTable s))])
  | "mig.uniquefound" =>
    -- ["mig.uniquefound", schemaTable, column]: the name MigrateColumnUnique asks for, the name the parser files, what the look-up finds
    let s := (← jStr? (arg args 1)).toList
    let c := (← jStr? (arg args 2)).toList
    some (Json.mkObj [("asked", sJ (uniqueName (stmtTable s) c)), ("filed", sJ (uniqueName s c)),
      ("found", foundJ (migrateUniqueFound s c)), ("table", sJ (guessTable s (migrateUniqueFound s c)))])
  | "mig.textmatch" =>
    -- ["mig.textmatch", sql, [names…]]: gorm.io/driver/sqlite HasColumn's LIKE match on the CREATE TABLE text, per name
    let sql := (← jStr? (arg args 1)).toList
    let ns ← (← jArr? (arg args 2)).toList.mapM jStr?
    some (Json.arr (ns.map fun n => Json.bool (textHasColumn sql n.toList)).toArray)
  | "mig.adddecision" =>
    -- ["mig.adddecision", [listed column names…], [[dbName, ignore]…]]: the names AutoMigrate's column loop adds, as a
    -- function of the exact column list only
    let cols ← (← jArr? (arg args 1)).toList.mapM jStr?
    let fs ← (← jArr? (arg args 2)).toList.mapM (fun j => do
      let a ← jArr? j
      some ((← jStr? (a[0]?.getD Json.null)).toList, ← jBool? (a[1]?.getD Json.null)))
    let ci : ColumnInfo := { typeName := [], aliases := [], length := (0, false), decimal := (0, false), nullable := (true, false),
                             dflt := ([], false), comment := ([], false), unique := (false, false) }
    let decl (p : Str × Bool) : FieldDecl :=
      { dbName := p.1, ignoreMigration := p.2, primaryKey := true, dataTypeSql := [], size := 0, precision := 0, notNull := false,
        hasDefault := false, defaultIface := false, defaultValue := [], defaultExplained := [], gtype := .other, comment := [],
        unique := false }
    some (Json.arr ((addedNames (columnDDL [] (cols.map fun c => (c.toList, ci)) (fs.map decl))).map sJ).toArray)
  | _ => none

end Gorm.Drv
