import GormModel.Drv.Util
import GormModel.Gen.Pipelines
import GormModel.Gen.CallSites
import GormModel.Drv.C05
open Lean
namespace Gorm.Drv

/-- ["gen.pipeline", kind] -> names of the registered callbacks, in order, as the Lean side sees them -/
def handleGen (op : String) (args : Array Json) : Option Json := do
  match op with
  | "gen.pipeline" =>
    let k ← jStr? (arg args 1)
    let p ← Gen.pipelines.find? (fun p => p.1 = k)
    some (strListJ (p.2.map (·.name)))
  | _ => handleC05 op args  -- C05 has no slot of its own in Driver.lean: its ops are reached through here

end Gorm.Drv
