import GormModel.Drv.Util
import GormModel.Gen.Pipelines
import GormModel.Gen.CallSites
open Lean
namespace Gorm.Drv

/-- ["gen.pipeline", kind] -> names of the registered callbacks, in order, as the Lean side sees them -/
def handleGen (op : String) (args : Array Json) : Option Json := do
  match op with
  | "gen.pipeline" =>
    let k ← jStr? (arg args 1)
    let p ← Gen.pipelines.find? (fun p => p.1 = k)
    some (strListJ (p.2.map (·.name)))
  | _ => none

end Gorm.Drv
