import Lean.Data.Json
open Lean
namespace Gorm.Drv

def jInt? (j : Json) : Option Int := j.getInt?.toOption
def jNat? (j : Json) : Option Nat := j.getNat?.toOption
def jStr? (j : Json) : Option String := j.getStr?.toOption
def jBool? (j : Json) : Option Bool := j.getBool?.toOption
def jArr? (j : Json) : Option (Array Json) := j.getArr?.toOption
def arg (a : Array Json) (i : Nat) : Json := a[i]?.getD Json.null

def optIntJ : Option Int → Json
  | some n => Json.num (JsonNumber.fromInt n)
  | none => Json.null
def natJ (n : Nat) : Json := Json.num (JsonNumber.fromNat n)
def natListJ (l : List Nat) : Json := Json.arr (l.map natJ).toArray
def strListJ (l : List String) : Json := Json.arr (l.map Json.str).toArray

end Gorm.Drv
