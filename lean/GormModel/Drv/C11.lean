import GormModel.Drv.Util
import GormModel.Model.Identity
import GormModel.Gen.PreloadFacts
open Lean
namespace Gorm.Drv

def parseKeyVal (j : Json) : Option KeyVal :=
  match j with
  | Json.null => some .nil
  | _ =>
    match j.getObjVal? "s" with
    | .ok v => (jStr? v).map (fun s => KeyVal.str s.toList)
    | .error _ =>
      match j.getObjVal? "b" with
      | .ok v => (jStr? v).map (fun s => KeyVal.bytes s.toList)
      | .error _ =>
        match j.getObjVal? "u" with
        | .ok v => (jNat? v).map KeyVal.uint
        | .error _ =>
          match j.getObjVal? "i" with
          | .ok v => (jInt? v).map KeyVal.int
          | .error _ => none


def kvTag : KeyVal → String
  | .str s => "s:" ++ String.ofList s
  | .bytes s => "b:" ++ String.ofList s
  | .uint n => "u:" ++ toString n
  | .int n => "i:" ++ toString n
  | .nil => "nil"

/-- [kv, zero] -/
def parseKeyComp (j : Json) : Option KeyComp := do
  let a ← jArr? j
  let v ← parseKeyVal (arg a 0)
  let z ← jBool? (arg a 1)
  some ⟨v, z⟩

/-- [addr, [[kv, zero]…]] -/
def parseIdRow (j : Json) : Option IdRow := do
  let a ← jArr? j
  let addr ← jNat? (arg a 0)
  let key ← (← jArr? (arg a 1)).toList.mapM parseKeyComp
  some ⟨addr, key⟩

/-- [id, [kv…]] -/
def parseKChild (j : Json) : Option KChild := do
  let a ← jArr? j
  let id ← jNat? (arg a 0)
  let fk ← (← jArr? (arg a 1)).toList.mapM parseKeyVal
  some ⟨id, fk⟩

def idMapJ (m : IdMap) : Json :=
  Json.mkObj [
    ("groups", Json.arr (m.groups.map (fun g => Json.arr #[Json.str (String.ofList g.1), natListJ g.2])).toArray),
    ("values", Json.arr (m.values.map (fun t => strListJ (t.map kvTag))).toArray)]

def parseJoinRef (j : Json) : Option JoinRef := do
  let a ← jArr? j
  let own ← jBool? (arg a 0)
  let pk ← jStr? (arg a 1)
  let fk ← jStr? (arg a 2)
  let pv ← jStr? (arg a 3)
  some ⟨own, pk.toList, fk.toList, pv.toList⟩

def onAtomStr : OnAtom → String
  | .ownEq p c => "P." ++ String.ofList p ++ "=A." ++ String.ofList c
  | .relEq p c => "P." ++ String.ofList p ++ "=A." ++ String.ofList c
  | .constEq c v => "A." ++ String.ofList c ++ "='" ++ String.ofList v ++ "'"
  | .scope n => "scope" ++ toString n
  | .user n => "user" ++ toString n

/-- JVal JSON: null = nil pointer, [[name, value]…] = struct with the listed relation fields (depth-bounded) -/
def parseJVal : Nat → Json → JVal
  | 0, _ => .nilp
  | fuel + 1, j =>
    match jArr? j with
    | none => .nilp
    | some a => .obj (a.toList.filterMap (fun kv =>
        match jArr? kv with
        | some p => (jStr? (arg p 0)).map (fun k => (k.toList, parseJVal fuel (arg p 1)))
        | none => none))

def dedupNat (l : List Nat) : List Nat := l.foldl (fun acc a => if acc.contains a then acc else acc ++ [a]) []

/-- ["key.join", [vals]] -> string
    ["id.slice", [rows]] / ["id.struct", row] -> {groups, values}
    ["preload.direct", [parents], [children]] -> [[addr, [child ids]]…] (distinct addresses, first-seen order)
    ["join.on", [refs], queryClauses, userOn] -> [atoms]
    ["entry.walk", value, [hops]] -> bool (true = completes, false = nil dereference) -/
def handleC11 (op : String) (args : Array Json) : Option Json := do
  match op with
  | "key.join" =>
    let vs ← (← jArr? (arg args 1)).toList.mapM parseKeyVal
    some (Json.str (String.ofList (toStringKey vs)))
  | "id.slice" =>
    let rows ← (← jArr? (arg args 1)).toList.mapM parseIdRow
    some (idMapJ (identitySlice rows))
  | "id.struct" =>
    let r ← parseIdRow (arg args 1)
    some (idMapJ (identityStruct r))
  | "preload.direct" =>
    let ps ← (← jArr? (arg args 1)).toList.mapM parseIdRow
    let cs ← (← jArr? (arg args 2)).toList.mapM parseKChild
    let addrs := dedupNat (ps.map (·.addr))
    some (Json.arr (addrs.map (fun a => Json.arr #[natJ a, natListJ (preloadDirect ps cs a)])).toArray)
  | "entry.walk" =>
    let hops ← (← jArr? (arg args 2)).toList.mapM jStr?
    some (Json.bool (entryWalk Gen.preloadSingleNilCheck (parseJVal 16 (arg args 1)) (hops.map String.toList)))
  | "join.on" =>
    let refs ← (← jArr? (arg args 1)).toList.mapM parseJoinRef
    let qc ← jNat? (arg args 2)
    let un ← jNat? (arg args 3)
    some (strListJ ((joinOnAtoms refs qc un).map onAtomStr))
  | _ => none

end Gorm.Drv
