import GormModel.Drv.Util
import GormModel.Model.Identity
import GormModel.Model.JoinScan
import GormModel.Model.PreloadBatch
import GormModel.Model.BindLookup
import GormModel.Gen.PreloadFacts
open Lean
namespace Gorm.Drv

def parseKeyVal (j : Json) : Option KeyVal :=
  match j with
  | Json.null => some .nil
  | _ =>
    match j.getObjVal? "s" with
    | .ok v => (jStr? v).map (fun s => KeyVal.str s.toList)
    | .error _ =>
      match j.getObjVal? "b" with
      | .ok v => (jStr? v).map (fun s => KeyVal.bytes s.toList)
      | .error _ =>
        match j.getObjVal? "u" with
        | .ok v => (jNat? v).map KeyVal.uint
        | .error _ =>
          match j.getObjVal? "i" with
          | .ok v => (jInt? v).map KeyVal.int
          | .error _ => none


def kvTag : KeyVal → String
  | .str s => "s:" ++ String.ofList s
  | .bytes s => "b:" ++ String.ofList s
  | .uint n => "u:" ++ toString n
  | .int n => "i:" ++ toString n
  | .nil => "nil"

/-- [kv, zero] -/
def parseKeyComp (j : Json) : Option KeyComp := do
  let a ← jArr? j
  let v ← parseKeyVal (arg a 0)
  let z ← jBool? (arg a 1)
  some ⟨v, z⟩

/-- [addr, [[kv, zero]…]] -/
def parseIdRow (j : Json) : Option IdRow := do
  let a ← jArr? j
  let addr ← jNat? (arg a 0)
  let key ← (← jArr? (arg a 1)).toList.mapM parseKeyComp
  some ⟨addr, key⟩

/-- [id, [kv…]] -/
def parseKChild (j : Json) : Option KChild := do
  let a ← jArr? j
  let id ← jNat? (arg a 0)
  let fk ← (← jArr? (arg a 1)).toList.mapM parseKeyVal
  some ⟨id, fk⟩

def idMapJ (m : IdMap) : Json :=
  Json.mkObj [
    ("groups", Json.arr (m.groups.map (fun g => Json.arr #[Json.str (String.ofList g.1), natListJ g.2])).toArray),
    ("values", Json.arr (m.values.map (fun t => strListJ (t.map kvTag))).toArray)]

def parseJoinRef (j : Json) : Option JoinRef := do
  let a ← jArr? j
  let own ← jBool? (arg a 0)
  let pk ← jStr? (arg a 1)
  let fk ← jStr? (arg a 2)
  let pv ← jStr? (arg a 3)
  some ⟨own, pk.toList, fk.toList, pv.toList⟩

def onAtomStr : OnAtom → String
  | .ownEq p c => "P." ++ String.ofList p ++ "=A." ++ String.ofList c
  | .relEq p c => "P." ++ String.ofList p ++ "=A." ++ String.ofList c
  | .constEq c v => "A." ++ String.ofList c ++ "='" ++ String.ofList v ++ "'"
  | .scope n => "scope" ++ toString n
  | .user n => "user" ++ toString n

/-- JVal JSON: null = nil pointer, [[name, value]…] = struct with the listed relation fields (depth-bounded) -/
def parseJVal : Nat → Json → JVal
  | 0, _ => .nilp
  | fuel + 1, j =>
    match jArr? j with
    | none => .nilp
    | some a => .obj (a.toList.filterMap (fun kv =>
        match jArr? kv with
        | some p => (jStr? (arg p 0)).map (fun k => (k.toList, parseJVal fuel (arg p 1)))
        | none => none))

namespace HC11

def qAtomStr : QAtom → String
  | .constEq t c v => String.ofList t ++ "." ++ String.ofList c ++ "='" ++ String.ofList v ++ "'"
  | .colEq t c t2 c2 => String.ofList t ++ "." ++ String.ofList c ++ "=" ++ String.ofList t2 ++ "." ++ String.ofList c2

/-- [addr, [[col, kv, zero]…]]: columns not listed read as NULL / zero -/
def parsePRow (j : Json) : Option PRow := do
  let a ← jArr? j
  let addr ← jNat? (arg a 0)
  let cols ← (← jArr? (arg a 1)).toList.mapM (fun c => do
    let ca ← jArr? c
    let name ← jStr? (arg ca 0)
    let v ← parseKeyVal (arg ca 1)
    let z ← jBool? (arg ca 2)
    some (name.toList, (⟨v, z⟩ : KeyComp)))
  some ⟨addr, fun c => match cols.find? (fun kv => kv.1 == c) with
    | some kv => kv.2
    | none => ⟨.nil, true⟩⟩

def parsePairs (j : Json) : Option (List (List Char × List Char)) := do
  (← jArr? j).toList.mapM (fun p => do
    let a ← jArr? p
    let x ← jStr? (arg a 0)
    let y ← jStr? (arg a 1)
    some (x.toList, y.toList))

def pairsJ (ps : List (List Char × List Char)) : Json :=
  Json.arr (ps.map (fun p => strListJ [String.ofList p.1, String.ofList p.2])).toArray

def optTable (j : Json) : Option (List Char) :=
  match j with
  | Json.null => none
  | _ => (jStr? j).map String.toList

def joinRefJ (r : JoinRef) : Json :=
  Json.arr #[Json.bool r.ownPK, Json.str (String.ofList r.pkCol), Json.str (String.ofList r.fkCol), Json.str (String.ofList r.primaryValue)]

/-- [[[name, ptr]…], col, isNull] -/
def parseJCell (j : Json) : Option JCell := do
  let a ← jArr? j
  let chain ← (← jArr? (arg a 0)).toList.mapM (fun l => do
    let la ← jArr? l
    let n ← jStr? (arg la 0)
    let p ← jBool? (arg la 1)
    some (⟨n.toList, p⟩ : JLevel))
  let col ← jStr? (arg a 1)
  let nl ← jBool? (arg a 2)
  some ⟨chain, col.toList, nl⟩

def relPathStr (p : RelPath) : String := "__".intercalate (p.map String.ofList)

/-- [[[bind…], db]…] -/
def parseBFields (j : Json) : Option (List BField) := do
  (← jArr? j).toList.mapM (fun f => do
    let a ← jArr? f
    let bind ← (← jArr? (arg a 0)).toList.mapM jStr?
    let db ← jStr? (arg a 1)
    some (⟨bind, db⟩ : BField))

def bfieldJ : Option BField → Json
  | some f => Json.str (".".intercalate f.bind)
  | none => Json.null

end HC11
open HC11

def dedupNat (l : List Nat) : List Nat := l.foldl (fun acc a => if acc.contains a then acc else acc ++ [a]) []

/-- ["key.join", [vals]] -> string
    ["id.slice", [rows]] / ["id.struct", row] -> {groups, values}
    ["preload.direct", [parents], [children]] -> [[addr, [child ids]]…] (distinct addresses, first-seen order)
    ["join.on", [refs], queryClauses, userOn] -> [atoms]
    ["entry.walk", value, [hops]] -> bool (true = completes, false = nil dereference) -/
def handleC11 (op : String) (args : Array Json) : Option Json := do
  match op with
  | "key.join" =>
    let vs ← (← jArr? (arg args 1)).toList.mapM parseKeyVal
    some (Json.str (String.ofList (toStringKey vs)))
  | "id.slice" =>
    let rows ← (← jArr? (arg args 1)).toList.mapM parseIdRow
    some (idMapJ (identitySlice rows))
  | "id.struct" =>
    let r ← parseIdRow (arg args 1)
    some (idMapJ (identityStruct r))
  | "preload.direct" =>
    let ps ← (← jArr? (arg args 1)).toList.mapM parseIdRow
    let cs ← (← jArr? (arg args 2)).toList.mapM parseKChild
    let addrs := dedupNat (ps.map (·.addr))
    some (Json.arr (addrs.map (fun a => Json.arr #[natJ a, natListJ (preloadDirect ps cs a)])).toArray)
  | "entry.walk" =>
    let hops ← (← jArr? (arg args 2)).toList.mapM jStr?
    some (Json.bool (entryWalk Gen.preloadSingleNilCheck (parseJVal 16 (arg args 1)) (hops.map String.toList)))
  | "qc" =>
    -- ["qc", fieldTable, joinTable|null, [refs], [parents]] -> {atoms, table, cols, fields, values}
    let ft ← jStr? (arg args 1)
    let jt := optTable (arg args 2)
    let refs ← (← jArr? (arg args 3)).toList.mapM parseJoinRef
    let ps ← (← jArr? (arg args 4)).toList.mapM parsePRow
    let q := toQueryConditions ft.toList jt refs
    let m := identitySlice (ps.map (·.idRow q.valFields))
    some (Json.mkObj [
      ("atoms", strListJ (q.atoms.map qAtomStr)),
      ("table", Json.str (String.ofList q.inTable)),
      ("cols", strListJ (q.inCols.map String.ofList)),
      ("fields", strListJ (q.valFields.map String.ofList)),
      ("values", Json.arr (m.values.map (fun t => strListJ (t.map kvTag))).toArray)])
  | "spec.refs" =>
    -- ["spec.refs", belongsTo, on, consts, via|null, viaP, viaC] -> [[own, pk, fk, pv]…]
    let b ← jBool? (arg args 1)
    let on ← parsePairs (arg args 2)
    let cs ← parsePairs (arg args 3)
    let via := optTable (arg args 4)
    let vp ← parsePairs (arg args 5)
    let vc ← parsePairs (arg args 6)
    some (Json.arr ((RelSpec.refs ⟨b, on, cs, via, vp, vc⟩).map joinRefJ).toArray)
  | "preload.cols" =>
    -- ["preload.cols", [refs]] -> {direct, join, hop}: (query column, value field) pairs of preload's queries
    let refs ← (← jArr? (arg args 1)).toList.mapM parseJoinRef
    some (Json.mkObj [("direct", pairsJ (preloadDirectPairs refs)), ("join", pairsJ (preloadJoinPairs refs)),
      ("hop", pairsJ (preloadHopPairs refs)),
      ("consts", strListJ ((refs.filterMap (qcAtom [] none)).map qAtomStr))])
  | "scan.row" =>
    -- ["scan.row", [cells]] -> {alloc: [relation paths allocated for the row], sets: ["path.col" written with a non-NULL value]}
    let cells ← (← jArr? (arg args 1)).toList.mapM parseJCell
    let st := scanRow cells
    some (Json.mkObj [
      ("alloc", strListJ (st.alloc.map relPathStr)),
      ("sets", strListJ ((st.sets.filter (fun x => !x.2.2)).map (fun x => relPathStr x.1 ++ "." ++ String.ofList x.2.1)))])
  | "batch.fetch" =>
    -- ["batch.fetch", cloning, [children], [[tuple…]…]] -> [child ids fetched, batch after batch]
    let cl ← jBool? (arg args 1)
    let cs ← (← jArr? (arg args 2)).toList.mapM parseKChild
    let bs ← (← jArr? (arg args 3)).toList.mapM (fun b => do
      (← jArr? b).toList.mapM (fun t => do (← jArr? t).toList.mapM parseKeyVal))
    some (natListJ ((batchedFetch cl cs ⟨[]⟩ bs).map (·.id)))
  | "site.fetch" =>
    -- ["site.fetch", siteIndex, txClones, batchSize, [children], [tuple…]] -> child ids the current tree's k-th query site
    -- of preload fetches (split = chunks of batchSize, sub = first batchSize tuples; both unused by a whole-list, loop-free site)
    let k ← jNat? (arg args 1)
    let cl ← jBool? (arg args 2)
    let n ← jNat? (arg args 3)
    let cs ← (← jArr? (arg args 4)).toList.mapM parseKChild
    let vs ← (← jArr? (arg args 5)).toList.mapM (fun t => do (← jArr? t).toList.mapM parseKeyVal)
    let s ← currentFindSites[k]?
    some (natListJ ((siteFetch s cl (chunks (n + 1) vs.length) (fun l => l.take (n + 1)) cs vs).map (·.id)))
  | "bind.lookup" =>
    -- ["bind.lookup", fields, [bindNames], name] -> bind path of the field schema.LookUpFieldByBindName answers | null
    let fs ← parseBFields (arg args 1)
    let bn ← (← jArr? (arg args 2)).toList.mapM jStr?
    let name ← jStr? (arg args 3)
    some (bfieldJ (lookUpFieldByBindName fs bn name))
  | "bind.batch" =>
    -- ["bind.batch", fields, [[[bindNames] | null, name]…]] -> one answer per query (null bindNames = LookUpField)
    let fs ← parseBFields (arg args 1)
    let qs ← jArr? (arg args 2)
    let outs ← qs.toList.mapM (fun q => do
      let a ← jArr? q
      let name ← jStr? (arg a 1)
      match arg a 0 with
      | Json.null => some (bfieldJ (lookUpField fs name))
      | b =>
        let bn ← (← jArr? b).toList.mapM jStr?
        some (bfieldJ (lookUpFieldByBindName fs bn name)))
    some (Json.arr outs.toArray)
  | "field.lookup" =>
    -- ["field.lookup", fields, name] -> bind path of schema.LookUpField(name) | null
    let fs ← parseBFields (arg args 1)
    let name ← jStr? (arg args 2)
    some (bfieldJ (lookUpField fs name))
  | "guess.fk" =>
    -- ["guess.fk", foreign fields, [relation bindNames], base, pk, snake, single] -> bind path of the guessed foreign key | null
    let fs ← parseBFields (arg args 1)
    let bn ← (← jArr? (arg args 2)).toList.mapM jStr?
    let base ← jStr? (arg args 3)
    let pk ← jStr? (arg args 4)
    let snake ← jStr? (arg args 5)
    let single ← jBool? (arg args 6)
    some (bfieldJ (guessForeign fs bn (candidateNames base pk snake single)))
  | "assoc.facts" =>
    -- regenerated: is the repair of F35 present in the tree under test?
    some (Json.mkObj [("once", Json.bool Gen.assocCondsOnce), ("embStoresArgs", Json.bool Gen.assocEmbStoresArgs)])
  | "assoc.conds" =>
    -- ["assoc.conds", embDepth, [conds], placeholders] -> {n: conditions reaching preload, ok: Find(dest, conds…) well-formed}
    let d ← jNat? (arg args 1)
    let cs ← (← jArr? (arg args 2)).toList.mapM jStr?
    let k ← jNat? (arg args 3)
    let r := assocCondsCurrent d cs
    some (Json.mkObj [("n", natJ r.length), ("ok", Json.bool (inlineWellFormed k r))])
  | "join.on" =>
    let refs ← (← jArr? (arg args 1)).toList.mapM parseJoinRef
    let qc ← jNat? (arg args 2)
    let un ← jNat? (arg args 3)
    some (strListJ ((joinOnAtoms refs qc un).map onAtomStr))
  | _ => none

end Gorm.Drv
