import GormModel.Drv.Util
import GormModel.Model.Identity
open Lean
namespace Gorm.Drv

def parseKeyVal (j : Json) : Option KeyVal :=
  match j with
  | Json.null => some .nil
  | _ =>
    match j.getObjVal? "s" with
    | .ok v => (jStr? v).map (fun s => KeyVal.str s.toList)
    | .error _ =>
      match j.getObjVal? "b" with
      | .ok v => (jStr? v).map (fun s => KeyVal.bytes s.toList)
      | .error _ =>
        match j.getObjVal? "u" with
        | .ok v => (jNat? v).map KeyVal.uint
        | .error _ =>
          match j.getObjVal? "i" with
          | .ok v => (jInt? v).map KeyVal.int
          | .error _ => none

/-- ["key.join", [vals]] -> string -/
def handleC11 (op : String) (args : Array Json) : Option Json := do
  match op with
  | "key.join" =>
    let vs ← (← jArr? (arg args 1)).toList.mapM parseKeyVal
    some (Json.str (String.ofList (toStringKey vs)))
  | _ => none

end Gorm.Drv
