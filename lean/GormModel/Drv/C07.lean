import GormModel.Drv.Util
import GormModel.Model.SchemaCache
import GormModel.Model.WhereSwap
import GormModel.Model.SharedCell
import GormModel.Model.StmtWait
import GormModel.Model.SharedStmt
open Lean
namespace Gorm.Drv
open Gorm.SchemaCache
namespace HC07

def parseRel (j : Json) : Option Rel := do
  let p ← jArr? j
  some { target := ← jNat? (arg p 0), has := ← jBool? (arg p 1), bad := ← jBool? (arg p 2) }

def parseCfg (j : Json) : Option Cfg := do
  (← jArr? j).toList.mapM (fun tj => do (← jArr? tj).toList.mapM parseRel)

def parseNatList (j : Json) : Option (List Nat) := do (← jArr? j).toList.mapM jNat?

def scStatus (s : State) (t : Nat) : String :=
  if doneT s t then "D" else
  match (s.thr t).cur with
  | none => "S"
  | some f =>
    match f.pc with
    | .tableName => s!"P{f.ty}"
    | .wait o => if (s.objs o).closed then "R" else s!"B{f.ty}"
    | _ => "R"

/-- canonical object numbering: first appearance in (top-level returns of thread 0, 1, …; then cache by type) -/
def canonObjs (s : State) (g ntypes : Nat) : List Nat :=
  let tops := s.rets.reverse.filter (fun r => !r.nested)
  let byThread := (List.range g).flatMap (fun t => (tops.filter (fun r => r.tid == t)).map (·.obj))
  let cached := (List.range ntypes).filterMap s.cache
  (byThread ++ cached).foldl (fun acc o => if acc.contains o then acc else acc ++ [o]) []

def canonIdx (l : List Nat) (o : Nat) : Nat := (l.findIdx? (· == o)).getD 999999

def insertSorted (x : Nat × Nat) : List (Nat × Nat) → List (Nat × Nat)
  | [] => [x]
  | y :: ys => if x == y then y :: ys else if x.1 < y.1 || (x.1 == y.1 && x.2 ≤ y.2) then x :: y :: ys else y :: insertSorted x ys

/-- macro-step execution of a forced schedule: returns (effective releases with statuses after each, state, det) -/
def scExec (c : Cfg) (g : Nat) (sched : List Nat) (s0 : State) : List (Nat × List String) × State × Bool :=
  let fuel := 10000
  let doRelease := fun (acc : List (Nat × List String) × State × Bool) (t : Nat) =>
    let (tr, s, det) := acc
    if t < g && parkedT s t then
      let (s1, nd1) := release c g fuel s t
      let (s2, nd) := quiesce c g 1000 s1 nd1
      (tr ++ [(t, (List.range g).map (scStatus s2))], s2, det && !nd)
    else acc
  let acc1 := sched.foldl doRelease ([], s0, true)
  -- drain: release the lowest parked thread until nobody is parked
  let rec drain : Nat → (List (Nat × List String) × State × Bool) → (List (Nat × List String) × State × Bool)
    | 0, acc => acc
    | n + 1, acc =>
      match (List.range g).find? (fun t => parkedT acc.2.1 t) with
      | none => acc
      | some t => drain n (doRelease acc t)
  drain 2000 acc1

/-- which model branches fired (for the evidence histograms) -/
def scBranches (s : State) : List String :=
  let n1 := (s.rets.filter (·.nested)).length
  let ne := (s.rets.filter (·.err)).length
  let gp := (s.gets.filter (fun g => !g.closedAtGet)).length
  let gc := (s.gets.filter (·.closedAtGet)).length
  (if n1 > 0 then ["nested-parse"] else []) ++ (if ne > 0 then ["error-return"] else []) ++
  (if gp > 0 then ["getOrParse-hit-unclosed"] else []) ++ (if gc > 0 then ["getOrParse-hit-closed"] else [])

def parseEK (j : Json) : Option WhereSwap.EK := do
  match ← jStr? j with
  | "or1" => some .singleOr
  | "other" => some .other
  | _ => none

def parseItem (j : Json) : Option WhereSwap.Item :=
  match jStr? j with
  | some "or1" => some (.single .singleOr)
  | some "other" => some (.single .other)
  | some _ => none
  | none => do
    let inner ← (← jArr? j).toList.mapM parseEK
    some (.andGroup inner)

def swResName : SC.Res → String
  | .rows => "rows" | .prepErr => "prepErr" | .useErr => "useErr" | .badConn => "badConn"
  | .invalidDB => "invalidDB" | .stmtClosed => "stmtClosed" | .nilStmt => "nilStmt" | .done => "done"

def swViaName : SW.Via → String
  | .none => "own" | .fast => "fast" | .double => "double"

def swAns? (j : Json) : Option SC.Ans :=
  match jStr? j with
  | some "ok" => some .ok
  | some "err" => some .err
  | some "bad" => some .bad
  | _ => none

def swAct? (j : Json) : Option SC.Act := do
  let p ← jArr? j
  some (.thr (← jNat? (arg p 0)) (← swAns? (arg p 1)))

end HC07

open HC07 in
/-- ["sc.sched", cfg, progs, sched] ; ["cell.sched", sched] ; ["where.swap", [items]] (item = "or1" | "other" | [inner kinds] for an And group) -/
def handleC07 (op : String) (args : Array Json) : Option Json := do
  match op with
  | "sc.sched" =>
    let c ← parseCfg (arg args 1)
    let progs ← (← jArr? (arg args 2)).toList.mapM parseNatList
    let sched ← parseNatList (arg args 3)
    let g := progs.length
    let (tr, s, det) := scExec c g sched (init progs)
    let co := canonObjs s g c.length
    let tops := s.rets.reverse.filter (fun r => !r.nested)
    let retsJ := (List.range g).map (fun t =>
      Json.arr ((tops.filter (fun r => r.tid == t)).map (fun r =>
        Json.arr #[natJ r.ty, natJ (canonIdx co r.obj), Json.bool r.err, natJ r.nrelAtRet, Json.bool r.closedAtRet])).toArray)
    let objsJ := co.map (fun o =>
      let ob := s.objs o
      let bs := ob.backs.foldl (fun acc b => insertSorted b acc) []
      Json.arr #[natJ ob.ty, natJ ob.nrel, Json.arr (bs.map (fun b => Json.arr #[natJ b.1, natJ b.2])).toArray,
                 Json.bool ob.err, Json.bool ob.closed])
    let cacheJ := (List.range c.length).map (fun ty =>
      match s.cache ty with
      | some o => Json.num (JsonNumber.fromInt (Int.ofNat (canonIdx co o)))
      | none => Json.num (JsonNumber.fromInt (-1)))
    let allDone := (List.range g).all (fun t => doneT s t)
    some (Json.mkObj [
      ("trace", Json.arr (tr.map (fun (t, st) => Json.arr #[natJ t, strListJ st])).toArray),
      ("det", Json.bool det),
      ("done", Json.bool allDone),
      ("rets", Json.arr retsJ.toArray),
      ("objs", Json.arr objsJ.toArray),
      ("cache", Json.arr cacheJ.toArray),
      ("branches", strListJ (scBranches s)),
      ("nobj", natJ s.nobj)])
  | "where.swap" =>
    let items ← (← jArr? (arg args 1)).toList.mapM parseItem
    let (inner, ks) := WhereSwap.target items
    let idxs := List.range ks.length
    let perm := WhereSwap.after (fun i => ks.getD i .other) idxs
    some (Json.mkObj [("inner", Json.bool inner), ("perm", natListJ perm), ("writes", natListJ (WhereSwap.writes ks))])
  | "sw.run" =>
    -- ["sw.run", nThreads, tx, [[t, ans]…], drainAns]: nThreads goroutines run the same Exec/Query of ONE text through one
    -- PreparedStmtDB (tx: through a PreparedStmtTX each); the forced prefix is followed by round-robin steps with `drainAns`;
    -- wait-site configuration = the regenerated one (SW.genWCfg).  Result per goroutine + the lookup branch it went through.
    let n ← jNat? (arg args 1)
    let tx ← jBool? (arg args 2)
    let pre ← (← jArr? (arg args 3)).toList.mapM swAct?
    let da ← swAns? (arg args 4)
    let ops := (List.range n).map fun _ => SC.Op.use 0 0 tx
    let drain := (List.range 12).flatMap fun _ => (List.range n).map fun t => SC.Act.thr t da
    let w := SW.wrun (SW.winit ops 1 SC.genCfg SW.genWCfg) (pre ++ drain)
    some (Json.mkObj [
      ("results", strListJ ((List.range n).map fun t => match SC.result w.base t with | some r => swResName r | none => "running")),
      ("via", strListJ ((List.range n).map fun t =>
        match (w.base.threads t).ent with
        | some e => if (w.base.entries e).owner == t then "own" else swViaName (w.via t)
        | none => swViaName (w.via t))),
      ("preps", natJ (SC.prepCount w.base 0 0)),
      ("cfg", Json.arr #[Json.bool SW.genWCfg.errFast, Json.bool SW.genWCfg.errDouble])])
  | "cell.sched" =>
    -- ["cell.sched", sched]: the save/replace/restore protocol of DB.Scan under a schedule, in the mode the regenerated
    -- fact says the tree uses; `cell` = 0 (handle's own logger) or t+1 (recorder of goroutine t)
    let sched ← parseNatList (arg args 1)
    let s := SharedCell.run scanSwapsInPlace SharedCell.init sched
    let seen := sched.foldl (fun (acc : SharedCell.St × List Nat) t =>
      let s' := SharedCell.step scanSwapsInPlace acc.1 t
      (s', acc.2 ++ [s'.cell])) (SharedCell.init, [])
    some (Json.mkObj [("in_place", Json.bool scanSwapsInPlace), ("cell", natJ s.cell), ("cells", natListJ seen.2)])
  | "stmt.sched" =>
    -- ["stmt.sched", base, counters, sched]: Model.SharedStmt in the mode the regenerated fact says the tree uses; after every
    -- step the keys of the shared handle's clause map; at the end what every goroutine built its statement from
    let base ← parseNatList (arg args 1)
    let counters ← parseNatList (arg args 2)
    let sched ← parseNatList (arg args 3)
    let k : Nat → Bool := fun t => counters.contains t
    let seen := sched.foldl (fun (acc : SharedStmt.St × List (List Nat)) t =>
      let s' := SharedStmt.step countStripsOnReceiver k acc.1 t
      (s', acc.2 ++ [s'.base])) (SharedStmt.init base, [])
    let g := (sched.foldl Nat.max 0) + 1
    some (Json.mkObj [("on_receiver", Json.bool countStripsOnReceiver),
      ("bases", Json.arr (seen.2.map natListJ).toArray),
      ("built", Json.arr ((List.range g).map fun t => match (seen.1.ths t).built with
        | some l => natListJ l
        | none => Json.null).toArray)])
  | _ => none

end Gorm.Drv
