import GormModel.Drv.Util
import GormModel.Drv.C11
import GormModel.Model.SliceKeys
open Lean
namespace Gorm.Drv
namespace HC02

def tuplesJ (vs : List (List KeyVal)) : Json :=
  Json.arr (vs.map (fun t => strListJ (t.map kvTag))).toArray

def optTuplesJ : Option (List (List KeyVal)) → Json
  | none => Json.null
  | some vs => tuplesJ vs

/-- round-5 ops of C02 -/
def handleC02c (op : String) (args : Array Json) : Option Json := do
  match op with
  | "slicekeys" =>
    -- ["slicekeys", [[addr, [[kv, zero]…]]…]] -> {values, del, upd}: the IN list `GetIdentityFieldValuesMap` builds from a slice
    -- model value, and whether Delete / Update add it as the key unit (null = no key unit)
    let rows ← (← jArr? (arg args 1)).toList.mapM parseIdRow
    some (Json.mkObj [
      ("values", tuplesJ (sliceKeyList rows)),
      ("del", optTuplesJ (deleteSliceKeyCond rows)),
      ("upd", optTuplesJ (updateSliceKeyCond rows))])
  | "slicekeys.addressed" =>
    -- ["slicekeys.addressed", rows, [[id, [kv…]]…] table] -> ids the key unit addresses / ids of the reference
    let rows ← (← jArr? (arg args 1)).toList.mapM parseIdRow
    let table ← (← jArr? (arg args 2)).toList.mapM (fun j => do
      let a ← jArr? j
      let id ← jNat? (arg a 0)
      let key ← (← jArr? (arg a 1)).toList.mapM parseKeyVal
      some (⟨id, key⟩ : SKRow))
    some (Json.mkObj [
      ("addressed", natListJ ((sliceAddressed rows table).map (·.id))),
      ("spec", natListJ ((sliceSpec rows table).map (·.id)))])
  | _ => none

end HC02
end Gorm.Drv
