import GormModel.Drv.Util
import GormModel.Model.TxFault
import GormModel.Model.Stages
open Lean
namespace Gorm.Drv
open Gorm.TxF Gorm.Stg
namespace HC05

def optStr? (j : Json) : Option (Option String) :=
  if j.isNull then some none else (jStr? j).map some

def beginRes? (j : Json) : Option BeginRes :=
  match jStr? j with
  | some "ok" => some .ok
  | some "notBeginner" => some .notBeginner
  | some "sentinel" => some .failSentinel
  | some _ => none
  | none => do
    let a ← jArr? j
    let k ← jStr? (arg a 0)
    if k = "fail" then some (.fail (← jStr? (arg a 1))) else none

def optStrJ : Option String → Json
  | none => Json.null
  | some s => Json.str s

def stJ (s : St) : Json :=
  Json.mkObj [("err", optStrJ s.err), ("started", Json.bool s.started), ("onTx", Json.bool s.onTx),
    ("open", natJ s.openTx), ("log", strListJ s.log)]

def w? (j : Json) : Option W := do
  let a ← jArr? j
  let row ← jNat? (arg a 0)
  let f ← optStr? (arg a 1)
  let ap ← jBool? (arg a 2)
  some { row := row, fail := f, applied := ap }

def batches? (j : Json) : Option (List (List W)) := do
  (← jArr? j).toList.mapM (fun b => do (← jArr? b).toList.mapM w?)

def viewJ (v : View) : Json :=
  Json.mkObj [("err", Json.bool v.err.isSome), ("rows", Json.arr (v.rows.map natJ).toArray), ("log", strListJ v.log)]

end HC05
open HC05 in
/-- ["c05.begin", skip, db.Error|null, beginRes]                      -> state after BeginTransaction
    ["c05.finish", skip, started, db.Error|null, commitErr|null, rollbackErr|null] -> state after CommitOrRollbackTransaction
    ["c05.run", skip, beginRes, [stmtErr|null…], commitErr|null, rollbackErr|null] -> state after the whole write
    ["c05.scantail", mode, db.Error|null, rowsErr|null, same]                      -> db.Error after the tail of Scan
    ["c05.qstmt", mode, callErr|null, loopErr|null, rowsErr|null, same, closeErr|null] -> db.Error after a query-path statement
    ["c05.xstmt", isCreate, supportReturning, callErr|null, affected, rowsAffErr|null, lastIdOk, lastIdErr|null]
                                                                                  -> db.Error after an exec-path statement
    ["c05.cib", inTx, skip, disableNested, createBatchSize, len, [rows before…], [[ [row, fail|null, applied]…]…]]
        -> {err, rows, log} of Stg.createFin (createBatchSize = 0: one plain pipeline over all statements) -/
def handleC05 (op : String) (args : Array Json) : Option Json := do
  match op with
  | "c05.begin" =>
    let skip ← jBool? (arg args 1)
    let e ← optStr? (arg args 2)
    let b ← beginRes? (arg args 3)
    some (stJ (beginTransaction skip { St.init with err := e } b))
  | "c05.finish" =>
    let skip ← jBool? (arg args 1)
    let started ← jBool? (arg args 2)
    let e ← optStr? (arg args 3)
    let c ← optStr? (arg args 4)
    let r ← optStr? (arg args 5)
    some (stJ (commitOrRollback skip { St.init with err := e, started := started, onTx := started, openTx := if started then 1 else 0 } c r))
  | "c05.run" =>
    let skip ← jBool? (arg args 1)
    let b ← beginRes? (arg args 2)
    let es ← (← jArr? (arg args 3)).toList.mapM optStr?
    let c ← optStr? (arg args 4)
    let r ← optStr? (arg args 5)
    some (stJ (runWrite skip b es c r))
  | "c05.scantail" =>
    let mode ← jNat? (arg args 1)
    let cur ← optStr? (arg args 2)
    let re ← optStr? (arg args 3)
    let same ← jBool? (arg args 4)
    some (optStrJ (scanTail mode cur re same))
  | "c05.qstmt" =>
    let mode ← jNat? (arg args 1)
    let ce ← optStr? (arg args 2)
    let le ← optStr? (arg args 3)
    let re ← optStr? (arg args 4)
    let same ← jBool? (arg args 5)
    let cl ← optStr? (arg args 6)
    some (optStrJ (queryStmt mode none { callErr := ce, loopErr := le, rowsErr := re, sameAsCur := same, closeErr := cl }))
  | "c05.xstmt" =>
    let isCreate ← jBool? (arg args 1)
    let sr ← jBool? (arg args 2)
    let ce ← optStr? (arg args 3)
    let aff ← jNat? (arg args 4)
    let ra ← optStr? (arg args 5)
    let ok ← jBool? (arg args 6)
    let le ← optStr? (arg args 7)
    some (optStrJ (execStmt isCreate sr none { callErr := ce, affected := aff, rowsAffErr := ra, lastIdOk := ok, lastIdErr := le }))
  | "c05.cib" =>
    let inTx ← jBool? (arg args 1)
    let skip ← jBool? (arg args 2)
    let dis ← jBool? (arg args 3)
    let cbs ← jNat? (arg args 4)
    let len ← jNat? (arg args 5)
    let before ← (← jArr? (arg args 6)).toList.mapM jNat?
    let bs ← batches? (arg args 7)
    some (viewJ (createFin { inTx := inTx, skipDefault := skip, disableNested := dis } cbs len
      { rows := before, err := none, log := [] } bs))
  | _ => none

end Gorm.Drv
