import GormModel.Drv.Util
import GormModel.Model.TxFault
open Lean
namespace Gorm.Drv
open Gorm.TxF
namespace HC05

def optStr? (j : Json) : Option (Option String) :=
  if j.isNull then some none else (jStr? j).map some

def beginRes? (j : Json) : Option BeginRes :=
  match jStr? j with
  | some "ok" => some .ok
  | some "notBeginner" => some .notBeginner
  | some "sentinel" => some .failSentinel
  | some _ => none
  | none => do
    let a ← jArr? j
    let k ← jStr? (arg a 0)
    if k = "fail" then some (.fail (← jStr? (arg a 1))) else none

def optStrJ : Option String → Json
  | none => Json.null
  | some s => Json.str s

def stJ (s : St) : Json :=
  Json.mkObj [("err", optStrJ s.err), ("started", Json.bool s.started), ("onTx", Json.bool s.onTx),
    ("open", natJ s.openTx), ("log", strListJ s.log)]

end HC05
open HC05 in
/-- ["c05.begin", skip, db.Error|null, beginRes]                      -> state after BeginTransaction
    ["c05.finish", skip, started, db.Error|null, commitErr|null, rollbackErr|null] -> state after CommitOrRollbackTransaction
    ["c05.run", skip, beginRes, [stmtErr|null…], commitErr|null, rollbackErr|null] -> state after the whole write -/
def handleC05 (op : String) (args : Array Json) : Option Json := do
  match op with
  | "c05.begin" =>
    let skip ← jBool? (arg args 1)
    let e ← optStr? (arg args 2)
    let b ← beginRes? (arg args 3)
    some (stJ (beginTransaction skip { St.init with err := e } b))
  | "c05.finish" =>
    let skip ← jBool? (arg args 1)
    let started ← jBool? (arg args 2)
    let e ← optStr? (arg args 3)
    let c ← optStr? (arg args 4)
    let r ← optStr? (arg args 5)
    some (stJ (commitOrRollback skip { St.init with err := e, started := started, onTx := started, openTx := if started then 1 else 0 } c r))
  | "c05.run" =>
    let skip ← jBool? (arg args 1)
    let b ← beginRes? (arg args 2)
    let es ← (← jArr? (arg args 3)).toList.mapM optStr?
    let c ← optStr? (arg args 4)
    let r ← optStr? (arg args 5)
    some (stJ (runWrite skip b es c r))
  | _ => none

end Gorm.Drv
