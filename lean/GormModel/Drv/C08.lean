import GormModel.Drv.Util
import GormModel.Model.SoftDeleteMode
import GormModel.Model.AssocScope
import GormModel.Model.PreloadAssign
open Lean
namespace Gorm.Drv

/-- `{"valid": …, "zero": …, "text": …}`: the `sql.NullString` ZeroValue of the live-row filter and what clause.Eq renders for it -/
def softModeJ (m : SoftMode.Mode) : Json :=
  Json.mkObj [("valid", Json.bool m.valid), ("zero", Json.str m.str), ("text", Json.str m.filterText)]

/-- line-protocol handler for C08 (ops are JSON arrays `[opname, args…]`); returns `none` for ops it does not own.

    `["c08.mode", present : Bool, parseOk : Bool, tag : String]` — a soft-delete field whose `zeroValue:` tag is `present` with
    text `tag`, which `now.Parse` accepts iff `parseOk`: the mode of the live-row filter on the query / update / delete path
    (`SoftMode.filterModeNow (tagMode present parseOk tag)`), as
    `{"query": {"valid","zero","text"}, "update": {…}, "delete": {…}}`.
    `["c08.chain", propagate, u, steps]` — `AssocScope.finisherUnscoped` (tie suite `chain.tie`).
    `["c08.deleteAssoc", arm, propagate, u]` — `AssocScope.deleteAssocFlag` over the regenerated arms of DeleteBeforeAssociations
    (tie suite `assoc.tie`); `["c08.deleteAssoc.allCopy"]` — `AssocScope.deleteAssocAllCopy` (is F33's repair present).
    `["c08.preloadAssign", destKind ("struct" | "slice"), relKind ("hasone" | "hasmany" | "belongsto" | "m2m"), old, fetched]` —
    `PreloadAssign.preloadField` over the regenerated clean-up arms: the keys a relation field shows after preload() when it held
    `old` and the child query returned `fetched` for this parent; `["c08.joinsAssign", old, fetched]` — `joinsAssign` (tie suite `dest.tie`). -/
def handleC08 (op : String) (args : Array Json) : Option Json := do
  match op with
  | "c08.mode" =>
    let present ← jBool? (arg args 1)
    let parseOk ← jBool? (arg args 2)
    let tag ← jStr? (arg args 3)
    let tm := SoftMode.tagMode present parseOk tag
    some (Json.mkObj [
      ("query", softModeJ (SoftMode.filterModeNow tm .query)),
      ("update", softModeJ (SoftMode.filterModeNow tm .update)),
      ("delete", softModeJ (SoftMode.filterModeNow tm .delete))])
  | "c08.chain" =>
    -- `["c08.chain", propagate : Bool, u : Bool, [step, …]]` → the Statement.Unscoped the finisher after the chain sees
    let propagate ← jBool? (arg args 1)
    let u ← jBool? (arg args 2)
    let steps ← jArr? (arg args 3)
    let chain ← steps.toList.mapM jStr?
    some (Json.bool (AssocScope.finisherUnscoped propagate u chain))
  | "c08.deleteAssoc" =>
    -- `["c08.deleteAssoc", arm : String, propagate : Bool, u : Bool]` → the Statement.Unscoped the nested Delete of that arm of
    -- DeleteBeforeAssociations sees on THIS tree (regenerated arms); null: no such arm.  `["c08.deleteAssoc.allCopy"]` → Bool
    let arm ← jStr? (arg args 1)
    let propagate ← jBool? (arg args 2)
    let u ← jBool? (arg args 3)
    some (match AssocScope.deleteAssocFlag Gen.deleteAssocArms arm propagate u with
      | some b => Json.bool b
      | none => Json.null)
  | "c08.deleteAssoc.allCopy" =>
    some (Json.bool (AssocScope.deleteAssocAllCopy Gen.deleteAssocArms))
  | "c08.preloadAssign" =>
    let dk ← (match (arg args 1).getStr?.toOption with
      | some "struct" => some PreloadAssign.DestKind.struct
      | some "slice" => some PreloadAssign.DestKind.slice
      | _ => none)
    let k ← (match (arg args 2).getStr?.toOption with
      | some "hasone" => some PreloadAssign.RelKind.hasOne
      | some "hasmany" => some PreloadAssign.RelKind.hasMany
      | some "belongsto" => some PreloadAssign.RelKind.belongsTo
      | some "m2m" => some PreloadAssign.RelKind.many2Many
      | _ => none)
    let old ← (← jArr? (arg args 3)).toList.mapM jNat?
    let fetched ← (← jArr? (arg args 4)).toList.mapM jNat?
    some (natListJ (PreloadAssign.preloadField Gen.preloadResetArms Gen.preloadResetBeforeAssign dk k 1 old
      (fetched.map (fun r => (1, r)))))
  | "c08.joinsAssign" =>
    let old ← (← jArr? (arg args 1)).toList.mapM jNat?
    let fetched ← (← jArr? (arg args 2)).toList.mapM jNat?
    some (natListJ (PreloadAssign.joinsAssign old fetched.head?))
  | _ => none

end Gorm.Drv
