import GormModel.Drv.Util
import GormModel.Model.DryRun
import GormModel.Model.DryRunRecv
open Lean
namespace Gorm.Drv

namespace HC19
open Gorm Gorm.Gen

def whats (l : List DEv) : List String := l.map (fun e => e.fn ++ "." ++ e.what)

def outJ (o : ExecOut) : Json :=
  Json.mkObj [("built", strListJ (whats o.built)), ("sent", strListJ (o.sent.map (·.what))),
    ("txs", strListJ (o.txs.map (·.what))), ("keeps", Json.bool o.keepsSQL)]

def symJ : StSym → Json
  | .recv => "recv"
  | .empty => "empty"
  | .lost => "lost"

def handleJ (h : DryHandle) : Json :=
  Json.mkObj [("stmt", symJ h.stmt), ("fresh", Json.bool (h.clone > 0)), ("dryRun", Json.bool h.dryRun),
    ("skipDefaultTx", Json.bool h.skipDefaultTx), ("ok", Json.bool h.ok)]

def flagOf : String → Option SessFlag
  | "DryRun" => some .dryRun
  | "PrepareStmt" => some .prepareStmt
  | "NewDB" => some .newDB
  | "Initialized" => some .initialized
  | "SkipHooks" => some .skipHooks
  | "SkipDefaultTransaction" => some .skipDefaultTransaction
  | "DisableNestedTransaction" => some .disableNestedTransaction
  | "AllowGlobalUpdate" => some .allowGlobalUpdate
  | "FullSaveAssociations" => some .fullSaveAssociations
  | "PropagateUnscoped" => some .propagateUnscoped
  | "QueryFields" => some .queryFields
  | "Context" => some .hasContext
  | "Logger" => some .hasLogger
  | "NowFunc" => some .hasNowFunc
  | "CreateBatchSize" => some .batchSizePos
  | _ => none

def poolOf : String → Option PoolKind
  | "plain" => some .plain
  | "prepDB" => some .prepDB
  | "prepTX" => some .prepTX
  | _ => none

end HC19

/-- ["c19.exec", pipeline, dryRun, skipDefaultTx, err, skipHooks, hasSchema, [false atoms], fuel]
      -> {built, sent, txs, keeps} of `execute` over the regenerated table, all other atoms true
    ["c19.finisher", pipeline, batched, explicitTx, dryRun, skipDefaultTx, fuel]
      -> {exposed: [...], txs: [...]} (finisher level)
    ["c19.session", [Session field names that are set]] -> {stmt, fresh, dryRun, skipDefaultTx, ok} of `sessionHandle`
    ["c19.tosql"] -> the same for `toSQLHandle` (the handle DB.ToSQL passes to its callback)
    ["c19.wire", pool kind, sql, [values]] -> {prepared, text, args} | null  (what the driver is handed)
    ["c19.flags"] -> {beginSkipsDryRun}  (which `DB.Begin` the tree has: regenerated fact, Gen/DryRunRepair.lean)
    The model is instantiated with the tree's own flag `Gen.beginSkipsDryRun`. -/
def handleC19 (op : String) (args : Array Json) : Option Json := do
  match op with
  | "c19.exec" =>
    let pn ← jStr? (arg args 1)
    let p ← Gen.pipelines.find? (fun p => p.1 = pn)
    let b2 ← jBool? (arg args 2)
    let b3 ← jBool? (arg args 3)
    let b4 ← jBool? (arg args 4)
    let b5 ← jBool? (arg args 5)
    let b6 ← jBool? (arg args 6)
    let st : RunSt := { dryRun := b2, skipDefaultTx := b3, err := b4, skipHooks := b5, hasSchema := b6 }
    let falses ← (← jArr? (arg args 7)).toList.mapM jStr?
    let fuel ← jNat? (arg args 8)
    some (HC19.outJ (execute Gen.beginSkipsDryRun Gen.dryFns p.2 st (fun a => !falses.contains a) fuel))
  | "c19.finisher" =>
    let pn ← jStr? (arg args 1)
    let b2 ← jBool? (arg args 2)
    let b3 ← jBool? (arg args 3)
    let b4 ← jBool? (arg args 4)
    let b5 ← jBool? (arg args 5)
    let f : FinSpec := { name := "", pipeline := pn, batched := b2, explicitTx := b3 }
    let st : RunSt := { dryRun := b4, skipDefaultTx := b5, err := false, skipHooks := false, hasSchema := true }
    let fuel ← jNat? (arg args 6)
    some (Json.mkObj [("exposed", strListJ (HC19.whats (exposed Gen.beginSkipsDryRun Gen.dryFns f st (fun _ => true) fuel))),
      ("txs", strListJ ((finisherTx Gen.beginSkipsDryRun Gen.dryFns f st (fun _ => true) fuel).map (·.what)))])
  | "c19.session" =>
    let fs ← (← jArr? (arg args 1)).toList.mapM (fun j => do HC19.flagOf (← jStr? j))
    some (HC19.handleJ (sessionHandle (SessFlags.ofList fs)))
  | "c19.tosql" => some (HC19.handleJ toSQLHandle)
  | "c19.wire" =>
    let k ← HC19.poolOf (← jStr? (arg args 1))
    let sql ← jStr? (arg args 2)
    let vars ← (← jArr? (arg args 3)).toList.mapM jStr?
    some (match wire k sql vars with
      | some w => Json.mkObj [("prepared", match w.prepared with | some p => Json.str p | none => Json.null),
          ("text", Json.str w.text), ("args", strListJ w.args)]
      | none => Json.null)
  | "c19.flags" => some (Json.mkObj [("beginSkipsDryRun", Json.bool Gen.beginSkipsDryRun)])
  | _ => none

end Gorm.Drv
