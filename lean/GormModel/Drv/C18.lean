import GormModel.Drv.Util
import GormModel.Model.Handle
open Lean
namespace Gorm.Drv

namespace HC18
open Gorm

def parseFlag : String → Option SessFlag
  | "DryRun" => some .dryRun
  | "PrepareStmt" => some .prepareStmt
  | "NewDB" => some .newDB
  | "Initialized" => some .initialized
  | "SkipHooks" => some .skipHooks
  | "SkipDefaultTransaction" => some .skipDefaultTransaction
  | "DisableNestedTransaction" => some .disableNestedTransaction
  | "AllowGlobalUpdate" => some .allowGlobalUpdate
  | "FullSaveAssociations" => some .fullSaveAssociations
  | "PropagateUnscoped" => some .propagateUnscoped
  | "QueryFields" => some .queryFields
  | "Context" => some .hasContext
  | "Logger" => some .hasLogger
  | "NowFunc" => some .hasNowFunc
  | "CreateBatchSize" => some .batchSizePos
  | _ => none

def parseFlags (j : Json) : Option SessFlags := do
  let fs ← (← jArr? j).toList.mapM (fun x => jStr? x >>= parseFlag)
  some (SessFlags.ofList fs)

def symJ : CtxSym → Json
  | .parent => Json.str "parent"
  | .config => Json.str "config"
  | .lost => Json.str "lost"

/-- one step of a caller-level derivation: ["gi"] or ["us", [flag names], ctx] -/
def parseStep (j : Json) : Option Deriv := do
  let a ← jArr? j
  match ← jStr? (arg a 0) with
  | "gi" => some .getInstance
  | "us" => some (.userSession (← parseFlags (arg a 1)) (← jNat? (arg a 2)))
  | _ => none

/-- what the step does to the RECEIVER's statement context (symbolically) -/
def parentAfter : Deriv → CtxSym
  | .userSession fl _ => (sessionRun fl).parentStmt
  | _ => .parent

def trace (h : Handle) : List Deriv → List Json
  | [] => []
  | d :: ds =>
    let h' := h.step d
    Json.arr #[natJ h'.ctx, natJ h'.clone, symJ (parentAfter d)] :: trace h' ds

end HC18

open HC18 in
/-- ["c18.derive", ctx0, clone0, [steps]] -> per step [ctx, clone, what happened to the receiver's statement context]
    ["c18.session", [flag names]] -> [ok, stmt, next, parentStmt, clone, shared] of the regenerated Session() body -/
def handleC18 (op : String) (args : Array Json) : Option Json := do
  match op with
  | "c18.derive" =>
    let c ← jNat? (arg args 1)
    let cl ← jNat? (arg args 2)
    let ds ← (← jArr? (arg args 3)).toList.mapM parseStep
    some (Json.arr (trace { ctx := c, clone := cl } ds).toArray)
  | "c18.session" =>
    let fl ← parseFlags (arg args 1)
    let r := Gorm.sessionRun fl
    some (Json.arr #[Json.bool r.ok, symJ r.stmt, symJ r.next, symJ r.parentStmt, natJ r.clone, Json.bool r.shared])
  | _ => none

end Gorm.Drv
