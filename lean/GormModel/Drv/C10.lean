import GormModel.Drv.Util
open Lean
namespace Gorm.Drv

/-- line-protocol handler for C10 (ops are JSON arrays `[opname, args…]`); returns `none` for ops it does not own -/
def handleC10 (op : String) (args : Array Json) : Option Json := do
  match op with
  | _ => none

end Gorm.Drv
