import GormModel.Drv.Util
import GormModel.Model.WriteSet
import GormModel.Model.FieldZero
import GormModel.Model.ChainRows
open Lean
namespace Gorm.Drv
open Gorm.WriteSet
open Gorm.FieldZero
namespace HC10

def c10Name? (j : Json) : Option Col := (jStr? j).map String.toList
def c10Names? (j : Json) : Option (List Col) := do (← jArr? j).toList.mapM c10Name?
def c10NameJ (n : Col) : Json := Json.str (String.ofList n)
def c10NamesJ (l : List Col) : Json := Json.arr (l.map c10NameJ).toArray

def c10Field? (j : Json) : Option FieldSpec := do
  let a ← jArr? j
  some { name := ← c10Name? (arg a 0), dbName := ← c10Name? (arg a 1),
         primaryKey := ← jBool? (arg a 2), creatable := ← jBool? (arg a 3), updatable := ← jBool? (arg a 4),
         readable := ← jBool? (arg a 5), autoCreateTime := ← jBool? (arg a 6), autoUpdateTime := ← jBool? (arg a 7),
         hasDefault := ← jBool? (arg a 8), defaultIface := ← jBool? (arg a 9), defaultNull := ← jBool? (arg a 10) }

def c10Schema? (j : Json) : Option Schema := do
  let table ← c10Name? (← (j.getObjVal? "table").toOption)
  let fields ← (← jArr? (← (j.getObjVal? "fields").toOption)).toList.mapM c10Field?
  let rels ← c10Names? (← (j.getObjVal? "rels").toOption)
  let ddb ← c10Names? (← (j.getObjVal? "defaultDB").toOption)
  some { table := table, fields := fields, rels := rels, defaultDB := ddb }

/-- `null` = the statement has no schema -/
def c10SchemaO? (j : Json) : Option (Option Schema) :=
  if j.isNull then some none else (c10Schema? j).map some

def c10Pair? (j : Json) : Option (Col × Col) := do
  let a ← jArr? j
  some (← c10Name? (arg a 0), ← c10Name? (arg a 1))

def c10KeyNil? (j : Json) : Option (Col × Bool) := do
  let a ← jArr? j
  some (← c10Name? (arg a 0), ← jBool? (arg a 1))

def c10Rows? (j : Json) : Option (List (List Col)) := do (← jArr? j).toList.mapM c10Names?

/-- Go value as JSON: ["int",n] ["uint",n] ["str",s] ["bool",b] ["float","<bits, decimal>"] ["nilptr"] ["ptr",v] ["nilslice"]
    ["slice",len] ["nilmap"] ["map",len] ["niliface"] ["iface"] ["array",[v…]] ["struct",[v…]] -/
partial def c10GoVal? (j : Json) : Option GoVal := do
  let a ← jArr? j
  match ← jStr? (arg a 0) with
  | "int" => some (.int (← jInt? (arg a 1)))
  | "uint" => some (.uint (← jNat? (arg a 1)))
  | "str" => some (.str (← c10Name? (arg a 1)))
  | "bool" => some (.bool (← jBool? (arg a 1)))
  | "float" => some (.float (← (← jStr? (arg a 1)).toNat?))
  | "nilptr" => some .nilPtr
  | "ptr" => some (.ptr (← c10GoVal? (arg a 1)))
  | "nilslice" => some .nilSlice
  | "slice" => some (.slice (← jNat? (arg a 1)))
  | "nilmap" => some .nilMap
  | "map" => some (.map (← jNat? (arg a 1)))
  | "niliface" => some .nilIface
  | "iface" => some .iface
  | "array" => some (.array (← (← jArr? (arg a 1)).toList.mapM c10GoVal?))
  | "struct" => some (.struct (← (← jArr? (arg a 1)).toList.mapM c10GoVal?))
  | _ => none

/-- `field.StructField.Index` as the JSON list of Go ints (negative = pointer-embedded struct) -/
def c10Step? (j : Json) : Option Step := do
  let i ← jInt? j
  if i >= 0 then some (.field i.toNat) else some (.ptrField (-i - 1).toNat)

/-- [name, index path, serializer?] -/
def c10Access? (j : Json) : Option Access := do
  let a ← jArr? j
  some { name := ← c10Name? (arg a 0), path := ← (← jArr? (arg a 1)).toList.mapM c10Step?, serializer := ← jBool? (arg a 2) }

def c10Accesses? (j : Json) : Option (List Access) := do (← jArr? j).toList.mapM c10Access?

end HC10
open HC10 in
/-- line-protocol handler for C10 (ops are JSON arrays `[opname, args…]`); returns `none` for ops it does not own -/
def handleC10 (op : String) (args : Array Json) : Option Json := do
  match op with
  | "c10.perm" =>
    let tags ← (← jArr? (arg args 1)).toList.mapM c10Pair?
    let p := permOfTags tags
    some (Json.arr #[Json.bool p.creatable, Json.bool p.updatable, Json.bool p.readable, Json.bool p.ignoreMigration])
  | "c10.match" =>
    let s ← c10Name? (arg args 1)
    let r := matchName s
    some (Json.arr #[c10NameJ r.1, c10NameJ r.2])
  | "c10.sao" =>
    let s ← c10Schema? (arg args 1)
    let sel ← c10Names? (arg args 2)
    let om ← c10Names? (arg args 3)
    let r := selectAndOmit s sel om (← jBool? (arg args 4)) (← jBool? (arg args 5))
    let keys := (r.1.map (·.1)).eraseDups
    let kv := keys.map fun k => Json.arr #[c10NameJ k, Json.bool ((r.1.lookup k).getD false)]
    some (Json.mkObj [("r", Json.arr kv.toArray), ("restricted", Json.bool r.2)])
  | "c10.updmap" =>
    let s ← c10Schema? (arg args 1)
    let keys ← (← jArr? (arg args 5)).toList.mapM c10KeyNil?
    let set := assignmentsOfMap s (← c10Names? (arg args 2)) (← c10Names? (arg args 3)) (← jBool? (arg args 4)) keys
    some (Json.arr #[c10NamesJ set, c10NamesJ (modelConds s (← c10Names? (arg args 6)))])
  | "c10.updstruct" =>
    let s ← c10Schema? (arg args 1)
    let u ← c10Schema? (arg args 2)
    let r := assignmentsOfStruct s u (← c10Names? (arg args 3)) (← c10Names? (arg args 4)) (← jBool? (arg args 5))
      (← jBool? (arg args 6)) (← c10Names? (arg args 7)) (← c10Names? (arg args 8))
    some (Json.arr #[c10NamesJ r.1, c10NamesJ r.2])
  | "c10.create" =>
    let s ← c10Schema? (arg args 1)
    let sel ← c10Names? (arg args 2)
    let om ← c10Names? (arg args 3)
    let cols := createColumns s sel om (← jBool? (arg args 4)) (← c10Rows? (arg args 5))
    let ups := if (← jBool? (arg args 6)) then upsertAssignments s sel om cols else []
    let conf := if (← jBool? (arg args 6)) then conflictColumns s cols else []
    some (Json.arr #[c10NamesJ cols, c10NamesJ ups, c10NamesJ conf])
  | "c10.createmap" =>
    let s ← c10Schema? (arg args 1)
    some (c10NamesJ (createColumnsMap s (← c10Names? (arg args 2)) (← c10Names? (arg args 3)) (← c10Names? (arg args 4))))
  | "c10.createmaps" =>
    let s ← c10Schema? (arg args 1)
    some (c10NamesJ (createColumnsMaps s (← c10Names? (arg args 2)) (← c10Names? (arg args 3)) (← c10Rows? (arg args 4))))
  | "c10.upsert" =>
    let s ← c10Schema? (arg args 1)
    some (c10NamesJ (upsertAssignments s (← c10Names? (arg args 2)) (← c10Names? (arg args 3)) (← c10Names? (arg args 4))))
  | "c10.save" =>
    let s ← c10Schema? (arg args 1)
    let nz ← c10Names? (arg args 4)
    let r := saveAssignments s (← c10Names? (arg args 2)) (← c10Names? (arg args 3)) nz
    let route := match saveRoute s nz with
      | .create => "create"
      | .update => "update"
    some (Json.arr #[Json.str route, c10NamesJ r.1, c10NamesJ r.2])
  | "c10.delconds" =>
    let s ← c10Schema? (arg args 1)
    some (c10NamesJ (deleteConds s (← c10Names? (arg args 2)) (← c10Names? (arg args 3)) (← jBool? (arg args 4))))
  | "c10.rowsel" =>
    -- [schema, kind, nz names of the value carrying the key, key (col,val) pairs, rows as lists of (col,val) pairs]
    let s ← c10Schema? (arg args 1)
    let kind ← jStr? (arg args 2)
    let nz ← c10Names? (arg args 3)
    let key ← (← jArr? (arg args 4)).toList.mapM c10Pair?
    let rows ← (← jArr? (arg args 5)).toList.mapM fun r => do (← jArr? r).toList.mapM c10Pair?
    let conds := match kind with
      | "model" => modelConds s nz                                      -- Model(&m).Update…: first block of ConvertToAssignments
      | "self" => (assignmentsOfStruct s s [star] [] true false nz nz).2 -- Save(&v) / Model(&v).Updates(&v): field loop
      | "delete" => identityConds s nz
      | _ => conflictColumns s [star]                                   -- upsert: conflict target
    some (Json.mkObj [("conds", c10NamesJ conds),
      ("rows", Json.arr ((selectRows conds (rowOf key) 0 (rows.map rowOf)).map (fun n => Json.num (JsonNumber.fromNat n))).toArray)])
  | "c10.saoO" =>
    let o ← c10SchemaO? (arg args 1)
    let sel ← c10Names? (arg args 2)
    let om ← c10Names? (arg args 3)
    let r := selectAndOmitO o sel om (← jBool? (arg args 4)) (← jBool? (arg args 5))
    let keys := (r.1.map (·.1)).eraseDups
    let kv := keys.map fun k => Json.arr #[c10NameJ k, Json.bool ((r.1.lookup k).getD false)]
    some (Json.mkObj [("r", Json.arr kv.toArray), ("restricted", Json.bool r.2)])
  | "c10.updmapO" =>
    let o ← c10SchemaO? (arg args 1)
    let keys ← (← jArr? (arg args 5)).toList.mapM c10KeyNil?
    let set := assignmentsOfMapO o (← c10Names? (arg args 2)) (← c10Names? (arg args 3)) (← jBool? (arg args 4)) keys
    some (Json.arr #[c10NamesJ set, c10NamesJ (modelCondsO o (← c10Names? (arg args 6)))])
  | "c10.createmapO" =>
    let o ← c10SchemaO? (arg args 1)
    let sel ← c10Names? (arg args 2)
    let om ← c10Names? (arg args 3)
    let cols := createColumnsMapO o sel om (← c10Names? (arg args 4))
    let ups := if (← jBool? (arg args 5)) then upsertAssignmentsO o sel om cols else []
    some (Json.arr #[c10NamesJ cols, c10NamesJ ups])
  | "c10.createmapsO" =>
    let o ← c10SchemaO? (arg args 1)
    some (c10NamesJ (createColumnsMapsO o (← c10Names? (arg args 2)) (← c10Names? (arg args 3)) (← c10Rows? (arg args 4))))
  | "c10.delcondsO" =>
    let o ← c10SchemaO? (arg args 1)
    some (c10NamesJ (deleteCondsO o (← c10Names? (arg args 2)) (← c10Names? (arg args 3)) (← jBool? (arg args 4))))
  | "c10.chainsel" =>
    -- [groupFirst, softScoped, rows = [[terms = [[isOr, value]…], key, live]…]] -> per row [selected, targeted]
    let gf ← jBool? (arg args 1)
    let soft ← jBool? (arg args 2)
    let rows ← (← jArr? (arg args 3)).toList.mapM fun r => do
      let a ← jArr? r
      let ts ← (← jArr? (arg a 0)).toList.mapM fun t => do
        let p ← jArr? t
        some ((← jBool? (arg p 0)), (← jBool? (arg p 1)))
      some (ts, (← jBool? (arg a 1)), (← jBool? (arg a 2)))
    some (Json.arr (rows.map fun (ts, key, live) =>
      Json.arr #[Json.bool (Gorm.ChainRows.selected gf soft ts key live), Json.bool (Gorm.ChainRows.targeted soft ts key live)]).toArray)
  | "c10.saverow" =>
    some (Json.bool (saveWritesRow (← jBool? (arg args 1)) (← jBool? (arg args 2)) (← jBool? (arg args 3))))
  | "c10.kzero" =>
    -- [accesses, record] -> zero flag of field.ValueOf per field
    let accs ← c10Accesses? (arg args 1)
    let r ← c10GoVal? (arg args 2)
    some (Json.arr (accs.map fun a => Json.bool (valueOfZero a r)).toArray)
  | "c10.kstruct" =>
    -- [schema, updSchema, selects, omits, destIsModel, skipHooks, accesses (of upd), record, modelNz]
    let s ← c10Schema? (arg args 1)
    let u ← c10Schema? (arg args 2)
    let r := structSetOfRecord s u (← c10Names? (arg args 3)) (← c10Names? (arg args 4)) (← jBool? (arg args 5))
      (← jBool? (arg args 6)) (← c10Accesses? (arg args 7)) (← c10GoVal? (arg args 8)) (← c10Names? (arg args 9))
    some (Json.arr #[c10NamesJ r.1, c10NamesJ r.2])
  | "c10.kcreate" =>
    -- [schema, selects, omits, isSlice, accesses, records, upsertAll]
    let s ← c10Schema? (arg args 1)
    let sel ← c10Names? (arg args 2)
    let om ← c10Names? (arg args 3)
    let recs ← (← jArr? (arg args 6)).toList.mapM c10GoVal?
    let cols := createColumnsOfRecords s sel om (← jBool? (arg args 4)) (← c10Accesses? (arg args 5)) recs
    let ups := if (← jBool? (arg args 7)) then upsertAssignments s sel om cols else []
    let conf := if (← jBool? (arg args 7)) then conflictColumns s cols else []
    some (Json.arr #[c10NamesJ cols, c10NamesJ ups, c10NamesJ conf])
  | "c10.ksave" =>
    -- [schema, selects, omits, accesses, record]
    let s ← c10Schema? (arg args 1)
    let r := saveOfRecord s (← c10Names? (arg args 2)) (← c10Names? (arg args 3)) (← c10Accesses? (arg args 4)) (← c10GoVal? (arg args 5))
    let route := match r.1 with
      | .create => "create"
      | .update => "update"
    some (Json.arr #[Json.str route, c10NamesJ r.2.1, c10NamesJ r.2.2])
  | _ => none

end Gorm.Drv
