import GormModel.Drv.Util
import GormModel.Model.Scan
import GormModel.Model.SchemaAttrs
import GormModel.Model.Serializer
import GormModel.Model.DestKey
import GormModel.Gen.BackfillFacts
import GormModel.Gen.SchemaDeclFacts
open Lean
namespace Gorm.Drv
open Gorm.Scan
namespace HC03

/-! JSON codec for the C03 ops.  Integers travel as decimal strings (64-bit values do not survive a float64
    JSON decoder), byte strings as arrays of numbers. -/

def intJ (n : Int) : Json := Json.str (toString n)
def jBigInt? (j : Json) : Option Int :=
  match j with
  | Json.str s => s.toInt?
  | _ => jInt? j

def parseTy (s : String) : Option Ty :=
  match s with
  | "bool" => some .bool | "int" => some .int | "i8" => some .i8 | "i16" => some .i16 | "i32" => some .i32
  | "i64" => some .i64 | "uint" => some .uint | "u8" => some .u8 | "u16" => some .u16 | "u32" => some .u32
  | "u64" => some .u64 | "f32" => some .f32 | "f64" => some .f64 | "str" => some .str | "bytes" => some .bytes
  | "time" => some .time | _ => none

def tyStr : Ty → String
  | .bool => "bool" | .int => "int" | .i8 => "i8" | .i16 => "i16" | .i32 => "i32" | .i64 => "i64"
  | .uint => "uint" | .u8 => "u8" | .u16 => "u16" | .u32 => "u32" | .u64 => "u64" | .f32 => "f32"
  | .f64 => "f64" | .str => "str" | .bytes => "bytes" | .time => "time"

def parseBytes (j : Json) : Option (List Nat) := do
  (← jArr? j).toList.mapM jNat?

/-- ["b",bool] | ["i",ty,"n"] | ["f",ty,"bits"] | ["s",[..]] | ["y",[..]] | ["t","sec",nsec] -/
def parseVal (j : Json) : Option Val := do
  let a ← jArr? j
  match ← jStr? (arg a 0) with
  | "b" => some (.bool (← jBool? (arg a 1)))
  | "i" => some (.int (← parseTy (← jStr? (arg a 1))) (← jBigInt? (arg a 2)))
  | "f" => some (.flt (← parseTy (← jStr? (arg a 1))) (← jBigInt? (arg a 2)).toNat)
  | "s" => some (.str (← parseBytes (arg a 1)))
  | "y" => some (.bytes (← parseBytes (arg a 1)))
  | "t" => some (.time (← jBigInt? (arg a 1)) (← jNat? (arg a 2)))
  | _ => none

def valJ : Val → Json
  | .bool b => Json.arr #[Json.str "b", Json.bool b]
  | .int t n => Json.arr #[Json.str "i", Json.str (tyStr t), intJ n]
  | .flt t b => Json.arr #[Json.str "f", Json.str (tyStr t), intJ b]
  | .str s => Json.arr #[Json.str "s", natListJ s]
  | .bytes s => Json.arr #[Json.str "y", natListJ s]
  | .time s n => Json.arr #[Json.str "t", intJ s, natJ n]

def parseOptVal (j : Json) : Option (Option Val) :=
  match j with
  | Json.null => some none
  | _ => (parseVal j).map some

def fvalJ : FVal → Json
  | none => Json.null
  | some v => valJ v

def parseW (n : Nat) : Option W :=
  match n with | 8 => some .w8 | 16 => some .w16 | 32 => some .w32 | 64 => some .w64 | _ => none

/-- [base, width, ptr, named, tu] -/
def parseKind (j : Json) : Option FKind := do
  let a ← jArr? j
  let w := (jNat? (arg a 1)).getD 0
  let base ← match ← jStr? (arg a 0) with
    | "bool" => some Base.bool
    | "int" => (parseW w).map Base.int
    | "uint" => (parseW w).map Base.uint
    | "float" => some (Base.float (w == 32))
    | "string" => some Base.string
    | "bytes" => some Base.bytes
    | "time" => some Base.time
    | _ => none
  let tu ← match ← jStr? (arg a 4) with
    | "sec" => some TimeUnit.sec | "milli" => some TimeUnit.milli | "nano" => some TimeUnit.nano | _ => none
  some { base := base, ptr := ← jBool? (arg a 2), named := ← jBool? (arg a 3), tu := tu }

/-- ["nil"] | ["val",named,Val] | ["ptr",named,ty,Val|null] | ["pp",named,ty,"outer-nil"|null|Val]
    | ["valuer","err"|null|Val] | ["other"] -/
def parseSrc (j : Json) : Option Src := do
  let a ← jArr? j
  match ← jStr? (arg a 0) with
  | "nil" => some .nil
  | "val" => some (.val (← jBool? (arg a 1)) (← parseVal (arg a 2)))
  | "ptr" => some (.ptr (← jBool? (arg a 1)) (← parseTy (← jStr? (arg a 2))) (← parseOptVal (arg a 3)))
  | "pp" =>
    let named ← jBool? (arg a 1)
    let t ← parseTy (← jStr? (arg a 2))
    match arg a 3 with
    | Json.str "outer-nil" => some (.pp named t none)
    | x => some (.pp named t (some (← parseOptVal x)))
  | "valuer" =>
    match arg a 1 with
    | Json.str "err" => some (.valuer none)
    | x => some (.valuer (some (← parseOptVal x)))
  | "other" => some .other
  | _ => none

def srcJ : Src → Json
  | .nil => Json.arr #[Json.str "nil"]
  | .val n v => Json.arr #[Json.str "val", Json.bool n, valJ v]
  | .ptr n t p => Json.arr #[Json.str "ptr", Json.bool n, Json.str (tyStr t), fvalJ p]
  | .pp n t none => Json.arr #[Json.str "pp", Json.bool n, Json.str (tyStr t), Json.str "outer-nil"]
  | .pp n t (some p) => Json.arr #[Json.str "pp", Json.bool n, Json.str (tyStr t), fvalJ p]
  | .valuer none => Json.arr #[Json.str "valuer", Json.str "err"]
  | .valuer (some p) => Json.arr #[Json.str "valuer", fvalJ p]
  | .other => Json.arr #[Json.str "other"]

def resJ : R → Json
  | .ok fv => Json.arr #[Json.str "ok", fvalJ fv]
  | .error .failed => Json.arr #[Json.str "err", Json.str "failed"]
  | .error .parse => Json.arr #[Json.str "err", Json.str "parse"]
  | .error .unmodelled => Json.arr #[Json.str "unmodelled"]

def intListJ (l : List Int) : Json := Json.arr (l.map (fun n => Json.num (JsonNumber.fromInt n))).toArray
def parseIntList (j : Json) : Option (List Int) := do (← jArr? j).toList.mapM jInt?

/-- [name, dbName|null, depth, perm, ignored] -/
def parsePField (j : Json) : Option (PField String) := do
  let a ← jArr? j
  let db := match arg a 1 with
    | Json.str s => some s
    | _ => none
  some { name := ← jStr? (arg a 0), dbName := db, depth := ← jNat? (arg a 2), perm := ← jBool? (arg a 3), ignored := ← jBool? (arg a 4) }

def optNatJ : Option Nat → Json
  | some n => natJ n
  | none => Json.null

/-- null | [null|n, …] -/
def parseDoc (j : Json) : Option (Option (List (Option Nat))) :=
  match j with
  | Json.null => some none
  | _ => do
    let a ← jArr? j
    some (some (a.toList.map (fun x => jNat? x)))

/-- declaration list: [["f", name, col|null, perm] | ["e", name, anon, pfx, [kids…]], …] (fuel = nesting bound) -/
def parseDecl : Nat → List Json → Option EDecl
  | _, [] => some .nil
  | 0, _ => none
  | fuel + 1, j :: rest => do
    let a ← jArr? j
    let next ← parseDecl (fuel + 1 - 1) rest
    match ← jStr? (arg a 0) with
    | "f" =>
      let col := match arg a 2 with
        | Json.str s => some s
        | _ => none
      some (.field (← jStr? (arg a 1)) col (← jBool? (arg a 3)) next)
    | "e" =>
      let kids ← parseDecl fuel (← jArr? (arg a 4)).toList
      some (.embed (← jStr? (arg a 1)) (← jBool? (arg a 2)) (← jStr? (arg a 3)) kids next)
    | _ => none

def optStrJ : Option String → Json
  | some s => Json.str s
  | none => Json.null

def parseDefKind (j : Json) : Option DefKind :=
  match j with
  | Json.str "none" => some .none
  | Json.str "db" => some .db
  | Json.str "autopk" => some .autoPk
  | _ => (jInt? j).map .lit

/-- [name, "none"|"db"|"autopk"|<literal default>] -/
def parseCCol (j : Json) : Option CCol := do
  let a ← jArr? j
  some { name := ← jStr? (arg a 0), dk := ← parseDefKind (arg a 1) }

/-- [null | n, …]: `null` = nil map, `n` = key entry of the map (0 = none) -/
def parseMapEnts (j : Json) : Option (List (Option Int)) := do
  (← jArr? j).toList.mapM (fun x => match x with
    | Json.null => some none
    | _ => (jInt? x).map some)

/-! round 4: declarations → schema attributes (Model.SchemaAttrs) -/

def parseAKind (s : String) : Option Attrs.Kind :=
  match s with
  | "bool" => some .bool | "int" => some .int | "uint" => some .uint | "float" => some .float
  | "string" => some .string | "time" => some .time | "bytes" => some .bytes | "other" => some .other | _ => none

/-- declaration list: [["f", name, kind, tag, defCol, selfSer, ptr] | ["e", name, anon, tag, [kids…]], …] (fuel = nesting bound) -/
def parseADecl : Nat → List Json → Option Attrs.Decl
  | _, [] => some .nil
  | 0, _ => none
  | fuel + 1, j :: rest => do
    let a ← jArr? j
    let next ← parseADecl (fuel + 1 - 1) rest
    match ← jStr? (arg a 0) with
    | "f" =>
      some (.leaf { name := ← jStr? (arg a 1), kind := ← parseAKind (← jStr? (arg a 2)), tag := ← jStr? (arg a 3),
                    defCol := ← jStr? (arg a 4), selfSer := ← jBool? (arg a 5), ptr := ← jBool? (arg a 6) } next)
    | "e" =>
      let kids ← parseADecl fuel (← jArr? (arg a 4)).toList
      some (.embed (← jStr? (arg a 1)) (← jBool? (arg a 2)) (← jStr? (arg a 3)) kids next)
    | _ => none

def dtStr : Attrs.DT → String
  | .none => "" | .bool => "bool" | .int => "int" | .uint => "uint" | .float => "float" | .string => "string"
  | .time => "time" | .bytes => "bytes"

def ttNat : Attrs.TT → Nat
  | .none => 0 | .unixTime => 1 | .sec => 2 | .milli => 3 | .nano => 4

def defValJ : Option Attrs.DefVal → Json
  | none => Json.null
  | some (.bool b) => Json.arr #[Json.str "bool", Json.bool b]
  | some (.int n) => Json.arr #[Json.str "int", intJ n]
  | some (.str s) => Json.arr #[Json.str "str", Json.str s]
  | some .float => Json.arr #[Json.str "float"]

def afieldJ (f : Attrs.AField) : Json :=
  Json.arr #[Json.str f.name, Json.str f.dbName, strListJ f.path, Json.str (dtStr f.gormDT), Json.bool f.typed,
    Json.bool f.primaryKey, Json.bool f.autoInc, intJ f.autoIncInc, Json.bool f.hasDefault, Json.str f.defaultValue,
    defValJ f.defaultIface, Json.bool f.creatable, Json.bool f.updatable, Json.bool f.readable,
    natJ (ttNat f.autoCreate), natJ (ttNat f.autoUpdate), Json.bool f.ignoreMigration]

def parseBoolList (j : Json) : Option (List Bool) := do (← jArr? j).toList.mapM jBool?

def parseEnts (j : Json) : Option (List (String × Json)) := do
  (← jArr? j).toList.mapM (fun e => do
    let a ← jArr? e
    some (← jStr? (arg a 0), arg a 1))

def dbvJ : Ser.DBV → Json
  | .null => Json.null
  | .time n => Json.arr #[Json.str "time", intJ n]
  | .text s => Json.arr #[Json.str "text", Json.str s]
  | .blob b => Json.arr #[Json.str "blob", natListJ b]

def parseDBV (j : Json) : Option Ser.DBV :=
  match j with
  | Json.null => some .null
  | _ => do
    let a ← jArr? j
    match ← jStr? (arg a 0) with
    | "time" => some (.time (← jBigInt? (arg a 1)))
    | "text" => some (.text (← jStr? (arg a 1)))
    | "blob" => some (.blob (← parseBytes (arg a 1)))
    | _ => none

def ufieldJ : Ser.UField → Json
  | .val n => Json.arr #[Json.str "val", intJ n]
  | .ptr none => Json.arr #[Json.str "ptr", Json.null]
  | .ptr (some n) => Json.arr #[Json.str "ptr", intJ n]

def parseUField (j : Json) : Option Ser.UField := do
  let a ← jArr? j
  match ← jStr? (arg a 0) with
  | "val" => some (.val (← jBigInt? (arg a 1)))
  | "ptr" => match arg a 1 with
    | Json.null => some (.ptr none)
    | x => some (.ptr (some (← jBigInt? x)))
  | _ => none

def scanActJ : Ser.ScanAct → Json
  | .zero => Json.str "zero"
  | .decode s => Json.arr #[Json.str "decode", Json.str s]
  | .decodeBlob b => Json.arr #[Json.str "decode-blob", natListJ b]
  | .error => Json.str "error"

end HC03
open HC03 in
def handleC03 (op : String) (args : Array Json) : Option Json := do
  match op with
  | "c03.mapcreate" =>
    -- ["c03.mapcreate", decl|null, selects, omits, single, [[[key, value]…]…]] →
    --   "error" | "unmodelled" | single: [[column, value]…] | slice: [columns, [[value|null]…]]
    let sch ← match arg args 1 with
      | Json.null => some none
      | d => do some (some (Attrs.parseDecl Gen.priorityNeedsColumn (← parseADecl 200 (← jArr? d).toList)))
    let sels ← (← jArr? (arg args 2)).toList.mapM jStr?
    let oms ← (← jArr? (arg args 3)).toList.mapM jStr?
    let single ← jBool? (arg args 4)
    let ms ← (← jArr? (arg args 5)).toList.mapM parseEnts
    if (sch.map (·.unmodelled)).getD false then some (Json.str "unmodelled")
    else if (sch.map (·.bad)).getD false then some (Json.str "error")
    else if single then
      some (Json.arr ((Attrs.mapCreateOne sch sels oms (ms.headD [])).map (fun e => Json.arr #[Json.str e.1, e.2])).toArray)
    else
      let (cols, rows) := Attrs.mapCreateMany sch sels oms ms
      some (Json.arr #[strListJ cols, Json.arr (rows.map (fun r => Json.arr (r.map (·.getD Json.null)).toArray)).toArray])
  | "c03.ser.unix" =>
    -- ["c03.ser.unix", field] → [Value, round trip into a fresh struct | "error"]
    let f ← parseUField (arg args 1)
    some (Json.arr #[dbvJ (Ser.unixValue f), match Ser.unixRoundTrip f with
      | some g => ufieldJ g
      | none => Json.str "error"])
  | "c03.ser.unixscan" =>
    -- ["c03.ser.unixscan", current field, dbValue] → field | "error"
    let f ← parseUField (arg args 1)
    let d ← parseDBV (arg args 2)
    some (match Ser.unixScan f d with
      | some g => ufieldJ g
      | none => Json.str "error")
  | "c03.ser.json" =>
    -- ["c03.ser.json", notNull, marshalled text] → [Value, what Scan does with it]
    let nn ← jBool? (arg args 1)
    let enc ← jStr? (arg args 2)
    let v := Ser.jsonValue nn enc
    some (Json.arr #[dbvJ v, scanActJ (Ser.jsonScan v)])
  | "c03.ser.scan" =>
    -- ["c03.ser.scan", "json"|"gob", dbValue] → what Scan does
    let d ← parseDBV (arg args 2)
    match ← jStr? (arg args 1) with
    | "json" => some (scanActJ (Ser.jsonScan d))
    | "gob" => some (scanActJ (Ser.gobScan d))
    | _ => none
  | "c03.set" =>
    -- ["c03.set", kind, cur, src] → result of field.Set
    let k ← parseKind (arg args 1)
    let cur ← parseOptVal (arg args 2)
    let s ← parseSrc (arg args 3)
    some (resJ (setField k cur s))
  | "c03.valueof" =>
    let k ← parseKind (arg args 1)
    let fv ← parseOptVal (arg args 2)
    let (s, z) := valueOf k fv
    some (Json.arr #[srcJ s, Json.bool z])
  | "c03.rt" =>
    -- ["c03.rt", kind, fv] → [representable, "store-err" | result]
    let k ← parseKind (arg args 1)
    let fv ← parseOptVal (arg args 2)
    let r := match store (valueOf k fv).1 with
      | .error _ => Json.str "create-error"
      | .ok d => match load k d with
        | .error .unmodelled => Json.arr #[Json.str "unmodelled"]
        | .error _ => Json.str "load-error"
        | .ok s => resJ (setField k k.zero s)
    some (Json.arr #[Json.bool (representable k fv), r])
  | "c03.destkey" =>
    -- ["c03.destkey", [[column, value]…]] (members of Schema.PrimaryFields with the value the destination holds, 0 = zero)
    --   → the conditions [[column, value]…] of the destination-key block
    let key ← (← jArr? (arg args 1)).toList.mapM (fun e => do
      let a ← jArr? e
      some ((← jStr? (arg a 0)), (← jNat? (arg a 1))))
    some (Json.arr ((destKeyConds key).map (fun p => Json.arr #[Json.str p.1, natJ p.2])).toArray)
  | "c03.facts" =>
    -- regenerated facts the back-fill model follows (extract/gen_c03.go)
    some (Json.mkObj [("guardsKeyKind", Json.bool Gen.backfillGuardsKeyKind), ("mapsSkipPreset", Json.bool Gen.backfillMapsSkipPreset),
      ("createFound", Json.bool Gen.backfillCreateFound), ("mapsLoopFound", Json.bool Gen.backfillMapsLoopFound),
      ("priorityNeedsColumn", Json.bool Gen.priorityNeedsColumn)])
  | "c03.backfill" =>
    -- ["c03.backfill", reversed, hasDefault, autoInc, intType, inc, keys, rowsAffected, lastId|null]
    let rev ← jBool? (arg args 1)
    let hd ← jBool? (arg args 2)
    let auto ← jBool? (arg args 3)
    let intT ← jBool? (arg args 4)
    let inc ← jInt? (arg args 5)
    let ks ← parseIntList (arg args 6)
    let ra ← jInt? (arg args 7)
    let lid := jInt? (arg args 8)
    some (intListJ (createBackfill Gen.backfillGuardsKeyKind rev hd auto intT inc ks ⟨ra, lid⟩))
  | "c03.backfillmaps" =>
    -- ["c03.backfillmaps", reversed, noSchema, hasDefault, autoInc, intType, [null|key…], rowsAffected, lastId|null]
    let rev ← jBool? (arg args 1)
    let noSchema ← jBool? (arg args 2)
    let hd ← jBool? (arg args 3)
    let auto ← jBool? (arg args 4)
    let intT ← jBool? (arg args 5)
    let ms ← parseMapEnts (arg args 6)
    let ra ← jInt? (arg args 7)
    let lid := jInt? (arg args 8)
    let keyOk := noSchema || backfillGuard Gen.backfillGuardsKeyKind hd auto intT
    some (Json.arr ((createBackfillMaps Gen.backfillMapsSkipPreset rev keyOk ms ⟨ra, lid⟩).map optIntJ).toArray)
  | "c03.createmaps" =>
    -- ["c03.createmaps", returning, ptrDest, max, n] → null | [[key|null…], len]
    let ret ← jBool? (arg args 1)
    let p ← jBool? (arg args 2)
    let m ← jInt? (arg args 3)
    let n ← jNat? (arg args 4)
    match createMaps Gen.backfillMapsSkipPreset ret p m n with
    | none => some (Json.str "error")
    | some (ks, len) => some (Json.arr #[Json.arr (ks.map optIntJ).toArray, natJ len])
  | "c03.createmapskeys" =>
    -- ["c03.createmapskeys", max, keys] → [[key entry of every map afterwards], [row keys]]   (no RETURNING)
    let m ← jInt? (arg args 1)
    let ks ← parseIntList (arg args 2)
    let (mem, rows, _) := createMapsKeys Gen.backfillMapsSkipPreset m ks
    some (Json.arr #[Json.arr (mem.map optIntJ).toArray, intListJ rows])
  | "c03.lookup" =>
    -- ["c03.lookup", fields, names] → [LookUpField per name, DBNames, FieldsByName per name]
    let fs ← (← jArr? (arg args 1)).toList.mapM parsePField
    let names ← (← jArr? (arg args 2)).toList.mapM jStr?
    let st := parseReg fs
    some (Json.arr #[Json.arr (names.map (fun n => optNatJ (lookUpField st n))).toArray, strListJ st.dbNames,
      Json.arr (names.map (fun n => optNatJ ((assoc n st.byName).map (·.1)))).toArray])
  | "c03.scanloop" =>
    -- ["c03.scanloop", renew, nKeys, docs] → value handed to each record
    let renew ← jBool? (arg args 1)
    let n ← jNat? (arg args 2)
    let docs ← (← jArr? (arg args 3)).toList.mapM parseDoc
    let proto := List.replicate n 0
    some (Json.arr ((scanLoop mergeDoc proto renew proto docs).map natListJ).toArray)
  | "c03.scandn" =>
    let ks ← parseIntList (arg args 1)
    let rows ← parseIntList (arg args 2)
    some (intListJ (scanUpdateDN ks rows))
  | "c03.batches" =>
    let n ← jNat? (arg args 1)
    let b ← jNat? (arg args 2)
    some (Json.arr ((batchBounds n b n 0).map (fun (i, e) => natListJ [i, e])).toArray)
  | "c03.create" =>
    -- ["c03.create", returning, maxRowid, keys, batchSize(0 = plain Create)] → [mem, rows]
    let ret ← jBool? (arg args 1)
    let m ← jInt? (arg args 2)
    let ks ← parseIntList (arg args 3)
    let b ← jNat? (arg args 4)
    let (mem, rows, _) := if b == 0 then createSlice ret m ks else createInBatches ret m ks b
    some (Json.arr #[intListJ mem, intListJ rows])
  | "c03.embed" =>
    -- ["c03.embed", decl] → [[[path, dbName|null, depth]…] (schema.Fields), [[column, owner path]…] (DBNames order)]
    let t ← parseDecl 16 (← jArr? (arg args 1)).toList
    let flat := flattenE [] "" t
    some (Json.arr #[Json.arr (flat.map (fun pf => Json.arr #[strListJ pf.1, optStrJ pf.2.dbName, natJ pf.2.depth])).toArray,
      Json.arr ((embedOwners t).map (fun o => Json.arr #[Json.str o.1, strListJ o.2])).toArray])
  | "c03.insertshape" =>
    -- ["c03.insertshape", supportReturning, cols, recs, single, gens] → [INSERT columns, RETURNING columns|null, mem, rows]
    let sup ← jBool? (arg args 1)
    let cols ← (← jArr? (arg args 2)).toList.mapM parseCCol
    let recs ← (← jArr? (arg args 3)).toList.mapM parseIntList
    let single ← jBool? (arg args 4)
    let gens ← (← jArr? (arg args 5)).toList.mapM parseIntList
    let ins := if single then insertColsOne cols (recs.headD []) else insertColsSlice cols recs
    let ret := match returningCols sup cols with
      | some l => strListJ l
      | none => Json.null
    let pairs := recs.zip gens
    let genOf (g : List Int) : Nat → Int := fun i => (nth? g i).getD 0
    some (Json.arr #[strListJ ins, ret,
      Json.arr (pairs.map (fun p => intListJ (memAfter sup cols (genOf p.2) p.1))).toArray,
      Json.arr (pairs.map (fun p => intListJ (rowOf cols (genOf p.2) p.1))).toArray])
  | "c03.attrs" =>
    -- ["c03.attrs", decl, [[single, [nonzero per schema field]], …]] →
    --   "error" | "unmodelled" | [fields, dbNames, owners, primaryFields, prioritized|null, withDefaultDB, RETURNING list, [INSERT columns …]]
    let d ← parseADecl 200 (← jArr? (arg args 1)).toList
    let qs ← (← jArr? (arg args 2)).toList.mapM (fun q => do
      let a ← jArr? q
      some (← jBool? (arg a 0), ← parseBoolList (arg a 1)))
    let s := Attrs.parseDecl Gen.priorityNeedsColumn d
    if s.unmodelled then some (Json.str "unmodelled")
    else if s.bad then some (Json.str "error")
    else
      some (Json.arr #[Json.arr (s.fields.map afieldJ).toArray, strListJ s.dbNames, natListJ (s.byDB.map (·.2)),
        natListJ s.primaryFields, optNatJ s.prioritized, natListJ s.withDefaultDB, strListJ (Attrs.withDefaultNames s),
        Json.arr (qs.map (fun q => strListJ (Attrs.insertColsA q.1 s (fun i => (nth? q.2 i).getD false)))).toArray])
  | _ => none

end Gorm.Drv
