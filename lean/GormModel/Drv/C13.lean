import GormModel.Drv.Util
import GormModel.Model.Hooks
import GormModel.Gen.Pipelines
import GormModel.Gen.Finishers
open Lean
namespace Gorm.Drv

def hevJ : HEv → Json
  | .hook n i => Json.arr #[Json.str n, natJ i]
  | .stmt => Json.arr #[Json.str "stmt"]

/-- ["hooks.events", pipeline, [implemented hook names], n] -> predicted event list (no failure) -/
def handleC13 (op : String) (args : Array Json) : Option Json := do
  match op with
  | "hooks.events" =>
    let k ← jStr? (arg args 1)
    let hsJ ← jArr? (arg args 2)
    let hs ← hsJ.toList.mapM jStr?
    let n ← jNat? (arg args 3)
    let p ← Gen.pipelines.find? (fun p => p.1 = k)
    some (Json.arr ((opEvents Gen.handlers p.2 (fun h => hs.contains h) n).map hevJ).toArray)
  | "hooks.compound" =>
    -- ["hooks.compound", finisher, [implemented hooks], n, batchSize (0 = not batched)] -> the event lists of
    -- every run (control-flow path) of the finisher over n top-level records
    let fn ← jStr? (arg args 1)
    let hsJ ← jArr? (arg args 2)
    let hs ← hsJ.toList.mapM jStr?
    let n ← jNat? (arg args 3)
    let b ← jNat? (arg args 4)
    let batches := if b = 0 then [] else batchRanges n b
    let runs := (runsOf Gen.finishers skipHookFinishers 4 false fn).eraseDups
    some (Json.arr (runs.map (fun run =>
      Json.arr ((compoundEvents Gen.pipelines Gen.handlers (fun h => hs.contains h) run n batches).map hevJ).toArray)).toArray)
  | "hooks.batches" =>
    let n ← jNat? (arg args 1)
    let b ← jNat? (arg args 2)
    some (Json.arr ((batchRanges n b).map (fun r => natJ (r.2 - r.1))).toArray)
  | _ => none

end Gorm.Drv
