import GormModel.Drv.Util
import GormModel.Model.Hooks
import GormModel.Model.HookSchema
import GormModel.Model.HookVisit
import GormModel.Model.HookWalk
import GormModel.Gen.Pipelines
import GormModel.Gen.Finishers
open Lean
namespace Gorm.Drv

def hevJ : HEv → Json
  | .hook n i => Json.arr #[Json.str n, natJ i]
  | .stmt => Json.arr #[Json.str "stmt"]

namespace HC13

def methsOf (j : Json) : Option (List Meth) := do
  let a ← jArr? j
  a.toList.mapM fun m => do
    let p ← jArr? m
    some ⟨← jStr? (arg p 0), ← jStr? (arg p 1)⟩

/-- error values: ["plain", id] | ["sentinel", name] | ["wrap", e] | ["join", a, b] | ["isall", id]; fuel bounds the depth -/
def errOf : Nat → Json → Option ErrV
  | 0, _ => none
  | fuel+1, j => do
    let a ← jArr? j
    match ← jStr? (arg a 0) with
    | "plain" => some (.plain (← jNat? (arg a 1)))
    | "sentinel" => some (.sentinel (← jStr? (arg a 1)))
    | "isall" => some (.isAll (← jNat? (arg a 1)))
    | "wrap" => some (.wrap (← errOf fuel (arg a 1)))
    | "join" => some (.join (← errOf fuel (arg a 1)) (← errOf fuel (arg a 2)))
    | _ => none

def natList? (j : Json) : Option (List Nat) := do
  (← jArr? j).toList.mapM jNat?

def vevJ : VEv → Json
  | .before n => Json.arr #[Json.str "b", natJ n]
  | .stmt b => Json.arr #[Json.str "s", natListJ b]
  | .after n => Json.arr #[Json.str "a", natJ n]

end HC13

/-- ["hooks.events", pipeline, [implemented hook names], n] -> predicted event list (no failure) -/
def handleC13 (op : String) (args : Array Json) : Option Json := do
  match op with
  | "hooks.events" =>
    let k ← jStr? (arg args 1)
    let hsJ ← jArr? (arg args 2)
    let hs ← hsJ.toList.mapM jStr?
    let n ← jNat? (arg args 3)
    let p ← Gen.pipelines.find? (fun p => p.1 = k)
    some (Json.arr ((opEvents Gen.handlers p.2 (fun h => hs.contains h) n).map hevJ).toArray)
  | "hooks.compound" =>
    -- ["hooks.compound", finisher, [implemented hooks], n, batchSize (0 = not batched)] -> the event lists of
    -- every run (control-flow path) of the finisher over n top-level records
    let fn ← jStr? (arg args 1)
    let hsJ ← jArr? (arg args 2)
    let hs ← hsJ.toList.mapM jStr?
    let n ← jNat? (arg args 3)
    let b ← jNat? (arg args 4)
    let batches := if b = 0 then [] else batchRanges n b
    let runs := (runsOf Gen.finishers skipHookFinishers 4 false fn).eraseDups
    some (Json.arr (runs.map (fun run =>
      Json.arr ((compoundEvents Gen.pipelines Gen.handlers (fun h => hs.contains h) run n batches).map hevJ).toArray)).toArray)
  | "hooks.flags" =>
    -- ["hooks.flags", [[method, signature]…]] -> Schema flags schema.Parse computes + which hook call sites fire
    let ms ← HC13.methsOf (arg args 1)
    some (Json.mkObj [
      ("flags", Json.arr ((genFlags ms).map fun p => Json.arr #[Json.str p.1, Json.bool p.2]).toArray),
      ("sites", Json.arr (Gen.hookSites.map fun s => Json.arr #[Json.str s.handler, Json.str s.hook, Json.bool (siteFires ms s)]).toArray)])
  | "hooks.eventsms" =>
    -- ["hooks.eventsms", pipeline, [[method, signature]…], n] -> predicted event list for a model with that method set
    let k ← jStr? (arg args 1)
    let ms ← HC13.methsOf (arg args 2)
    let n ← jNat? (arg args 3)
    let p ← Gen.pipelines.find? (fun p => p.1 = k)
    some (Json.arr ((opEventsMs Gen.handlers p.2 ms n).map hevJ).toArray)
  | "hooks.errflow" =>
    -- ["hooks.errflow", cur | null, e, [sentinels], [atoms that are true]] -> db.Error after AddError(e), what
    -- CommitOrRollbackTransaction does, errors.Is of the stored error against each sentinel
    let cur := HC13.errOf 16 (arg args 1)
    let e ← HC13.errOf 16 (arg args 2)
    let sents ← (← jArr? (arg args 3)).toList.mapM jStr?
    let trueAtoms ← (← jArr? (arg args 4)).toList.mapM jStr?
    let atom := fun a => trueAtoms.contains a
    let r := hookAddError atom cur e
    some (Json.mkObj [
      ("stored", Json.bool r.isSome),
      ("carries", Json.bool (match r with | some x => x.carries e | none => false)),
      ("is", Json.arr (sents.map fun s => Json.bool (match r with | some x => x.is s | none => false)).toArray),
      ("decision", strListJ (txDecision atom r))])
  | "hooks.visit" =>
    -- ["hooks.visit", size, nbefore, nslots, adj, dedupe, roots, existing] -> log / ok / clean of Gorm.VGraph.run for
    -- the repairs the tree under check carries (Gorm.genVisitFix, regenerated), plus `oldlog`/`oldclean`: the run of the
    -- unrepaired traversal (all flags off) on the same graph
    let size ← jNat? (arg args 1)
    let nb ← jNat? (arg args 2)
    let ns ← jNat? (arg args 3)
    let adj ← (← jArr? (arg args 4)).toList.mapM fun n => do (← jArr? n).toList.mapM HC13.natList?
    let dd ← (← jArr? (arg args 5)).toList.mapM jBool?
    let roots ← HC13.natList? (arg args 6)
    let existing ← HC13.natList? (arg args 7)
    let g : VGraph := { size := size, nbefore := nb, nslots := ns, adj := adj, dedupe := dd }
    let r := g.run genVisitFix roots existing
    let r0 := g.run {} roots existing
    some (Json.mkObj [("log", Json.arr (r.log.map HC13.vevJ).toArray), ("ok", Json.bool r.ok), ("clean", Json.bool r.clean),
      ("clean_mixed", Json.bool r.cleanMixed), ("clean_root", Json.bool r.cleanRoot), ("clean_dup", Json.bool r.cleanDup),
      ("oldlog", Json.arr (r0.log.map HC13.vevJ).toArray), ("oldclean", Json.bool r0.clean)])
  | "hooks.visitfix" =>
    -- which of the repairs F27 / F28 / F29 the regenerated facts find in the tree under check
    some (Json.mkObj [("filter", Json.bool genVisitFix.filter), ("root", Json.bool genVisitFix.root),
      ("distinct", Json.bool genVisitFix.distinct)])
  | "hooks.walks" =>
    -- ["hooks.walks", [[addressable?…]…], cur] -> the walks of Gorm.walks over ONE Statement for the tree under check
    -- (Gorm.genWalkCfg, regenerated): per walk the invocations [element, CurDestIndex], and per walk the column a
    -- `SetColumn(col, 100*walk + element + 1)` in every hook leaves behind (null = a hook panics: index out of range)
    let slices ← (← jArr? (arg args 1)).toList.mapM fun a => do (← jArr? a).toList.mapM jBool?
    let cur ← jNat? (arg args 2)
    let ws := walks genWalkCfg slices cur
    let cols := (List.range ws.length).map fun wi =>
      let w := ws.getD wi []
      let len := (slices.getD wi []).length
      match walkSet (fun i => 100 * wi + i + 1) w (List.replicate len 0) with
      | some r => natListJ r
      | none => Json.null
    some (Json.mkObj [("cfg", Json.arr #[Json.bool genWalkCfg.rewind, Json.bool genWalkCfg.advance]),
      ("walks", Json.arr (ws.map fun w => Json.arr (w.map fun k => Json.arr #[natJ k.elem, natJ k.cur]).toArray).toArray),
      ("cols", Json.arr cols.toArray)])
  | "hooks.batches" =>
    let n ← jNat? (arg args 1)
    let b ← jNat? (arg args 2)
    some (Json.arr ((batchRanges n b).map (fun r => natJ (r.2 - r.1))).toArray)
  | _ => none

end Gorm.Drv
