import GormModel.Drv.Util
import GormModel.Model.Hooks
import GormModel.Gen.Pipelines
open Lean
namespace Gorm.Drv

def hevJ : HEv → Json
  | .hook n i => Json.arr #[Json.str n, natJ i]
  | .stmt => Json.arr #[Json.str "stmt"]

/-- ["hooks.events", pipeline, [implemented hook names], n] -> predicted event list (no failure) -/
def handleC13 (op : String) (args : Array Json) : Option Json := do
  match op with
  | "hooks.events" =>
    let k ← jStr? (arg args 1)
    let hsJ ← jArr? (arg args 2)
    let hs ← hsJ.toList.mapM jStr?
    let n ← jNat? (arg args 3)
    let p ← Gen.pipelines.find? (fun p => p.1 = k)
    some (Json.arr ((opEvents Gen.handlers p.2 (fun h => hs.contains h) n).map hevJ).toArray)
  | _ => none

end Gorm.Drv
