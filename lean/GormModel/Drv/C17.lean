import GormModel.Drv.Util
import GormModel.Model.Callbacks
import GormModel.Model.CallbackBuilder
import GormModel.Model.CallbackExec
open Lean
namespace Gorm.Drv
open Reent

def parseCb (j : Json) : Option Cb := do
  let p ← jArr? j
  some { name := ← jStr? (arg p 0), before := ← jStr? (arg p 1), after := ← jStr? (arg p 2),
         remove := ← jBool? (arg p 3), replace := ← jBool? (arg p 4), matchOk := ← jBool? (arg p 5),
         hid := ← jNat? (arg p 6) }

def parseRegOp (j : Json) : Option RegOp := do
  let p ← jArr? j
  match ← jStr? (arg p 0) with
  | "register" => some (.register (← jStr? (arg p 1)) (← jStr? (arg p 2)) (← jStr? (arg p 3)) (← jBool? (arg p 4)) (← jNat? (arg p 5)))
  | "replace" => some (.replace (← jStr? (arg p 1)) (← jStr? (arg p 2)) (← jStr? (arg p 3)) (← jNat? (arg p 4)))
  | "remove" => some (.remove (← jStr? (arg p 1)))
  | _ => none

def parsePred : String → Option (Option Bool)
  | "nil" => some none
  | "true" => some (some true)
  | "false" => some (some false)
  | _ => none

def parseStart (j : Json) : Option CbB.Start := do
  let p ← jArr? j
  match ← jStr? (arg p 0) with
  | "plain" => some .plain
  | "before" => some (.before (← jStr? (arg p 1)))
  | "after" => some (.after (← jStr? (arg p 1)))
  | "match" => some (.mtch (← parsePred (← jStr? (arg p 1))))
  | _ => none

def parseStep (j : Json) : Option CbB.Step := do
  let p ← jArr? j
  match ← jStr? (arg p 0) with
  | "before" => some (.before (← jStr? (arg p 1)))
  | "after" => some (.after (← jStr? (arg p 1)))
  | _ => none

def parseFinish (j : Json) : Option CbB.Finish := do
  let p ← jArr? j
  match ← jStr? (arg p 0) with
  | "register" => some (.register (← jStr? (arg p 1)) (← jNat? (arg p 2)))
  | "replace" => some (.replace (← jStr? (arg p 1)) (← jNat? (arg p 2)))
  | "remove" => some (.remove (← jStr? (arg p 1)))
  | _ => none

/-- ["chain", start, [steps], finish] -/
def parseChain (p : Array Json) : Option CbB.Chain := do
  some { start := ← parseStart (arg p 1), steps := ← (← jArr? (arg p 2)).toList.mapM parseStep, fin := ← parseFinish (arg p 3) }

/-- a history item: a `RegOp` (legacy spelling) or a chain, as (record handed to compile, record == request) -/
def parseItem (j : Json) : Option (Cb × Bool) := do
  let p ← jArr? j
  match ← jStr? (arg p 0) with
  | "chain" =>
    let ch ← parseChain p
    let rec_ := if (jBool? (arg p 4)).getD false then ch.recordDropped CbB.treeBuilder else ch.record CbB.treeBuilder
    some (rec_.toCb, rec_ == ch.request)
  | _ => some ((← parseRegOp j).toCb, true)

def errJ : Option SortErr → Json
  | none => Json.str "ok"
  | some (.conflict _ _) => Json.str "conflict"
  | some .fuel => Json.str "fuel"
  | some .cycle => Json.str "cycle"

/-- how many calls of a history separate the depth guard from the unguarded recursion: the unguarded model
    (stack depth `sortFuel n`) terminates although it recurses deeper than the guard's bound `2n+2`.
    Returns (number of such calls, number of them on which the unguarded call returns no error). -/
def guardGap (r : CbRepairs) (p0 : Proc) (ops : List Cb) : Nat × Nat :=
  let r0 : CbRepairs := { r with depthGuard := false }
  let r1 : CbRepairs := { r with depthGuard := true }
  (ops.foldl (fun (acc : Proc × Nat × Nat) op =>
    let (p, a, b) := acc
    let (p0', e0) := p.applyCbR r0 op
    let (_, e1) := p.applyCbR r1 op
    let gap := e1 == some .cycle && e0 != some .fuel
    (p0', a + (if gap then 1 else 0), b + (if gap && e0 == none then 1 else 0))) (p0, 0, 0)).2

/-- one inner call of a script: [hid, other, item] -- the handler `hid`, when it fires, hands `item`'s record to the
    running pipeline (`other = false`) or to the second pipeline -/
def parseInner (j : Json) : Option (Nat × Eff) := do
  let p ← jArr? j
  let it ← parseItem (arg p 2)
  some (← jNat? (arg p 0), { other := ← jBool? (arg p 1), cb := it.1 })

def scriptOf (l : List (Nat × Eff)) : Script := fun h => (l.filter (·.1 == h)).map (·.2)

/-- ["cb.exec", init, [items], initOther, [[inner ...] per run]]: the history `items` on the pipeline `init`, then one
    `Execute` per script (the loop of the tree's model: a fold over the SNAPSHOT, Model/CallbackExec.lean);
    per run: the handlers fired, what every inner call returned, the chains of both pipelines afterwards -/
def execRuns (r : CbRepairs) : World → List (List (Nat × Eff)) → List Json
  | _, [] => []
  | w, s :: ss =>
    let st := w.execute r (scriptOf s)
    Json.mkObj [("trace", natListJ st.trace), ("errs", Json.arr (st.errs.map errJ).toArray),
      ("fns", natListJ st.w.run.fns), ("ofns", natListJ st.w.oth.fns)] :: execRuns r st.w ss

/-- ["cb.run", [regops for the initial (built-in) registrations], [regops]] ->
    (items of the second list: legacy RegOps or ["chain", start, [steps], finish] -- built through the REGENERATED
     builder tables `treeBuilder`; optional 4th argument: names to `Get`)
    {"errs":[...per op of the second list...], "fns":[hid...], "names":[final callback names],
     "gap":[calls where the guard and the terminating unguarded recursion differ, those without error]}
    run on the model of the tree under check (`treeRepairs`: regenerated repair flags);
    ["cb.flags"] -> the flags -/
def handleC17 (op : String) (args : Array Json) : Option Json := do
  match op with
  | "cb.run" =>
    let init ← (← jArr? (arg args 1)).toList.mapM parseRegOp
    let items ← (← jArr? (arg args 2)).toList.mapM parseItem
    let ops := items.map (·.1)
    let getNames := ((jArr? (arg args 3)).getD #[]).toList.filterMap jStr?
    let (p0, _) := Proc.runR treeRepairs {} init
    let (p, errs) := Proc.runCbsR treeRepairs p0 ops
    -- only meaningful (and only computed) when the tree has the depth guard
    let gap := if treeRepairs.depthGuard then guardGap treeRepairs p0 ops else (0, 0)
    some (Json.mkObj [
      ("errs", Json.arr (errs.map errJ).toArray),
      ("fns", natListJ p.fns),
      ("names", strListJ (p.callbacks.map (·.name))),
      ("table", Json.arr (p.callbacks.map (fun c => Json.arr #[Json.str c.name, Json.str c.before, Json.str c.after,
          Json.bool c.remove, Json.bool c.replace, Json.num (c.hid : Int)])).toArray),
      ("get", Json.arr (getNames.map (fun n => match p.get n with | some h => Json.num (h : Int) | none => Json.num (-1 : Int))).toArray),
      ("spelled", Json.bool (items.all (·.2))),
      ("gap", natListJ [gap.1, gap.2])])
  | "cb.exec" =>
    let init ← (← jArr? (arg args 1)).toList.mapM parseRegOp
    let items ← (← jArr? (arg args 2)).toList.mapM parseItem
    let initO ← (← jArr? (arg args 3)).toList.mapM parseRegOp
    let runs ← (← jArr? (arg args 4)).toList.mapM (fun j => do (← jArr? j).toList.mapM parseInner)
    let (p0, _) := Proc.runR treeRepairs {} init
    let (p, errs) := Proc.runCbsR treeRepairs p0 (items.map (·.1))
    let (q, _) := Proc.runR treeRepairs {} initO
    some (Json.mkObj [
      ("errs", Json.arr (errs.map errJ).toArray),
      ("fns", natListJ p.fns), ("ofns", natListJ q.fns),
      ("loop", Json.str Gen.executeLoop),
      ("runs", Json.arr (execRuns treeRepairs { run := p, oth := q } runs).toArray)])
  | "cb.flags" =>
    some (Json.mkObj [
      ("depthGuard", Json.bool treeRepairs.depthGuard),
      ("sortCopies", Json.bool treeRepairs.sortCopies),
      ("starOrder", Json.bool treeRepairs.starOrder),
      ("builderCanonical", Json.bool (CbB.treeBuilder == CbB.BuilderFacts.canonical))])
  | _ => none

end Gorm.Drv
