import GormModel.Drv.Util
import GormModel.Model.Callbacks
open Lean
namespace Gorm.Drv

def parseCb (j : Json) : Option Cb := do
  let p ← jArr? j
  some { name := ← jStr? (arg p 0), before := ← jStr? (arg p 1), after := ← jStr? (arg p 2),
         remove := ← jBool? (arg p 3), replace := ← jBool? (arg p 4), matchOk := ← jBool? (arg p 5),
         hid := ← jNat? (arg p 6) }

def parseRegOp (j : Json) : Option RegOp := do
  let p ← jArr? j
  match ← jStr? (arg p 0) with
  | "register" => some (.register (← jStr? (arg p 1)) (← jStr? (arg p 2)) (← jStr? (arg p 3)) (← jBool? (arg p 4)) (← jNat? (arg p 5)))
  | "replace" => some (.replace (← jStr? (arg p 1)) (← jStr? (arg p 2)) (← jStr? (arg p 3)) (← jNat? (arg p 4)))
  | "remove" => some (.remove (← jStr? (arg p 1)))
  | _ => none

def errJ : Option SortErr → Json
  | none => Json.str "ok"
  | some (.conflict _ _) => Json.str "conflict"
  | some .fuel => Json.str "fuel"

/-- ["cb.run", [regops for the initial (built-in) registrations], [regops]] ->
    {"errs":[...per op of the second list...], "fns":[hid...], "names":[final callback names]} -/
def handleC17 (op : String) (args : Array Json) : Option Json := do
  match op with
  | "cb.run" =>
    let init ← (← jArr? (arg args 1)).toList.mapM parseRegOp
    let ops ← (← jArr? (arg args 2)).toList.mapM parseRegOp
    let (p0, _) := Proc.run {} init
    let (p, errs) := Proc.run p0 ops
    some (Json.mkObj [
      ("errs", Json.arr (errs.map errJ).toArray),
      ("fns", natListJ p.fns),
      ("names", strListJ (p.callbacks.map (·.name)))])
  | _ => none

end Gorm.Drv
