import GormModel.Drv.Util
import GormModel.Model.Tx
import GormModel.Model.TxForms
import GormModel.Gen.BeginFacts
open Lean
namespace Gorm.Drv
open Gorm.Tx
namespace HC04

partial def parseProg (j : Json) : Option Prog := do
  let a ← jArr? j
  let k ← jStr? (arg a 0)
  match k with
  | "w" => some (.write (.ins (← jNat? (arg a 1))) (← jBool? (arg a 2)))
  | "d" => some (.write (.del (← jNat? (arg a 1))) (← jBool? (arg a 2)))
  | "u" => some (.write .nop (← jBool? (arg a 2)))      -- UPDATE of the non-key column: the set of ids is unchanged
  | "q" => some (.read (← jBool? (arg a 1)))
  | "end" =>
    -- ["end", how, must]; how 0 = h.Rollback() inside the function, 1 = context cancelled + database/sql's rollback finished:
    -- the same driver-level event; how 2 (h.Commit() inside the function) is outside the model (end-to-end oracle only)
    match (← jNat? (arg a 1)) with
    | 0 | 1 => some (.endtx (← jBool? (arg a 2)))
    | _ => none
  | "sp" => some (.sp (← jNat? (arg a 1)) (← jBool? (arg a 2)))
  | "rb" => some (.rb (← jNat? (arg a 1)) (← jBool? (arg a 2)))
  | "blk" =>
    let body ← (← jArr? (arg a 1)).toList.mapM parseProg
    let out ← match (← jNat? (arg a 2)) with
      | 0 => some Out.retNil | 1 => some Out.retErr | 2 => some Out.panic | _ => none
    some (.blk body out (← jNat? (arg a 3)) (← jBool? (arg a 4)))
  | "dv" =>
    -- ["dv", kind, arg, body, must]; the concrete Go derivation is the text after ':' (model: only its class matters)
    let kind ← jStr? (arg a 1)
    let n ← jNat? (arg a 2)
    let body ← (← jArr? (arg a 3)).toList.mapM parseProg
    let cls := (kind.splitOn ":").headD ""
    let k ← match cls with
      | "keep" => some Derive.keep | "prep" => some Derive.prep | "newdb" => some Derive.newDB
      | "skiptx" => some Derive.skipTx | "disnested" => some Derive.disNested | "where" => some (Derive.whereNe n)
      | "chain" => some Derive.chain | "initialized" => some Derive.initialized | "debug" => some Derive.debug
      | _ => none
    some (.dv k body (← jBool? (arg a 4)))
  | "fh" =>
    -- ["fh", kind, tag, body, must]: the body runs on a handle that ALREADY CARRIES AN ERROR; the class before ':' says where
    -- the error comes from (adderr = Session/WithContext + AddError(user error `tag`), firstmiss = the handle returned by
    -- `First(&item, -1)`)
    let kind ← jStr? (arg a 1)
    let t ← jNat? (arg a 2)
    let body ← (← jArr? (arg a 3)).toList.mapM parseProg
    let src ← match (kind.splitOn ":").headD "" with
      | "adderr" => some (FailSrc.addErr t) | "firstmiss" => some FailSrc.firstMiss
      | _ => none
    some (.fh src body (← jBool? (arg a 4)))
  | "man" =>
    let body ← (← jArr? (arg a 1)).toList.mapM parseProg
    let fin ← match (← jNat? (arg a 2)) with
      | 0 => some Fin.commit | 1 => some Fin.rollback | _ => none
    some (.man body fin (← jBool? (arg a 3)))
  | _ => none

def atomJ : ErrAtom → Json
  | .inj k => Json.str s!"inj{k}"
  | .user t => Json.str s!"user{t}"
  | .invalidTx => Json.str "invalidTx"
  | .txDone => Json.str "txDone"
  | .noSavepoint => Json.str "noSavepoint"
  | .conflict => Json.str "conflict"
  | .notFound => Json.str "notFound"

def resJ : Res → Json
  | .ok => Json.arr #[Json.str "ok"]
  | .err e => Json.arr (#[Json.str "err"] ++ (e.map atomJ).toArray)
  | .panic t => Json.arr #[Json.str "panic", natJ t]

def tokJ : K × Bool → Json
  | (k, f) =>
    let s := match k with
      | .B => "B" | .C => "C" | .R => "R" | .S => "S" | .T => "T" | .W => "W" | .Q => "Q"
    Json.str (if f then s ++ "!" else s)

def parsePool (j : Json) : Option Pool := do
  match (← jStr? j) with
  | "sqlDB" => some .sqlDB | "prepDB" => some .prepDB | "sqlTx" => some .sqlTx | "prepTx" => some .prepTx
  | _ => none

def poolJ : Pool → Json
  | .sqlDB => Json.str "sqlDB" | .prepDB => Json.str "prepDB" | .sqlTx => Json.str "sqlTx" | .prepTx => Json.str "prepTx"

def parseCfg (j : Json) : Option Cfg := do
  let g (k : String) : Option Bool := (j.getObjVal? k).toOption >>= jBool?
  -- `beginGuard` is not an input: it follows the code under test (regenerated fact, extract/gen_c04.go)
  some { prep := ← g "prep", dis := ← g "dis", skip := ← g "skip", beginGuard := Gen.beginChecksError }

/-- one statement of a write form: ["W", [ids: +k = insert k, -k = delete k (as [sign, k] pairs)], file, fn, method] / ["Q", file, fn, method];
    the call site is looked up in the REGENERATED table (unknown site = the input is rejected) -/
def parseFStmt (j : Json) : Option FStmt := do
  let a ← jArr? j
  match (← jStr? (arg a 0)) with
  | "W" =>
    let ws ← (← jArr? (arg a 1)).toList.mapM (fun p => do
      let pa ← jArr? p
      let k ← jNat? (arg pa 1)
      match (← jNat? (arg pa 0)) with
      | 0 => some Write.nop | 1 => some (Write.ins k) | 2 => some (Write.del k) | _ => none)
    let i ← siteIndex (← jStr? (arg a 2)) (← jStr? (arg a 3)) (← jStr? (arg a 4))
    some (.exec ws i)
  | "Q" =>
    let i ← siteIndex (← jStr? (arg a 1)) (← jStr? (arg a 2)) (← jStr? (arg a 3))
    some (.query i)
  | _ => none

def parseFormOp (j : Json) : Option FormOp := do
  let a ← jArr? j
  some { stmts := ← (← jArr? (arg a 0)).toList.mapM parseFStmt, must := ← jBool? (arg a 1) }

def parseOut (j : Json) : Option Out := do
  match (← jNat? j) with
  | 0 => some Out.retNil | 1 => some Out.retErr | 2 => some Out.panic | _ => none

/-- ["ops", [formop…]] / ["nested", [formop…], out, tag] / ["sp", n] / ["rb", n] -/
def parseFItem (j : Json) : Option FItem := do
  let a ← jArr? j
  match (← jStr? (arg a 0)) with
  | "ops" => some (.ops (← (← jArr? (arg a 1)).toList.mapM parseFormOp))
  | "nested" => some (.nested (← (← jArr? (arg a 1)).toList.mapM parseFormOp) (← parseOut (arg a 2)) (← jNat? (arg a 3)))
  | "sp" => some (.sp (← jNat? (arg a 1)))
  | "rb" => some (.rb (← jNat? (arg a 1)))
  | _ => none

/-- ["blk", out, tag] / ["man", fin] -/
def parseFOuter (j : Json) : Option FOuter := do
  let a ← jArr? j
  match (← jStr? (arg a 0)) with
  | "blk" => some (.blk (← parseOut (arg a 1)) (← jNat? (arg a 2)))
  | "man" => match (← jNat? (arg a 1)) with
    | 0 => some (.man .commit) | 1 => some (.man .rollback) | _ => none
  | _ => none

end HC04
open HC04 in
/-- ["tx.run", cfg, [fault call numbers], [initial ids], body, allowRb] -> observation of the model run
    ["tx.spec", cfg, mask, initial, body] -> the functional reference
    ["tx.writest", …] -> `writeSt` (Statement.ConnPool after a write) -/
def handleC04 (op : String) (args : Array Json) : Option Json := do
  match op with
  | "tx.facts" =>
    -- the regenerated fact that selects the transcription of Begin (the harness' generators stop avoiding a repaired pattern)
    some (Json.mkObj [("beginChecksError", Json.bool Gen.beginChecksError)])
  | "tx.run" =>
    let cfg ← parseCfg (arg args 1)
    let mask ← (← jArr? (arg args 2)).toList.mapM jNat?
    let init ← (← jArr? (arg args 3)).toList.mapM jNat?
    let body ← (← jArr? (arg args 4)).toList.mapM parseProg
    let allowRb ← jBool? (arg args 5)
    if !wfBody false body then none else
    let o : Oracle := fun k => mask.contains k
    let (db, r) := run cfg o body { committed := init, rbFaultable := allowRb }
    some (Json.mkObj [
      ("store", natListJ db.committed), ("res", resJ r), ("open", natJ db.open), ("inuse", natJ db.open),
      ("trace", Json.arr (db.trace.reverse.map tokJ).toArray),
      ("txof", natListJ db.txof.reverse),
      ("reads", Json.arr (db.reads.reverse.map natListJ).toArray),
      ("stale", Json.bool db.stale), ("rbfault", Json.bool db.rbFault)])
  | "tx.writest" =>
    -- ["tx.writest", skip, errNil, beginOk, stmtPool, cfgPool] -> Statement.ConnPool after a create/update/delete pipeline
    let skip ← jBool? (arg args 1)
    let errNil ← jBool? (arg args 2)
    let beginOk ← jBool? (arg args 3)
    let sp ← parsePool (arg args 4)
    let cp ← parsePool (arg args 5)
    let s := writeSt skip errNil beginOk { stmtPool := sp, cfgPool := cp }
    some (Json.mkObj [("pool", poolJ s.stmtPool), ("started", Json.bool s.started)])
  | "tx.fprog" =>
    -- ["tx.fprog", cfg, mask, initial ids, outer, items] -> the write-form program of Model/TxForms.lean with the pool selector
    -- `siteSel` OF THE TREE BEING VERIFIED (regenerated call-site table)
    let cfg ← parseCfg (arg args 1)
    let mask ← (← jArr? (arg args 2)).toList.mapM jNat?
    let init ← (← jArr? (arg args 3)).toList.mapM jNat?
    let outer ← parseFOuter (arg args 4)
    let items ← (← jArr? (arg args 5)).toList.mapM parseFItem
    let o : Oracle := fun k => mask.contains k
    let (db, r) := runFProg siteSel cfg o outer items { committed := init, rbFaultable := false }
    some (Json.mkObj [
      ("store", natListJ db.committed), ("res", resJ r), ("open", natJ db.open),
      ("trace", Json.arr (db.trace.reverse.map tokJ).toArray),
      ("txof", natListJ db.txof.reverse)])
  | "tx.spec" =>
    let cfg ← parseCfg (arg args 1)
    let mask ← (← jArr? (arg args 2)).toList.mapM jNat?
    let init ← (← jArr? (arg args 3)).toList.mapM jNat?
    let body ← (← jArr? (arg args 4)).toList.mapM parseProg
    let o : Oracle := fun k => mask.contains k
    let (s, r) := spec cfg o body init
    some (Json.mkObj [("store", natListJ s), ("res", resJ r)])
  | _ => none

end Gorm.Drv
