import GormModel.Drv.Util
import GormModel.Model.StmtCache
import GormModel.Model.StmtCacheStore
import GormModel.Model.StmtCacheKinds
open Lean
namespace Gorm.Drv
open Gorm.SC
namespace HC14

/-!
  `["sc.check", nV, nQ, threads, trace, final]` — trace inclusion of one forced schedule of the REAL cache in the model.

  The harness can gate three kinds of events (goroutine start, return of a pool-level PrepareContext, return of a
  driver-level statement execution); everything else (lock sections, channel wake-ups, closer goroutines) runs
  freely between two gates.  The validator therefore keeps the SET of model states consistent with what was
  observed so far: after every gated step it closes the set under all interleavings of the un-gated model steps
  (`closure`, every maximal run), keeps the states whose parked-goroutine set equals the observed one, and at the
  end requires a state with exactly the observed results / closed-handle flags / PrepareContext counts.
-/

def pcName : Pc → String
  | .init => "init" | .missed => "missed" | .waiting _ => "waiting" | .preparing _ => "preparing"
  | .storing _ _ => "storing" | .failing _ => "failing" | .closingOk _ _ => "closingOk"
  | .closingErr _ => "closingErr" | .ready _ _ => "ready" | .using _ _ => "using"
  | .evicting _ _ => "evicting" | .fin _ => "fin"

def resName : Res → String
  | .rows => "rows" | .prepErr => "prepErr" | .useErr => "useErr" | .badConn => "badConn"
  | .invalidDB => "invalidDB" | .stmtClosed => "stmtClosed" | .nilStmt => "nilStmt" | .done => "done"

def pcKey : Pc → String
  | .waiting e => s!"w{e}" | .preparing e => s!"p{e}" | .storing e h => s!"s{e}.{h}" | .failing e => s!"f{e}"
  | .closingOk e h => s!"co{e}.{h}" | .closingErr e => s!"ce{e}" | .ready e h => s!"r{e}.{h}"
  | .using e h => s!"u{e}.{h}" | .evicting e h => s!"ev{e}.{h}" | .fin r => "F" ++ resName r
  | .init => "i" | .missed => "m"

def optKey : Option Nat → String
  | some n => toString n
  | none => "-"

def prepTotal (s : St) (q : Nat) : Nat :=
  s.log.countP (fun ev => match ev with | .prep _ q' _ _ => q' == q | _ => false)

def keyOf (nQ : Nat) (s : St) : String :=
  let th := (List.range s.nT).map fun t => pcKey (s.threads t).pc
  let en := (List.range s.nE).map fun e =>
    let x := s.entries e
    s!"{x.text},{x.mapId},{x.tx},{x.prepared},{x.err},{optKey x.handle},{x.closeReq},{x.closeDone}"
  let hs := (List.range s.nH).map fun h =>
    let x := s.handles h
    s!"{x.tx},{x.thr},{x.entry},{x.closed},{x.closeReq}"
  let ms := (List.range s.nM).map fun m => (List.range nQ).map fun q => optKey (s.maps m q)
  let vs := (List.range s.nV).map fun v => optKey (s.views v)
  let pc := (List.range nQ).map fun q => prepTotal s q
  s!"{th}|{en}|{hs}|{ms}|{vs}|{pc}|{foreignRemovals s}"

def isGate : Pc → Bool
  | .preparing _ | .using _ _ => true
  | _ => false

/-- enabled un-gated transitions with a label (for branch coverage) -/
def freeSteps (s : St) (started : List Nat) : List (String × St) :=
  let th := started.filterMap fun t =>
    if isGate (s.threads t).pc then none
    else (act s (.thr t .ok)).map fun s' => (pcName (s.threads t).pc ++ "→" ++ pcName (s'.threads t).pc, s')
  let ce := (List.range s.nE).filterMap fun e => (act s (.closeE e)).map fun s' => ("closeE", s')
  let ch := (List.range s.nH).filterMap fun h => (act s (.closeH h)).map fun s' => ("closeH", s')
  th ++ ce ++ ch

/-- all states reachable by maximal runs of un-gated steps -/
partial def closure (nQ : Nat) (started : List Nat) (work : List St) (seen : List String)
    (out : List St) (labels : List String) : List St × List String :=
  match work with
  | [] => (out, labels)
  | s :: rest =>
    let k := keyOf nQ s
    if seen.contains k then closure nQ started rest seen out labels
    else
      let nx := freeSteps s started
      let labels := nx.foldl (fun acc p => if acc.contains p.1 then acc else p.1 :: acc) labels
      if nx.isEmpty then closure nQ started rest (k :: seen) (s :: out) labels
      else closure nQ started (nx.map (·.2) ++ rest) (k :: seen) out labels

def gatesOf (s : St) (started : List Nat) : List (Nat × String) :=
  (List.range s.nT).filterMap fun t =>
    if started.contains t then
      match (s.threads t).pc with
      | .preparing _ => some (t, "P")
      | .using _ _ => some (t, "U")
      | _ => none
    else none

def parseAns (s : String) : Option Ans :=
  match s with
  | "ok" => some .ok | "err" => some .err | "bad" => some .bad | _ => none

def parseOp (j : Json) : Option Op := do
  let a ← jArr? j
  let k ← jStr? (arg a 0)
  let v ← jNat? (arg a 1)
  let q ← jNat? (arg a 2)
  match k with
  | "use" => some (.use v q false)
  | "tx" => some (.use v q true)
  | "reset" => some (.reset v)
  | "close" => some (.close v)
  | _ => none

def parseGates (j : Json) : Option (List (Nat × String)) := do
  let a ← jArr? j
  a.toList.mapM fun g => do
    let ga ← jArr? g
    some (← jNat? (arg ga 0), ← jStr? (arg ga 1))

structure Step where
  kind : String
  t : Nat
  ans : Ans
  gates : List (Nat × String)

def parseStep (j : Json) : Option Step := do
  let a ← jArr? j
  some { kind := ← jStr? (arg a 0), t := ← jNat? (arg a 1), ans := ← parseAns (← jStr? (arg a 2)),
         gates := ← parseGates (arg a 3) }

def resultsOf (s : St) : List String :=
  (List.range s.nT).map fun t => match (s.threads t).pc with | .fin r => resName r | pc => "@" ++ pcName pc

def closedOf (s : St) : List Bool := (List.range s.nH).map fun h => (s.handles h).closed

def finalJ (nQ : Nat) (s : St) : Json :=
  Json.mkObj [("res", strListJ (resultsOf s)), ("closed", Json.arr ((closedOf s).map Json.bool).toArray),
              ("preps", natListJ ((List.range nQ).map (prepTotal s)))]

def gatesJ (g : List (Nat × String)) : Json :=
  Json.arr (g.map fun p => Json.arr #[natJ p.1, Json.str p.2]).toArray

/-- replay the trace on the state set -/
def replay (nQ : Nat) (steps : List Step) (states : List St) (started : List Nat) (labels : List String) (i : Nat) :
    Except Json (List St × List String) :=
  match steps with
  | [] => .ok (states, labels)
  | st :: rest =>
    let started' := if st.kind == "start" then st.t :: started else started
    let moved : List St :=
      if st.kind == "start" then states
      else states.filterMap fun s =>
        let okPc := match (s.threads st.t).pc with
          | .preparing _ => st.kind == "prep"
          | .using _ _ => st.kind == "use"
          | _ => false
        if okPc then act s (.thr st.t st.ans) else none
    let (cl, labels) := closure nQ started' moved [] [] labels
    let keep := cl.filter fun s => gatesOf s started' == st.gates
    if keep.isEmpty then
      .error (Json.mkObj [("ok", Json.bool false), ("at", natJ i), ("why", Json.str "no model state has the observed parked goroutines"),
        ("model_gates", Json.arr ((cl.map fun s => gatesJ (gatesOf s started')).eraseDups).toArray),
        ("moved", natJ moved.length)])
    else replay nQ rest keep started' labels (i + 1)

/-! `["sc.derive", prepare, [[kind, h, prep]…]]` — the derivation world of Model/StmtCacheStore.lean, instantiated with the
    configuration regenerated from gorm.go (`genSCfg`): per handle its pool kind and the identities (allocation order)
    of its struct, cache object (Mux) and current map (-1 = nil / none). -/

open Gorm.SCS in
def parseDOp (j : Json) : Option DOp := do
  let a ← jArr? j
  let k ← jStr? (arg a 0)
  let h ← jNat? (arg a 1)
  match k with
  | "session" => some (.session h ((jBool? (arg a 2)).getD false))
  | "begin" => some (.begin h)
  | "reset" => some (.reset h)
  | "close" => some (.close h)
  | _ => none

def optIdJ : Option Nat → Json
  | some n => natJ n
  | none => Json.num (-1 : Int)

open Gorm.SCS in
def poolJ (w : World) (p : Pool) : Json :=
  let kind := match p with | .plain => "plain" | .plainTx => "plainTx" | .pdb _ => "pdb" | .ptx _ => "ptx"
  Json.mkObj [("kind", Json.str kind), ("struct", optIdJ (structOf p)), ("cache", optIdJ (cacheOfPool w p)),
              ("map", optIdJ (mapOfPool w p))]


/-! `["sc.kinds", prepare, [[kind, a, b, c]…]]` — the pool-kind world of Model/StmtCacheKinds.lean, instantiated with the
    configuration regenerated from gorm.go / prepare_stmt.go (`genKCfg`): per handle what `Config.ConnPool` and
    `Statement.ConnPool` are and finally run on, per cached text what the statement is bound to, per use where it ran. -/

open Gorm.SCK in
def parseKOp (j : Json) : Option KOp := do
  let a ← jArr? j
  let k ← jStr? (arg a 0)
  let n ← jNat? (arg a 1)
  match k with
  | "session" => some (.session n ((jBool? (arg a 2)).getD false))
  | "begin" => some (.begin n)
  | "connection" => some (.connection n)
  | "endTx" => some (.endTx n)
  | "endConn" => some (.endConn n)
  | "use" => some (.use n ((jNat? (arg a 2)).getD 0) ((jBool? (arg a 3)).getD false))
  | "reset" => some (.reset n)
  | _ => none

open Gorm.SCK in
def baseS (w : KWorld) : Base → String
  | .root => "root"
  | .conn c => s!"conn{c}"
  | .tx t => if w.anon.contains t then "tx?" else s!"tx{t}"

open Gorm.SCK in
def kpoolS (w : KWorld) : KPool → String
  | .raw b => "raw>" ++ baseS w b
  | .pdb s => "pdb>" ++ baseS w (baseOf w (.pdb s))
  | .ptx s t => "ptx>" ++ baseS w (.tx t) ++ "/" ++ baseS w (baseOf w (.pdb s))

open Gorm.SCK in
def kresS : Gorm.SCK.Res → String
  | .ok => "ok" | .connDone => "connDone" | .txDone => "txDone"

end HC14
open HC14 in
def handleC14 (op : String) (args : Array Json) : Option Json := do
  match op with
  | "sc.check" =>
    let nV ← jNat? (arg args 1)
    let nQ ← jNat? (arg args 2)
    let ops ← (← jArr? (arg args 3)).toList.mapM parseOp
    let steps ← (← jArr? (arg args 4)).toList.mapM parseStep
    let fin := arg args 5
    let res ← (← jArr? (fin.getObjValD "res")).toList.mapM jStr?
    let closed ← (← jArr? (fin.getObjValD "closed")).toList.mapM jBool?
    let preps ← (← jArr? (fin.getObjValD "preps")).toList.mapM jNat?
    match replay nQ steps [init ops nV genCfg] [] [] 0 with
    | .error j => some j
    | .ok (states, labels) =>
      let acc := states.filter fun s =>
        resultsOf s == res && closedOf s == closed && (List.range nQ).map (prepTotal s) == preps
      let flags (l : List St) : List (String × Json) :=
        [("foreign", Json.bool (l.any fun s => foreignRemovals s > 0)),
         ("leak", Json.bool (l.any fun s => (List.range s.nH).any (leakedB s))),
         ("all_leak", Json.bool (l.all fun s => (List.range s.nH).any (leakedB s))),
         ("stmt_closed", Json.bool (l.any fun s => (resultsOf s).contains "stmtClosed")),
         ("quiescent", Json.bool (l.all quiescentB))]
      if acc.isEmpty then
        some (Json.mkObj ([("ok", Json.bool false), ("at", Json.str "final"),
          ("why", Json.str "no model state has the observed results/closed handles/prepare counts"),
          ("model_finals", Json.arr ((states.map (finalJ nQ)).eraseDups.take 12).toArray)] ++ flags states))
      else
        some (Json.mkObj ([("ok", Json.bool true), ("n", natJ states.length), ("deterministic", Json.bool (states.length == 1)),
          ("labels", strListJ labels)] ++ flags acc))
  | "sc.derive" =>
    let prepare ← jBool? (arg args 1)
    let seq ← (← jArr? (arg args 2)).toList.mapM parseDOp
    let w := Gorm.SCS.runD Gorm.SCS.genSCfg prepare seq
    some (Json.mkObj [("handles", Json.arr ((w.handles.map (poolJ w)).toArray)), ("caches", natJ w.nC),
                      ("one_cache", Json.bool (Gorm.SCS.oneCacheB w)), ("stored", optIdJ w.store)])
  | "sc.kinds" =>
    let prepare ← jBool? (arg args 1)
    let seq ← (← jArr? (arg args 2)).toList.mapM parseKOp
    let w := Gorm.SCK.runK Gorm.SCK.genKCfg prepare seq
    some (Json.mkObj [
      ("handles", Json.arr ((w.handles.map fun hd => Json.mkObj [("cfg", Json.str (kpoolS w hd.cfg)), ("stmt", Json.str (kpoolS w hd.stmt))]).toArray)),
      ("entries", Json.arr ((w.entries.map fun e => Json.mkObj [("text", natJ e.text), ("on", Json.str (baseS w e.on)), ("tx", Json.bool e.txFlag)]).toArray)),
      ("log", Json.arr ((w.log.map fun o => Json.mkObj [("h", natJ o.h), ("text", natJ o.text), ("res", Json.str (kresS o.res)),
                                                         ("ran_on", Json.str (baseS w o.ranOn)), ("want", Json.str (baseS w o.want))]).toArray)),
      ("caches", natJ w.nC), ("pinned_prep", Json.bool w.pinnedPrep)])
  | "sc.kcfg" =>
    let c := Gorm.SCK.genKCfg
    some (Json.mkObj [("good", Json.bool (c == Gorm.SCK.good)), ("open_arg_config", Json.bool (c.openArg == .config)),
                      ("sess_arg_config", Json.bool (c.sessArg == .config)), ("sess_registered", Json.bool (c.sessPool == .registered)),
                      ("tx_prep_on_tx", Json.bool c.txPrepOnTx)])
  | "sc.cfg" =>
    -- the regenerated configuration the models are instantiated with (harness: generators and probes follow it)
    some (Json.mkObj [("sess_reuse", Json.bool Gorm.SCS.genSCfg.sessReuse), ("sess_atomic", Json.bool Gorm.SCS.genSessAtomic),
                      ("guard_fail", Json.bool genCfg.guardFail), ("guard_evict", Json.bool genCfg.guardEvict)])
  | "sc.first" =>
    -- ["sc.first", [[kind, g]...]]: the concurrent-first-session model (`crun genSessAtomic {}`) on one schedule
    let acts ← (← jArr? (arg args 1)).toList.mapM fun j => do
      let a ← jArr? j
      let k ← jStr? (arg a 0)
      let g ← jNat? (arg a 1)
      match k with
      | "load" => some (Gorm.SCS.CAct.load g)
      | "build" => some (Gorm.SCS.CAct.build g)
      | _ => none
    let s := Gorm.SCS.crun Gorm.SCS.genSessAtomic {} acts
    let gs := (acts.map fun a => match a with | .load g => g | .build g => g).eraseDups
    some (Json.mkObj [("allocated", natJ s.nC), ("registered", natListJ s.regs.reverse), ("stored", optIdJ s.store),
                      ("got", Json.arr ((gs.map fun g => optIdJ (s.got g)).toArray))])
  | "sc.run" =>
    -- ["sc.run", nV, nQ, threads, [[kind, id, ans]...]]: plain fine-grained run (kind: "thr" | "closeE" | "closeH")
    let nV ← jNat? (arg args 1)
    let nQ ← jNat? (arg args 2)
    let ops ← (← jArr? (arg args 3)).toList.mapM parseOp
    let acts ← (← jArr? (arg args 4)).toList.mapM fun j => do
      let a ← jArr? j
      let k ← jStr? (arg a 0)
      let i ← jNat? (arg a 1)
      match k with
      | "thr" => some (Act.thr i (← parseAns (← jStr? (arg a 2))))
      | "closeE" => some (Act.closeE i)
      | "closeH" => some (Act.closeH i)
      | _ => none
    let s := run (init ops nV genCfg) acts
    some (finalJ nQ s)
  | _ => none

end Gorm.Drv
