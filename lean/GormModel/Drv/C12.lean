import GormModel.Drv.Util
import GormModel.Model.Assoc
import GormModel.Model.AssocPoly
import GormModel.Model.AssocKeys
import GormModel.Model.AssocHandle
open Lean
namespace Gorm.Drv
open Gorm.Assoc
namespace HC12

def parseNatList (j : Json) : Option (List Nat) := do
  (← jArr? j).toList.mapM jNat?

def parsePairs (j : Json) : Option (List (Nat × Nat)) := do
  (← jArr? j).toList.mapM fun p => do
    let a ← jArr? p
    some (← jNat? (arg a 0), ← jNat? (arg a 1))

def parseAssocOp (j : Json) : Option Op := do
  let k ← jStr? (← (j.getObjVal? "op").toOption)
  let kind ← match k with
    | "append" => some OpKind.append
    | "replace" => some OpKind.replace
    | "delete" => some OpKind.delete
    | "clear" => some OpKind.clear
    | _ => none
  let uns := ((j.getObjVal? "unscoped").toOption.bind jBool?).getD false
  let vals ← (← jArr? (← (j.getObjVal? "vals").toOption)).toList.mapM parseNatList
  some { kind := kind, unscoped := uns, vals := vals }

def sortNat (l : List Nat) : List Nat := (l.toArray.qsort (· < ·)).toList
def sortPairs (l : List (Nat × Nat)) : List (Nat × Nat) :=
  (l.toArray.qsort (fun a b => a.1 < b.1 || (a.1 == b.1 && a.2 < b.2))).toList

def obsJ (r : Rel) (os : List Nat) (op : Op) (s : St) : Json :=
  Json.mkObj [
    ("args", natListJ (if op.kind = .append ∨ op.kind = .replace then argIds os op.vals s else [])),
    ("err", Json.bool s.err),
    ("links", Json.arr ((sortPairs s.links.eraseDups).map (fun p => natListJ [p.1, p.2])).toArray),
    ("targets", natListJ (sortNat s.targets.eraseDups)),
    ("count", natJ (count r os s)),
    ("find", natListJ (sortNat (findIds r os s))),
    ("mem", Json.arr (os.map (fun o => natListJ (sortNat (memKeys s o)))).toArray),
    ("stmts", strListJ s.log)]

def runObs (r : Rel) (os : List Nat) : List Op → St → List Json
  | [], _ => []
  | op :: ops, s =>
    let s' := step r os op { s with log := [] }
    obsJ r os op s' :: runObs r os ops s'

/-! polymorphic link store (Model.AssocPoly) -/

def parsePRel (j : Json) : Option AssocPoly.PRel := do
  some { one := ← jBool? (← (j.getObjVal? "one").toOption), ty := ← jNat? (← (j.getObjVal? "ty").toOption) }

def parsePOp (j : Json) : Option AssocPoly.POp := do
  let k ← jStr? (← (j.getObjVal? "op").toOption)
  let kind ← match k with
    | "append" => some OpKind.append
    | "replace" => some OpKind.replace
    | "delete" => some OpKind.delete
    | "clear" => some OpKind.clear
    | _ => none
  let uns := ((j.getObjVal? "unscoped").toOption.bind jBool?).getD false
  let args ← (← jArr? (← (j.getObjVal? "args").toOption)).toList.mapM fun a => do
    let x ← jArr? a
    some ({ o := ← jNat? (arg x 0), held := ← parseNatList (arg x 1), vals := ← parseNatList (arg x 2) } : AssocPoly.Arg)
  let named := ((j.getObjVal? "named").toOption.bind parseNatList).getD []
  some { rel := ← parsePRel j, kind := kind, unscoped := uns, args := args, named := named }

def sortRows (l : List AssocPoly.Row) : List AssocPoly.Row :=
  (l.toArray.qsort (fun a b => a.id < b.id || (a.id == b.id && (a.oid < b.oid || (a.oid == b.oid && a.oty < b.oty))))).toList

def colName : AssocPoly.Col → String
  | .oid => "id"
  | .oty => "type"

def polyObsJ (op : AssocPoly.POp) (s : AssocPoly.St) : Json :=
  Json.mkObj [
    ("rows", Json.arr ((sortRows s.rows).map (fun x => natListJ [x.id, x.oid, x.oty])).toArray),
    ("next", natJ s.next),
    ("count", natJ (AssocPoly.count op.rel op.os s.rows)),
    ("find", natListJ (sortNat (AssocPoly.findIds op.rel op.os s.rows))),
    ("stmts", strListJ s.log)]

def polyRunObs : List AssocPoly.POp → AssocPoly.St → List Json
  | [], _ => []
  | op :: ops, s =>
    let s' := AssocPoly.step op { s with log := [] }
    polyObsJ op s' :: polyRunObs ops s'

/-! typed key tuples (Model.AssocKeys) -/

def parseKV (j : Json) : Option KeyVal :=
  match j with
  | Json.null => some .nil
  | _ =>
    match j.getObjVal? "s" with
    | .ok v => (jStr? v).map (fun s => KeyVal.str s.toList)
    | .error _ =>
      match j.getObjVal? "b" with
      | .ok v => (jStr? v).map (fun s => KeyVal.bytes s.toList)
      | .error _ =>
        match j.getObjVal? "u" with
        | .ok v => (jNat? v).map KeyVal.uint
        | .error _ =>
          match j.getObjVal? "i" with
          | .ok v => (jInt? v).map KeyVal.int
          | .error _ => none

def kvShow : KeyVal → String
  | .str s => "s:" ++ String.ofList s
  | .bytes s => "b:" ++ String.ofList s
  | .uint n => "u:" ++ toString n
  | .int n => "i:" ++ toString n
  | .nil => "nil"

/-- [addr, [[kv, zero]…]] -/
def parseRow (j : Json) : Option IdRow := do
  let a ← jArr? j
  let addr ← jNat? (arg a 0)
  let key ← (← jArr? (arg a 1)).toList.mapM fun c => do
    let ca ← jArr? c
    some (⟨← parseKV (arg ca 0), ← jBool? (arg ca 1)⟩ : KeyComp)
  some ⟨addr, key⟩

/-- [many, [rows]] -/
def parseArgV (j : Json) : Option ArgV := do
  let a ← jArr? j
  let many ← jBool? (arg a 0)
  let rows ← (← jArr? (arg a 1)).toList.mapM parseRow
  if many then some (.many rows) else (rows.head?).map .one

/-! handle programs (Model.AssocHandle) -/

def parseKind (k : String) : Option OpKind :=
  match k with
  | "append" => some .append
  | "replace" => some .replace
  | "delete" => some .delete
  | "clear" => some .clear
  | _ => none

def parseInstr (j : Json) : Option Instr := do
  let a ← jArr? j
  match (← jStr? (arg a 0)) with
  | "assoc" => some (.assoc (← jNat? (arg a 1)) (← jNat? (arg a 2)))
  | "unscoped" =>
    let src ← jNat? (arg a 2)
    match jNat? (arg a 1) with
    | some d => some (.unscoped (some d) src)
    | none => some (.unscoped none src)
  | "call" => some (.call (← jNat? (arg a 1)) (← parseKind (← jStr? (arg a 2))) [] (← jBool? (arg a 3)))
  | "read" => some (.read (← jNat? (arg a 1)))
  | _ => none

def kindStr : OpKind → String
  | .append => "append"
  | .replace => "replace"
  | .delete => "delete"
  | .clear => "clear"

def evStr : Ev → String
  | .op r o d => s!"op:{r}:{kindStr o.kind}:{o.unscoped}:{d}"
  | .refused r => s!"refused:{r}"
  | .failed r => s!"failed:{r}"
  | .polluted r => s!"polluted:{r}"
  | .read r u => s!"read:{r}:{u}"
  | .nohandle => "nohandle"

def runInstrs (card1 : Nat → Bool) : Heap → List Instr → List Json
  | _, [] => []
  | h, i :: is =>
    let r := exec unscopedFresh card1 h i
    strListJ (r.2.map evStr) :: runInstrs card1 r.1 is

end HC12

open HC12 in
/-- ["assoc.run", {cls, card1, owners, links, targets, next, ops}] -> one observation per step;
    ["assoc.ck", linked tuples, named tuples] -> composite-key upsert dedupe / Delete clean-up -/
def handleC12 (op : String) (args : Array Json) : Option Json := do
  match op with
  | "assoc.run" =>
    let j := arg args 1
    let cls ← match (← jStr? (← (j.getObjVal? "cls").toOption)) with
      | "bt" => some Cls.bt
      | "fk" => some Cls.fk
      | "m2m" => some Cls.m2m
      | _ => none
    let card1 ← jBool? (← (j.getObjVal? "card1").toOption)
    let os ← parseNatList (← (j.getObjVal? "owners").toOption)
    let links ← parsePairs (← (j.getObjVal? "links").toOption)
    let targets ← parseNatList (← (j.getObjVal? "targets").toOption)
    let next ← jNat? (← (j.getObjVal? "next").toOption)
    let ops ← (← jArr? (← (j.getObjVal? "ops").toOption)).toList.mapM parseAssocOp
    -- optional "mem": [[owner, [keys]] …] = in-memory fields of operated records loaded with Preload
    let memJ := ((j.getObjVal? "mem").toOption.bind jArr?).getD #[]
    let memL ← memJ.toList.mapM fun e => do
      let a ← jArr? e
      some (← jNat? (arg a 0), ← parseNatList (arg a 1))
    let mem0 : Nat → List Nat := fun o => ((memL.find? (·.1 == o)).map (·.2)).getD []
    let s0 : St := { links := links, targets := targets, next := next, mem := mem0,
                     memFk := fun o => if cls = .bt then (mem0 o).headD 0 else 0 }
    some (Json.arr (runObs ⟨cls, card1⟩ os ops s0).toArray)
  | "assoc.poly" =>
    -- ["assoc.poly", {rows: [[id, oid, oty]…], next, ops: [{one, ty, op, unscoped, args: [[o, held, vals]…], named}]}]
    let j := arg args 1
    let rows ← (← jArr? (← (j.getObjVal? "rows").toOption)).toList.mapM fun r => do
      let a ← jArr? r
      some ({ id := ← jNat? (arg a 0), oid := ← jNat? (arg a 1), oty := ← jNat? (arg a 2) } : AssocPoly.Row)
    let next ← jNat? (← (j.getObjVal? "next").toOption)
    let ops ← (← jArr? (← (j.getObjVal? "ops").toOption)).toList.mapM parsePOp
    some (Json.arr (polyRunObs ops { rows := rows, next := next }).toArray)
  | "assoc.polycols" =>
    -- ["assoc.polycols", {one, ty}] -> DO UPDATE SET column list of the relation's upsert + the element's stored pair
    let r ← parsePRel (arg args 1)
    let e := AssocPoly.elem r 1 7
    some (Json.mkObj [("cols", strListJ ((AssocPoly.assignCols r).map colName)),
                      ("elem", natListJ [e.id, e.oid, e.oty]),
                      ("conds", strListJ ((r.refs.filterMap fun | .value _ => some "type" | .ownPk => none) ++ ["id"]))])
  | "assoc.ck" =>
    -- ["assoc.ck", linked tuples, named tuples] -> records created by Append(linked), in-memory field after Delete(named)
    let tup (j : Json) : Option (List (List (List Char))) := do
      (← jArr? j).toList.mapM fun t => do
        (← jArr? t).toList.mapM fun c => (jStr? c).map String.toList
    let linked ← tup (arg args 1)
    let nmd ← tup (arg args 2)
    let showT (l : List (List (List Char))) : Json :=
      Json.arr (l.map (fun t => strListJ (t.map String.ofList))).toArray
    some (Json.mkObj [("created", showT (distinctByKey linked [])), ("mem", showT (keepByKey linked nmd))])
  | "assoc.idvalues" =>
    -- ["assoc.idvalues", [[many, [[addr, [[kv, zero]…]]…]]…]] -> GetIdentityFieldValuesMapFromValues: {groups: [[key, #elements]…], values}
    let as ← (← jArr? (arg args 1)).toList.mapM parseArgV
    let m := identityFromValues as
    some (Json.mkObj [
      ("groups", Json.arr (m.groups.map (fun g => Json.arr #[Json.str (String.ofList g.1), natJ g.2.length])).toArray),
      ("values", Json.arr (m.values.map (fun t => strListJ (t.map kvShow))).toArray)])
  | "assoc.handles" =>
    -- ["assoc.handles", card1, [instr…]] -> per instruction the list of events (Unscoped() as the regenerated facts say)
    let card1 ← jBool? (arg args 1)
    let is ← (← jArr? (arg args 2)).toList.mapM parseInstr
    some (Json.arr (runInstrs (fun _ => card1) {} is).toArray)
  | _ => none

end Gorm.Drv
