import GormModel.Drv.Util
import GormModel.Model.Assoc
open Lean
namespace Gorm.Drv
open Gorm.Assoc
namespace HC12

def parseNatList (j : Json) : Option (List Nat) := do
  (← jArr? j).toList.mapM jNat?

def parsePairs (j : Json) : Option (List (Nat × Nat)) := do
  (← jArr? j).toList.mapM fun p => do
    let a ← jArr? p
    some (← jNat? (arg a 0), ← jNat? (arg a 1))

def parseAssocOp (j : Json) : Option Op := do
  let k ← jStr? (← (j.getObjVal? "op").toOption)
  let kind ← match k with
    | "append" => some OpKind.append
    | "replace" => some OpKind.replace
    | "delete" => some OpKind.delete
    | "clear" => some OpKind.clear
    | _ => none
  let uns := ((j.getObjVal? "unscoped").toOption.bind jBool?).getD false
  let vals ← (← jArr? (← (j.getObjVal? "vals").toOption)).toList.mapM parseNatList
  some { kind := kind, unscoped := uns, vals := vals }

def sortNat (l : List Nat) : List Nat := (l.toArray.qsort (· < ·)).toList
def sortPairs (l : List (Nat × Nat)) : List (Nat × Nat) :=
  (l.toArray.qsort (fun a b => a.1 < b.1 || (a.1 == b.1 && a.2 < b.2))).toList

def obsJ (r : Rel) (os : List Nat) (op : Op) (s : St) : Json :=
  Json.mkObj [
    ("args", natListJ (if op.kind = .append ∨ op.kind = .replace then argIds os op.vals s else [])),
    ("err", Json.bool s.err),
    ("links", Json.arr ((sortPairs s.links.eraseDups).map (fun p => natListJ [p.1, p.2])).toArray),
    ("targets", natListJ (sortNat s.targets.eraseDups)),
    ("count", natJ (count r os s)),
    ("find", natListJ (sortNat (findIds r os s))),
    ("mem", Json.arr (os.map (fun o => natListJ (sortNat (memKeys s o)))).toArray),
    ("stmts", strListJ s.log)]

def runObs (r : Rel) (os : List Nat) : List Op → St → List Json
  | [], _ => []
  | op :: ops, s =>
    let s' := step r os op { s with log := [] }
    obsJ r os op s' :: runObs r os ops s'

end HC12

open HC12 in
/-- ["assoc.run", {cls, card1, owners, links, targets, next, ops}] -> one observation per step;
    ["assoc.ck", linked tuples, named tuples] -> composite-key upsert dedupe / Delete clean-up -/
def handleC12 (op : String) (args : Array Json) : Option Json := do
  match op with
  | "assoc.run" =>
    let j := arg args 1
    let cls ← match (← jStr? (← (j.getObjVal? "cls").toOption)) with
      | "bt" => some Cls.bt
      | "fk" => some Cls.fk
      | "m2m" => some Cls.m2m
      | _ => none
    let card1 ← jBool? (← (j.getObjVal? "card1").toOption)
    let os ← parseNatList (← (j.getObjVal? "owners").toOption)
    let links ← parsePairs (← (j.getObjVal? "links").toOption)
    let targets ← parseNatList (← (j.getObjVal? "targets").toOption)
    let next ← jNat? (← (j.getObjVal? "next").toOption)
    let ops ← (← jArr? (← (j.getObjVal? "ops").toOption)).toList.mapM parseAssocOp
    -- optional "mem": [[owner, [keys]] …] = in-memory fields of operated records loaded with Preload
    let memJ := ((j.getObjVal? "mem").toOption.bind jArr?).getD #[]
    let memL ← memJ.toList.mapM fun e => do
      let a ← jArr? e
      some (← jNat? (arg a 0), ← parseNatList (arg a 1))
    let mem0 : Nat → List Nat := fun o => ((memL.find? (·.1 == o)).map (·.2)).getD []
    let s0 : St := { links := links, targets := targets, next := next, mem := mem0,
                     memFk := fun o => if cls = .bt then (mem0 o).headD 0 else 0 }
    some (Json.arr (runObs ⟨cls, card1⟩ os ops s0).toArray)
  | "assoc.ck" =>
    -- ["assoc.ck", linked tuples, named tuples] -> records created by Append(linked), in-memory field after Delete(named)
    let tup (j : Json) : Option (List (List (List Char))) := do
      (← jArr? j).toList.mapM fun t => do
        (← jArr? t).toList.mapM fun c => (jStr? c).map String.toList
    let linked ← tup (arg args 1)
    let nmd ← tup (arg args 2)
    let showT (l : List (List (List Char))) : Json :=
      Json.arr (l.map (fun t => strListJ (t.map String.ofList))).toArray
    some (Json.mkObj [("created", showT (distinctByKey linked [])), ("mem", showT (keepByKey linked nmd))])
  | _ => none

end Gorm.Drv
