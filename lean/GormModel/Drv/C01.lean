import GormModel.Drv.Util
import GormModel.Model.Bind
import GormModel.Model.BindSpec
import GormModel.Model.BindJoin
import GormModel.Model.BindApi
import GormModel.Model.BindStr
open Lean
open Gorm.Bind
namespace Gorm.Drv
namespace HC01

def chars? (j : Json) : Option (List Char) := (jStr? j).map String.toList

def parseCmp (s : String) : Option Cmp :=
  match s with
  | "eq" => some .eq | "neq" => some .neq | "gt" => some .gt | "gte" => some .gte
  | "lt" => some .lt | "lte" => some .lte | "like" => some .like | "notlike" => some .notLike
  | _ => none

def cmpName : Cmp → String
  | .eq => "eq" | .neq => "neq" | .gt => "gt" | .gte => "gte" | .lt => "lt" | .lte => "lte"
  | .like => "like" | .notLike => "notlike"

def strs? (j : Json) : Option (List (List Char)) := do
  (← jArr? j).toList.mapM chars?

/-- JSON → `Val String` (payloads are the harness' tagged value strings) -/
partial def parseVal (j : Json) : Option (Val String) :=
  match j with
  | Json.null => some .nil
  | _ => do
    let a ← jArr? j
    let tag ← jStr? (arg a 0)
    let vals (k : Nat) : Option (List (Val String)) := do (← jArr? (arg a k)).toList.mapM parseVal
    match tag with
    | "s" => some (.scalar (← jStr? (arg a 1)))
    | "b" => some (.bytes (← jBool? (arg a 1)) (← (← jArr? (arg a 2)).toList.mapM jStr?))
    | "dv" => some (.dvaluer (← jBool? (arg a 1)) (← jStr? (arg a 2)))
    | "gv" => some (.gvaluer (← jBool? (arg a 1)) (← parseVal (arg a 2)))
    | "l" => some (.list (← jBool? (arg a 1)) (← vals 2))
    | "il" => some (.ilist (← vals 1))
    | "na" => some (.named (← chars? (arg a 1)) (← parseVal (arg a 2)))
    | "m" => some (.nmap (← strs? (arg a 1)) (← vals 2))
    | "st" =>
      let fs ← (← jArr? (arg a 1)).toList.mapM fun f => do
        let p ← jArr? f
        some ((← chars? (arg p 0)), (← jBool? (arg p 1)))
      some (.strct fs (← vals 2))
    | "col" => some (.column (← chars? (arg a 1)) (← chars? (arg a 2)) (← chars? (arg a 3)) (← jBool? (arg a 4)))
    | "tab" => some (.table (← chars? (arg a 1)) (← chars? (arg a 2)) (← jBool? (arg a 3)))
    | "e" => some (.expr (← chars? (arg a 1)) (← vals 2) (← jBool? (arg a 3)))
    | "ne" => some (.nexpr (← chars? (arg a 1)) (← vals 2))
    | "cmp" => some (.cmp (← parseCmp (← jStr? (arg a 1))) (← parseVal (arg a 2)) (← parseVal (arg a 3)))
    | "in" => some (.inn (← jBool? (arg a 1)) (← parseVal (arg a 2)) (← vals 3))
    | "values" => some (.values (← vals 1) (← vals 2))
    | "set" => some (.set (← vals 1) (← vals 2))
    | "as" => some (.assign (← parseVal (arg a 1)) (← parseVal (arg a 2)))
    | "limit" => some (.limit (← jBool? (arg a 1)) (← jBool? (arg a 2)) (← jStr? (arg a 3)) (← jBool? (arg a 4)) (← jStr? (arg a 5)))
    | "oc" => some (.onConflict (← chars? (arg a 1)) (← vals 2) (← vals 3) (← jBool? (arg a 4)) (← parseVal (arg a 5)) (← vals 6))
    | "w" => some (.whereC (← vals 1))
    | "ci" => some (.clauseI (← chars? (arg a 1)) (← parseVal (arg a 2)))
    | "cl" => some (.clauses (← strs? (arg a 1)) (← vals 2))
    | "sq" => some (.subq (← strs? (arg a 1)) (← vals 2))
    | "rs" => some (.rsub (← chars? (arg a 1)) (← vals 2))
    | _ => none

def cs (s : List Char) : Json := Json.str (String.ofList s)
def tagged (t : String) (xs : List Json) : Json := Json.arr (Json.str t :: xs).toArray

/-- `Val String` → JSON (same encoding) -/
partial def valJ (v : Val String) : Json :=
  let l (vs : List (Val String)) : Json := Json.arr (vs.map valJ).toArray
  let ss (xs : List (List Char)) : Json := Json.arr (xs.map cs).toArray
  match v with
  | .nil => Json.null
  | .scalar b => tagged "s" [Json.str b]
  | .bytes n bs => tagged "b" [Json.bool n, Json.arr (bs.map Json.str).toArray]
  | .dvaluer n b => tagged "dv" [Json.bool n, Json.str b]
  | .gvaluer n i => tagged "gv" [Json.bool n, valJ i]
  | .list s vs => tagged "l" [Json.bool s, l vs]
  | .ilist vs => tagged "il" [l vs]
  | .named nm x => tagged "na" [cs nm, valJ x]
  | .nmap ks vs => tagged "m" [ss ks, l vs]
  | .strct fs vs => tagged "st" [Json.arr (fs.map fun f => Json.arr #[cs f.1, Json.bool f.2]).toArray, l vs]
  | .column t n a r => tagged "col" [cs t, cs n, cs a, Json.bool r]
  | .table n a r => tagged "tab" [cs n, cs a, Json.bool r]
  | .expr s as w => tagged "e" [cs s, l as, Json.bool w]
  | .nexpr s as => tagged "ne" [cs s, l as]
  | .cmp op c x => tagged "cmp" [Json.str (cmpName op), valJ c, valJ x]
  | .inn neg c vs => tagged "in" [Json.bool neg, valJ c, l vs]
  | .values c r => tagged "values" [l c, l r]
  | .set c x => tagged "set" [l c, l x]
  | .assign c x => tagged "as" [valJ c, valJ x]
  | .limit h nn lim op off => tagged "limit" [Json.bool h, Json.bool nn, Json.str lim, Json.bool op, Json.str off]
  | .onConflict c cols tw dn du w => tagged "oc" [cs c, l cols, l tw, Json.bool dn, valJ du, l w]
  | .whereC es => tagged "w" [l es]
  | .clauseI nm e => tagged "ci" [cs nm, valJ e]
  | .clauses ns es => tagged "cl" [ss ns, l es]
  | .subq ns es => tagged "sq" [ss ns, l es]
  | .rsub t vs => tagged "rs" [cs t, l vs]

def parseDialect (j : Json) : Option Dialect :=
  match jStr? j with
  | some "qmark" => some .qmark
  | some "dollar" => some .dollar
  | _ => none

def stJ (d : Dialect) (st : St String) : Json :=
  Json.mkObj [("sql", cs (concretize d st.segs)), ("vars", Json.arr (st.vars.map valJ).toArray),
    ("phs", natListJ (phs st.segs)), ("oof", Json.bool st.oof), ("unsupported", Json.bool st.unsupported)]

/-- rendering of `v` plus the SPECIFICATION side (`Model/BindSpec.lean`): `wf` = `(spec d v).ok`, `flat` = `(spec d v).xs` -/
def renderJ (d : Dialect) (v : Val String) : Json :=
  let st := render d v
  let sp := spec d v
  Json.mkObj [("sql", cs (concretize d st.segs)), ("vars", Json.arr (st.vars.map valJ).toArray),
    ("phs", natListJ (phs st.segs)), ("oof", Json.bool st.oof), ("unsupported", Json.bool st.unsupported),
    ("wf", Json.bool sp.ok), ("flat", Json.arr (sp.xs.map valJ).toArray)]

end HC01

open HC01 in
/-- line-protocol handler for C01 (ops are JSON arrays `[opname, args…]`); returns `none` for ops it does not own
    ["bind.render", dialect, val]                      → {sql, vars, phs, oof, unsupported, wf, flat}   (`stmt.AddVar(stmt, v)` on a fresh statement; wf/flat = `Gorm.Bind.spec`)
    ["bind.cond", dialect, isNum, query, [args]]       → "fallthrough" | {…}                  (BuildCondition string dispatch, then Build of each result)
    ["bind.join", dialect, pre, [refs], [on], [outer]]  → {…} of `render d (joinStmt d pre refs on outer)`   (relation join: private ON statement re-templated and re-bound)
    ["bind.dispatch", dialect, kind, sql, [args]]      → "fallthrough" | {…}   kind = raw | exec | rawjoin | select  (Expr vs NamedExpr decision of the entry point)
    ["bind.table", dialect, name, [args]]              → {form: expr|qualified|plain|empty, render: {…}|null, binds: [vals], table: Statement.Table | null (outside the model)}   (`(*DB).Table(name, args...)`: Gorm.Bind.tableForm / tableDispatch / tableBinds)
    ["bind.wf", val]                                   → bool (decidable well-formedness, Model side)
    ["bind.atoi", s]                                   → decimal string of the value | null   (Gorm.Bind.atoi = strconv.Atoi; null = error)
    ["bind.cond2", dialect, pkcol, query, [args]]      → {key: bool, out: "fallthrough" | {…}}   (Gorm.Bind.buildCond: COMPLETE string arm of
                                                          BuildCondition, numeric-ness decided by the model; the string payload is "s:"+query) -/
def handleC01 (op : String) (args : Array Json) : Option Json := do
  match op with
  | "bind.render" =>
    let d ← parseDialect (arg args 1)
    let v ← parseVal (arg args 2)
    some (renderJ d v)
  | "bind.cond" =>
    let d ← parseDialect (arg args 1)
    let isNum ← jBool? (arg args 2)
    let q ← chars? (arg args 3)
    let as ← (← jArr? (arg args 4)).toList.mapM parseVal
    match buildCondStr isNum q as with
    | none => some (Json.str "fallthrough")
    | some es => some (renderJ d (.whereC es))
  | "bind.atoi" =>
    let q ← chars? (arg args 1)
    match atoi q with
    | some n => some (Json.str (toString n))
    | none => some Json.null
  | "bind.cond2" =>
    let d ← parseDialect (arg args 1)
    let pk ← parseVal (arg args 2)
    let q ← chars? (arg args 3)
    let as ← (← jArr? (arg args 4)).toList.mapM parseVal
    let out := match buildCond (fun s => "s:" ++ String.ofList s) pk q as with
      | none => Json.str "fallthrough"
      | some es => renderJ d (.whereC es)
    some (Json.mkObj [("key", Json.bool (isKeyString q)), ("out", out)])
  | "bind.join" =>
    let d ← parseDialect (arg args 1)
    let pre ← parseVal (arg args 2)
    let lst (k : Nat) : Option (List (Val String)) := do (← jArr? (arg args k)).toList.mapM parseVal
    some (renderJ d (joinStmt d pre (← lst 3) (← lst 4) (← lst 5)))
  | "bind.dispatch" =>
    let d ← parseDialect (arg args 1)
    let kind ← jStr? (arg args 2)
    let q ← chars? (arg args 3)
    let as ← (← jArr? (arg args 4)).toList.mapM parseVal
    match kind with
    | "raw" => some (renderJ d (rawDispatch q as))
    | "exec" => some (renderJ d (rawDispatch q as))
    | "rawjoin" => some (renderJ d (rawJoinDispatch q as))
    | "select" =>
      match selectDispatch q as with
      | some v => some (renderJ d v)
      | none => some (Json.str "fallthrough")
    | _ => none
  | "bind.table" =>
    let d ← parseDialect (arg args 1)
    let name ← chars? (arg args 2)
    let as ← (← jArr? (arg args 3)).toList.mapM parseVal
    let form := match tableForm name as.length with
      | .expr => "expr" | .qualified => "qualified" | .plain => "plain" | .empty => "empty"
    let r := match tableDispatch name as with
      | some v => renderJ d v
      | none => Json.null
    let tgt := match tableTarget name as.length [] with
      | some t => cs t
      | none => Json.null
    some (Json.mkObj [("form", Json.str form), ("render", r), ("binds", Json.arr ((tableBinds d name as).map valJ).toArray), ("table", tgt)])
  | _ => none

end Gorm.Drv
