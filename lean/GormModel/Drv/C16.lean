import GormModel.Drv.Util
import GormModel.Model.Upsert
import GormModel.Model.UpsertClause
import GormModel.Model.UpsertKeys
import GormModel.Model.UpsertScan
import GormModel.Model.UpsertForms
import GormModel.Gen.BackfillFacts
open Lean
namespace Gorm.Drv
open Gorm.Upsert

namespace HC16

def parseKind (j : Json) : Option ColKind := do
  let a ← jArr? j
  let n ← jStr? (arg a 0)
  match n with
  | "pk" => some .pk
  | "plain" => some .plain
  | "cd" => (jNat? (arg a 1)).map ColKind.clientDefault
  | "dd" => (jNat? (arg a 1)).map ColKind.dbDefault
  | "dn" => some .dbNull
  | "ac" => some .autoCreate
  | "au" => some .autoUpdate
  | "sd" => some .softDelete
  | _ => none

def parseSchema (j : Json) : Option Schema := do
  let ks ← (← jArr? j).toList.mapM parseKind
  some { ncols := ks.length, kind := fun c => ks.getD c .plain }

def parseRow (j : Json) : Option Row := do
  let vs ← (← jArr? j).toList.mapM jNat?
  some (fun c => vs.getD c 0)

def parseStore (rows : Json) (next : Json) : Option Store := do
  let rs ← (← jArr? rows).toList.mapM parseRow
  let n ← jNat? next
  some { rows := fun k => rs.find? (fun r => r 0 == k), next := n }

def parseCond : Nat → Json → Option Cond
  | 0, _ => none
  | fuel + 1, j => do
    let a ← jArr? j
    let n ← jStr? (arg a 0)
    match n with
    | "eq" => some (.eq (← jNat? (arg a 1)) (← jNat? (arg a 2)))
    | "raw" => some (.raw (← jNat? (arg a 1)) (← jNat? (arg a 2)))
    | "and" => do
      let l ← (← jArr? (arg a 1)).toList.mapM (parseCond fuel)
      some (.andG l)
    | _ => none

def parseConds (j : Json) : Option (List Cond) := do
  (← jArr? j).toList.mapM (parseCond 8)

def parsePair (j : Json) : Option (Nat × Nat) := do
  let a ← jArr? j
  some (← jNat? (arg a 0), ← jNat? (arg a 1))

def parseInit (j : Json) : Option (Option Init) :=
  match j with
  | Json.null => some none
  | _ => do
    let a ← jArr? j
    let n ← jStr? (arg a 0)
    match n with
    | "struct" => do let fs ← (← jArr? (arg a 1)).toList.mapM parsePair; some (some (.structV fs))
    | "map" => do let fs ← (← jArr? (arg a 1)).toList.mapM parsePair; some (some (.mapV fs))
    | "kv" => some (some (.kv (← jNat? (arg a 1)) (← jNat? (arg a 2))))
    | _ => none

def parseAsg (j : Json) : Option (Nat × Asg) := do
  let a ← jArr? j
  let c ← jNat? (arg a 0)
  match arg a 1 with
  | Json.null => some (c, .excluded)
  | v => some (c, .lit (← jNat? v))

def parseRule (j : Json) : Option Rule := do
  let a ← jArr? j
  let n ← jStr? (arg a 0)
  match n with
  | "nothing" => some .doNothing
  | "all" => some .updateAll
  | "updates" => do
    let as ← (← jArr? (arg a 1)).toList.mapM parseAsg
    if as.isEmpty then none else some (.doUpdates as)
  | _ => none

def parseStep (j : Json) : Option Step := do
  let a ← jArr? j
  let n ← jStr? (arg a 0)
  match n with
  | "where" => some (.where_ (← parseConds (arg a 1)))
  | "oc" => some (.onConflict (← parseRule (arg a 1)))
  | "attrs" => some (.attrs (← parseInit (arg a 1)))
  | "assign" => some (.assign (← parseInit (arg a 1)))
  | "session" => some .session
  | "ctx" => some .withCtx
  | _ => none

def parseNats (j : Json) : Option (List Nat) := do
  (← jArr? j).toList.mapM jNat?

def parseSrc (j : Json) : Option Src := do
  let a ← jArr? j
  let n ← jStr? (arg a 0)
  match n with
  | "struct" => some (.struct (← parseNats (arg a 1)) (← parseNats (arg a 2)))
  | "map" => some (.map (← parseNats (arg a 1)))
  | _ => none

def parseFin (j : Json) : Option Fin := do
  let a ← jArr? j
  let n ← jStr? (arg a 0)
  match n with
  | "save" => some (.save (← parseRow (arg a 1)))
  | "create" => some (.create (← parseRow (arg a 1)))
  | "createfrom" => some (.createFrom (← parseSrc (arg a 1)) (← parseRow (arg a 2)))
  | "foi" => some (.firstOrInit (← parseConds (arg a 1)))
  | "foc" => some (.firstOrCreate (← parseConds (arg a 1)))
  | _ => none

def parseCfg (j : Json) : Option CloneCfg :=
  match j with
  | Json.str "gen" => some genCfg
  | _ => do
    let a ← jArr? j
    some { clauses := ← jBool? (arg a 0), attrs := ← jBool? (arg a 1), assigns := ← jBool? (arg a 2) }

def rowJ (sch : Schema) (r : Row) : Json := natListJ ((List.range sch.ncols).map r)

def outJ (sch : Schema) (o : Out) : Json :=
  -- keys that can hold a row: below `next` (invariant of every modelled operation)
  let rows := (List.range o.store.next).filterMap (fun k => (o.store.rows k).map (rowJ sch))
  Json.mkObj [("rows", Json.arr rows.toArray), ("next", natJ o.store.next), ("val", rowJ sch o.val),
    ("ra", natJ o.ra), ("err", Json.str (match o.err with | .ok => "ok" | .unique => "unique"))]

def parseUse (j : Json) : Option (List Step × Fin) := do
  let a ← jArr? j
  let steps ← (← jArr? (arg a 0)).toList.mapM parseStep
  some (steps, ← parseFin (arg a 1))

def asgJ (c : Nat) : Asg → Json
  | .excluded => Json.arr #[natJ c, Json.null]
  | .lit x => Json.arr #[natJ c, natJ x]

def parseTerm : Nat → Json → Option Upsert.Term
  | 0, _ => none
  | fuel + 1, j => do
    let a ← jArr? j
    let n ← jStr? (arg a 0)
    match n with
    | "o" => some (.old (← jNat? (arg a 1)))
    | "e" => some (.exc (← jNat? (arg a 1)))
    | "#" => some (.lit (← jNat? (arg a 1)))
    | "+" => some (.add (← parseTerm fuel (arg a 1)) (← parseTerm fuel (arg a 2)))
    | _ => none

def parseCmp (j : Json) : Option Cmp := do
  match ← jStr? j with
  | "=" => some .eq | "<>" => some .ne | ">" => some .gt | "<" => some .lt
  | _ => none

def parseGuard (j : Json) : Option Guard := do
  let a ← jArr? j
  some { l := ← parseTerm 6 (arg a 0), op := ← parseCmp (arg a 1), r := ← parseTerm 6 (arg a 2) }

def parseUpd (j : Json) : Option (Nat × Upsert.Term) := do
  let a ← jArr? j
  some (← jNat? (arg a 0), ← parseTerm 6 (arg a 1))

def fld (j : Json) (k : String) : Json := (j.getObjVal? k).toOption.getD Json.null

def parseOC (j : Json) : Option OC := do
  let cols ← parseNats (fld j "cols")
  let w ← (← jArr? (fld j "where")).toList.mapM parseGuard
  let tw ← (← jArr? (fld j "tw")).toList.mapM parseGuard
  let cons ← jStr? (fld j "cons")
  let dn ← jBool? (fld j "nothing")
  let du ← (← jArr? (fld j "updates")).toList.mapM parseUpd
  let all ← jBool? (fld j "all")
  some { columns := cols, where_ := w, targetWhere := tw, onConstraint := cons, doNothing := dn, doUpdates := du, updateAll := all }

def termJ : Upsert.Term → Json
  | .old c => Json.arr #[Json.str "o", natJ c]
  | .exc c => Json.arr #[Json.str "e", natJ c]
  | .lit v => Json.arr #[Json.str "#", natJ v]
  | .add a b => Json.arr #[Json.str "+", termJ a, termJ b]

def guardJ (g : Guard) : Json := Json.arr #[termJ g.l, Json.str g.op.tok, termJ g.r]

def ocJ (oc : OC) : Json :=
  Json.mkObj [("cols", natListJ oc.columns), ("where", Json.arr (oc.where_.map guardJ).toArray),
    ("tw", Json.arr (oc.targetWhere.map guardJ).toArray), ("cons", Json.str oc.onConstraint),
    ("nothing", Json.bool oc.doNothing),
    ("updates", Json.arr (oc.doUpdates.map (fun a => Json.arr #[natJ a.1, termJ a.2])).toArray),
    ("all", Json.bool oc.updateAll)]

def parseMods (j : Json) : Option Mods := do
  let a ← jArr? j
  some { star := ← jBool? (arg a 0), sel := ← parseNats (arg a 1), om := ← parseNats (arg a 2), omitOther := ← jBool? (arg a 3) }

/-! round 3: `c16.wide` — Model.UpsertKeys -/

def parseKRow (nk : Nat) (j : Json) : Option UpsertK.KRow := do
  let a ← jArr? j
  let k ← (← jArr? (arg a 0)).toList.mapM jNat?
  let n ← jNat? (arg a 1)
  let q ← jNat? (arg a 2)
  let d ← jNat? (arg a 3)
  if k.length != nk then none
  some { key := k, pay := [n, q], del := d != 0 }

def kRowJ (r : UpsertK.KRow) : Json :=
  Json.arr #[natListJ r.key, natJ (r.pay.getD 0 0), natJ (r.pay.getD 1 0), natJ (if r.del then 1 else 0)]

def parseKRows (nk : Nat) (j : Json) : Option (List UpsertK.KRow) := do
  (← jArr? j).toList.mapM (parseKRow nk)

def parseTriple (j : Json) : Option (Nat × Nat × Nat) := do
  let a ← jArr? j
  some (← jNat? (arg a 0), ← jNat? (arg a 1), ← jNat? (arg a 2))

def kErrS : UpsertK.KErr → String
  | .ok => "ok" | .unique => "unique" | .other => "other"

def updShape (table : Nat) (unscoped : Bool) (binds : Nat) : String :=
  "T" ++ toString table ++ "|" ++ (if unscoped then "unscoped" else "scoped") ++ "|" ++ toString binds

def maxKey (t : UpsertK.Tbl) : Nat := t.foldl (fun m r => max m (r.key.headD 0)) 0

def wideOut (w : UpsertK.World) (val : Option UpsertK.KRow) (err : String) (upd : List String) : Json :=
  Json.mkObj [("main", Json.arr (w.main.map kRowJ).toArray), ("arch", Json.arr (w.arch.map kRowJ).toArray),
    ("val", match val with | some r => kRowJ r | none => Json.null), ("err", Json.str err), ("upd", strListJ upd)]

def runWide (o : Json) : Option Json := do
  let nk ← jNat? (o.getObjValD "nk")
  let auto := (← jNat? (o.getObjValD "auto")) != 0
  let main ← parseKRows nk (o.getObjValD "main")
  let arch ← parseKRows nk (o.getObjValD "arch")
  let table ← jNat? (o.getObjValD "table")
  let unscoped := (← jNat? (o.getObjValD "unscoped")) != 0
  let conds ← (← jArr? (o.getObjValD "conds")).toList.mapM parseTriple
  let txn ← jNat? (o.getObjValD "txconds")
  let attrs ← (← jArr? (o.getObjValD "attrs")).toList.mapM parsePair
  let assigns ← (← jArr? (o.getObjValD "assigns")).toList.mapM parsePair
  let op ← jStr? (o.getObjValD "op")
  let vals ← parseKRows nk (o.getObjValD "vals")
  let w : UpsertK.World := { main := main, arch := arch }
  let qconds := conds.map (fun c => (c.1, c.2.1))
  let bconds := (conds.filter (fun c => c.2.2 != 0)).map (fun c => (c.1, c.2.1))
  let st : UpsertK.MStmt := { conds := qconds.take txn, unscoped := unscoped, table := table }
  let newKey : Option Nat := if auto then some (maxKey (w.tbl table) + 1) else none
  let kt := UpsertK.genKeyTest
  let cfg := UpsertK.genNestCfg
  match op with
  | "save" | "save2" =>
    let v ← vals.head?
    let r1 := UpsertK.saveW kt cfg st w v newKey
    let u := UpsertK.nest cfg.saveUpdKeeps st
    let upd := if kt.creates v.key then [] else [updShape u.table u.unscoped (v.key.filter (· != 0)).length]
    if op == "save" || r1.2 then some (wideOut r1.1 none (if r1.2 then "unique" else "ok") upd)
    else
      -- the first Save wrote the key the database handed out back into the value
      let v2 := if kt.creates v.key then UpsertK.assignKey newKey v else v
      let r2 := UpsertK.saveW kt cfg st r1.1 v2 newKey
      some (wideOut r2.1 none (if r2.2 then "unique" else "ok") [])
  | "saves" =>
    -- finisher_api.go Save, slice case: one INSERT … ON CONFLICT UpdateAll on the chain's own statement
    let t := vals.foldl UpsertK.upsertK (w.tbl table)
    some (wideOut (w.set table t) none "ok" [])
  | "create" =>
    let v ← vals.head?
    let rule ← jStr? (o.getObjValD "rule")
    let rcols ← parseNats (o.getObjValD "rcols") <|> some []
    let kr : UpsertK.KRule := match rule with
      | "nothing" => .doNothing | "all" => .updateAll | "upd" => .doUpdates rcols | _ => .none
    let r := UpsertK.createK kr (w.tbl table) (UpsertK.assignKey newKey v)
    some (wideOut (w.set table r.1) none (if r.2 then "unique" else "ok") [])
  | "foi" =>
    -- round 4: `main` / `arch` arrive in STORAGE (insertion) order; the row the lookup loads is decided by
    -- UpsertScan.lookupK under the regenerated LookupCfg and brought to the front for firstMatchK (C16_lookup_front)
    let w := w.set table (UpsertScan.front (UpsertScan.lookupK (UpsertScan.genLookupCfg "DB.FirstOrInit") st qconds (w.tbl table)) (w.tbl table))
    let out := UpsertK.firstOrInitK nk 2 st qconds bconds attrs assigns w
    some (wideOut out.world (some out.val) (kErrS out.err) [])
  | "foc" =>
    let w := w.set table (UpsertScan.front (UpsertScan.lookupK (UpsertScan.genLookupCfg "DB.FirstOrCreate") st qconds (w.tbl table)) (w.tbl table))
    let out := UpsertK.firstOrCreateK cfg nk 2 st qconds bconds attrs assigns newKey w
    let upd := match UpsertK.firstMatchK st qconds w with
      | some r =>
        let n := UpsertK.nest cfg.foundKeeps st
        if assigns.isEmpty || UpsertK.foundBinds n r = 0 then [] else [updShape n.table n.unscoped (UpsertK.foundBinds n r)]
      | none => []
    some (wideOut out.world (some out.val) (kErrS out.err) upd)
  | _ => none

/-! round 4: `c16.scan` — Model.UpsertScan.assign under the regenerated scan mode -/

def parseElem (j : Json) (idx : Nat) : Option UpsertScan.Elem := do
  let a ← jArr? j
  let nz := (← jNat? (arg a 0)) != 0
  let ret := (← jNat? (arg a 1)) != 0
  some { nz := nz, ret := if ret then some idx else none }

def parseElems (j : Json) : Option (List UpsertScan.Elem) := do
  let a ← jArr? j
  (List.range a.size).mapM (fun i => parseElem (arg a i) i)

/-- answer: {skip, src}: per batch, per element, the index (within the batch) of the element whose row it receives, -1 = none -/
def runScan (o : Json) : Option Json := do
  let f : UpsertScan.OCFlags := {
    doNothing := (← jNat? (o.getObjValD "doNothing")) != 0, updateAll := (← jNat? (o.getObjValD "updateAll")) != 0,
    doUpdates := (← jNat? (o.getObjValD "doUpdates")) != 0, where_ := (← jNat? (o.getObjValD "where")) != 0 }
  let bs ← (← jArr? (o.getObjValD "batches")).toList.mapM parseElems
  let src := bs.map (fun es => Json.arr ((UpsertScan.scanUpsert UpsertScan.genScanCfg f es).map (fun
    | some i => Json.num (Int.ofNat i)
    | none => Json.num (-1 : Int))).toArray)
  some (Json.mkObj [("skip", Json.bool (UpsertScan.skipMode UpsertScan.genScanCfg f)), ("src", Json.arr src.toArray)])

/-! round 5: `c16.forms` — Model.UpsertForms.build under the regenerated resolution sites; `c16.backfill5` — backfillG -/

def parseKV (j : Json) : Option (Nat × Nat) := do
  let a ← jArr? j
  some (← jNat? (arg a 0), ← jNat? (arg a 1))

def parseFArg (j : Json) : Option UpsertForms.Arg := do
  let a ← jArr? j
  let k ← jStr? (arg a 0)
  let kvs ← (← jArr? (arg a 1)).toList.mapM parseKV
  match k with
  | "eqs" => some (.eqs kvs)
  | "cols" => some (.cols kvs)
  | "strct" => some (.strct kvs)
  | _ => none

def parseFArgs (j : Json) : Option (List UpsertForms.Arg) := do (← jArr? j).toList.mapM parseFArg

def runForms (o : Json) : Option Json := do
  let fs ← (← jArr? (fld o "fs")).toList.mapM (fun j => do
    let kv ← parseKV j
    some ({ go := kv.1, db := kv.2 } : UpsertForms.FField))
  let c ← parseFArgs (fld o "conds")
  let a ← parseFArgs (fld o "attrs")
  let g ← parseFArgs (fld o "assigns")
  some (natListJ (UpsertForms.build UpsertForms.genSites fs c a g))

def runBackfill5 (args : Array Json) : Option Json := do
  -- ["c16.backfill5", reversed, hasDefault, autoInc, intType, inc, keys, rowsAffected, lastId|null]
  let rev ← jBool? (arg args 1)
  let hd ← jBool? (arg args 2)
  let auto ← jBool? (arg args 3)
  let intT ← jBool? (arg args 4)
  let inc ← jInt? (arg args 5)
  let ks ← (← jArr? (arg args 6)).toList.mapM jInt?
  let ra ← jInt? (arg args 7)
  let lid := jInt? (arg args 8)
  some (Json.arr ((UpsertForms.backfillG UpsertForms.genGuarded Gen.backfillGuardsKeyKind rev hd auto intT inc ks ⟨ra, lid⟩).map
    (fun k => Json.num (JsonNumber.fromInt k))).toArray)

end HC16

open HC16 in
/-- line-protocol handler for C16:
    ["c16.run", cfg, kinds, rows, next, steps, fin] -> {rows, next, val, ra, err}
    ["c16.gencfg"] -> [clauses, attrs, assigns] of the regenerated clone facts -/
def handleC16 (op : String) (args : Array Json) : Option Json := do
  match op with
  | "c16.run" =>
    let cfg ← parseCfg (arg args 1)
    let sch ← parseSchema (arg args 2)
    let st ← parseStore (arg args 3) (arg args 4)
    let steps ← (← jArr? (arg args 5)).toList.mapM parseStep
    let fin ← parseFin (arg args 6)
    some (outJ sch (runChain cfg sch st steps fin))
  | "c16.reuse" =>
    -- ["c16.reuse", cfg, kinds, rows, next, prefix, [[steps, fin]…]] -> one {rows,…} per use (genRecvW)
    let cfg ← parseCfg (arg args 1)
    let sch ← parseSchema (arg args 2)
    let st ← parseStore (arg args 3) (arg args 4)
    let pre ← (← jArr? (arg args 5)).toList.mapM parseStep
    let uses ← (← jArr? (arg args 6)).toList.mapM parseUse
    some (Json.arr ((useSeq cfg genRecvW sch st (Handle.base.run cfg pre) uses).map (outJ sch)).toArray)
  | "c16.cols" =>
    -- ["c16.cols", kinds, src, row] -> {ins: listed columns, set: the UpdateAll expansion [[col, null|lit]…]}
    let sch ← parseSchema (arg args 1)
    let src ← parseSrc (arg args 2)
    let v ← parseRow (arg args 3)
    let ins := src.listed sch v
    let cols := List.range sch.ncols
    some (Json.mkObj [("ins", natListJ (cols.filter ins)),
      ("set", Json.arr (cols.filterMap (fun c => (updateAllIns sch src ins c).map (asgJ c))).toArray)])
  | "c16.save" =>
    -- ["c16.save", kinds, rows, next, [star, sel, om, omitOther], row] -> {rows,…}: Save under Select/Omit (genSaveCfg)
    let sch ← parseSchema (arg args 1)
    let st ← parseStore (arg args 2) (arg args 3)
    let m ← parseMods (arg args 4)
    let v ← parseRow (arg args 5)
    some (outJ sch (saveFrom genSaveCfg sch st m v))
  | "c16.oc" =>
    -- ["c16.oc", kinds, src, row, oc, old|null, excluded|null] -> {oc: the clause after gorm's rewriting (every field),
    --   render: its token list, row: the conflicting row after the rule (when old/excluded are given)}
    let sch ← parseSchema (arg args 1)
    let src ← parseSrc (arg args 2)
    let v ← parseRow (arg args 3)
    let oc ← parseOC (arg args 4)
    let ins := src.listed sch v
    let hasCols := (List.range sch.ncols).any ins
    let oc' := oc.expand sch src ins hasCols
    let row : Json := match parseRow (arg args 5), parseRow (arg args 6) with
      | some o, some p => rowJ sch (oc'.onRow o p)
      | _, _ => Json.null
    some (Json.mkObj [("oc", ocJ oc'), ("render", strListJ oc'.render), ("row", row)])
  | "c16.wide" => runWide (arg args 1)
  | "c16.scan" => runScan (arg args 1)
  | "c16.forms" => runForms (arg args 1)
  | "c16.backfill5" => runBackfill5 args
  | "c16.genforms" =>
    some (Json.arr #[Json.arr (UpsertForms.genLookUpField.map Json.bool).toArray,
      Json.arr (UpsertForms.genSites.eqString.map Json.bool).toArray, Json.arr (UpsertForms.genSites.eqColumn.map Json.bool).toArray,
      Json.arr (UpsertForms.genSites.structField.map Json.bool).toArray, Json.bool UpsertForms.genGuarded])
  | "c16.genscan" =>
    some (Json.arr #[strListJ UpsertScan.genScanCfg.skipWhen,
      Json.bool (UpsertScan.genLookupCfg "DB.FirstOrInit").ordered, Json.bool (UpsertScan.genLookupCfg "DB.FirstOrCreate").ordered])
  | "c16.genkeys" =>
    -- the regenerated key test of Save and the nested-handle facts
    some (Json.arr #[Json.str (match UpsertK.genKeyTest with | .anyZero => "any" | .allZero => "all" | .unknown => "unknown"),
      Json.bool UpsertK.genNestCfg.foundKeeps, Json.bool UpsertK.genNestCfg.createKeeps,
      Json.bool UpsertK.genNestCfg.saveUpdKeeps, Json.bool UpsertK.genNestCfg.saveInsKeeps])
  | "c16.gensave" =>
    some (Json.arr #[Json.bool genSaveCfg.selBySelects, Json.bool genSaveCfg.selByOmits])
  | "c16.genrecvw" =>
    some (Json.arr ([FinKind.save, .create, .firstOrInit, .firstOrCreate].map (fun k =>
      Json.arr ([Fld.clauses, .attrs, .assigns].map (fun f => Json.bool (genRecvW k f))).toArray)).toArray)
  | "c16.gencfg" =>
    some (Json.arr #[Json.bool genCfg.clauses, Json.bool genCfg.attrs, Json.bool genCfg.assigns])
  | _ => none

end Gorm.Drv
