import GormModel.Drv.Util
import GormModel.Model.Heap
import GormModel.Model.ClauseMap
import GormModel.Model.SessionWrites
import GormModel.Model.ArgUse
import GormModel.Model.PreloadConds
open Lean
open Gorm.Heap
namespace HC06
open Gorm.Drv

def natList? (j : Json) : Option (List Nat) := do
  (← jArr? j).toList.mapM jNat?

def parseOp (j : Json) : Option Op := do
  let a ← jArr? j
  let name ← jStr? (arg a 0)
  let n (i : Nat) : Option Nat := jNat? (arg a i)
  match name with
  | "session" | "debug" => some (.session (← n 1))
  | "newdb" => some (.newdb (← n 1))
  | "ctx" => some (.ctx (← n 1))
  | "begin" => some (.begin (← n 1))
  | "cond" => some (.cond (← n 1) (← n 2) (← n 3))
  | "condg" => some (.condG (← n 1) (← n 2) (← n 3))
  | "order" => some (.order (← n 1) (← n 2))
  | "orderc" => some (.orderC (← n 1) (← n 2) (← n 3))
  | "group" => some (.group (← n 1) (← n 2))
  | "having" => some (.having (← n 1) (← n 2))
  | "havingg" => some (.havingG (← n 1) (← n 2))
  | "ret" => some (.ret (← n 1) (← natList? (arg a 2)))
  | "retstar" => some (.retStar (← n 1))
  | "limit" => some (.limit (← n 1) (← n 2))
  | "offset" => some (.offset (← n 1) (← n 2))
  | "select" => some (.select (← n 1) (← natList? (arg a 2)))
  | "selects" => some (.selectS (← n 1) (← n 2) (← n 3) (← natList? (arg a 4)))
  | "omit" => some (.omit (← n 1) (← natList? (arg a 2)))
  | "joins" => some (.joins (← n 1) (← n 2))
  | "scopes" => some (.scopes (← n 1) (← n 2))
  | "distinct" => some (.distinct (← n 1))
  | "table" => some (.table (← n 1) (← n 2))
  -- chain calls whose effect is not part of the rendered statement: getInstance + an unrendered field
  | "unscoped" | "model" | "preload" | "onconflict" => some (.unscoped (← n 1))
  | "lock" => some (.lock (← n 1) (← n 2))
  | "render" => some (.render (← n 1) (← n 2))
  | "skip" => some .skip
  | _ => none

def parseSlice (j : Json) : Option (List Nat × Nat) := do
  let a ← jArr? j
  some (← natList? (arg a 0), ← jNat? (arg a 1))

def tokStr : Tok → String
  | .lp => "(" | .rp => ")" | .and => "AND" | .or => "OR" | .not => "NOT"
  | .cond n => s!"c{n}" | .sel n => s!"s{n}" | .omit n => s!"o{n}" | .distinct => "DISTINCT"
  | .count n => s!"COUNT{n}" | .countD n => s!"COUNTD{n}" | .countStar => "COUNT*"
  | .table n => s!"t{n}" | .join n => s!"j{n}" | .whereKw => "WHERE" | .groupKw => "GROUP"
  | .gcol n => s!"g{n}" | .havingKw => "HAVING" | .orderKw => "ORDER" | .ocol n => s!"ob{n}" | .pk => "PK"
  | .limit n => s!"LIMIT{n}" | .offset n => s!"OFFSET{n}" | .lock n => s!"LOCK{n}"
  | .retKw => "RETURNING" | .rcol n => s!"rc{n}" | .retStar => "RET*" | .fin n => s!"FIN{n}"

def toksJ (ts : List Tok) : Json := strListJ (ts.map tokStr)

end HC06

namespace Gorm.Drv

open HC06 in
/-- `["c06.run", fuel, slices, ops]` → `{outs: [[opIndex, tokensInHistory, tokensAlone]…], writes, arrays}`;
    `["c06.cfg"]` → the copy / merge discipline the model currently reads from the regenerated facts -/
def handleC06 (op : String) (args : Array Json) : Option Json := do
  match op with
  | "c06.run" =>
    let fuel ← jNat? (arg args 1)
    let slices ← (← jArr? (arg args 2)).toList.mapM parseSlice
    let ops ← (← jArr? (arg args 3)).toList.mapM parseOp
    let h : History := ⟨slices, ops⟩
    let S := run genAll fuel h
    let outs := (compareAll genAll fuel h).map (fun (i, a, b) => Json.arr #[natJ i, toksJ a, toksJ b])
    some (Json.mkObj [("outs", Json.arr outs.toArray), ("writes", natJ S.heap.writes), ("arrays", natJ S.heap.arrs.length)])
  | "c06.sess" =>
    -- ["c06.sess", [flag names]] → the model's run of the regenerated Session() body for these flags
    let names ← (← jArr? (arg args 1)).toList.mapM jStr?
    let flags ← names.mapM Gorm.flagOfName
    let r := Gorm.sessW (Gorm.SessFlags.ofList flags)
    some (Json.mkObj [("bad", strListJ r.bad), ("sharedWrites", strListJ r.sharedWrites),
      ("shared", Json.bool r.shared), ("clone", natJ r.clone)])
  | "c06.clonemap" =>
    -- ["c06.clonemap", [[key, hasExpr, hasBefore, hasAfterName, hasAfter, hasBuilder]…]] → the clone's entries
    let es ← (← jArr? (arg args 1)).toList.mapM (fun j => do
      let a ← jArr? j
      let k ← jStr? (arg a 0)
      let b (i : Nat) : Option (Option Nat) := do let n ← jNat? (arg a i); some (if n = 0 then none else some n)
      some ({ key := k, expr := ← b 1, before := ← b 2, afterName := ← b 3, after := ← b 4,
              builder := (← jNat? (arg a 5)) != 0 } : Gorm.ClauseMap.CEntry))
    match Gorm.ClauseMap.cloneMap es with
    | none => some (Json.str "unknown")
    | some c =>
      let o (x : Option Nat) : Json := natJ (x.getD 0)
      some (Json.arr (c.map (fun e => Json.arr #[Json.str e.key, o e.expr, o e.before, o e.afterName, o e.after,
        natJ (if e.builder then 1 else 0)])).toArray)
  | "c06.from" =>
    -- ["c06.from", callerJoins, stmtJoins, rounds] → joins in FROM while a query is built / after `rounds` queries
    let c ← jNat? (arg args 1)
    let n ← jNat? (arg args 2)
    let k ← jNat? (arg args 3)
    let caller := List.range c
    let gens := (List.range n).map (fun i => [100 + i])
    match Gorm.ClauseMap.queryRounds Gorm.ClauseMap.fromRestore gens k caller with
    | none => some (Json.str "unknown")
    | some a => some (Json.mkObj [("during", natJ (Gorm.ClauseMap.buildFrom a gens).length), ("after", natJ a.length)])
  | "c06.arguse" =>
    -- ["c06.arguse", site (joins|addvar|group), [kinds of the argument's WHERE elements], pending scopes, qc (0 = none)]
    -- → which parts of the ARGUMENT the model says change, exposed-slot writes, and the site's regenerated discipline
    let site ← jStr? (arg args 1)
    let kinds ← natList? (arg args 2)
    let nsc ← jNat? (arg args 3)
    let qc ← jNat? (arg args 4)
    let r := Gorm.ArgUse.tieRun site kinds nsc (if qc = 0 then none else some qc)
    let sc := if site == "joins" then Gorm.ArgUse.joinsCfg else if site == "addvar" then Gorm.ArgUse.addVarCfg else Gorm.ArgUse.groupCfg
    some (Json.mkObj [("changed", strListJ r.1), ("writes", natJ r.2), ("safe", Json.bool sc.safe)])
  | "c06.argsites" =>
    some (Json.arr (Gorm.Gen.argSites.map (fun s => Json.mkObj [("file", Json.str s.file), ("fn", Json.str s.fn),
      ("writes", strListJ ((Gorm.ArgUse.siteWrites s).map (fun e => e.kind ++ ":" ++ e.what)))])).toArray)
  | "c06.preconds" =>
    -- ["c06.preconds", [atoms of Preload's arguments: 0 = scope function], spare capacity, [atoms of the Associations conds]]
    -- → what the handle's Preloads[name] holds after ONE chain ran its preload, under the regenerated discipline
    let cell (n : Nat) : Cell := .atom n
    let a ← natList? (arg args 1)
    let spare ← jNat? (arg args 2)
    let assoc ← natList? (arg args 3)
    let p := Gorm.PreConds.prefixInitOf Gorm.Gen.aliasWrites
    let r := Gorm.PreConds.argsAfter p (a.map cell) spare (assoc.map cell)
    let ids := r.1.map (fun c => match c with | .atom n => n | _ => 0)
    some (Json.mkObj [("after", Json.arr (ids.map natJ).toArray), ("writes", natJ r.2), ("prefixInit", Json.bool p)])
  | "c06.cfg" =>
    some (Json.str (toString (repr genAll)))
  | _ => none

end Gorm.Drv
