import GormModel.Drv.Util
import GormModel.Gen.GuardWhereFacts
open Lean
namespace Gorm.Drv

/-- line-protocol handler for C09 (ops are JSON arrays `[opname, args…]`); returns `none` for ops it does not own -/
def handleC09 (op : String) (args : Array Json) : Option Json := do
  match op with
  | "c09.facts" =>
    -- the regenerated facts that tell whether the repair of F26-C09-empty-where-entry is present in the tree under test
    some (Json.mkObj [("guardRejectsEmptyWhere", Json.bool Gen.guardRejectsEmptyWhere),
      ("guardFnFound", Json.bool Gen.guardFnFound), ("guardSoftBranchFound", Json.bool Gen.guardSoftBranchFound)])
  | _ => none

end Gorm.Drv
