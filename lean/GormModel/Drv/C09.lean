import GormModel.Drv.Util
import GormModel.Drv.C02
import GormModel.Gen.GuardWhereFacts
import GormModel.Model.Scopes
import GormModel.Model.UpdateKeysGuard
import GormModel.Model.GuardMode
import GormModel.Model.AssocGuard
open Lean
namespace Gorm.Drv

namespace HC09

def parseScope (j : Json) : Option Scope := do
  let conds ← (← jArr? (j.getObjValD "conds")).toList.mapM jNat?
  let derive ← jBool? (j.getObjValD "derive")
  some { conds := conds, derive := derive }

end HC09

open HC02 in
/-- line-protocol handler for C09 (ops are JSON arrays `[opname, args…]`); returns `none` for ops it does not own -/
def handleC09 (op : String) (args : Array Json) : Option Json := do
  match op with
  | "c09.facts" =>
    -- the regenerated facts that tell whether the repair of F26-C09-empty-where-entry is present in the tree under test
    some (Json.mkObj [("guardRejectsEmptyWhere", Json.bool Gen.guardRejectsEmptyWhere),
      ("guardFnFound", Json.bool Gen.guardFnFound), ("guardSoftBranchFound", Json.bool Gen.guardSoftBranchFound)])
  | "c09.scopes" =>
    -- ["c09.scopes", threaded|null, [init ids], [{conds:[ids], derive:bool}…]] -> WHERE ids of the statement the finisher
    -- continues with (null = the loop shape of the tree under test, Gen.scopesThreaded)
    let threaded := (jBool? (arg args 1)).getD Gen.scopesThreaded
    let init ← (← jArr? (arg args 2)).toList.mapM jNat?
    let scopes ← (← jArr? (arg args 3)).toList.mapM HC09.parseScope
    let r := execScopes threaded scopes init
    some (Json.mkObj [("where", natListJ r.ret), ("orig", natListJ r.orig), ("retIsOrig", Json.bool r.retIsOrig),
      ("threaded", Json.bool threaded)])
  | "c09.guardruns" =>
    -- ["c09.guardruns", dryRun, prepareStmt, skipHooks, skipDefaultTx, inTx, allowGlobal, hasErr] -> does the guard's test run?
    let m : Mode := { dryRun := ← jBool? (arg args 1), prepareStmt := ← jBool? (arg args 2), skipHooks := ← jBool? (arg args 3),
                      skipDefaultTx := ← jBool? (arg args 4), inTx := ← jBool? (arg args 5) }
    some (Json.bool (guardRuns Gen.guardOuterConds m (← jBool? (arg args 6)) (← jBool? (arg args 7))))
  | "c09.updrejected" =>
    -- ["c09.updrejected", softFilter|null, [modelKey atoms], allowGlobal, [ops], [valueKey atoms], same, mode(5 bools)]
    --   -> {rejected, keys}: the update's decision from the PER-BLOCK transcription of ConvertToAssignments
    --   (Model/UpdateKeys.lean, code = regenerated facts) in the given mode
    let soft ← match arg args 1 with
      | Json.null => some none
      | v => (parseAtom v).map some
    let mk ← parseAtoms (arg args 2)
    let ag ← jBool? (arg args 3)
    let ops ← (← jArr? (arg args 4)).toList.mapM parseStmtOp
    let vk ← parseAtoms (arg args 5)
    let same ← jBool? (arg args 6)
    let mj ← jArr? (arg args 7)
    let m : Mode := { dryRun := ← jBool? (arg mj 0), prepareStmt := ← jBool? (arg mj 1), skipHooks := ← jBool? (arg mj 2),
                      skipDefaultTx := ← jBool? (arg mj 3), inTx := ← jBool? (arg mj 4) }
    let cfg : StmtCfg := { soft := soft, modelKey := mk, allowGlobal := ag }
    let s := stmtRun cfg StmtState.fresh ops
    let rej := guardRuns Gen.guardOuterConds m ag false &&
      finRejectedUpd Gen.guardRejectsEmptyWhere updateKeyCodeOfFacts { cfg with allowGlobal := false } s vk same
    some (Json.mkObj [("rejected", Json.bool rej), ("keys", natJ (updateKeysOf updateKeyCodeOfFacts mk vk same).length)])
  | "c09.sentbefore" =>
    -- ["c09.sentbefore", "update"|"delete", belongsToValues, selectedM2M] -> statements sent before the guard's handler
    let pl ← jStr? (arg args 1)
    let i : AssocInput := { belongsToValues := ← jNat? (arg args 2), selectedM2M := ← jNat? (arg args 3) }
    some (natJ (sentBeforeGuard (pipelineRegs pl) (if pl == "update" then "Update" else "Delete") i))
  | "c09.r4facts" =>
    some (Json.mkObj [("scopesThreaded", Json.bool Gen.scopesThreaded), ("guardOuterConds", strListJ Gen.guardOuterConds),
      ("guardReads", strListJ Gen.guardReads), ("updateValueKeyGuard", strListJ Gen.updateValueKeyGuard),
      ("updateWhereSites", natJ Gen.updateWhereSites.length), ("guardBypassReturns", natJ Gen.guardBypassReturns.length)])
  | _ => none

end Gorm.Drv
