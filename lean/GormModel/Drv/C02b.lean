import GormModel.Drv.Util
import GormModel.Model.CondValue
import GormModel.Model.UpdateKeys
import GormModel.Drv.C02c
open Lean
namespace Gorm.Drv
namespace HC02

def parseGoVal (j : Json) : Option GoVal := do
  let kind ← match jStr? (← (j.getObjVal? "kind").toOption) with
    | some "slice" => some GoKind.slice | some "array" => some GoKind.array
    | some "invalid" => some GoKind.invalid | some "other" => some GoKind.other | _ => none
  let b := fun (k : String) => (j.getObjVal? k).toOption.bind jBool?
  some { kind := kind, len := ← jNat? (← (j.getObjVal? "len").toOption), direct := ← b "direct", dv := ← b "dv", gv := ← b "gv",
         eqListed := ← b "eqListed", isNil := ← b "isNil", elemByte := ← b "elemByte" }

def shapeJ : CondShape → Json
  | .eq => Json.str "eq"
  | .inList n => Json.str ("in" ++ toString n)

def parsePairs (j : Json) : Option (List (String × Int)) := do
  (← jArr? j).toList.mapM fun p => do
    let a ← jArr? p
    some (← jStr? (arg a 0), ← jInt? (arg a 1))

def pairsJ (l : List (String × Int)) : Json :=
  Json.arr (l.map (fun p => Json.arr #[Json.str p.1, Json.num (JsonNumber.fromInt p.2)])).toArray

/-- round-4 ops of C02 -/
def handleC02b (op : String) (args : Array Json) : Option Json := do
  match op with
  | "val.dispatch" =>
    -- ["val.dispatch", goval, withEq] -> {map, col, eq, neq}: the dispatch of BuildCondition's map / (col, v) arms and the
    -- text of Eq.Build / Neq.Build on column `c` (dummy dialector quoting) for a value described by what reflection sees
    let v ← parseGoVal (arg args 1)
    let withEq ← jBool? (arg args 2)
    some (Json.mkObj [
      ("map", shapeJ (mapArm genMapSliceGuards v)),
      ("col", shapeJ (colArm v)),
      ("eq", Json.str (if withEq then cvEqText "`c`" v else "")),
      ("neq", Json.str (if withEq then cvNeqText "`c`" v else ""))])
  | "rekey.tie" =>
    -- ["rekey.tie", [pk columns], [[col, value]…] model value, [[col, value]…] assignments] -> {conds, set, after}
    let pks ← (← jArr? (arg args 1)).toList.mapM jStr?
    let m ← parsePairs (arg args 2)
    let sets ← parsePairs (arg args 3)
    let o := updConvertToAssignments Gen.updateKeyBlockBeforeAssignments pks m sets
    some (Json.mkObj [("conds", pairsJ o.conds), ("set", pairsJ o.set), ("after", pairsJ o.after)])
  | _ => handleC02c op args

end HC02
end Gorm.Drv
