import GormModel.Drv.Util
import GormModel.Model.Limit
import GormModel.Model.Batches
open Lean
namespace Gorm.Drv

def parseLimCalls (j : Json) : Option (List LimCall) := do
  let a ← jArr? j
  a.toList.mapM fun c => do
    let p ← jArr? c
    let k ← jStr? (arg p 0)
    let n ← jInt? (arg p 1)
    match k with
    | "limit" => some (LimCall.limit n)
    | "offset" => some (LimCall.offset n)
    | _ => none

def handleC15 (op : String) (args : Array Json) : Option Json := do
  match op with
  | "limit.merge" =>
    let cs ← parseLimCalls (arg args 1)
    let st := applyCalls none cs
    some (Json.arr #[optIntJ (effLimitOf st), optIntJ (effOffsetOf st)])
  | "batches" =>
    let rowsJ ← jArr? (arg args 1)
    let rows ← rowsJ.toList.mapM jNat?
    let cs ← parseLimCalls (arg args 2)
    let b ← jInt? (arg args 3)
    let st := applyCalls none cs
    let out := findInBatches rows st b (rows.length + 2)
    some (Json.mkObj [
      ("batches", Json.arr (out.batches.map natListJ).toArray),
      ("find", natListJ (findAll rows st)),
      ("fuel", Json.bool out.outOfFuel),
      ("pk", Json.bool out.pkRequired)])
  | _ => none

end Gorm.Drv
