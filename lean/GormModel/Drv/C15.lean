import GormModel.Drv.Util
import GormModel.Model.Limit
import GormModel.Model.Batches
import GormModel.Model.ReadPaths
import GormModel.Model.ScanLoop
import GormModel.Gen.ReadPathFacts
import GormModel.Model.ScanPool
import GormModel.Gen.ScanPoolFacts
import GormModel.Model.ReadSelect
import GormModel.Model.KeyCursor
open Lean
namespace Gorm.Drv
namespace HC15
open Gorm.ScanLoop

def parseLimCalls (j : Json) : Option (List LimCall) := do
  let a ← jArr? j
  a.toList.mapM fun c => do
    let p ← jArr? c
    let k ← jStr? (arg p 0)
    let n ← jInt? (arg p 1)
    match k with
    | "limit" => some (LimCall.limit n)
    | "offset" => some (LimCall.offset n)
    | _ => none

def parseNats (j : Json) : Option (List Nat) := do
  let a ← jArr? j
  a.toList.mapM jNat?

/-- units: `[[isOr, [ids satisfying the member]], …]` -/
def parseUnits (j : Json) : Option (List WUnit) := do
  let a ← jArr? j
  a.toList.mapM fun u => do
    let p ← jArr? u
    let o ← jBool? (arg p 0)
    let ids ← parseNats (arg p 1)
    some { isOr := o, sat := fun k => ids.contains k }

/-- order columns: `[[tag, desc, [[id, rank], …]], …]` -/
def parseOrder (j : Json) : Option (List OrdCol) := do
  let a ← jArr? j
  a.toList.mapM fun c => do
    let p ← jArr? c
    let tag ← jNat? (arg p 0)
    let d ← jBool? (arg p 1)
    let m ← jArr? (arg p 2)
    let kv ← m.toList.mapM fun e => do
      let q ← jArr? e
      let id ← jNat? (arg q 0)
      let r ← jInt? (arg q 1)
      some (id, r)
    some { key := fun k => (kv.lookup k).getD 0, desc := d, tag := tag }

def queriesJ (qs : List BatchQuery) : Json :=
  Json.arr (qs.map fun q => Json.arr #[Json.num (JsonNumber.fromInt q.limit), optIntJ q.offset,
    match q.cursor with | some c => natJ c | none => Json.null]).toArray

def batchOutJ (out : BatchOut) (find : List Nat) : Json :=
  Json.mkObj [
    ("batches", Json.arr (out.batches.map natListJ).toArray),
    ("queries", queriesJ out.queries),
    ("find", natListJ find),
    ("ra", Json.num (JsonNumber.fromInt out.rowsAffected)),
    ("fuel", Json.bool out.outOfFuel),
    ("pk", Json.bool out.pkRequired)]

def readOutJ (o : ReadOut) : Json :=
  Json.mkObj [("rows", natListJ o.rows), ("ra", Json.num (JsonNumber.fromInt o.rowsAffected)),
    ("nf", Json.bool o.notFound)]

def shapeJ (c : Chain) : Json :=
  let (ord, l, o) := c.shape
  Json.mkObj [("ord", Json.arr (ord.map fun (t, d) => Json.arr #[natJ t, Json.bool d]).toArray),
    ("lim", optIntJ l), ("off", optIntJ o)]

def cellJ : Cell → Json
  | some n => Json.num (JsonNumber.fromInt n)
  | none => Json.null

def parseCell (j : Json) : Option Cell :=
  match j with
  | Json.null => some none
  | j => (jInt? j).map some

def parseRec (j : Json) : Option Rec := do
  let a ← jArr? j
  a.toList.mapM fun e => do
    let p ← jArr? e
    let k ← jStr? (arg p 0)
    let v ← parseCell (arg p 1)
    some (k, v)

/-- association list → `[[key, cell], …]` sorted by key (Go map iteration order is irrelevant) -/
def recJ (r : Rec) : Json :=
  let sorted := (r.toArray.qsort (fun a b => a.1 < b.1)).toList
  Json.arr (sorted.map fun (k, v) => Json.arr #[Json.str k, cellJ v]).toArray

def parseSchema (j : Json) : Option Schema := do
  let a ← jArr? j
  a.toList.mapM fun e => do
    let p ← jArr? e
    let n ← jStr? (arg p 0)
    let z ← parseCell (arg p 1)
    let r ← jBool? (arg p 2)
    some { name := n, zero := z, resetOnNull := r }

def parseRecs (j : Json) : Option (List Rec) := do
  let a ← jArr? j
  a.toList.mapM parseRec

def parseDest (j : Json) : Option Dest := do
  let k ← jStr? (j.getObjValD "k")
  match k with
  | "structs" => some (.structs (← parseSchema (j.getObjValD "sch")) (← parseRecs (j.getObjValD "elems")))
  | "maps" => some (.maps (← parseRecs (j.getObjValD "elems")))
  | "prim" => some (.prim (← parseCell (j.getObjValD "v")))
  | "struct1" => some (.struct1 (← parseSchema (j.getObjValD "sch")) (← parseRec (j.getObjValD "v")))
  | "map1" => some (.map1 (← parseRec (j.getObjValD "v")))
  | _ => none

def destJ : Dest → Json
  | .structs _ es => Json.arr (es.map recJ).toArray
  | .maps es => Json.arr (es.map recJ).toArray
  | .prim v => cellJ v
  | .struct1 _ v => recJ v
  | .map1 m => recJ m

def parseRows (j : Json) : Option (List SRow) := do
  let a ← jArr? j
  a.toList.mapM fun r => do
    let cs ← jArr? r
    cs.toList.mapM parseCell

def scanOutJ (o : ScanOut) : Json :=
  Json.mkObj [("dest", destJ o.dest), ("ra", natJ o.ra), ("err", Json.bool o.err), ("nf", Json.bool o.notFound),
    ("branch", Json.str o.branch)]

/-- the observable part of a goroutine's slot-level actions (field.Set leaves no trace in the recording pools) -/
def poolActsJ (as : List Gorm.ScanPool.Act) : Json :=
  Json.arr (as.filterMap fun a =>
    match a with
    | .get i => some (Json.arr #[Json.str "get", natJ i])
    | .put i => some (Json.arr #[Json.str "put", natJ i])
    | .scan _ => some (Json.arr #[Json.str "scan"])
    | .set _ => none).toArray

end HC15
open HC15
open Gorm.ScanLoop

/-! ### round 4: SELECT resolution / key cursor -/

def parseSelList (j : Json) : Option (Gorm.ReadSelect.SelList Nat) := do
  let p ← jArr? j
  match ← jStr? (arg p 0) with
  | "star" => some .star
  | "count" => some .count
  | "list" => some (.list (← parseNats (arg p 1)))
  | _ => none

def parseSelCall (j : Json) : Option (Gorm.ReadSelect.SelCall Nat) := do
  let p ← jArr? j
  match ← jStr? (arg p 0) with
  | "strings" => some (.strings (← (← jArr? (arg p 1)).toList.mapM parseNats))
  | "expr" => some (.expr (← parseNats (arg p 1)))
  | "clause" => some (.clause (← parseSelList (arg p 1)))
  | _ => none

def selListJ : Gorm.ReadSelect.SelList Nat → Json
  | .star => Json.arr #[Json.str "star"]
  | .count => Json.arr #[Json.str "count"]
  | .list is => Json.arr #[Json.str "list", natListJ is]

def parseKeyRows (j : Json) : Option (List (Nat × Nat)) := do
  let a ← jArr? j
  a.toList.mapM fun e => do
    let p ← jArr? e
    some (← jNat? (arg p 0), ← jNat? (arg p 1))

def handleC15 (op : String) (args : Array Json) : Option Json := do
  match op with
  | "sel.resolve" =>
    -- select list of the query a finisher sends, for the chain's Select calls, under the REGENERATED add-variants
    let calls ← (← jArr? (arg args 1)).toList.mapM parseSelCall
    let fin ← jArr? (arg args 2)
    let dest ← (match arg args 3 with | Json.null => some none | j => (parseNats j).map some)
    let f := Gorm.ReadSelect.Facts.current
    let st := Gorm.ReadSelect.SelState.calls ({} : Gorm.ReadSelect.SelState Nat) calls
    match ← jStr? (arg fin 0) with
    | "find" => some (selListJ (Gorm.ReadSelect.find f st dest))
    | "pluck" => some (selListJ (Gorm.ReadSelect.pluck f st (← jNat? (arg fin 1))))
    | "count" => some (selListJ (Gorm.ReadSelect.countQuery f st))
    | "count+find" => some (selListJ (Gorm.ReadSelect.find f (Gorm.ReadSelect.afterCount f st) dest))
    | _ => none
  | "sel.facts" =>
    some (Json.mkObj [("perColumn", Json.bool Gen.prepareValuesPerColumn), ("cursorFallback", Json.bool Gen.findInBatchesCursorFallback)])
  | "keys.batches" =>
    -- FindInBatches over (identity, cursor value) rows in delivery order; schema with / without prioritized primary field
    let rows ← parseKeyRows (arg args 1)
    let b ← jNat? (arg args 2)
    let hasPrio ← jBool? (arg args 3)
    let o := Gorm.KeyCursor.batchesK (Gorm.KeyCursor.cursorFor Gen.findInBatchesCursorFallback hasPrio) rows b (rows.length + 2) none
    some (Json.mkObj [("batches", Json.arr (o.batches.map natListJ).toArray), ("pk", Json.bool o.pkRequired), ("fuel", Json.bool o.fuelOut)])
  | "c15.facts" =>
    -- the regenerated facts that select the transcription (the harness' generators stop avoiding a repaired pattern)
    some (Json.mkObj [("zeroLimitReturn", Json.bool Gen.findInBatchesZeroLimitReturn),
      ("scanNoRowResetsSlice", Json.bool Gen.scanNoRowResetsSlice)])
  | "pool.trace" =>
    -- Get / rows.Scan / Put sequence of one result set under the REGENERATED statement order of scanIntoStruct
    let fs ← parseNats (arg args 1)
    let n ← jNat? (arg args 2)
    let sk := Gorm.ScanPool.decodeSkeleton Gen.scanIntoStructOrder
    some (poolActsJ (Gorm.ScanPool.rowsRun (fun _ => false) fs sk n {}))
  | "pool.facts" =>
    some (Json.mkObj [("disciplined", Json.bool (Gorm.ScanPool.disciplined (Gorm.ScanPool.decodeSkeleton Gen.scanIntoStructOrder))),
      ("outside", natJ Gen.scanPoolCallsOutsideFieldLoops), ("valuesLocal", Json.bool Gen.scanIntoStructValuesLocal),
      ("newFresh", Json.bool Gen.scanPoolNewFresh)])
  | "limit.merge" =>
    let cs ← parseLimCalls (arg args 1)
    let st := applyCalls none cs
    some (Json.arr #[optIntJ (effLimitOf st), optIntJ (effOffsetOf st)])
  | "batches" =>
    let rows ← parseNats (arg args 1)
    let cs ← parseLimCalls (arg args 2)
    let b ← jInt? (arg args 3)
    let st := applyCalls none cs
    let out := findInBatches Gen.findInBatchesZeroLimitReturn rows st b (rows.length + 2)
    some (batchOutJ out (findAll rows st))
  | "batchesW" =>
    let tbl ← parseNats (arg args 1)
    let us ← parseUnits (arg args 2)
    let ord ← parseOrder (arg args 3)
    let cs ← parseLimCalls (arg args 4)
    let b ← jInt? (arg args 5)
    let fuel ← jNat? (arg args 6)
    let st := applyCalls none cs
    let out := findInBatchesW Gen.findInBatchesZeroLimitReturn tbl us ord st b fuel
    some (batchOutJ out (findAllW tbl us ord st))
  | "paths" =>
    let tbl ← parseNats (arg args 1)
    let us ← parseUnits (arg args 2)
    let ord ← parseOrder (arg args 3)
    let cs ← parseLimCalls (arg args 4)
    let c : Chain := { units := us, order := ord, lim := applyCalls none cs }
    some (Json.mkObj [
      ("find", readOutJ (c.find tbl)), ("first", readOutJ (c.first tbl)), ("last", readOutJ (c.last tbl)),
      ("take", readOutJ (c.take tbl)), ("scan1", readOutJ (c.scanOne tbl)),
      ("count", natJ (c.count tbl)),
      ("matching", natListJ (c.matching tbl)),
      ("shape", Json.mkObj [("find", shapeJ c), ("first", shapeJ c.firstChain), ("last", shapeJ c.lastChain),
        ("take", shapeJ c.takeChain), ("count", shapeJ c.countChain), ("afterCount", shapeJ c.afterCount)])])
  | "scan.path" =>
    let path ← jStr? (arg args 1)
    let raise ← jBool? (arg args 2)
    let cols ← (← jArr? (arg args 3)).toList.mapM jStr?
    let rows ← parseRows (arg args 4)
    let failAt ← (match arg args 5 with | Json.null => some none | j => (jNat? j).map some)
    let d ← parseDest (arg args 6)
    let c := mkCursor rows failAt
    match path with
    | "query" => some (scanOutJ (queryPath c raise cols d))
    | "scan" => some (scanOutJ (dbScan Gen.scanNoRowResetsSlice c cols d))
    | "rowsloop" =>
      let fresh := ((arg args 6).getObjValD "fresh").getBool?.toOption.getD false
      let (snaps, err) := if fresh then rowsLoopFresh cols c [] else rowsLoop cols c d []
      some (Json.mkObj [("dest", Json.arr (snaps.map destJ).toArray), ("ra", natJ snaps.length),
        ("err", Json.bool err), ("branch", Json.str (if fresh then "rowsloop.fresh" else "rowsloop.reused"))])
    | _ => none
  | _ => none

end Gorm.Drv
