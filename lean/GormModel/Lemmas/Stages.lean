import GormModel.Model.Stages
import GormModel.Lemmas.TxFault
namespace Gorm.Stg
open Gorm Gorm.TxF

theorem addError_some_left (c : String) (e : Option String) : addError (some c) e ≠ none := by
  cases e <;> simp [addError]

theorem addError_some_right (cur : Option String) (e : String) : addError cur (some e) ≠ none := by
  cases cur <;> simp [addError]

/-- the tail of Scan never loses an error it already holds, and reports a fresh `rows.Err()` -/
theorem scanTail_reports (mode : ScanMode) (cur : Option String) (e : String) (same : Bool) :
    scanTail mode cur (some e) same ≠ none := by
  unfold scanTail
  cases cur with
  | none => simp [addError]
  | some c => cases same <;> simp [addError]

theorem scanTail_sticky (mode : ScanMode) (c : String) (re : Option String) (same : Bool) :
    scanTail mode (some c) re same ≠ none := by
  unfold scanTail
  cases re with
  | none => simp
  | some e => cases same <;> simp [addError]

/-- whichever stage of a query-path statement fails, the statement contributes an error -/
theorem queryStmt_reports (mode : ScanMode) (q : QueryRes)
    (h : q.callErr.isSome = true ∨ q.loopErr.isSome = true ∨ q.rowsErr.isSome = true ∨ q.closeErr.isSome = true) :
    queryStmt mode none q ≠ none := by
  unfold queryStmt
  cases hc : q.callErr with
  | some e => simp [addError]
  | none =>
    show addError (scanTail mode (addError none q.loopErr) q.rowsErr q.sameAsCur) q.closeErr ≠ none
    have key : ∀ t, scanTail mode (addError none q.loopErr) q.rowsErr q.sameAsCur = some t →
        addError (scanTail mode (addError none q.loopErr) q.rowsErr q.sameAsCur) q.closeErr ≠ none := by
      intro t ht; rw [ht]; exact addError_some_left t q.closeErr
    cases hl : q.loopErr with
    | some l =>
      have h1 : scanTail mode (some l) q.rowsErr q.sameAsCur ≠ none := scanTail_sticky mode l q.rowsErr q.sameAsCur
      rw [hl] at key
      have e1 : addError none (some l) = some l := rfl
      rw [e1] at key ⊢
      cases hs : scanTail mode (some l) q.rowsErr q.sameAsCur with
      | none => exact absurd hs h1
      | some t => rw [← hs]; exact key t hs
    | none =>
      rw [hl] at key
      have e1 : addError none (none : Option String) = none := rfl
      rw [e1] at key ⊢
      cases hr : q.rowsErr with
      | some e =>
        rw [hr] at key
        have h1 := scanTail_reports mode none e q.sameAsCur
        cases hs : scanTail mode none (some e) q.sameAsCur with
        | none => exact absurd hs h1
        | some t => rw [← hs]; exact key t hs
      | none =>
        cases hcl : q.closeErr with
        | some e => exact addError_some_right _ e
        | none => simp [hc, hl, hr, hcl] at h

theorem stmtErr_isSome_of_failed (mode : ScanMode) (q : QueryRes) (h : q.failed = true) :
    (stmtErr mode q).isSome = true := by
  have : queryStmt mode none q ≠ none := by
    apply queryStmt_reports
    unfold QueryRes.failed at h
    cases hc : q.callErr <;> cases hr : q.rowsErr <;> simp_all
  unfold stmtErr
  cases hq : queryStmt mode none q with
  | none => exact absurd hq this
  | some _ => rfl

theorem any_failed_any_isSome (qs : List (ScanMode × QueryRes)) (h : qs.any (fun p => p.2.failed) = true) :
    (qs.map (fun p => stmtErr p.1 p.2)).any Option.isSome = true := by
  induction qs with
  | nil => simp at h
  | cons p ps ih =>
    simp only [List.any_cons, Bool.or_eq_true] at h
    simp only [List.map_cons, List.any_cons, Bool.or_eq_true]
    rcases h with h | h
    · exact Or.inl (stmtErr_isSome_of_failed p.1 p.2 h)
    · exact Or.inr (ih h)

/-! ### the enclosing context of a write (round 4) -/

theorem runStmts_err_sticky (v : View) (ws : List W) (h : v.err ≠ none) : runStmts v ws = v := by
  cases ws with
  | nil => rfl
  | cons w ws =>
    cases he : v.err with
    | none => exact absurd he h
    | some e => simp [runStmts, he]

/-- statements that all succeed append their rows in order and leave no error -/
theorem runStmts_allOk (v : View) (ws : List W) (hv : v.err = none)
    (h : ws.all (fun w => w.fail.isNone) = true) :
    (runStmts v ws).err = none ∧ (runStmts v ws).rows = v.rows ++ ws.map (·.row) := by
  induction ws generalizing v with
  | nil => simp [runStmts, hv]
  | cons w ws ih =>
    simp only [List.all_cons, Bool.and_eq_true] at h
    cases hf : w.fail with
    | some e => simp [hf] at h
    | none =>
      have := ih { v with rows := v.rows ++ [w.row], log := v.log ++ ["S"] } hv h.2
      simp only [runStmts, hv, hf]
      rw [hv] at this
      simpa using this

/-- a wrapper other than `none` restores the rows it saw at its start whenever its body ends with an error -/
theorem under_protected (wr : Wrap) (v : View) (body : View → View) (hw : wr ≠ .none)
    (he : (under wr v body).err ≠ none) : (under wr v body).rows = v.rows := by
  cases wr with
  | none => exact absurd rfl hw
  | ownTx =>
    simp only [under] at he ⊢
    generalize body { v with log := v.log ++ ["B"] } = r at he ⊢
    cases hr : r.err with
    | none => simp [hr] at he
    | some e => simp
  | savepoint =>
    simp only [under] at he ⊢
    generalize body { v with log := v.log ++ ["SP"] } = r at he ⊢
    cases hr : r.err with
    | none => simp [hr] at he
    | some e => simp

/-- a wrapper never hides the error of its body and never invents one -/
theorem under_err (wr : Wrap) (v : View) (body : View → View)
    (hlog : ∀ l, (body { v with log := l }).err = (body v).err) :
    (under wr v body).err = (body v).err := by
  cases wr with
  | none => rfl
  | ownTx =>
    simp only [under]
    have := hlog (v.log ++ ["B"])
    cases hr : (body { v with log := v.log ++ ["B"] }).err <;> simp [hr] at this ⊢ <;> exact this
  | savepoint =>
    simp only [under]
    have := hlog (v.log ++ ["SP"])
    cases hr : (body { v with log := v.log ++ ["SP"] }).err <;> simp [hr] at this ⊢ <;> exact this

theorem blockWrap_ne_none (c : Ctx) (hn : c.inTx = true → c.disableNested = false) : blockWrap c ≠ .none := by
  unfold blockWrap
  cases hi : c.inTx with
  | false => simp
  | true => simp [hn hi]

/-- one pipeline whose statements all succeed: no error, its rows appended -/
theorem pipeline_allOk (c : Ctx) (v : View) (ws : List W) (hv : v.err = none)
    (h : ws.all (fun w => w.fail.isNone) = true) :
    (pipeline c v ws).err = none ∧ (pipeline c v ws).rows = v.rows ++ ws.map (·.row) := by
  unfold pipeline
  cases implicitWrap c with
  | none => exact runStmts_allOk v ws hv h
  | ownTx =>
    have := runStmts_allOk { v with log := v.log ++ ["B"] } ws hv h
    simp only [under]
    rw [this.1]; exact ⟨rfl, this.2⟩
  | savepoint =>
    have := runStmts_allOk { v with log := v.log ++ ["SP"] } ws hv h
    simp only [under]
    rw [this.1]; exact ⟨this.1, this.2⟩

theorem runBatches_allOk (c : Ctx) (v : View) (bs : List (List W)) (hv : v.err = none)
    (h : bs.all (fun b => b.all (fun w => w.fail.isNone)) = true) :
    (runBatches c v bs).err = none ∧ (runBatches c v bs).rows = v.rows ++ bs.flatten.map (·.row) := by
  induction bs generalizing v with
  | nil => simp [runBatches, hv]
  | cons b bs ih =>
    simp only [List.all_cons, Bool.and_eq_true] at h
    have hp := pipeline_allOk c v b hv h.1
    have := ih (pipeline c v b) hp.1 h.2
    simp only [runBatches, hp.1]
    refine ⟨this.1, ?_⟩
    rw [this.2, hp.2]; simp

/-- a single batch IS one pipeline run -/
theorem runBatches_single (c : Ctx) (v : View) (b : List W) : runBatches c v [b] = pipeline c v b := by
  simp only [runBatches]
  cases (pipeline c v b).err <;> rfl

end Gorm.Stg
