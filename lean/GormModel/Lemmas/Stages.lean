import GormModel.Model.Stages
import GormModel.Lemmas.TxFault
namespace Gorm.Stg
open Gorm Gorm.TxF

theorem addError_some_left (c : String) (e : Option String) : addError (some c) e ≠ none := by
  cases e <;> simp [addError]

theorem addError_some_right (cur : Option String) (e : String) : addError cur (some e) ≠ none := by
  cases cur <;> simp [addError]

/-- the tail of Scan never loses an error it already holds, and reports a fresh `rows.Err()` -/
theorem scanTail_reports (mode : ScanMode) (cur : Option String) (e : String) (same : Bool) :
    scanTail mode cur (some e) same ≠ none := by
  unfold scanTail
  cases cur with
  | none => simp [addError]
  | some c => cases same <;> simp [addError]

theorem scanTail_sticky (mode : ScanMode) (c : String) (re : Option String) (same : Bool) :
    scanTail mode (some c) re same ≠ none := by
  unfold scanTail
  cases re with
  | none => simp
  | some e => cases same <;> simp [addError]

/-- whichever stage of a query-path statement fails, the statement contributes an error -/
theorem queryStmt_reports (mode : ScanMode) (q : QueryRes)
    (h : q.callErr.isSome = true ∨ q.loopErr.isSome = true ∨ q.rowsErr.isSome = true ∨ q.closeErr.isSome = true) :
    queryStmt mode none q ≠ none := by
  unfold queryStmt
  cases hc : q.callErr with
  | some e => simp [addError]
  | none =>
    show addError (scanTail mode (addError none q.loopErr) q.rowsErr q.sameAsCur) q.closeErr ≠ none
    have key : ∀ t, scanTail mode (addError none q.loopErr) q.rowsErr q.sameAsCur = some t →
        addError (scanTail mode (addError none q.loopErr) q.rowsErr q.sameAsCur) q.closeErr ≠ none := by
      intro t ht; rw [ht]; exact addError_some_left t q.closeErr
    cases hl : q.loopErr with
    | some l =>
      have h1 : scanTail mode (some l) q.rowsErr q.sameAsCur ≠ none := scanTail_sticky mode l q.rowsErr q.sameAsCur
      rw [hl] at key
      have e1 : addError none (some l) = some l := rfl
      rw [e1] at key ⊢
      cases hs : scanTail mode (some l) q.rowsErr q.sameAsCur with
      | none => exact absurd hs h1
      | some t => rw [← hs]; exact key t hs
    | none =>
      rw [hl] at key
      have e1 : addError none (none : Option String) = none := rfl
      rw [e1] at key ⊢
      cases hr : q.rowsErr with
      | some e =>
        rw [hr] at key
        have h1 := scanTail_reports mode none e q.sameAsCur
        cases hs : scanTail mode none (some e) q.sameAsCur with
        | none => exact absurd hs h1
        | some t => rw [← hs]; exact key t hs
      | none =>
        cases hcl : q.closeErr with
        | some e => exact addError_some_right _ e
        | none => simp [hc, hl, hr, hcl] at h

theorem stmtErr_isSome_of_failed (mode : ScanMode) (q : QueryRes) (h : q.failed = true) :
    (stmtErr mode q).isSome = true := by
  have : queryStmt mode none q ≠ none := by
    apply queryStmt_reports
    unfold QueryRes.failed at h
    cases hc : q.callErr <;> cases hr : q.rowsErr <;> simp_all
  unfold stmtErr
  cases hq : queryStmt mode none q with
  | none => exact absurd hq this
  | some _ => rfl

theorem any_failed_any_isSome (qs : List (ScanMode × QueryRes)) (h : qs.any (fun p => p.2.failed) = true) :
    (qs.map (fun p => stmtErr p.1 p.2)).any Option.isSome = true := by
  induction qs with
  | nil => simp at h
  | cons p ps ih =>
    simp only [List.any_cons, Bool.or_eq_true] at h
    simp only [List.map_cons, List.any_cons, Bool.or_eq_true]
    rcases h with h | h
    · exact Or.inl (stmtErr_isSome_of_failed p.1 p.2 h)
    · exact Or.inr (ih h)

end Gorm.Stg
