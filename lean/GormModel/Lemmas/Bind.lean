/-
  C01 — helper lemmas: naturality of every builder in the payload map.
-/
import GormModel.Model.Bind
namespace Gorm.Bind
variable {β γ : Type}

theorem mapL_eq (f : β → γ) (vs : List (Val β)) : Val.mapL f vs = vs.map (Val.map f) := by
  induction vs with
  | nil => simp [Val.mapL]
  | cons v vs ih => simp [Val.mapL, ih]

/-! ### `St.map` commutes with the primitive writes -/

@[simp] theorem map_writeByte (f : β → γ) (st : St β) (c : Char) : (st.map f).writeByte c = (st.writeByte c).map f := rfl
@[simp] theorem map_writeString (f : β → γ) (st : St β) (s : List Char) : (st.map f).writeString s = (st.writeString s).map f := rfl
@[simp] theorem map_writeStr (f : β → γ) (st : St β) (s : String) : (st.map f).writeStr s = (st.writeStr s).map f := rfl
@[simp] theorem map_quote (f : β → γ) (st : St β) (s : List Char) : (st.map f).quote s = (st.quote s).map f := rfl
@[simp] theorem map_appendVar (f : β → γ) (st : St β) (v : Val β) :
    (st.map f).appendVar (v.map f) = (st.appendVar v).map f := by simp [St.map, St.appendVar]
@[simp] theorem map_bindVarTo (f : β → γ) (st : St β) : (st.map f).bindVarTo = st.bindVarTo.map f := by
  simp [St.map, St.bindVarTo]
@[simp] theorem map_bind (f : β → γ) (st : St β) (v : Val β) : (st.map f).bind (v.map f) = (st.bind v).map f := by
  simp [St.bind]
@[simp] theorem map_writeId (f : β → γ) (raw : Bool) (s : List Char) (st : St β) :
    writeId raw s (st.map f) = (writeId raw s st).map f := by
  unfold writeId; split <;> simp
@[simp] theorem map_unsupported (f : β → γ) (st : St β) :
    ({ st.map f with unsupported := true } : St γ) = St.map f { st with unsupported := true } := rfl
@[simp] theorem map_oof (f : β → γ) (st : St β) :
    ({ st.map f with oof := true } : St γ) = St.map f { st with oof := true } := rfl

/-- the two handlers are related by the payload map -/
def NatRel (f : β → γ) (av : Val β → St β → St β) (av' : Val γ → St γ → St γ) : Prop :=
  ∀ v st, av' (v.map f) (st.map f) = (av v st).map f

section
variable {f : β → γ} {av : Val β → St β → St β} {av' : Val γ → St γ → St γ}

theorem NatRel.nil (h : NatRel f av av') (st : St β) : av' .nil (st.map f) = (av .nil st).map f := by
  simpa [Val.map] using h .nil st

theorem NatRel.scalar (h : NatRel f av av') (b : β) (st : St β) :
    av' (.scalar (f b)) (st.map f) = (av (.scalar b) st).map f := by
  simpa [Val.map] using h (.scalar b) st

theorem NatRel.named (h : NatRel f av av') (nm : List Char) (x : Val β) (st : St β) :
    av' (.named nm (x.map f)) (st.map f) = (av (.named nm x) st).map f := by
  simpa [Val.map] using h (.named nm x) st

theorem commaSepAux_nat (h : NatRel f av av') (first : Bool) (vs : List (Val β)) (st : St β) :
    commaSepAux av' first (vs.map (Val.map f)) (st.map f) = (commaSepAux av first vs st).map f := by
  induction vs generalizing first st with
  | nil => rfl
  | cons v vs ih =>
    simp only [List.map, commaSepAux]
    cases first
    · simp only [Bool.false_eq_true, if_false, map_writeByte, h _ _, ih]
    · simp only [if_true, h _ _, ih]

theorem commaSep_nat (h : NatRel f av av') (vs : List (Val β)) (st : St β) :
    commaSep av' (vs.map (Val.map f)) (st.map f) = (commaSep av vs st).map f :=
  commaSepAux_nat h true vs st

theorem assignments_nat (cs vs : List (Val β)) :
    assignments (cs.map (Val.map f)) (vs.map (Val.map f)) = (assignments cs vs).map (Val.map f) := by
  induction cs generalizing vs with
  | nil => simp [assignments]
  | cons c cs ih => cases vs <;> simp [assignments, Val.map, ih]

theorem expandElems_nat (v : Val β) :
    expandElems (v.map f) = (expandElems v).map (List.map (Val.map f)) := by
  cases v with
  | clauseI nm e => cases e <;> simp [expandElems, Val.map, mapL_eq, assignments_nat]
  | _ => simp [expandElems, Val.map, mapL_eq, List.map_map, Function.comp_def]

theorem slot_nat (h : NatRel f av av') (expand : Bool) (v : Val β) (st : St β) :
    slot av' expand (v.map f) (st.map f) = (slot av expand v st).map f := by
  cases expand
  · simp [slot, h _ _]
  · simp only [slot, if_true, expandElems_nat]
    cases expandElems v with
    | none => simp [h _ _]
    | some es => cases es <;> simp [h.nil, ← List.map_cons, commaSep_nat h]

theorem tail_nat (h : NatRel f av av') (rest : List (Val β)) (st : St β) :
    (rest.map (Val.map f)).foldl (fun s v => av' (.named [] v) s) (st.map f)
      = (rest.foldl (fun s v => av (.named [] v) s) st).map f := by
  induction rest generalizing st with
  | nil => rfl
  | cons v vs ih => simp only [List.map, List.foldl, h.named, ih]

theorem exprLoop_nat (h : NatRel f av av') (wop : Bool) (sql : List Char) :
    ∀ (rest : List (Val β)) (ap : Bool) (st : St β),
      exprLoop av' wop sql (rest.map (Val.map f)) ap (st.map f) = (exprLoop av wop sql rest ap st).map f := by
  induction sql with
  | nil => intro rest ap st; simp only [exprLoop]; exact tail_nat h rest st
  | cons c cs ih =>
    intro rest ap st
    cases hd : decide (c = '?') <;> cases rest <;>
      simp only [exprLoop, hd, List.map, map_writeByte, slot_nat h, ← ih] <;> rfl

theorem exprBuild_nat (h : NatRel f av av') (sql : List Char) (args : List (Val β)) (wop : Bool) (st : St β) :
    exprBuild av' sql (args.map (Val.map f)) wop (st.map f) = (exprBuild av sql args wop st).map f :=
  exprLoop_nat h wop sql args false st

/-- name-map entries under the payload map -/
abbrev em (f : β → γ) : List Char × Val β → List Char × Val γ := Prod.map id (Val.map f)

theorem fieldsLoop_nat {sub : Val β → List (List Char × Val β)} {sub' : Val γ → List (List Char × Val γ)}
    (hsub : ∀ v, sub' (v.map f) = (sub v).map (em f)) (fs : List (List Char × Bool)) (vs : List (Val β)) :
    fieldsLoop sub' fs (vs.map (Val.map f)) = (fieldsLoop sub fs vs).map (em f) := by
  induction fs generalizing vs with
  | nil => simp [fieldsLoop]
  | cons p fs ih =>
    obtain ⟨nm, anon⟩ := p
    cases vs with
    | nil => simp [fieldsLoop]
    | cons v vs =>
      simp only [List.map, fieldsLoop, ih, hsub]
      cases isExported nm <;> cases anon <;> simp [em]

theorem structEntries_nat (n : Nat) (v : Val β) :
    structEntries n (v.map f) = (structEntries n v).map (em f) := by
  induction n generalizing v with
  | zero => simp [structEntries]
  | succ n ih =>
    cases v <;> simp [structEntries, Val.map, mapL_eq]
    exact fieldsLoop_nat (fun v => ih v) _ _

theorem namedEntries_nat (args : List (Val β)) :
    namedEntries (args.map (Val.map f)) = (namedEntries args).map (em f) := by
  induction args with
  | nil => simp [namedEntries]
  | cons a as ih =>
    simp only [List.map, namedEntries, ih, List.map_append]
    congr 1
    cases a <;> simp [Val.map, mapL_eq, em, List.zip_map_right]
    rename_i fs vs
    have := structEntries_nat (f := f) 8 (.strct fs vs)
    simpa [Val.map, mapL_eq, em] using this

theorem lookupLast_nat (m : List (List Char × Val β)) (nm : List Char) :
    lookupLast (m.map (em f)) nm = (lookupLast m nm).map (Val.map f) := by
  unfold lookupLast
  rw [← List.map_reverse, List.find?_map]
  have : ((fun e : List Char × Val γ => e.1 == nm) ∘ em f) = (fun e : List Char × Val β => e.1 == nm) := by
    funext e; simp [em]
  rw [this]
  cases List.find? (fun e : List Char × Val β => e.1 == nm) m.reverse <;> simp [em]

theorem flushName_nat (h : NatRel f av av') (m : List (List Char × Val β)) (name : List Char) (st : St β) :
    flushName av' (m.map (em f)) name (st.map f) = (flushName av m name st).map f := by
  unfold flushName
  rw [lookupLast_nat]
  cases lookupLast m name <;> simp [h _ _]

theorem nexprLoop_nat (h : NatRel f av av') (m : List (List Char × Val β)) (sql : List Char) :
    ∀ (rest : List (Val β)) (inName : Bool) (name : List Char) (ap : Bool) (st : St β),
      nexprLoop av' (m.map (em f)) sql (rest.map (Val.map f)) inName name ap (st.map f)
        = (nexprLoop av m sql rest inName name ap st).map f := by
  induction sql with
  | nil =>
    intro rest inName name ap st
    cases inName <;> simp [nexprLoop, flushName_nat h]
  | cons c cs ih =>
    intro rest inName name ap st
    simp only [nexprLoop]
    by_cases h1 : (c == '@' && !inName) = true
    · simp only [h1, if_true, ih]
    · simp only [h1, if_false]
      by_cases h2 : isTerm c = true
      · simp only [h2, if_true]
        cases inName <;> simp [flushName_nat h, ← ih]
      · simp only [h2, if_false]
        cases hd : decide (c = '?') <;> cases rest <;> cases inName <;>
          simp only [hd, List.map, map_writeByte, slot_nat h, ← ih, if_true, if_false, Bool.false_eq_true] <;> rfl

theorem nexprBuild_nat (h : NatRel f av av') (sql : List Char) (args : List (Val β)) (st : St β) :
    nexprBuild av' sql (args.map (Val.map f)) (st.map f) = (nexprBuild av sql args st).map f := by
  unfold nexprBuild
  rw [namedEntries_nat]
  exact nexprLoop_nat h _ sql args false [] false st

theorem eqNil_nat (v : Val β) : eqNil (v.map f) = eqNil v := by
  cases v <;> simp [eqNil, Val.map]

theorem eqListElems_nat (v : Val β) : eqListElems (v.map f) = (eqListElems v).map (List.map (Val.map f)) := by
  cases v with
  | list s vs => cases s <;> simp [eqListElems, Val.map, mapL_eq]
  | _ => simp [eqListElems, Val.map, mapL_eq]

theorem innSingle_nat (vs : List (Val β)) : innSingle (vs.map (Val.map f)) = (innSingle vs).map (Val.map f) := by
  match vs with
  | [] => simp [innSingle]
  | [x] => cases x <;> simp [innSingle, Val.map]
  | _ :: _ :: _ => simp [innSingle]

theorem needsWrap_nat (v : Val β) : needsWrap (v.map f) = needsWrap v := by
  cases v <;> simp [needsWrap, Val.map]

theorem whereLoop_nat (h : NatRel f av av') (multi : Bool) (first : Bool) (es : List (Val β)) (st : St β) :
    whereLoop av' multi first (es.map (Val.map f)) (st.map f) = (whereLoop av multi first es st).map f := by
  induction es generalizing first st with
  | nil => rfl
  | cons e es ih =>
    simp only [List.map, whereLoop, needsWrap_nat]
    cases first <;> cases multi <;> cases needsWrap e <;>
      simp only [Bool.false_eq_true, if_false, if_true, Bool.and_false, Bool.and_true, Bool.false_and, Bool.true_and,
        map_writeStr, map_writeByte, h _ _, ih]

theorem optWhere_nat (h : NatRel f av av') (es : List (Val β)) (st : St β) :
    optWhere av' (es.map (Val.map f)) (st.map f) = (optWhere av es st).map f := by
  simp only [optWhere, List.isEmpty_map, List.length_map]
  split <;> simp only [map_writeStr, whereLoop_nat h, map_writeByte]

theorem setLoop_nat {wq : Val β → St β → St β} {wq' : Val γ → St γ → St γ}
    (hq : NatRel f wq wq') (h : NatRel f av av') (first : Bool) (cs vs : List (Val β)) (st : St β) :
    setLoop wq' av' first (cs.map (Val.map f)) (vs.map (Val.map f)) (st.map f) = (setLoop wq av first cs vs st).map f := by
  induction cs generalizing first vs st with
  | nil => simp [setLoop]
  | cons c cs ih =>
    cases vs with
    | nil => simp [setLoop]
    | cons v vs =>
      simp only [List.map, setLoop]
      cases first <;> simp only [Bool.false_eq_true, if_false, if_true, map_writeByte, hq _ _, h _ _, ih]

theorem rowsLoop_nat (h : NatRel f av av') (first : Bool) (rs : List (Val β)) (st : St β) :
    rowsLoop av' first (rs.map (Val.map f)) (st.map f) = (rowsLoop av first rs st).map f := by
  induction rs generalizing first st with
  | nil => rfl
  | cons r rs ih =>
    simp only [List.map, rowsLoop]
    have hc : rowCells (r.map f) = (rowCells r).map (Val.map f) := by
      cases r <;> simp [rowCells, Val.map, mapL_eq]
    rw [hc]
    cases first <;> simp only [Bool.false_eq_true, if_false, if_true, map_writeByte, commaSep_nat h, ih]

theorem clausesLoop_nat (h : NatRel f av av') (first : Bool) (ns : List (List Char)) (es : List (Val β)) (st : St β) :
    clausesLoop av' first ns (es.map (Val.map f)) (st.map f) = (clausesLoop av first ns es st).map f := by
  induction ns generalizing first es st with
  | nil => simp [clausesLoop]
  | cons n ns ih =>
    cases es with
    | nil => simp [clausesLoop]
    | cons e es =>
      simp only [List.map, clausesLoop]
      cases first <;> cases n.isEmpty <;>
        simp only [Bool.false_eq_true, if_false, if_true, map_writeByte, map_writeString, h _ _, ih]

theorem quoteTo_nat (h : NatRel f av av') : NatRel f (quoteTo av) (quoteTo av') := by
  intro c s
  cases c <;> simp [quoteTo, Val.map, mapL_eq, exprBuild_nat h]
  all_goals (repeat' split) <;> simp

end

/-- **Naturality of `AddVar`** (every fuel): rendering commutes with mapping the payloads. -/
theorem addVar_nat (f : β → γ) (d : Dialect) (n : Nat) : NatRel f (addVar d n) (addVar d n) := by
  induction n with
  | zero => intro v st; simp [addVar]
  | succ n ih =>
    intro v st
    have hq := quoteTo_nat ih
    cases v with
    | cmp op col x =>
      simp only [addVar, Val.map, eqListElems_nat, eqNil_nat]
      cases op <;> simp only [hq _ _, map_writeStr, ih _ _] <;>
        cases eqListElems x <;> simp only [Option.map, List.isEmpty_map, hq _ _, map_writeStr, ih _ _, map_writeByte, commaSep_nat ih] <;>
        (repeat' split) <;> simp only [hq _ _, map_writeStr, ih _ _, map_writeByte, commaSep_nat ih]
    | inn neg col vs =>
      simp only [addVar, Val.map, mapL_eq]
      rw [innSingle_nat]
      simp only [List.isEmpty_map, hq _ _, map_writeStr]
      split
      · rfl
      · cases innSingle vs <;> simp only [Option.map, ih _ _, commaSep_nat ih, map_writeByte]
    | gvaluer p i => cases p <;> simp [addVar, Val.map, ih _ _, ih.nil]
    | clauseI nm e => simp only [addVar, Val.map]; split <;> simp only [map_writeString, map_writeByte, ih _ _]
    | values cols rows =>
      simp only [addVar, Val.map, mapL_eq, List.isEmpty_map]
      split <;> simp only [map_writeStr, map_writeByte, commaSep_nat hq, rowsLoop_nat ih]
    | set cols vals =>
      simp only [addVar, Val.map, mapL_eq, List.isEmpty_map]
      split <;> simp only [map_unsupported, setLoop_nat hq ih]
    | limit hl nn lim op off =>
      simp only [addVar, Val.map]
      cases hl <;> cases nn <;> cases op <;>
        simp only [Bool.and_self, Bool.and_false, Bool.and_true, Bool.false_eq_true, if_false, if_true, map_writeStr,
          map_writeByte, ih.scalar]
    | onConflict cons cols tw dn du w =>
      simp only [addVar, Val.map, mapL_eq, List.isEmpty_map]
      cases cons.isEmpty <;> cases cols.isEmpty <;> cases dn <;>
        simp only [Bool.not_true, Bool.not_false, Bool.false_eq_true, if_false, if_true, map_writeStr, map_writeString,
          map_writeByte, commaSep_nat hq, optWhere_nat ih, ih _ _]
    | whereC es => simp only [addVar, Val.map, mapL_eq, List.length_map, whereLoop_nat ih]
    | clauses ns es => simp only [addVar, Val.map, mapL_eq, clausesLoop_nat ih]
    | subq ns es => simp only [addVar, Val.map, mapL_eq, clausesLoop_nat ih]
    | rsub t vs =>
      simp only [addVar, Val.map, mapL_eq, List.length_map]
      split <;> simp only [nexprBuild_nat ih, exprBuild_nat ih]
    | expr sql args wop => simp only [addVar, Val.map, mapL_eq, exprBuild_nat ih]
    | nexpr sql args => simp only [addVar, Val.map, mapL_eq, nexprBuild_nat ih]
    | ilist vs =>
      simp only [addVar, Val.map, mapL_eq, List.isEmpty_map]
      split <;> simp only [map_writeStr, map_writeByte, commaSep_nat ih]
    | list s vs =>
      simp only [addVar, Val.map, mapL_eq, List.isEmpty_map]
      split <;> simp only [map_writeStr, map_writeByte, commaSep_nat ih]
    | bytes nm bs =>
      simp only [addVar, Val.map, List.isEmpty_map]
      split
      · rfl
      · exact map_bind f st (.bytes nm bs)
    | column t nm al raw => exact hq (.column t nm al raw) st
    | table nm al raw => exact hq (.table nm al raw) st
    | named nm x => simp only [addVar, Val.map, map_appendVar]
    | nil => exact map_bind f st .nil
    | scalar b => exact map_bind f st (.scalar b)
    | dvaluer isNil b => exact map_bind f st (.dvaluer isNil b)
    | nmap ks vs => exact map_bind f st (.nmap ks vs)
    | strct fs vs => exact map_bind f st (.strct fs vs)
    | assign c x => exact map_bind f st (.assign c x)

mutual
theorem depth_map (f : β → γ) : (v : Val β) → (v.map f).depth = v.depth
  | .nil => rfl
  | .scalar _ => rfl
  | .bytes _ _ => rfl
  | .dvaluer _ _ => rfl
  | .gvaluer _ i => by simp [Val.map, Val.depth, depth_map f i]
  | .list _ vs => by simp [Val.map, Val.depth, depthL_map f vs]
  | .ilist vs => by simp [Val.map, Val.depth, depthL_map f vs]
  | .named _ v => by simp [Val.map, Val.depth, depth_map f v]
  | .nmap _ vs => by simp [Val.map, Val.depth, depthL_map f vs]
  | .strct _ vs => by simp [Val.map, Val.depth, depthL_map f vs]
  | .column .. => rfl
  | .table .. => rfl
  | .expr _ as _ => by simp [Val.map, Val.depth, depthL_map f as]
  | .nexpr _ as => by simp [Val.map, Val.depth, depthL_map f as]
  | .cmp _ c v => by simp [Val.map, Val.depth, depth_map f c, depth_map f v]
  | .inn _ c vs => by simp [Val.map, Val.depth, depth_map f c, depthL_map f vs]
  | .values cs rs => by simp [Val.map, Val.depth, depthL_map f cs, depthL_map f rs]
  | .set cs vs => by simp [Val.map, Val.depth, depthL_map f cs, depthL_map f vs]
  | .assign c v => by simp [Val.map, Val.depth, depth_map f c, depth_map f v]
  | .limit .. => rfl
  | .onConflict _ cs tw _ du w => by
    simp [Val.map, Val.depth, depthL_map f cs, depthL_map f tw, depth_map f du, depthL_map f w]
  | .whereC es => by simp [Val.map, Val.depth, depthL_map f es]
  | .clauseI _ e => by simp [Val.map, Val.depth, depth_map f e]
  | .clauses _ es => by simp [Val.map, Val.depth, depthL_map f es]
  | .subq _ es => by simp [Val.map, Val.depth, depthL_map f es]
  | .rsub _ vs => by simp [Val.map, Val.depth, depthL_map f vs]
theorem depthL_map (f : β → γ) : (vs : List (Val β)) → Val.depthL (Val.mapL f vs) = Val.depthL vs
  | [] => rfl
  | v :: vs => by simp [Val.mapL, Val.depthL, depth_map f v, depthL_map f vs]
end

/-- naturality of `render` -/
theorem render_nat (f : β → γ) (d : Dialect) (v : Val β) : render d (v.map f) = (render d v).map f := by
  unfold render
  rw [depth_map]
  exact addVar_nat f d _ v {}

end Gorm.Bind
