/-
  Transparency invariants: a prepared entry without error has a statement (no nil dereference); a pool statement is
  closed only by a Reset/Close closer of its entry or by an ErrBadConn eviction; who can see "statement is closed".
-/
import GormModel.Lemmas.StmtCacheLeak
namespace Gorm.SC

theorem step_fin_persist (s s' : St) (hs : Step s s') (t' : Nat) (r : Res) (hp : (s.threads t').pc = .fin r) :
    (s'.threads t') = (s.threads t') := by
  cases hs with
  | closeE | closeEH | closeH => rfl
  | hit t v q tx m e ht hop hpc =>
    have htt : t' ≠ t := by intro h; subst h; rcases hpc with hpc | hpc <;> (rw [hpc] at hp; cases hp)
    simp [setWait, setPc_thr_other, setEnt_thr_other, htt]
  | pub t v q tx m ht hop hpc =>
    have htt : t' ≠ t := by intro h; subst h; rw [hpc] at hp; cases hp
    simp [publish, setPc_thr_other, setEnt_thr_other, htt]
  | miss t v q tx ht hop hpc | invalid t v q tx ht hop hpc | waitErr t v q tx e ht hop hpc | waitOk t v q tx e x ht hop hpc
  | waitNil t v q tx e ht hop hpc | prepOk t v q tx e ht hop hpc | prepErr t v q tx e ht hop hpc | store t v q tx e x ht hop hpc
  | fail t v q tx e ht hop hpc | closeOk t v q tx e x ht hop hpc | closeErr t v q tx e ht hop hpc
  | readyClosed t v q e x ht hop hpc | readyUse t v q tx e x ht hop hpc | useFin t v q tx e x r0 ht hop hpc
  | useBad t v q tx e x ht hop hpc | evict t v q tx e x ht hop hpc | reset t v ht hop hpc | close t v ht hop hpc =>
    have htt : t' ≠ t := by intro h; subst h; rw [hpc] at hp; cases hp
    simp [setPc_thr_other, htt]

/-- some Reset/Close has been executed -/
def rcDone (s : St) : Prop :=
  ∃ t, isFin s t = true ∧ ∃ v, (s.threads t).op = .reset v ∨ (s.threads t).op = .close v

/-- some operation returned ErrBadConn (and ran its eviction) -/
def badDone (s : St) : Prop := ∃ t, result s t = some .badConn

theorem step_rcDone (s s' : St) (hs : Step s s') (h : rcDone s) : rcDone s' := by
  obtain ⟨t, hf, hv⟩ := h
  unfold isFin at hf
  split at hf
  · rename_i r hp
    have := step_fin_persist s s' hs t r hp
    exact ⟨t, by simp [isFin, this, hp], by rw [this]; exact hv⟩
  · cases hf

theorem step_badDone (s s' : St) (hs : Step s s') (h : badDone s) : badDone s' := by
  obtain ⟨t, hr⟩ := h
  unfold result at hr
  split at hr
  · rename_i r hp
    have := step_fin_persist s s' hs t r hp
    exact ⟨t, by simp [result, this, hp]; simpa using hr⟩
  · cases hr

def ES (s : St) : Prop :=
  ∀ e, e < s.nE → (s.entries e).prepared = true → (s.entries e).err = false → ∃ h, (s.entries e).handle = some h

theorem es_frame (s s' : St) (h : ES s) (hnE : s'.nE = s.nE)
    (hE : ∀ e, (s'.entries e).prepared = (s.entries e).prepared ∧ (s'.entries e).err = (s.entries e).err ∧
      (s'.entries e).handle = (s.entries e).handle) : ES s' := by
  intro e he hp herr
  rw [hnE] at he
  rw [(hE e).1] at hp; rw [(hE e).2.1] at herr; rw [(hE e).2.2]
  exact h e he hp herr

theorem step_es (s s' : St) (h : ES s) (hS : Shape s) (hs : Step s s') : ES s' := by
  cases hs with
  | pub t v q tx m ht hop hpc hv hm =>
    intro e he hp herr
    by_cases hee : e = s.nE
    · subst hee; simp [upd] at hp
    · have he' : e < s.nE := by simp at he; omega
      simp only [publish_entries, upd, hee, if_false] at hp herr ⊢
      exact h e he' hp herr
  | prepErr t v q tx e0 ht hop hpc =>
    intro e he hp herr
    have he' : e < s.nE := he
    by_cases hee : e = e0
    · subst hee; simp [upd] at herr
    · simp only [setPc_entries, upd, hee, if_false] at hp herr ⊢; exact h e he' hp herr
  | store t v q tx e0 x0 ht hop hpc =>
    intro e he hp herr
    have he' : e < s.nE := he
    by_cases hee : e = e0
    · subst hee; exact ⟨x0, by simp [upd]⟩
    · simp only [setPc_entries, upd, hee, if_false] at hp herr ⊢; exact h e he' hp herr
  | closeOk t v q tx e0 x0 ht hop hpc =>
    have h6 := (hS.1 t).2.2.2.2.2.1 e0 x0 hpc
    intro e he hp herr
    have he' : e < s.nE := he
    by_cases hee : e = e0
    · subst hee; exact ⟨x0, by simp [upd]; exact h6.2.1⟩
    · simp only [setPc_entries, upd, hee, if_false] at hp herr ⊢; exact h e he' hp herr
  | closeErr t v q tx e0 ht hop hpc =>
    have h5 := (hS.1 t).2.2.2.2.1 e0 (Or.inr hpc)
    intro e he hp herr
    have he' : e < s.nE := by simpa using he
    by_cases hee : e = e0
    · subst hee; simp [upd, h5.1] at herr
    · simp only [finish_entries, upd, hee, if_false] at hp herr ⊢; exact h e he' hp herr
  | closeE e0 | closeEH e0 x0 =>
    refine es_frame s _ h rfl (fun e => ?_)
    simp only [upd_apply]; split <;> simp_all
  | closeH x0 => exact es_frame s _ h rfl (fun e => ⟨rfl, rfl, rfl⟩)
  | _ => exact es_frame s _ h (by simp) (fun e => by simp)

/-! closers are spawned only by Reset/Close, `go stmt.Close()` only by an ErrBadConn eviction -/

def RC (s : St) : Prop := ∀ e, e < s.nE → (s.entries e).closeReq = true → rcDone s
def BC (s : St) : Prop := ∀ h, h < s.nH → (s.handles h).closeReq = true → badDone s

theorem step_rc (s s' : St) (h : RC s) (hs : Step s s') : RC s' := by
  have mono := step_rcDone s s' hs
  cases hs with
  | pub t v q tx m ht hop hpc hv hm =>
    intro e he hc
    by_cases hee : e = s.nE
    · subst hee; simp [upd] at hc
    · have he' : e < s.nE := by simp at he; omega
      simp only [publish_entries, upd, hee, if_false] at hc
      exact mono (h e he' hc)
  | reset t v ht hop hpc =>
    intro e he hc
    exact ⟨t, by simp [isFin], v, by simp [hop]⟩
  | close t v ht hop hpc =>
    intro e he hc
    exact ⟨t, by simp [isFin], v, by simp [hop]⟩
  | prepErr t v q tx e0 | store t v q tx e0 x0 | closeOk t v q tx e0 x0 | closeErr t v q tx e0 =>
    intro e he hc
    have he' : e < s.nE := by simpa using he
    refine mono (h e he' ?_)
    simp only [setPc_entries, finish_entries, upd_apply] at hc; split at hc <;> simp_all
  | closeE e0 | closeEH e0 x0 =>
    intro e he hc
    have he' : e < s.nE := he
    refine mono (h e he' ?_)
    simp only [upd_apply] at hc; split at hc <;> simp_all
  | closeH x0 => intro e he hc; exact mono (h e he hc)
  | _ =>
    intro e he hc
    exact mono (h e (by simpa using he) (by simpa using hc))

theorem step_bc (s s' : St) (h : BC s) (hs : Step s s') : BC s' := by
  have mono := step_badDone s s' hs
  cases hs with
  | prepOk t v q tx e ht hop hpc =>
    intro x hx hc
    by_cases hxn : x = s.nH
    · subst hxn; simp [upd] at hc
    · have hx' : x < s.nH := by simp at hx; omega
      simp only [setPc_handles, upd, hxn, if_false] at hc
      exact mono (h x hx' hc)
  | evict t v q tx e x0 ht hop hpc =>
    intro x hx hc
    exact ⟨t, by simp [result]⟩
  | closeEH e0 x0 | closeH x0 =>
    intro x hx hc
    have hx' : x < s.nH := hx
    refine mono (h x hx' ?_)
    simp only [upd_apply] at hc; split at hc <;> simp_all
  | closeE e0 => intro x hx hc; exact mono (h x hx hc)
  | _ =>
    intro x hx hc
    exact mono (h x (by simpa using hx) (by simpa using hc))

/-- a pool statement is closed only by a closer of its entry or by its eviction -/
def CL (s : St) : Prop :=
  ∀ h, h < s.nH → (s.handles h).tx = false → (s.handles h).closed = true →
    (s.handles h).closeReq = true ∨ (s.entries (s.handles h).entry).closeReq = true

theorem cl_frame (s s' : St) (h : CL s) (hnH : s'.nH = s.nH)
    (hH : ∀ x, (s'.handles x).tx = (s.handles x).tx ∧ (s'.handles x).entry = (s.handles x).entry ∧
      ((s.handles x).tx = false → (s'.handles x).closed = (s.handles x).closed) ∧
      ((s.handles x).closeReq = true → (s'.handles x).closeReq = true))
    (hE : ∀ e, (s.entries e).closeReq = true → (s'.entries e).closeReq = true) : CL s' := by
  intro x hx htx hc
  rw [hnH] at hx
  obtain ⟨a1, a2, a3, a4⟩ := hH x
  rw [a1] at htx; rw [a3 htx] at hc; rw [a2]
  rcases h x hx htx hc with c | c
  · exact Or.inl (a4 c)
  · exact Or.inr (hE _ c)

theorem step_cl (s s' : St) (h : CL s) (hHI : HInv s) (hs : Step s s') : CL s' := by
  cases hs with
  | prepOk t v q tx e ht hop hpc =>
    intro x hx htx hc
    by_cases hxn : x = s.nH
    · subst hxn; simp [upd] at hc
    · have hx' : x < s.nH := by simp at hx; omega
      simp only [setPc_handles, setPc_entries, upd, hxn, if_false] at htx hc ⊢
      exact h x hx' htx hc
  | pub t v q tx m ht hop hpc hv hm =>
    intro x hx htx hc
    have hx' : x < s.nH := hx
    have hlt := (hHI.1 x hx').1
    have hne : (s.handles x).entry ≠ s.nE := by omega
    simp only [publish_handles, publish_entries, upd, hne, if_false] at htx hc ⊢
    exact h x hx' htx hc
  | closeEH e0 x0 he0 h1 h2 h3 h4 =>
    intro x hx htx hc
    have hx' : x < s.nH := hx
    simp only [upd_apply] at htx hc ⊢
    by_cases hxx : x = x0
    · subst hxx
      right
      have := (hHI.2 e0 x he0 h4).2
      simp only [if_true, this]; simp [h1]
    · simp only [hxx, if_false] at htx hc ⊢
      rcases h x hx' htx hc with c | c
      · exact Or.inl c
      · right; split <;> simp_all
  | closeH x0 hx0 h1 h2 =>
    intro x hx htx hc
    have hx' : x < s.nH := hx
    simp only [upd_apply] at htx hc ⊢
    by_cases hxx : x = x0
    · subst hxx; left; simp [h1]
    · simp only [hxx, if_false] at htx hc ⊢; exact h x hx' htx hc
  | closeE e0 =>
    refine cl_frame s _ h rfl (fun x => ⟨rfl, rfl, fun _ => rfl, fun a => a⟩) (fun e a => ?_)
    simp only [upd_apply]; split <;> simp_all
  | evict t v q tx e0 x0 ht hop hpc =>
    refine cl_frame s _ h (by simp) (fun x => ⟨?_, ?_, fun a => ?_, fun a => ?_⟩) (fun e a => by simpa using a)
    · simp only [finish_h_tx, delEvict_handles, upd_apply]; split <;> simp_all
    · simp only [finish_h_entry, delEvict_handles, upd_apply]; split <;> simp_all
    · rw [finish_h_closed_nontx]
      · simp only [delEvict_handles, upd_apply]; split <;> simp_all
      · simp only [delEvict_handles, upd_apply]; split <;> simp_all
    · simp only [finish_h_closeReq, delEvict_handles, upd_apply]; split <;> simp_all
  | reset t v ht hop hpc | close t v ht hop hpc =>
    refine cl_frame s _ h (by simp) (fun x => ⟨by simp, by simp, fun a => ?_, fun a => by simpa using a⟩)
      (fun e a => by simp only [finish_entries]; exact markView_closeReq_mono s v e a)
    rw [finish_h_closed_nontx] <;> simp [a]
  | prepErr t v q tx e0 | store t v q tx e0 x0 | closeOk t v q tx e0 x0 =>
    refine cl_frame s _ h rfl (fun x => ⟨rfl, rfl, fun _ => rfl, fun a => a⟩) (fun e a => ?_)
    simp only [setPc_entries, upd_apply]; split <;> simp_all
  | closeErr t v q tx e0 =>
    refine cl_frame s _ h (by simp) (fun x => ⟨by simp, by simp, fun a => ?_, fun a => by simpa using a⟩) (fun e a => ?_)
    · rw [finish_h_closed_nontx] <;> simp [a]
    · simp only [finish_entries, upd_apply]; split <;> simp_all
  | invalid t v q tx | waitErr t v q tx e | waitNil t v q tx e | readyClosed t v q e x0 | useFin t v q tx e x0 r =>
    refine cl_frame s _ h (by simp) (fun x => ⟨by simp, by simp, fun a => ?_, fun a => by simpa using a⟩)
      (fun e a => by simpa using a)
    rw [finish_h_closed_nontx] <;> simp [a]
  | hit t v q tx m e | miss t v q tx | waitOk t v q tx e x0 | fail t v q tx e | readyUse t v q tx e x0 | useBad t v q tx e x0 =>
    exact cl_frame s _ h (by simp) (fun x => ⟨by simp, by simp, fun _ => by simp, fun a => by simpa using a⟩)
      (fun e a => by simpa using a)

/-- a non-transaction operation never resolves to a Transaction entry (`usable`); resolved entries are allocated -/
def UT (s : St) : Prop :=
  ∀ t e, (s.threads t).ent = some e → e < s.nE ∧ ∀ v q, (s.threads t).op = .use v q false → (s.entries e).tx = false

theorem ut_frame (s s' : St) (h : UT s) (hs : Step s s') (hent : ∀ t, (s'.threads t).ent = (s.threads t).ent) : UT s' := by
  intro t e he
  rw [hent] at he
  obtain ⟨h1, h2⟩ := h t e he
  have hg := step_ghost s s' hs
  refine ⟨by omega, fun v q hop => ?_⟩
  rw [(step_threads s s' hs).2.1] at hop
  rw [(hg.2.2.2.2.1 e h1).2.2.2.2]; exact h2 v q hop

theorem step_ut (s s' : St) (h : UT s) (hM : Maps s) (hs : Step s s') : UT s' := by
  cases hs with
  | hit t v q tx m e0 ht hop hpc hv hm hu =>
    intro t' e he
    by_cases htt : t' = t
    · subst htt
      simp only [setWait_ent, if_true, Option.some.injEq] at he; subst he
      refine ⟨by simpa using (hM.1 _ _ _ hm).1, fun v' q' hop' => ?_⟩
      simp only [setWait_op, hop, Op.use.injEq] at hop'
      have : tx = false := hop'.2.2
      subst this
      simpa [usable] using hu
    · simp only [setWait_ent, htt, if_false] at he
      obtain ⟨h1, h2⟩ := h t' e he
      exact ⟨by simpa using h1, fun v' q' hop' => by simpa using h2 v' q' (by simpa using hop')⟩
  | pub t v q tx m ht hop hpc hv hm =>
    intro t' e he
    by_cases htt : t' = t
    · subst htt
      simp only [publish_ent, if_true, Option.some.injEq] at he; subst he
      refine ⟨by simp, fun v' q' hop' => ?_⟩
      simp only [publish_op, hop, Op.use.injEq] at hop'
      simp [upd, hop'.2.2]
    · simp only [publish_ent, htt, if_false] at he
      obtain ⟨h1, h2⟩ := h t' e he
      have hne : e ≠ s.nE := by omega
      exact ⟨by simp; omega, fun v' q' hop' => by simpa [upd, hne] using h2 v' q' (by simpa using hop')⟩
  | closeE e0 he0 h1 h2 h3 h4 => exact ut_frame s _ h (Step.closeE e0 he0 h1 h2 h3 h4) (fun _ => rfl)
  | closeEH e0 x0 he0 h1 h2 h3 h4 => exact ut_frame s _ h (Step.closeEH e0 x0 he0 h1 h2 h3 h4) (fun _ => rfl)
  | closeH x0 hx0 h1 h2 => exact ut_frame s _ h (Step.closeH x0 hx0 h1 h2) (fun _ => rfl)
  | miss t v q tx ht hop hpc => exact ut_frame s _ h (Step.miss t v q tx ht hop hpc) (fun _ => by simp)
  | invalid t v q tx ht hop hpc hv => exact ut_frame s _ h (Step.invalid t v q tx ht hop hpc hv) (fun _ => by simp)
  | waitErr t v q tx e ht hop hpc a b => exact ut_frame s _ h (Step.waitErr t v q tx e ht hop hpc a b) (fun _ => by simp)
  | waitOk t v q tx e x ht hop hpc a b c => exact ut_frame s _ h (Step.waitOk t v q tx e x ht hop hpc a b c) (fun _ => by simp)
  | waitNil t v q tx e ht hop hpc a b c => exact ut_frame s _ h (Step.waitNil t v q tx e ht hop hpc a b c) (fun _ => by simp)
  | prepOk t v q tx e ht hop hpc => exact ut_frame s _ h (Step.prepOk t v q tx e ht hop hpc) (fun _ => by simp)
  | prepErr t v q tx e ht hop hpc => exact ut_frame s _ h (Step.prepErr t v q tx e ht hop hpc) (fun _ => by simp)
  | store t v q tx e x ht hop hpc => exact ut_frame s _ h (Step.store t v q tx e x ht hop hpc) (fun _ => by simp)
  | fail t v q tx e ht hop hpc => exact ut_frame s _ h (Step.fail t v q tx e ht hop hpc) (fun _ => by simp)
  | closeOk t v q tx e x ht hop hpc => exact ut_frame s _ h (Step.closeOk t v q tx e x ht hop hpc) (fun _ => by simp)
  | closeErr t v q tx e ht hop hpc => exact ut_frame s _ h (Step.closeErr t v q tx e ht hop hpc) (fun _ => by simp)
  | readyClosed t v q e x ht hop hpc a => exact ut_frame s _ h (Step.readyClosed t v q e x ht hop hpc a) (fun _ => by simp)
  | readyUse t v q tx e x ht hop hpc => exact ut_frame s _ h (Step.readyUse t v q tx e x ht hop hpc) (fun _ => by simp)
  | useFin t v q tx e x r ht hop hpc a => exact ut_frame s _ h (Step.useFin t v q tx e x r ht hop hpc a) (fun _ => by simp)
  | useBad t v q tx e x ht hop hpc => exact ut_frame s _ h (Step.useBad t v q tx e x ht hop hpc) (fun _ => by simp)
  | evict t v q tx e x ht hop hpc => exact ut_frame s _ h (Step.evict t v q tx e x ht hop hpc) (fun _ => by simp)
  | reset t v ht hop hpc => exact ut_frame s _ h (Step.reset t v ht hop hpc) (fun _ => by simp)
  | close t v ht hop hpc => exact ut_frame s _ h (Step.close t v ht hop hpc) (fun _ => by simp)

/-- the facts about statements being closed, together -/
def Inv3 (s : St) : Prop := ES s ∧ RC s ∧ BC s ∧ CL s ∧ UT s

theorem step_inv3 (s s' : St) (h2 : Inv2 s) (h : Inv3 s) (hs : Step s s') : Inv3 s' :=
  ⟨step_es s s' h.1 h2.1.1 hs, step_rc s s' h.2.1 hs, step_bc s s' h.2.2.1 hs, step_cl s s' h.2.2.2.1 h2.2.2.2.1 hs,
   step_ut s s' h.2.2.2.2 h2.1.2.1 hs⟩

theorem inv3_reachable (ops : List Op) (nV : Nat) (cfg : Cfg) (hw : wfOps ops nV) (sched : List Act) :
    Inv2 (run (init ops nV cfg) sched) ∧ Inv3 (run (init ops nV cfg) sched) := by
  apply run_inv (fun s => Inv2 s ∧ Inv3 s) (fun s s' h hs => ⟨step_inv2 s s' h.1 hs, step_inv3 s s' h.1 h.2 hs⟩)
  refine ⟨init_inv2 ops nV cfg hw, ?_, ?_, ?_, ?_, ?_⟩
  · intro e he; simp [init] at he
  · intro e he; simp [init] at he
  · intro x hx; simp [init] at hx
  · intro x hx; simp [init] at hx
  · intro t e he; simp [init] at he

end Gorm.SC
