/-
  Lemmas.SchemaAttrs — helper lemmas for Model.SchemaAttrs (C03, round 4)
-/
import GormModel.Model.SchemaAttrs
import GormModel.Lemmas.Scan
namespace Gorm.Attrs
open Gorm.Scan

theorem nth?_eq_getElem? {β : Type} (l : List β) : ∀ i, nth? l i = l[i]? := by
  induction l with
  | nil => intro i; simp [nth?]
  | cons a l ih =>
    intro i
    cases i with
    | zero => simp [nth?]
    | succ n => simp [nth?, ih]

theorem nth?_setNth {β : Type} (l : List β) : ∀ (p i : Nat) (x : β),
    nth? (setNth l p x) i = if i = p then (nth? l p).map (fun _ => x) else nth? l i := by
  induction l with
  | nil => intro p i x; simp [setNth, nth?]
  | cons a l ih =>
    intro p i x
    cases p with
    | zero =>
      cases i with
      | zero => simp [setNth, nth?]
      | succ n => simp [setNth, nth?]
    | succ q =>
      cases i with
      | zero => simp [setNth, nth?]
      | succ n => simp [setNth, nth?, ih]

theorem mem_idxFilterFrom (p : AField → Bool) (fs : List AField) :
    ∀ (k j : Nat) (f : AField), nth? fs j = some f → p f = true → (k + j) ∈ idxFilterFrom p k fs := by
  induction fs with
  | nil => intro k j f h; simp [nth?] at h
  | cons a fs ih =>
    intro k j f h hp
    cases j with
    | zero =>
      simp only [nth?, Option.some.injEq] at h
      subst h
      simp [idxFilterFrom, hp]
    | succ n =>
      simp only [nth?] at h
      have := ih (k + 1) n f h hp
      have e : k + 1 + n = k + (n + 1) := by omega
      rw [e] at this
      unfold idxFilterFrom
      split
      · exact List.mem_cons_of_mem _ this
      · exact this

theorem mem_idxFilter (p : AField → Bool) (fs : List AField) (j : Nat) (f : AField)
    (h : nth? fs j = some f) (hp : p f = true) : j ∈ idxFilter p fs := by
  have := mem_idxFilterFrom p fs 0 j f h hp
  simpa [idxFilter] using this

/-- every field whose FINAL attributes say "backed by a column, has a default, gorm has no Go value for it" is listed in
    `FieldsWithDefaultDBValue` — the step never looks at a permission -/
theorem defaultsStep_lists_dbDefault (fs : List AField) (prio : Option Nat) (i : Nat) (f : AField)
    (hf : nth? (defaultsStep fs prio).1 i = some f) (hd : f.dbDefault = true) :
    i ∈ (defaultsStep fs prio).2 := by
  unfold defaultsStep at hf ⊢
  cases prio with
  | none => exact mem_idxFilter _ _ _ _ hf hd
  | some p =>
    simp only at hf ⊢
    cases hg : nth? fs p with
    | none => rw [hg] at hf; simp only at hf ⊢; exact mem_idxFilter _ _ _ _ hf hd
    | some g =>
      rw [hg] at hf
      simp only at hf ⊢
      by_cases hc : ((g.gormDT == .int || g.gormDT == .uint) && !hasTag g.tags "AUTOINCREMENT") = true
      · rw [if_pos hc] at hf ⊢
        simp only at hf ⊢
        rw [nth?_setNth] at hf
        by_cases hip : i = p
        · subst hip
          rw [if_pos rfl, hg] at hf
          simp only [Option.map_some, Option.some.injEq] at hf
          subst hf
          simp only [AField.dbDefault, Bool.and_eq_true] at hd
          cases hh : g.hasDefault with
          | false => simp
          | true =>
            have hnone : g.defaultIface.isNone = true := hd.2
            have hsome : g.defaultIface.isSome = false := by
              cases hx : g.defaultIface with
              | none => rfl
              | some v => rw [hx] at hnone; simp at hnone
            rw [hsome]
            simp only [Bool.not_true, Bool.or_self, Bool.false_eq_true, if_false]
            exact mem_idxFilter _ _ _ g hg (by simp [AField.dbDefault, hd.1.1, hh, hnone])
        · rw [if_neg hip] at hf
          have := mem_idxFilter _ _ _ _ hf hd
          split
          · exact List.mem_append_left _ this
          · exact this
      · rw [if_neg hc] at hf ⊢
        exact mem_idxFilter _ _ _ _ hf hd


/-! ### the Go-name map of the registration loop (schema.go:226, :243-245) -/

section ByName
variable {α : Type} [DecidableEq α]

/-- the Go-name map after one step: the old bindings behind zero, one or two bindings of the field's own name -/
theorem regStep_byName (st : Reg α) (e : Ent α) :
    ((regStep st e).byName = st.byName ∨ (regStep st e).byName = (e.2.name, e) :: st.byName ∨
      (regStep st e).byName = (e.2.name, e) :: (e.2.name, e) :: st.byName) ∧
    (assoc e.2.name (regStep st e).byName).isSome = true := by
  have key : ∀ st' : Reg α, (st'.byName = st.byName ∨ st'.byName = (e.2.name, e) :: st.byName) →
      (((regStepName st' e).byName = st.byName ∨ (regStepName st' e).byName = (e.2.name, e) :: st.byName ∨
        (regStepName st' e).byName = (e.2.name, e) :: (e.2.name, e) :: st.byName) ∧
      (assoc e.2.name (regStepName st' e).byName).isSome = true) := by
    intro st' h
    unfold regStepName
    cases ha : assoc e.2.name st'.byName with
    | none =>
      simp only
      refine ⟨?_, by simp [assoc_cons]⟩
      rcases h with h | h
      · right; left; rw [h]
      · right; right; rw [h]
    | some o =>
      simp only
      by_cases hi : o.2.ignored = true
      · rw [if_pos hi]
        refine ⟨?_, by simp [assoc_cons]⟩
        rcases h with h | h
        · right; left; rw [h]
        · right; right; rw [h]
      · rw [if_neg hi]
        refine ⟨?_, by simp [ha]⟩
        rcases h with h | h
        · left; exact h
        · right; left; exact h
  unfold regStep
  apply key
  unfold regStepDB
  cases e.2.dbName with
  | none => exact Or.inl rfl
  | some c =>
    simp only
    cases assoc c st.byDB with
    | none => exact Or.inr rfl
    | some v =>
      simp only
      by_cases h : (e.2.perm && decide (e.2.depth < v.2.depth)) = true
      · rw [if_pos h]; exact Or.inr rfl
      · rw [if_neg h]; exact Or.inl rfl

/-- every Go-name binding designates a field below `k` that carries this name -/
def InvN (fs : List (PField α)) (k : Nat) (st : Reg α) : Prop :=
  ∀ n e, assoc n st.byName = some e → e.1 < k ∧ fs[e.1]? = some e.2 ∧ e.2.name = n
/-- the Go name of every field below `k` is bound -/
def InvNB (fs : List (PField α)) (k : Nat) (st : Reg α) : Prop :=
  ∀ j g, j < k → fs[j]? = some g → (assoc g.name st.byName).isSome = true

theorem regStep_invN (fs : List (PField α)) (k : Nat) (f : PField α) (st : Reg α) (hk : fs[k]? = some f)
    (hN : InvN fs k st) (hB : InvNB fs k st) :
    InvN fs (k + 1) (regStep st (k, f)) ∧ InvNB fs (k + 1) (regStep st (k, f)) := by
  obtain ⟨hshape, hbound⟩ := regStep_byName st (k, f)
  have old : ∀ n e, assoc n st.byName = some e → e.1 < k + 1 ∧ fs[e.1]? = some e.2 ∧ e.2.name = n := by
    intro n e h
    obtain ⟨h1, h2, h3⟩ := hN n e h
    exact ⟨by omega, h2, h3⟩
  have new1 : ∀ (n : α) (e : Ent α), assoc n ((f.name, ((k, f) : Ent α)) :: st.byName) = some e →
      e.1 < k + 1 ∧ fs[e.1]? = some e.2 ∧ e.2.name = n := by
    intro n e h
    rw [assoc_cons] at h
    by_cases hn : n = f.name
    · rw [if_pos hn] at h
      cases h
      exact ⟨by simp, hk, hn.symm⟩
    · rw [if_neg hn] at h
      exact old n e h
  constructor
  · intro n e he
    rcases hshape with h | h | h
    · rw [h] at he; exact old n e he
    · rw [h] at he; exact new1 n e he
    · rw [h, assoc_cons] at he
      by_cases hn : n = f.name
      · rw [if_pos hn] at he
        cases he
        exact ⟨by simp, hk, hn.symm⟩
      · rw [if_neg hn] at he
        exact new1 n e he
  · intro j g hj hg
    by_cases hjk : j = k
    · subst hjk
      rw [hk] at hg
      cases hg
      exact hbound
    · have hb := hB j g (by omega) hg
      rcases hshape with h | h | h
      · rw [h]; exact hb
      · rw [h, assoc_cons]; split <;> simp [hb]
      · rw [h, assoc_cons, assoc_cons]; split <;> simp [hb]

theorem regFrom_invN (fs : List (PField α)) :
    ∀ (rest : List (PField α)) (k : Nat) (st : Reg α), (∀ j, rest[j]? = fs[k + j]?) → InvN fs k st → InvNB fs k st →
      InvN fs (k + rest.length) (regFrom k rest st) ∧ InvNB fs (k + rest.length) (regFrom k rest st) := by
  intro rest
  induction rest with
  | nil => intro k st _ hA hB; exact ⟨hA, hB⟩
  | cons f rest ih =>
    intro k st hr hA hB
    have hk : fs[k]? = some f := by have := hr 0; simpa using this.symm
    obtain ⟨hA', hB'⟩ := regStep_invN fs k f st hk hA hB
    have := ih (k + 1) (regStep st (k, f)) (fun j => by have := hr (j + 1); simpa [Nat.add_assoc, Nat.add_comm 1 j] using this) hA' hB'
    simpa [regFrom, Nat.add_assoc, Nat.add_comm 1 rest.length] using this

theorem parseReg_invN (fs : List (PField α)) : InvN fs fs.length (parseReg fs) ∧ InvNB fs fs.length (parseReg fs) := by
  have := regFrom_invN fs fs 0 {} (fun j => by simp) (fun c e h => by simp [assoc] at h) (fun j f h => by omega)
  simpa [parseReg] using this

end ByName

/-! ### primary fields and the prioritized primary field -/

theorem primStep_nil_nopk (all : List AField) (st : Reg String) (i : Nat) (f : AField) (h : f.primaryKey = false) :
    primStep all st [] i f = [] := by
  unfold primStep
  split
  · rfl
  · split
    · simp [h]
    · split
      · simp [h]
      · rfl

theorem primsFrom_nil_nopk (all : List AField) (rest : List AField) (h : ∀ f ∈ rest, f.primaryKey = false) :
    ∀ (k : Nat) (st : Reg String), primsFrom all k rest st [] = [] := by
  induction rest with
  | nil => intro k st; rfl
  | cons f rest ih =>
    intro k st
    unfold primsFrom
    rw [primStep_nil_nopk all st k f (h f (by simp))]
    exact ih (fun g hg => h g (by simp [hg])) _ _

theorem toPField_dbName (g : AField) (c : String) (h : (toPField g).dbName = some c) : g.dbName = c ∧ c ≠ "" := by
  unfold toPField at h
  simp only at h
  split at h
  · cases h
  · rename_i hne
    cases h
    exact ⟨rfl, by simpa using hne⟩

/-- schema.go:253-266 — the field NAMED `ID` is found whatever its column is called: by its column when that is `id` /
    `ID`, else through the Go-name fallback of `LookUpField` -/
theorem prioritize_id_field (k : Bool) (fs : List AField) (i : Nat) (f : AField)
    (hf : fs[i]? = some f) (hname : f.name = "ID") (hcol : k = true → f.dbName ≠ "")
    (huniq : ∀ (j : Nat) (g : AField), fs[j]? = some g → g.name = "ID" → j = i)
    (hnoid : ∀ (j : Nat) (g : AField), fs[j]? = some g → g.name ≠ "id")
    (hcols : ∀ (j : Nat) (g : AField), fs[j]? = some g → j ≠ i → g.dbName ≠ "id" ∧ g.dbName ≠ "ID")
    (hnopk : ∀ (j : Nat) (g : AField), fs[j]? = some g → g.primaryKey = false) :
    (prioritize k fs (parseReg (fs.map toPField)) (primsFrom fs 0 fs {} [])).2.2 = some i ∧
    (prioritize k fs (parseReg (fs.map toPField)) (primsFrom fs 0 fs {} [])).2.1 = [i] ∧
    (prioritize k fs (parseReg (fs.map toPField)) (primsFrom fs 0 fs {} [])).1 = setNth fs i { f with primaryKey := true } := by
  obtain ⟨hA, _⟩ := parseReg_inv (fs.map toPField)
  obtain ⟨hN, hNB⟩ := parseReg_invN (fs.map toPField)
  have back : ∀ (j : Nat) (e : PField String), (fs.map toPField)[j]? = some e → ∃ g, fs[j]? = some g ∧ toPField g = e := by
    intro j e h
    rw [List.getElem?_map] at h
    cases hg : fs[j]? with
    | none => rw [hg] at h; cases h
    | some g => rw [hg] at h; simp only [Option.map_some, Option.some.injEq] at h; exact ⟨g, rfl, h⟩
  have byCol : ∀ (c : String) (e : Ent String), (c = "id" ∨ c = "ID") → assoc c (parseReg (fs.map toPField)).byDB = some e → e.1 = i := by
    intro c e hc he
    obtain ⟨_, h2, h3⟩ := hA c e he
    obtain ⟨g, hg, hge⟩ := back e.1 e.2 h2
    rw [← hge] at h3
    obtain ⟨hd, _⟩ := toPField_dbName g c h3
    apply Classical.byContradiction
    intro hne
    obtain ⟨h1, h2'⟩ := hcols e.1 g hg hne
    rcases hc with hc | hc
    · exact h1 (by rw [hd, hc])
    · exact h2' (by rw [hd, hc])
  have hlen : i < fs.length := by
    rcases Nat.lt_or_ge i fs.length with h | h
    · exact h
    · rw [List.getElem?_eq_none h] at hf; cases hf
  have hcand : keyCandidate (parseReg (fs.map toPField)) = some i := by
    unfold keyCandidate lookUpField
    cases h1 : assoc "id" (parseReg (fs.map toPField)).byDB with
    | some e => simp only; rw [byCol "id" e (Or.inl rfl) h1]
    | none =>
      simp only
      cases h2 : assoc "id" (parseReg (fs.map toPField)).byName with
      | some e =>
        exfalso
        obtain ⟨_, h3, h4⟩ := hN "id" e h2
        obtain ⟨g, hg, hge⟩ := back e.1 e.2 h3
        rw [← hge] at h4
        exact hnoid e.1 g hg h4
      | none =>
        simp only [Option.map_none]
        cases h3 : assoc "ID" (parseReg (fs.map toPField)).byDB with
        | some e => simp only; rw [byCol "ID" e (Or.inr rfl) h3]
        | none =>
          simp only
          have hb := hNB i (toPField f) (by simpa using hlen) (by rw [List.getElem?_map, hf]; rfl)
          have hnm : (toPField f).name = "ID" := hname
          rw [hnm] at hb
          cases h4 : assoc "ID" (parseReg (fs.map toPField)).byName with
          | none => rw [h4] at hb; cases hb
          | some e =>
            obtain ⟨_, h5, h6⟩ := hN "ID" e h4
            obtain ⟨g, hg, hge⟩ := back e.1 e.2 h5
            rw [← hge] at h6
            simp only [Option.map_some]
            rw [huniq e.1 g hg h6]
  have hprims : primsFrom fs 0 fs {} [] = [] :=
    primsFrom_nil_nopk fs fs (fun g hg => by
      obtain ⟨j, hj, hjg⟩ := List.mem_iff_getElem.mp hg
      exact hnopk j g (by rw [List.getElem?_eq_getElem hj, hjg])) 0 {}
  have hnp : isPrimary fs i = false := by
    unfold isPrimary
    rw [nth?_eq_getElem?, hf]
    simp [hnopk i f hf]
  have hn : nth? fs i = some f := by rw [nth?_eq_getElem?]; exact hf
  have hhc : (k && !hasColumn fs i) = false := by
    cases k with
    | false => rfl
    | true =>
      have := hcol rfl
      simp [hasColumn, hn, this]
  unfold prioritize
  rw [hcand, hprims]
  simp [hhc, hnp, hn]

/-! ### the repair of finding F28 (`needCol = true`): the prioritized primary field has a column -/

theorem primStep_sub (all : List AField) (st : Reg String) (prims : List Nat) (i : Nat) (f : AField) (j : Nat)
    (h : j ∈ primStep all st prims i f) : j ∈ prims ∨ (j = i ∧ f.dbName ≠ "") := by
  unfold primStep at h
  split at h
  · exact Or.inl h
  · rename_i hne
    have hne' : f.dbName ≠ "" := by simpa using hne
    split at h
    · split at h
      · rcases List.mem_append.mp h with h | h
        · exact Or.inl h
        · exact Or.inr ⟨by simpa using h, hne'⟩
      · exact Or.inl h
    · split at h
      · simp only at h
        split at h
        · rcases List.mem_append.mp h with h | h
          · split at h
            · exact Or.inl (List.mem_filter.mp h).1
            · exact Or.inl h
          · exact Or.inr ⟨by simpa using h, hne'⟩
        · split at h
          · exact Or.inl (List.mem_filter.mp h).1
          · exact Or.inl h
      · exact Or.inl h

/-- the registration loop puts only column-backed fields into `PrimaryFields` (`if field.DBName != ""`) -/
theorem primsFrom_cols (all : List AField) : ∀ (fs : List AField) (i : Nat) (st : Reg String) (prims : List Nat),
    (∀ (k : Nat) (f : AField), nth? fs k = some f → nth? all (i + k) = some f) →
    (∀ j ∈ prims, hasColumn all j = true) →
    ∀ j ∈ primsFrom all i fs st prims, hasColumn all j = true := by
  intro fs
  induction fs with
  | nil => intro i st prims _ hp j hj; exact hp j (by simpa [primsFrom] using hj)
  | cons f fs ih =>
    intro i st prims hsuf hp j hj
    unfold primsFrom at hj
    refine ih (i + 1) _ _ ?_ ?_ j hj
    · intro k g hg
      have := hsuf (k + 1) g (by simpa [nth?] using hg)
      rw [show i + 1 + k = i + (k + 1) by omega]; exact this
    · intro x hx
      rcases primStep_sub all st prims i f x hx with h | ⟨hxi, hne⟩
      · exact hp x h
      · have := hsuf 0 f (by simp [nth?])
        subst hxi
        simp only [Nat.add_zero] at this
        simp [hasColumn, this, hne]

theorem hasColumn_setNth (fs : List AField) (p : Nat) (f g : AField) (hf : nth? fs p = some f) (hg : g.dbName = f.dbName)
    (j : Nat) : hasColumn (setNth fs p g) j = hasColumn fs j := by
  unfold hasColumn
  rw [nth?_setNth]
  by_cases hj : j = p
  · subst hj; simp [hf, hg]
  · simp [hj]

theorem hasColumn_defaultsStep (fs : List AField) (prio : Option Nat) (j : Nat) :
    hasColumn (defaultsStep fs prio).1 j = hasColumn fs j := by
  unfold defaultsStep
  cases prio with
  | none => rfl
  | some p =>
    simp only
    cases hp : nth? fs p with
    | none => rfl
    | some f =>
      simp only
      split
      · exact hasColumn_setNth fs p f { f with hasDefault := true, autoInc := true } hp rfl j
      · rfl

/-- schema.go:253-280 WITH the repair of F28: whatever field ends up as the prioritized primary field — the conventional
    `id` / `ID` candidate, the single tagged key, the auto-increment member of a composite key — is backed by a column -/
theorem prioritize_has_column (fs : List AField) (st : Reg String) (prims : List Nat)
    (hp : ∀ j ∈ prims, hasColumn fs j = true) (i : Nat)
    (h : (prioritize true fs st prims).2.2 = some i) : hasColumn (prioritize true fs st prims).1 i = true := by
  have fromPrims : ∀ (fs' : List AField) (ps : List Nat), (∀ j ∈ ps, hasColumn fs' j = true) →
      (match ps with
        | [i] => some i
        | [] => none
        | _ => ps.find? (fun i => ((nth? fs' i).map (·.autoInc)).getD false)) = some i → hasColumn fs' i = true := by
    intro fs' ps hps hm
    match ps, hps, hm with
    | [], _, hm => cases hm
    | [a], hps, hm =>
      simp only [Option.some.injEq] at hm
      subst hm; exact hps _ (by simp)
    | a :: b :: l, hps, hm =>
      simp only at hm
      exact hps i (List.mem_of_find?_eq_some hm)
  unfold prioritize at h ⊢
  cases hc : keyCandidate st with
  | none =>
    simp only [hc] at h ⊢
    exact fromPrims fs prims hp h
  | some c =>
    cases hcol : hasColumn fs c with
    | false =>
      simp only [hc, hcol, Bool.not_false, Bool.and_self, if_true] at h ⊢
      exact fromPrims fs prims hp h
    | true =>
      simp only [hc, hcol, Bool.not_true, Bool.and_false, Bool.false_eq_true, if_false] at h ⊢
      cases hpk : isPrimary fs c with
      | true =>
        simp only [hpk, if_true] at h ⊢
        simp only [Option.some.injEq] at h
        subst h; exact hcol
      | false =>
        simp only [hpk, Bool.false_eq_true, if_false] at h ⊢
        cases he : prims.isEmpty with
        | true =>
          simp only [he, if_true] at h ⊢
          simp only [Option.some.injEq] at h
          subst h
          cases hn : nth? fs c with
          | none => simp [hasColumn, hn] at hcol
          | some f =>
            simp only
            rw [hasColumn_setNth fs c f { f with primaryKey := true } hn rfl]; exact hcol
        | false =>
          simp only [he, Bool.false_eq_true, if_false] at h ⊢
          exact fromPrims fs prims hp h

/-- schema.go:292-304 for an integer key found by the convention: it ends up in `FieldsWithDefaultDBValue` -/
theorem defaultsStep_lists_int_key (fs : List AField) (i : Nat) (f : AField) (hn : nth? fs i = some f)
    (htyped : f.typed = true) (hint : f.gormDT = .int ∨ f.gormDT = .uint) (hnotag : hasTag f.tags "AUTOINCREMENT" = false) :
    i ∈ (defaultsStep fs (some i)).2 ∧
    nth? (defaultsStep fs (some i)).1 i = some { f with hasDefault := true, autoInc := true } := by
  have hc : ((f.gormDT == .int || f.gormDT == .uint) && !hasTag f.tags "AUTOINCREMENT") = true := by
    rcases hint with h | h <;> simp [h, hnotag]
  unfold defaultsStep
  simp only [hn, if_pos hc]
  refine ⟨?_, by rw [nth?_setNth]; simp [hn]⟩
  cases hh : f.hasDefault with
  | false => simp
  | true =>
    cases hi : f.defaultIface with
    | some v => simp
    | none =>
      simp only [Bool.not_true, Option.isSome_none, Bool.or_self, Bool.false_eq_true, if_false]
      exact mem_idxFilter _ _ _ f hn (by simp [AField.dbDefault, htyped, hh, hi])

end Gorm.Attrs

