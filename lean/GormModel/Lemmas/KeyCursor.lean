/-
  Lemmas for Model/KeyCursor.lean (FindInBatches' key cursor over non-unique / absent cursor columns) and for the
  holder part of Model/ReadSelect.lean (one holder per result column of a map destination).
-/
import GormModel.Model.KeyCursor
import GormModel.Model.ReadSelect
namespace Gorm.KeyCursor

theorem nextBatch_none (rows : List (Nat × Nat)) (batch : Nat) : nextBatch rows batch none = rows.take batch := by
  have : rows.filter (fun _ => true) = rows := List.filter_eq_self.mpr (by simp)
  simp [nextBatch, this]

/-- without a cursor column the loop never asks a second query: one step -/
theorem batchesK_false_succ (rows : List (Nat × Nat)) (batch fuel : Nat) :
    batchesK false rows batch (fuel + 1) none =
      (if (rows.take batch).isEmpty then {}
       else if (rows.take batch).length < batch then { batches := [(rows.take batch).map (·.1)] }
       else { batches := [(rows.take batch).map (·.1)], pkRequired := true }) := by
  simp [batchesK, nextBatch_none]

/-- without a cursor column the loop never asks a second query: what it delivered is a prefix of the table -/
theorem noCursor_prefix (rows : List (Nat × Nat)) (batch fuel : Nat) (c : Option Nat) (h : c = none) :
    (batchesK false rows batch fuel c).delivered <+: rows.map (·.1) := by
  subst h
  cases fuel with
  | zero => simp [batchesK, KOut.delivered]
  | succ n =>
    rw [batchesK_false_succ]
    have hp : (rows.take batch).map (·.1) <+: rows.map (·.1) := (List.take_prefix batch rows).map _
    split
    · simp [KOut.delivered]
    · split <;> simpa [KOut.delivered] using hp

/-- … and when it reports neither ErrPrimaryKeyRequired nor runs out of fuel, that prefix is the whole table -/
theorem noCursor_complete (rows : List (Nat × Nat)) (batch fuel : Nat) (hb : 0 < batch)
    (hpk : (batchesK false rows batch (fuel + 1) none).pkRequired = false) :
    (batchesK false rows batch (fuel + 1) none).delivered = rows.map (·.1) := by
  rw [batchesK_false_succ] at hpk ⊢
  by_cases he : (rows.take batch).isEmpty = true
  · have : rows = [] := by
      cases rows with
      | nil => rfl
      | cons r rs =>
        cases batch with
        | zero => omega
        | succ k => simp at he
    subst this
    simp [KOut.delivered]
  · by_cases hl : (rows.take batch).length < batch
    · have hlen : rows.length < batch := by
        rw [List.length_take] at hl
        omega
      have ht : rows.take batch = rows := List.take_of_length_le (by omega)
      simp only [he, hl, if_true, if_false]
      simp [KOut.delivered, ht]
    · simp only [he, hl, if_false] at hpk
      simp at hpk

/-! ### a cursor column that is strictly increasing along the table -/

theorem batchesK_true_succ (rows : List (Nat × Nat)) (batch fuel : Nat) (c : Option Nat) :
    batchesK true rows batch (fuel + 1) c =
      (if (nextBatch rows batch c).isEmpty then {}
       else if (nextBatch rows batch c).length < batch then { batches := [(nextBatch rows batch c).map (·.1)] }
       else if lastKey (nextBatch rows batch c) = 0 then { batches := [(nextBatch rows batch c).map (·.1)], pkRequired := true }
       else { batches := (nextBatch rows batch c).map (·.1) :: (batchesK true rows batch fuel (some (lastKey (nextBatch rows batch c)))).batches,
              pkRequired := (batchesK true rows batch fuel (some (lastKey (nextBatch rows batch c)))).pkRequired,
              fuelOut := (batchesK true rows batch fuel (some (lastKey (nextBatch rows batch c)))).fuelOut }) := by
  simp [batchesK]

theorem lastKey_concat (l : List (Nat × Nat)) (x : Nat × Nat) : lastKey (l ++ [x]) = x.2 := by
  simp [lastKey]

theorem exists_concat (b : List (Nat × Nat)) (hb : b ≠ []) : ∃ l x, b = l ++ [x] :=
  ⟨b.dropLast, b.getLast hb, (List.dropLast_concat_getLast hb).symm⟩

theorem lastKey_append (a b : List (Nat × Nat)) (hb : b ≠ []) : lastKey (a ++ b) = lastKey b := by
  obtain ⟨l, x, rfl⟩ := exists_concat b hb
  rw [← List.append_assoc, lastKey_concat, lastKey_concat]

theorem lastKey_mem (b : List (Nat × Nat)) (hb : b ≠ []) : ∃ x ∈ b, lastKey b = x.2 := by
  obtain ⟨l, x, rfl⟩ := exists_concat b hb
  exact ⟨x, by simp, lastKey_concat l x⟩

/-- the cursor predicate keeps exactly what follows the rows already delivered -/
theorem filter_gt_sorted (pre s : List (Nat × Nat)) (hs : (pre ++ s).Pairwise (fun a b => a.2 < b.2)) (hne : pre ≠ []) :
    (pre ++ s).filter (fun r => decide (lastKey pre < r.2)) = s := by
  obtain ⟨l, x, rfl⟩ := exists_concat pre hne
  · rw [lastKey_concat]
    rw [List.pairwise_append] at hs
    obtain ⟨hpre, _, hcross⟩ := hs
    rw [List.pairwise_append] at hpre
    obtain ⟨_, _, hlx⟩ := hpre
    rw [List.filter_append]
    have h1 : (l ++ [x]).filter (fun r => decide (x.2 < r.2)) = [] := by
      rw [List.filter_eq_nil_iff]
      intro a ha
      simp only [List.mem_append, List.mem_singleton] at ha
      rcases ha with ha | rfl
      · have := hlx a ha x (by simp)
        simp; omega
      · simp
    have h2 : s.filter (fun r => decide (x.2 < r.2)) = s := by
      rw [List.filter_eq_self]
      intro a ha
      have := hcross x (by simp) a ha
      simpa using this
    rw [h1, h2]; rfl

theorem cursor_run (rows : List (Nat × Nat)) (batch : Nat) (hb : 0 < batch)
    (hsorted : rows.Pairwise (fun a b => a.2 < b.2)) (hp : ∀ r ∈ rows, 0 < r.2) :
    ∀ (fuel : Nat) (pre s : List (Nat × Nat)) (c : Option Nat), rows = pre ++ s →
      ((c = none ∧ pre = []) ∨ (pre ≠ [] ∧ c = some (lastKey pre))) → s.length + 1 ≤ fuel →
      (batchesK true rows batch fuel c).delivered = s.map (·.1) ∧ (batchesK true rows batch fuel c).pkRequired = false ∧
        (batchesK true rows batch fuel c).fuelOut = false ∧
        ∀ b ∈ (batchesK true rows batch fuel c).batches, b ≠ [] ∧ b.length ≤ batch := by
  intro fuel
  induction fuel with
  | zero => intro pre s c _ _ hf; omega
  | succ n ih =>
    intro pre s c hrows hc hf
    have hnb : nextBatch rows batch c = s.take batch := by
      rcases hc with ⟨rfl, rfl⟩ | ⟨hne, rfl⟩
      · rw [nextBatch_none, hrows]; rfl
      · have := filter_gt_sorted pre s (hrows ▸ hsorted) hne
        simp only [nextBatch]
        rw [hrows, this]
    rw [batchesK_true_succ, hnb]
    by_cases he : (s.take batch).isEmpty = true
    · have : s = [] := by
        cases s with
        | nil => rfl
        | cons r rs =>
          cases batch with
          | zero => omega
          | succ k => simp at he
      subst this
      simp [KOut.delivered]
    · have hne : s.take batch ≠ [] := by simpa using he
      by_cases hl : (s.take batch).length < batch
      · have hlen : s.length < batch := by
          rw [List.length_take] at hl
          omega
        have ht : s.take batch = s := List.take_of_length_le (by omega)
        simp only [he, hl, if_true, if_false, Bool.false_eq_true]
        rw [ht] at hne ⊢
        refine ⟨by simp [KOut.delivered], by simp, by simp, ?_⟩
        intro b hb'
        simp at hb'
        subst hb'
        refine ⟨by simpa using hne, by simp; omega⟩
      · have hfull : (s.take batch).length = batch := by
          have := List.length_take_le batch s
          omega
        obtain ⟨x, hx, hlk⟩ := lastKey_mem (s.take batch) hne
        have hxrows : x ∈ rows := by
          rw [hrows]; exact List.mem_append_right _ (List.mem_of_mem_take hx)
        have hpos : lastKey (s.take batch) ≠ 0 := by
          have := hp x hxrows
          omega
        simp only [he, hl, hpos, if_false, Bool.false_eq_true]
        have hrows' : rows = (pre ++ s.take batch) ++ s.drop batch := by
          rw [List.append_assoc, List.take_append_drop]; exact hrows
        have hc' : ((some (lastKey (s.take batch)) = none ∧ pre ++ s.take batch = []) ∨
            (pre ++ s.take batch ≠ [] ∧ some (lastKey (s.take batch)) = some (lastKey (pre ++ s.take batch)))) := by
          right
          refine ⟨by simp [hne], by rw [lastKey_append _ _ hne]⟩
        have hf' : (s.drop batch).length + 1 ≤ n := by
          rw [List.length_drop]
          have : s.length ≥ batch := by
            have := List.length_take (i := batch) (l := s)
            omega
          omega
        obtain ⟨h1, h2, h3, h4⟩ := ih (pre ++ s.take batch) (s.drop batch) (some (lastKey (s.take batch))) hrows' hc' hf'
        refine ⟨?_, h2, h3, ?_⟩
        · simp only [KOut.delivered, List.flatten_cons] at h1 ⊢
          rw [h1, ← List.map_append, List.take_append_drop]
        · intro b hb'
          simp only [List.mem_cons] at hb'
          rcases hb' with rfl | hb'
          · refine ⟨by simpa using hne, by simp; omega⟩
          · exact h4 b hb'

/-- a cursor column that is strictly increasing along the table (a unique key in ORDER BY order) and never zero:
    every row once, in order, no error, batches non-empty and no larger than requested -/
theorem uniqueCursor_exact (rows : List (Nat × Nat)) (batch : Nat) (hb : 0 < batch)
    (hs : rows.Pairwise (fun a b => a.2 < b.2)) (hp : ∀ r ∈ rows, 0 < r.2) :
    let o := batchesK true rows batch (rows.length + 1) none
    o.delivered = rows.map (·.1) ∧ o.pkRequired = false ∧ o.fuelOut = false ∧
      ∀ b ∈ o.batches, b ≠ [] ∧ b.length ≤ batch :=
  cursor_run rows batch hb hs hp (rows.length + 1) [] rows none rfl (Or.inl ⟨rfl, rfl⟩) (Nat.le_refl _)

end Gorm.KeyCursor

namespace Gorm.ReadSelect

theorem lookup_none_of_not_key {ν : Type} (w : List (Nat × ν)) (h : Nat) (hk : ∀ q ∈ w, q.1 ≠ h) : w.lookup h = none := by
  induction w with
  | nil => rfl
  | cons q qs ih =>
    have h1 : q.1 ≠ h := hk q (by simp)
    have h2 := ih (fun q' hq' => hk q' (by simp [hq']))
    obtain ⟨a, b⟩ := q
    simp only [List.lookup_cons]
    have : (h == a) = false := by
      simp only [beq_eq_false_iff_ne, ne_eq]
      exact fun e => h1 e.symm
    rw [this]; exact h2

theorem mapRow_aux {ν : Type} (holders : List Nat) :
    ∀ (vals : List ν) (acc : List (Nat × ν)), (∀ h ∈ holders, ∀ q ∈ acc, q.1 ≠ h) → holders.Nodup →
      holders.length = vals.length →
      holders.map (holderVal (acc ++ holders.zip vals)) = vals.map some := by
  induction holders with
  | nil =>
    intro vals acc _ _ hl
    cases vals with
    | nil => rfl
    | cons v vs => simp at hl
  | cons h hs ih =>
    intro vals acc hacc hn hl
    cases vals with
    | nil => simp at hl
    | cons v vs =>
      have hnot : h ∉ hs := (List.nodup_cons.mp hn).1
      have hn' : hs.Nodup := (List.nodup_cons.mp hn).2
      simp only [List.zip_cons_cons, List.map_cons]
      congr 1
      · -- the head holder: written once, by (h, v)
        simp only [holderVal, List.reverse_append, List.reverse_cons, List.append_assoc]
        rw [List.lookup_append]
        have hz : ((hs.zip vs).reverse).lookup h = none := by
          apply lookup_none_of_not_key
          intro q hq
          have hq' : q ∈ hs.zip vs := List.mem_reverse.mp hq
          intro e
          exact hnot (e ▸ (List.of_mem_zip hq').1)
        rw [hz]
        simp
      · have := ih vs (acc ++ [(h, v)]) (by
          intro h' hh' q hq
          simp only [List.mem_append, List.mem_singleton] at hq
          rcases hq with hq | rfl
          · exact hacc h' (by simp [hh']) q hq
          · intro e; simp only at e; subst e; exact hnot hh') hn' (by simpa using hl)
        simpa [List.append_assoc] using this

/-- distinct holders: the map row is exactly what the driver delivered -/
theorem mapRow_nodup {ν : Type} (holders : List Nat) (vals : List ν) (hn : holders.Nodup)
    (hl : holders.length = vals.length) : mapRow holders vals = vals.map some := by
  have := mapRow_aux holders vals [] (by simp) hn hl
  simpa [mapRow, scanWrites] using this

theorem prepareHolders_perColumn_nodup (isField : List Bool) : (prepareHolders true isField).Nodup := by
  simp [prepareHolders, List.nodup_range]

theorem prepareHolders_length (b : Bool) (isField : List Bool) : (prepareHolders b isField).length = isField.length := by
  cases b <;> simp [prepareHolders]

end Gorm.ReadSelect
