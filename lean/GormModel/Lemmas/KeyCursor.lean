/-
  Lemmas for Model/KeyCursor.lean (FindInBatches' key cursor over non-unique / absent cursor columns) and for the
  holder part of Model/ReadSelect.lean (one holder per result column of a map destination).
-/
import GormModel.Model.KeyCursor
import GormModel.Model.ReadSelect
namespace Gorm.KeyCursor

/-- without a cursor column the loop never asks a second query: what it delivered is a prefix of the table -/
theorem noCursor_prefix (rows : List (Nat × Nat)) (batch fuel : Nat) (c : Option Nat) (h : c = none) :
    (batchesK false rows batch fuel c).delivered <+: rows.map (·.1) := by
  sorry

/-- … and when it reports neither ErrPrimaryKeyRequired nor runs out of fuel, that prefix is the whole table -/
theorem noCursor_complete (rows : List (Nat × Nat)) (batch fuel : Nat) (hb : 0 < batch)
    (hpk : (batchesK false rows batch (fuel + 1) none).pkRequired = false) :
    (batchesK false rows batch (fuel + 1) none).delivered = rows.map (·.1) := by
  sorry

/-- a cursor column that is strictly increasing along the table (a unique key in ORDER BY order) and never zero:
    every row once, in order, no error, batches non-empty and no larger than requested -/
theorem uniqueCursor_exact (rows : List (Nat × Nat)) (batch : Nat) (hb : 0 < batch)
    (hs : rows.Pairwise (fun a b => a.2 < b.2)) (hp : ∀ r ∈ rows, 0 < r.2) :
    let o := batchesK true rows batch (rows.length + 1) none
    o.delivered = rows.map (·.1) ∧ o.pkRequired = false ∧ o.fuelOut = false ∧
      ∀ b ∈ o.batches, b ≠ [] ∧ b.length ≤ batch := by
  sorry

end Gorm.KeyCursor

namespace Gorm.ReadSelect

/-- distinct holders: the map row is exactly what the driver delivered -/
theorem mapRow_nodup {ν : Type} (holders : List Nat) (vals : List ν) (hn : holders.Nodup)
    (hl : holders.length = vals.length) : mapRow holders vals = vals.map some := by
  sorry

theorem prepareHolders_perColumn_nodup (isField : List Bool) : (prepareHolders true isField).Nodup := by
  sorry

theorem prepareHolders_length (b : Bool) (isField : List Bool) : (prepareHolders b isField).length = isField.length := by
  sorry

end Gorm.ReadSelect
