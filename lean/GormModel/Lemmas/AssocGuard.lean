/-
  C09 (round 4) — FINDING F33: association work runs before the missing-WHERE guard (Model/AssocGuard.lean).
-/
import GormModel.Model.AssocGuard
namespace Gorm

/-- the association handlers are registered BEFORE the handlers that hold the guard (regenerated registration order) -/
theorem C09_assoc_handlers_precede_guard :
    ((pipelineRegs "update").map (·.handler)).takeWhile (· != "Update") =
      ["BeginTransaction", "SetupUpdateReflectValue", "BeforeUpdate", "SaveBeforeAssociations"] ∧
    ((pipelineRegs "delete").map (·.handler)).takeWhile (· != "Delete") =
      ["BeginTransaction", "BeforeDelete", "DeleteBeforeAssociations"] := by
  decide

/-- FINDING F33 (kernel-checked counterexample to "executes no statement"): a condition-less update of a key-less model
    value that carries ONE belongs-to association value has already sent that association's INSERT when the guard refuses
    the UPDATE; a condition-less `Select("<many2many>").Delete(&T{})` has already sent the join table's DELETE -/
theorem C09_assoc_before_guard_counterexample :
    sentBeforeGuard (pipelineRegs "update") "Update" { belongsToValues := 1, selectedM2M := 0 } = 1 ∧
    sentBeforeGuard (pipelineRegs "delete") "Delete" { belongsToValues := 0, selectedM2M := 1 } = 1 := by
  decide

theorem sentBeforeGuard_zero (regs : List CbReg) (g : String) (i : AssocInput)
    (hb : i.belongsToValues = 0) (hm : i.selectedM2M = 0) : sentBeforeGuard regs g i = 0 := by
  unfold sentBeforeGuard
  have : ∀ l : List CbReg, (l.map (fun r => handlerSends r.handler i)).sum = 0 := by
    intro l
    induction l with
    | nil => rfl
    | cons r t ih =>
      simp only [List.map_cons, List.sum_cons, ih, Nat.add_zero]
      unfold handlerSends
      split
      · exact hb
      · split
        · exact hm
        · rfl
  exact this _

/-- PARTIAL (the negation of F33's pattern): without a belongs-to value to save and without a selected many2many relation,
    NOTHING is sent before the guard — in the registration order of the tree under verification, and in any other -/
theorem C09_nothing_before_guard_partial (i : AssocInput) (hb : i.belongsToValues = 0) (hm : i.selectedM2M = 0) :
    sentBeforeGuard (pipelineRegs "update") "Update" i = 0 ∧ sentBeforeGuard (pipelineRegs "delete") "Delete" i = 0 :=
  ⟨sentBeforeGuard_zero _ _ i hb hm, sentBeforeGuard_zero _ _ i hb hm⟩

/-- what a repair would have to achieve: were the association handlers registered AFTER the guard's handler, nothing
    would precede the refusal, whatever the input carries -/
theorem C09_guard_first_sends_nothing (i : AssocInput) (regs : List CbReg) (g : CbReg) (rest : List CbReg) (hg : g.handler = "Update")
    (hregs : regs = g :: rest) : sentBeforeGuard regs "Update" i = 0 := by
  subst hregs
  simp [sentBeforeGuard, List.takeWhile, hg]

end Gorm
