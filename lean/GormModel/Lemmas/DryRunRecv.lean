/-
  Lemmas for Model/DryRunRecv.lean: the symbolic run of `Session()` over statement contents depends only on the flags
  its guards test, so a statement about ALL flag valuations with `NewDB` off reduces to the finitely many sub-lists of
  `progFlags` that do not contain `newDB` (which `decide` enumerates over the regenerated program).
-/
import GormModel.Model.DryRunRecv
import GormModel.Lemmas.Handle
namespace Gorm

theorem runSessStmt_congr (fl fl' : SessFlags) (prog : List (List CCond × SAct))
    (h : ∀ f ∈ progFlags prog, fl f = fl' f) : runSessStmt prog fl = runSessStmt prog fl' := by
  unfold runSessStmt
  generalize ({} : SessStmt) = st
  induction prog generalizing st with
  | nil => rfl
  | cons ga rest ih =>
    simp only [List.foldl_cons]
    rw [evalCPath_congr fl fl' ga.1 (fun f hf => h f (by simp [progFlags, hf]))]
    exact ih (fun f hf => h f (by simp [progFlags, hf])) _

theorem runSessStmt_restrict (prog : List (List CCond × SAct)) (fl : SessFlags) :
    runSessStmt prog fl = runSessStmt prog (SessFlags.ofList ((progFlags prog).filter fl)) := by
  apply runSessStmt_congr
  intro f hf
  by_cases hv : fl f = true
  · have : f ∈ (progFlags prog).filter fl := List.mem_filter.mpr ⟨hf, hv⟩
    simp [SessFlags.ofList, hv, this]
  · have : f ∉ (progFlags prog).filter fl := fun hm => hv (List.mem_filter.mp hm).2
    simp [SessFlags.ofList, this]
    simpa using hv

/-- reduction: what holds for every sub-list valuation without `newDB` holds for every valuation with `NewDB` off -/
theorem forall_flags_newDB_off (prog : List (List CCond × SAct)) (P : SessStmt → Prop)
    (hall : ∀ S ∈ flagSubsets (progFlags prog), S.contains SessFlag.newDB = false → P (runSessStmt prog (SessFlags.ofList S)))
    (fl : SessFlags) (hb : fl .newDB = false) : P (runSessStmt prog fl) := by
  rw [runSessStmt_restrict]
  apply hall _ (filter_mem_subsets fl _)
  have : SessFlag.newDB ∉ (progFlags prog).filter fl := fun hm => by
    have := (List.mem_filter.mp hm).2; simp [hb] at this
  simpa using this

end Gorm
