/-
  Invariants of the pool-kind world (Model/StmtCacheKinds.lean) under the healthy configuration:
    SInv  every PreparedStmtDB struct wraps the root pool; while no cache is registered every handle's Config.ConnPool
          is the root pool itself (so `NewPreparedStmtDB(db.ConnPool)` can only ever see the root pool)
    EInv  a cached statement is bound to nothing (pool level, Transaction = false) or to a transaction (Transaction = true),
          never to a pinned connection
    LInv  an operation fails only when the handle's OWN transaction / connection is over
    GInv  outside the F14e pattern every handle runs on what non-prepared mode runs on
-/
import GormModel.Model.StmtCacheKinds
namespace Gorm.SCK

def SInv (w : KWorld) : Prop :=
  w.cfg = good ∧ (∀ st ∈ w.structs, st.wraps = .root) ∧ (w.store = none → ∀ hd ∈ w.handles, hd.cfg = .raw .root)

def EInv (w : KWorld) : Prop :=
  ∀ e ∈ w.entries, (e.txFlag = false → e.on = .root) ∧ (e.txFlag = true → ∃ t, e.on = .tx t)

def LInv (w : KWorld) : Prop := ∀ o ∈ w.log, o.ownAlive = true → o.res = .ok

def GInv (w : KWorld) : Prop :=
  w.pinnedPrep = false → (∀ hd ∈ w.handles, baseOf w hd.stmt = hd.ghost) ∧ ∀ o ∈ w.log, o.ranOn = o.want

theorem baseOf_pdb (w : KWorld) (h1 : ∀ st ∈ w.structs, st.wraps = .root) (s : Nat) : baseOf w (.pdb s) = .root := by
  cases h : w.structs[s]? with
  | none => simp [baseOf, h]
  | some st => simp [baseOf, h, h1 st (List.mem_of_getElem? h)]

theorem mem_handles (w : KWorld) (h : Nat) (hd : KHandle) (hh : w.handles[h]? = some hd) : hd ∈ w.handles :=
  List.mem_of_getElem? hh

/-! ### `runOn` touches only entries and log -/

theorem runOn_frame (w : KWorld) (h q : Nat) (p : KPool) (want : Base) :
    (runOn w h q p want).cfg = w.cfg ∧ (runOn w h q p want).store = w.store ∧ (runOn w h q p want).structs = w.structs ∧
    (runOn w h q p want).handles = w.handles ∧ (runOn w h q p want).pinnedPrep = w.pinnedPrep ∧
    (runOn w h q p want).deadTx = w.deadTx ∧ (runOn w h q p want).deadConn = w.deadConn := by
  unfold runOn
  cases p <;> simp only [] <;> (repeat' split) <;> simp

theorem dropEntry_sub (es : List KEntry) (c q : Nat) (e : KEntry) (h : e ∈ dropEntry es c q) : e ∈ es := by
  unfold dropEntry at h
  exact (List.mem_filter.mp h).1

theorem runOn_einv (w : KWorld) (hS : SInv w) (hE : EInv w) (h q : Nat) (p : KPool) (want : Base) : EInv (runOn w h q p want) := by
  have hb := baseOf_pdb w hS.2.1
  have hc : w.cfg.txPrepOnTx = true := by rw [hS.1]; rfl
  unfold runOn
  cases p with
  | raw b => exact hE
  | pdb s =>
    simp only []
    split
    · exact hE
    · split
      · intro e he
        simp only [List.mem_append, List.mem_singleton] at he
        rcases he with he | he
        · exact hE e (dropEntry_sub _ _ _ _ he)
        · subst he; simp [hb]
      · intro e he
        exact hE e (dropEntry_sub _ _ _ _ he)
  | ptx s t =>
    simp only []
    split
    · exact hE
    · simp only [hc, if_true]
      split
      · intro e he
        simp only [List.mem_append, List.mem_singleton] at he
        rcases he with he | he
        · exact hE e he
        · subst he; simp
      · exact hE

/-- an operation through a prepared handle never fails because of SOMEBODY ELSE's connection -/
theorem runOn_linv (w : KWorld) (hS : SInv w) (hE : EInv w) (hL : LInv w) (h q : Nat) (p : KPool) (want : Base) :
    LInv (runOn w h q p want) := by
  have hb := baseOf_pdb w hS.2.1
  have hc : w.cfg.txPrepOnTx = true := by rw [hS.1]; rfl
  have step : ∀ (o : Outcome), (o.ownAlive = true → o.res = .ok) → ∀ o' ∈ w.log ++ [o], o'.ownAlive = true → o'.res = .ok := by
    intro o ho o' ho'
    simp only [List.mem_append, List.mem_singleton] at ho'
    rcases ho' with ho' | ho'
    · exact hL o' ho'
    · subst ho'; exact ho
  unfold runOn
  cases p with
  | raw b =>
    simp only []
    apply step
    simp only [baseOf]
    intro ha; simp_all
  | pdb s =>
    simp only []
    split
    · rename_i e hf
      apply step
      have he := List.mem_of_find?_eq_some hf
      have hp := List.find?_some hf
      simp only [Bool.and_eq_true, Bool.not_eq_true'] at hp
      have : e.on = .root := (hE e he).1 hp.2
      simp [this, alive]
    · split
      · apply step; simp
      · rename_i hd
        rw [hb] at hd
        simp [alive] at hd
  | ptx s t =>
    simp only []
    split
    · apply step
      simp only [baseOf]
      intro ha; simp [ha]
    · simp only [hc, if_true]
      split
      · apply step
        simp only [baseOf]
        intro ha; simp [ha]
      · rename_i hd
        apply step
        simp only [baseOf]
        intro ha; rw [ha] at hd; exact absurd rfl hd

/-- where an operation runs: the base of the pool it went through (outside a transaction: the root pool for every
    prepared handle) -/
theorem runOn_ran (w : KWorld) (hS : SInv w) (hE : EInv w) (h q : Nat) (p : KPool) (want : Base)
    (hg : ∀ o ∈ w.log, o.ranOn = o.want) (hw : baseOf w p = want) : ∀ o ∈ (runOn w h q p want).log, o.ranOn = o.want := by
  have hb := baseOf_pdb w hS.2.1
  have step : ∀ (o : Outcome), o.ranOn = o.want → ∀ o' ∈ w.log ++ [o], o'.ranOn = o'.want := by
    intro o ho o' ho'
    simp only [List.mem_append, List.mem_singleton] at ho'
    rcases ho' with ho' | ho'
    · exact hg o' ho'
    · subst ho'; exact ho
  unfold runOn
  cases p with
  | raw b => simp only []; apply step; simpa [baseOf] using hw
  | pdb s =>
    rw [hb] at hw
    simp only []
    split
    · rename_i e hf
      apply step
      have he := List.mem_of_find?_eq_some hf
      have hp := List.find?_some hf
      simp only [Bool.and_eq_true, Bool.not_eq_true'] at hp
      simpa [(hE e he).1 hp.2] using hw
    · split <;> (apply step; simpa [hb] using hw)
  | ptx s t =>
    simp only [baseOf] at hw
    simp only []
    (repeat' split) <;> (apply step; simpa using hw)

/-! ### the steps -/

structure KInv (w : KWorld) : Prop where
  s : SInv w
  e : EInv w
  l : LInv w
  g : GInv w

theorem inv_open (prepare : Bool) : KInv (openK good prepare) := by
  cases prepare <;> refine ⟨?_, ?_, ?_, ?_⟩ <;> simp [openK, newCache, SInv, EInv, LInv, GInv, baseOf]

theorem lookupOrCreate_spec (w : KWorld) (hS : SInv w) (hd : KHandle) (hh : hd ∈ w.handles) :
    SInv (lookupOrCreate w hd).1 ∧ (lookupOrCreate w hd).1.store = some (lookupOrCreate w hd).2 ∧
    (lookupOrCreate w hd).1.handles = w.handles ∧ (lookupOrCreate w hd).1.entries = w.entries ∧
    (lookupOrCreate w hd).1.log = w.log ∧ (lookupOrCreate w hd).1.pinnedPrep = w.pinnedPrep ∧
    (lookupOrCreate w hd).1.cfg = w.cfg := by
  have hcfg : w.cfg.sessArg = .config := by rw [hS.1]; rfl
  unfold lookupOrCreate
  cases hst : w.store with
  | some s => simp [hS, hst]
  | none =>
    have hc : hd.cfg = .raw .root := hS.2.2 hst hd hh
    simp only [newCache, hcfg, argPool, hc, baseOf]
    refine ⟨⟨hS.1, ?_, ?_⟩, ?_⟩
    · intro st hst'
      simp only [List.mem_append, List.mem_singleton] at hst'
      rcases hst' with h | h
      · exact hS.2.1 st h
      · subst h; rfl
    · intro h; simp at h
    · simp

theorem baseOf_stable (w w' : KWorld) (h1 : ∀ st ∈ w.structs, st.wraps = .root) (h2 : ∀ st ∈ w'.structs, st.wraps = .root)
    (p : KPool) : baseOf w' p = baseOf w p := by
  cases p with
  | raw b => rfl
  | pdb s => rw [baseOf_pdb w h1, baseOf_pdb w' h2]
  | ptx s t => rfl

theorem txOf_base (w : KWorld) (p : KPool) (t : Nat) (h : txOf p = some t) : baseOf w p = .tx t := by
  cases p with
  | raw b => cases b <;> simp_all [txOf, baseOf]
  | pdb s => simp [txOf] at h
  | ptx s t' => simp_all [txOf, baseOf]

theorem sessionPrep_inv (w : KWorld) (hI : KInv w) (hd : KHandle) (hh : hd ∈ w.handles) : KInv (sessionPrep w hd) := by
  have hL := lookupOrCreate_spec w hI.s hd hh
  obtain ⟨hS1, hst, hhs, hes, hls, hps, hcs⟩ := hL
  have hsp : w.cfg.sessPool = .registered := by rw [hI.s.1]; rfl
  have hstab := baseOf_stable w (lookupOrCreate w hd).1 hI.s.2.1 hS1.2.1
  unfold sessionPrep
  simp only [hsp]
  cases htx : txOf hd.stmt with
  | some t =>
    simp only []
    refine ⟨⟨hS1.1, hS1.2.1, ?_⟩, ?_, ?_, ?_⟩
    · intro h; simp [hst] at h
    · show EInv _; unfold EInv; simp only [hes]; exact hI.e
    · show LInv _; unfold LInv; simp only [hls]; exact hI.l
    · intro hp
      simp only [hps] at hp
      have hg := hI.g hp
      refine ⟨?_, ?_⟩
      · intro x hx
        simp only [hhs, List.mem_append, List.mem_singleton] at hx
        rcases hx with hx | hx
        · have := hg.1 x hx
          rw [← this]; exact baseOf_stable w _ hI.s.2.1 hS1.2.1 x.stmt
        · subst hx
          simp only [baseOf]
          rw [← hg.1 hd hh, txOf_base w hd.stmt t htx]
      · simp only [hls]; exact hg.2
  | none =>
    simp only []
    refine ⟨⟨hS1.1, hS1.2.1, ?_⟩, ?_, ?_, ?_⟩
    · intro h; simp [hst] at h
    · show EInv _; unfold EInv; simp only [hes]; exact hI.e
    · show LInv _; unfold LInv; simp only [hls]; exact hI.l
    · intro hp
      simp only [hps, Bool.or_eq_false_iff] at hp
      have hg := hI.g hp.1
      refine ⟨?_, ?_⟩
      · intro x hx
        simp only [hhs, List.mem_append, List.mem_singleton] at hx
        rcases hx with hx | hx
        · have := hg.1 x hx
          rw [← this]; exact baseOf_stable w _ hI.s.2.1 hS1.2.1 x.stmt
        · subst hx
          have h1 : baseOf (lookupOrCreate w hd).1 (.pdb (lookupOrCreate w hd).2) = .root := baseOf_pdb _ hS1.2.1 _
          have h2 : baseOf w hd.stmt = .root := by
            cases hs : hd.stmt with
            | raw b =>
              cases b with
              | root => rfl
              | conn c => simp [hs, isPinned] at hp
              | tx t => simp [hs, txOf] at htx
            | pdb s => exact baseOf_pdb w hI.s.2.1 s
            | ptx s t => simp [hs, txOf] at htx
          show baseOf _ (.pdb _) = hd.ghost
          rw [← hg.1 hd hh, h2]
          exact baseOf_pdb _ hS1.2.1 _
      · simp only [hls]; exact hg.2

theorem beginPool_spec (w : KWorld) (p : KPool) :
    (beginPool w p).1.cfg = w.cfg ∧ (beginPool w p).1.store = w.store ∧ (beginPool w p).1.structs = w.structs ∧
    (beginPool w p).1.handles = w.handles ∧ (beginPool w p).1.entries = w.entries ∧
    (beginPool w p).1.log = w.log ∧ (beginPool w p).1.pinnedPrep = w.pinnedPrep ∧ (beginPool w p).1.deadTx = w.deadTx ∧
    (beginPool w p).1.deadConn = w.deadConn ∧
    (if (beginPool w p).2.2 then baseOf w (beginPool w p).2.1 = .tx w.nTx else (beginPool w p).2.1 = p ∧ (beginPool w p).1 = w) := by
  cases p with
  | raw b => cases b <;> simp [beginPool, baseOf]
  | pdb s => simp [beginPool, baseOf]
  | ptx s t => simp [beginPool]

/-- the four invariants only read cfg / store / structs / handles / entries / log / pinnedPrep -/
theorem inv_congr (w w' : KWorld) (hI : KInv w) (h1 : w'.cfg = w.cfg) (h2 : w'.store = w.store) (h3 : w'.structs = w.structs)
    (h4 : w'.handles = w.handles) (h5 : w'.entries = w.entries) (h6 : w'.log = w.log) (h7 : w'.pinnedPrep = w.pinnedPrep) :
    KInv w' := by
  refine ⟨?_, ?_, ?_, ?_⟩
  · unfold SInv; rw [h1, h2, h3, h4]; exact hI.s
  · unfold EInv; rw [h5]; exact hI.e
  · unfold LInv; rw [h6]; exact hI.l
  · unfold GInv; rw [h7, h4, h6]
    intro hp
    refine ⟨fun hd hh => ?_, (hI.g hp).2⟩
    rw [← (hI.g hp).1 hd hh]
    exact baseOf_stable w w' hI.s.2.1 (by rw [h3]; exact hI.s.2.1) hd.stmt

theorem inv_add_handle (w : KWorld) (hI : KInv w) (x : KHandle) (hc : w.store = none → x.cfg = .raw .root)
    (hg : w.pinnedPrep = false → baseOf w x.stmt = x.ghost) : KInv { w with handles := w.handles ++ [x] } := by
  refine ⟨⟨hI.s.1, hI.s.2.1, ?_⟩, hI.e, hI.l, ?_⟩
  · intro hs y hy
    simp only [List.mem_append, List.mem_singleton] at hy
    rcases hy with hy | hy
    · exact hI.s.2.2 hs y hy
    · subst hy; exact hc hs
  · intro hp
    refine ⟨?_, (hI.g hp).2⟩
    intro y hy
    simp only [List.mem_append, List.mem_singleton] at hy
    rcases hy with hy | hy
    · exact (hI.g hp).1 y hy
    · subst hy; exact hg hp

theorem runOn_inv (w : KWorld) (hI : KInv w) (h q : Nat) (p : KPool) (want : Base)
    (hw : w.pinnedPrep = false → baseOf w p = want) : KInv (runOn w h q p want) := by
  have hf := runOn_frame w h q p want
  refine ⟨?_, runOn_einv w hI.s hI.e h q p want, runOn_linv w hI.s hI.e hI.l h q p want, ?_⟩
  · unfold SInv; rw [hf.1, hf.2.1, hf.2.2.1, hf.2.2.2.1]; exact hI.s
  · unfold GInv; rw [hf.2.2.2.2.1, hf.2.2.2.1]
    intro hp
    refine ⟨fun hd hh => ?_, runOn_ran w hI.s hI.e h q p want (hI.g hp).2 (hw hp)⟩
    rw [← (hI.g hp).1 hd hh]
    exact baseOf_stable w _ hI.s.2.1 (by rw [hf.2.2.1]; exact hI.s.2.1) hd.stmt

theorem step_inv (w : KWorld) (hI : KInv w) (op : KOp) : KInv (stepK w op) := by
  cases op with
  | session h prep =>
    simp only [stepK]
    cases hh : w.handles[h]? with
    | none => exact hI
    | some hd =>
      have hm := mem_handles w h hd hh
      cases prep with
      | true => simpa using sessionPrep_inv w hI hd hm
      | false =>
        simp only [Bool.false_eq_true, if_false]
        exact inv_add_handle w hI hd (fun hs => hI.s.2.2 hs hd hm) (fun hp => (hI.g hp).1 hd hm)
  | begin h =>
    simp only [stepK]
    cases hh : w.handles[h]? with
    | none => exact hI
    | some hd =>
      have hm := mem_handles w h hd hh
      have hb := beginPool_spec w hd.stmt
      obtain ⟨b1, b2, b3, b4, b5, b6, b7, _, _, b10⟩ := hb
      have hI' : KInv (beginPool w hd.stmt).1 := inv_congr w _ hI b1 b2 b3 b4 b5 b6 b7
      simp only []
      refine inv_add_handle _ hI' _ (fun hs => hI.s.2.2 (by rw [← b2]; exact hs) hd hm) (fun hp => ?_)
      rw [baseOf_stable w _ hI.s.2.1 hI'.s.2.1]
      cases hf : (beginPool w hd.stmt).2.2 with
      | true => simp only [hf, if_true] at b10 ⊢; exact b10
      | false =>
        simp only [hf, Bool.false_eq_true, if_false] at b10 ⊢
        rw [b10.1]
        exact (hI.g (by rw [← b7]; exact hp)).1 hd hm
  | connection h =>
    simp only [stepK]
    cases hh : w.handles[h]? with
    | none => exact hI
    | some hd =>
      have hm := mem_handles w h hd hh
      simp only []
      split
      · exact hI
      · have hI' : KInv { w with nConn := w.nConn + 1 } := inv_congr w _ hI rfl rfl rfl rfl rfl rfl rfl
        exact inv_add_handle _ hI' _ (fun hs => hI.s.2.2 hs hd hm) (fun _ => rfl)
  | endTx t => exact inv_congr w _ hI rfl rfl rfl rfl rfl rfl rfl
  | endConn c => exact inv_congr w _ hI rfl rfl rfl rfl rfl rfl rfl
  | use h q dtx =>
    simp only [stepK]
    cases hh : w.handles[h]? with
    | none => exact hI
    | some hd =>
      have hm := mem_handles w h hd hh
      have plain : KInv (runOn w h q hd.stmt hd.ghost) := runOn_inv w hI h q hd.stmt hd.ghost (fun hp => (hI.g hp).1 hd hm)
      simp only []
      cases dtx with
      | false => simpa using plain
      | true =>
        simp only [if_true]
        have hb := beginPool_spec w hd.stmt
        obtain ⟨b1, b2, b3, b4, b5, b6, b7, _, _, b10⟩ := hb
        cases hf : (beginPool w hd.stmt).2.2 with
        | false => simpa [hf] using plain
        | true =>
          simp only [hf, if_true] at b10 ⊢
          have hI' : KInv { (beginPool w hd.stmt).1 with anon := w.nTx :: (beginPool w hd.stmt).1.anon } :=
            inv_congr w _ hI b1 b2 b3 b4 b5 b6 b7
          have hr := runOn_inv _ hI' h q (beginPool w hd.stmt).2.1 (.tx w.nTx) (fun _ => by
            rw [baseOf_stable w _ hI.s.2.1 hI'.s.2.1]; exact b10)
          exact inv_congr _ _ hr rfl rfl rfl rfl rfl rfl rfl
  | reset h =>
    simp only [stepK]
    split
    · refine ⟨hI.s, ?_, hI.l, hI.g⟩
      intro e he
      exact hI.e e (List.mem_filter.mp he).1
    · exact hI

theorem run_inv (prepare : Bool) (seq : List KOp) : KInv (runK good prepare seq) := by
  unfold runK
  have : ∀ (w : KWorld), KInv w → KInv (seq.foldl stepK w) := by
    induction seq with
    | nil => intro w h; exact h
    | cons op rest ih => intro w h; exact ih _ (step_inv w h op)
  exact this _ (inv_open prepare)

end Gorm.SCK
