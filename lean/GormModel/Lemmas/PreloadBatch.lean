import GormModel.Model.PreloadBatch
import GormModel.Lemmas.Identity
namespace Gorm

/-- a filter by `p ∨ q` with p, q never both true is the two filters side by side (as a multiset) -/
theorem filter_or_perm {α : Type} (p q : α → Bool) (l : List α) (h : ∀ x ∈ l, ¬(p x = true ∧ q x = true)) :
    (l.filter (fun x => p x || q x)).Perm (l.filter p ++ l.filter q) := by
  induction l with
  | nil => simp
  | cons x t ih =>
    have iht := ih (fun y hy => h y (List.mem_cons_of_mem _ hy))
    have hx := h x (List.mem_cons_self ..)
    cases hp : p x <;> cases hq : q x
    · simpa [List.filter_cons, hp, hq] using iht
    · simp only [List.filter_cons, hp, hq, Bool.or_true, if_true, Bool.false_eq_true, if_false]
      exact (List.Perm.cons x iht).trans (List.perm_middle.symm)
    · simp only [List.filter_cons, hp, hq, Bool.or_false, if_true, Bool.false_eq_true, if_false, List.cons_append]
      exact List.Perm.cons x iht
    · exact absurd ⟨hp, hq⟩ hx

theorem runStmt_single (children : List KChild) (b : List (List KeyVal)) :
    runStmt children ⟨[b]⟩ = fetchIn children b := by
  unfold runStmt fetchIn PStmt.selects
  simp

theorem fetchIn_nil (children : List KChild) : fetchIn children [] = [] := by
  unfold fetchIn
  simp

theorem fetchIn_append_perm (children : List KChild) (a b : List (List KeyVal))
    (hd : ∀ v ∈ a, v ∉ b) :
    (fetchIn children (a ++ b)).Perm (fetchIn children a ++ fetchIn children b) := by
  have h := filter_or_perm (fun c : KChild => !c.fk.contains .nil && a.contains c.fk)
    (fun c : KChild => !c.fk.contains .nil && b.contains c.fk) children
    (by
      intro c _ hc
      simp only [Bool.and_eq_true, List.contains_iff_mem] at hc
      exact hd _ hc.1.2 hc.2.2)
  unfold fetchIn
  have he : (fun c : KChild => !c.fk.contains .nil && (a ++ b).contains c.fk) =
      (fun c : KChild => (!c.fk.contains .nil && a.contains c.fk) || (!c.fk.contains .nil && b.contains c.fk)) := by
    funext c
    cases h1 : c.fk.contains .nil <;> simp
  rw [he]
  exact h

/-- on a cloning handle the statement every batch starts from is the handle's own -/
theorem batchedFetch_cloning_cons (children : List KChild) (base : PStmt) (b : List (List KeyVal))
    (rest : List (List (List KeyVal))) :
    batchedFetch true children base (b :: rest) = runStmt children ⟨base.ins ++ [b]⟩ ++ batchedFetch true children base rest := by
  simp [batchedFetch]

theorem batched_cloning_perm (children : List KChild) (batches : List (List (List KeyVal)))
    (hn : batches.flatten.Nodup) :
    (batchedFetch true children ⟨[]⟩ batches).Perm (fetchIn children batches.flatten) := by
  induction batches with
  | nil => simp [batchedFetch, fetchIn_nil]
  | cons b rest ih =>
    rw [List.flatten_cons] at hn ⊢
    have hn' := List.nodup_append.mp hn
    have ihr := ih hn'.2.1
    rw [batchedFetch_cloning_cons]
    simp only [List.nil_append]
    rw [runStmt_single]
    have hp := fetchIn_append_perm children b rest.flatten (fun v hv hv' => hn'.2.2 v hv v hv' rfl)
    exact (List.Perm.append_left _ ihr).trans hp.symm

/-- once an IN list sits in the statement of a non-cloning handle, every later batch disjoint from it selects nothing -/
theorem batched_shared_nil (children : List KChild) (b1 : List (List KeyVal)) (rest : List (List (List KeyVal)))
    (hd : ∀ b ∈ rest, ∀ v ∈ b, v ∉ b1) (base : PStmt) (hb : b1 ∈ base.ins) :
    batchedFetch false children base rest = [] := by
  induction rest generalizing base with
  | nil => simp [batchedFetch]
  | cons b t ih =>
    simp only [batchedFetch, Bool.false_eq_true, if_false]
    have h1 : runStmt children ⟨base.ins ++ [b]⟩ = [] := by
      unfold runStmt
      rw [List.filter_eq_nil_iff]
      intro c _ hs
      unfold PStmt.selects at hs
      simp only [Bool.and_eq_true, List.all_eq_true, List.mem_append, List.mem_singleton, List.contains_iff_mem] at hs
      have hin1 := hs.2 b1 (Or.inl hb)
      have hin2 := hs.2 b (Or.inr rfl)
      exact hd b (List.mem_cons_self ..) _ hin2 hin1
    rw [h1, List.nil_append]
    exact ih (fun b' hb' => hd b' (List.mem_cons_of_mem _ hb')) ⟨base.ins ++ [b]⟩
      (List.mem_append.mpr (Or.inl hb))

theorem nodup_of_map {α β : Type} (f : α → β) : ∀ l : List α, (l.map f).Nodup → l.Nodup := by
  intro l
  induction l with
  | nil => intro _; exact List.nodup_nil
  | cons x t ih =>
    intro h
    rw [List.map_cons, List.nodup_cons] at h
    rw [List.nodup_cons]
    exact ⟨fun hx => h.1 (List.mem_map_of_mem hx), ih h.2⟩

/-! `GetIdentityFieldValuesMap` never registers a key string twice -/

def IdMap.KeysNodup (m : IdMap) : Prop := (m.groups.map (·.1)).Nodup

theorem keysNodup_insert (m : IdMap) (s : List Char) (a : Nat) (v : List KeyVal) (h : m.KeysNodup) :
    (m.insert s a v).KeysNodup := by
  unfold IdMap.insert IdMap.KeysNodup at *
  by_cases hk : m.hasKey s = true
  · simp only [hk, if_true, List.map_map]
    have he : m.groups.map ((fun g : List Char × List Nat => g.1) ∘ fun g => if g.1 == s then (g.1, g.2 ++ [a]) else g)
        = m.groups.map (·.1) := by
      apply List.map_congr_left
      intro x _
      by_cases hx : x.1 = s <;> simp [hx]
    rw [he]; exact h
  · have hk' : m.hasKey s = false := by simpa using hk
    simp only [hk', Bool.false_eq_true, if_false, List.map_append, List.map_cons, List.map_nil]
    rw [List.nodup_append]
    refine ⟨h, by simp, ?_⟩
    intro x hx y hy hxy
    simp only [List.mem_singleton] at hy
    subst hy
    subst hxy
    obtain ⟨g, hg, hgx⟩ := List.mem_map.mp hx
    unfold IdMap.hasKey at hk'
    rw [List.any_eq_false] at hk'
    exact hk' g hg (by simp [hgx])

theorem identity_keys_nodup (rows : List IdRow) : (identitySlice rows).KeysNodup := by
  unfold identitySlice
  refine foldl_idStep_inv (fun st => st.map.KeysNodup) rows ?_ rows _ (fun _ h => h) ?_
  · intro st r _ h
    rcases idStep_cases st r with ⟨_, e⟩ | ⟨_, _, e⟩ | ⟨_, _, e⟩ <;> rw [e]
    · exact h
    · exact h
    · exact keysNodup_insert _ _ _ _ h
  · simp [IdMap.KeysNodup, IdMap.empty]

end Gorm
