import GormModel.Model.Callbacks
import GormModel.Lemmas.Callbacks
import GormModel.Lemmas.CallbacksReach
import GormModel.Lemmas.CallbacksPost
import GormModel.Lemmas.CallbacksTable
/-!
  Termination / fuel adequacy: if the requested precedences (c.after before c, c before c.before) among
  the names of the table are acyclic -- witnessed by a rank function -- `sortCallback` never recurses
  deeper than (number of names) + 1, so fuel `n + 2` is never exhausted.
-/
namespace Gorm.CbL
open Gorm

theorem nodup_subset_length (l m : List String) (hn : l.Nodup) (hs : ∀ x ∈ l, x ∈ m) : l.length ≤ m.length := by
  induction l generalizing m with
  | nil => simp
  | cons x xs ih =>
    have hx : x ∈ m := hs x (by simp)
    have hnd := List.nodup_cons.mp hn
    have h1 : ∀ y ∈ xs, y ∈ m.erase x := by
      intro y hy
      have hne : y ≠ x := fun e => hnd.1 (e ▸ hy)
      exact (List.mem_erase_of_ne hne).mpr (hs y (by simp [hy]))
    have := ih (m.erase x) hnd.2 h1
    rw [List.length_erase_of_mem hx] at this
    have hpos : 0 < m.length := List.length_pos_of_mem hx
    simp only [List.length_cons]
    omega

/-- the rank respects every request stored in the table whose target satisfies the guard `G` -/
def RK (G : String → Prop) (rank : String → Nat) (st : SortSt) : Prop :=
  ∀ j, j < st.cs.size →
    ((st.cs[j]!).after ≠ "" → G (st.cs[j]!).after → rank (st.cs[j]!).after < rank (st.cs[j]!).name) ∧
    ((st.cs[j]!).before ≠ "" → G (st.cs[j]!).before → rank (st.cs[j]!).name < rank (st.cs[j]!).before)

theorem atomic_rk {names : List String} {G : String → Prop} {rank : String → Nat} (hG : ∀ s ∈ names, G s)
    {a b : SortSt} (h : Atomic names a b) (hw : WF names a) (hr : RK G rank a) : RK G rank b := by
  cases h with
  | prepend | insert | append => exact hr
  | setAfter i idx hi hne hg =>
    obtain ⟨hlt, hget, _⟩ := getRIndex_some _ _ _ hg
    have hidx : idx < a.cs.size := by rw [← hw.1]; exact hlt
    have hnm : (a.cs[idx]!).name = (a.cs[i]!).before := by rw [← hw.2 idx hidx]; exact hget
    have hGb : G (a.cs[i]!).before := hG _ (getRIndex_some_mem _ _ _ hg)
    intro j hj
    simp only [setAfter_size] at hj
    simp only [setAfter_get]
    split
    · rename_i hc
      obtain ⟨rfl, _⟩ := hc
      refine ⟨fun _ _ => ?_, (hr j hj).2⟩
      show rank (a.cs[i]!).name < rank (a.cs[j]!).name
      rw [hnm]; exact (hr i hi).2 hne hGb
    · exact hr j hj
  | setBefore i idx hi hne hg =>
    obtain ⟨hlt, hget, _⟩ := getRIndex_some _ _ _ hg
    have hidx : idx < a.cs.size := by rw [← hw.1]; exact hlt
    have hnm : (a.cs[idx]!).name = (a.cs[i]!).after := by rw [← hw.2 idx hidx]; exact hget
    have hGa : G (a.cs[i]!).after := hG _ (getRIndex_some_mem _ _ _ hg)
    intro j hj
    simp only [setBefore_size] at hj
    simp only [setBefore_get]
    split
    · rename_i hc
      obtain ⟨rfl, _⟩ := hc
      refine ⟨(hr j hj).1, fun _ _ => ?_⟩
      show rank (a.cs[j]!).name < rank (a.cs[i]!).name
      rw [hnm]; exact (hr i hi).1 hne hGa
    · exact hr j hj

theorem reach_rk {names : List String} {G : String → Prop} {rank : String → Nat} (hG : ∀ s ∈ names, G s)
    {a b : SortSt} (h : Reach names a b) (hw : WF names a) (hr : RK G rank a) : RK G rank b := by
  induction h with
  | refl => exact hr
  | step hab hat ih => exact atomic_rk hG hat (reach_wf hab hw) ih

theorem beforeBlock_err (names : List String) (i : Nat) (st : SortSt) :
    (beforeBlock names i st).2 ≠ some .fuel := by
  unfold beforeBlock
  simp only
  split
  · split
    · split <;> simp
    · split
      · split
        · simp
        · split <;> simp
      · split <;> simp
  · simp

/-- the first block never rewrites the visited callback's own `after` (that would need `before` = own name) -/
theorem beforeBlock_after_self (names : List String) (G : String → Prop) (rank : String → Nat)
    (hG : ∀ s ∈ names, G s) (i : Nat) (st : SortSt) (hw : WF names st) (hr : RK G rank st) (hi : i < st.cs.size) :
    ((beforeBlock names i st).1.cs[i]!).after = (st.cs[i]!).after := by
  unfold beforeBlock
  simp only
  split
  · rename_i hne
    split
    · split <;> rfl
    · split
      · split
        · rfl
        · split <;> rfl
      · split
        · rename_i idx hg
          simp only [setAfter_get]
          split
          · rename_i hc
            exfalso
            obtain ⟨hlt, hget, _⟩ := getRIndex_some _ _ _ hg
            have e := hc.1
            subst e
            have h1 : (st.cs[i]!).name = (st.cs[i]!).before := by
              rw [← hw.2 i hi]; exact hget
            have := (hr i hi).2 hne (hG _ (getRIndex_some_mem _ _ _ hg))
            rw [← h1] at this
            omega
          · rfl
        · rfl
  · rfl

/-- no recursion when the `after` target is already placed -/
theorem afterBlock_placed (recur : Nat → SortSt → SortRes) (names : List String) (i : Nat) (st : SortSt)
    (hp : (st.cs[i]!).after ∈ st.sorted) : (afterBlock recur names i st).2 ≠ some .fuel := by
  unfold afterBlock
  simp only
  split
  · split
    · split <;> simp
    · split
      · split
        · simp
        · split <;> simp
      · rename_i hn
        exact absurd hp ((getRIndex_none_iff _ _).mp hn)
  · simp

theorem afterBlock_nofuel (recur : Nat → SortSt → SortRes) (names : List String) (i : Nat) (st : SortSt)
    (h : ∀ idx, (st.cs[i]!).after ≠ "" → getRIndex st.sorted (st.cs[i]!).after = none →
      getRIndex names (st.cs[i]!).after = some idx →
      (recur idx (if (st.cs[idx]!).before = "" then
              ({ st with cs := setBefore st.cs idx (st.cs[i]!).name } : SortSt) else st)).2 ≠ some .fuel ∧
      ((recur idx (if (st.cs[idx]!).before = "" then
              ({ st with cs := setBefore st.cs idx (st.cs[i]!).name } : SortSt) else st)).2 = none →
        (recur i (recur idx (if (st.cs[idx]!).before = "" then
              ({ st with cs := setBefore st.cs idx (st.cs[i]!).name } : SortSt) else st)).1).2 ≠ some .fuel)) :
    (afterBlock recur names i st).2 ≠ some .fuel := by
  unfold afterBlock
  simp only
  split
  · rename_i hne
    split
    · split <;> simp
    · split
      · split
        · simp
        · split <;> simp
      · split
        · rename_i hn _ idx hg
          obtain ⟨h1, h2⟩ := h idx hne hn hg
          split
          · rename_i st1 e heq
            rw [heq] at h1; exact h1
          · rename_i st1 heq
            rw [heq] at h2; exact h2 rfl
        · simp
  · simp

theorem sortCallback_nofuel_placed (names : List String) (G : String → Prop) (rank : String → Nat)
    (hG : ∀ s ∈ names, G s) (fuel i : Nat) (st : SortSt) (hf : 1 ≤ fuel)
    (hw : WF names st) (hr : RK G rank st) (hi : i < st.cs.size) (hp : (st.cs[i]!).after ∈ st.sorted) :
    (sortCallback names fuel i st).2 ≠ some .fuel := by
  obtain ⟨f, rfl⟩ : ∃ f, fuel = f + 1 := ⟨fuel - 1, by omega⟩
  unfold sortCallback
  simp only
  have h1 := beforeBlock_reach names i st hw hi
  have he := beforeBlock_err names i st
  have ha := beforeBlock_after_self names G rank hG i st hw hr hi
  split
  · rename_i st1 e heq
    rw [heq] at he; exact he
  · rename_i st1 heq
    rw [heq] at h1 ha
    have hp1 : (st1.cs[i]!).after ∈ st1.sorted := by
      rw [ha]; exact (reach_sub h1).subset hp
    have h2 := afterBlock_placed (sortCallback names f) names i st1 hp1
    split
    · rename_i st2 e heq2
      rw [heq2] at h2; exact h2
    · rw [finalBlock_ok]; simp

theorem sortCallback_nofuel (names : List String) (G : String → Prop) (rank : String → Nat)
    (hG : ∀ s ∈ names, G s) (fuel i : Nat) (st : SortSt) (S : List String)
    (hw : WF names st) (hr : RK G rank st) (hi : i < st.cs.size) (hS : S.Nodup)
    (hSr : ∀ s ∈ S, s ∈ names ∧ rank (st.cs[i]!).name < rank s)
    (hf : names.length + 2 ≤ fuel + S.length) :
    (sortCallback names fuel i st).2 ≠ some .fuel := by
  induction fuel generalizing i st S with
  | zero =>
    have := nodup_subset_length S names hS (fun x hx => (hSr x hx).1)
    omega
  | succ f ih =>
    have hmem := hw.name_mem hi
    -- the stack extended by the visited name
    have hS' : ((st.cs[i]!).name :: S).Nodup := by
      refine List.nodup_cons.mpr ⟨?_, hS⟩
      intro hm
      have := (hSr _ hm).2
      omega
    have hlen := nodup_subset_length ((st.cs[i]!).name :: S) names hS' (by
      intro x hx
      rcases List.mem_cons.mp hx with rfl | hx
      · exact hmem
      · exact (hSr x hx).1)
    simp only [List.length_cons] at hlen
    unfold sortCallback
    simp only
    have h1 := beforeBlock_reach names i st hw hi
    have he := beforeBlock_err names i st
    split
    · rename_i st1 e heq
      rw [heq] at he; exact he
    · rename_i st1 heq
      rw [heq] at h1
      have hw1 := reach_wf h1 hw
      have hr1 := reach_rk hG h1 hw hr
      have hi1 : i < st1.cs.size := by rw [reach_size h1]; exact hi
      have hn1 : (st1.cs[i]!).name = (st.cs[i]!).name := reach_name h1 i
      have h2 : (afterBlock (sortCallback names f) names i st1).2 ≠ some .fuel := by
        apply afterBlock_nofuel
        intro idx hne hns hg
        obtain ⟨hlt, hget, _⟩ := getRIndex_some _ _ _ hg
        have hidx : idx < st1.cs.size := by rw [← hw1.1]; exact hlt
        have h0 : Reach names st1 (if (st1.cs[idx]!).before = "" then
            ({ st1 with cs := setBefore st1.cs idx (st1.cs[i]!).name } : SortSt) else st1) := by
          split
          · exact Reach.one (Atomic.setBefore st1 i idx hi1 hne hg)
          · exact Reach.refl _
        have h0a : ((if (st1.cs[idx]!).before = "" then
            ({ st1 with cs := setBefore st1.cs idx (st1.cs[i]!).name } : SortSt) else st1).cs[i]!).after
              = (st1.cs[i]!).after := by
          split
          · simp only [setBefore_get]; split <;> rfl
          · rfl
        generalize (if (st1.cs[idx]!).before = "" then
            ({ st1 with cs := setBefore st1.cs idx (st1.cs[i]!).name } : SortSt) else st1) = st0 at h0 h0a ⊢
        have hw0 := reach_wf h0 hw1
        have hr0 := reach_rk hG h0 hw1 hr1
        have hs0 := reach_size h0
        have hidx0 : idx < st0.cs.size := by rw [hs0]; exact hidx
        have hi0 : i < st0.cs.size := by rw [hs0]; exact hi1
        have hnidx : (st0.cs[idx]!).name = (st1.cs[i]!).after := by
          rw [← hw0.2 idx hidx0]; exact hget
        have hrk : rank (st1.cs[i]!).after < rank (st.cs[i]!).name := by
          have := (hr1 i hi1).1 hne (hG _ (getRIndex_some_mem _ _ _ hg))
          rwa [hn1] at this
        constructor
        · apply ih idx st0 ((st.cs[i]!).name :: S) hw0 hr0 hidx0 hS'
          · intro s hs
            rw [hnidx]
            rcases List.mem_cons.mp hs with rfl | hs
            · exact ⟨hmem, hrk⟩
            · exact ⟨(hSr s hs).1, Nat.lt_trans hrk (hSr s hs).2⟩
          · simp only [List.length_cons]; omega
        · intro hok
          have hreach := sortCallback_reach names f idx st0 hw0 hidx0
          have hpost := sortCallback_post names f idx st0 hw0 hidx0 hok
          generalize (sortCallback names f idx st0).1 = st2 at hreach hpost ⊢
          have hw2 := reach_wf hreach hw0
          have hr2 := reach_rk hG hreach hw0 hr0
          have hi2 : i < st2.cs.size := by rw [reach_size hreach]; exact hi0
          apply sortCallback_nofuel_placed names G rank hG f i st2 (by omega) hw2 hr2 hi2
          rcases hpost.2 i with hd | hd
          · rw [hd]
            -- `after` of callback i in st0 is still the target that has just been placed
            have ha0 : (st0.cs[i]!).after = (st0.cs[idx]!).name := by
              rw [hnidx]; exact h0a
            rw [ha0]; exact hpost.1
          · exact hd
      split
      · rename_i st2 e heq2
        rw [heq2] at h2; exact h2
      · rw [finalBlock_ok]; simp

theorem sortLoop_nofuel (names : List String) (G : String → Prop) (rank : String → Nat)
    (hG : ∀ s ∈ names, G s) (fuel k i : Nat) (st : SortSt) (hf : names.length + 2 ≤ fuel)
    (hw : WF names st) (hr : RK G rank st) (hi : i + k ≤ st.cs.size) :
    (sortLoop names fuel k i st).2 ≠ some .fuel := by
  induction k generalizing i st with
  | zero => simp [sortLoop]
  | succ k ih =>
    unfold sortLoop
    have h1 := sortCallback_reach names fuel i st hw (by omega)
    have hn := sortCallback_nofuel names G rank hG fuel i st [] hw hr (by omega) (by simp) (by simp) (by simpa using hf)
    split
    · rename_i st1 e heq
      rw [heq] at hn; exact hn
    · rename_i st1 heq
      rw [heq] at h1
      exact ih (i+1) st1 (reach_wf h1 hw) (reach_rk hG h1 hw hr) (by rw [reach_size h1]; omega)

/-- list form of `RK` -/
def RKlist (G : String → Prop) (rank : String → Nat) (cs : List Cb) : Prop :=
  ∀ c ∈ cs, (c.after ≠ "" → G c.after → rank c.after < rank c.name) ∧
            (c.before ≠ "" → G c.before → rank c.name < rank c.before)

theorem length_stableSortCbs (l : List Cb) : (stableSortCbs l).length = l.length := by
  have key : ∀ (l acc : List Cb), (l.foldl (fun acc x => insertBack x acc) acc).length = l.length + acc.length := by
    intro l
    induction l with
    | nil => intro acc; simp
    | cons x xs ih => intro acc; simp only [List.foldl_cons, ih, length_insertBack, List.length_cons]; omega
  simp [stableSortCbs, insertionSortRev, key]

theorem rk_init (G : String → Prop) (rank : String → Nat) (cs : List Cb) (h : RKlist G rank cs) :
    RK G rank { cs := cs.toArray, sorted := [] } := by
  intro j hj
  simp at hj
  have := h (cs[j]) (List.getElem_mem hj)
  simpa [hj] using this

theorem rk_toList (G : String → Prop) (rank : String → Nat) (st : SortSt) (h : RK G rank st) :
    RKlist G rank st.cs.toList := by
  intro c hc
  obtain ⟨j, hj, hget⟩ := List.getElem_of_mem hc
  simp at hj
  have := h j hj
  simp only [Array.getElem_toList] at hget
  simp [hj, hget] at this
  exact this

/-- TABLE LEVEL: if a rank function respects every request of the table (acyclic requests), `sortCallbacks`
    does not run out of fuel, and the rewritten table it writes back is still respected by the same rank. -/
theorem sortCallbacks_nofuel (cs0 : List Cb) (G : String → Prop) (rank : String → Nat)
    (hG : ∀ c ∈ cs0, G c.name) (hr : RKlist G rank cs0) :
    (sortCallbacks cs0).err ≠ some .fuel ∧ RKlist G rank (sortCallbacks cs0).cs := by
  have hG' : ∀ s ∈ (stableSortCbs cs0).map (·.name), G s := by
    intro s hs
    obtain ⟨c, hc, rfl⟩ := List.mem_map.mp hs
    exact hG c ((mem_stableSortCbs cs0 c).mp hc)
  have hr' : RKlist G rank (stableSortCbs cs0) := fun c hc => hr c ((mem_stableSortCbs cs0 c).mp hc)
  have hw := wf_init (stableSortCbs cs0)
  have hrk := rk_init G rank _ hr'
  have hreach := sortCallbacks_loop_reach (stableSortCbs cs0)
  have hnf := sortLoop_nofuel ((stableSortCbs cs0).map (·.name)) G rank hG' (sortFuel (stableSortCbs cs0).length)
    (stableSortCbs cs0).length 0 { cs := (stableSortCbs cs0).toArray, sorted := [] }
    (by simp [sortFuel]; omega) hw hrk (by simp)
  have hrk2 := reach_rk hG' hreach hw hrk
  unfold sortCallbacks
  simp only
  split
  · rename_i st e heq
    rw [heq] at hnf hrk2
    exact ⟨hnf, rk_toList G rank st hrk2⟩
  · rename_i st heq
    rw [heq] at hrk2
    exact ⟨by simp, rk_toList G rank st hrk2⟩

/-- HISTORY LEVEL invariant -/
theorem run_nofuel (G : String → Prop) (rank : String → Nat) (ops : List RegOp)
    (hops : ∀ op ∈ ops, G op.toCb.name ∧ RKlist G rank [op.toCb])
    (p : Proc) (errs : List (Option SortErr))
    (hp : (∀ c ∈ p.callbacks, G c.name) ∧ RKlist G rank p.callbacks) (he : ∀ e ∈ errs, e ≠ some SortErr.fuel) :
    ∀ e ∈ (ops.foldl (fun (acc : Proc × List (Option SortErr)) op =>
        let (p', e) := acc.1.apply op
        (p', acc.2 ++ [e])) (p, errs)).2, e ≠ some SortErr.fuel := by
  induction ops generalizing p errs with
  | nil => exact he
  | cons op ops ih =>
    simp only [List.foldl_cons]
    have hop := hops op (by simp)
    have hT : (∀ c ∈ compileTable { p with callbacks := p.callbacks ++ [op.toCb] }, G c.name) ∧
        RKlist G rank (compileTable { p with callbacks := p.callbacks ++ [op.toCb] }) := by
      constructor
      · intro c hc
        have := ((mem_compileTable _ c).mp hc).1
        rcases List.mem_append.mp this with h | h
        · exact hp.1 c h
        · simp at h; subst h; exact hop.1
      · intro c hc
        have := ((mem_compileTable _ c).mp hc).1
        rcases List.mem_append.mp this with h | h
        · exact hp.2 c h
        · simp at h; subst h; exact hop.2 _ (by simp)
    have hs := sortCallbacks_nofuel _ G rank hT.1 hT.2
    apply ih (fun o ho => hops o (by simp [ho]))
    · constructor
      · intro c hc
        obtain ⟨c0, hc0, hid⟩ := sortCallbacks_cs_sameId _ c hc
        rw [hid.1]; exact hT.1 c0 hc0
      · exact hs.2
    · intro e hm
      rcases List.mem_append.mp hm with h | h
      · exact he e h
      · simp at h; subst h; exact hs.1

end Gorm.CbL
