/-
  C06 round 5 — lemmas about Model/PreloadConds.lean: consuming the Preload arguments with a nil-initialised
  `inlineConds` never writes a slot that any existing slice exposes (ghost counter `writes` unchanged), for every heap,
  every argument slice and every number of conditions.
-/
import GormModel.Lemmas.Heap
import GormModel.Model.PreloadConds
namespace Gorm.PreConds
open Gorm.Heap

/-- a slice whose next `append` cannot hit a slot somebody else exposes: no spare capacity, or it ends exactly where
    the initialised part of its array ends -/
def Own (H : Heap) (s : Slice) : Prop :=
  s.cap ≤ s.len ∨ (s.arr < H.arrs.length ∧ s.off + s.len = (H.cells s.arr).length)

theorem getD_set_self {α : Type} (l : List α) (a : Nat) (v d : α) (h : a < l.length) : (l.set a v).getD a d = v := by
  simp [List.getD, h]

theorem own_nil (H : Heap) : Own H Slice.nil := Or.inl (Nat.le_refl _)

theorem appendS_own (H : Heap) (s : Slice) (c : Cell) (o : Own H s) :
    (appendS H s [c]).1.writes = H.writes ∧ Own (appendS H s [c]).1 (appendS H s [c]).2 := by
  unfold appendS
  simp only [List.isEmpty_cons, Bool.false_eq_true, if_false, List.length_singleton]
  split
  · rename_i hfit
    rcases o with o | ⟨ha, hf⟩
    · omega
    · have hw : writeFrom H s.arr (s.off + s.len) [c] = { H with arrs := H.arrs.set s.arr (H.cells s.arr ++ [c]) } := by
        simp only [writeFrom, writeAt]
        rw [if_neg (by omega), if_pos ⟨hf, ha⟩]
      rw [hw]
      refine ⟨rfl, Or.inr ⟨by simpa using ha, ?_⟩⟩
      show s.off + (s.len + 1) = (List.getD (H.arrs.set s.arr (H.cells s.arr ++ [c])) s.arr []).length
      rw [getD_set_self _ _ _ _ ha, List.length_append, List.length_singleton]
      omega
  · refine ⟨rfl, Or.inr ⟨?_, ?_⟩⟩
    · simp [alloc]
    · simp [alloc, Heap.cells]

theorem splitLoop_ext (conds : Slice) (fuel : Nat) : ∀ (H : Heap) (inl : Slice) (i : Nat),
    Ext H (splitLoop H conds inl i fuel).1 := by
  induction fuel with
  | zero => intro H inl i; exact Ext.refl H
  | succ n ih =>
    intro H inl i
    rw [splitLoop]
    split
    · exact ih _ _ _
    · exact Ext.trans (appendS_ext _ _ _) (ih _ _ _)

theorem splitLoop_own_writes (conds : Slice) (fuel : Nat) : ∀ (H : Heap) (inl : Slice) (i : Nat), Own H inl →
    (splitLoop H conds inl i fuel).1.writes = H.writes := by
  induction fuel with
  | zero => intro H inl i _; rfl
  | succ n ih =>
    intro H inl i o
    rw [splitLoop]
    split
    · exact ih _ _ _ o
    · have h := appendS_own H inl ((H.cells conds.arr).getD (conds.off + i) (.atom 0)) o
      rw [ih _ _ _ h.2, h.1]

theorem split_ext (p : Bool) (H : Heap) (conds : Slice) : Ext H (split p H conds).1 := splitLoop_ext _ _ _ _ _

theorem split_fresh_writes (H : Heap) (conds : Slice) : (split false H conds).1.writes = H.writes := by
  unfold split initInline
  exact splitLoop_own_writes _ _ _ _ _ (own_nil H)

theorem consume_ext (p : Bool) (H : Heap) (args : Slice) (assoc : List Cell) : Ext H (consume p H args assoc).1 :=
  Ext.trans (appendS_ext _ _ _) (split_ext _ _ _)

theorem consume_fresh_writes (H : Heap) (args : Slice) (assoc : List Cell) (full : args.cap ≤ args.len) :
    (consume false H args assoc).1.writes = H.writes := by
  unfold consume
  rw [split_fresh_writes, appendS_full_writes H args assoc full]

end Gorm.PreConds
