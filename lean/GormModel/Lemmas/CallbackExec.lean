/-
  Lemmas for Model/CallbackExec.lean: the run in flight (a fold over the snapshot) and the registration calls made
  from inside it.
-/
import GormModel.Model.CallbackExec
import GormModel.Lemmas.CallbackBuilder
namespace Gorm.Reent
namespace ExecL

/-! ### `performAll` -/

theorem performAll_append (r : CbRepairs) (a b : List Eff) (w : World) :
    World.performAll r w (a ++ b) =
      ((World.performAll r (World.performAll r w a).1 b).1,
       (World.performAll r w a).2 ++ (World.performAll r (World.performAll r w a).1 b).2) := by
  induction a generalizing w with
  | nil => simp [World.performAll]
  | cons e es ih =>
    simp only [List.cons_append, World.performAll]
    rw [ih]

/-- the first component of `runCbsR` does not depend on the accumulated error list -/
theorem foldl_fst_indep (r : CbRepairs) (cs : List Cb) (p : Proc) (a b : List (Option SortErr)) :
    (cs.foldl (fun (acc : Proc × List (Option SortErr)) c =>
        let (p', e) := acc.1.applyCbR r c
        (p', acc.2 ++ [e])) (p, a)).1 =
    (cs.foldl (fun (acc : Proc × List (Option SortErr)) c =>
        let (p', e) := acc.1.applyCbR r c
        (p', acc.2 ++ [e])) (p, b)).1 := by
  induction cs generalizing p a b with
  | nil => rfl
  | cons c cs ih =>
    simp only [List.foldl_cons]
    exact ih _ _ _

theorem runCbsR_nil (r : CbRepairs) (p : Proc) : (p.runCbsR r []).1 = p := rfl

theorem runCbsR_cons_fst (r : CbRepairs) (p : Proc) (c : Cb) (cs : List Cb) :
    (p.runCbsR r (c :: cs)).1 = ((p.applyCbR r c).1.runCbsR r cs).1 := by
  unfold Proc.runCbsR
  simp only [List.foldl_cons]
  exact foldl_fst_indep r cs _ _ _

/-- the registration calls made from inside a run act on each pipeline as the plain HISTORY of the calls addressed to it -/
theorem performAll_run (r : CbRepairs) (es : List Eff) (w : World) :
    (World.performAll r w es).1.run = (w.run.runCbsR r (Eff.onRun es)).1 ∧
    (World.performAll r w es).1.oth = (w.oth.runCbsR r (Eff.onOther es)).1 := by
  induction es generalizing w with
  | nil => exact ⟨rfl, rfl⟩
  | cons e es ih =>
    simp only [World.performAll]
    have h := ih (w.perform r e).1
    cases ho : e.other with
    | true =>
      have hr : (w.perform r e).1.run = w.run := by simp [World.perform, ho]
      have hoth : (w.perform r e).1.oth = (w.oth.applyCbR r e.cb).1 := by simp [World.perform, ho]
      refine ⟨?_, ?_⟩
      · rw [h.1, hr]; simp [Eff.onRun, ho]
      · rw [h.2, hoth]
        have : Eff.onOther (e :: es) = e.cb :: Eff.onOther es := by simp [Eff.onOther, ho]
        rw [this, runCbsR_cons_fst]
    | false =>
      have hr : (w.perform r e).1.run = (w.run.applyCbR r e.cb).1 := by simp [World.perform, ho]
      have hoth : (w.perform r e).1.oth = w.oth := by simp [World.perform, ho]
      refine ⟨?_, ?_⟩
      · rw [h.1, hr]
        have : Eff.onRun (e :: es) = e.cb :: Eff.onRun es := by simp [Eff.onRun, ho]
        rw [this, runCbsR_cons_fst]
      · rw [h.2, hoth]; simp [Eff.onOther, ho]

theorem performAll_errs_length (r : CbRepairs) (es : List Eff) (w : World) :
    (World.performAll r w es).2.length = es.length := by
  induction es generalizing w with
  | nil => rfl
  | cons e es ih => simp [World.performAll, ih]

/-! ### the snapshot loop -/

theorem execute_eq (r : CbRepairs) (script : Script) (l : List Nat) (st : ExecSt) :
    execute r script l st =
      { w := (World.performAll r st.w (effectsOf script l)).1,
        trace := st.trace ++ l,
        errs := st.errs ++ (World.performAll r st.w (effectsOf script l)).2 } := by
  induction l generalizing st with
  | nil => simp [execute, effectsOf, World.performAll]
  | cons h t ih =>
    have hstep : execute r script (h :: t) st = execute r script t (st.fire r script h) := rfl
    rw [hstep, ih]
    have he : effectsOf script (h :: t) = script h ++ effectsOf script t := by
      simp [effectsOf, List.flatMap_cons]
    rw [he, performAll_append]
    simp [ExecSt.fire, List.append_assoc]

/-! ### the index loop -/

/-- registration calls addressed to the OTHER pipeline leave the running pipeline alone -/
theorem performAll_other_only (r : CbRepairs) (es : List Eff) (w : World) (h : ∀ e ∈ es, e.other = true) :
    (World.performAll r w es).1.run = w.run := by
  rw [(performAll_run r es w).1]
  have : Eff.onRun es = [] := by
    unfold Eff.onRun
    rw [List.map_eq_nil_iff, List.filter_eq_nil_iff]
    intro e he
    simp [h e he]
  rw [this]
  rfl

theorem executeIndexed_eq_snapshot (r : CbRepairs) (script : Script)
    (hs : ∀ h, ∀ e ∈ script h, e.other = true) :
    ∀ (fuel i : Nat) (st : ExecSt), st.w.run.fns.length ≤ fuel + i →
      executeIndexed r script fuel i st = execute r script (st.w.run.fns.drop i) st := by
  intro fuel
  induction fuel with
  | zero =>
    intro i st hle
    have : st.w.run.fns.drop i = [] := List.drop_eq_nil_iff.mpr (by omega)
    rw [this]
    rfl
  | succ f ih =>
    intro i st hle
    unfold executeIndexed
    cases hg : st.w.run.fns[i]? with
    | none =>
      have : st.w.run.fns.drop i = [] := List.drop_eq_nil_iff.mpr (List.getElem?_eq_none_iff.mp hg)
      rw [this]
      rfl
    | some h =>
      have hlt : i < st.w.run.fns.length := (List.getElem?_eq_some_iff.mp hg).1
      have hget : st.w.run.fns[i] = h := (List.getElem?_eq_some_iff.mp hg).2
      have hdrop : st.w.run.fns.drop i = h :: st.w.run.fns.drop (i+1) := by
        rw [← hget]; exact List.drop_eq_getElem_cons hlt
      have hsame : (st.fire r script h).w.run = st.w.run := by
        simp only [ExecSt.fire]
        exact performAll_other_only r _ _ (hs h)
      simp only []
      rw [ih (i+1) (st.fire r script h) (by rw [hsame]; omega), hsame, hdrop]
      rfl

end ExecL
end Gorm.Reent
