/-
  C09 (round 4) — the primary key inside a SEPARATE updating value is data, never a condition (Model/UpdateKeys.lean).
-/
import GormModel.Model.UpdateKeysGuard
import GormModel.Lemmas.StmtReuse
namespace Gorm

/-- today's ConvertToAssignments adds a WHERE in exactly three places: the Model slice's keys and the Model value's key
    (both only when the updating value is not the Model itself), and the updating value's key in the ELSE of the
    three-disjunct test -/
theorem C09_update_where_sites :
    Gen.updateWhereSites = [
      { guards := ["!updatingValue.CanAddr() || stmt.Dest != stmt.Model",
                   "switch stmt.ReflectValue.Kind() case reflect.Slice, reflect.Array",
                   "size := stmt.ReflectValue.Len(); size > 0", "!isZero"], source := "reflect", expr := "IN" },
      { guards := ["!updatingValue.CanAddr() || stmt.Dest != stmt.Model",
                   "switch stmt.ReflectValue.Kind() case reflect.Struct",
                   "value, isZero := field.ValueOf(stmt.Context, stmt.ReflectValue); !isZero"], source := "reflect", expr := "Eq" },
      { guards := ["switch value := updatingValue.Interface().(type) default",
                   "switch updatingValue.Kind() case reflect.Struct",
                   "field := updatingSchema.LookUpField(dbName); field != nil",
                   "else(!field.PrimaryKey || !updatingValue.CanAddr() || stmt.Dest != stmt.Model)",
                   "value, isZero := field.ValueOf(stmt.Context, updatingValue); !isZero"], source := "updating", expr := "Eq" }] := by
  decide

/-- the value-key block is the ELSE of `!field.PrimaryKey || !updatingValue.CanAddr() || stmt.Dest != stmt.Model` -/
theorem C09_update_value_key_guard :
    Gen.updateValueKeyInElse = true ∧
    Gen.updateValueKeyGuard = ["!field.PrimaryKey", "!updatingValue.CanAddr()", "stmt.Dest != stmt.Model"] := by
  decide

theorem C09_update_key_code_today : updateKeyCodeOfFacts = ⟨true, true, true, true⟩ := by decide

/-- with all blocks in place and the value block restricted to `Dest == Model`, the transcription per block IS the
    statement machine's `writeKeys … .update` -/
theorem updateKeysOf_today_eq_writeKeys (cfg : StmtCfg) (vk : List Atom) (same : Bool) :
    updateKeysOf ⟨true, true, true, true⟩ cfg.modelKey vk same = writeKeys cfg .update vk same := by
  cases same <;> simp [updateKeysOf, writeKeys]

theorem finRejectedUpd_today_eq (ce : Bool) (cfg : StmtCfg) (s : StmtState) (vk : List Atom) (same : Bool) :
    finRejectedUpd ce ⟨true, true, true, true⟩ cfg s vk same = finRejected ce cfg s .update vk same := by
  simp only [finRejectedUpd, finRejected, FinKind.isWrite, Bool.true_and, finWhere, updateKeysOf_today_eq_writeKeys]

/-- the decision for an update with a separate value does not depend on that value's key -/
theorem finRejected_update_separate_value (ce : Bool) (cfg : StmtCfg) (s : StmtState) (vk : List Atom) :
    finRejected ce cfg s .update vk false = finRejected ce cfg s .update [] false := by
  simp [finRejected, finWhere, writeKeys]

/-- BLOCKS, value-key dimension: after any sequence of condition-free calls, an update on a key-less Model is rejected
    WHATEVER primary key the separate updating value carries (`Model(&T{}).Updates(T{ID: 7, …})`, a pointer, a struct of
    another type): that key is data, not a condition -/
theorem C09_blocks_update_value_key (cfg : StmtCfg) (hk : cfg.modelKey = []) (hag : cfg.allowGlobal = false)
    (ops : List StmtOp) (ho : ∀ op ∈ ops, opCondFree op = true) (vk : List Atom) :
    finRejected true cfg (stmtRun cfg StmtState.fresh ops) .update vk false = true := by
  rw [finRejected_update_separate_value]
  exact bareEW_rejected cfg hk hag _ (stmtRun_bareEW cfg hk _ ops (bareEW_fresh cfg) ho) .update rfl false

/-- … stated for the code of the tree under verification (regenerated facts) -/
theorem C09_blocks_update_value_key_current_tree (cfg : StmtCfg) (hk : cfg.modelKey = []) (hag : cfg.allowGlobal = false)
    (ops : List StmtOp) (ho : ∀ op ∈ ops, opCondFree op = true) (vk : List Atom) :
    finRejectedUpd true updateKeyCodeOfFacts cfg (stmtRun cfg StmtState.fresh ops) vk false = true := by
  rw [C09_update_key_code_today, finRejectedUpd_today_eq]
  exact C09_blocks_update_value_key cfg hk hag ops ho vk

/-- ADMITS: the value IS the keyed Model (`db.Updates(&T{ID: 7, …})`) — its key is the condition -/
theorem C09_admits_update_same_value (ce : Bool) (cfg : StmtCfg) (ops : List StmtOp) (a : Atom) (vk : List Atom)
    (hset : (stmtRun cfg StmtState.fresh ops).keys.contains "SET" = false) :
    finRejectedUpd ce updateKeyCodeOfFacts cfg (stmtRun cfg StmtState.fresh ops) (a :: vk) true = false := by
  rw [C09_update_key_code_today, finRejectedUpd_today_eq]
  exact keyed_admitted ce cfg _ (markerInv_nonempty cfg _ (stmtRun_markerInv cfg _ ops (markerInv_fresh cfg))) .update (a :: vk) true
    (by simp [writeKeys]) (fun _ => hset)

/-- COUNTEREXAMPLE for the shape `if !field.PrimaryKey { …SET… } else { …WHERE… }` (the value block NOT restricted to
    `Dest == Model`): a key-less Model, no condition at all, a separate value carrying a key — the write is NOT rejected -/
theorem C09_value_key_as_condition_counterexample :
    let cfg : StmtCfg := { soft := none, modelKey := [], allowGlobal := false }
    let key : Atom := { col := "id", kind := .eq, val := .scalar, id := 1 }
    finRejectedUpd true ⟨true, true, true, false⟩ cfg StmtState.fresh [key] false = false ∧
    finRejectedUpd true ⟨true, true, true, true⟩ cfg StmtState.fresh [key] false = true := by
  decide

/-- the ways past the guard in the handler closures (callbacks/update.go Update, callbacks/delete.go Delete): a pending
    error, and — Update only — "nothing to SET" (`ConvertToAssignments` returned no assignment; no statement is built).
    Nothing else returns before checkMissingWhereConditions: no mode flag, no early exit on DryRun -/
theorem C09_guard_bypass_returns :
    Gen.guardBypassReturns = [
      { handler := "Update", guards := ["db.Error != nil"] },
      { handler := "Update", guards := ["db.Statement.SQL.Len() == 0", "_, ok := db.Statement.Clauses[\"SET\"]; !ok",
                                        "else(set := ConvertToAssignments(db.Statement); len(set) != 0)"] },
      { handler := "Delete", guards := ["db.Error != nil"] }] := by
  decide

end Gorm
