/-
  Lemmas.AssocScope — (C08) theorems about Model.AssocScope, tied to the tree by the regenerated facts Gen.AssocScopeFacts
  (extract/gen_c08_assoc.go reads association.go):

  * along ANY chain of *DB methods that contains neither a NewDB session nor `Unscoped`, the finisher sees exactly the
    `Statement.Unscoped` of the handle the user gave (induction over the chain);
  * every finisher association.go issues on a handle derived from `association.DB` — Replace/Clear, Delete, Find, Count, the
    Updates of saveAssociation, the handle built by buildCondition — is reached through such a chain (finite regenerated
    table), so `db.Unscoped().Model(&u).Association(…)` reaches the related / join table Unscoped: Delete there is physical;
  * one `Session(&Session{NewDB: true})` on the chain loses the flag unless Config.PropagateUnscoped (counterexample).
-/
import GormModel.Model.AssocScope
import GormModel.Gen.AssocScopeFacts
import GormModel.Gen.DeleteAssocFacts
namespace Gorm
open AssocScope

namespace AssocScope

/-- a step that can change the flag -/
def changes (step : String) : Bool := step == "Unscoped" || isNewDBSession step

/-- the invariant of a neutral chain: the statement's flag is `u` and no fresh statement is pending -/
def Good (u : Bool) (h : H) : Prop := h.unscoped = u ∧ h.clone ≠ 1

theorem getInstance_good {p u : Bool} {h : H} (hg : Good u h) : Good u (getInstance p h) := by
  obtain ⟨h1, h2⟩ := hg
  simp [getInstance, h2, Good, h1]

theorem stepH_good {p u : Bool} {h : H} {step : String} (hs : changes step = false) (hg : Good u h) :
    Good u (stepH p h step) := by
  simp only [changes, Bool.or_eq_false_iff, beq_eq_false_iff_ne, ne_eq] at hs
  unfold stepH
  by_cases hsess : isSession step = true
  · simp only [hsess, if_true, hs.2]
    exact ⟨hg.1, by simp⟩
  · simp only [hsess, hs.1, if_false]
    exact getInstance_good hg

theorem runChain_good (p u : Bool) : ∀ (chain : List String) (h : H),
    (∀ s ∈ chain, changes s = false) → Good u h → Good u (runChain p h chain)
  | [], _, _, hg => hg
  | s :: cs, h, hc, hg => by
    simp only [runChain, List.foldl_cons]
    exact runChain_good p u cs _ (fun t ht => hc t (List.mem_cons_of_mem _ ht)) (stepH_good (hc s (List.mem_cons_self)) hg)

theorem runChain_append (p : Bool) (h : H) (a b : List String) :
    runChain p h (a ++ b) = runChain p (runChain p h a) b := by
  simp [runChain, List.foldl_append]

/-- the (fn, arm, finisher) triple of a regenerated site -/
def key (s : Gen.AssocScopeSite) : String × String × String := (s.fn, s.arm, s.finisher)

end AssocScope

/-- **A chain without a NewDB session keeps the user's Unscoped.**  For every chain of *DB methods none of whose steps is
    `Unscoped()` or a `Session(&Session{NewDB: …})`, every root flag `u` and either setting of Config.PropagateUnscoped: the finisher
    at the end of the chain sees `Statement.Unscoped = u`. -/
theorem C08_assoc_chain_keeps_unscoped (p u : Bool) (chain : List String)
    (h : ∀ s ∈ chain, (s == "Unscoped" || isNewDBSession s) = false) :
    finisherUnscoped p u chain = u := by
  unfold finisherUnscoped
  exact (getInstance_good (runChain_good p u chain _ h ⟨rfl, by simp⟩)).1

/-- non-vacuity: the chains association.go really uses satisfy the hypothesis … -/
example : ∀ s ∈ ["Session{}", "Model", "Clauses", "UpdateColumns"], (s == "Unscoped" || isNewDBSession s) = false := by decide
example : ∀ s ∈ ["Model", "Session{QueryFields: true}", "Clauses"], (s == "Unscoped" || isNewDBSession s) = false := by decide
/-- … and the step classifier tells the session kinds apart -/
example : isNewDBSession "Session{NewDB: true}" = true ∧ isNewDBSession "Session{Context: ctx, NewDB: true, SkipHooks: x}" = true ∧
    isNewDBSession "Session{NewDB: flag}" = true ∧ isNewDBSession "Session{NewDB: unknown(cfg)}" = true ∧
    isNewDBSession "Session{}" = false ∧ isNewDBSession "Session{QueryFields: true}" = false ∧
    isNewDBSession "Session{NewDB: false}" = false ∧ isNewDBSession "Model" = false := by decide

/-- **The sites of this tree** (regenerated from association.go on every run): no chain from `association.DB` to a finisher goes
    through a NewDB session or calls `Unscoped()`; association.go contains no `Session{NewDB: …}` literal at all; and the table is
    not empty — it has (at least) the statements that Replace/Clear, Delete, Find and Count issue on the related table / join
    table, per relationship arm, and the handle buildCondition returns. -/
theorem C08_assoc_sites_current_tree :
    (∀ s ∈ Gen.assocScopeSites, ∀ step ∈ s.chain, (step == "Unscoped" || isNewDBSession step) = false) ∧
    (∀ s ∈ Gen.assocScopeSites, s.root = "association.DB" ∧ s.chain ≠ []) ∧
    Gen.assocScopeNewDB = [] ∧
    (∀ k ∈ [("Association.Replace", "schema.HasOne, schema.HasMany", "Delete"),
            ("Association.Replace", "schema.HasOne, schema.HasMany", "UpdateColumns"),
            ("Association.Replace", "schema.Many2Many", "Delete"),
            ("Association.Replace", "schema.BelongsTo", "Delete"),
            ("Association.Replace", "schema.BelongsTo", "UpdateColumns"),
            ("Association.Delete", "schema.HasOne, schema.HasMany", "Delete"),
            ("Association.Delete", "schema.HasOne, schema.HasMany", "UpdateColumns"),
            ("Association.Delete", "schema.Many2Many", "Delete"),
            ("Association.Delete", "schema.BelongsTo", "Delete"),
            ("Association.Delete", "schema.BelongsTo", "UpdateColumns"),
            ("Association.Find", "", "Find"),
            ("Association.Count", "", "Count"),
            ("Association.saveAssociation", "reflect.Slice, reflect.Array", "Updates"),
            ("Association.saveAssociation", "reflect.Struct", "Updates"),
            ("Association.buildCondition", "", "return")],
        k ∈ Gen.assocScopeSites.map key) := by
  decide

/-- **The user's Unscoped reaches the related table.**  For every statement association.go issues on a handle derived from
    `association.DB`, whatever Config.PropagateUnscoped: the finisher sees the flag of the user's handle.  In particular after
    `db.Unscoped().Model(&u).Association(…)` (u = true) the `Delete(modelValue)` of Replace/Clear/Delete on the related table is an
    Unscoped delete — physical (`C08_mode_unscoped_delete_physical`) — and a scoped handle (u = false) keeps soft-deleting. -/
theorem C08_assoc_unscoped_reaches_related :
    ∀ (p u : Bool), ∀ s ∈ Gen.assocScopeSites, finisherUnscoped p u s.chain = u := by
  intro p u s hs
  -- (the finite fact is re-decided here rather than quoted, so that this theorem itself stops compiling when a site changes)
  have hall : ∀ s ∈ Gen.assocScopeSites, ∀ step ∈ s.chain, (step == "Unscoped" || isNewDBSession step) = false := by decide
  exact C08_assoc_chain_keeps_unscoped p u s.chain (hall s hs)

/-- … and so the kind of delete the related table gets is the one the user asked for -/
theorem C08_assoc_delete_kind :
    ∀ (p : Bool), ∀ s ∈ Gen.assocScopeSites,
      deleteKind (finisherUnscoped p true s.chain) = .physical ∧ deleteKind (finisherUnscoped p false s.chain) = .mark := by
  intro p s hs
  rw [C08_assoc_unscoped_reaches_related p true s hs, C08_assoc_unscoped_reaches_related p false s hs]
  exact ⟨rfl, rfl⟩

/-- the step "buildCondition" of Find/Count stands for the chains buildCondition returns: with those chains spliced in, the
    flag still arrives (composition of the per-site facts) -/
theorem C08_assoc_buildCondition_inlined :
    ∀ (p u : Bool), ∀ b ∈ Gen.assocScopeSites, b.fn = "Association.buildCondition" →
      ∀ s ∈ Gen.assocScopeSites, s.chain.head? = some "buildCondition" →
        finisherUnscoped p u (b.chain ++ s.chain.tail) = u := by
  intro p u b hb _ s hs _
  apply C08_assoc_chain_keeps_unscoped
  intro step hstep
  rcases List.mem_append.mp hstep with h | h
  · exact C08_assoc_sites_current_tree.1 b hb step h
  · exact C08_assoc_sites_current_tree.1 s hs step (List.mem_of_mem_tail h)

/-- **One NewDB session on the chain loses the flag** (the seeded shape `association.DB.Session(&Session{NewDB: true}).Model(
    modelValue)…Delete(modelValue)`): the user's handle is Unscoped, the finisher's statement is not — the related rows are marked,
    not removed.  With Config.PropagateUnscoped the flag survives. -/
theorem C08_assoc_newdb_counterexample :
    finisherUnscoped false true ["Session{NewDB: true}", "Model", "Where", "Delete"] = false ∧
    deleteKind (finisherUnscoped false true ["Session{NewDB: true}", "Model", "Where", "Delete"]) = .mark ∧
    finisherUnscoped true true ["Session{NewDB: true}", "Model", "Where", "Delete"] = true := by
  decide

/-- general form: a NewDB session anywhere on an otherwise neutral chain, followed by no further `Session(…)` call, yields
    `propagate && u` at the finisher -/
theorem C08_assoc_newdb_general (p u : Bool) (pre post : List String) (sess : String)
    (hpre : ∀ s ∈ pre, (s == "Unscoped" || isNewDBSession s) = false)
    (hpost : ∀ s ∈ post, (s == "Unscoped" || isSession s) = false)
    (hs : isNewDBSession sess = true) :
    finisherUnscoped p u (pre ++ sess :: post) = (p && u) := by
  unfold finisherUnscoped
  rw [runChain_append]
  have hg := runChain_good p u pre { unscoped := u, clone := 0 } hpre ⟨rfl, by simp⟩
  generalize runChain p { unscoped := u, clone := 0 } pre = h0 at hg
  have hsess : isSession sess = true := by
    simp only [isNewDBSession, Bool.and_eq_true] at hs; exact hs.1.1
  have h1 : runChain p h0 (sess :: post) = runChain p { unscoped := u, clone := 1 } post := by
    simp only [runChain, List.foldl_cons]
    congr 1
    simp [stepH, hsess, hs, hg.1]
  rw [h1]
  cases post with
  | nil => simp [runChain, getInstance]
  | cons s cs =>
    have hs0 := hpost s (List.mem_cons_self)
    simp only [Bool.or_eq_false_iff, beq_eq_false_iff_ne, ne_eq] at hs0
    have hstep : stepH p { unscoped := u, clone := 1 } s = { unscoped := p && u, clone := 0 } := by
      simp [stepH, hs0.1, hs0.2, getInstance]
    simp only [runChain, List.foldl_cons, hstep]
    have hcs : ∀ t ∈ cs, changes t = false := by
      intro t ht
      have := hpost t (List.mem_cons_of_mem _ ht)
      simp only [Bool.or_eq_false_iff] at this
      simp only [changes, Bool.or_eq_false_iff]
      refine ⟨this.1, ?_⟩
      simp [isNewDBSession, this.2]
    exact (getInstance_good (runChain_good p (p && u) cs _ hcs ⟨rfl, by simp⟩)).1

/-- a plain `Session(…)` taken from the NewDB handle before any other call undoes it (gorm.go Session resets `clone` to 2 and
    keeps the statement) -/
example : finisherUnscoped false true ["Session{NewDB: true}", "Session{}", "Model", "Delete"] = true := by decide

/-- an explicit `Unscoped()` on the chain forces the flag -/
example : finisherUnscoped false false ["Model", "Unscoped", "Delete"] = true := by decide

/-! ## `db.Select("Rel").Delete(&owner)`: callbacks/delete.go DeleteBeforeAssociations -/

/-- the arms of this tree (regenerated): both delete on a NewDB session; the has-one/has-many arm hands Unscoped on by hand,
    the many2many arm does not -/
theorem C08_delete_assoc_arms_current_tree :
    Gen.deleteAssocFound = true ∧
    Gen.deleteAssocArms.map (fun a => (a.arm, a.newDB, a.deletes)) =
      [("schema.HasOne, schema.HasMany", true, true), ("schema.Many2Many", true, true)] ∧
    (∀ a ∈ Gen.deleteAssocArms, a.arm = "schema.HasOne, schema.HasMany" → a.copiesUnscoped = true) := by
  decide

/-- **PARTIAL**: the nested Delete sees the user's flag on every arm that copies it, and on every arm when
    Config.PropagateUnscoped is set; a scoped Delete stays scoped on every arm (the related rows are marked, never removed).
    The extra hypothesis `propagate ∨ copiesUnscoped` is exactly the negation of finding F33's pattern. -/
theorem C08_delete_assoc_partial (p u : Bool) :
    ∀ a ∈ Gen.deleteAssocArms, (p = true ∨ a.copiesUnscoped = true) →
      nestedDeleteUnscoped p u a.newDB a.copiesUnscoped = u := by
  intro a _ h
  cases u <;> cases hp : p <;> cases hc : a.copiesUnscoped <;> cases a.newDB <;> simp_all [nestedDeleteUnscoped]

theorem C08_delete_assoc_scoped_stays_scoped (p : Bool) :
    ∀ a ∈ Gen.deleteAssocArms, nestedDeleteUnscoped p false a.newDB a.copiesUnscoped = false := by
  intro a _
  cases p <;> cases a.copiesUnscoped <;> cases a.newDB <;> simp [nestedDeleteUnscoped]

/-- … in particular the has-one / has-many arm of this tree: `db.Unscoped().Select("Pets").Delete(&owner)` removes the pets
    physically, `db.Select("Pets").Delete(&owner)` marks them -/
theorem C08_delete_assoc_hasmany (p u : Bool) :
    ∀ a ∈ Gen.deleteAssocArms, a.arm = "schema.HasOne, schema.HasMany" →
      deleteKind (nestedDeleteUnscoped p u a.newDB a.copiesUnscoped) = deleteKind u := by
  intro a ha harm
  rw [C08_delete_assoc_partial p u a ha (Or.inr (C08_delete_assoc_arms_current_tree.2.2 a ha harm))]

/-- **FINDING F33 (kernel-checked, the model with the copy absent)**: an arm that builds its handle on a NewDB session and does
    not copy Unscoped — the many2many arm of the unrepaired tree: under `db.Unscoped().Select("Teams").Delete(&owner)` (default
    config) the Delete of the link rows is a SCOPED one — for a soft-deletable join model the link rows are marked instead of
    removed, and already marked links are not reached.  (Stated on the model with the flag off, so that it holds on the repaired
    tree as well; `C08_delete_assoc_current_tree` says which of the two this tree is.) -/
theorem C08_delete_assoc_m2m_counterexample :
    ∃ a : Gen.DeleteAssocArm, a.arm = "schema.Many2Many" ∧ a.newDB = true ∧ a.copiesUnscoped = false ∧
      nestedDeleteUnscoped false true a.newDB a.copiesUnscoped = false ∧
      deleteKind (nestedDeleteUnscoped false true a.newDB a.copiesUnscoped) = .mark :=
  ⟨{ arm := "schema.Many2Many", newDB := true, copiesUnscoped := false, deletes := true }, by decide⟩

/-- **FULL STRENGTH (the model with the copy present on every arm — the repair of F33)**: when every deleting arm that works
    on a NewDB session copies Unscoped by hand, the nested Delete of EVERY arm sees exactly the user's flag, whatever
    Config.PropagateUnscoped says: `db.Unscoped().Select(rel).Delete(&owner)` removes the related rows / link rows physically,
    `db.Select(rel).Delete(&owner)` marks them.  No hypothesis about the arm or the configuration is left. -/
theorem C08_delete_assoc_full (arms : List Gen.DeleteAssocArm) (hall : deleteAssocAllCopy arms = true) (p u : Bool) :
    ∀ a ∈ arms, a.deletes = true →
      nestedDeleteUnscoped p u a.newDB a.copiesUnscoped = u ∧
      deleteKind (nestedDeleteUnscoped p u a.newDB a.copiesUnscoped) = deleteKind u := by
  intro a ha hd
  have h := (List.all_eq_true.mp hall) a ha
  have hu : nestedDeleteUnscoped p u a.newDB a.copiesUnscoped = u := by
    rw [hd] at h
    cases u <;> cases p <;> cases hc : a.copiesUnscoped <;> cases hn : a.newDB <;> simp_all [nestedDeleteUnscoped]
  exact ⟨hu, by rw [hu]⟩

/-- the same through the driver's entry point: on a tree whose arms all copy, a relation kind that has an arm is deleted with
    the user's flag -/
theorem C08_delete_assoc_flag_full (arms : List Gen.DeleteAssocArm) (hall : deleteAssocAllCopy arms = true)
    (hdel : ∀ a ∈ arms, a.deletes = true) (arm : String) (p u : Bool) :
    deleteAssocFlag arms arm p u = none ∨ deleteAssocFlag arms arm p u = some u := by
  unfold deleteAssocFlag
  cases hf : arms.find? (fun a => a.arm == arm) with
  | none => left; rfl
  | some a =>
    right
    have ha := List.mem_of_find?_eq_some hf
    simp [(C08_delete_assoc_full arms hall p u a ha (hdel a ha)).1]

/-- without the copy the many2many arm of ANY arm list answers "scoped" under the default configuration: the copy is necessary -/
theorem C08_delete_assoc_copy_needed (arms : List Gen.DeleteAssocArm) :
    ∀ a ∈ arms, a.newDB = true → a.copiesUnscoped = false → nestedDeleteUnscoped false true a.newDB a.copiesUnscoped = false := by
  intro a _ hn hc
  simp [nestedDeleteUnscoped, hn, hc]

/-- **THE TREE AS IT IS NOW** (regenerated arms): either every arm copies Unscoped and the nested Delete of every arm follows
    the user's flag under every configuration (F33 repaired), or the many2many arm does not and the listed witness
    `db.Unscoped().Select("Teams").Delete(&owner)` marks the link rows (F33 present) -/
theorem C08_delete_assoc_current_tree :
    Gen.deleteAssocFound = true ∧ (∀ a ∈ Gen.deleteAssocArms, a.deletes = true) ∧
    ((deleteAssocAllCopy Gen.deleteAssocArms = true ∧
        ∀ (p u : Bool), ∀ a ∈ Gen.deleteAssocArms,
          nestedDeleteUnscoped p u a.newDB a.copiesUnscoped = u ∧
          deleteKind (nestedDeleteUnscoped p u a.newDB a.copiesUnscoped) = deleteKind u) ∨
     (deleteAssocAllCopy Gen.deleteAssocArms = false ∧
        deleteAssocFlag Gen.deleteAssocArms "schema.Many2Many" false true = some false ∧
        ∃ a ∈ Gen.deleteAssocArms, a.arm = "schema.Many2Many" ∧
          deleteKind (nestedDeleteUnscoped false true a.newDB a.copiesUnscoped) = .mark)) := by
  have hdel : ∀ a ∈ Gen.deleteAssocArms, a.deletes = true := by decide
  refine ⟨by decide, hdel, ?_⟩
  by_cases h : deleteAssocAllCopy Gen.deleteAssocArms = true
  · left
    exact ⟨h, fun p u a ha => C08_delete_assoc_full _ h p u a ha (hdel a ha)⟩
  · right
    have h' : deleteAssocAllCopy Gen.deleteAssocArms = false := by simpa using h
    refine ⟨h', ?_⟩
    revert h'
    decide

end Gorm
