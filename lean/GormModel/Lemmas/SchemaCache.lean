/-
  Lemmas.SchemaCache — invariants of the schema-cache LTS (Model.SchemaCache) by induction over arbitrary schedules.
  The inductive invariant `Inv` and its frame rule live in Lemmas.SchemaCacheInv, its preservation by every
  transition in Lemmas.SchemaCacheStep.
-/
import GormModel.Model.SchemaCache
import GormModel.Lemmas.SchemaCacheInv
import GormModel.Lemmas.SchemaCacheStep
namespace Gorm.SchemaCache

theorem inv_init (c : Cfg) (progs : List (List Nat)) : Inv c (init progs) := by
  refine ⟨Nat.le_refl _, ?_, ?_, ?_, ?_, ?_, ?_, ?_, ?_⟩
  · intro o ho; exact absurd ho (Nat.not_lt_zero _)
  · intro ty o ho; cases ho
  · intro o ho; exact absurd ho (Nat.not_lt_zero _)
  · intro t; exact ⟨trivial, (by intro f hf; cases hf), fun _ => rfl, fun _ => rfl⟩
  · intro o ho; exact absurd ho (Nat.not_lt_zero _)
  · intro r hr; cases hr
  · intro g hg; cases hg
  · intro _ o; rfl

theorem inv_run (c : Cfg) : ∀ (sched : List Nat) (s : State), Inv c s → Inv c (run c s sched)
  | [], _, h => h
  | t :: ts, s, h => by
    refine inv_run c ts _ ?_
    unfold stepD
    cases hs : step c s t with
    | none => exact h
    | some s' => exact inv_step h hs

theorem inv_reach (c : Cfg) (progs : List (List Nat)) (sched : List Nat) : Inv c (run c (init progs) sched) :=
  inv_run c sched _ (inv_init c progs)

theorem rets_closed (c : Cfg) (progs : List (List Nat)) (sched : List Nat) :
    ∀ r ∈ (run c (init progs) sched).rets,
      r.closedAtRet = true ∧ ((run c (init progs) sched).objs r.obj).closed = true := by
  intro r hr
  have h := (inv_reach c progs sched).rets r hr
  exact ⟨h.car, h.closed⟩

theorem single_winner (c : Cfg) (progs : List (List Nat)) (sched : List Nat) :
    ∀ r1 ∈ (run c (init progs) sched).rets, ∀ r2 ∈ (run c (init progs) sched).rets,
      r1.ty = r2.ty → r1.err = false → r2.err = false → r1.obj = r2.obj := by
  intro r1 hr1 r2 hr2 hty he1 he2
  have hI := inv_reach c progs sched
  have h1 := hI.rets r1 hr1
  have h2 := hI.rets r2 hr2
  have o1 := h1.ok he1
  have o2 := h2.ok he2
  have c1 := (hI.closed_ok _ h1.lt h1.closed o1.1 o1.2.1).1
  have c2 := (hI.closed_ok _ h2.lt h2.closed o2.1 o2.2.1).1
  rw [o1.2.2.1, hty] at c1
  rw [o2.2.2.1, c1] at c2
  exact Option.some.inj c2

theorem returned_complete (c : Cfg) (progs : List (List Nat)) (sched : List Nat) :
    ∀ r ∈ (run c (init progs) sched).rets, r.err = false →
      ((run c (init progs) sched).objs r.obj).ty = r.ty ∧ r.nrelAtRet = (relsOf c r.ty).length := by
  intro r hr he
  have h := ((inv_reach c progs sched).rets r hr).ok he
  exact ⟨h.2.2.1, h.2.2.2⟩

/-- a thread that cannot step has finished or waits on an unclosed `initialized` -/
theorem step_none {c : Cfg} {s : State} {t : Nat} (h : step c s t = none) :
    ((s.thr t).cur = none ∧ (s.thr t).todo = []) ∨
    ∃ ty o obj, (s.thr t).cur = some ⟨ty, .wait o, obj⟩ ∧ (s.objs o).closed = false := by
  rcases hcur : (s.thr t).cur with _ | ⟨ty, pc, obj⟩
  · rcases htodo : (s.thr t).todo with _ | ⟨ty, rest⟩
    · simp
    · simp [step, hcur, htodo] at h
  · cases pc with
    | wait o =>
      simp [step, hcur] at h
      exact Or.inr ⟨ty, o, obj, rfl, h⟩
    | load1 => simp [step, hcur] at h; split at h <;> simp at h
    | load2 => simp [step, hcur] at h; split at h <;> simp at h
    | los => simp [step, hcur] at h; split at h <;> simp at h
    | tableName => simp [step, hcur] at h
    | rel k =>
      simp [step, hcur] at h
      split at h
      · simp at h
      · split at h <;> simp at h
    | relSet k fs =>
      simp [step, hcur] at h
      split at h
      · simp at h
      · split at h <;> simp at h
    | fin1 => simp [step, hcur] at h; split at h <;> simp at h
    | fin2 => simp [step, hcur] at h

/-- publication stamps strictly increase along the wait-for relation -/
theorem blocked_chain {c : Cfg} {s : State} (hI : Inv c s) (hall : ∀ t, step c s t = none)
    {t ty o obj : Nat} (hcur : (s.thr t).cur = some ⟨ty, .wait o, obj⟩) (hcl : (s.objs o).closed = false) :
    ∃ t2 ty2 o2 obj2, (s.thr t2).cur = some ⟨ty2, .wait o2, obj2⟩ ∧ (s.objs o2).closed = false ∧
      (s.objs o).stamp < (s.objs o2).stamp ∧ (s.objs o2).stamp < s.clock := by
  have P : o < s.nobj ∧ (s.objs o).stamp ≠ 0 ∧ (s.objs o).ty = ty ∧ Below s (s.thr t).susp o :=
    (hI.thr t).cur _ hcur
  have hown := hI.owner o P.1 P.2.1 hcl
  generalize (s.objs o).ownT = t2 at hown
  have hT2 := hI.thr t2
  rcases step_none (hall t2) with ⟨h1, _⟩ | ⟨ty2, o2, obj2, h1, h2⟩
  · exfalso
    have hs := hT2.idle h1
    rcases hown with ⟨f, hf, _⟩ | ⟨p, hp, _⟩
    · rw [h1] at hf; cases hf
    · rw [hs] at hp; cases hp
  · have P2 : o2 < s.nobj ∧ (s.objs o2).stamp ≠ 0 ∧ (s.objs o2).ty = ty2 ∧ Below s (s.thr t2).susp o2 :=
      hT2.cur _ h1
    rcases hown with ⟨f, hf, _, hpc⟩ | ⟨p, hp, rfl⟩
    · rw [h1] at hf; cases hf; simp [ownerPc] at hpc
    · exact ⟨t2, ty2, o2, obj2, h1, h2, P2.2.2.2 p hp, hI.stamp_lt o2 P2.1⟩

theorem no_blocked {c : Cfg} {s : State} (hI : Inv c s) (hall : ∀ t, step c s t = none) :
    ∀ (n : Nat) (t ty o obj : Nat), (s.thr t).cur = some ⟨ty, .wait o, obj⟩ → (s.objs o).closed = false →
      s.clock - (s.objs o).stamp ≤ n → False := by
  intro n
  induction n with
  | zero =>
    intro t ty o obj hcur hcl hn
    obtain ⟨t2, ty2, o2, obj2, _, _, h3, h4⟩ := blocked_chain hI hall hcur hcl
    omega
  | succ n ih =>
    intro t ty o obj hcur hcl hn
    obtain ⟨t2, ty2, o2, obj2, h1, h2, h3, h4⟩ := blocked_chain hI hall hcur hcl
    exact ih t2 ty2 o2 obj2 h1 h2 (by omega)

theorem deadlock_free (c : Cfg) (progs : List (List Nat)) (sched : List Nat) :
    (∃ t, doneT (run c (init progs) sched) t = false) → ∃ t, (step c (run c (init progs) sched) t).isSome = true := by
  have hI := inv_reach c progs sched
  generalize run c (init progs) sched = s at hI
  rintro ⟨t, ht⟩
  apply Classical.byContradiction
  intro hno
  have hall : ∀ t, step c s t = none := by
    intro t'
    cases hs : step c s t' with
    | none => rfl
    | some s' => exact absurd ⟨t', by simp [hs]⟩ hno
  rcases step_none (hall t) with ⟨h1, h2⟩ | ⟨ty, o, obj, h1, h2⟩
  · simp [doneT, h1, h2] at ht
  · exact no_blocked hI hall _ t ty o obj h1 h2 (Nat.le_refl _)

/-! ### getOrParse cache hits (`gets` log) and back references

`OnlySelfRels` (defined in Lemmas.SchemaCacheInv):
  `def OnlySelfRels (c : Cfg) : Prop := ∀ ty, ∀ r ∈ relsOf c ty, r.target = ty` -/

theorem gets_own_partial (c : Cfg) (h : OnlySelfRels c) (progs : List (List Nat)) (sched : List Nat) :
    ∀ g ∈ (run c (init progs) sched).gets, ((run c (init progs) sched).objs g.obj).ownT = g.tid := by
  intro g hg
  exact ((inv_reach c progs sched).gets g hg).own h

theorem backs_nil_partial (c : Cfg) (h : OnlySelfRels c) (progs : List (List Nat)) (sched : List Nat) :
    ∀ o, ((run c (init progs) sched).objs o).backs = [] :=
  (inv_reach c progs sched).backs h

/-- without the hypothesis: whatever getOrParse hands out was at least published (stamped) and has the requested type -/
theorem gets_published (c : Cfg) (progs : List (List Nat)) (sched : List Nat) :
    ∀ g ∈ (run c (init progs) sched).gets,
      ((run c (init progs) sched).objs g.obj).stamp ≠ 0 ∧
      ∃ r, (relsOf c g.ty)[g.k]? = some r ∧ ((run c (init progs) sched).objs g.obj).ty = r.target := by
  intro g hg
  have h := (inv_reach c progs sched).gets g hg
  exact ⟨h.stamped, h.ty⟩

end Gorm.SchemaCache
