/-
  Helper lemmas for C02 / C08 / C09 (Model/SqlBool.lean, Model/Where.lean).
-/
import GormModel.Model.Where
namespace Gorm

/-! ### Kleene connectives -/

theorem V3.and_assoc (a b c : V3) : (a.and b).and c = a.and (b.and c) := by
  cases a <;> cases b <;> cases c <;> rfl
theorem V3.or_assoc (a b c : V3) : (a.or b).or c = a.or (b.or c) := by
  cases a <;> cases b <;> cases c <;> rfl
@[simp] theorem V3.t_and (a : V3) : V3.t.and a = a := by cases a <;> rfl
@[simp] theorem V3.and_t (a : V3) : a.and .t = a := by cases a <;> rfl
@[simp] theorem V3.f_or (a : V3) : V3.f.or a = a := by cases a <;> rfl
@[simp] theorem V3.or_f (a : V3) : a.or .f = a := by cases a <;> rfl
@[simp] theorem V3.not_not (a : V3) : a.not.not = a := by cases a <;> rfl
theorem V3.and_eq_t (a b : V3) : a.and b = .t ↔ a = .t ∧ b = .t := by
  cases a <;> cases b <;> simp [V3.and]

theorem applyNegs_zero (v : V3) : applyNegs 0 v = v := by simp [applyNegs]
theorem applyNegs_succ (n : Nat) (v : V3) : applyNegs (n + 1) v = (applyNegs n v).not := by
  unfold applyNegs
  rcases Nat.mod_two_eq_zero_or_one n with h | h
  · have : (n + 1) % 2 = 1 := by omega
    simp [h, this]
  · have : (n + 1) % 2 = 0 := by omega
    simp [h, this]
theorem applyNegs_add (n m : Nat) (v : V3) : applyNegs (n + m) v = applyNegs n (applyNegs m v) := by
  induction n with
  | zero => simp [applyNegs_zero]
  | succ k ih => rw [Nat.succ_add, applyNegs_succ, applyNegs_succ, ih]

/-! ### AND-runs -/

/-- AND of the values of all items, starting from `cur` -/
def andFrom (env : Nat → V3) (cur : V3) : Flat → V3
  | [] => cur
  | (_, n, c) :: r => andFrom env (cur.and (itemVal env n c)) r

theorem andFrom_and (env : Nat → V3) (a b : V3) (f : Flat) :
    andFrom env (a.and b) f = a.and (andFrom env b f) := by
  induction f generalizing b with
  | nil => rfl
  | cons x r ih =>
    obtain ⟨j, n, c⟩ := x
    simp only [andFrom]
    rw [V3.and_assoc, ih]

/-- all joiners are AND -/
def allAnd (f : Flat) : Bool := f.all (fun i => i.1 == .and)

theorem evalRuns_allAnd (env : Nat → V3) (acc cur : V3) (a b : Flat) (h : allAnd a = true) :
    evalRuns env acc cur (a ++ b) = evalRuns env acc (andFrom env cur a) b := by
  induction a generalizing cur with
  | nil => rfl
  | cons x r ih =>
    obtain ⟨j, n, c⟩ := x
    simp only [allAnd, List.all_cons, Bool.and_eq_true, beq_iff_eq] at h
    obtain ⟨hj, hr⟩ := h
    subst hj
    simp only [List.cons_append, evalRuns, andFrom, itemVal]
    exact ih _ (by simpa [allAnd] using hr)

theorem noTopOr_cons (x : Item) (r : Flat) : noTopOr (x :: r) = allAnd r := rfl

theorem evalFlat_noTopOr (env : Nat → V3) (j : Joiner) (n : Nat) (c : Core) (r : Flat)
    (h : allAnd r = true) : evalFlat env ((j, n, c) :: r) = andFrom env (itemVal env n c) r := by
  have := evalRuns_allAnd env .f (itemVal env n c) r [] h
  simp only [List.append_nil] at this
  simp only [evalFlat]
  rw [show applyNegs n (evalCore env c) = itemVal env n c from rfl, this]
  simp [evalRuns]

/-- SPLICE LEMMA: a non-empty operand list without top-level OR written WITHOUT parentheses into any
    position of a flat list means the same as the same list written WITH parentheses. -/
theorem evalRuns_splice (env : Nat → V3) (acc cur : V3) (j : Joiner) (u post : Flat)
    (hne : u ≠ []) (h : noTopOr u = true) :
    evalRuns env acc cur (setJoin j u ++ post) = evalRuns env acc cur ((j, 0, .paren u) :: post) := by
  cases u with
  | nil => exact absurd rfl hne
  | cons x r =>
    obtain ⟨j0, n0, c0⟩ := x
    have hr : allAnd r = true := h
    have hp : evalFlat env ((j0, n0, c0) :: r) = andFrom env (itemVal env n0 c0) r :=
      evalFlat_noTopOr env j0 n0 c0 r hr
    cases j with
    | and =>
      simp only [setJoin, List.cons_append, evalRuns, evalCore, applyNegs_zero]
      rw [evalRuns_allAnd env acc _ r post hr, hp]
      rw [show applyNegs n0 (evalCore env c0) = itemVal env n0 c0 from rfl, andFrom_and]
    | or =>
      simp only [setJoin, List.cons_append, evalRuns, evalCore, applyNegs_zero]
      rw [evalRuns_allAnd env _ _ r post hr, hp]
      rfl

theorem evalFlat_splice (env : Nat → V3) (j : Joiner) (u post : Flat)
    (hne : u ≠ []) (h : noTopOr u = true) :
    evalFlat env (setJoin j u ++ post) = evalFlat env ((j, 0, .paren u) :: post) := by
  cases u with
  | nil => exact absurd rfl hne
  | cons x r =>
    obtain ⟨j0, n0, c0⟩ := x
    have hr : allAnd r = true := h
    simp only [setJoin, List.cons_append, evalFlat, evalCore, applyNegs_zero]
    rw [evalRuns_allAnd env _ _ r post hr]
    have := evalFlat_noTopOr env j0 n0 c0 r hr
    simp only [evalFlat] at this
    rw [this]
    rfl

theorem evalFlat_setJoin (env : Nat → V3) (j : Joiner) (u : Flat) :
    evalFlat env (setJoin j u) = evalFlat env u := by
  cases u with
  | nil => rfl
  | cons x r => obtain ⟨j0, n0, c0⟩ := x; rfl

/-! ### expandFlat -/

theorem setFirst_setFirst (j j' : Joiner) (n m : Nat) (f : Flat) :
    setFirst j n (setFirst j' m f) = setFirst j (n + m) f := by
  cases f with
  | nil => rfl
  | cons x r => obtain ⟨a, b, c⟩ := x; simp [setFirst, Nat.add_assoc]

theorem setJoin_setFirst (j j' : Joiner) (m : Nat) (f : Flat) :
    setJoin j (setFirst j' m f) = setFirst j m f := by
  cases f with
  | nil => rfl
  | cons x r => obtain ⟨a, b, c⟩ := x; simp [setFirst, setJoin]

theorem setJoin_append (j : Joiner) (a b : Flat) (h : a ≠ []) :
    setJoin j (a ++ b) = setJoin j a ++ b := by
  cases a with
  | nil => exact absurd rfl h
  | cons x r => obtain ⟨a1, b1, c1⟩ := x; rfl

theorem expandFlat_append (a b : Flat) : expandFlat (a ++ b) = expandFlat a ++ expandFlat b := by
  induction a with
  | nil => simp [expandFlat]
  | cons x r ih =>
    obtain ⟨j, n, c⟩ := x
    simp [expandFlat, ih, List.append_assoc]

theorem expandFlat_paren (j : Joiner) (n : Nat) (f : Flat) :
    expandFlat [(j, n, .paren f)] = [(j, n, .paren (expandFlat f))] := by
  simp [expandFlat, expandItem]

theorem expandItem_ne_nil (j : Joiner) (n : Nat) (c : Core) : expandItem j n c ≠ [] := by
  cases c with
  | atom i p t => simp [expandItem]
  | paren f => simp [expandItem]
  | splice t f =>
    simp only [expandItem]
    cases hg : expandFlat f with
    | nil => simp
    | cons y ys => obtain ⟨a1, b1, c1⟩ := y; simp [setFirst]

theorem expandItem_setJoin (j j0 : Joiner) (n : Nat) (c : Core) :
    setJoin j (expandItem j0 n c) = expandItem j n c := by
  cases c with
  | atom i p t => simp [expandItem, setJoin]
  | paren f => simp [expandItem, setJoin]
  | splice t f =>
    simp only [expandItem]
    cases hg : expandFlat f with
    | nil => simp [setJoin]
    | cons y ys => obtain ⟨a1, b1, c1⟩ := y; simp [setFirst, setJoin]

theorem expandItem_addNeg (j : Joiner) (n : Nat) (c : Core) :
    addNeg (expandItem j n c) = expandItem j (n + 1) c := by
  cases c with
  | atom i p t => simp [expandItem, addNeg]
  | paren f => simp [expandItem, addNeg]
  | splice t f =>
    simp only [expandItem]
    cases hg : expandFlat f with
    | nil => simp [addNeg]
    | cons y ys => obtain ⟨a1, b1, c1⟩ := y; simp [setFirst, addNeg]; omega

/-- expansion commutes with setting the joiner of the first item -/
theorem expandFlat_setJoin (j : Joiner) (f : Flat) :
    expandFlat (setJoin j f) = setJoin j (expandFlat f) := by
  cases f with
  | nil => simp [setJoin, expandFlat]
  | cons x r =>
    obtain ⟨j0, n0, c0⟩ := x
    show expandFlat ((j, n0, c0) :: r) = setJoin j (expandFlat ((j0, n0, c0) :: r))
    simp only [expandFlat]
    rw [setJoin_append _ _ _ (expandItem_ne_nil _ _ _), expandItem_setJoin]

/-- expansion commutes with writing one more `NOT ` in front -/
theorem expandFlat_addNeg (f : Flat) : expandFlat (addNeg f) = addNeg (expandFlat f) := by
  cases f with
  | nil => simp [addNeg, expandFlat]
  | cons x r =>
    obtain ⟨j0, n0, c0⟩ := x
    show expandFlat ((j0, n0 + 1, c0) :: r) = addNeg (expandFlat ((j0, n0, c0) :: r))
    simp only [expandFlat]
    have h := expandItem_ne_nil j0 n0 c0
    cases he : expandItem j0 n0 c0 with
    | nil => exact absurd he h
    | cons y ys =>
      have := expandItem_addNeg j0 n0 c0
      rw [he] at this
      obtain ⟨a1, b1, c1⟩ := y
      simp only [addNeg] at this
      rw [← this]; simp [addNeg]

theorem expandFlat_ne_nil_of_cons (x : Item) (r : Flat) : expandFlat (x :: r) ≠ [] := by
  obtain ⟨j, n, c⟩ := x
  simp only [expandFlat]
  intro h
  have := expandItem_ne_nil j n c
  cases he : expandItem j n c with
  | nil => exact this he
  | cons y ys => rw [he] at h; simp at h

theorem expandFlat_ne_nil (f : Flat) (h : f ≠ []) : expandFlat f ≠ [] := by
  cases f with
  | nil => exact absurd rfl h
  | cons x r => exact expandFlat_ne_nil_of_cons x r

/-! ### buildList: every member is an indivisible operand -/

/-- the meaning of an expression's own rendering, taken alone -/
def unitVal (env : Nat → V3) (e : Ex) : V3 := sqlEval env e.build

/-- THE PROPERTY's reading of a `buildExprs` list: members are indivisible, combined left to right with
    their joiners under standard precedence -/
def listSpecRuns (env : Nat → V3) (jc : Joiner) (acc cur : V3) : List Ex → V3
  | [] => acc.or cur
  | e :: r =>
    match memberJoin jc e with
    | .and => listSpecRuns env jc acc (cur.and (unitVal env e)) r
    | .or => listSpecRuns env jc (acc.or cur) (unitVal env e) r

def listSpec (env : Nat → V3) (jc : Joiner) : List Ex → V3
  | [] => .t
  | e :: r => listSpecRuns env jc .f (unitVal env e) r

/-- a member that `buildExprs` leaves without parentheses has no top-level OR; and it writes something -/
def memberSafe (e : Ex) : Prop :=
  e.build ≠ [] ∧ (wrapTest e = true ∨ noTopOr (expandFlat e.build) = true)

theorem buildList_runs (env : Nat → V3) (jc : Joiner) (es : List Ex) (acc cur : V3)
    (h : ∀ e ∈ es, memberSafe e) :
    evalRuns env acc cur (expandFlat (buildList true false jc es)) = listSpecRuns env jc acc cur es := by
  induction es generalizing acc cur with
  | nil => simp [buildList, expandFlat, evalRuns, listSpecRuns]
  | cons e r ih =>
    have he := h e (List.mem_cons_self)
    have hr : ∀ x ∈ r, memberSafe x := fun x hx => h x (List.mem_cons_of_mem _ hx)
    obtain ⟨hne, hsafe⟩ := he
    have hne' : expandFlat e.build ≠ [] := expandFlat_ne_nil _ hne
    -- both the wrapped and the spliced rendering mean: one operand with value `unitVal e`
    have key : ∀ (j : Joiner) (post : Flat),
        evalRuns env acc cur (expandFlat ((if true && wrapTest e then [(j, 0, Core.paren e.build)] else setJoin j e.build)) ++ post)
          = evalRuns env acc cur ((j, 0, .paren (expandFlat e.build)) :: post) := by
      intro j post
      by_cases hw : wrapTest e = true
      · simp [hw, expandFlat, expandItem]
      · have hs : noTopOr (expandFlat e.build) = true := by
          rcases hsafe with h1 | h1
          · exact absurd h1 hw
          · exact h1
        simp only [hw, Bool.and_false, Bool.false_eq_true, if_false]
        rw [expandFlat_setJoin]
        exact evalRuns_splice env acc cur j _ post hne' hs
    simp only [buildList, Bool.false_eq_true, if_false]
    rw [expandFlat_append, key]
    simp only [listSpecRuns, memberJoin]
    by_cases hso : e.isSingleOr = true
    · simp only [hso, if_true, evalRuns, evalCore, applyNegs_zero]
      exact ih _ _ hr
    · cases jc with
      | and =>
        simp only [hso, Bool.false_eq_true, if_false, evalRuns, evalCore, applyNegs_zero]
        exact ih _ _ hr
      | or =>
        simp only [hso, Bool.false_eq_true, if_false, evalRuns, evalCore, applyNegs_zero]
        exact ih _ _ hr

/-- MAIN LEMMA: a list of two or more members renders to the left-to-right combination of its members'
    own meanings under standard precedence -/
theorem buildList_spec (env : Nat → V3) (jc : Joiner) (es : List Ex)
    (h : ∀ e ∈ es, memberSafe e) :
    sqlEval env (buildList true true jc es) = listSpec env jc es := by
  cases es with
  | nil => simp [sqlEval, buildList, expandFlat, evalFlat, listSpec]
  | cons e r =>
    have he := h e (List.mem_cons_self)
    have hr : ∀ x ∈ r, memberSafe x := fun x hx => h x (List.mem_cons_of_mem _ hx)
    obtain ⟨hne, hsafe⟩ := he
    have hne' : expandFlat e.build ≠ [] := expandFlat_ne_nil _ hne
    simp only [sqlEval, buildList, if_true, listSpec]
    rw [expandFlat_append]
    by_cases hw : wrapTest e = true
    · simp only [hw, Bool.and_self, if_true, expandFlat_paren, List.singleton_append, evalFlat, evalCore, applyNegs_zero]
      exact buildList_runs env jc r _ _ hr
    · have hs : noTopOr (expandFlat e.build) = true := by
        rcases hsafe with h1 | h1
        · exact absurd h1 hw
        · exact h1
      simp only [hw, Bool.and_false, Bool.false_eq_true, if_false]
      rw [expandFlat_setJoin, evalFlat_splice env .and _ _ hne' hs]
      simp only [evalFlat, evalCore, applyNegs_zero]
      exact buildList_runs env jc r _ _ hr

/-- a single-member list is that member -/
theorem buildList_single (env : Nat → V3) (jc : Joiner) (e : Ex) :
    sqlEval env (buildList false true jc [e]) = unitVal env e := by
  simp only [sqlEval, buildList, Bool.false_and, Bool.false_eq_true, if_false, if_true, List.append_nil, unitVal]
  rw [expandFlat_setJoin, evalFlat_setJoin]

end Gorm

namespace Gorm

/-! ### generated comparisons -/

theorem AtomKind.pol_negate (k : AtomKind) : k.negate.pol = !k.pol := by cases k <;> rfl

def cmpVal (env : Nat → V3) (a : Atom) : V3 := if a.kind.pol then env a.id else (env a.id).not

theorem unitVal_cmp (env : Nat → V3) (a : Atom) : unitVal env (.atom a) = cmpVal env a := by
  simp [unitVal, sqlEval, Ex.build, expandFlat, expandItem, List.cons_append, List.nil_append, Atom.core, evalFlat, evalCore, applyNegs_zero, evalRuns, cmpVal]

theorem cmpVal_negate (env : Nat → V3) (a : Atom) : cmpVal env a.negate = (cmpVal env a).not := by
  unfold cmpVal
  show (if a.kind.negate.pol = true then env a.id else (env a.id).not) = _
  rw [AtomKind.pol_negate]
  cases a.kind.pol <;> simp


/-! ### lists without OR-joined members: plain conjunctions -/

def noSingleOr (l : List Ex) : Bool := l.all (fun e => !e.isSingleOr)

/-- AND of the members' own meanings, starting from `cur` -/
def andUnits (env : Nat → V3) (cur : V3) : List Ex → V3
  | [] => cur
  | e :: r => andUnits env (cur.and (unitVal env e)) r

theorem listSpecRuns_noOr (env : Nat → V3) (acc cur : V3) (l : List Ex) (h : noSingleOr l = true) :
    listSpecRuns env .and acc cur l = acc.or (andUnits env cur l) := by
  induction l generalizing cur with
  | nil => rfl
  | cons e r ih =>
    simp only [noSingleOr, List.all_cons, Bool.and_eq_true, Bool.not_eq_true'] at h
    obtain ⟨he, hr⟩ := h
    simp only [listSpecRuns, memberJoin, he, Bool.false_eq_true, if_false, andUnits]
    exact ih _ (by simpa [noSingleOr] using hr)

theorem andUnits_append (env : Nat → V3) (cur : V3) (l : List Ex) (x : Ex) :
    andUnits env cur (l ++ [x]) = (andUnits env cur l).and (unitVal env x) := by
  induction l generalizing cur with
  | nil => rfl
  | cons e r ih => simp only [List.cons_append, andUnits]; exact ih _

/-- appending an AND-joined member to a conjunction list ANDs its meaning to the whole -/
theorem listSpec_append (env : Nat → V3) (l : List Ex) (x : Ex) (hl : noSingleOr l = true) (hx : x.isSingleOr = false) :
    listSpec env .and (l ++ [x]) = (listSpec env .and l).and (unitVal env x) := by
  cases l with
  | nil => simp [listSpec, listSpecRuns]
  | cons e r =>
    have hr : noSingleOr r = true := by
      simp only [noSingleOr, List.all_cons, Bool.and_eq_true] at hl; simpa [noSingleOr] using hl.2
    have hrx : noSingleOr (r ++ [x]) = true := by
      simp only [noSingleOr, List.all_append, Bool.and_eq_true] at hr ⊢
      exact ⟨hr, by simp [hx]⟩
    simp only [List.cons_append, listSpec]
    rw [listSpecRuns_noOr _ _ _ _ hrx, listSpecRuns_noOr _ _ _ _ hr, andUnits_append]
    simp

theorem unwrapSingleAnd_of_two (a b : Ex) (r : List Ex) : unwrapSingleAnd (a :: b :: r) = a :: b :: r := by
  cases a <;> rfl

theorem swapFirst_of_head (e : Ex) (r : List Ex) (h : e.isSingleOr = false) : swapFirst (e :: r) = e :: r := by
  simp [swapFirst, firstNonSingleOr, h]

end Gorm
