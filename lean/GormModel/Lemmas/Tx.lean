/-
  Lemmas about Model/Tx.lean: frame properties of the driver layer and of gorm's transaction API,
  then (by mutual induction over program trees) of whole programs.
-/
import GormModel.Model.Tx
namespace Gorm.Tx

/-! ### what an operation issued on a transaction handle may touch -/

/-- committed store untouched, the transaction stays open/closed as it was -/
def TxFrame (db db' : DB) : Prop :=
  db'.committed = db.committed ∧ db'.tx.isSome = db.tx.isSome

theorem TxFrame.refl (db : DB) : TxFrame db db := ⟨rfl, rfl⟩
theorem TxFrame.trans {a b c : DB} (h1 : TxFrame a b) (h2 : TxFrame b c) : TxFrame a c :=
  ⟨h2.1.trans h1.1, h2.2.trans h1.2⟩

theorem markStale_frame (h : Handle) (db : DB) : TxFrame db (markStale h db) := by
  unfold markStale; split <;> exact ⟨rfl, rfl⟩

@[simp] theorem markStale_committed (h : Handle) (db : DB) : (markStale h db).committed = db.committed := (markStale_frame h db).1
@[simp] theorem markStale_tx (h : Handle) (db : DB) : (markStale h db).tx = db.tx := by
  unfold markStale; split <;> rfl
@[simp] theorem markStale_calls (h : Handle) (db : DB) : (markStale h db).calls = db.calls := by
  unfold markStale; split <;> rfl

theorem drvExecTx_frame (o : Oracle) (w : Write) (db : DB) : TxFrame db (drvExecTx o w db).1 := by
  unfold drvExecTx tick
  split
  · exact ⟨rfl, rfl⟩
  · rename_i t ht
    dsimp only
    split
    · exact ⟨rfl, by simp [ht]⟩
    · split <;> exact ⟨rfl, by simp [ht]⟩

theorem drvQueryTx_frame (o : Oracle) (cond : List Nat) (db : DB) : TxFrame db (drvQueryTx o cond db).1 := by
  unfold drvQueryTx tick
  split
  · exact ⟨rfl, rfl⟩
  · rename_i t ht
    dsimp only
    split <;> exact ⟨rfl, by simp [ht]⟩

theorem drvSavepoint_frame (o : Oracle) (n : SpName) (db : DB) : TxFrame db (drvSavepoint o n db).1 := by
  unfold drvSavepoint tick
  split
  · exact ⟨rfl, rfl⟩
  · rename_i t ht
    dsimp only
    split <;> exact ⟨rfl, by simp [ht]⟩

theorem drvRollbackTo_frame (o : Oracle) (n : SpName) (db : DB) : TxFrame db (drvRollbackTo o n db).1 := by
  unfold drvRollbackTo tick
  split
  · exact ⟨rfl, rfl⟩
  · rename_i t ht
    dsimp only
    split
    · exact ⟨rfl, by simp [ht]⟩
    · split <;> exact ⟨rfl, by simp [ht]⟩

theorem execRawTx_frame (h : Handle) (call : DB → DB × Err) (db : DB)
    (hc : ∀ d, TxFrame d (call d).1) : TxFrame db (execRawTx h call db).1 := by
  unfold execRawTx; split
  · exact hc db
  · exact TxFrame.refl db

theorem gormSavePoint_frame (o : Oracle) (h : Handle) (n : SpName) (db : DB) :
    TxFrame db (gormSavePoint o h n db).1 := by
  unfold gormSavePoint; exact execRawTx_frame h _ db (drvSavepoint_frame o n)

theorem gormRollbackTo_frame (o : Oracle) (h : Handle) (n : SpName) (db : DB) :
    TxFrame db (gormRollbackTo o h n db).1 := by
  unfold gormRollbackTo; exact execRawTx_frame h _ db (drvRollbackTo_frame o n)

@[simp] theorem gormSavePoint_pool (o : Oracle) (h : Handle) (n : SpName) (db : DB) :
    (gormSavePoint o h n db).2.pool = h.pool := rfl
@[simp] theorem gormRollbackTo_pool (o : Oracle) (h : Handle) (n : SpName) (db : DB) :
    (gormRollbackTo o h n db).2.pool = h.pool := rfl

/-- COMMIT and ROLLBACK always end the driver transaction (and release the connection), whatever the oracle does -/
@[simp] theorem drvCommit_tx (o : Oracle) (db : DB) : (drvCommit o db).1.tx = none := by
  unfold drvCommit tick; split
  · assumption
  · dsimp only; split <;> rfl

@[simp] theorem drvRollback_tx (db : DB) : (drvRollback db).1.tx = none := by
  unfold drvRollback; split
  · assumption
  · rfl

@[simp] theorem drvRollback_committed (db : DB) : (drvRollback db).1.committed = db.committed := by
  unfold drvRollback tickR; split <;> rfl

theorem gormCommit_tx (o : Oracle) (h : Handle) (db : DB) (hp : h.pool.isCommitter = true) :
    (gormCommit o h db).1.tx = none := by
  unfold gormCommit; cases hpool : h.pool <;> simp_all [Pool.isCommitter]

theorem gormRollback_tx (h : Handle) (db : DB) (hp : h.pool.isCommitter = true) :
    (gormRollback h db).1.tx = none := by
  unfold gormRollback; cases hpool : h.pool <;> simp_all [Pool.isCommitter]

theorem gormRollback_committed (h : Handle) (db : DB) :
    (gormRollback h db).1.committed = db.committed := by
  unfold gormRollback; cases hpool : h.pool <;> simp

theorem addError_ne_nil (cur e : Err) (he : e ≠ []) : addError cur e ≠ [] := by
  unfold addError; simp [he]; split
  · exact he
  · intro h; simp_all

/-- Begin on a transaction handle: no driver call, an error (ErrInvalidTransaction, or — repaired Begin — the one the
    handle already carried) -/
theorem gormBegin_committer (g : Bool) (o : Oracle) (h : Handle) (db : DB) (hp : h.pool.isCommitter = true) :
    (gormBegin g o h db).1 = db ∧ (gormBegin g o h db).2.err ≠ [] := by
  unfold gormBegin
  split
  · rename_i hg; exact ⟨rfl, by simpa [beginH] using hg.2⟩
  · cases hpool : h.pool <;> simp_all [Pool.isCommitter, beginH]
    all_goals exact addError_ne_nil _ _ (by simp)

/-- Begin through a clean handle is the same with and without the early return -/
theorem gormBegin_clean (g : Bool) (o : Oracle) (h : Handle) (db : DB) (he : h.err = []) :
    gormBegin g o h db = gormBegin false o h db := by
  unfold gormBegin; simp [he]

/-- Begin on the pool (clean handle): the new handle is a transaction handle; if it carries an error, BEGIN failed and no
    transaction was opened -/
theorem gormBegin_root (g : Bool) (o : Oracle) (h : Handle) (db : DB) (hp : h.pool.isCommitter = false) (he : h.err = []) :
    (gormBegin g o h db).2.pool.isCommitter = true ∧ (gormBegin g o h db).1.committed = db.committed ∧
    ((gormBegin g o h db).2.err ≠ [] → (gormBegin g o h db).1.tx = db.tx) := by
  rw [gormBegin_clean g o h db he]
  unfold gormBegin drvBeginVia drvBegin tick
  cases hpool : h.pool <;> simp_all [Pool.isCommitter, addError, beginH] <;> split <;> simp_all

@[simp] theorem drvBeginOrphan_tx (o : Oracle) (db : DB) : (drvBeginOrphan o db).1.tx = db.tx := by
  unfold drvBeginOrphan tick; dsimp only; split <;> rfl
@[simp] theorem drvBeginOrphan_committed (o : Oracle) (db : DB) : (drvBeginOrphan o db).1.committed = db.committed := by
  unfold drvBeginOrphan tick; dsimp only; split <;> rfl

/-- Begin through a handle that carries an error: the new handle carries one, the reachable transaction slot and the
    committed store are untouched (whether the pool was reached — an orphan — or not) -/
theorem gormBegin_failed (g : Bool) (o : Oracle) (h : Handle) (db : DB) (he : h.err ≠ []) :
    (gormBegin g o h db).2.err ≠ [] ∧ (gormBegin g o h db).1.tx = db.tx ∧ (gormBegin g o h db).1.committed = db.committed := by
  unfold gormBegin
  split
  · exact ⟨by simpa [beginH] using he, rfl, rfl⟩
  · have hn : ∀ e, addError h.err e ≠ [] := fun e => by
      unfold addError; split
      · exact he
      · simp [he]
    unfold drvBeginVia
    cases hpool : h.pool <;> simp [he, beginH, hn]

theorem gormWrite_frame (c : Cfg) (o : Oracle) (h : Handle) (w : Write) (db : DB) (hp : h.pool.isCommitter = true) :
    TxFrame db (gormWrite c o h w db).1 := by
  unfold gormWrite
  dsimp only
  split
  · exact TxFrame.refl db
  · exact drvExecTx_frame o _ db

theorem gormQuery_frame (o : Oracle) (h : Handle) (db : DB) (hp : h.pool.isCommitter = true) :
    TxFrame db (gormQuery o h db).1 := by
  unfold gormQuery
  split
  · exact TxFrame.refl db
  · exact drvQueryTx_frame o _ db

/-- an implicit-transaction write on the pool ends with no transaction open, whatever fails -/
theorem gormWrite_root_tx (c : Cfg) (o : Oracle) (h : Handle) (w : Write) (db : DB)
    (hp : h.pool.isCommitter = false) (hd : db.tx = none) :
    (gormWrite c o h w db).1.tx = none := by
  by_cases he : h.err = []
  case neg => unfold gormWrite; simp [he, hd]
  unfold gormWrite
  simp only [he, ne_eq, not_true_eq_false, if_false, hp, Bool.false_eq_true]
  split
  · unfold drvExecPool tick; dsimp only; split
    · exact hd
    · split <;> exact hd
  · have hb := gormBegin_root c.beginGuard o h db hp he
    generalize gormBegin c.beginGuard o h db = b at hb
    obtain ⟨db1, tx⟩ := b
    dsimp only at hb ⊢
    split
    · rename_i hne; rw [hb.2.2 hne]; exact hd
    · generalize drvExecTx o (effWrite h.effCond w) db1 = e
      obtain ⟨db2, e⟩ := e
      split
      · exact gormRollback_tx tx db2 hb.1
      · exact gormCommit_tx o tx db2 hb.1

theorem gormQuery_root_tx (o : Oracle) (h : Handle) (db : DB) (hp : h.pool.isCommitter = false) :
    (gormQuery o h db).1.tx = db.tx := by
  unfold gormQuery; split
  · rfl
  · simp only [hp, Bool.false_eq_true, if_false]; unfold drvQueryPool tick; dsimp only; split <;> rfl

@[simp] theorem fnEnd_tx (h : Handle) (r : Res) (out : Out) (tag : Nat) (db : DB) : (fnEnd h r out tag db).1.tx = db.tx := by
  unfold fnEnd; split
  · dsimp only; split <;> simp
  · rfl
@[simp] theorem fnEnd_committed (h : Handle) (r : Res) (out : Out) (tag : Nat) (db : DB) :
    (fnEnd h r out tag db).1.committed = db.committed := by
  unfold fnEnd; split
  · dsimp only; split <;> simp
  · rfl

/-- whatever the function did and whatever fails: after the top-level branch of Transaction no driver transaction is open -/
theorem finishRoot_tx (o : Oracle) (h : Handle) (out : Out) (tag : Nat) (x : DB × Handle × Res)
    (hp : x.2.1.pool.isCommitter = true) : (finishRoot o h out tag x).1.tx = none ∧ (finishRoot o h out tag x).2.1 = h := by
  obtain ⟨db, tx, r⟩ := x
  unfold finishRoot
  dsimp only at hp ⊢
  generalize fnEnd tx r out tag db = fe
  obtain ⟨db1, r1⟩ := fe
  dsimp only
  have hc : (gormCommit o tx db1).2.pool.isCommitter = true := by
    unfold gormCommit; cases hpool : tx.pool <;> simp_all [Pool.isCommitter]
  split
  · split
    · exact ⟨gormRollback_tx _ _ hc, rfl⟩
    · exact ⟨gormCommit_tx o tx db1 hp, rfl⟩
  · exact ⟨gormRollback_tx _ _ hp, rfl⟩

theorem finishRoot_tx' (o : Oracle) (h : Handle) (out : Out) (tag : Nat) (x : DB × Handle × Res) :
    True ∧ (finishRoot o h out tag x).2.1 = h := by
  obtain ⟨db, tx, r⟩ := x
  unfold finishRoot
  dsimp only
  generalize fnEnd tx r out tag db = fe
  obtain ⟨db1, r1⟩ := fe
  dsimp only
  refine ⟨trivial, ?_⟩
  split
  · split <;> rfl
  · rfl

theorem finishMan_tx' (o : Oracle) (h : Handle) (fin : Fin) (x : DB × Handle × Res) :
    True ∧ (finishMan o h fin x).2.1 = h := by
  obtain ⟨db, tx, r⟩ := x
  unfold finishMan
  dsimp only
  refine ⟨trivial, ?_⟩
  split
  · split <;> rfl
  · rfl

theorem finishMan_tx (o : Oracle) (h : Handle) (fin : Fin) (x : DB × Handle × Res)
    (hp : x.2.1.pool.isCommitter = true) : (finishMan o h fin x).1.tx = none ∧ (finishMan o h fin x).2.1 = h := by
  obtain ⟨db, tx, r⟩ := x
  unfold finishMan
  dsimp only at hp ⊢
  split
  · split
    · exact ⟨gormCommit_tx o tx _ hp, rfl⟩
    · exact ⟨gormRollback_tx tx _ hp, rfl⟩
  · exact ⟨gormRollback_tx _ _ hp, rfl⟩

theorem finishNested_frame (o : Oracle) (h1 : Handle) (name : SpName) (out : Out) (tag : Nat) (x : DB × Handle × Res) :
    TxFrame x.1 (finishNested o h1 name out tag x).1 ∧ (finishNested o h1 name out tag x).2.1.pool = h1.pool := by
  obtain ⟨db, inner, r⟩ := x
  unfold finishNested
  dsimp only
  have h1 : TxFrame db (fnEnd inner r out tag db).1 := ⟨by simp, by simp⟩
  generalize fnEnd inner r out tag db = fe at h1
  obtain ⟨db1, r1⟩ := fe
  dsimp only at h1 ⊢
  split
  · exact ⟨h1, rfl⟩
  · exact ⟨h1.trans (gormRollbackTo_frame o _ name db1), rfl⟩

theorem finishDis_frame (h : Handle) (out : Out) (tag : Nat) (x : DB × Handle × Res) :
    TxFrame x.1 (finishDis h out tag x).1 ∧ (finishDis h out tag x).2.1 = h := by
  obtain ⟨db, inner, r⟩ := x
  unfold finishDis
  exact ⟨⟨by simp, by simp⟩, rfl⟩

/-- deriving a handle (Session / WithContext / Debug / chain method) never changes which KIND of pool it runs on:
    a handle derived from a transaction handle is a transaction handle -/
@[simp] theorem derive_isCommitter (k : Derive) (h : Handle) : (derive k h).pool.isCommitter = h.pool.isCommitter := by
  cases k <;> cases hp : h.pool <;> simp [derive, hp, Pool.isCommitter]
@[simp] theorem derive_err (k : Derive) (h : Handle) : (derive k h).err = h.err := by
  cases k <;> rfl

@[simp] theorem failH_pool (o : Oracle) (src : FailSrc) (h : Handle) (db : DB) : (failH o src h db).2.pool = h.pool := by
  cases src <;> simp [failH, derive]
theorem gormMiss_tick (o : Oracle) (h : Handle) (db : DB) :
    (gormMiss o h db).1 = db ∨ (gormMiss o h db).1 = (tick o .Q db).1 := by
  unfold gormMiss; split
  · exact Or.inl rfl
  · split
    · exact Or.inl rfl
    · exact Or.inr rfl
@[simp] theorem gormMiss_tx (o : Oracle) (h : Handle) (db : DB) : (gormMiss o h db).1.tx = db.tx := by
  rcases gormMiss_tick o h db with h1 | h1 <;> rw [h1] <;> rfl
@[simp] theorem gormMiss_committed (o : Oracle) (h : Handle) (db : DB) : (gormMiss o h db).1.committed = db.committed := by
  rcases gormMiss_tick o h db with h1 | h1 <;> rw [h1] <;> rfl
@[simp] theorem failH_tx (o : Oracle) (src : FailSrc) (h : Handle) (db : DB) : (failH o src h db).1.tx = db.tx := by
  cases src <;> simp [failH]
@[simp] theorem failH_committed (o : Oracle) (src : FailSrc) (h : Handle) (db : DB) :
    (failH o src h db).1.committed = db.committed := by
  cases src <;> simp [failH]
theorem failH_frame (o : Oracle) (src : FailSrc) (h : Handle) (db : DB) : TxFrame db (failH o src h db).1 :=
  ⟨by simp, by simp⟩

@[simp] theorem nestH_pool (h : Handle) : (nestH h).pool = h.pool := rfl
@[simp] theorem nestH_err (h : Handle) : (nestH h).err = h.err := rfl
@[simp] theorem spErr_nil (h : Handle) (he : h.err = []) : spErr h [] = [] := by
  unfold spErr addError; simp [he]

@[simp] theorem gormRollback_pool (h : Handle) (db : DB) : (gormRollback h db).2.pool = h.pool := by
  unfold gormRollback; split <;> rfl
@[simp] theorem gormCommit_pool (o : Oracle) (h : Handle) (db : DB) : (gormCommit o h db).2.pool = h.pool := by
  unfold gormCommit; split <;> rfl

theorem noEndBody_cons (p : Prog) (ps : List Prog) : noEndBody (p :: ps) = (noEndChild p && noEndBody ps) := by
  rw [noEndBody]
theorem noEndChild_blk (body : List Prog) (out : Out) (tag : Nat) (m : Bool) :
    noEndChild (.blk body out tag m) = noEndBody body := by rw [noEndChild]
theorem noEndChild_man (body : List Prog) (fin : Fin) (m : Bool) :
    noEndChild (.man body fin m) = noEndBody body := by rw [noEndChild]
theorem noEndChild_dv (k : Derive) (body : List Prog) (m : Bool) :
    noEndChild (.dv k body m) = noEndBody body := by rw [noEndChild]
theorem noEndChild_fh (src : FailSrc) (body : List Prog) (m : Bool) :
    noEndChild (.fh src body m) = noEndBody body := by rw [noEndChild]

/-- the part of `TxFrame` that holds for EVERY program run on a transaction handle — the committed store is untouched —
    plus, when nothing ends the transaction underneath the function (`ne`), the transaction stays open/closed as it was -/
def CFrame (ne : Bool) (db db' : DB) : Prop :=
  db'.committed = db.committed ∧ (ne = true → db'.tx.isSome = db.tx.isSome)

theorem TxFrame.toC {db db' : DB} (h : TxFrame db db') (ne : Bool) : CFrame ne db db' := ⟨h.1, fun _ => h.2⟩
theorem CFrame.toTx {db db' : DB} (h : CFrame true db db') : TxFrame db db' := ⟨h.1, h.2 rfl⟩
theorem CFrame.refl (ne : Bool) (db : DB) : CFrame ne db db := ⟨rfl, fun _ => rfl⟩
theorem CFrame.trans {ne : Bool} {a b c : DB} (h1 : CFrame ne a b) (h2 : CFrame ne b c) : CFrame ne a c :=
  ⟨h2.1.trans h1.1, fun hn => (h2.2 hn).trans (h1.2 hn)⟩
theorem CFrame.weaken {ne ne' : Bool} {a b : DB} (hh : ne' = true → ne = true) (h : CFrame ne a b) : CFrame ne' a b :=
  ⟨h.1, fun hn => h.2 (hh hn)⟩

/-- What one statement of a function body may do, by kind of handle:
    * the handle keeps its pool;
    * on a transaction handle: the committed store is untouched (ALL programs) and — unless the program ends the transaction
      underneath the function (`ne` = the program has no `.endtx` node) — the driver transaction stays as it was (open);
    * on a pool handle (clean OR carrying an error) with no transaction open: no transaction that a handle could still reach
      is open afterwards (orphans are counted in `leaked`, see `runChild_leak`), and a clean handle stays clean. -/
def ChildFrame (ne : Bool) (h : Handle) (db : DB) (r : DB × Handle × Res) : Prop :=
  r.2.1.pool = h.pool ∧
  (h.pool.isCommitter = true → CFrame ne db r.1) ∧
  (h.pool.isCommitter = false → db.tx = none → r.1.tx = none ∧ (h.err = [] → r.2.1.err = []))

theorem ChildFrame.weaken {ne ne' : Bool} {h : Handle} {db : DB} {r : DB × Handle × Res} (hh : ne' = true → ne = true)
    (x : ChildFrame ne h db r) : ChildFrame ne' h db r :=
  ⟨x.1, fun hp => (x.2.1 hp).weaken hh, x.2.2⟩

mutual
theorem runChild_frame (c : Cfg) (o : Oracle) : ∀ (p : Prog) (h : Handle) (db : DB),
    wfChild h.pool.isCommitter p = true → ChildFrame (noEndChild p) h db (runChild c o h p db)
  | .write w m, h, db, _ => by
    unfold runChild
    refine ⟨rfl, fun hp => ((markStale_frame h db).trans (gormWrite_frame c o h w _ hp)).toC _, fun hp hd => ⟨?_, id⟩⟩
    exact gormWrite_root_tx c o h w _ hp (by simpa using hd)
  | .read m, h, db, _ => by
    unfold runChild
    refine ⟨rfl, fun hp => ((markStale_frame h db).trans (gormQuery_frame o h _ hp)).toC _, fun hp hd => ⟨?_, id⟩⟩
    rw [gormQuery_root_tx o h _ hp]; simpa using hd
  | .sp n m, h, db, hwf => by
    unfold runChild
    refine ⟨rfl, fun _ => ((markStale_frame h db).trans (gormSavePoint_frame o h _ _)).toC _, fun hp => ?_⟩
    simp [wfChild, hp] at hwf
  | .rb n m, h, db, hwf => by
    unfold runChild
    refine ⟨rfl, fun _ => ((markStale_frame h db).trans (gormRollbackTo_frame o h _ _)).toC _, fun hp => ?_⟩
    simp [wfChild, hp] at hwf
  | .endtx m, h, db, hwf => by
    unfold runChild
    refine ⟨gormRollback_pool _ _, fun _ => ⟨?_, fun hne => by simp [noEndChild] at hne⟩, fun hp => ?_⟩
    · dsimp only; rw [gormRollback_committed]; simp
    · simp [wfChild, hp] at hwf
  | .blk body out tag m, h, db, hwf => by
    have hwb : wfBody true body = true := by simpa [wfChild] using hwf
    rw [noEndChild_blk]
    unfold runChild
    dsimp only
    by_cases hp : h.pool.isCommitter = true
    · simp only [hp, if_true]
      refine ⟨?_, fun _ => ?_, fun hf => by simp [hp] at hf⟩
      · split
        · split
          · rfl
          · exact (finishNested_frame o _ _ out tag _).2
        · rw [(finishDis_frame h out tag _).2]
      · split
        · have hs := ((markStale_frame h db).trans
            (gormSavePoint_frame o h (SpName.auto (markStale h db).calls) (markStale h db))).toC (noEndBody body)
          split
          · exact hs
          · have ih := runBody_frame c o body
              (nestH (gormSavePoint o h (SpName.auto (markStale h db).calls) (markStale h db)).2)
              (gormSavePoint o h (SpName.auto (markStale h db).calls) (markStale h db)).1 (by simpa [hp] using hwb)
            exact (hs.trans (ih.2.1 (by simpa using hp))).trans ((finishNested_frame o _ _ out tag _).1.toC _)
        · have ih := runBody_frame c o body (nestH h) (markStale h db) (by simpa [hp] using hwb)
          exact (((markStale_frame h db).toC _).trans (ih.2.1 hp)).trans ((finishDis_frame h out tag _).1.toC _)
    · have hp' : h.pool.isCommitter = false := by simpa using hp
      simp only [hp', Bool.false_eq_true, if_false]
      refine ⟨?_, fun hf => by simp [hp'] at hf, fun _ hd => ?_⟩
      · split
        · rfl
        · exact congrArg Handle.pool (finishRoot_tx' o h out tag _).2
      · by_cases he : h.err = []
        case neg =>
          have hb := gormBegin_failed c.beginGuard o h (markStale h db) he
          rw [if_pos hb.1]
          exact ⟨by rw [hb.2.1]; simpa using hd, id⟩
        have hb := gormBegin_root c.beginGuard o h (markStale h db) hp' he
        split
        · rename_i hne
          exact ⟨by rw [hb.2.2 hne]; simpa using hd, id⟩
        · have ih := runBody_frame c o body (gormBegin c.beginGuard o h (markStale h db)).2 (gormBegin c.beginGuard o h (markStale h db)).1
            (by simpa [hb.1] using hwb)
          have hpool : (runBody c o (gormBegin c.beginGuard o h (markStale h db)).2 body (gormBegin c.beginGuard o h (markStale h db)).1).2.1.pool.isCommitter = true := by
            rw [ih.1]; exact hb.1
          have hf := finishRoot_tx o h out tag _ hpool
          exact ⟨hf.1, by rw [hf.2]; exact id⟩
  | .dv k body m, h, db, hwf => by
    have hwb : wfBody (derive k h).pool.isCommitter body = true := by
      rw [derive_isCommitter]; simpa [wfChild] using hwf
    have ih := runBody_frame c o body (derive k h) (markStale h db) hwb
    rw [noEndChild_dv]
    unfold runChild
    generalize runBody c o (derive k h) body (markStale h db) = r at ih
    obtain ⟨db1, h1, r1⟩ := r
    dsimp only at ih ⊢
    refine ⟨rfl, fun hp => ((markStale_frame h db).toC _).trans (ih.2.1 (by rw [derive_isCommitter]; exact hp)), fun hp hd => ?_⟩
    exact ⟨(ih.2.2 (by rw [derive_isCommitter]; exact hp) (by simpa using hd)).1, id⟩
  | .fh src body m, h, db, hwf => by
    have hwb : wfBody (failH o src h (markStale h db)).2.pool.isCommitter body = true := by
      rw [failH_pool]; simpa [wfChild] using hwf
    have ih := runBody_frame c o body (failH o src h (markStale h db)).2 (failH o src h (markStale h db)).1 hwb
    rw [noEndChild_fh]
    unfold runChild
    generalize runBody c o (failH o src h (markStale h db)).2 body (failH o src h (markStale h db)).1 = r at ih
    obtain ⟨db1, h1, r1⟩ := r
    dsimp only at ih ⊢
    refine ⟨rfl, fun hp => (((markStale_frame h db).trans (failH_frame o src h _)).toC _).trans
      (ih.2.1 (by rw [failH_pool]; exact hp)), fun hp hd => ?_⟩
    exact ⟨(ih.2.2 (by rw [failH_pool]; exact hp) (by simpa using hd)).1, id⟩
  | .man body fin m, h, db, hwf => by
    have hwb : wfBody true body = true := by simpa [wfChild] using hwf
    rw [noEndChild_man]
    unfold runChild
    dsimp only
    refine ⟨?_, fun hp => ?_, fun hp hd => ?_⟩
    · split
      · rfl
      · exact congrArg Handle.pool (finishMan_tx' o h fin _).2
    · have hb := gormBegin_committer c.beginGuard o h (markStale h db) hp
      rw [if_pos hb.2, hb.1]
      exact (markStale_frame h db).toC _
    · by_cases he : h.err = []
      case neg =>
        have hb := gormBegin_failed c.beginGuard o h (markStale h db) he
        rw [if_pos hb.1]
        exact ⟨by rw [hb.2.1]; simpa using hd, id⟩
      have hb := gormBegin_root c.beginGuard o h (markStale h db) hp he
      split
      · rename_i hne
        exact ⟨by rw [hb.2.2 hne]; simpa using hd, id⟩
      · have ih := runBody_frame c o body (gormBegin c.beginGuard o h (markStale h db)).2 (gormBegin c.beginGuard o h (markStale h db)).1
          (by simpa [hb.1] using hwb)
        have hpool : (runBody c o (gormBegin c.beginGuard o h (markStale h db)).2 body (gormBegin c.beginGuard o h (markStale h db)).1).2.1.pool.isCommitter = true := by
          rw [ih.1]; exact hb.1
        have hf := finishMan_tx o h fin _ hpool
        exact ⟨hf.1, by rw [hf.2]; exact id⟩
theorem runBody_frame (c : Cfg) (o : Oracle) : ∀ (ps : List Prog) (h : Handle) (db : DB),
    wfBody h.pool.isCommitter ps = true → ChildFrame (noEndBody ps) h db (runBody c o h ps db)
  | [], h, db, _ => by
    unfold runBody
    exact ⟨rfl, fun _ => CFrame.refl _ db, fun _ hd => ⟨hd, id⟩⟩
  | p :: ps, h, db, hwf => by
    have hw : wfChild h.pool.isCommitter p = true ∧ wfBody h.pool.isCommitter ps = true := by
      simpa [wfBody] using hwf
    have hn1 : noEndBody (p :: ps) = true → noEndChild p = true := fun hh => by
      rw [noEndBody_cons] at hh; simp at hh; exact hh.1
    have hn2 : noEndBody (p :: ps) = true → noEndBody ps = true := fun hh => by
      rw [noEndBody_cons] at hh; simp at hh; exact hh.2
    have ih1 := (runChild_frame c o p h db hw.1).weaken hn1
    unfold runBody
    generalize runChild c o h p db = r1 at ih1
    obtain ⟨db1, h1, r⟩ := r1
    dsimp only at ih1 ⊢
    have ih2 := (runBody_frame c o ps h1 db1 (by rw [ih1.1]; exact hw.2)).weaken hn2
    have comp : ChildFrame (noEndBody (p :: ps)) h db (runBody c o h1 ps db1) := by
      refine ⟨ih2.1.trans ih1.1, fun hp => (ih1.2.1 hp).trans (ih2.2.1 (by rw [ih1.1]; exact hp)), fun hp hd => ?_⟩
      have a := ih1.2.2 hp hd
      have b := ih2.2.2 (by rw [ih1.1]; exact hp) a.1
      exact ⟨b.1, fun he => b.2 (a.2 he)⟩
    split
    · exact comp
    · split
      · exact ih1
      · exact comp
end

/-! ### durability at the top level -/

theorem drvCommit_err (o : Oracle) (db : DB) (he : (drvCommit o db).2 ≠ []) :
    (drvCommit o db).1.committed = db.committed := by
  revert he; unfold drvCommit tick; split
  · intro _; rfl
  · dsimp only; split
    · intro _; rfl
    · intro h; exact absurd rfl h

theorem drvCommit_ok (o : Oracle) (db : DB) (he : (drvCommit o db).2 = []) :
    ∃ t, db.tx = some t ∧ (drvCommit o db).1.committed = t.cur := by
  revert he; unfold drvCommit tick; split
  · intro h; simp at h
  · rename_i t ht; dsimp only; split
    · intro h; simp at h
    · intro _; exact ⟨t, ht, rfl⟩

@[simp] theorem drvCommit_stale (o : Oracle) (db : DB) : (drvCommit o db).1.stale = db.stale := by
  unfold drvCommit tick; split
  · rfl
  · dsimp only; split <;> rfl
@[simp] theorem drvRollback_stale (db : DB) : (drvRollback db).1.stale = db.stale := by
  unfold drvRollback tickR; split <;> rfl
@[simp] theorem gormCommit_stale (o : Oracle) (h : Handle) (db : DB) : (gormCommit o h db).1.stale = db.stale := by
  unfold gormCommit; cases hpool : h.pool <;> simp
@[simp] theorem gormRollback_stale (h : Handle) (db : DB) : (gormRollback h db).1.stale = db.stale := by
  unfold gormRollback; cases hpool : h.pool <;> simp

theorem addError_eq_nil {cur e : Err} (h : addError cur e = []) : cur = [] ∧ e = [] := by
  unfold addError at h
  split at h
  · exact ⟨h, by assumption⟩
  · split at h
    · rename_i hne _; exact absurd h hne
    · rename_i hne hc; simp at h; exact absurd h.1 hc

theorem gormCommit_committer (o : Oracle) (h : Handle) (db : DB) (hp : h.pool.isCommitter = true) :
    (gormCommit o h db).1 = (drvCommit o db).1 ∧ (gormCommit o h db).2.err = addError h.err (drvCommit o db).2 := by
  unfold gormCommit; cases hpool : h.pool <;> simp_all [Pool.isCommitter]

/-- the top-level branch of Transaction after the function, in a run without stale use of a poisoned handle:
    a result other than nil leaves the committed store exactly as it was before the block; the result nil means the
    function returned nil, COMMIT succeeded and the committed store IS the transaction's working store -/
theorem finishRoot_durability (o : Oracle) (h : Handle) (out : Out) (tag : Nat) (db : DB) (tx : Handle) (r : Res)
    (hp : tx.pool.isCommitter = true) (hs : (finishRoot o h out tag (db, tx, r)).1.stale = false) :
    ((finishRoot o h out tag (db, tx, r)).2.2 ≠ .ok → (finishRoot o h out tag (db, tx, r)).1.committed = db.committed) ∧
    ((finishRoot o h out tag (db, tx, r)).2.2 = .ok →
        r = .ok ∧ out = .retNil ∧ ∃ t, db.tx = some t ∧ (finishRoot o h out tag (db, tx, r)).1.committed = t.cur) := by
  revert hs
  unfold finishRoot
  dsimp only
  have hfe : (fnEnd tx r out tag db).1.committed = db.committed ∧ (fnEnd tx r out tag db).1.tx = db.tx ∧
      ((fnEnd tx r out tag db).2 = .ok → r = .ok ∧ out = .retNil ∧ (tx.err ≠ [] → (fnEnd tx r out tag db).1.stale = true)) := by
    refine ⟨by simp, by simp, ?_⟩
    unfold fnEnd; split
    · cases out <;> simp [outRes, markStale]
      intro hne; simp [hne]
    · rename_i hne; intro h; exact absurd h (by simpa using hne)
  generalize fnEnd tx r out tag db = fe at hfe
  obtain ⟨db1, r1⟩ := fe
  dsimp only at hfe ⊢
  have hc := gormCommit_committer o tx db1 hp
  split
  · rename_i hr1
    split
    · rename_i hne
      intro hs
      refine ⟨fun _ => ?_, fun h => by simp at h⟩
      rw [gormRollback_committed, hc.1]
      rw [hc.2] at hne
      by_cases hd : (drvCommit o db1).2 = []
      · -- the driver COMMIT succeeded but the handle carried a sticky error (finding F18): that is a stale use
        exfalso
        have hte : tx.err ≠ [] := by
          intro h0; apply hne; simp [addError, h0, hd]
        have := (hfe.2.2 rfl).2.2 hte
        simp at hs
        rw [this] at hs; exact absurd hs (by simp)
      · rw [drvCommit_err o db1 hd]; exact hfe.1
    · rename_i he
      intro _
      have he' : (gormCommit o tx db1).2.err = [] := by simpa using he
      rw [hc.2] at he'
      have hz := addError_eq_nil he'
      obtain ⟨t, ht, hcm⟩ := drvCommit_ok o db1 hz.2
      refine ⟨fun h => absurd rfl h, fun _ => ⟨(hfe.2.2 rfl).1, (hfe.2.2 rfl).2.1, t, by rw [← hfe.2.1]; exact ht, by rw [hc.1]; exact hcm⟩⟩
  · rename_i hne
    intro _
    refine ⟨fun _ => by rw [gormRollback_committed]; exact hfe.1, fun h => ?_⟩
    exact absurd h (by simpa using hne)

/-- a statement on the open transaction changes the working store only: the save-point stack is untouched -/
theorem drvExecTx_saves (o : Oracle) (w : Write) (db : DB) (t : TxSt) (ht : db.tx = some t) :
    ∃ cur, (drvExecTx o w db).1.tx = some { cur := cur, saves := t.saves } := by
  unfold drvExecTx tick
  rw [ht]; dsimp only
  split
  · exact ⟨t.cur, by simp [ht]⟩
  · split
    · exact ⟨_, rfl⟩
    · exact ⟨t.cur, by simp [ht]⟩

/-- a body of writes only (any must flags, any faults) on a clean transaction handle keeps the save-point stack and the handle -/
theorem writes_keep_saves (c : Cfg) (o : Oracle) (h : Handle) (hp : h.pool.isCommitter = true) (he : h.err = []) :
    ∀ (ws : List Prog), (∀ p ∈ ws, ∃ w m, p = Prog.write w m) → ∀ (db : DB) (t : TxSt), db.tx = some t →
      (runBody c o h ws db).2.1 = h ∧ ∃ cur, (runBody c o h ws db).1.tx = some { cur := cur, saves := t.saves }
  | [], _, db, t, ht => by unfold runBody; exact ⟨rfl, t.cur, by simp [ht]⟩
  | p :: ps, hws, db, t, ht => by
    obtain ⟨w, m, rfl⟩ := hws p (by simp)
    have hrest : ∀ q ∈ ps, ∃ w m, q = Prog.write w m := fun q hq => hws q (by simp [hq])
    have h1 : (runChild c o h (.write w m) db).2.1 = h ∧
        ∃ cur, (runChild c o h (.write w m) db).1.tx = some { cur := cur, saves := t.saves } := by
      unfold runChild gormWrite
      simp only [he, ne_eq, not_true_eq_false, if_false, hp, if_true]
      exact ⟨trivial, drvExecTx_saves o _ _ t (by simpa using ht)⟩
    unfold runBody
    generalize runChild c o h (.write w m) db = r1 at h1
    obtain ⟨db1, h1', r⟩ := r1
    obtain ⟨hh, cur1, hc1⟩ := h1
    dsimp only at hh hc1 ⊢
    subst hh
    have ih := writes_keep_saves c o h1' hp he ps hrest db1 _ hc1
    split
    · exact ih
    · split
      · exact ⟨rfl, cur1, hc1⟩
      · exact ih

/-- SAVEPOINT / ROLLBACK TO exactness on a clean transaction handle: after `SavePoint(n)`, any sequence of writes (failing or
    not, whatever their must flags) and `RollbackTo(n)` — with no fault in the SAVEPOINT and ROLLBACK TO statements themselves —
    the working store is exactly the store at the save point and the save-point stack is the one right after `SavePoint(n)`. -/
theorem savepoint_exact (c : Cfg) (o : Oracle) (h : Handle) (hp : h.pool.isCommitter = true) (he : h.err = [])
    (n : Nat) (ws : List Prog) (hws : ∀ p ∈ ws, ∃ w m, p = Prog.write w m) (db : DB) (v : Store) (S : List (SpName × Store))
    (ht : db.tx = some { cur := v, saves := S }) (hsp : o db.calls = false)
    (hrb : o (runBody c o h ws (runChild c o h (.sp n true) db).1).1.calls = false) :
    (runChild c o h (.rb n true) (runBody c o h ws (runChild c o h (.sp n true) db).1).1).1.tx =
      some { cur := v, saves := (.manual n, v) :: S } ∧
    (runChild c o h (.rb n true) (runBody c o h ws (runChild c o h (.sp n true) db).1).1).2.2 = .ok := by
  have hsp1 : (runChild c o h (.sp n true) db).1.tx = some { cur := v, saves := (.manual n, v) :: S } ∧
      (runChild c o h (.sp n true) db).2.1 = h := by
    unfold runChild gormSavePoint execRawTx drvSavepoint tick
    simp [markStale, ht, hsp, addError, he]
    cases h; simp_all
  obtain ⟨hh, cur, hc⟩ := writes_keep_saves c o h hp he ws hws _ _ hsp1.1
  generalize runBody c o h ws (runChild c o h (.sp n true) db).1 = b at hh hc hrb
  obtain ⟨db2, h2, r2⟩ := b
  dsimp only at hh hc hrb ⊢
  unfold runChild gormRollbackTo execRawTx drvRollbackTo tick
  simp [markStale, hc, hrb, addError, findSp, resOf, he]

end Gorm.Tx
