/-
  Lemmas about Model/Tx.lean: frame properties of the driver layer and of gorm's transaction API,
  then (by mutual induction over program trees) of whole programs.
-/
import GormModel.Model.Tx
namespace Gorm.Tx

/-! ### what an operation issued on a transaction handle may touch -/

/-- committed store untouched, the transaction stays open/closed as it was -/
def TxFrame (db db' : DB) : Prop :=
  db'.committed = db.committed ∧ db'.tx.isSome = db.tx.isSome

theorem TxFrame.refl (db : DB) : TxFrame db db := ⟨rfl, rfl⟩
theorem TxFrame.trans {a b c : DB} (h1 : TxFrame a b) (h2 : TxFrame b c) : TxFrame a c :=
  ⟨h2.1.trans h1.1, h2.2.trans h1.2⟩

theorem markStale_frame (h : Handle) (db : DB) : TxFrame db (markStale h db) := by
  unfold markStale; split <;> exact ⟨rfl, rfl⟩

@[simp] theorem markStale_committed (h : Handle) (db : DB) : (markStale h db).committed = db.committed := (markStale_frame h db).1
@[simp] theorem markStale_tx (h : Handle) (db : DB) : (markStale h db).tx = db.tx := by
  unfold markStale; split <;> rfl
@[simp] theorem markStale_calls (h : Handle) (db : DB) : (markStale h db).calls = db.calls := by
  unfold markStale; split <;> rfl

theorem drvExecTx_frame (o : Oracle) (w : Write) (db : DB) : TxFrame db (drvExecTx o w db).1 := by
  unfold drvExecTx tick
  split
  · exact ⟨rfl, rfl⟩
  · rename_i t ht
    dsimp only
    split
    · exact ⟨rfl, by simp [ht]⟩
    · split <;> exact ⟨rfl, by simp [ht]⟩

theorem drvQueryTx_frame (o : Oracle) (db : DB) : TxFrame db (drvQueryTx o db).1 := by
  unfold drvQueryTx tick
  split
  · exact ⟨rfl, rfl⟩
  · rename_i t ht
    dsimp only
    split <;> exact ⟨rfl, by simp [ht]⟩

theorem drvSavepoint_frame (o : Oracle) (n : SpName) (db : DB) : TxFrame db (drvSavepoint o n db).1 := by
  unfold drvSavepoint tick
  split
  · exact ⟨rfl, rfl⟩
  · rename_i t ht
    dsimp only
    split <;> exact ⟨rfl, by simp [ht]⟩

theorem drvRollbackTo_frame (o : Oracle) (n : SpName) (db : DB) : TxFrame db (drvRollbackTo o n db).1 := by
  unfold drvRollbackTo tick
  split
  · exact ⟨rfl, rfl⟩
  · rename_i t ht
    dsimp only
    split
    · exact ⟨rfl, by simp [ht]⟩
    · split <;> exact ⟨rfl, by simp [ht]⟩

theorem execRawTx_frame (h : Handle) (call : DB → DB × Err) (db : DB)
    (hc : ∀ d, TxFrame d (call d).1) : TxFrame db (execRawTx h call db).1 := by
  unfold execRawTx; split
  · exact hc db
  · exact TxFrame.refl db

theorem gormSavePoint_frame (o : Oracle) (h : Handle) (n : SpName) (db : DB) :
    TxFrame db (gormSavePoint o h n db).1 := by
  unfold gormSavePoint; exact execRawTx_frame h _ db (drvSavepoint_frame o n)

theorem gormRollbackTo_frame (o : Oracle) (h : Handle) (n : SpName) (db : DB) :
    TxFrame db (gormRollbackTo o h n db).1 := by
  unfold gormRollbackTo; exact execRawTx_frame h _ db (drvRollbackTo_frame o n)

@[simp] theorem gormSavePoint_pool (o : Oracle) (h : Handle) (n : SpName) (db : DB) :
    (gormSavePoint o h n db).2.pool = h.pool := rfl
@[simp] theorem gormRollbackTo_pool (o : Oracle) (h : Handle) (n : SpName) (db : DB) :
    (gormRollbackTo o h n db).2.pool = h.pool := rfl

/-- COMMIT and ROLLBACK always end the driver transaction (and release the connection), whatever the oracle does -/
@[simp] theorem drvCommit_tx (o : Oracle) (db : DB) : (drvCommit o db).1.tx = none := by
  unfold drvCommit tick; split
  · assumption
  · dsimp only; split <;> rfl

@[simp] theorem drvRollback_tx (db : DB) : (drvRollback db).1.tx = none := by
  unfold drvRollback; split
  · assumption
  · rfl

@[simp] theorem drvRollback_committed (db : DB) : (drvRollback db).1.committed = db.committed := by
  unfold drvRollback tickR; split <;> rfl

theorem gormCommit_tx (o : Oracle) (h : Handle) (db : DB) (hp : h.pool.isCommitter = true) :
    (gormCommit o h db).1.tx = none := by
  unfold gormCommit; cases hpool : h.pool <;> simp_all [Pool.isCommitter]

theorem gormRollback_tx (h : Handle) (db : DB) (hp : h.pool.isCommitter = true) :
    (gormRollback h db).1.tx = none := by
  unfold gormRollback; cases hpool : h.pool <;> simp_all [Pool.isCommitter]

theorem gormRollback_committed (h : Handle) (db : DB) :
    (gormRollback h db).1.committed = db.committed := by
  unfold gormRollback; cases hpool : h.pool <;> simp

theorem addError_ne_nil (cur e : Err) (he : e ≠ []) : addError cur e ≠ [] := by
  unfold addError; simp [he]; split
  · exact he
  · intro h; simp_all

/-- Begin on a transaction handle: no driver call, ErrInvalidTransaction -/
theorem gormBegin_committer (o : Oracle) (h : Handle) (db : DB) (hp : h.pool.isCommitter = true) :
    (gormBegin o h db).1 = db ∧ (gormBegin o h db).2.err ≠ [] := by
  unfold gormBegin; cases hpool : h.pool <;> simp_all [Pool.isCommitter]
  all_goals exact addError_ne_nil _ _ (by simp)

/-- Begin on the pool (clean handle): the new handle is a transaction handle; if it carries an error, BEGIN failed and no
    transaction was opened -/
theorem gormBegin_root (o : Oracle) (h : Handle) (db : DB) (hp : h.pool.isCommitter = false) (he : h.err = []) :
    (gormBegin o h db).2.pool.isCommitter = true ∧ (gormBegin o h db).1.committed = db.committed ∧
    ((gormBegin o h db).2.err ≠ [] → (gormBegin o h db).1.tx = db.tx) := by
  unfold gormBegin drvBegin tick
  cases hpool : h.pool <;> simp_all [Pool.isCommitter, addError] <;> split <;> simp_all

end Gorm.Tx
