/-
  C09 (round 4) — theorems about conditions supplied through Scopes (Model/Scopes.lean), for ALL scope lists.
-/
import GormModel.Model.Scopes
namespace Gorm

theorem scopeStepThreaded_ret (r : ScopeRun) (s : Scope) : (scopeStepThreaded r s).ret = r.ret ++ s.conds := by
  unfold scopeStepThreaded
  split
  · rfl
  · split <;> rfl

theorem foldl_threaded_ret (scopes : List Scope) (r : ScopeRun) :
    (scopes.foldl scopeStepThreaded r).ret = r.ret ++ scopes.flatMap (·.conds) := by
  induction scopes generalizing r with
  | nil => simp
  | cons s rest ih => simp [List.foldl_cons, ih, scopeStepThreaded_ret, List.append_assoc]

/-- THREADED loop (today's code): every scope's conditions arrive in the statement the finisher continues with, in order —
    whatever mix of in-place scopes and scopes returning derived handles, in whatever position -/
theorem scopesWhere_threaded (scopes : List Scope) (init : List Nat) :
    scopesWhere true scopes init = init ++ scopes.flatMap (·.conds) := by
  simp [scopesWhere, execScopes, foldl_threaded_ret]

/-- the statement ends without condition exactly when nothing supplied one: order, number and kind of the scopes do not
    matter (the right-hand side is invariant under permutation of `scopes`) -/
theorem C09_scopes_empty_iff (scopes : List Scope) (init : List Nat) :
    scopesWhere true scopes init = [] ↔ init = [] ∧ ∀ s ∈ scopes, s.conds = [] := by
  rw [scopesWhere_threaded]
  simp [List.append_eq_nil_iff, List.flatMap_eq_nil_iff]

/-- ADMITS: a condition supplied by ANY scope (first, middle, last; in place or through a derived handle) is in the
    statement the guard sees: the write is not rejected (either transcription of the guard) -/
theorem C09_scopes_condition_counts (ce : Bool) (mk : Nat → Ex) (scopes : List Scope) (init : List Nat)
    (h : ∃ s ∈ scopes, s.conds ≠ []) :
    missingWhere ce false (scopesGuardState mk (scopesWhere true scopes init)) = false := by
  have hne : scopesWhere true scopes init ≠ [] := by
    intro he
    obtain ⟨s, hs, hc⟩ := h
    exact hc (((C09_scopes_empty_iff scopes init).mp he).2 s hs)
  cases hl : scopesWhere true scopes init with
  | nil => exact absurd hl hne
  | cons a l => simp [scopesGuardState, missingWhere]

/-- BLOCKS: scopes that add no condition (no-op scopes, Order/Limit scopes, scopes returning a derived handle without a
    condition) leave the statement as it was; with nothing before them the write is rejected -/
theorem C09_scopes_condition_free (scopes : List Scope) (init : List Nat) (h : ∀ s ∈ scopes, s.conds = []) :
    scopesWhere true scopes init = init := by
  rw [scopesWhere_threaded]
  have : scopes.flatMap (·.conds) = [] := List.flatMap_eq_nil_iff.mpr h
  simp [this]

theorem C09_scopes_blocks (ce : Bool) (mk : Nat → Ex) (scopes : List Scope) (h : ∀ s ∈ scopes, s.conds = []) :
    missingWhere ce false (scopesGuardState mk (scopesWhere true scopes [])) = true := by
  rw [C09_scopes_condition_free scopes [] h]
  simp [scopesGuardState, missingWhere]

/-- the order of the scopes is irrelevant for the guard's decision -/
theorem C09_scopes_order_irrelevant (ce : Bool) (mk : Nat → Ex) (scopes scopes' : List Scope) (init : List Nat)
    (hp : scopes'.Perm scopes) :
    missingWhere ce false (scopesGuardState mk (scopesWhere true scopes' init)) =
    missingWhere ce false (scopesGuardState mk (scopesWhere true scopes init)) := by
  have key : ∀ l : List Nat, missingWhere ce false (scopesGuardState mk l) = l.isEmpty := by
    intro l; cases l <;> simp [scopesGuardState, missingWhere]
  rw [key, key]
  have h1 := C09_scopes_empty_iff scopes' init
  have h2 := C09_scopes_empty_iff scopes init
  have hiff : scopesWhere true scopes' init = [] ↔ scopesWhere true scopes init = [] := by
    rw [h1, h2]
    constructor
    · rintro ⟨hi, ha⟩; exact ⟨hi, fun s hs => ha s (hp.symm.subset hs)⟩
    · rintro ⟨hi, ha⟩; exact ⟨hi, fun s hs => ha s (hp.subset hs)⟩
  cases ha : scopesWhere true scopes' init with
  | nil => rw [hiff.mp ha]
  | cons a l =>
    cases hb : scopesWhere true scopes init with
    | nil => rw [hiff.mpr hb] at ha; cases ha
    | cons b m => rfl

/-! ### the unthreaded loop shape (`tx = scope(db)`) — why the handle must be threaded -/

/-- COUNTEREXAMPLE for the unthreaded shape: a scope returning a derived handle with a condition, followed by a no-op
    scope — the condition is lost and the guard rejects a chain that DID supply a condition -/
theorem C09_scopes_unthreaded_counterexample :
    scopesWhere false [⟨[1], true⟩, ⟨[], false⟩] [] = [] ∧
    scopesWhere true [⟨[1], true⟩, ⟨[], false⟩] [] = [1] ∧
    -- … and with a later scope that has a condition of its own the write runs on MORE rows than the chain asked for
    scopesWhere false [⟨[1], true⟩, ⟨[2], false⟩] [] = [2] := by
  decide

theorem foldl_unthreaded_inplace (scopes : List Scope) (r : ScopeRun) (hr : r.ret = r.orig)
    (h : ∀ s ∈ scopes, s.derive = false) :
    (scopes.foldl scopeStepUnthreaded r).ret = r.ret ++ scopes.flatMap (·.conds) := by
  induction scopes generalizing r with
  | nil => simp
  | cons s rest ih =>
    have hs : s.derive = false := h s (by simp)
    have hstep : scopeStepUnthreaded r s = { orig := r.orig ++ s.conds, ret := r.orig ++ s.conds, retIsOrig := true } := by
      simp [scopeStepUnthreaded, hs]
    simp only [List.foldl_cons, hstep]
    rw [ih _ rfl (fun x hx => h x (by simp [hx]))]
    simp [hr, List.append_assoc]

/-- … and why the difference is INVISIBLE with in-place scopes only (what almost every scope is): both shapes agree -/
theorem scopesWhere_unthreaded_inplace (scopes : List Scope) (init : List Nat) (h : ∀ s ∈ scopes, s.derive = false) :
    scopesWhere false scopes init = scopesWhere true scopes init := by
  rw [scopesWhere_threaded]
  simp only [scopesWhere, execScopes, Bool.false_eq_true, if_false]
  exact foldl_unthreaded_inplace scopes _ rfl h

/-- a single scope, or the derived-handle scope in LAST position, is also unaffected -/
theorem scopesWhere_unthreaded_single (s : Scope) (init : List Nat) :
    scopesWhere false [s] init = scopesWhere true [s] init := by
  cases s with | mk c d => cases d <;> simp [scopesWhere, execScopes, scopeStepUnthreaded, scopeStepThreaded]

/-! ### the tree under verification (regenerated facts, extract/gen_c09_scopes.go → Gen/ScopeFacts.lean) -/

/-- executeScopes as it is in /repo now: found; the loop body is the single assignment `db = scope(db)` over the whole copy
    of the registered scopes taken before the reset; `db` is returned -/
theorem C09_scopes_threaded_fact :
    Gen.scopesFnFound = true ∧ Gen.scopesThreaded = true ∧ Gen.scopesResetBeforeLoop = true ∧
    Gen.scopesRangesOverCopy = true ∧ Gen.scopesLoopBodyStmts = 1 ∧
    Gen.scopesCallArg = Gen.scopesCallAssignedTo ∧ Gen.scopesCallAssignedTo = Gen.scopesReturned := by
  decide

/-- its callers: callbacks.go Execute (and migrator.go) run it while scopes are pending and CONTINUE with the returned
    handle; Execute does so before anything else reads db.Statement; BuildCondition runs a group argument's scopes on a
    session copy -/
theorem C09_scopes_run_sites :
    Gen.scopeRunSites = [
      { fn := "processor.Execute", file := "callbacks.go", receiver := "db", assignedTo := "db", whilePending := true },
      { fn := "DB.Migrator", file := "migrator.go", receiver := "tx", assignedTo := "tx", whilePending := true },
      { fn := "Statement.BuildCondition", file := "statement.go", receiver := "v.Session(&Session{}).getInstance()",
        assignedTo := "v", whilePending := false }] ∧
    Gen.executeStmtAfterScopes = true := by
  decide

/-- the loop of the tree under verification delivers every scope's conditions -/
theorem C09_scopes_current_tree (scopes : List Scope) (init : List Nat) :
    scopesWhere Gen.scopesThreaded scopes init = init ++ scopes.flatMap (·.conds) := by
  have h : Gen.scopesThreaded = true := by decide
  rw [h]; exact scopesWhere_threaded scopes init

/-- non-vacuity: three scopes of mixed kinds -/
example : scopesWhere true [⟨[], true⟩, ⟨[4], true⟩, ⟨[], false⟩, ⟨[7, 8], false⟩] [1] = [1, 4, 7, 8] := by decide

end Gorm
