import GormModel.Model.MigrateNames
import GormModel.Lemmas.Migrate
import GormModel.Lemmas.MigrateCols
import GormModel.Lemmas.MigrateNames
namespace Gorm.Mig

theorem mn2_lookup_append_none {β} (k : Str) (a : List (Str × β)) (v : β) (h : lookup k a = none) :
    lookup k (a ++ [(k, v)]) = some v := by
  induction a with
  | nil => simp [lookup]
  | cons p r ih =>
    rcases p with ⟨k', w⟩
    by_cases hk : k' = k
    · simp [lookup, hk] at h
    · simp only [lookup, hk, if_false] at h
      simp [lookup, hk, ih h]

theorem mn2_lookup_append_some {β} (k : Str) (a b : List (Str × β)) (v : β) (h : lookup k a = some v) :
    lookup k (a ++ b) = some v := by
  induction a with
  | nil => simp [lookup] at h
  | cons p r ih =>
    rcases p with ⟨k', w⟩
    by_cases hk : k' = k
    · simpa [lookup, hk] using h
    · simp only [lookup, hk, if_false] at h
      simp [lookup, hk, ih h]

/-- `update` on table `t'` with a column-monotone function keeps every column name of table `t` -/
theorem mn2_update_mono (t t' : Str) (g : TableState → TableState) (c : Catalog) (n : Str)
    (hg : ∀ ts, n ∈ listed ts.cols → n ∈ listed (g ts).cols) (hn : n ∈ tableCols c t) :
    n ∈ tableCols (update t' g c) t := by
  unfold tableCols at hn ⊢
  by_cases h : t = t'
  · subst h
    rw [lookup_update_same]
    cases hl : lookup t c with
    | none => rw [hl] at hn; cases hn
    | some ts => rw [hl] at hn; exact hg ts hn
  · rw [lookup_update_other t' t g c h]
    exact hn

/-- `update` never removes a table -/
theorem mn2_update_isSome (t t' : Str) (g : TableState → TableState) (c : Catalog)
    (hs : (lookup t c).isSome = true) : (lookup t (update t' g c)).isSome = true := by
  by_cases h : t = t'
  · subst h
    rw [lookup_update_same]
    cases hl : lookup t c with
    | none => rw [hl] at hs; cases hs
    | some ts => rfl
  · rw [lookup_update_other t' t g c h]
    exact hs

/-- no statement drops or renames a column of any table -/
theorem mn2_apply_mono (reflect : FieldDecl → ColumnInfo) (d : DDL) (c : Catalog) (t n : Str)
    (hn : n ∈ tableCols c t) : n ∈ tableCols (applyDDL reflect d c) t := by
  cases d with
  | createTable m =>
    unfold tableCols at hn ⊢
    simp only [applyDDL]
    cases hl : lookup t c with
    | none => rw [hl] at hn; cases hn
    | some ts =>
      rw [mn2_lookup_append_some _ _ _ _ hl]
      rw [hl] at hn
      exact hn
  | addColumn t' f =>
    apply mn2_update_mono _ _ _ _ _ _ hn
    intro ts h
    simp only [listed, List.map_append, List.mem_append] at h ⊢
    exact Or.inl h
  | alterColumn t' f =>
    apply mn2_update_mono _ _ _ _ _ _ hn
    intro ts h
    simp only [listed, update_keys] at h ⊢
    exact h
  | createUnique t' f =>
    apply mn2_update_mono _ _ _ _ _ _ hn
    intro ts h
    simp only [listed, update_keys] at h ⊢
    exact h
  | dropUnique t' f =>
    apply mn2_update_mono _ _ _ _ _ _ hn
    intro ts h
    simp only [listed, update_keys] at h ⊢
    exact h
  | createConstraint t' name =>
    apply mn2_update_mono _ _ _ _ _ _ hn
    intro ts h
    exact h
  | createIndex t' name =>
    apply mn2_update_mono _ _ _ _ _ _ hn
    intro ts h
    exact h

/-- no statement drops a table -/
theorem mn2_apply_isSome (reflect : FieldDecl → ColumnInfo) (d : DDL) (c : Catalog) (t : Str)
    (hs : (lookup t c).isSome = true) : (lookup t (applyDDL reflect d c)).isSome = true := by
  cases d with
  | createTable m =>
    simp only [applyDDL]
    cases hl : lookup t c with
    | none => rw [hl] at hs; cases hs
    | some ts => rw [mn2_lookup_append_some _ _ _ _ hl]; rfl
  | addColumn t' f => exact mn2_update_isSome _ _ _ _ hs
  | alterColumn t' f => exact mn2_update_isSome _ _ _ _ hs
  | createUnique t' f => exact mn2_update_isSome _ _ _ _ hs
  | dropUnique t' f => exact mn2_update_isSome _ _ _ _ hs
  | createConstraint t' name => exact mn2_update_isSome _ _ _ _ hs
  | createIndex t' name => exact mn2_update_isSome _ _ _ _ hs

/-- `ADD COLUMN` on an existing table makes the name present -/
theorem mn2_apply_addColumn (reflect : FieldDecl → ColumnInfo) (c : Catalog) (t : Str) (f : FieldDecl)
    (hs : (lookup t c).isSome = true) : f.dbName ∈ tableCols (applyDDL reflect (.addColumn t f) c) t := by
  unfold tableCols
  simp only [applyDDL]
  rw [lookup_update_same]
  cases hl : lookup t c with
  | none => rw [hl] at hs; cases hs
  | some ts => simp [listed]

theorem mn2_applyAll_mono (reflect : FieldDecl → ColumnInfo) (ds : List DDL) (c : Catalog) (t n : Str)
    (hn : n ∈ tableCols c t) : n ∈ tableCols (applyAll reflect ds c) t := by
  induction ds generalizing c with
  | nil => exact hn
  | cons d ds ih =>
    simp only [applyAll, List.foldl_cons]
    exact ih _ (mn2_apply_mono reflect d c t n hn)

theorem mn2_applyAll_added (reflect : FieldDecl → ColumnInfo) (ds : List DDL) (c : Catalog) (t : Str) (f : FieldDecl)
    (hd : DDL.addColumn t f ∈ ds) (hs : (lookup t c).isSome = true) :
    f.dbName ∈ tableCols (applyAll reflect ds c) t := by
  induction ds generalizing c with
  | nil => cases hd
  | cons d ds ih =>
    simp only [applyAll, List.foldl_cons]
    rcases List.mem_cons.mp hd with h | h
    · subst h
      exact mn2_applyAll_mono reflect ds _ t _ (mn2_apply_addColumn reflect c t f hs)
    · exact ih _ h (mn2_apply_isSome reflect d c t hs)

/-- the column loop issues `ADD COLUMN` for every non-ignored field whose name the snapshot lacks -/
theorem mn2_addColumn_mem (t : Str) (cols : List (Str × ColumnInfo)) (fs : List FieldDecl) (f : FieldDecl)
    (hf : f ∈ fs) (hi : f.ignoreMigration = false) (hl : lookup f.dbName cols = none) :
    DDL.addColumn t f ∈ columnDDL t cols fs := by
  induction fs with
  | nil => cases hf
  | cons g r ih =>
    simp only [columnDDL, List.mem_append]
    rcases List.mem_cons.mp hf with h | h
    · subst h
      left
      simp [hl, hi]
    · exact Or.inr (ih h)

theorem mn2_mem_createdCols (reflect : FieldDecl → ColumnInfo) (fs : List FieldDecl) (f : FieldDecl)
    (hf : f ∈ fs) (hi : f.ignoreMigration = false) : f.dbName ∈ (createdCols reflect fs).map (·.1) := by
  induction fs with
  | nil => cases hf
  | cons g r ih =>
    rcases List.mem_cons.mp hf with h | h
    · subst h
      simp [createdCols, hi]
    · cases hg : g.ignoreMigration with
      | true => simp only [createdCols, hg, if_true]; exact ih h
      | false =>
        simp only [createdCols, hg, Bool.false_eq_true, if_false, List.map_cons, List.mem_cons]
        exact Or.inr (ih h)

/-- after one AutoMigrate iteration for model `m`, every non-ignored field of `m` has its column in the table -/
theorem columns_complete_after (reflect : FieldDecl → ColumnInfo) (m : ModelDecl) (c : Catalog) (f : FieldDecl)
    (hf : f ∈ m.fields) (hi : f.ignoreMigration = false) :
    f.dbName ∈ tableCols (applyAll reflect (autoMigrateOne m c) c) m.table := by
  cases hl : lookup m.table c with
  | none =>
    simp only [autoMigrateOne, hl, applyAll, List.foldl_cons, List.foldl_nil, applyDDL]
    unfold tableCols
    rw [mn2_lookup_append_none _ _ _ hl]
    exact mn2_mem_createdCols reflect m.fields f hf hi
  | some ts =>
    simp only [autoMigrateOne, hl]
    have hs : (lookup m.table c).isSome = true := by rw [hl]; rfl
    cases hc : lookup f.dbName ts.cols with
    | none =>
      apply mn2_applyAll_added reflect _ c m.table f _ hs
      exact List.mem_append_left _ (List.mem_append_left _ (mn2_addColumn_mem m.table ts.cols m.fields f hf hi hc))
    | some ci =>
      apply mn2_applyAll_mono
      unfold tableCols
      rw [hl]
      show f.dbName ∈ ts.cols.map (·.1)
      by_cases hh : f.dbName ∈ ts.cols.map (·.1)
      · exact hh
      · rw [← lookup_none_iff] at hh; rw [hh] at hc; cases hc

/-- ... and every column the table had before is still there (nothing is dropped or renamed) -/
theorem columns_kept_after (reflect : FieldDecl → ColumnInfo) (m : ModelDecl) (c : Catalog) (n : Str)
    (hn : n ∈ tableCols c m.table) :
    n ∈ tableCols (applyAll reflect (autoMigrateOne m c) c) m.table :=
  mn2_applyAll_mono reflect _ c m.table n hn

end Gorm.Mig
