import GormModel.Lemmas.SchemaCacheInv
namespace Gorm.SchemaCache

theorem Inv.frame' {c : Cfg} {s s' : State} {X : List Nat} {t : Nat} {th' : Thread} (hI : Inv c s)
    (hR : HeapRel s s' X) (hthr : s'.thr = upd s.thr t th')
    (hX : ∀ x ∈ X, x < s.nobj ∧ (s.objs x).closed = false ∧ (s.objs x).ownT = t)
    (hT : ThreadOK c s' t th')
    (hXc : ∀ x ∈ X, (s'.objs x).closed = true → (s'.objs x).err = false → (s'.objs x).stamp ≠ 0 →
      s'.cache (s'.objs x).ty = some x ∧ (s'.objs x).nrel = (relsOf c (s'.objs x).ty).length)
    (hOwn : ∀ o, o ∉ X → Owns (s.thr t) o → Owns th' o)
    (hOwnX : ∀ x ∈ X, (s'.objs x).stamp ≠ 0 → (s'.objs x).closed = false → Owns th' x)
    (hrets : ∀ r ∈ s'.rets, r ∈ s.rets ∨ RetOK c s' r)
    (hB : OnlySelfRels c → (∀ o, (s.objs o).backs = []) → ∀ o, (s'.objs o).backs = [] := by
      intro _ hb o; grind [upd, freshObj])
    (hgets : ∀ g ∈ s'.gets, g ∈ s.gets ∨ GetOK c s' g := by intro g hg; exact Or.inl hg) : Inv c s' := by
  refine Inv.frame (t := t) hI hR hX (fun t' ht => by rw [hthr, upd_ne _ _ _ _ ht]) ?_ hXc ?_ ?_ hrets hgets hB
  · rw [hthr, upd_same]; exact hT
  · rw [hthr, upd_same]; exact hOwn
  · rw [hthr, upd_same]; exact hOwnX

theorem Inv.pure_step {c : Cfg} {s s' : State} {t : Nat} {th' : Thread} (hI : Inv c s)
    (h1 : s'.nobj = s.nobj) (h2 : s'.objs = s.objs) (h3 : s'.cache = s.cache) (h4 : s'.clock = s.clock)
    (hthr : s'.thr = upd s.thr t th') (hT : ThreadOK c s t th')
    (hOwn : ∀ o, Owns (s.thr t) o → Owns th' o)
    (hrets : ∀ r ∈ s'.rets, r ∈ s.rets ∨ RetOK c s r)
    (hgets : ∀ g ∈ s'.gets, g ∈ s.gets ∨ GetOK c s g := by intro g hg; exact Or.inl hg) : Inv c s' := by
  have hR := HeapRel.pure h1 h2 h3 h4
  refine Inv.frame' hI hR hthr (by simp) ?_ (by simp) (fun o _ => hOwn o) (by simp) ?_
    (fun _ hb o => by rw [h2]; exact hb o) ?_
  · exact ⟨SuspsOK.frame hR _ (by simp) hT.susp,
      fun f hf => PcOK.frame hI hR hT.susp (by simp) (hT.cur f hf), hT.idle, hT.noSusp⟩
  · intro r hr
    rcases hrets r hr with h | h
    · exact Or.inl h
    · exact Or.inr (h.frame hR (by simp))
  · intro g hg
    rcases hgets g hg with h | h
    · exact Or.inl h
    · exact Or.inr (h.frame hR)

theorem HeapRel.of_objs {s s' : State} {X : List Nat} (h1 : s'.nobj = s.nobj) (h4 : s'.clock = s.clock)
    (h3 : s'.cache = s.cache)
    (h : ∀ o, (s'.objs o).ty = (s.objs o).ty ∧ (s'.objs o).ownT = (s.objs o).ownT ∧
      (s'.objs o).ownD = (s.objs o).ownD ∧ (s'.objs o).stamp = (s.objs o).stamp ∧
      (o ∉ X → (s'.objs o).closed = (s.objs o).closed ∧ (s'.objs o).err = (s.objs o).err ∧
        (s'.objs o).nrel = (s.objs o).nrel)) : HeapRel s s' X := by
  refine ⟨by omega, by omega, ?_, ?_, ?_, ?_, ?_, ?_, ?_, ?_⟩
  · intro o h5 h6; omega
  · intro o _; exact (h o).1
  · intro o _; exact (h o).2.1
  · intro o _; exact (h o).2.2.1
  · intro o _; exact Or.inl (h o).2.2.2.1
  · intro o _ hx
    have := (h o).2.2.2.2 hx
    exact ⟨this.1, this.2.1, this.2.2, (h o).2.2.2.1⟩
  · intro ty o h _; rw [h3]; exact h
  · intro ty o h; rw [h3] at h; exact Or.inl h

theorem ThreadOK.mk_some {c : Cfg} {s : State} {t : Nat} {todo : List Nat} {f : Frame} {l : List Susp}
    (hN : OnlySelfRels c → l = []) (hS : SuspsOK c s t l) (hP : PcOK c s t l f.ty f.obj f.pc) :
    ThreadOK c s t ⟨todo, some f, l⟩ :=
  ⟨hS, by intro f' hf; cases hf; exact hP, (by intro h; cases h), hN⟩

theorem Owns.cur_step {th : Thread} {todo : List Nat} {f f' : Frame} {o : Nat} (hc : th.cur = some f)
    (hpc : ownerPc f.pc = true → f'.obj = f.obj ∧ ownerPc f'.pc = true) :
    Owns th o → Owns ⟨todo, some f', th.susp⟩ o := by
  rintro (⟨f0, hf0, rfl, hp⟩ | h)
  · rw [hc] at hf0; cases hf0
    exact Or.inl ⟨f', rfl, (hpc hp).1, (hpc hp).2⟩
  · exact Or.inr h

theorem Owns.pop {th : Thread} {todo : List Nat} {f f' : Frame} {p : Susp} {rest : List Susp} {o : Nat}
    (hc : th.cur = some f) (hs : th.susp = p :: rest) (hf' : f'.obj = p.obj ∧ ownerPc f'.pc = true)
    (hne : ownerPc f.pc = true → o ≠ f.obj) : Owns th o → Owns ⟨todo, some f', rest⟩ o := by
  rintro (⟨f0, hf0, rfl, hp⟩ | ⟨p0, hp0, rfl⟩)
  · rw [hc] at hf0; cases hf0
    exact absurd rfl (hne hp)
  · rw [hs] at hp0
    rcases List.mem_cons.1 hp0 with rfl | hp0
    · exact Or.inl ⟨f', rfl, hf'.1, hf'.2⟩
    · exact Or.inr ⟨p0, hp0, rfl⟩

theorem Owns.push {th : Thread} {todo : List Nat} {f f' : Frame} {ty k o : Nat}
    (hc : th.cur = some f) : Owns th o → Owns ⟨todo, some f', ⟨ty, k, f.obj⟩ :: th.susp⟩ o := by
  rintro (⟨f0, hf0, rfl, hp⟩ | ⟨p0, hp0, rfl⟩)
  · rw [hc] at hf0; cases hf0
    exact Or.inr ⟨_, List.mem_cons_self, rfl⟩
  · exact Or.inr ⟨p0, List.mem_cons_of_mem _ hp0, rfl⟩

theorem Owns.top {th th' : Thread} {f : Frame} {o : Nat}
    (hc : th.cur = some f) (hs : th.susp = []) (hne : ownerPc f.pc = true → o ≠ f.obj) :
    Owns th o → Owns th' o := by
  rintro (⟨f0, hf0, rfl, hp⟩ | ⟨p0, hp0, rfl⟩)
  · rw [hc] at hf0; cases hf0
    exact absurd rfl (hne hp)
  · rw [hs] at hp0; cases hp0

theorem inv_step {c : Cfg} {s s' : State} {t : Nat} (hI : Inv c s) (h : step c s t = some s') : Inv c s' := by
  have hT := hI.thr t
  rcases hcur : (s.thr t).cur with _ | ⟨ty, pc, obj⟩
  · rcases htodo : (s.thr t).todo with _ | ⟨ty, rest⟩
    · simp [step, hcur, htodo] at h
    · simp [step, hcur, htodo] at h
      subst h
      have hl : (s.thr t).susp = [] := hT.idle hcur
      refine hI.pure_step (t := t) rfl rfl rfl rfl rfl (ThreadOK.mk_some hT.noSusp hT.susp ?_) ?_ (fun r hr => Or.inl hr)
      · intro o _; rw [hl]; intro p hp; cases hp
      · rintro o (⟨f0, hf0, _⟩ | ⟨p0, hp0, _⟩)
        · rw [hcur] at hf0; cases hf0
        · rw [hl] at hp0; cases hp0
  · have hP := hT.cur _ hcur
    cases pc with
    | load1 =>
      have P : PreMono s (s.thr t).susp ty := hP
      rcases hc : s.cache ty with _ | o
      · simp [step, hcur, hc, setPc] at h
        subst h
        exact hI.pure_step (t := t) rfl rfl rfl rfl rfl
          (ThreadOK.mk_some hT.noSusp hT.susp (show PcOK c s t _ ty obj .tableName from P))
          (fun o => Owns.cur_step hcur (by simp [ownerPc])) (fun r hr => Or.inl hr)
      · simp [step, hcur, hc, setPc] at h
        subst h
        have hco := hI.cache_ok ty o hc
        exact hI.pure_step (t := t) rfl rfl rfl rfl rfl
          (ThreadOK.mk_some hT.noSusp hT.susp (show PcOK c s t _ ty obj (.wait o) from ⟨hco.1, hco.2.1, hco.2.2, P o hc⟩))
          (fun o => Owns.cur_step hcur (by simp [ownerPc])) (fun r hr => Or.inl hr)
    | load2 =>
      have P : PreMono s (s.thr t).susp ty ∧ Pre s t (s.thr t).susp.length ty obj := hP
      rcases hc : s.cache ty with _ | o
      · simp [step, hcur, hc, setPc] at h
        subst h
        exact hI.pure_step (t := t) rfl rfl rfl rfl rfl
          (ThreadOK.mk_some hT.noSusp hT.susp (show PcOK c s t _ ty obj .los from P))
          (fun o => Owns.cur_step hcur (by simp [ownerPc])) (fun r hr => Or.inl hr)
      · simp [step, hcur, hc, setPc] at h
        subst h
        have hco := hI.cache_ok ty o hc
        exact hI.pure_step (t := t) rfl rfl rfl rfl rfl
          (ThreadOK.mk_some hT.noSusp hT.susp (show PcOK c s t _ ty obj (.wait o) from ⟨hco.1, hco.2.1, hco.2.2, P.1 o hc⟩))
          (fun o => Owns.cur_step hcur (by simp [ownerPc])) (fun r hr => Or.inl hr)
    | tableName =>
      have P : PreMono s (s.thr t).susp ty := hP
      simp [step, hcur] at h
      have hR : HeapRel s s' [] := by
        subst h
        refine ⟨?_, ?_, ?_, ?_, ?_, ?_, ?_, ?_, ?_, ?_⟩ <;> grind [upd, freshObj]
      subst h
      refine Inv.frame' (t := t) hI hR rfl (by simp)
        (ThreadOK.mk_some hT.noSusp (SuspsOK.frame hR _ (by simp) hT.susp) ?_) (by simp)
        (fun o _ => Owns.cur_step hcur (by simp [ownerPc])) (by simp) (fun r hr => Or.inl hr)
      refine ⟨PreMono.frame hI hR hT.susp P, ⟨⟨?_, ?_, ?_, ?_, ?_⟩, ?_, ?_, ?_⟩⟩ <;> simp [freshObj]
    | los =>
      have P : PreMono s (s.thr t).susp ty ∧ Pre s t (s.thr t).susp.length ty obj := hP
      rcases hc : s.cache ty with _ | o
      · simp [step, hcur, hc] at h
        obtain ⟨hpm, ⟨⟨hlt, hoT, hoD, hty, hopn⟩, hst, hne, hnr⟩⟩ := P
        have hcp := hI.clock_pos
        have hR : HeapRel s s' [obj] := by
          subst h
          refine ⟨?_, ?_, ?_, ?_, ?_, ?_, ?_, ?_, ?_, ?_⟩ <;> grind [upd]
        subst h
        refine Inv.frame' (t := t) hI hR rfl ?hX
          (ThreadOK.mk_some hT.noSusp (SuspsOK.frame hR _ ?dep hT.susp) ?pc) ?hXc
          (fun o _ => Owns.cur_step hcur (by simp [ownerPc])) ?hOwnX (fun r hr => Or.inl hr)
        case hX => intro x hx; simp at hx; subst hx; exact ⟨hlt, hopn, hoT⟩
        case dep => intro x hx _ _; simp at hx; subst hx; rw [hoD]; exact Nat.le_refl _
        case pc => refine ⟨⟨⟨?_, ?_, ?_, ?_, ?_⟩, ?_, ?_, ?_, ?_⟩, Nat.zero_le _⟩ <;> grind [upd]
        case hXc => intro x hx h1; simp at hx; subst hx; simp [hopn] at h1
        case hOwnX => intro x hx _ _; simp at hx; subst hx; exact Or.inl ⟨_, rfl, rfl, rfl⟩
      · simp [step, hcur, hc, setPc] at h
        subst h
        have hco := hI.cache_ok ty o hc
        exact hI.pure_step (t := t) rfl rfl rfl rfl rfl
          (ThreadOK.mk_some hT.noSusp hT.susp (show PcOK c s t _ ty obj (.wait o) from ⟨hco.1, hco.2.1, hco.2.2, P.1 o hc⟩))
          (fun o => Owns.cur_step hcur (by simp [ownerPc])) (fun r hr => Or.inl hr)
    | rel k =>
      have P : OwnK s t (s.thr t).susp.length ty obj k ∧ k ≤ (relsOf c ty).length := hP
      rcases hr : (relsOf c ty)[k]? with _ | r
      · simp [step, hcur, hr, setPc] at h
        subst h
        have hk : k = (relsOf c ty).length := by
          have := List.getElem?_eq_none_iff.1 hr
          omega
        exact hI.pure_step (t := t) rfl rfl rfl rfl rfl
          (ThreadOK.mk_some hT.noSusp hT.susp (show PcOK c s t _ ty obj .fin1 from
            ⟨P.1.own, P.1.stamped, P.1.cached, Or.inr (by rw [P.1.nrel, hk])⟩))
          (fun o => Owns.cur_step hcur (fun _ => ⟨rfl, rfl⟩)) (fun r hr => Or.inl hr)
      · have hk : k < (relsOf c ty).length := (List.getElem?_eq_some_iff.1 hr).1
        rcases hc : s.cache r.target with _ | fs
        · simp [step, hcur, hr, hc] at h
          subst h
          exact hI.pure_step (t := t) rfl rfl rfl rfl rfl
            (ThreadOK.mk_some (l := _ :: _)
              (fun hs => by
                have := hs ty r (List.mem_of_getElem? hr)
                rw [this, P.1.cached] at hc; cases hc)
              ⟨⟨P.1, hk⟩, hT.susp⟩
              (show PcOK c s t _ r.target 0 .load1 from fun o ho => by rw [hc] at ho; cases ho))
            (fun o => Owns.push hcur) (fun r hr => Or.inl hr)
        · simp [step, hcur, hr, hc] at h
          subst h
          have hfs : OnlySelfRels c → fs = obj := fun hs => by
            have := hs ty r (List.mem_of_getElem? hr)
            rw [this, P.1.cached] at hc
            exact (Option.some.inj hc).symm
          refine hI.pure_step (t := t) rfl rfl rfl rfl rfl
            (ThreadOK.mk_some hT.noSusp hT.susp (show PcOK c s t _ ty obj (.relSet k fs) from ⟨P.1, hk, hfs⟩))
            (fun o => Owns.cur_step hcur (fun _ => ⟨rfl, rfl⟩)) (fun r hr => Or.inl hr) ?_
          intro g hg
          simp at hg
          rcases hg with rfl | hg
          · have hco := hI.cache_ok _ _ hc
            exact Or.inr ⟨hco.1, hco.2.1, ⟨r, hr, hco.2.2⟩, fun hs => by rw [hfs hs]; exact P.1.own.ownT⟩
          · exact Or.inl hg
    | relSet k fs =>
      have P : OwnK s t (s.thr t).susp.length ty obj k ∧ k < (relsOf c ty).length ∧
        (OnlySelfRels c → fs = obj) := hP
      rcases hr : (relsOf c ty)[k]? with _ | r
      · exfalso
        have := List.getElem?_eq_none_iff.1 hr
        omega
      · obtain ⟨⟨⟨hlt, hoT, hoD, hty, hopn⟩, hst, hca, hne, hnr⟩, hk, hfs⟩ := P
        by_cases hbad : r.bad = true
        · simp [step, hcur, hr, hbad] at h
          have hR : HeapRel s s' [obj] := by
            subst h
            refine ⟨?_, ?_, ?_, ?_, ?_, ?_, ?_, ?_, ?_, ?_⟩ <;> grind [upd]
          subst h
          refine Inv.frame' (t := t) hI hR rfl ?hX
            (ThreadOK.mk_some hT.noSusp (SuspsOK.frame hR _ ?dep hT.susp) ?pc) ?hXc
            (fun o _ => Owns.cur_step hcur (fun _ => ⟨rfl, rfl⟩)) ?hOwnX (fun r hr => Or.inl hr)
          case hX => intro x hx; simp at hx; subst hx; exact ⟨hlt, hopn, hoT⟩
          case dep => intro x hx _ _; simp at hx; subst hx; rw [hoD]; exact Nat.le_refl _
          case pc => refine ⟨⟨?_, ?_, ?_, ?_, ?_⟩, ?_, ?_, Or.inl ?_⟩ <;> grind [upd]
          case hXc => intro x hx h1; simp at hx; subst hx; simp [hopn] at h1
          case hOwnX => intro x hx _ _; simp at hx; subst hx; exact Or.inl ⟨_, rfl, rfl, rfl⟩
        · simp [step, hcur, hr, hbad] at h
          have hR : HeapRel s s' [obj] := by
            subst h
            refine ⟨?_, ?_, ?_, ?_, ?_, ?_, ?_, ?_, ?_, ?_⟩ <;> grind [upd]
          subst h
          refine Inv.frame' (t := t) hI hR rfl ?hX
            (ThreadOK.mk_some hT.noSusp (SuspsOK.frame hR _ ?dep hT.susp) ?pc) ?hXc
            (fun o _ => Owns.cur_step hcur (fun _ => ⟨rfl, rfl⟩)) ?hOwnX (fun r hr => Or.inl hr) ?hB
          case hB => intro hs hb o; have := hfs hs; subst this; grind [upd]
          case hX => intro x hx; simp at hx; subst hx; exact ⟨hlt, hopn, hoT⟩
          case dep => intro x hx _ _; simp at hx; subst hx; rw [hoD]; exact Nat.le_refl _
          case pc => refine ⟨⟨⟨?_, ?_, ?_, ?_, ?_⟩, ?_, ?_, ?_, ?_⟩, hk⟩ <;> grind [upd]
          case hXc => intro x hx h1; exfalso; simp at hx; subst hx; grind [upd]
          case hOwnX => intro x hx _ _; simp at hx; subst hx; exact Or.inl ⟨_, rfl, rfl, rfl⟩
    | fin1 =>
      have P : Own s t (s.thr t).susp.length ty obj ∧ (s.objs obj).stamp ≠ 0 ∧ s.cache ty = some obj ∧
        ((s.objs obj).err = true ∨ (s.objs obj).nrel = (relsOf c ty).length) := hP
      by_cases he : (s.objs obj).err = true
      · simp [step, hcur, he] at h
        obtain ⟨⟨hlt, hoT, hoD, hty, hopn⟩, hst, hca, _⟩ := P
        have hR : HeapRel s s' [obj] := by
          subst h
          refine ⟨?_, ?_, ?_, ?_, ?_, ?_, ?_, ?_, ?_, ?_⟩ <;> grind [upd]
        subst h
        refine Inv.frame' (t := t) hI hR rfl ?hX
          (ThreadOK.mk_some hT.noSusp (SuspsOK.frame hR _ ?dep hT.susp) ?pc) ?hXc
          (fun o _ => Owns.cur_step hcur (fun _ => ⟨rfl, rfl⟩)) ?hOwnX (fun r hr => Or.inl hr)
        case hX => intro x hx; simp at hx; subst hx; exact ⟨hlt, hopn, hoT⟩
        case dep => intro x hx _ _; simp at hx; subst hx; rw [hoD]; exact Nat.le_refl _
        case pc => exact ⟨⟨hlt, hoT, hoD, hty, hopn⟩, hst, Or.inl he⟩
        case hXc => intro x hx h1; simp at hx; subst hx; simp [hopn] at h1
        case hOwnX => intro x hx _ _; simp at hx; subst hx; exact Or.inl ⟨_, rfl, rfl, rfl⟩
      · simp [step, hcur, he, setPc] at h
        subst h
        exact hI.pure_step (t := t) rfl rfl rfl rfl rfl
          (ThreadOK.mk_some hT.noSusp hT.susp (show PcOK c s t _ ty obj .fin2 from
            ⟨P.1, P.2.1, Or.inr ⟨P.2.2.1, P.2.2.2.resolve_left he⟩⟩))
          (fun o => Owns.cur_step hcur (fun _ => ⟨rfl, rfl⟩)) (fun r hr => Or.inl hr)
    | wait o =>
      have P : o < s.nobj ∧ (s.objs o).stamp ≠ 0 ∧ (s.objs o).ty = ty ∧ Below s (s.thr t).susp o := hP
      simp [step, hcur] at h
      obtain ⟨hcl, h⟩ := h
      have hret : ∀ nested, RetOK c s ⟨t, ty, o, (s.objs o).err, nested, (s.objs o).closed, (s.objs o).nrel⟩ := by
        intro nested
        refine ⟨hcl, P.1, hcl, ?_⟩
        intro he
        have := hI.closed_ok o P.1 hcl he P.2.1
        rw [P.2.2.1] at this
        exact ⟨he, P.2.1, P.2.2.1, this.2⟩
      rcases hl : (s.thr t).susp with _ | ⟨p, rest⟩
      · simp [doReturn, hl] at h
        subst h
        refine hI.pure_step (t := t) rfl rfl rfl rfl rfl
          ⟨trivial, (by intro f hf; cases hf), fun _ => rfl, fun _ => rfl⟩
          (fun o => Owns.top hcur hl (by simp [ownerPc])) ?_
        intro r hr
        simp at hr
        rcases hr with rfl | hr
        · exact Or.inr (hret false)
        · exact Or.inl hr
      · have hS : SuspsOK c s t (p :: rest) := hl ▸ hT.susp
        obtain ⟨⟨hk, hlen⟩, hrest⟩ := hS
        have hNone : ¬ OnlySelfRels c := fun hs => by have := hT.noSusp hs; rw [hl] at this; cases this
        have hNpop : OnlySelfRels c → rest = [] := fun hs => absurd hs hNone
        by_cases he : (s.objs o).err = true
        · simp [doReturn, hl, he] at h
          obtain ⟨⟨hlt, hoT, hoD, hty, hopn⟩, hst, hca, hne, hnr⟩ := hk
          have hR : HeapRel s s' [p.obj] := by
            subst h
            refine ⟨?_, ?_, ?_, ?_, ?_, ?_, ?_, ?_, ?_, ?_⟩ <;> grind [upd]
          subst h
          refine Inv.frame' (t := t) hI hR rfl ?hX
            (ThreadOK.mk_some hNpop (SuspsOK.frame hR _ ?dep hrest) ?pc) ?hXc
            (fun o _ => Owns.pop hcur hl ⟨rfl, rfl⟩ (by simp [ownerPc])) ?hOwnX ?hrets
          case hX => intro x hx; simp at hx; subst hx; exact ⟨hlt, hopn, hoT⟩
          case dep => intro x hx _ _; simp at hx; subst hx; rw [hoD]; exact Nat.le_refl _
          case pc => refine ⟨⟨?_, ?_, ?_, ?_, ?_⟩, ?_, ?_, Or.inl ?_⟩ <;> grind [upd]
          case hXc => intro x hx h1 h2; exfalso; simp at hx; subst hx; grind [upd]
          case hOwnX => intro x hx _ _; simp at hx; subst hx; exact Or.inl ⟨_, rfl, rfl, rfl⟩
          case hrets =>
            intro r hr
            simp at hr
            rcases hr with rfl | hr
            · refine Or.inr ⟨hcl, P.1, ?_, by intro h; cases h⟩
              grind [upd]
            · exact Or.inl hr
        · simp [doReturn, hl, he] at h
          subst h
          refine hI.pure_step (t := t) rfl rfl rfl rfl rfl
            (ThreadOK.mk_some hNpop hrest (show PcOK c s t _ p.ty p.obj (.relSet p.k o) from ⟨hk, hlen, fun hs => absurd hs hNone⟩))
            (fun o => Owns.pop hcur hl ⟨rfl, rfl⟩ (by simp [ownerPc])) ?_
          intro r hr
          simp at hr
          rcases hr with rfl | hr
          · have := hret true
            simp [he] at this
            exact Or.inr this
          · exact Or.inl hr
    | fin2 =>
      have P : Own s t (s.thr t).susp.length ty obj ∧ (s.objs obj).stamp ≠ 0 ∧
        ((s.objs obj).err = true ∨ (s.cache ty = some obj ∧ (s.objs obj).nrel = (relsOf c ty).length)) := hP
      simp [step, hcur] at h
      obtain ⟨⟨hlt, hoT, hoD, hty, hopn⟩, hst, hfin⟩ := P
      rcases hl : (s.thr t).susp with _ | ⟨p, rest⟩
      · simp [doReturn, hl] at h
        have hR : HeapRel s s' [obj] := by
          subst h
          refine ⟨?_, ?_, ?_, ?_, ?_, ?_, ?_, ?_, ?_, ?_⟩ <;> grind [upd]
        subst h
        refine Inv.frame' (t := t) hI hR rfl ?hX
          ⟨trivial, (by intro f hf; cases hf), fun _ => rfl, fun _ => rfl⟩ ?hXc
          (fun o hx => Owns.top hcur hl (fun _ => by simpa using hx)) ?hOwnX ?hrets
        case hX => intro x hx; simp at hx; subst hx; exact ⟨hlt, hopn, hoT⟩
        case hXc => intro x hx h1 h2 h3; simp at hx; subst hx; grind [upd]
        case hOwnX => intro x hx _ h2; exfalso; simp at hx; subst hx; grind [upd]
        case hrets =>
          intro r hr
          simp at hr
          rcases hr with rfl | hr
          · refine Or.inr ⟨rfl, hlt, ?_, ?_⟩ <;> grind [upd]
          · exact Or.inl hr
      · have hS : SuspsOK c s t (p :: rest) := hl ▸ hT.susp
        obtain ⟨⟨hk, hlen⟩, hrest⟩ := hS
        have hNone : ¬ OnlySelfRels c := fun hs => by have := hT.noSusp hs; rw [hl] at this; cases this
        have hNpop : OnlySelfRels c → rest = [] := fun hs => absurd hs hNone
        have hne : p.obj ≠ obj := by
          intro h0
          have := hk.own.ownD
          rw [h0, hoD, hl] at this
          simp at this
        by_cases he : (s.objs obj).err = true
        · simp [doReturn, hl, he] at h
          obtain ⟨⟨hlt2, hoT2, hoD2, hty2, hopn2⟩, hst2, hca2, hne2, hnr2⟩ := hk
          have hR : HeapRel s s' [obj, p.obj] := by
            subst h
            refine ⟨?_, ?_, ?_, ?_, ?_, ?_, ?_, ?_, ?_, ?_⟩ <;> grind [upd]
          subst h
          refine Inv.frame' (t := t) hI hR rfl ?hX
            (ThreadOK.mk_some hNpop (SuspsOK.frame hR _ ?dep hrest) ?pc) ?hXc
            (fun o hx => Owns.pop hcur hl ⟨rfl, rfl⟩ (fun _ => by simp at hx; exact hx.1)) ?hOwnX ?hrets
          case hX =>
            intro x hx; simp at hx
            rcases hx with rfl | rfl
            · exact ⟨hlt, hopn, hoT⟩
            · exact ⟨hlt2, hopn2, hoT2⟩
          case dep =>
            intro x hx _ _; simp at hx
            rcases hx with rfl | rfl
            · rw [hoD, hl]; simp
            · rw [hoD2]; exact Nat.le_refl _
          case pc => refine ⟨⟨?_, ?_, ?_, ?_, ?_⟩, ?_, ?_, Or.inl ?_⟩ <;> grind [upd]
          case hXc =>
            intro x hx h1 h2; exfalso; simp at hx
            rcases hx with rfl | rfl <;> grind [upd]
          case hOwnX =>
            intro x hx _ h2; simp at hx
            rcases hx with rfl | rfl
            · exfalso; grind [upd]
            · exact Or.inl ⟨_, rfl, rfl, rfl⟩
          case hrets =>
            intro r hr
            simp at hr
            rcases hr with rfl | hr
            · refine Or.inr ⟨rfl, hlt, ?_, by intro h; cases h⟩
              grind [upd]
            · exact Or.inl hr
        · simp [doReturn, hl, he] at h
          have hR : HeapRel s s' [obj] := by
            subst h
            refine ⟨?_, ?_, ?_, ?_, ?_, ?_, ?_, ?_, ?_, ?_⟩ <;> grind [upd]
          subst h
          refine Inv.frame' (t := t) hI hR rfl ?hX
            (ThreadOK.mk_some hNpop (SuspsOK.frame hR _ ?dep hrest) ?pc) ?hXc
            (fun o hx => Owns.pop hcur hl ⟨rfl, rfl⟩ (fun _ => by simpa using hx)) ?hOwnX ?hrets
          case hX => intro x hx; simp at hx; subst hx; exact ⟨hlt, hopn, hoT⟩
          case dep => intro x hx _ _; simp at hx; subst hx; rw [hoD, hl]; simp
          case pc => exact ⟨hk.frame hR (by simpa using hne), hlen, fun hs => absurd hs hNone⟩
          case hXc => intro x hx h1 h2 h3; simp at hx; subst hx; grind [upd]
          case hOwnX => intro x hx _ h2; exfalso; simp at hx; subst hx; grind [upd]
          case hrets =>
            intro r hr
            simp at hr
            rcases hr with rfl | hr
            · refine Or.inr ⟨rfl, hlt, ?_, ?_⟩ <;> grind [upd]
            · exact Or.inl hr

end Gorm.SchemaCache
