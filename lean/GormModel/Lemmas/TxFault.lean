import GormModel.Model.TxFault
namespace Gorm.TxF

theorem addError_ne_none (cur err : Option String) (h : cur ≠ none) : addError cur err ≠ none := by
  cases cur with
  | none => exact absurd rfl h
  | some c => cases err <;> simp [addError]

theorem addError_none_left (e : Option String) : addError none e = e := by
  cases e <;> simp [addError]

theorem stmt_err_sticky (s : St) (e : Option String) (h : s.err ≠ none) : (stmt s e).err ≠ none := by
  unfold stmt
  cases hs : s.err with
  | none => exact absurd hs h
  | some c => simp [hs]

theorem stmt_frame (s : St) (e : Option String) :
    (stmt s e).started = s.started ∧ (stmt s e).onTx = s.onTx ∧ (stmt s e).openTx = s.openTx := by
  unfold stmt; cases s.err <;> simp

theorem stmt_noC (s : St) (e : Option String) (h : "C" ∉ s.log) : "C" ∉ (stmt s e).log := by
  unfold stmt
  cases s.err with
  | some c => simpa using h
  | none => cases e <;> simp [h]

theorem stmts_err_sticky (s : St) (es : List (Option String)) (h : s.err ≠ none) : (stmts s es).err ≠ none := by
  induction es generalizing s with
  | nil => simpa [stmts] using h
  | cons e es ih => exact ih _ (stmt_err_sticky s e h)

theorem stmts_frame (s : St) (es : List (Option String)) :
    (stmts s es).started = s.started ∧ (stmts s es).onTx = s.onTx ∧ (stmts s es).openTx = s.openTx := by
  induction es generalizing s with
  | nil => simp [stmts]
  | cons e es ih =>
    have h1 := ih (stmt s e)
    have h2 := stmt_frame s e
    simp only [stmts]
    exact ⟨h1.1.trans h2.1, h1.2.1.trans h2.2.1, h1.2.2.trans h2.2.2⟩

theorem stmts_noC (s : St) (es : List (Option String)) (h : "C" ∉ s.log) : "C" ∉ (stmts s es).log := by
  induction es generalizing s with
  | nil => simpa [stmts] using h
  | cons e es ih => exact ih _ (stmt_noC s e h)

/-- a failing statement among those of the operation leaves the error set -/
theorem stmts_reports (s : St) (es : List (Option String)) (h : es.any Option.isSome = true) :
    (stmts s es).err ≠ none := by
  induction es generalizing s with
  | nil => simp at h
  | cons e es ih =>
    simp only [stmts]
    cases hs : s.err with
    | some c => exact stmts_err_sticky _ _ (stmt_err_sticky s e (by simp [hs]))
    | none =>
      cases e with
      | some x =>
        apply stmts_err_sticky
        simp [stmt, hs, addError]
      | none =>
        apply ih
        simpa using h

/-- without any failure every statement runs, in order -/
theorem stmts_all_ok (s : St) (es : List (Option String)) (hs : s.err = none) (h : es.all Option.isNone = true) :
    stmts s es = { s with log := s.log ++ List.replicate es.length "S" } := by
  induction es generalizing s with
  | nil => simp [stmts]
  | cons e es ih =>
    cases e with
    | some x => simp at h
    | none =>
      have hall : es.all Option.isNone = true := by simpa using h
      have hst : stmt s none = { s with log := s.log ++ ["S"] } := by
        simp [stmt, hs, addError]
      simp only [stmts, hst]
      rw [ih _ (by simpa using hs) hall]
      simp [List.replicate_succ, List.append_assoc]

theorem begin_ok : beginTransaction false St.init .ok =
    { err := none, started := true, onTx := true, openTx := 1, log := ["B"] } := by decide

theorem begin_inv (b : BeginRes) :
    ((beginTransaction false St.init b).started = true →
        (beginTransaction false St.init b).openTx = 1) ∧
    ((beginTransaction false St.init b).started = false →
        (beginTransaction false St.init b).openTx = 0 ∧ (beginTransaction false St.init b).onTx = false) ∧
    "C" ∉ (beginTransaction false St.init b).log := by
  cases b <;> simp [beginTransaction, St.init, beginErr]

theorem finish_sticky (skip : Bool) (s : St) (c r : Option String) (h : s.err ≠ none) :
    (commitOrRollback skip s c r).err ≠ none := by
  cases hs : s.err with
  | none => exact absurd hs h
  | some x =>
    unfold commitOrRollback
    cases skip <;> cases s.started <;> cases r <;> simp [hs, addError]

theorem finish_reports (s : St) (c r : Option String) (hst : s.started = true)
    (h : s.err ≠ none ∨ c ≠ none) : (commitOrRollback false s c r).err ≠ none := by
  cases hs : s.err with
  | some x => exact finish_sticky _ _ _ _ (by simp [hs])
  | none =>
    cases c with
    | none => simp [hs] at h
    | some y => simp [commitOrRollback, hst, hs, addError]

theorem finish_finished (s : St) (c r : Option String)
    (h1 : s.started = true → s.openTx = 1)
    (h2 : s.started = false → s.openTx = 0 ∧ s.onTx = false) :
    (commitOrRollback false s c r).openTx = 0 ∧ (commitOrRollback false s c r).onTx = false := by
  cases hst : s.started with
  | false => simpa [commitOrRollback, hst] using h2 hst
  | true =>
    have := h1 hst
    cases hs : s.err <;> simp [commitOrRollback, hst, hs, this]

theorem finish_noC (s : St) (c r : Option String) (hC : "C" ∉ s.log)
    (herr : (commitOrRollback false s c r).err ≠ none) : "C" ∉ (commitOrRollback false s c r).log := by
  cases hst : s.started with
  | false => simpa [commitOrRollback, hst] using hC
  | true =>
    cases hs : s.err with
    | some x => cases r <;> simp [commitOrRollback, hst, hs, hC]
    | none =>
      cases c with
      | none => simp [commitOrRollback, hst, hs, addError] at herr
      | some y => simp [commitOrRollback, hst, hs, hC]

end Gorm.TxF
