/-
  C06 — lemmas about the heap model (Model/Heap.lean).

  `Grows H H'`  : every backing array of `H` is still there in `H'` and its initialised slots are a
                  prefix of what `H'` holds (arrays only grow at the frontier, nothing exposed changes).
  `Ext H H'`    : the ghost counter of exposed-slot writes does not decrease, and if it did not move at
                  all then `Grows H H'`.  `Ext` is transitive, and every primitive, every MergeClause,
                  every chain method, `clone`, `getInstance`, `Where.Build` and every history step
                  satisfies it — by case analysis over the step semantics.
-/
import GormModel.Model.Heap
namespace Gorm.Heap

def Grows (H H' : Heap) : Prop :=
  H.arrs.length ≤ H'.arrs.length ∧ ∀ a, a < H.arrs.length → ∃ t, H'.cells a = H.cells a ++ t

def Ext (H H' : Heap) : Prop := H.writes ≤ H'.writes ∧ (H'.writes = H.writes → Grows H H')

theorem Grows.refl (H : Heap) : Grows H H := ⟨Nat.le_refl _, fun _ _ => ⟨[], by simp⟩⟩

theorem Grows.trans {A B C : Heap} (h1 : Grows A B) (h2 : Grows B C) : Grows A C := by
  refine ⟨Nat.le_trans h1.1 h2.1, fun a ha => ?_⟩
  obtain ⟨t1, e1⟩ := h1.2 a ha
  obtain ⟨t2, e2⟩ := h2.2 a (Nat.lt_of_lt_of_le ha h1.1)
  exact ⟨t1 ++ t2, by rw [e2, e1, List.append_assoc]⟩

theorem Ext.refl (H : Heap) : Ext H H := ⟨Nat.le_refl _, fun _ => Grows.refl H⟩

theorem Ext.trans {A B C : Heap} (h1 : Ext A B) (h2 : Ext B C) : Ext A C := by
  refine ⟨Nat.le_trans h1.1 h2.1, fun e => ?_⟩
  have hb : B.writes = A.writes := Nat.le_antisymm (e ▸ h2.1) h1.1
  exact Grows.trans (h1.2 hb) (h2.2 (by omega))

theorem Ext.writes_le {A B : Heap} (h : Ext A B) : A.writes ≤ B.writes := h.1

/-- a slice that lies inside the initialised part of its array -/
def Slice.validIn (s : Slice) (H : Heap) : Prop := s.off + s.len ≤ (H.cells s.arr).length ∧ (s.len > 0 → s.arr < H.arrs.length)

/-- FROZEN, slice level: what a valid slice exposes is the same in every heap that grew from this one -/
theorem readS_of_grows {H H' : Heap} (g : Grows H H') (s : Slice) (v : s.validIn H) : readS H' s = readS H s := by
  unfold readS
  by_cases hl : s.len = 0
  · simp [hl]
  · have ha := v.2 (Nat.pos_of_ne_zero hl)
    obtain ⟨t, e⟩ := g.2 s.arr ha
    rw [e, List.drop_append_of_le_length (by have := v.1; omega)]
    rw [List.take_append_of_le_length (by simp; have := v.1; omega)]

/-! ## primitives -/

theorem cells_append_lt (arrs : List (List Cell)) (x : List Cell) (w a : Nat) (h : a < arrs.length) :
    (Heap.mk (arrs ++ [x]) w).cells a = (Heap.mk arrs w).cells a := by
  simp [Heap.cells, List.getD_eq_getElem?_getD, List.getElem?_append_left h]

theorem alloc_ext (H : Heap) (cs : List Cell) (cap : Nat) : Ext H (alloc H cs cap).1 := by
  refine ⟨Nat.le_refl _, fun _ => ⟨by simp [alloc], fun a ha => ⟨[], ?_⟩⟩⟩
  simp only [alloc, List.append_nil]
  exact cells_append_lt H.arrs cs H.writes a ha

theorem alloc_writes (H : Heap) (cs : List Cell) (cap : Nat) : (alloc H cs cap).1.writes = H.writes := rfl

theorem writeAt_ext (H : Heap) (a i : Nat) (c : Cell) : Ext H (writeAt H a i c) := by
  unfold writeAt
  split
  · exact ⟨by simp, fun e => by simp at e⟩
  · split
    · rename_i h1 h2
      refine ⟨Nat.le_refl _, fun _ => ⟨by simp, fun b hb => ?_⟩⟩
      by_cases hba : b = a
      · subst hba
        exact ⟨[c], by simp [Heap.cells, List.getD_eq_getElem?_getD, hb]⟩
      · exact ⟨[], by simp [Heap.cells, List.getD_eq_getElem?_getD, List.getElem?_set_ne (Ne.symm hba)]⟩
    · exact ⟨by simp, fun e => by simp at e⟩

theorem writeFrom_ext (H : Heap) (a i : Nat) (cs : List Cell) : Ext H (writeFrom H a i cs) := by
  induction cs generalizing H i with
  | nil => exact Ext.refl H
  | cons c cs ih => exact Ext.trans (writeAt_ext H a i c) (ih _ _)

theorem appendS_ext (H : Heap) (s : Slice) (cs : List Cell) : Ext H (appendS H s cs).1 := by
  unfold appendS
  split
  · exact Ext.refl H
  · split
    · exact writeFrom_ext _ _ _ _
    · exact alloc_ext _ _ _

theorem makeCopy_ext (H : Heap) (s : Slice) : Ext H (makeCopy H s).1 := alloc_ext _ _ _

theorem makeCopy_writes (H : Heap) (s : Slice) : (makeCopy H s).1.writes = H.writes := rfl

/-- `append` onto a slice without spare capacity never writes an exposed slot: it reallocates -/
theorem appendS_full_writes (H : Heap) (s : Slice) (cs : List Cell) (h : s.cap ≤ s.len) :
    (appendS H s cs).1.writes = H.writes := by
  unfold appendS
  split
  · rfl
  · rename_i hne
    split
    · rename_i hfit
      have : cs.length = 0 := by omega
      simp [List.length_eq_zero_iff.mp this] at hne
    · rfl

theorem makeCopy_cap (H : Heap) (s : Slice) : (makeCopy H s).2.cap ≤ (makeCopy H s).2.len := by
  simp [makeCopy, alloc, readS]

/-! ## clone / getInstance -/

theorem cloneField_ext (k : CopyKind) (H : Heap) (s : Slice) : Ext H (cloneField k H s).1 := by
  unfold cloneField
  cases k <;> simp only <;> try exact Ext.refl H
  split
  · exact makeCopy_ext _ _
  · exact Ext.refl H

theorem cloneField_writes (k : CopyKind) (H : Heap) (s : Slice) : (cloneField k H s).1.writes = H.writes := by
  unfold cloneField
  cases k <;> simp only
  split <;> rfl

theorem cloneStmt_ext (c : CloneCfg) (H : Heap) (st : Stmt) : Ext H (cloneStmt c H st).1 := by
  unfold cloneStmt
  exact Ext.trans (cloneField_ext _ _ _) (Ext.trans (cloneField_ext _ _ _) (Ext.trans (cloneField_ext _ _ _) (cloneField_ext _ _ _)))

/-- FROZEN, `Statement.clone()`: whatever the copy discipline, cloning writes no exposed slot -/
theorem cloneStmt_writes (c : CloneCfg) (H : Heap) (st : Stmt) : (cloneStmt c H st).1.writes = H.writes := by
  unfold cloneStmt
  simp only [cloneField_writes]

theorem getInstance_ext (c : CloneCfg) (H : Heap) (h : Handle) : Ext H (getInstance c H h).1 := by
  unfold getInstance
  split
  · exact Ext.refl H
  · split
    · exact Ext.refl H
    · split
      · exact cloneStmt_ext _ _ _
      · exact Ext.refl H

theorem getInstance_writes (c : CloneCfg) (H : Heap) (h : Handle) : (getInstance c H h).1.writes = H.writes := by
  unfold getInstance
  split
  · rfl
  · split
    · rfl
    · split
      · exact cloneStmt_writes _ _ _
      · rfl

/-! ## MergeClause -/

theorem mergeSlices_ext (k : MergeKind) (H : Heap) (o n : Slice) : Ext H (mergeSlices k H o n).1 := by
  unfold mergeSlices
  cases k <;> simp only
  · exact Ext.trans (makeCopy_ext H o) (appendS_ext _ _ _)
  · exact appendS_ext _ _ _
  · exact Ext.refl H

/-- FROZEN, merge by make+copy / replace: no exposed slot is written, in ANY heap -/
theorem mergeSlices_writes (k : MergeKind) (hk : k ≠ .appendOld) (H : Heap) (o n : Slice) :
    (mergeSlices k H o n).1.writes = H.writes := by
  unfold mergeSlices
  cases k <;> simp only
  · rw [appendS_full_writes _ _ _ (makeCopy_cap H o)]; rfl
  · exact absurd rfl hk

theorem mergeWhere_ext (k : MergeKind) (H : Heap) (o : Option Slice) (n : Slice) : Ext H (mergeWhere k H o n).1 := by
  unfold mergeWhere
  cases o with
  | none => exact Ext.refl H
  | some o =>
    cases k <;> simp only
    · exact alloc_ext _ _ _
    · exact mergeSlices_ext _ _ _ _
    · exact mergeSlices_ext _ _ _ _

theorem mergeWhere_writes (k : MergeKind) (hk : k ≠ .appendOld) (H : Heap) (o : Option Slice) (n : Slice) :
    (mergeWhere k H o n).1.writes = H.writes := by
  unfold mergeWhere
  cases o with
  | none => rfl
  | some o =>
    cases k <;> simp only
    · rfl
    · exact absurd rfl hk
    · exact mergeSlices_writes _ (by decide) _ _ _

theorem addWhere_ext (m : MergeCfg) (H : Heap) (st : Stmt) (n : Slice) : Ext H (addWhere m H st n).1 :=
  mergeWhere_ext _ _ _ _

theorem addWhere_writes (m : MergeCfg) (hk : m.wher ≠ .appendOld) (H : Heap) (st : Stmt) (n : Slice) :
    (addWhere m H st n).1.writes = H.writes := mergeWhere_writes _ hk _ _ _

theorem addOrder_ext (m : MergeCfg) (H : Heap) (st : Stmt) (n : Slice) : Ext H (addOrder m H st n).1 := by
  unfold addOrder
  split
  · exact Ext.refl H
  · exact mergeSlices_ext _ _ _ _

theorem addOrder_writes (m : MergeCfg) (hk : m.order ≠ .appendOld) (H : Heap) (st : Stmt) (n : Slice) :
    (addOrder m H st n).1.writes = H.writes := by
  unfold addOrder
  split
  · rfl
  · exact mergeSlices_writes _ hk _ _ _

theorem addGroup_ext (m : MergeCfg) (H : Heap) (st : Stmt) (c hv : Slice) : Ext H (addGroup m H st c hv).1 := by
  unfold addGroup
  split
  · exact Ext.refl H
  · exact Ext.trans (mergeSlices_ext _ _ _ _) (mergeSlices_ext _ _ _ _)

theorem addGroup_writes (m : MergeCfg) (hk : m.group ≠ .appendOld) (H : Heap) (st : Stmt) (c hv : Slice) :
    (addGroup m H st c hv).1.writes = H.writes := by
  unfold addGroup
  split
  · rfl
  · simp only
    rw [mergeSlices_writes _ hk, mergeSlices_writes _ hk]

theorem addRet_ext (m : MergeCfg) (H : Heap) (st : Stmt) (n : Option Slice) : Ext H (addRet m H st n).1 := by
  unfold addRet
  split
  · split
    · exact mergeSlices_ext _ _ _ _
    · exact Ext.refl H
  · split <;> exact Ext.refl H
  · exact Ext.refl H

/-- FROZEN, Returning.MergeClause — holds as soon as the merge copies (a repaired tree) -/
theorem addRet_writes (m : MergeCfg) (hk : m.ret ≠ .appendOld) (H : Heap) (st : Stmt) (n : Option Slice) :
    (addRet m H st n).1.writes = H.writes := by
  unfold addRet
  split
  · split
    · exact mergeSlices_writes _ hk _ _ _
    · rfl
  · split <;> rfl
  · rfl

/-! ## conditions and rendering -/

theorem condAtom_ext (H : Heap) (a : Nat) : Ext H (condAtom H a).1 := alloc_ext _ _ _

theorem buildCondGroup_ext (cp : Bool) (H : Heap) (arg : Stmt) : Ext H (buildCondGroup cp H arg).1 := by
  unfold buildCondGroup
  split
  · exact alloc_ext _ _ _
  · simp only
    have h1 : ∀ w : Slice, Ext H (match readS H w with
        | [.orc o] => if cp then alloc H [.andc o] 1 else (writeAt H w.arr w.off (.andc o), w)
        | _ => (H, w) : Heap × Slice).1 := by
      intro w; split
      · split
        · exact alloc_ext _ _ _
        · exact writeAt_ext _ _ _ _
      · exact Ext.refl H
    split
    · exact Ext.trans (h1 _) (alloc_ext _ _ _)
    · exact Ext.trans (h1 _) (alloc_ext _ _ _)

theorem wrapCond_ext (H : Heap) (kind : Nat) (conds : Slice) : Ext H (wrapCond H kind conds).1 := by
  unfold wrapCond
  split
  · exact Ext.refl H
  · split
    · exact Ext.refl H
    · split
      · split
        · exact Ext.refl H
        · rename_i c _
          exact Ext.trans (alloc_ext H [c] 1) (alloc_ext (alloc H [c] 1).1 [.orc (alloc H [c] 1).2] 1)
      · exact alloc_ext H _ 1

theorem wrapCond_writes (H : Heap) (kind : Nat) (conds : Slice) : (wrapCond H kind conds).1.writes = H.writes := by
  unfold wrapCond
  split
  · rfl
  · split
    · rfl
    · split
      · split <;> rfl
      · rfl

theorem whereBuild_ext (cp : Bool) (fuel : Nat) (H : Heap) (w : Slice) : Ext H (whereBuild cp fuel H w).1 := by
  unfold whereBuild
  simp only
  split
  · split
    · exact Ext.refl H
    · exact Ext.trans (writeAt_ext _ _ _ _) (writeAt_ext _ _ _ _)
  · exact Ext.refl H

/-- FROZEN, `Where.Build` that swaps on a copy: the heap is not touched at all -/
theorem whereBuild_copies_heap (fuel : Nat) (H : Heap) (w : Slice) : (whereBuild true fuel H w).1 = H := by
  unfold whereBuild
  simp only
  split <;> rfl

/-! ## rendering and history steps -/

theorem foldl_ext {α β : Type} (f : Heap × β → α → Heap × β) (hf : ∀ p a, Ext p.1 (f p a).1) (l : List α) (p : Heap × β) :
    Ext p.1 (l.foldl f p).1 := by
  induction l generalizing p with
  | nil => exact Ext.refl _
  | cons a l ih => exact Ext.trans (hf p a) (ih _)

theorem execScopes_ext (m : MergeCfg) (H : Heap) (st : Stmt) : Ext H (execScopes m H st).1 := by
  unfold execScopes
  exact foldl_ext _ (fun p a => Ext.trans (condAtom_ext p.1 a) (addWhere_ext _ _ _ _)) _ (H, _)

theorem firstPrep_ext (m : MergeCfg) (fin : Nat) (H : Heap) (st : Stmt) : Ext H (firstPrep m fin H st).1 := by
  unfold firstPrep
  split
  · exact Ext.trans (alloc_ext H [.atom 0] 1) (addOrder_ext _ _ _ _)
  · exact Ext.refl H

theorem whereToks_ext (cp : Bool) (fuel : Nat) (H : Heap) (st : Stmt) : Ext H (whereToks cp fuel H st).1 := by
  unfold whereToks
  split
  · exact whereBuild_ext cp fuel H _
  · exact Ext.refl H

theorem groupToks_ext (cp : Bool) (fuel : Nat) (H : Heap) (st : Stmt) : Ext H (groupToks cp fuel H st).1 := by
  unfold groupToks
  split
  · split
    · exact whereBuild_ext cp fuel H _
    · exact Ext.refl H
  · exact Ext.refl H

theorem renderStmt_ext (m : MergeCfg) (cp : Bool) (fuel : Nat) (H : Heap) (st : Stmt) (fin : Nat) :
    Ext H (renderStmt m cp fuel H st fin).1 := by
  unfold renderStmt
  simp only
  split
  · exact Ext.trans (execScopes_ext m H st) (Ext.trans (firstPrep_ext _ _ _ _) (whereToks_ext _ _ _ _))
  · exact Ext.trans (execScopes_ext m H st) (Ext.trans (firstPrep_ext _ _ _ _) (Ext.trans (whereToks_ext _ _ _ _) (groupToks_ext _ _ _ _)))

theorem appendFold_ext (l : List Nat) (p : Heap × Slice) :
    Ext p.1 (l.foldl (fun (p : Heap × Slice) b => appendS p.1 p.2 [.atom b]) p).1 :=
  foldl_ext _ (fun p _ => appendS_ext p.1 p.2 _) l p

theorem groupArgStmt_ext (c : CloneCfg) (m : MergeCfg) (inst : Bool) (H : Heap) (arg : Handle) :
    Ext H (groupArgStmt c m inst H arg).1 := by
  unfold groupArgStmt
  split
  · exact Ext.refl H
  · split
    · exact Ext.trans (cloneStmt_ext c H arg.st) (execScopes_ext _ _ _)
    · split
      · exact execScopes_ext _ _ _
      · exact Ext.refl H

theorem chainOn_ext (c : Cfg) (slices : List (List Nat × Nat)) (S : State) (H : Heap) (st : Stmt) (op : Op) :
    Ext H (chainOn c slices S H st op).1 := by
  cases op <;> simp only [chainOn] <;> try exact Ext.refl H
  case cond kind _ a =>
    have h0 := Ext.trans (condAtom_ext H a) (wrapCond_ext (condAtom H a).1 kind (condAtom H a).2)
    split
    · rename_i e; rw [e] at h0; exact Ext.trans h0 (addWhere_ext _ _ _ _)
    · rename_i e; rw [e] at h0; exact h0
  case condG kind _ arg =>
    have hg := groupArgStmt_ext c.cl c.mg c.fx.groupInstance H (S.handle arg)
    generalize groupArgStmt c.cl c.mg c.fx.groupInstance H (S.handle arg) = ga at hg ⊢
    have h0 := Ext.trans hg (Ext.trans (buildCondGroup_ext c.fx.groupCopies ga.1 ga.2) (wrapCond_ext (buildCondGroup c.fx.groupCopies ga.1 ga.2).1 kind (buildCondGroup c.fx.groupCopies ga.1 ga.2).2))
    split
    · rename_i e; rw [e] at h0; exact Ext.trans h0 (addWhere_ext _ _ _ _)
    · rename_i e; rw [e] at h0; exact h0
  case order _ a => exact Ext.trans (alloc_ext H [.atom a] 1) (addOrder_ext _ _ _ _)
  case orderC => exact addOrder_ext _ _ _ _
  case group _ a => exact Ext.trans (alloc_ext H [.atom a] 1) (addGroup_ext _ _ _ _ _)
  case having _ a => exact Ext.trans (condAtom_ext H a) (addGroup_ext _ _ _ _ _)
  case havingG _ arg =>
    exact Ext.trans (groupArgStmt_ext c.cl c.mg c.fx.groupInstance H (S.handle arg))
      (Ext.trans (buildCondGroup_ext _ _ _) (addGroup_ext _ _ _ _ _))
  case ret _ cols => exact Ext.trans (alloc_ext H (cols.map .atom) cols.length) (addRet_ext _ _ _ _)
  case retStar => exact addRet_ext _ _ _ _
  case select _ cols =>
    cases cols with
    | nil => exact Ext.refl H
    | cons a rest => exact Ext.trans (alloc_ext H [.atom a] 1) (appendFold_ext rest _)
  case selectS _ sl k extra =>
    split
    · exact Ext.trans (makeCopy_ext H _) (appendFold_ext extra _)
    · exact appendFold_ext extra (H, _)
  case «omit» _ cols => exact alloc_ext _ _ _
  case joins => exact appendS_ext _ _ _
  case scopes => exact appendS_ext _ _ _

theorem step_ext (c : Cfg) (slices : List (List Nat × Nat)) (fuel : Nat) (S : State) (op : Op) :
    Ext S.heap (step c slices fuel S op).heap := by
  have hc : ∀ (i : Nat) (o : Op), Ext S.heap (chainOn c slices S (getInstance c.cl S.heap (S.handle i)).1 (getInstance c.cl S.heap (S.handle i)).2.st o).1 :=
    fun i o => Ext.trans (getInstance_ext _ _ _) (chainOn_ext _ _ _ _ _ _)
  cases op <;> simp only [step, push, Op.src] <;> try exact hc _ _
  case skip => exact Ext.refl _
  case session => exact Ext.refl _
  case newdb => exact Ext.refl _
  case ctx => exact cloneStmt_ext _ _ _
  case begin => exact Ext.trans (getInstance_ext _ _ _) (cloneStmt_ext _ _ _)
  case render => exact Ext.trans (getInstance_ext _ _ _) (renderStmt_ext _ _ _ _ _ _)

theorem runFrom_ext (c : Cfg) (slices : List (List Nat × Nat)) (fuel : Nat) (ops : List Op) (S : State) :
    Ext S.heap (runFrom c slices fuel S ops).heap := by
  induction ops generalizing S with
  | nil => exact Ext.refl _
  | cons op ops ih => exact Ext.trans (step_ext c slices fuel S op) (ih _)

theorem runFrom_append (c : Cfg) (slices : List (List Nat × Nat)) (fuel : Nat) (S : State) (a b : List Op) :
    runFrom c slices fuel S (a ++ b) = runFrom c slices fuel (runFrom c slices fuel S a) b := by
  simp [runFrom, List.foldl_append]

/-- the chain methods whose only heap effects are allocations and merges -/
def Op.copying : Op → Bool
  | .cond _ _ _ | .order _ _ | .orderC _ _ _ | .group _ _ | .having _ _ | .ret _ _ | .retStar _
  | .limit _ _ | .offset _ _ | .omit _ _ | .distinct _ | .table _ _ | .unscoped _ | .lock _ _ | .skip => true
  | _ => false

theorem chainOn_writes (c : Cfg) (hw : c.mg.wher ≠ .appendOld) (ho : c.mg.order ≠ .appendOld)
    (hg : c.mg.group ≠ .appendOld)
    (slices : List (List Nat × Nat)) (S : State) (H : Heap) (st : Stmt) (op : Op) (hop : op.copying = true)
    (hr : c.mg.ret ≠ .appendOld ∨ ∀ s cols, op ≠ .ret s cols) :
    (chainOn c slices S H st op).1.writes = H.writes := by
  cases op <;> (try (simp [Op.copying] at hop)) <;> simp only [chainOn]
  case cond kind _ a =>
    have h0 : (wrapCond (condAtom H a).1 kind (condAtom H a).2).1.writes = H.writes := by rw [wrapCond_writes]; rfl
    split
    · rename_i e; rw [e] at h0; rw [addWhere_writes _ hw]; exact h0
    · rename_i e; rw [e] at h0; exact h0
  case order _ a => rw [addOrder_writes _ ho]; rfl
  case orderC => exact addOrder_writes _ ho _ _ _
  case group _ a => rw [addGroup_writes _ hg]; rfl
  case having _ a => rw [addGroup_writes _ hg]; rfl
  case ret _ cols =>
    rcases hr with hr | hr
    · rw [addRet_writes _ hr]; rfl
    · exact absurd rfl (hr _ _)
  case retStar =>
    unfold addRet
    cases st.ret with
    | none => rfl
    | some o => cases o <;> rfl
  case «omit» => rfl

end Gorm.Heap
