import GormModel.Model.AssocHandle
namespace Gorm.Assoc

/-- invariant of the handle store: variables point to allocated structs, and the Unscope flag of the struct a variable points to
    is the flag the variable was DECLARED with (false for `Association(..)`, true for the result of `Unscoped()`) -/
structure HInv (h : Heap) : Prop where
  bound : ∀ v a, h.var v = some a → a < h.next
  flag : ∀ v a, h.var v = some a → (h.cell a).unscope = h.declared v

theorem hinv_init : HInv {} := ⟨by intro v a h; simp at h, by intro v a h; simp at h⟩

theorem hupd_same {α} (f : Nat → α) (o : Nat) (x : α) : upd f o x o = x := by simp [upd]
theorem hupd_other {α} (f : Nat → α) (o y : Nat) (x : α) (h : y ≠ o) : upd f o x y = f y := by simp [upd, h]

theorem exec_inv (card1 : Nat → Bool) (h : Heap) (i : Instr) (hi : HInv h) : HInv (exec true card1 h i).1 := by
  cases i with
  | assoc v rel =>
    simp only [exec]
    constructor
    · intro v' a hv
      dsimp only at hv ⊢
      by_cases hvv : v' = v
      · subst hvv
        rw [hupd_same] at hv
        cases hv
        omega
      · rw [hupd_other _ _ _ _ hvv] at hv
        have := hi.bound v' a hv
        omega
    · intro v' a hv
      dsimp only at hv ⊢
      by_cases hvv : v' = v
      · subst hvv
        rw [hupd_same] at hv
        cases hv
        simp [hupd_same]
      · rw [hupd_other _ _ _ _ hvv] at hv
        have hb := hi.bound v' a hv
        have ha : a ≠ h.next := by omega
        simp only [hupd_other _ _ _ _ ha, hupd_other _ _ _ _ hvv]
        exact hi.flag v' a hv
  | unscoped dst src =>
    cases hs : h.var src with
    | none =>
      simp only [exec, hs]
      exact hi
    | some a0 =>
      cases dst with
      | none =>
        simp only [exec, hs, if_true]
        constructor
        · intro v' a hv
          dsimp only at hv ⊢
          have := hi.bound v' a hv
          omega
        · intro v' a hv
          dsimp only at hv ⊢
          have hb := hi.bound v' a hv
          have ha : a ≠ h.next := by omega
          simp only [hupd_other _ _ _ _ ha]
          exact hi.flag v' a hv
      | some w =>
        simp only [exec, hs, if_true]
        constructor
        · intro v' a hv
          dsimp only at hv ⊢
          by_cases hvv : v' = w
          · subst hvv
            rw [hupd_same] at hv
            cases hv
            omega
          · rw [hupd_other _ _ _ _ hvv] at hv
            have := hi.bound v' a hv
            omega
        · intro v' a hv
          dsimp only at hv ⊢
          by_cases hvv : v' = w
          · subst hvv
            rw [hupd_same] at hv
            cases hv
            simp [hupd_same]
          · rw [hupd_other _ _ _ _ hvv] at hv
            have hb := hi.bound v' a hv
            have ha : a ≠ h.next := by omega
            simp only [hupd_other _ _ _ _ ha, hupd_other _ _ _ _ hvv]
            exact hi.flag v' a hv
  | call v kind vals bad =>
    cases hs : h.var v with
    | none =>
      simp only [exec, hs]
      exact hi
    | some a0 =>
      simp only [exec, hs]
      split
      · exact hi
      · split
        · exact hi
        · split
          · constructor
            · intro v' a hv
              exact hi.bound v' a hv
            · intro v' a hv
              dsimp only at hv ⊢
              by_cases ha : a = a0
              · subst ha
                simp only [hupd_same]
                exact hi.flag v' a hv
              · simp only [hupd_other _ _ _ _ ha]
                exact hi.flag v' a hv
          · exact ⟨hi.bound, hi.flag⟩
  | read v =>
    cases hs : h.var v with
    | none =>
      simp only [exec, hs]
      exact hi
    | some a0 =>
      simp only [exec, hs]
      split
      · exact hi
      · exact ⟨hi.bound, hi.flag⟩

/-- every operation a call performs runs with the flag its VARIABLE was declared with -/
theorem exec_flag (card1 : Nat → Bool) (h : Heap) (i : Instr) (hi : HInv h) (r : Nat) (o : Op) (d : Bool)
    (he : Ev.op r o d ∈ (exec true card1 h i).2) : o.unscoped = d := by
  cases i with
  | assoc v rel => simp [exec] at he
  | unscoped dst src =>
    simp only [exec] at he
    cases hs : h.var src with
    | none => simp [hs] at he
    | some a0 => cases dst <;> simp [hs] at he
  | call v kind vals bad =>
    simp only [exec] at he
    cases hs : h.var v with
    | none => simp [hs] at he
    | some a0 =>
      simp only [hs] at he
      split at he
      · simp at he
      · split at he
        · simp at he
        · split at he
          · simp at he
          · simp only [List.mem_singleton, Ev.op.injEq] at he
            obtain ⟨_, ho, hd⟩ := he
            subst ho; subst hd
            exact hi.flag v a0 hs
  | read v =>
    simp only [exec] at he
    cases hs : h.var v with
    | none => simp [hs] at he
    | some a0 =>
      simp only [hs] at he
      split at he <;> simp at he

theorem execAll_flag (card1 : Nat → Bool) (is : List Instr) (h : Heap) (hi : HInv h) (r : Nat) (o : Op) (d : Bool)
    (he : Ev.op r o d ∈ execAll true card1 h is) : o.unscoped = d := by
  induction is generalizing h with
  | nil => simp [execAll] at he
  | cons i is ih =>
    simp only [execAll, List.mem_append] at he
    rcases he with he | he
    · exact exec_flag card1 h i hi r o d he
    · exact ih _ (exec_inv card1 h i hi) he

/-- … hence the operations of a relation are those of the value semantics -/
theorem opsOf_eq_declared (rel : Nat) (es : List Ev) (hf : ∀ r o d, Ev.op r o d ∈ es → o.unscoped = d) :
    opsOf rel es = declaredOpsOf rel es := by
  induction es with
  | nil => rfl
  | cons e es ih =>
    have ih' := ih (fun r o d hm => hf r o d (List.mem_cons_of_mem _ hm))
    cases e with
    | op r o d =>
      have := hf r o d (by simp)
      have ho : ({ o with unscoped := d } : Op) = o := by cases o; simp_all
      simp only [opsOf, declaredOpsOf, ih', ho]
    | refused r => simpa [opsOf, declaredOpsOf] using ih'
    | failed r => simpa [opsOf, declaredOpsOf] using ih'
    | polluted r => simp only [opsOf, declaredOpsOf, ih']
    | read r u => simpa [opsOf, declaredOpsOf] using ih'
    | nohandle => simpa [opsOf, declaredOpsOf] using ih'

end Gorm.Assoc
