/-
  Leak-freedom invariants of the prepared-statement-cache LTS: handle/entry linkage, why an entry may have left its
  map, liveness of map objects, closer bookkeeping; and: with both delete guards no deletion is ever foreign.
-/
import GormModel.Lemmas.StmtCacheInv
namespace Gorm.SC

/-- entry `e` still sits under its key in the map object it was published into -/
def inMap (s : St) (e : Nat) : Prop := s.maps (s.entries e).mapId (s.entries e).text = some e

/-! ### foreign-removal counter -/

theorem delAt_foreign_le (s : St) (v q o : Nat) : foreignRemovals s ≤ foreignRemovals (delAt s v q o) := by
  unfold delAt
  split
  · exact Nat.le_refl _
  · split
    · exact Nat.le_refl _
    · simp only [foreignRemovals, List.countP_cons]; omega

theorem delFail_foreign_le (s : St) (v q o : Nat) : foreignRemovals s ≤ foreignRemovals (delFail s v q o) := by
  unfold delFail; split
  · exact Nat.le_refl _
  · exact delAt_foreign_le s v q o

theorem delEvict_foreign_le (s : St) (v q o x : Nat) : foreignRemovals s ≤ foreignRemovals (delEvict s v q o x) := by
  unfold delEvict; split
  · exact Nat.le_refl _
  · exact delAt_foreign_le s v q o

theorem publish_foreign (s : St) (t v m q : Nat) (tx : Bool) :
    foreignRemovals (publish s t v m q tx) = foreignRemovals s := by
  simp only [foreignRemovals, publish_log]
  split <;> simp [List.countP_cons]

/-- what an unguarded delete does to the maps: the key of the current map of `v` is emptied, everything else stays;
    the removed entry is logged as foreign unless it is `o` -/
theorem delAt_spec (s : St) (v q o : Nat) :
    (∀ m q', (delAt s v q o).maps m q' = if s.views v = some m ∧ q' = q then none else s.maps m q') ∧
    (∀ e', cachedAt s v q = some e' → e' ≠ o → 0 < foreignRemovals (delAt s v q o)) ∧
    (cachedAt s v q = some o ∨ cachedAt s v q = none → foreignRemovals (delAt s v q o) = foreignRemovals s) := by
  unfold delAt cachedAt
  cases hv : s.views v with
  | none => simp
  | some m0 =>
    simp only []
    cases hm : s.maps m0 q with
    | none =>
      simp only []
      refine ⟨fun m q' => ?_, by simp, by simp⟩
      split
      · rename_i hc; obtain ⟨h1, h2⟩ := hc; cases h1; subst h2; exact hm
      · rfl
    | some e0 =>
      simp only []
      refine ⟨fun m q' => ?_, ?_, ?_⟩
      · by_cases hmm : m = m0
        · subst hmm
          by_cases hqq : q' = q
          · subst hqq; simp [upd]
          · simp [upd, hqq]
        · have : ¬ m0 = m := fun h => hmm h.symm
          simp [upd, hmm, this]
      · intro e' he' hne
        simp only [Option.some.injEq] at he'; subst he'
        simp [foreignRemovals, List.countP_cons, hne]
      · intro h
        rcases h with h | h
        · simp only [Option.some.injEq] at h; subst h
          simp [foreignRemovals, List.countP_cons]
        · cases h

/-! ### ghost coordinates of allocated entries / handles never change -/

theorem step_ghost (s s' : St) (hs : Step s s') :
    s.nE ≤ s'.nE ∧ s.nH ≤ s'.nH ∧ s'.nV = s.nV ∧ s'.cfg = s.cfg ∧
    (∀ e, e < s.nE → (s'.entries e).owner = (s.entries e).owner ∧ (s'.entries e).view = (s.entries e).view ∧
      (s'.entries e).text = (s.entries e).text ∧ (s'.entries e).mapId = (s.entries e).mapId ∧
      (s'.entries e).tx = (s.entries e).tx) ∧
    (∀ h, h < s.nH → (s'.handles h).entry = (s.handles h).entry ∧ (s'.handles h).thr = (s.handles h).thr ∧
      (s'.handles h).tx = (s.handles h).tx) := by
  cases hs with
  | pub t v q tx m ht hop hpc hv hm =>
    refine ⟨by simp, by simp, by simp, by simp, fun e he => ?_, fun h _ => by simp⟩
    have : e ≠ s.nE := by omega
    simp [upd, this]
  | prepOk t v q tx e ht hop hpc =>
    refine ⟨by simp, by simp, by simp, by simp, fun e he => by simp, fun h hh => ?_⟩
    have : h ≠ s.nH := by omega
    simp [upd, this]
  | reset t v | close t v =>
    refine ⟨by simp, by simp, by simp, by simp, fun e he => ?_, fun h _ => by simp⟩
    simp [markView_owner, markView_view, markView_mapId]
  | evict t v q tx e h =>
    refine ⟨by simp, by simp, by simp, by simp, fun e he => by simp, fun h' _ => ?_⟩
    simp only [finish_h_entry, finish_h_thr, finish_h_tx, delEvict_handles, upd_apply]; split <;> simp_all
  | prepErr | store | closeOk | closeErr | closeE =>
    refine ⟨by simp, by simp, by simp, by simp, fun e he => ?_, fun h _ => by simp⟩
    simp only [setPc_entries, finish_entries, upd_apply]; split <;> simp_all
  | closeEH e h =>
    refine ⟨by simp, by simp, by simp, by simp, fun e he => ?_, fun h' _ => ?_⟩
    · simp only [upd_apply]; split <;> simp_all
    · simp only [upd_apply]; split <;> simp_all
  | closeH h =>
    refine ⟨by simp, by simp, by simp, by simp, fun e he => by simp, fun h' _ => ?_⟩
    simp only [upd_apply]; split <;> simp_all
  | hit | miss | invalid | waitErr | waitOk | waitNil | fail | readyClosed | readyUse | useFin | useBad =>
    exact ⟨by simp, by simp, by simp, by simp, fun e he => by simp, fun h _ => by simp⟩


/-! ### EOp / WF: an entry's ghost coordinates are its publisher's operation; operations use declared structs -/

def EOp (s : St) : Prop :=
  ∀ e, e < s.nE → (s.threads (s.entries e).owner).op = .use (s.entries e).view (s.entries e).text (s.entries e).tx

def WF (s : St) : Prop := ∀ t v q tx, (s.threads t).op = .use v q tx → v < s.nV

theorem step_wf (s s' : St) (h : WF s) (hs : Step s s') : WF s' := by
  intro t v q tx hop
  rw [(step_threads s s' hs).2.1 t] at hop
  rw [(step_ghost s s' hs).2.2.1]
  exact h t v q tx hop

theorem step_nE (s s' : St) (hs : Step s s') :
    s'.nE = s.nE ∨ ∃ t v q tx m, s' = publish s t v m q tx ∧ (s.threads t).op = .use v q tx := by
  cases hs with
  | pub t v q tx m ht hop hpc hv hm => exact Or.inr ⟨t, v, q, tx, m, rfl, hop⟩
  | _ => left; simp

theorem step_eop (s s' : St) (h : EOp s) (hs : Step s s') : EOp s' := by
  intro e he
  have hg := step_ghost s s' hs
  have ht := (step_threads s s' hs).2.1
  by_cases hlt : e < s.nE
  · have := hg.2.2.2.2.1 e hlt
    rw [this.1, this.2.1, this.2.2.1, this.2.2.2.2, ht]
    exact h e hlt
  · rcases step_nE s s' hs with hn | ⟨t, v, q, tx, m, rfl, hop⟩
    · omega
    · have : e = s.nE := by simp at he; omega
      subst this
      simp [upd, hop]

/-! ### HInv: handle ↔ entry linkage -/

def HInv (s : St) : Prop :=
  (∀ h, h < s.nH → (s.handles h).entry < s.nE ∧ (s.entries (s.handles h).entry).err = false ∧
      (s.entries (s.handles h).entry).tx = (s.handles h).tx ∧
      ((s.entries (s.handles h).entry).handle = some h ∨
        (s.threads (s.handles h).thr).pc = .storing (s.handles h).entry h)) ∧
  (∀ e h, e < s.nE → (s.entries e).handle = some h → h < s.nH ∧ (s.handles h).entry = e)

theorem hinv_frame (s s' : St) (h : HInv s) (hnE : s.nE ≤ s'.nE) (hnH : s'.nH = s.nH)
    (hE : ∀ e, e < s.nE → (s'.entries e).err = (s.entries e).err ∧ (s'.entries e).tx = (s.entries e).tx ∧
      (s'.entries e).handle = (s.entries e).handle)
    (hH : ∀ x, x < s.nH → (s'.handles x).entry = (s.handles x).entry ∧ (s'.handles x).thr = (s.handles x).thr ∧
      (s'.handles x).tx = (s.handles x).tx)
    (hst : ∀ t e x, (s.threads t).pc = .storing e x → (s'.threads t).pc = .storing e x)
    (hnew : ∀ e, s.nE ≤ e → e < s'.nE → (s'.entries e).handle = none) : HInv s' := by
  refine ⟨fun x hx => ?_, fun e x he hh => ?_⟩
  · rw [hnH] at hx
    obtain ⟨h1, h2, h3, h4⟩ := h.1 x hx
    have hx' := hH x hx
    have he' := hE _ h1
    rw [hx'.1, hx'.2.1, hx'.2.2, he'.1, he'.2.1, he'.2.2]
    refine ⟨by omega, h2, h3, ?_⟩
    rcases h4 with h4 | h4
    · exact Or.inl h4
    · exact Or.inr (hst _ _ _ h4)
  · by_cases hlt : e < s.nE
    · rw [(hE e hlt).2.2] at hh
      have := h.2 e x hlt hh
      rw [hnH, (hH x this.1).1]; exact this
    · rw [hnew e (by omega) he] at hh; cases hh

/-- `hst` for a step that moves only thread `t`, which is not storing -/
theorem storing_keep (s s' : St) (t : Nat) (hthr : ∀ t', t' ≠ t → (s'.threads t').pc = (s.threads t').pc)
    (hns : ∀ e x, (s.threads t).pc ≠ .storing e x) :
    ∀ t' e x, (s.threads t').pc = .storing e x → (s'.threads t').pc = .storing e x := by
  intro t' e x hp
  by_cases htt : t' = t
  · subst htt; exact absurd hp (hns e x)
  · rw [hthr t' htt]; exact hp

theorem step_hinv (s s' : St) (h : HInv s) (hS : Shape s) (hO : EOp s) (hs : Step s s') : HInv s' := by
  cases hs with
  | prepOk t v q tx e ht hop hpc =>
    have hT := hS.1 t
    have ho := hT.2.1 e (by simp [hpc, owns])
    have h3 := hT.2.2.1 e hpc
    have htx : (s.entries e).tx = tx := by
      have := hO e ho.1; rw [ho.2.1, hop] at this; simp at this; exact this.2.2.symm
    refine ⟨fun x hx => ?_, fun e' x he' hh => ?_⟩
    · by_cases hxn : x = s.nH
      · subst hxn; simp [upd, ho.1, h3.1, htx, pc_cases]
      · have hx' : x < s.nH := by simp at hx; omega
        obtain ⟨h1, h2, h3', h4⟩ := h.1 x hx'
        simp only [setPc_handles, setPc_entries, setPc_nE, upd, hxn, if_false]
        refine ⟨h1, h2, h3', ?_⟩
        rcases h4 with h4 | h4
        · exact Or.inl h4
        · right
          by_cases htt : (s.handles x).thr = t
          · rw [htt, hpc] at h4; cases h4
          · simp [pc_cases, htt]; exact h4
    · simp only [setPc_entries, setPc_nE, setPc_nH, setPc_handles] at he' hh ⊢
      have := h.2 e' x he' hh
      have hxn : x ≠ s.nH := by omega
      simp [upd, hxn]; exact ⟨by omega, this.2⟩
  | prepErr t v q tx e ht hop hpc =>
    have hT := hS.1 t
    have ho := hT.2.1 e (by simp [hpc, owns])
    have h3 := hT.2.2.1 e hpc
    -- no handle belongs to `e` yet
    have hno : ∀ x, x < s.nH → (s.handles x).entry ≠ e := by
      intro x hx heq
      obtain ⟨_, _, _, h4⟩ := h.1 x hx
      rw [heq] at h4
      rcases h4 with h4 | h4
      · rw [h3.2] at h4; cases h4
      · have := ((hS.1 (s.handles x).thr).2.1 e (by simp [h4, owns])).2.1
        rw [ho.2.1] at this; rw [← this, hpc] at h4; cases h4
    refine ⟨fun x hx => ?_, fun e' x he' hh => ?_⟩
    · have hx' : x < s.nH := by simpa using hx
      obtain ⟨h1, h2, h3', h4⟩ := h.1 x hx'
      have hne := hno x hx'
      simp only [setPc_handles, setPc_entries, setPc_nE, upd, hne, if_false]
      refine ⟨h1, h2, h3', ?_⟩
      rcases h4 with h4 | h4
      · exact Or.inl h4
      · right
        by_cases htt : (s.handles x).thr = t
        · rw [htt, hpc] at h4; cases h4
        · simp [pc_cases, htt]; exact h4
    · simp only [setPc_entries, setPc_nE, setPc_nH, setPc_handles, upd_apply] at he' hh ⊢
      split at hh
      · rename_i heq; subst heq; simp only [] at hh; rw [h3.2] at hh; cases hh
      · exact h.2 e' x he' hh
  | store t v q tx e x0 ht hop hpc =>
    have hT := hS.1 t
    have ho := hT.2.1 e (by simp [hpc, owns])
    have h3 := hT.2.2.2.1 e x0 hpc
    refine ⟨fun x hx => ?_, fun e' x he' hh => ?_⟩
    · have hx' : x < s.nH := by simpa using hx
      obtain ⟨h1, h2, h3', h4⟩ := h.1 x hx'
      simp only [setPc_handles, setPc_entries, setPc_nE, upd_apply]
      by_cases hee : (s.handles x).entry = e
      · simp only [hee, if_true]
        rw [hee] at h2 h3' h4
        refine ⟨ho.1, h2, h3', ?_⟩
        rcases h4 with h4 | h4
        · rw [h3.2.1] at h4; cases h4
        · have := ((hS.1 (s.handles x).thr).2.1 e (by simp [h4, owns])).2.1
          rw [ho.2.1] at this; rw [← this, hpc] at h4
          simp only [Pc.storing.injEq] at h4
          left; rw [h4.2]
      · simp only [hee, if_false]
        refine ⟨h1, h2, h3', ?_⟩
        rcases h4 with h4 | h4
        · exact Or.inl h4
        · right
          by_cases htt : (s.handles x).thr = t
          · rw [htt, hpc] at h4; simp only [Pc.storing.injEq] at h4; exact absurd h4.1.symm hee
          · simp [pc_cases, htt]; exact h4
    · simp only [setPc_entries, setPc_nE, setPc_nH, setPc_handles, upd_apply] at he' hh ⊢
      split at hh
      · rename_i heq; subst heq; simp only [Option.some.injEq] at hh; subst hh; exact ⟨h3.2.2.1, h3.2.2.2.1⟩
      · exact h.2 e' x he' hh
  | pub t v q tx m ht hop hpc hv hm =>
    refine hinv_frame s _ h (by simp) (by simp) (fun e he => ?_) (fun x _ => by simp)
      (storing_keep s _ t (fun t' h => by simp [h]) (by simp [hpc])) (fun e h1 h2 => ?_)
    · have : e ≠ s.nE := by omega
      simp [upd, this]
    · have : e = s.nE := by simp at h2; omega
      subst this; simp [upd]
  | hit t v q tx m e ht hop hpc =>
    exact hinv_frame s _ h (by simp) (by simp) (fun e he => by simp) (fun x _ => by simp)
      (storing_keep s _ t (fun t' h => by simp [h]) (by rcases hpc with hpc | hpc <;> simp [hpc])) (fun e h1 h2 => by simp at h2; omega)
  | miss t v q tx ht hop hpc | invalid t v q tx ht hop hpc | waitErr t v q tx e ht hop hpc | waitOk t v q tx e x0 ht hop hpc
  | waitNil t v q tx e ht hop hpc | fail t v q tx e ht hop hpc | readyClosed t v q e x0 ht hop hpc
  | readyUse t v q tx e x0 ht hop hpc | useFin t v q tx e x0 r ht hop hpc | useBad t v q tx e x0 ht hop hpc =>
    exact hinv_frame s _ h (by simp) (by simp) (fun e he => by simp) (fun x _ => by simp)
      (storing_keep s _ t (fun t' h => by simp [pc_cases, h]) (by simp [hpc])) (fun e h1 h2 => by simp at h2; omega)
  | closeOk t v q tx e h0 ht hop hpc | closeErr t v q tx e ht hop hpc =>
    refine hinv_frame s _ h (by simp) (by simp) (fun e' he => ?_) (fun x _ => by simp)
      (storing_keep s _ t (fun t' h => by simp [pc_cases, h]) (by simp [hpc])) (fun e h1 h2 => by simp at h2; omega)
    simp only [setPc_entries, finish_entries, upd_apply]; split <;> simp_all
  | evict t v q tx e h0 ht hop hpc =>
    refine hinv_frame s _ h (by simp) (by simp) (fun e' he => by simp) (fun x _ => ?_)
      (storing_keep s _ t (fun t' h => by simp [pc_cases, h]) (by simp [hpc])) (fun e h1 h2 => by simp at h2; omega)
    simp only [finish_h_entry, finish_h_thr, finish_h_tx, delEvict_handles, upd_apply]; split <;> simp_all
  | reset t v ht hop hpc | close t v ht hop hpc =>
    exact hinv_frame s _ h (by simp) (by simp) (fun e he => by simp) (fun x _ => by simp)
      (storing_keep s _ t (fun t' h => by simp [pc_cases, h]) (by simp [hpc])) (fun e h1 h2 => by simp at h2; omega)
  | closeE e he h1 h2 h3 h4 =>
    refine hinv_frame s _ h (Nat.le_refl _) rfl (fun e' _ => ?_) (fun x _ => ⟨rfl, rfl, rfl⟩) (fun _ _ _ hp => hp)
      (fun e h1 h2 => by simp at h2; omega)
    simp only [upd_apply]; split <;> simp_all
  | closeEH e h0 he h1 h2 h3 h4 =>
    refine hinv_frame s _ h (Nat.le_refl _) rfl (fun e' _ => ?_) (fun x _ => ?_) (fun _ _ _ hp => hp)
      (fun e h1 h2 => by simp at h2; omega)
    · simp only [upd_apply]; split <;> simp_all
    · simp only [upd_apply]; split <;> simp_all
  | closeH h0 hh h1 h2 =>
    refine hinv_frame s _ h (Nat.le_refl _) rfl (fun e' _ => ⟨rfl, rfl, rfl⟩) (fun x _ => ?_) (fun _ _ _ hp => hp)
      (fun e h1 h2 => by simp at h2; omega)
    simp only [upd_apply]; split <;> simp_all


/-! ### EntInv: why an entry may have left its map -/

def EntInv (s : St) : Prop :=
  ∀ e, e < s.nE → inMap s e ∨ 0 < foreignRemovals s ∨ (s.entries e).tx = true ∨ (s.entries e).err = true ∨
    ∃ h, (s.entries e).handle = some h ∧ (s.handles h).closeReq = true

theorem entInv_frame (s s' : St) (h : EntInv s) (hnE : s'.nE = s.nE)
    (hin : ∀ e, e < s.nE → inMap s e → inMap s' e) (hfr : foreignRemovals s ≤ foreignRemovals s')
    (hE : ∀ e, e < s.nE → ((s.entries e).tx = true → (s'.entries e).tx = true) ∧
      ((s.entries e).err = true → (s'.entries e).err = true) ∧
      (∀ x, (s.entries e).handle = some x → (s'.entries e).handle = some x))
    (hH : ∀ e x, e < s.nE → (s.entries e).handle = some x → (s.handles x).closeReq = true →
      (s'.handles x).closeReq = true) : EntInv s' := by
  intro e he
  rw [hnE] at he
  rcases h e he with h1 | h1 | h1 | h1 | ⟨x, h1, h2⟩
  · exact Or.inl (hin e he h1)
  · exact Or.inr (Or.inl (by omega))
  · exact Or.inr (Or.inr (Or.inl ((hE e he).1 h1)))
  · exact Or.inr (Or.inr (Or.inr (Or.inl ((hE e he).2.1 h1))))
  · exact Or.inr (Or.inr (Or.inr (Or.inr ⟨x, (hE e he).2.2 x h1, hH e x he h1 h2⟩)))

/-- an unguarded delete through view `v` of key `q` by a goroutine whose own entry is `o`: every entry other than `o`
    either stays in its map or the foreign counter is positive afterwards -/
theorem delAt_inMap (s : St) (v q o e : Nat) (hne : e ≠ o) (hin : inMap s e) :
    (delAt s v q o).maps (s.entries e).mapId (s.entries e).text = some e ∨ 0 < foreignRemovals (delAt s v q o) := by
  obtain ⟨h1, h2, _⟩ := delAt_spec s v q o
  rw [h1]
  by_cases hc : s.views v = some (s.entries e).mapId ∧ (s.entries e).text = q
  · right
    apply h2 e _ hne
    unfold cachedAt; rw [hc.1]; simp only []; rw [← hc.2]; exact hin
  · left; simp [hc]; exact hin

theorem delFail_cases (s : St) (v q o : Nat) : delFail s v q o = s ∨ delFail s v q o = delAt s v q o := by
  unfold delFail; split
  · exact Or.inl rfl
  · exact Or.inr rfl

theorem delEvict_cases (s : St) (v q o x : Nat) : delEvict s v q o x = s ∨ delEvict s v q o x = delAt s v q o := by
  unfold delEvict; split
  · exact Or.inl rfl
  · exact Or.inr rfl

theorem step_entInv (s s' : St) (h : EntInv s) (hS : Shape s) (hHI : HInv s) (hs : Step s s') : EntInv s' := by
  cases hs with
  | pub t v q tx m ht hop hpc hv hm =>
    intro e he
    by_cases hee : e = s.nE
    · subst hee; left; simp [inMap, upd]
    · have he' : e < s.nE := by simp at he; omega
      rcases h e he' with h1 | h1 | h1 | h1 | ⟨x, h1, h2⟩
      · by_cases hk : (s.entries e).mapId = m ∧ (s.entries e).text = q
        · right; right; left
          have := hm e (by rw [← hk.1, ← hk.2]; exact h1)
          simp [usable] at this
          simp [upd, hee]; exact this.1
        · left
          simp only [inMap, publish_entries, publish_maps, upd, hee, if_false]
          by_cases hm' : (s.entries e).mapId = m
          · have hq' : ¬ (s.entries e).text = q := fun hq => hk ⟨hm', hq⟩
            simp [hm', hq']; rw [← hm']; exact h1
          · simp [hm']; exact h1
      · right; left; rw [publish_foreign]; exact h1
      · right; right; left; simp [upd, hee]; exact h1
      · right; right; right; left; simp [upd, hee]; exact h1
      · right; right; right; right; exact ⟨x, by simp [upd, hee]; exact h1, by simpa using h2⟩
  | fail t v q tx e0 ht hop hpc =>
    have hT := hS.1 t
    have h5 := hT.2.2.2.2.1 e0 (Or.inl hpc)
    rcases delFail_cases s v q e0 with hc | hc
    · rw [hc]
      exact entInv_frame s _ h rfl (fun e _ hi => by simpa [inMap] using hi) (Nat.le_refl _)
        (fun e _ => ⟨fun a => a, fun a => a, fun x a => a⟩) (fun _ x _ _ a => a)
    · rw [hc]
      intro e he
      simp only [setPc_nE, delAt_nE] at he
      by_cases hee : e = e0
      · subst hee; right; right; right; left; simpa using h5.1
      · rcases h e he with h1 | h1 | h1 | h1 | ⟨x, h1, h2⟩
        · rcases delAt_inMap s v q e0 e hee h1 with h6 | h6
          · left; simpa [inMap] using h6
          · right; left; simpa [foreignRemovals] using h6
        · right; left
          have := delAt_foreign_le s v q e0
          simp only [foreignRemovals, setPc_log] at this h1 ⊢; omega
        · right; right; left; simpa using h1
        · right; right; right; left; simpa using h1
        · right; right; right; right; exact ⟨x, by simpa using h1, by simpa using h2⟩
  | evict t v q tx e0 h0 ht hop hpc =>
    have hT := hS.1 t
    have h7 := hT.2.2.2.2.2.2.1 e0 h0 (Or.inr (Or.inr hpc))
    -- the state after `go stmt.Close()` was spawned
    have hI1 : EntInv { s with handles := upd s.handles h0 { s.handles h0 with closeReq := true } } :=
      entInv_frame s _ h rfl (fun e _ hi => hi) (Nat.le_refl _)
        (fun e _ => ⟨fun a => a, fun a => a, fun x a => a⟩)
        (fun _ x _ _ a => by simp only [upd_apply]; split <;> simp_all)
    generalize hs1 : ({ s with handles := upd s.handles h0 { s.handles h0 with closeReq := true } } : St) = s1 at hI1
    have hh0 : (s1.handles h0).closeReq = true := by subst hs1; simp
    have he0 : (s1.entries e0).handle = some h0 := by subst hs1; exact h7.2.2.2.1
    have hnE1 : s1.nE = s.nE := by subst hs1; rfl
    rcases delEvict_cases s1 v q e0 h0 with hc | hc
    · rw [hc]
      exact entInv_frame s1 _ hI1 (by simp) (fun e _ hi => by simpa [inMap] using hi) (by simp [foreignRemovals])
        (fun e _ => ⟨fun a => by simpa using a, fun a => by simpa using a, fun x a => by simpa using a⟩)
        (fun _ x _ _ a => by simpa using a)
    · rw [hc]
      intro e he
      simp only [finish_nE, delAt_nE] at he
      by_cases hee : e = e0
      · subst hee; right; right; right; right
        exact ⟨h0, by simpa using he0, by simpa using hh0⟩
      · rcases hI1 e he with h1 | h1 | h1 | h1 | ⟨x, h1, h2⟩
        · rcases delAt_inMap s1 v q e0 e hee h1 with h6 | h6
          · left; simpa [inMap] using h6
          · right; left; simpa [foreignRemovals] using h6
        · right; left
          have := delAt_foreign_le s1 v q e0
          simp only [foreignRemovals, finish_log] at this h1 ⊢; omega
        · right; right; left; simpa using h1
        · right; right; right; left; simpa using h1
        · right; right; right; right; exact ⟨x, by simpa using h1, by simpa using h2⟩
  | prepOk t v q tx e ht hop hpc =>
    refine entInv_frame s _ h rfl (fun e _ hi => by simpa [inMap] using hi) (by simp [foreignRemovals])
      (fun e _ => ⟨fun a => by simpa using a, fun a => by simpa using a, fun x a => by simpa using a⟩) (fun e' x he' hx a => ?_)
    have := (hHI.2 e' x he' hx).1
    have hne : x ≠ s.nH := by omega
    simp [upd, hne]; exact a
  | prepErr t v q tx e0 ht hop hpc =>
    refine entInv_frame s _ h rfl (fun e _ hi => ?_) (by simp [foreignRemovals]) (fun e _ => ?_) (fun _ x _ _ a => by simpa using a)
    · simp only [inMap, setPc_entries, setPc_maps, upd_apply] at hi ⊢; split <;> simp_all
    · simp only [setPc_entries, upd_apply]; split <;> simp_all
  | store t v q tx e0 x0 ht hop hpc =>
    have h4 := (hS.1 t).2.2.2.1 e0 x0 hpc
    refine entInv_frame s _ h rfl (fun e _ hi => ?_) (by simp [foreignRemovals]) (fun e _ => ?_) (fun _ x _ _ a => by simpa using a)
    · simp only [inMap, setPc_entries, setPc_maps, upd_apply] at hi ⊢; split <;> simp_all
    · simp only [setPc_entries, upd_apply]; split
      · rename_i hee; subst hee; refine ⟨fun a => a, fun a => a, fun x a => ?_⟩; rw [h4.2.1] at a; cases a
      · exact ⟨fun a => a, fun a => a, fun x a => a⟩
  | closeOk t v q tx e0 x0 ht hop hpc =>
    refine entInv_frame s _ h rfl (fun e _ hi => ?_) (by simp [foreignRemovals]) (fun e _ => ?_) (fun _ x _ _ a => by simpa using a)
    · simp only [inMap, setPc_entries, setPc_maps, upd_apply] at hi ⊢; split <;> simp_all
    · simp only [setPc_entries, upd_apply]; split <;> simp_all
  | closeErr t v q tx e0 ht hop hpc =>
    refine entInv_frame s _ h (by simp) (fun e _ hi => ?_) (by simp [foreignRemovals]) (fun e _ => ?_) (fun _ x _ _ a => by simpa using a)
    · simp only [inMap, finish_entries, finish_maps, upd_apply] at hi ⊢; split <;> simp_all
    · simp only [finish_entries, upd_apply]; split <;> simp_all
  | reset t v ht hop hpc | close t v ht hop hpc =>
    exact entInv_frame s _ h (by simp) (fun e _ hi => by simpa [inMap, markView_mapId] using hi) (by simp [foreignRemovals])
      (fun e _ => ⟨fun a => by simpa using a, fun a => by simpa using a, fun x a => by simpa using a⟩)
      (fun _ x _ _ a => by simpa using a)
  | closeE e0 he0 h1 h2 h3 h4 =>
    refine entInv_frame s _ h rfl (fun e _ hi => ?_) (Nat.le_refl _) (fun e _ => ?_) (fun _ x _ _ a => a)
    · simp only [inMap, upd_apply] at hi ⊢; split <;> simp_all
    · simp only [upd_apply]; split <;> simp_all
  | closeEH e0 x0 he0 h1 h2 h3 h4 =>
    refine entInv_frame s _ h rfl (fun e _ hi => ?_) (Nat.le_refl _) (fun e _ => ?_) (fun _ x _ _ a => ?_)
    · simp only [inMap, upd_apply] at hi ⊢; split <;> simp_all
    · simp only [upd_apply]; split <;> simp_all
    · simp only [upd_apply]; split <;> simp_all
  | closeH x0 hx0 h1 h2 =>
    refine entInv_frame s _ h rfl (fun e _ hi => hi) (Nat.le_refl _) (fun e _ => ⟨fun a => a, fun a => a, fun x a => a⟩)
      (fun _ x _ _ a => ?_)
    simp only [upd_apply]; split <;> simp_all
  | hit t v q tx m e | miss t v q tx | invalid t v q tx | waitErr t v q tx e | waitOk t v q tx e x0
  | waitNil t v q tx e | readyClosed t v q e x0 | readyUse t v q tx e x0 | useFin t v q tx e x0 r | useBad t v q tx e x0 =>
    exact entInv_frame s _ h (by simp) (fun e _ hi => by simpa [inMap] using hi) (by simp [foreignRemovals])
      (fun e _ => ⟨fun a => by simpa using a, fun a => by simpa using a, fun x a => by simpa using a⟩)
      (fun _ x _ _ a => by simpa using a)


/-! ### MapLive: a map object that no struct points to any more has had closers spawned for all its entries -/

def MapLive (s : St) : Prop :=
  ∀ e, e < s.nE → inMap s e → (∃ v, v < s.nV ∧ s.views v = some (s.entries e).mapId) ∨ (s.entries e).closeReq = true

theorem mapLive_frame (s s' : St) (h : MapLive s) (hnE : s'.nE = s.nE) (hnV : s'.nV = s.nV) (hv : s'.views = s.views)
    (hin : ∀ e, e < s.nE → inMap s' e → inMap s e)
    (hE : ∀ e, e < s.nE → (s'.entries e).mapId = (s.entries e).mapId ∧
      ((s.entries e).closeReq = true → (s'.entries e).closeReq = true)) : MapLive s' := by
  intro e he hi
  rw [hnE] at he
  rcases h e he (hin e he hi) with ⟨v, h1, h2⟩ | h1
  · left; exact ⟨v, by omega, by rw [hv, (hE e he).1]; exact h2⟩
  · right; exact (hE e he).2 h1

theorem markView_closeReq_mono (s : St) (v e : Nat) (h : (s.entries e).closeReq = true) :
    ((markView s v).entries e).closeReq = true := by
  unfold markView; split
  · simp only [markAll]; split <;> simp_all
  · exact h

theorem markView_closeReq_of (s : St) (v m e : Nat) (hv : s.views v = some m) (he : e < s.nE)
    (hm : s.maps m (s.entries e).text = some e) : ((markView s v).entries e).closeReq = true := by
  unfold markView; rw [hv]; simp only [markAll]
  rw [if_pos ⟨he, hm⟩]

theorem step_mapLive (s s' : St) (h : MapLive s) (hW : WF s) (hs : Step s s') : MapLive s' := by
  cases hs with
  | pub t v q tx m ht hop hpc hv hm =>
    intro e he hi
    by_cases hee : e = s.nE
    · subst hee; left; exact ⟨v, by simpa using hW t v q tx hop, by simp [upd]; exact hv⟩
    · have he' : e < s.nE := by simp at he; omega
      have hi' : inMap s e := by
        simp only [inMap, publish_entries, publish_maps, upd, hee, if_false] at hi
        by_cases hm' : (s.entries e).mapId = m
        · by_cases hq' : (s.entries e).text = q
          · simp [hm', hq'] at hi; omega
          · simp [hm', hq'] at hi; unfold inMap; rw [hm']; exact hi
        · simp [hm'] at hi; exact hi
      rcases h e he' hi' with ⟨v', h1, h2⟩ | h1
      · left; exact ⟨v', by simpa using h1, by simp [upd, hee]; exact h2⟩
      · right; simp [upd, hee]; exact h1
  | reset t v ht hop hpc =>
    intro e he hi
    have he' : e < s.nE := by simpa using he
    have hi' : inMap s e := by simpa [inMap, markView_mapId] using hi
    rcases h e he' hi' with ⟨v', h1, h2⟩ | h1
    · by_cases hvv : v' = v
      · subst hvv; right
        simp only [finish_entries]
        exact markView_closeReq_of s v' _ e h2 he' hi'
      · left; refine ⟨v', by simpa using h1, ?_⟩
        simp [upd, hvv, markView_mapId]; exact h2
    · right; simp only [finish_entries]; exact markView_closeReq_mono s v e h1
  | close t v ht hop hpc =>
    intro e he hi
    have he' : e < s.nE := by simpa using he
    have hi' : inMap s e := by simpa [inMap, markView_mapId] using hi
    rcases h e he' hi' with ⟨v', h1, h2⟩ | h1
    · by_cases hvv : v' = v
      · subst hvv; right
        simp only [finish_entries]
        exact markView_closeReq_of s v' _ e h2 he' hi'
      · left; refine ⟨v', by simpa using h1, ?_⟩
        simp [upd, hvv, markView_mapId]; exact h2
    · right; simp only [finish_entries]; exact markView_closeReq_mono s v e h1
  | fail t v q tx e0 ht hop hpc =>
    exact mapLive_frame s _ h (by simp) (by simp) (by simp)
      (fun e _ hi => by simp only [inMap, setPc_maps, setPc_entries, delFail_entries] at hi; exact delFail_maps_some _ _ _ _ _ _ _ hi)
      (fun e _ => ⟨by simp, fun a => by simpa using a⟩)
  | evict t v q tx e0 x0 ht hop hpc =>
    exact mapLive_frame s _ h (by simp) (by simp) (by simp)
      (fun e _ hi => by
        simp only [inMap, finish_maps, finish_entries, delEvict_entries] at hi
        have := delEvict_maps_some _ _ _ _ _ _ _ _ hi
        exact this)
      (fun e _ => ⟨by simp, fun a => by simpa using a⟩)
  | prepErr t v q tx e0 | store t v q tx e0 x0 | closeOk t v q tx e0 x0 | closeErr t v q tx e0 =>
    refine mapLive_frame s _ h (by simp) (by simp) (by simp) (fun e _ hi => ?_) (fun e _ => ?_)
    · simp only [inMap, setPc_entries, setPc_maps, finish_entries, finish_maps, upd_apply] at hi ⊢; split at hi <;> simp_all
    · simp only [setPc_entries, finish_entries, upd_apply]; split <;> simp_all
  | closeE e0 | closeEH e0 x0 =>
    refine mapLive_frame s _ h rfl rfl rfl (fun e _ hi => ?_) (fun e _ => ?_)
    · simp only [inMap, upd_apply] at hi ⊢; split at hi <;> simp_all
    · simp only [upd_apply]; split <;> simp_all
  | closeH x0 => exact mapLive_frame s _ h rfl rfl rfl (fun e _ hi => hi) (fun e _ => ⟨rfl, fun a => a⟩)
  | hit t v q tx m e | miss t v q tx | invalid t v q tx | waitErr t v q tx e | waitOk t v q tx e x0 | prepOk t v q tx e
  | waitNil t v q tx e | readyClosed t v q e x0 | readyUse t v q tx e x0 | useFin t v q tx e x0 r | useBad t v q tx e x0 =>
    exact mapLive_frame s _ h (by simp) (by simp) (by simp) (fun e _ hi => by simpa [inMap] using hi)
      (fun e _ => ⟨by simp, fun a => by simpa using a⟩)

/-! ### CD: a closer that has run has closed the entry's statement -/

def CD (s : St) : Prop :=
  ∀ e, e < s.nE → ((s.entries e).closeDone = true → (s.entries e).prepared = true) ∧
    ((s.entries e).closeDone = true → ∀ h, (s.entries e).handle = some h → (s.handles h).closed = true)

theorem cd_frame (s s' : St) (h : CD s) (hnE : s'.nE = s.nE)
    (hE : ∀ e, e < s.nE → ((s'.entries e).closeDone = true → (s.entries e).closeDone = true) ∧
      ((s.entries e).prepared = true → (s'.entries e).prepared = true) ∧
      ((s.entries e).closeDone = true → (s'.entries e).handle = (s.entries e).handle))
    (hH : ∀ x, (s.handles x).closed = true → (s'.handles x).closed = true) : CD s' := by
  intro e he
  rw [hnE] at he
  obtain ⟨h1, h2⟩ := h e he
  obtain ⟨e1, e2, e3⟩ := hE e he
  refine ⟨fun a => e2 (h1 (e1 a)), fun a x hx => ?_⟩
  rw [e3 (e1 a)] at hx
  exact hH x (h2 (e1 a) x hx)

theorem markView_closeDone (s : St) (v e : Nat) (h : ((markView s v).entries e).closeDone = true) :
    (s.entries e).closeDone = true := by
  unfold markView at h; split at h
  · simp only [markAll] at h; split at h <;> simp_all
  · exact h

theorem step_cd (s s' : St) (h : CD s) (hS : Shape s) (hHI : HInv s) (hs : Step s s') : CD s' := by
  cases hs with
  | pub t v q tx m ht hop hpc hv hm =>
    intro e he
    by_cases hee : e = s.nE
    · subst hee; simp [upd]
    · have he' : e < s.nE := by simp at he; omega
      simpa [upd, hee] using h e he'
  | store t v q tx e0 x0 ht hop hpc =>
    have ho := (hS.1 t).2.1 e0 (by simp [hpc, owns])
    have hnd : (s.entries e0).closeDone = false := by
      cases hcd : (s.entries e0).closeDone with
      | false => rfl
      | true => have := (h e0 ho.1).1 hcd; rw [ho.2.2.1] at this; cases this
    refine cd_frame s _ h rfl (fun e _ => ?_) (fun x a => by simpa using a)
    simp only [setPc_entries, upd_apply]; split
    · rename_i hee; subst hee; simp [hnd]
    · simp
  | closeE e0 he0 h1 h2 h3 h4 =>
    intro e he
    have he' : e < s.nE := he
    simp only [upd_apply]
    split
    · rename_i hee; subst hee; simp [h3, h4]
    · exact h e he'
  | closeEH e0 x0 he0 h1 h2 h3 h4 =>
    intro e he
    have he' : e < s.nE := he
    obtain ⟨c1, c2⟩ := h e he'
    simp only [upd_apply]
    split
    · rename_i hee; subst hee
      refine ⟨fun _ => h3, fun _ x hx => ?_⟩
      simp only [] at hx; rw [h4] at hx; cases hx; simp
    · refine ⟨c1, fun a x hx => ?_⟩
      have := c2 a x hx
      split <;> simp_all
  | closeH x0 hx0 h1 h2 =>
    refine cd_frame s _ h rfl (fun e _ => ⟨fun a => a, fun a => a, fun _ => rfl⟩) (fun x a => ?_)
    simp only [upd_apply]; split <;> simp_all
  | reset t v ht hop hpc | close t v ht hop hpc =>
    exact cd_frame s _ h (by simp) (fun e _ => ⟨fun a => markView_closeDone s v e (by simpa using a), fun a => by simpa using a,
      fun _ => by simp⟩) (fun x a => finish_h_closed _ _ _ _ (by simpa using a))
  | prepErr t v q tx e0 | closeOk t v q tx e0 x0 =>
    refine cd_frame s _ h rfl (fun e _ => ?_) (fun x a => by simpa using a)
    simp only [setPc_entries, upd_apply]; split <;> simp_all
  | closeErr t v q tx e0 =>
    refine cd_frame s _ h (by simp) (fun e _ => ?_) (fun x a => finish_h_closed _ _ _ _ (by simpa using a))
    simp only [finish_entries, upd_apply]; split <;> simp_all
  | prepOk t v q tx e0 ht hop hpc =>
    intro e he
    have he' : e < s.nE := by simpa using he
    obtain ⟨c1, c2⟩ := h e he'
    refine ⟨by simpa using c1, fun a x hx => ?_⟩
    have := c2 (by simpa using a) x (by simpa using hx)
    have hlt := (hHI.2 e x he' (by simpa using hx)).1
    have hne : x ≠ s.nH := by omega
    simp [upd, hne]; exact this
  | evict t v q tx e0 x0 ht hop hpc =>
    refine cd_frame s _ h (by simp) (fun e _ => ⟨fun a => by simpa using a, fun a => by simpa using a, fun _ => by simp⟩)
      (fun x a => finish_h_closed _ _ _ _ ?_)
    simp only [delEvict_handles, upd_apply]; split <;> simp_all
  | invalid t v q tx | waitErr t v q tx e | waitNil t v q tx e | readyClosed t v q e x0 | useFin t v q tx e x0 r =>
    exact cd_frame s _ h (by simp) (fun e _ => ⟨fun a => by simpa using a, fun a => by simpa using a, fun _ => by simp⟩)
      (fun x a => finish_h_closed _ _ _ _ a)
  | hit t v q tx m e | miss t v q tx | waitOk t v q tx e x0 | fail t v q tx e | readyUse t v q tx e x0 | useBad t v q tx e x0 =>
    exact cd_frame s _ h (by simp) (fun e _ => ⟨fun a => by simpa using a, fun a => by simpa using a, fun _ => by simp⟩)
      (fun x a => by simpa using a)


/-! ### NF: with both delete guards in place no deletion is ever foreign -/

def NF (s : St) : Prop := s.cfg.guardFail = true → s.cfg.guardEvict = true → foreignRemovals s = 0

theorem step_nf (s s' : St) (h : NF s) (hS : Shape s) (hM : Maps s) (hHI : HInv s) (hs : Step s s') : NF s' := by
  have hcfg := (step_ghost s s' hs).2.2.2.1
  intro g1 g2
  rw [hcfg] at g1 g2
  have h0 := h g1 g2
  cases hs with
  | pub t v q tx m ht hop hpc hv hm => rw [publish_foreign]; exact h0
  | fail t v q tx e0 ht hop hpc =>
    show foreignRemovals (setPc (delFail s v q e0) t _) = 0
    have : foreignRemovals (setPc (delFail s v q e0) t (.closingErr e0)) = foreignRemovals (delFail s v q e0) := rfl
    rw [this]
    unfold delFail
    split
    · exact h0
    · rename_i hc
      simp only [g1, Bool.true_and, bne_iff_ne, ne_eq, Decidable.not_not] at hc
      rw [(delAt_spec s v q e0).2.2 (Or.inl hc)]; exact h0
  | evict t v q tx e0 x0 ht hop hpc =>
    have h7 := (hS.1 t).2.2.2.2.2.2.1 e0 x0 (Or.inr (Or.inr hpc))
    generalize hs1 : ({ s with handles := upd s.handles x0 { s.handles x0 with closeReq := true } } : St) = s1
    have hf1 : foreignRemovals s1 = foreignRemovals s := by subst hs1; rfl
    have : foreignRemovals (finish (delEvict s1 v q e0 x0) t .badConn) = foreignRemovals (delEvict s1 v q e0 x0) := by
      simp [foreignRemovals]
    rw [this]
    unfold delEvict
    split
    · rw [hf1]; exact h0
    · rename_i hc
      have hg : s1.cfg.guardEvict = true := by subst hs1; exact g2
      simp only [hg, Bool.true_and, Bool.not_eq_true', Bool.not_eq_false] at hc
      -- the cached entry holds x0, hence it is e0
      have hce : cachedAt s1 v q = some e0 := by
        unfold holdsHandle at hc
        split at hc
        · rename_i e' he'
          have he's : cachedAt s v q = some e' := by subst hs1; exact he'
          have hlt : e' < s.nE := by
            unfold cachedAt at he's
            split at he's
            · cases he's
            · exact (hM.1 _ _ _ he's).1
          have hh : (s.entries e').handle = some x0 := by subst hs1; simpa using hc
          have h1 := (hHI.2 e' x0 hlt hh).2
          have h2 := (hHI.2 e0 x0 h7.1 h7.2.2.2.1).2
          rw [he', ← h1, h2]
        · cases hc
      rw [(delAt_spec s1 v q e0).2.2 (Or.inl hce), hf1]; exact h0
  | closeE | closeEH | closeH => exact h0
  | _ => simpa [foreignRemovals] using h0

/-! ### all leak invariants together -/

def Inv2 (s : St) : Prop := Inv1 s ∧ EOp s ∧ WF s ∧ HInv s ∧ EntInv s ∧ MapLive s ∧ CD s ∧ NF s

theorem step_inv2 (s s' : St) (h : Inv2 s) (hs : Step s s') : Inv2 s' := by
  obtain ⟨h1, h2, h3, h4, h5, h6, h7, h8⟩ := h
  exact ⟨step_inv1 s s' h1 hs, step_eop s s' h2 hs, step_wf s s' h3 hs, step_hinv s s' h4 h1.1 h2 hs,
    step_entInv s s' h5 h1.1 h4 hs, step_mapLive s s' h6 h3 hs, step_cd s s' h7 h1.1 h4 hs,
    step_nf s s' h8 h1.1 h1.2.1 h4 hs⟩

/-- operations go through declared structs -/
def wfOps (ops : List Op) (nV : Nat) : Prop := ∀ v q tx, Op.use v q tx ∈ ops → v < nV

theorem init_inv2 (ops : List Op) (nV : Nat) (cfg : Cfg) (hw : wfOps ops nV) : Inv2 (init ops nV cfg) := by
  refine ⟨init_inv1 ops nV cfg, ?_, ?_, ⟨?_, ?_⟩, ?_, ?_, ?_, ?_⟩
  · intro e he; simp [init] at he
  · intro t v q tx hop
    simp only [init] at hop ⊢
    apply hw v q tx
    by_cases ht : t < ops.length
    · have : ops.getD t (Op.reset 0) = ops[t] := by simp [List.getD, ht]
      rw [this] at hop; rw [← hop]; exact List.getElem_mem ht
    · have : ops.getD t (Op.reset 0) = Op.reset 0 := by
        simp only [List.getD]; rw [List.getElem?_eq_none (by omega)]; rfl
      rw [this] at hop; cases hop
  · intro h hh; simp [init] at hh
  · intro e h he; simp [init] at he
  · intro e he; simp [init] at he
  · intro e he; simp [init] at he
  · intro e he; simp [init] at he
  · intro _ _; simp [init, foreignRemovals]

theorem inv2_reachable (ops : List Op) (nV : Nat) (cfg : Cfg) (hw : wfOps ops nV) (sched : List Act) :
    Inv2 (run (init ops nV cfg) sched) :=
  run_inv Inv2 step_inv2 _ sched (init_inv2 ops nV cfg hw)

/-- LEAK FREEDOM from the invariants: at quiescence, without a foreign removal, every pool-level statement is closed
    or still reachable through the map of some struct -/
theorem noLeak_of_inv (s : St) (h : Inv2 s) (hq : quiescent s) (hf : foreignRemovals s = 0) : NoLeak s := by
  obtain ⟨h1, _, _, h4, h5, h6, h7, _⟩ := h
  intro x hx htx hcl
  obtain ⟨e1, e2, e3, e4⟩ := h4.1 x hx
  -- at quiescence nobody is `storing`
  have hst : (s.entries (s.handles x).entry).handle = some x := by
    rcases e4 with e4 | e4
    · exact e4
    · have hthr : (s.handles x).thr < s.nT := by
        have := ((h1.1.1 (s.handles x).thr).2.1 (s.handles x).entry (by simp [e4, owns]))
        have h2 := h1.1.2 _ this.1 this.2.2.1
        rw [this.2.1] at h2; exact h2.1
      have := hq.1 _ hthr
      simp [isFin, e4] at this
  generalize hE : (s.handles x).entry = e at *
  rcases h5 e e1 with c | c | c | c | ⟨y, c1, c2⟩
  · rcases h6 e e1 c with ⟨v, v1, v2⟩ | c'
    · unfold cachedLive
      rw [List.any_eq_true]
      refine ⟨v, List.mem_range.mpr v1, ?_⟩
      rw [hE, v2]
      simpa [inMap] using c
    · have hd := hq.2.1 e e1 c'
      have := (h7 e e1).2 hd x hst
      rw [this] at hcl; cases hcl
  · omega
  · rw [e3, htx] at c; cases c
  · rw [e2] at c; cases c
  · rw [hst] at c1; cases c1
    have := hq.2.2 x hx c2
    rw [this] at hcl; cases hcl

end Gorm.SC
