/-
  Lemmas.PreloadAssign — (C08, round 5) a destination re-loaded in place: after preload() the relation field shows exactly the
  visible related rows WHATEVER IT HELD BEFORE — because, and only because, the field is emptied before the assignment loop.
-/
import GormModel.Model.PreloadAssign
namespace Gorm
open PreloadAssign

theorem PreloadAssign.foldl_collection (k : RelKind) (hk : k.collection = true) (rows init : List Nat) :
    rows.foldl (assignOne k) init = init ++ rows := by
  induction rows generalizing init with
  | nil => simp
  | cons r rs ih => simp [List.foldl, assignOne, hk, ih]

theorem PreloadAssign.foldl_single (k : RelKind) (hk : k.collection = false) (rows init : List Nat) :
    rows.foldl (assignOne k) init = match rows.getLast? with
      | some r => [r]
      | none => init := by
  induction rows generalizing init with
  | nil => simp
  | cons r rs ih =>
    simp only [List.foldl, assignOne, hk]
    rw [ih]
    cases rs with
    | nil => simp
    | cons s ss =>
      rw [List.getLast?_cons_cons]
      cases h : (s :: ss).getLast? with
      | none => simp at h
      | some x => rfl

/-- MAIN (round 5): with the clean-up step in place, the relation field of a re-loaded destination shows exactly the rows
    the child query returned for this parent — the VISIBLE related rows — whatever the field held before (`old` is arbitrary:
    the stale result of an earlier load, of another record, anything). -/
theorem C08_preload_reload_visible (k : RelKind) (pk : Nat) (old : List Nat) (results : List (Nat × Nat)) :
    preloadOne true k pk old results = shows k (rowsOf pk results) := by
  unfold preloadOne shows resetField
  cases hk : k.collection with
  | true => simp [foldl_collection k hk]
  | false =>
    rw [foldl_single k hk]
    cases (rowsOf pk results).getLast? <;> simp

/-- … in particular no row outside the query's result — no soft-deleted row — is left in the field, -/
theorem C08_preload_reload_no_invisible (k : RelKind) (pk : Nat) (old : List Nat) (results : List (Nat × Nat)) :
    ∀ x ∈ preloadOne true k pk old results, x ∈ rowsOf pk results := by
  rw [C08_preload_reload_visible]
  intro x hx
  unfold shows at hx
  cases hk : k.collection with
  | true => simpa [hk] using hx
  | false =>
    simp only [hk] at hx
    cases hl : (rowsOf pk results).getLast? with
    | none => simp [hl] at hx
    | some r =>
      simp [hl] at hx
      subst hx
      exact List.mem_of_getLast? hl

/-- … and when the only related rows are soft-deleted (the query returns nothing for this parent) the field is EMPTY. -/
theorem C08_preload_reload_empty (k : RelKind) (pk : Nat) (old : List Nat) (results : List (Nat × Nat))
    (h : rowsOf pk results = []) : preloadOne true k pk old results = [] := by
  rw [C08_preload_reload_visible, h]
  unfold shows
  cases k.collection <;> simp

/-- The clean-up step is NECESSARY: without it a field that held something keeps it when the query returns nothing for the
    parent (the class of "single-valued fields are simply overwritten" changes), -/
theorem C08_preload_reset_needed (k : RelKind) (pk : Nat) (old : List Nat) (results : List (Nat × Nat))
    (h : rowsOf pk results = []) : preloadOne false k pk old results = old := by
  simp [preloadOne, resetField, h]

/-- … and a collection would show the old rows in front of the new ones. -/
theorem C08_preload_reset_needed_collection (k : RelKind) (hk : k.collection = true) (pk : Nat) (old : List Nat)
    (results : List (Nat × Nat)) : preloadOne false k pk old results = old ++ rowsOf pk results := by
  simp [preloadOne, resetField, foldl_collection k hk]

/-- REGENERATED FACTS (callbacks/preload.go preload): the clean-up step exists, comes after the child query and before the
    assignment loop, and has — for a struct destination and for every element of a slice / array destination — an arm for
    EVERY relation kind that empties the field; the loop overwrites a struct-kind field and appends to a slice-kind field. -/
theorem C08_preload_reset_facts_current_tree :
    Gen.preloadResetFound = true ∧ Gen.preloadResetAfterQuery = true ∧ Gen.preloadResetBeforeAssign = true ∧
    (∀ dk : DestKind, ∀ k : RelKind, resets Gen.preloadResetArms dk k = true) ∧
    Gen.preloadAssignStruct = "overwrite" ∧ Gen.preloadAssignSlice = "append" := by
  refine ⟨by decide, by decide, by decide, ?_, by decide, by decide⟩
  intro dk k
  cases dk <;> cases k <;> decide

/-- hence, on the current tree: every relation kind, both destination kinds, any previous content. -/
theorem C08_preload_reload_current_tree (dk : DestKind) (k : RelKind) (pk : Nat) (old : List Nat) (results : List (Nat × Nat)) :
    preloadField Gen.preloadResetArms Gen.preloadResetBeforeAssign dk k pk old results = shows k (rowsOf pk results) := by
  unfold preloadField
  rw [C08_preload_reset_facts_current_tree.2.2.2.1 dk k, C08_preload_reset_facts_current_tree.2.2.1]
  exact C08_preload_reload_visible k pk old results

/-- a tree whose default arm is missing does NOT have the property (kernel-checked on the arms of such a tree) -/
theorem C08_preload_no_default_arm_counterexample :
    let arms : List Gen.PreloadResetArm :=
      [{ destKind := "reflect.Struct", relTypes := ["schema.HasMany", "schema.Many2Many"], sets := "emptySlice", everyRecord := true }]
    preloadField arms true .struct .hasOne 1 [7] [] = [7] ∧ preloadField arms true .struct .belongsTo 1 [7] [] = [7] := by
  decide

/-- FINDING F34 (unchanged tree): the Joins path has no clean-up step — a struct re-loaded in place with Joins(R) keeps the
    soft-deleted row 2 of the earlier load although the joined row arrives as NULL -/
theorem C08_joins_reload_counterexample : joinsAssign [2] none = [2] ∧ joinsAssign [2] none ≠ (none : Option Nat).toList := by
  decide

/-- outside the finding's pattern (the field was empty — a fresh destination, a slice element — or the joined row is visible)
    the joined relation shows exactly the visible row -/
theorem C08_joins_reload_partial (old : List Nat) (joined : Option Nat) (h : old = [] ∨ joined.isSome = true) :
    joinsAssign old joined = joined.toList := by
  cases joined with
  | some r => simp [joinsAssign]
  | none =>
    cases h with
    | inl h => simp [joinsAssign, h]
    | inr h => simp at h

-- non-vacuity: a reused has-one field holding 7 whose only related row is soft-deleted; a reused has-many field
example : preloadOne true .hasOne 1 [7] [(2, 9)] = [] := by decide
example : preloadOne false .hasOne 1 [7] [(2, 9)] = [7] := by decide
example : preloadOne true .hasMany 1 [7, 8] [(1, 8), (2, 9), (1, 5)] = [8, 5] := by decide
example : preloadField Gen.preloadResetArms Gen.preloadResetBeforeAssign .struct .belongsTo 1 [7] [] = [] := by decide

end Gorm
