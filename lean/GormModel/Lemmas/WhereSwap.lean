import GormModel.Model.WhereSwap
namespace Gorm.WhereSwap

theorem firstOther_ge (es : List EK) (i j : Nat) (h : firstOther es i = some j) : i ≤ j := by
  induction es generalizing i with
  | nil => simp [firstOther] at h
  | cons e rest ih =>
    cases e with
    | other => simp [firstOther] at h; omega
    | singleOr => simp [firstOther] at h; have := ih _ h; omega

theorem firstOther_none_iff (es : List EK) (i : Nat) : firstOther es i = none ↔ ∀ e ∈ es, e = .singleOr := by
  induction es generalizing i with
  | nil => simp [firstOther]
  | cons e rest ih =>
    cases e with
    | other => simp [firstOther]
    | singleOr => simp [firstOther, ih]

/-- Build writes nothing when the first element is not a single Or -/
theorem writes_nil_of_head (es : List EK) (h : es.head? ≠ some .singleOr) : writesInPlace es = [] := by
  cases es with
  | nil => simp [writesInPlace, firstOther]
  | cons e rest =>
    cases e with
    | other => simp [writesInPlace, firstOther]
    | singleOr => simp at h

/-- Build writes (cells 0 and idx) exactly when the list starts with a single Or and contains some other element -/
theorem writes_ne_nil_iff (es : List EK) : writesInPlace es ≠ [] ↔ (es.head? = some .singleOr ∧ EK.other ∈ es) := by
  cases es with
  | nil => simp [writesInPlace, firstOther]
  | cons e rest =>
    cases e with
    | other => simp [writesInPlace, firstOther]
    | singleOr =>
      simp only [writesInPlace, firstOther, List.head?_cons, true_and]
      cases hf : firstOther rest 1 with
      | none =>
        have := (firstOther_none_iff rest 1).1 hf
        simp
        intro hm
        have := this _ hm
        simp at this
      | some idx =>
        have hge := firstOther_ge rest 1 idx hf
        have hne : idx ≠ 0 := by omega
        simp [hne]
        have : ¬ (∀ e ∈ rest, e = EK.singleOr) := by
          intro hall
          have := (firstOther_none_iff rest 1).2 hall
          simp [hf] at this
        by_cases hm : EK.other ∈ rest
        · exact hm
        · exfalso; apply this; intro e he; cases e with
          | singleOr => rfl
          | other => exact absurd he hm

/-- whatever the tree: no cell of the shared array is assigned unless the list starts with a single Or -/
theorem writesOf_nil_of_head (ip : Bool) (es : List EK) (h : es.head? ≠ some .singleOr) : writesOf ip es = [] := by
  unfold writesOf; split
  · exact writes_nil_of_head es h
  · rfl

/-- a `Build` that swaps on a copy assigns no cell of the shared array, for every list -/
theorem writesOf_copy (es : List EK) : writesOf false es = [] := rfl

end Gorm.WhereSwap
