import GormModel.Model.Callbacks
import GormModel.Lemmas.Callbacks
namespace Gorm.CbL
open Gorm

theorem setAfter_size (cs : Array Cb) (i : Nat) (v : String) : (setAfter cs i v).size = cs.size := by
  simp [setAfter]
theorem setBefore_size (cs : Array Cb) (i : Nat) (v : String) : (setBefore cs i v).size = cs.size := by
  simp [setBefore]

theorem setAfter_get (cs : Array Cb) (i j : Nat) (v : String) :
    (setAfter cs i v)[j]! = if j = i ∧ i < cs.size then { cs[j]! with after := v } else cs[j]! := by
  unfold setAfter
  by_cases hj : j < cs.size
  · simp [hj, Array.getElem_modify]
    by_cases h : i = j
    · subst h; simp [hj]
    · have : ¬ j = i := fun e => h e.symm
      simp [h, this]
  · have : ¬ (j = i ∧ i < cs.size) := by
      intro ⟨a, b⟩; subst a; exact hj b
    simp [hj, this]

theorem setBefore_get (cs : Array Cb) (i j : Nat) (v : String) :
    (setBefore cs i v)[j]! = if j = i ∧ i < cs.size then { cs[j]! with before := v } else cs[j]! := by
  unfold setBefore
  by_cases hj : j < cs.size
  · simp [hj, Array.getElem_modify]
    by_cases h : i = j
    · subst h; simp [hj]
    · have : ¬ j = i := fun e => h e.symm
      simp [h, this]
  · have : ¬ (j = i ∧ i < cs.size) := by
      intro ⟨a, b⟩; subst a; exact hj b
    simp [hj, this]

theorem getRIndex_go_some (s : String) (l : List String) (i : Nat) (acc : Option Nat) (k : Nat)
    (h : getRIndex.go s l i acc = some k) :
    (acc = some k ∧ s ∉ l) ∨
    (∃ k', k = i + k' ∧ k' < l.length ∧ l[k']! = s ∧ ∀ j, k' < j → j < l.length → l[j]! ≠ s) := by
  induction l generalizing i acc with
  | nil => left; simpa [getRIndex.go] using h
  | cons x xs ih =>
    simp only [getRIndex.go] at h
    rcases ih _ _ h with ⟨hacc, hn⟩ | ⟨k', hk, hlt, hget, hlast⟩
    · by_cases hx : x = s
      · right
        simp [hx] at hacc
        refine ⟨0, by omega, by simp, by simp [hx], ?_⟩
        intro j hj hjl
        obtain ⟨j', rfl⟩ : ∃ j', j = j' + 1 := ⟨j - 1, by omega⟩
        simp only [List.length_cons] at hjl
        have hj' : j' < xs.length := by omega
        simp [hj']
        intro e; exact hn (e ▸ List.getElem_mem hj')
      · left
        simp [hx] at hacc
        refine ⟨hacc, ?_⟩
        simp; exact ⟨fun e => hx e.symm, hn⟩
    · right
      refine ⟨k' + 1, by omega, by simp; omega, ?_, ?_⟩
      · simpa using hget
      · intro j hj hjl
        obtain ⟨j', rfl⟩ : ∃ j', j = j' + 1 := ⟨j - 1, by omega⟩
        simp only [List.length_cons] at hjl
        have := hlast j' (by omega) (by omega)
        simpa using this

theorem getRIndex_some (l : List String) (s : String) (k : Nat) (h : getRIndex l s = some k) :
    k < l.length ∧ l[k]! = s ∧ ∀ j, k < j → j < l.length → l[j]! ≠ s := by
  unfold getRIndex at h
  rcases getRIndex_go_some s l 0 none k h with ⟨hacc, _⟩ | ⟨k', hk, hlt, hget, hlast⟩
  · cases hacc
  · have : k = k' := by omega
    subst this
    exact ⟨hlt, hget, hlast⟩

theorem getRIndex_some_mem (l : List String) (s : String) (k : Nat) (h : getRIndex l s = some k) : s ∈ l := by
  obtain ⟨h1, h2, _⟩ := getRIndex_some l s k h
  rw [← h2]
  simp [h1]

theorem getRIndex_isSome_iff (l : List String) (s : String) : (∃ k, getRIndex l s = some k) ↔ s ∈ l := by
  constructor
  · intro ⟨k, h⟩; exact getRIndex_some_mem l s k h
  · intro hm
    cases h : getRIndex l s with
    | none => exact absurd hm ((getRIndex_none_iff l s).mp h)
    | some k => exact ⟨k, rfl⟩

/-- the primitive state changes `sortCallback` can make, with the guards under which it makes them -/
inductive Atomic (names : List String) : SortSt → SortSt → Prop
  | prepend (st : SortSt) (s : String) : s ∈ names → s ∉ st.sorted →
      Atomic names st { st with sorted := s :: st.sorted }
  | insert (st : SortSt) (s : String) (k : Nat) : s ∈ names → s ∉ st.sorted →
      Atomic names st { st with sorted := st.sorted.take k ++ [s] ++ st.sorted.drop k }
  | append (st : SortSt) (s : String) : s ∈ names → s ∉ st.sorted →
      Atomic names st { st with sorted := st.sorted ++ [s] }
  | setAfter (st : SortSt) (i idx : Nat) : i < st.cs.size → (st.cs[i]!).before ≠ "" →
      getRIndex names (st.cs[i]!).before = some idx →
      Atomic names st { st with cs := Gorm.setAfter st.cs idx (st.cs[i]!).name }
  | setBefore (st : SortSt) (i idx : Nat) : i < st.cs.size → (st.cs[i]!).after ≠ "" →
      getRIndex names (st.cs[i]!).after = some idx →
      Atomic names st { st with cs := Gorm.setBefore st.cs idx (st.cs[i]!).name }

inductive Reach (names : List String) : SortSt → SortSt → Prop
  | refl (st : SortSt) : Reach names st st
  | step {a b c : SortSt} : Reach names a b → Atomic names b c → Reach names a c

theorem Reach.trans {names : List String} {a b c : SortSt} (h1 : Reach names a b) (h2 : Reach names b c) :
    Reach names a c := by
  induction h2 with
  | refl => exact h1
  | step _ hat ih => exact Reach.step ih hat

theorem Reach.one {names : List String} {a b : SortSt} (h : Atomic names a b) : Reach names a b :=
  Reach.step (Reach.refl a) h

/-- table and `names` agree -/
def WF (names : List String) (st : SortSt) : Prop :=
  names.length = st.cs.size ∧ ∀ j, j < st.cs.size → names[j]! = (st.cs[j]!).name

theorem WF.name_mem {names : List String} {st : SortSt} (h : WF names st) {i : Nat} (hi : i < st.cs.size) :
    (st.cs[i]!).name ∈ names := by
  rw [← h.2 i hi]
  have : i < names.length := by rw [h.1]; exact hi
  simp [this]

theorem atomic_wf {names : List String} {a b : SortSt} (h : Atomic names a b) (hw : WF names a) : WF names b := by
  cases h with
  | prepend | insert | append => exact hw
  | setAfter i idx hi hne hg =>
    refine ⟨by simpa [setAfter_size] using hw.1, ?_⟩
    intro j hj
    simp only [setAfter_size] at hj
    rw [hw.2 j hj, setAfter_get]
    split <;> rfl
  | setBefore i idx hi hne hg =>
    refine ⟨by simpa [setBefore_size] using hw.1, ?_⟩
    intro j hj
    simp only [setBefore_size] at hj
    rw [hw.2 j hj, setBefore_get]
    split <;> rfl

theorem reach_wf {names : List String} {a b : SortSt} (h : Reach names a b) (hw : WF names a) : WF names b := by
  induction h with
  | refl => exact hw
  | step _ hat ih => exact atomic_wf hat ih

theorem atomic_size {names : List String} {a b : SortSt} (h : Atomic names a b) : b.cs.size = a.cs.size := by
  cases h <;> simp [setAfter_size, setBefore_size]

theorem reach_size {names : List String} {a b : SortSt} (h : Reach names a b) : b.cs.size = a.cs.size := by
  induction h with
  | refl => rfl
  | step _ hat ih => rw [atomic_size hat, ih]

theorem atomic_name {names : List String} {a b : SortSt} (h : Atomic names a b) (j : Nat) :
    (b.cs[j]!).name = (a.cs[j]!).name := by
  cases h with
  | prepend | insert | append => rfl
  | setAfter i idx hi hne hg => simp only [setAfter_get]; split <;> rfl
  | setBefore i idx hi hne hg => simp only [setBefore_get]; split <;> rfl

theorem reach_name {names : List String} {a b : SortSt} (h : Reach names a b) (j : Nat) :
    (b.cs[j]!).name = (a.cs[j]!).name := by
  induction h with
  | refl => rfl
  | step _ hat ih => rw [atomic_name hat, ih]

theorem sublist_insert_mid (l : List String) (s : String) (k : Nat) :
    l.Sublist (l.take k ++ [s] ++ l.drop k) := by
  have h : (l.take k ++ l.drop k).Sublist (l.take k ++ [s] ++ l.drop k) := by
    rw [List.append_assoc]
    exact List.Sublist.append (List.Sublist.refl _) (List.sublist_append_right _ _)
  rwa [List.take_append_drop] at h

theorem atomic_sub {names : List String} {a b : SortSt} (h : Atomic names a b) : a.sorted.Sublist b.sorted := by
  cases h with
  | prepend s => exact List.sublist_cons_self _ _
  | insert s k => exact sublist_insert_mid _ _ _
  | append s => exact List.sublist_append_left _ _
  | setAfter | setBefore => exact List.Sublist.refl _

/-- placed names are never moved or dropped: the old `sorted` is a subsequence of the new one -/
theorem reach_sub {names : List String} {a b : SortSt} (h : Reach names a b) : a.sorted.Sublist b.sorted := by
  induction h with
  | refl => exact List.Sublist.refl _
  | step _ hat ih => exact ih.trans (atomic_sub hat)

theorem atomic_subset {names : List String} {a b : SortSt} (h : Atomic names a b)
    (hs : ∀ s ∈ a.sorted, s ∈ names) : ∀ s ∈ b.sorted, s ∈ names := by
  cases h with
  | prepend s hn _ => intro x hx; simp at hx; rcases hx with rfl | hx; exact hn; exact hs x hx
  | insert s k hn _ =>
    intro x hx
    simp at hx
    rcases hx with hx | rfl | hx
    · exact hs x (List.mem_of_mem_take hx)
    · exact hn
    · exact hs x (List.mem_of_mem_drop hx)
  | append s hn _ => intro x hx; simp at hx; rcases hx with hx | rfl; exact hs x hx; exact hn
  | setAfter | setBefore => exact hs

theorem reach_subset {names : List String} {a b : SortSt} (h : Reach names a b)
    (hs : ∀ s ∈ a.sorted, s ∈ names) : ∀ s ∈ b.sorted, s ∈ names := by
  induction h with
  | refl => exact hs
  | step _ hat ih => exact atomic_subset hat ih



/-- the identity part of a callback record (everything except the `before`/`after` requests) -/
def sameId (a b : Cb) : Prop :=
  a.name = b.name ∧ a.remove = b.remove ∧ a.matchOk = b.matchOk ∧ a.hid = b.hid ∧ a.replace = b.replace

theorem atomic_sameId {names : List String} {a b : SortSt} (h : Atomic names a b) (j : Nat) :
    sameId (b.cs[j]!) (a.cs[j]!) := by
  cases h with
  | prepend | insert | append => exact ⟨rfl, rfl, rfl, rfl, rfl⟩
  | setAfter i idx hi hne hg => simp only [setAfter_get]; split <;> exact ⟨rfl, rfl, rfl, rfl, rfl⟩
  | setBefore i idx hi hne hg => simp only [setBefore_get]; split <;> exact ⟨rfl, rfl, rfl, rfl, rfl⟩

theorem reach_sameId {names : List String} {a b : SortSt} (h : Reach names a b) (j : Nat) :
    sameId (b.cs[j]!) (a.cs[j]!) := by
  induction h with
  | refl => exact ⟨rfl, rfl, rfl, rfl, rfl⟩
  | step _ hat ih =>
    obtain ⟨h1, h2, h3, h4, h5⟩ := atomic_sameId hat j
    obtain ⟨g1, g2, g3, g4, g5⟩ := ih
    exact ⟨h1.trans g1, h2.trans g2, h3.trans g3, h4.trans g4, h5.trans g5⟩

/-! ### every run of `sortCallback` / the main loop is a chain of primitive steps -/

theorem beforeBlock_reach (names : List String) (i : Nat) (st : SortSt)
    (hw : WF names st) (hi : i < st.cs.size) : Reach names st (beforeBlock names i st).1 := by
  have hmem := hw.name_mem hi
  unfold beforeBlock
  simp only
  split
  · rename_i hne
    split
    · split
      · rename_i hn
        exact Reach.one (Atomic.prepend st _ hmem (not_mem_of_isNone _ _ hn))
      · exact Reach.refl _
    · split
      · split
        · rename_i hn
          exact Reach.one (Atomic.insert st _ _ hmem ((getRIndex_none_iff _ _).mp hn))
        · split <;> exact Reach.refl _
      · split
        · rename_i idx hg
          exact Reach.one (Atomic.setAfter st i idx hi hne hg)
        · exact Reach.refl _
  · exact Reach.refl _

theorem afterBlock_reach (recur : Nat → SortSt → SortRes) (names : List String) (i : Nat) (st : SortSt)
    (hrec : ∀ j s, WF names s → j < s.cs.size → Reach names s (recur j s).1)
    (hw : WF names st) (hi : i < st.cs.size) : Reach names st (afterBlock recur names i st).1 := by
  have hmem := hw.name_mem hi
  unfold afterBlock
  simp only
  split
  · rename_i hne
    split
    · split
      · rename_i hn
        exact Reach.one (Atomic.append st _ hmem (not_mem_of_isNone _ _ hn))
      · exact Reach.refl _
    · split
      · split
        · rename_i hn
          exact Reach.one (Atomic.append st _ hmem ((getRIndex_none_iff _ _).mp hn))
        · split <;> exact Reach.refl _
      · split
        · rename_i idx hg
          have hidx : idx < st.cs.size := by
            have := (getRIndex_some _ _ _ hg).1
            rw [hw.1] at this; exact this
          have h0 : Reach names st (if (st.cs[idx]!).before = "" then
              ({ st with cs := setBefore st.cs idx (st.cs[i]!).name } : SortSt) else st) := by
            split
            · exact Reach.one (Atomic.setBefore st i idx hi hne hg)
            · exact Reach.refl _
          have hw0 := reach_wf h0 hw
          have hs0 := reach_size h0
          have h1 := hrec idx _ hw0 (by rw [hs0]; exact hidx)
          split
          · rename_i st1 e heq
            rw [heq] at h1; exact h0.trans h1
          · rename_i st1 heq
            rw [heq] at h1
            have h01 := h0.trans h1
            exact h01.trans (hrec i st1 (reach_wf h01 hw) (by rw [reach_size h01]; exact hi))
        · exact Reach.refl _
  · exact Reach.refl _

theorem finalBlock_reach (names : List String) (cname : String) (st : SortSt) (hm : cname ∈ names) :
    Reach names st (finalBlock cname st).1 := by
  unfold finalBlock
  split
  · rename_i hn
    exact Reach.one (Atomic.append st _ hm (not_mem_of_isNone _ _ hn))
  · exact Reach.refl _

theorem sortCallback_reach (names : List String) (fuel i : Nat) (st : SortSt)
    (hw : WF names st) (hi : i < st.cs.size) : Reach names st (sortCallback names fuel i st).1 := by
  induction fuel generalizing i st with
  | zero => simp [sortCallback]; exact Reach.refl _
  | succ fuel ih =>
    unfold sortCallback
    simp only
    have hmem := hw.name_mem hi
    have h1 := beforeBlock_reach names i st hw hi
    split
    · rename_i st1 e heq
      rw [heq] at h1; exact h1
    · rename_i st1 heq
      rw [heq] at h1
      have h2 := afterBlock_reach (sortCallback names fuel) names i st1 (fun j s hs hj => ih j s hs hj)
        (reach_wf h1 hw) (by rw [reach_size h1]; exact hi)
      split
      · rename_i st2 e heq2
        rw [heq2] at h2; exact h1.trans h2
      · rename_i st2 heq2
        rw [heq2] at h2
        exact (h1.trans h2).trans (finalBlock_reach names _ st2 hmem)

theorem sortLoop_reach (names : List String) (fuel k i : Nat) (st : SortSt)
    (hw : WF names st) (hi : i + k ≤ st.cs.size) : Reach names st (sortLoop names fuel k i st).1 := by
  induction k generalizing i st with
  | zero => simp [sortLoop]; exact Reach.refl _
  | succ k ih =>
    unfold sortLoop
    have h1 := sortCallback_reach names fuel i st hw (by omega)
    split
    · rename_i st1 e heq
      rw [heq] at h1; exact h1
    · rename_i st1 heq
      rw [heq] at h1
      exact h1.trans (ih (i+1) st1 (reach_wf h1 hw) (by rw [reach_size h1]; omega))

end Gorm.CbL
