/-
  Lemmas.AssocRef — the statements of Model.AssocRef under the SOUND selectors address exactly the records the
  operation names, for arbitrary records whose referenced column differs from the primary key; the argument
  records' own relation fields do not influence what the nested upsert writes; zero-argument calls.
-/
import GormModel.Model.AssocRef
namespace Gorm.AssocRef

theorem keys_pk (l : List Rec) : keys l .pk = l.map (·.id) := rfl
theorem keys_ref (l : List Rec) : keys l .ref = l.map (·.code) := rfl

/-- Delete on a belongs-to removes exactly the links (operated owner -> named target), targets being addressed by the
    value of the REFERENCED column -/
theorem bt_delete_links (os named owners : List Rec) (oid tcode : Nat) :
    BtLinked (btDelete sound os named owners) oid tcode ↔
      BtLinked owners oid tcode ∧ ¬ (oid ∈ os.map (·.id) ∧ tcode ∈ named.map (·.code)) := by
  unfold BtLinked btDelete
  simp only [sound, keys_pk, keys_ref, List.mem_map]
  constructor
  · rintro ⟨h0, x', ⟨x, hx, rfl⟩, hid, hfk⟩
    by_cases hc : (∃ a, a ∈ os ∧ a.id = x.id) ∧ ∃ a, a ∈ named ∧ a.code = x.fk
    · rw [if_pos hc] at hid hfk
      exact absurd hfk.symm h0
    · rw [if_neg hc] at hid hfk
      refine ⟨⟨h0, x, hx, hid, hfk⟩, ?_⟩
      rw [← hid, ← hfk]
      exact hc
  · rintro ⟨⟨h0, x, hx, hid, hfk⟩, hn⟩
    refine ⟨h0, _, ⟨x, hx, rfl⟩, ?_⟩
    have hc : ¬ ((∃ a, a ∈ os ∧ a.id = x.id) ∧ ∃ a, a ∈ named ∧ a.code = x.fk) := by
      rw [hid, hfk]; exact hn
    rw [if_neg hc]
    exact ⟨hid, hfk⟩

/-- Delete on a has-one / has-many removes exactly the links (operated owner -> named target): owners addressed by
    their REFERENCED column, targets by their primary key -/
theorem fk_delete_links (os named targets : List Rec) (ocode tid : Nat) :
    FkLinked (fkDelete sound os named targets) ocode tid ↔
      FkLinked targets ocode tid ∧ ¬ (ocode ∈ os.map (·.code) ∧ tid ∈ named.map (·.id)) := by
  unfold FkLinked fkDelete
  simp only [sound, keys_pk, keys_ref, List.mem_map]
  constructor
  · rintro ⟨h0, x', ⟨x, hx, rfl⟩, hid, hfk⟩
    by_cases hc : (∃ a, a ∈ os ∧ a.code = x.fk) ∧ ∃ a, a ∈ named ∧ a.id = x.id
    · rw [if_pos hc] at hid hfk
      exact absurd hfk.symm h0
    · rw [if_neg hc] at hid hfk
      refine ⟨⟨h0, x, hx, hid, hfk⟩, ?_⟩
      rw [← hid, ← hfk]
      exact hc
  · rintro ⟨⟨h0, x, hx, hid, hfk⟩, hn⟩
    refine ⟨h0, _, ⟨x, hx, rfl⟩, ?_⟩
    have hc : ¬ ((∃ a, a ∈ os ∧ a.code = x.fk) ∧ ∃ a, a ∈ named ∧ a.id = x.id) := by
      rw [hid, hfk]; exact hn
    rw [if_neg hc]
    exact ⟨hid, hfk⟩

/-- Replace's clean-up on a has-one / has-many keeps exactly the links of other owners and the operated owners' links
    to the kept records -/
theorem fk_replace_links (os keep targets : List Rec) (ocode tid : Nat) :
    FkLinked (fkReplaceCleanup sound os keep targets) ocode tid ↔
      FkLinked targets ocode tid ∧ (ocode ∈ os.map (·.code) → tid ∈ keep.map (·.id)) := by
  unfold FkLinked fkReplaceCleanup
  simp only [sound, keys_pk, keys_ref, List.mem_map]
  constructor
  · rintro ⟨h0, x', ⟨x, hx, rfl⟩, hid, hfk⟩
    by_cases hc : (∃ a, a ∈ os ∧ a.code = x.fk) ∧ (keep = [] ∨ ¬ ∃ a, a ∈ keep ∧ a.id = x.id)
    · rw [if_pos hc] at hid hfk
      exact absurd hfk.symm h0
    · rw [if_neg hc] at hid hfk
      refine ⟨⟨h0, x, hx, hid, hfk⟩, ?_⟩
      intro ho
      rw [← hfk] at ho
      rw [← hid]
      by_cases hk : ∃ a, a ∈ keep ∧ a.id = x.id
      · exact hk
      · exact absurd ⟨ho, Or.inr hk⟩ hc
  · rintro ⟨⟨h0, x, hx, hid, hfk⟩, hn⟩
    refine ⟨h0, _, ⟨x, hx, rfl⟩, ?_⟩
    have hc : ¬ ((∃ a, a ∈ os ∧ a.code = x.fk) ∧ (keep = [] ∨ ¬ ∃ a, a ∈ keep ∧ a.id = x.id)) := by
      rintro ⟨ho, hk⟩
      rw [hfk] at ho
      obtain ⟨a, ha, hai⟩ := hn ho
      rcases hk with hk | hk
      · rw [hk] at ha; cases ha
      · exact hk ⟨a, ha, by rw [hai, hid]⟩
    rw [if_neg hc]
    exact ⟨hid, hfk⟩

theorem not_and_dec (A B : Prop) [Decidable A] [Decidable B] :
    (!(decide A && decide B)) = true ↔ ¬ (A ∧ B) := by
  by_cases hA : A <;> by_cases hB : B <;> simp [hA, hB]

theorem not_and_or_dec (A B : Prop) (e : Bool) [Decidable A] [Decidable B] :
    (!(decide A && (e || decide B))) = true ↔ ¬ (A ∧ (e = true ∨ B)) := by
  cases e <;> by_cases hA : A <;> by_cases hB : B <;> simp [hA, hB]

/-- Delete on a many2many removes exactly the join rows (operated owner, named target), both sides addressed by the
    values of the columns the join table REFERENCES -/
theorem m2m_delete_links (os named : List Rec) (joins : List (Nat × Nat)) (j : Nat × Nat) :
    j ∈ m2mDelete sound os named joins ↔
      j ∈ joins ∧ ¬ (j.1 ∈ os.map (·.code) ∧ j.2 ∈ named.map (·.code)) := by
  unfold m2mDelete
  rw [List.mem_filter, not_and_dec]
  rfl

theorem m2m_replace_links (os keep : List Rec) (joins : List (Nat × Nat)) (j : Nat × Nat) :
    j ∈ m2mReplaceCleanup sound os keep joins ↔
      j ∈ joins ∧ (j.1 ∈ os.map (·.code) → keep ≠ [] ∧ j.2 ∈ keep.map (·.code)) := by
  unfold m2mReplaceCleanup
  rw [List.mem_filter, not_and_or_dec, List.isEmpty_iff]
  show j ∈ joins ∧ ¬ (j.1 ∈ os.map (·.code) ∧ (keep = [] ∨ j.2 ∉ keep.map (·.code))) ↔ _
  constructor
  · rintro ⟨hj, h⟩
    refine ⟨hj, fun ho => ⟨fun hk => h ⟨ho, Or.inl hk⟩, ?_⟩⟩
    by_cases hm : j.2 ∈ keep.map (·.code)
    · exact hm
    · exact absurd ⟨ho, Or.inr hm⟩ h
  · rintro ⟨hj, h⟩
    refine ⟨hj, ?_⟩
    rintro ⟨ho, hk⟩
    obtain ⟨h1, h2⟩ := h ho
    rcases hk with hk | hk
    · exact h1 hk
    · exact hk h2

/-- the in-memory clean-up of Delete drops exactly the elements whose PRIMARY key is a named primary key -/
theorem clean_mem (field named : List Rec) (e : Rec) :
    e ∈ cleanMem sound field named ↔ e ∈ field ∧ e.id ∉ named.map (·.id) := by
  simp [cleanMem, sound, keys_pk, Rec.key, List.mem_filter]

/-! the argument records -/

/-- with the `Omit(clause.Associations)` branch in place the nested upsert links EVERY argument to the operated owner,
    whatever stale foreign key or preloaded back-reference the argument carries -/
theorem nested_links_owner (o : Nat) (args : List ArgRec) :
    nestedLinks true o args = args.map (fun a => (o, a.key)) := by
  simp [nestedLinks, nestedFk]

theorem nested_saved_fk (o : Nat) (a : ArgRec) : (a.saved true o).fkField = o := by
  simp [ArgRec.saved, nestedFk]

/-- two arguments that differ only in their own in-memory relation fields are written identically -/
theorem nested_independent_of_argument_state (o : Nat) (a b : ArgRec) (h : a.key = b.key) :
    nestedLinks true o [a] = nestedLinks true o [b] := by
  simp [nestedLinks, nestedFk, h]

/-- without that branch an argument loaded with a back-reference to its previous owner is written back to that owner -/
theorem nested_without_omit_counterexample :
    nestedLinks false 2 [{ key := 3, fkField := 1, back := some 1 }] = [(1, 3)] ∧
    nestedLinks true 2 [{ key := 3, fkField := 1, back := some 1 }] = [(2, 3)] := by
  decide

/-! zero-argument calls -/

theorem call_guarded (r : Assoc.Rel) (os : List Nat) (op : Assoc.Op) (s : Assoc.St) :
    call true r os op s = Assoc.step r os op s := by
  unfold call Assoc.step
  by_cases he : s.err = true
  · simp [he]
  · cases hk : op.kind <;> simp [he, List.isEmpty_iff]

/-- Append that names no target is the identity on the whole state, for every relation kind, scoped or Unscoped,
    single record or slice -/
theorem append_nothing (r : Assoc.Rel) (os : List Nat) (uns : Bool) (s : Assoc.St) :
    Assoc.step r os ⟨.append, uns, []⟩ s = s := by
  unfold Assoc.step
  by_cases he : s.err = true
  · simp [he]
  · simp [he, Assoc.saveAssociation]

/-- Replace that names no target is Clear -/
theorem replace_nothing_is_clear (r : Assoc.Rel) (os : List Nat) (uns : Bool) (s : Assoc.St) :
    Assoc.step r os ⟨.replace, uns, []⟩ s = Assoc.step r os ⟨.clear, uns, []⟩ s := by
  simp [Assoc.step]

theorem named_nil (os : List Nat) (p : Nat × Nat) : Assoc.named os [] p = false := by
  simp [Assoc.named]

theorem cleanMem_nil (r : Assoc.Rel) : ∀ (os : List Nat) (s : Assoc.St),
    (Assoc.cleanMem r [] os s).links = s.links ∧ (Assoc.cleanMem r [] os s).targets = s.targets ∧
    (Assoc.cleanMem r [] os s).mem = s.mem ∧ (Assoc.cleanMem r [] os s).memFk = s.memFk ∧
    (Assoc.cleanMem r [] os s).err = s.err
  | [], s => by simp [Assoc.cleanMem]
  | o :: os, s => by
    have key : ∃ s' : Assoc.St, Assoc.cleanMem r [] (o :: os) s = Assoc.cleanMem r [] os s' ∧ s'.links = s.links ∧
        s'.targets = s.targets ∧ s'.mem = s.mem ∧ s'.memFk = s.memFk ∧ s'.err = s.err := by
      simp only [Assoc.cleanMem]
      by_cases hc : r.card1 = true
      · cases hm : s.mem o with
        | nil => exact ⟨s, by simp [hc], rfl, rfl, rfl, rfl, rfl⟩
        | cons v vs => exact ⟨s, by simp [hc], rfl, rfl, rfl, rfl, rfl⟩
      · refine ⟨{ s with mem := Assoc.upd s.mem o ((s.mem o).filter (fun x => decide (x ∉ ([] : List Nat)))) }, by simp [hc], rfl, rfl, ?_, rfl, rfl⟩
        funext y
        by_cases hy : y = o <;> simp [Assoc.upd, hy]
    obtain ⟨s', he, h1, h2, h3, h4, h5⟩ := key
    have ih := cleanMem_nil r os s'
    rw [he]
    exact ⟨ih.1.trans h1, ih.2.1.trans h2, ih.2.2.1.trans h3, ih.2.2.2.1.trans h4, ih.2.2.2.2.trans h5⟩

/-- a scoped Delete that names no target leaves links, targets and every in-memory field unchanged, for every kind -/
theorem delete_nothing (r : Assoc.Rel) (os : List Nat) (s : Assoc.St) (he : s.err = false) :
    let s' := Assoc.step r os ⟨.delete, false, [[]]⟩ s
    s'.links = s.links ∧ s'.targets = s.targets ∧ s'.mem = s.mem ∧ s'.memFk = s.memFk := by
  have hf : s.links.filter (fun p => !Assoc.named os [] p) = s.links := by
    simp [named_nil]
  have hs : ∃ m : String, Assoc.step r os ⟨.delete, false, [[]]⟩ s =
      Assoc.cleanMem r [] os { s with links := s.links.filter (fun p => !Assoc.named os [] p), log := s.log ++ [m] } := by
    obtain ⟨cls, c1⟩ := r
    cases cls
    · exact ⟨"UPDATE O", by simp [Assoc.step, he, Assoc.delete]⟩
    · exact ⟨"UPDATE T", by simp [Assoc.step, he, Assoc.delete]⟩
    · exact ⟨"DELETE J", by simp [Assoc.step, he, Assoc.delete]⟩
  obtain ⟨m, hm⟩ := hs
  have h := cleanMem_nil r os { s with links := s.links.filter (fun p => !Assoc.named os [] p), log := s.log ++ [m] }
  simp only [hm]
  exact ⟨h.1.trans hf, h.2.1, h.2.2.1, h.2.2.2.1⟩

/-- the guard matters: an unguarded delegation of a zero-argument Append to Replace() clears the link of a
    has-one / belongs-to -/
theorem append_unguarded_counterexample :
    let s : Assoc.St := { links := [(1, 14)], targets := [14], next := 21, mem := fun o => if o = 1 then [14] else [],
                          memFk := fun _ => 0 }
    (call false ⟨.fk, true⟩ [1] ⟨.append, false, []⟩ s).links = [] ∧
    (call true ⟨.fk, true⟩ [1] ⟨.append, false, []⟩ s).links = [(1, 14)] := by
  decide

end Gorm.AssocRef
