import GormModel.Model.Callbacks
import GormModel.Lemmas.Callbacks
import GormModel.Lemmas.CallbacksReach
import GormModel.Lemmas.CallbacksTable
/-!
  Unconstrained prefix: while the main loop of `sortCallbacks` walks over records that carry no request,
  it appends their names in table order; by `reach_sub` this order is kept to the end.
-/
namespace Gorm.CbL
open Gorm

theorem sortCallback_plain (names : List String) (fuel i : Nat) (st : SortSt)
    (hb : (st.cs[i]!).before = "") (ha : (st.cs[i]!).after = "") :
    sortCallback names (fuel+1) i st = finalBlock (st.cs[i]!).name st := by
  unfold sortCallback
  simp [beforeBlock, afterBlock, hb, ha]

theorem finalBlock_new (cname : String) (st : SortSt) (h : cname ∉ st.sorted) :
    finalBlock cname st = ({ st with sorted := st.sorted ++ [cname] }, none) := by
  unfold finalBlock
  rw [(getRIndex_none_iff _ _).mpr h]
  rfl

/-- names of the records `i .. i+k-1` -/
def namesFrom (cs : Array Cb) (i k : Nat) : List String := (List.range' i k).map (fun j => (cs[j]!).name)

theorem sortLoop_plain (names : List String) (fuel k i : Nat) (st : SortSt) (hf : 1 ≤ fuel)
    (hp : ∀ j, i ≤ j → j < i + k → (st.cs[j]!).before = "" ∧ (st.cs[j]!).after = "")
    (hnd : (namesFrom st.cs i k).Nodup) (hnew : ∀ x ∈ namesFrom st.cs i k, x ∉ st.sorted) :
    sortLoop names fuel k i st = ({ st with sorted := st.sorted ++ namesFrom st.cs i k }, none) := by
  obtain ⟨f, rfl⟩ : ∃ f, fuel = f + 1 := ⟨fuel - 1, by omega⟩
  induction k generalizing i st with
  | zero => simp [sortLoop, namesFrom]
  | succ k ih =>
    have hpi := hp i (by omega) (by omega)
    have hcons : namesFrom st.cs i (k+1) = (st.cs[i]!).name :: namesFrom st.cs (i+1) k := by
      simp [namesFrom, List.range'_succ]
    rw [hcons] at hnd hnew ⊢
    have hni : (st.cs[i]!).name ∉ st.sorted := hnew _ (by simp)
    unfold sortLoop
    rw [sortCallback_plain names f i st hpi.1 hpi.2, finalBlock_new _ _ hni]
    simp only
    rw [ih (i+1) { st with sorted := st.sorted ++ [(st.cs[i]!).name] }
      (fun j h1 h2 => hp j (by omega) (by omega)) (List.nodup_cons.mp hnd).2]
    · simp
    · intro x hx
      simp only [List.mem_append, List.mem_singleton, not_or]
      refine ⟨hnew x (by simp [hx]), ?_⟩
      intro e; subst e
      exact (List.nodup_cons.mp hnd).1 hx

theorem sortLoop_add (names : List String) (fuel k m i : Nat) (st : SortSt) :
    sortLoop names fuel (k + m) i st =
      match sortLoop names fuel k i st with
      | (st', some e) => (st', some e)
      | (st', none) => sortLoop names fuel m (i + k) st' := by
  induction k generalizing i st with
  | zero => simp [sortLoop]
  | succ k ih =>
    rw [show k + 1 + m = (k + m) + 1 by omega]
    rw [sortLoop, sortLoop]
    split
    · rfl
    · rename_i st1 heq
      rw [ih (i+1) st1, show i + 1 + k = i + (k + 1) by omega]

/-- BUILT-IN ORDER, table form: if the table handed to the main loop starts with `k` records that carry no
    request and have pairwise distinct names (the situation of the built-in callbacks), these names appear
    in the computed order in exactly that relative order -- whatever the rest of the table requests and
    whether or not an error is returned. -/
theorem sortLoop_prefix_order (cs : List Cb) (k : Nat) (hk : k ≤ cs.length) (fuel : Nat) (hf : 1 ≤ fuel)
    (hp : ∀ j, j < k → (cs[j]!).before = "" ∧ (cs[j]!).after = "")
    (hnd : ((cs.take k).map (·.name)).Nodup) :
    ((cs.take k).map (·.name)).Sublist
      (sortLoop (cs.map (·.name)) fuel cs.length 0 { cs := cs.toArray, sorted := [] }).1.sorted := by
  have hnf : namesFrom cs.toArray 0 k = (cs.take k).map (·.name) := by
    apply List.ext_getElem
    · simp [namesFrom]; omega
    · intro j h1 h2
      simp [namesFrom] at h1 h2 ⊢
      have : j < cs.length := by omega
      simp [this]
  obtain ⟨m, hl⟩ : ∃ m, cs.length = k + m := ⟨cs.length - k, by omega⟩
  rw [hl, sortLoop_add]
  rw [sortLoop_plain (cs.map (·.name)) fuel k 0 { cs := cs.toArray, sorted := [] } hf
    (by intro j _ h2; simpa using hp j (by omega)) (by rw [hnf]; exact hnd) (by simp)]
  simp only [List.nil_append, Nat.zero_add]
  have hw : WF (cs.map (·.name)) { cs := cs.toArray, sorted := namesFrom cs.toArray 0 k } := by
    refine ⟨by simp, ?_⟩
    intro j hj
    simp at hj
    simp [hj]
  have := reach_sub (sortLoop_reach (cs.map (·.name)) fuel m k
    { cs := cs.toArray, sorted := namesFrom cs.toArray 0 k } hw (by simp; omega))
  rw [hnf] at this ⊢
  exact this

end Gorm.CbL
