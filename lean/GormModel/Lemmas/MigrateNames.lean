/-
  Lemmas for Model/MigrateNames.lean: the add decision of AutoMigrate's column loop is a function of the exact column list.
-/
import GormModel.Model.MigrateNames
import GormModel.Lemmas.Migrate
import GormModel.Lemmas.MigrateCols
namespace Gorm.Mig

theorem columnMissing_iff (cols : List (Str × ColumnInfo)) (n : Str) : columnMissing cols n = true ↔ n ∉ listed cols := by
  unfold columnMissing listed
  rw [← lookup_none_iff]
  cases lookup n cols <;> simp

/-- a column is added iff a non-ignored field of that name is declared and the name is NOT in the exact list -/
theorem mem_addedNames_columnDDL (t : Str) (cols : List (Str × ColumnInfo)) (fs : List FieldDecl) (n : Str) :
    n ∈ addedNames (columnDDL t cols fs) ↔ ∃ f ∈ fs, f.dbName = n ∧ f.ignoreMigration = false ∧ n ∉ listed cols := by
  induction fs with
  | nil => simp [columnDDL, addedNames]
  | cons f fs ih =>
    simp only [columnDDL, addedNames_append, List.mem_append, ih, List.mem_cons, exists_eq_or_imp]
    apply or_congr_left
    cases hl : lookup f.dbName cols with
    | some ci =>
      have hin : f.dbName ∈ listed cols := by
        unfold listed
        by_cases hh : f.dbName ∈ cols.map (·.1)
        · exact hh
        · rw [← lookup_none_iff] at hh; rw [hh] at hl; cases hl
      simp only [addedNames_colActs, List.not_mem_nil, false_iff]
      rintro ⟨rfl, _, hnot⟩
      exact hnot hin
    | none =>
      have hnot : f.dbName ∉ listed cols := by unfold listed; rw [← lookup_none_iff]; exact hl
      cases hi : f.ignoreMigration with
      | true => simp [addedNames]
      | false =>
        simp only [addedNames, List.mem_cons, List.not_mem_nil, or_false, Bool.false_eq_true, if_false]
        constructor
        · intro h; subst h; exact ⟨rfl, trivial, hnot⟩
        · rintro ⟨h, _⟩; exact h.symm

/-- a guard that is sound for the exact list never fires: the guarded loop is the loop -/
theorem columnDDLGuarded_of_sound (has : Str → Bool) (t : Str) (cols : List (Str × ColumnInfo)) (fs : List FieldDecl)
    (h : SoundFor has cols) : columnDDLGuarded has t cols fs = columnDDL t cols fs := by
  induction fs with
  | nil => rfl
  | cons f fs ih =>
    simp only [columnDDLGuarded, columnDDL, ih]
    cases hl : lookup f.dbName cols with
    | some ci => rfl
    | none =>
      have hnot : f.dbName ∉ listed cols := by unfold listed; rw [← lookup_none_iff]; exact hl
      have hh : has f.dbName = false := by
        cases hb : has f.dbName with
        | false => rfl
        | true => exact absurd (h _ hb) hnot
      simp [hh]

/-- the guarded loop adds a column iff the exact list lacks it AND the second opinion does not claim it -/
theorem mem_addedNames_columnDDLGuarded (has : Str → Bool) (t : Str) (cols : List (Str × ColumnInfo)) (fs : List FieldDecl) (n : Str) :
    n ∈ addedNames (columnDDLGuarded has t cols fs) ↔
      ∃ f ∈ fs, f.dbName = n ∧ f.ignoreMigration = false ∧ n ∉ listed cols ∧ has n = false := by
  induction fs with
  | nil => simp [columnDDLGuarded, addedNames]
  | cons f fs ih =>
    simp only [columnDDLGuarded, addedNames_append, List.mem_append, ih, List.mem_cons, exists_eq_or_imp]
    apply or_congr_left
    cases hl : lookup f.dbName cols with
    | some ci =>
      have hin : f.dbName ∈ listed cols := by
        unfold listed
        by_cases hh : f.dbName ∈ cols.map (·.1)
        · exact hh
        · rw [← lookup_none_iff] at hh; rw [hh] at hl; cases hl
      simp only [addedNames_colActs, List.not_mem_nil, false_iff]
      rintro ⟨rfl, _, hnot, _⟩
      exact hnot hin
    | none =>
      have hnot : f.dbName ∉ listed cols := by unfold listed; rw [← lookup_none_iff]; exact hl
      cases hi : f.ignoreMigration with
      | true => simp [addedNames]
      | false =>
        cases hb : has f.dbName with
        | true =>
          simp only [Bool.or_true, if_true, addedNames, List.not_mem_nil, false_iff]
          rintro ⟨rfl, _, _, hf⟩
          rw [hb] at hf; cases hf
        | false =>
          simp only [Bool.or_false, Bool.false_eq_true, if_false, addedNames, List.mem_cons, List.not_mem_nil, or_false]
          constructor
          · intro h; subst h; exact ⟨rfl, trivial, hnot, hb⟩
          · rintro ⟨h, _⟩; exact h.symm

end Gorm.Mig
