import GormModel.Model.SharedStmt
/-! C07 (round 4): the shared handle's Statement — all schedules, any number of goroutines, any mix of Count and other finishers. -/
namespace Gorm.SharedStmt

/-- working on the instance, no step writes the shared handle's clause map -/
theorem step_instance_base (k : Nat → Bool) (s : St) (t : Nat) : (step false k s t).base = s.base := by
  unfold step
  simp only []
  split
  · rfl
  · split
    · split
      · simp
      · split
        · rfl
        · split
          · simp
          · rfl
    · split <;> rfl

theorem run_instance_base (k : Nat → Bool) (s : St) (sched : List Nat) : (run false k s sched).base = s.base := by
  induction sched generalizing s with
  | nil => rfl
  | cons t rest ih =>
    show (run false k (step false k s t) rest).base = s.base
    rw [ih, step_instance_base]

/-- invariant (instance mode): a goroutine that is not a Count holds, once it has cloned, exactly the handle's clauses, and what
  it built its statement from is exactly the handle's clauses -/
def Inv (k : Nat → Bool) (b : List Nat) (s : St) : Prop :=
  s.base = b ∧ ∀ t, k t = false → ((s.ths t).pc ≠ 0 → (s.ths t).inst = b) ∧ (∀ l, (s.ths t).built = some l → l = b)

theorem inv_init (k : Nat → Bool) (b : List Nat) : Inv k b (init b) :=
  ⟨rfl, fun _ _ => ⟨fun h => absurd rfl h, fun _ h => by simp [init] at h⟩⟩

theorem inv_step (k : Nat → Bool) (b : List Nat) (s : St) (t : Nat) (h : Inv k b s) : Inv k b (step false k s t) := by
  obtain ⟨hb, ht⟩ := h
  refine ⟨by rw [step_instance_base, hb], ?_⟩
  intro i hi
  by_cases hit : i = t
  · subst hit
    have hthis := ht i hi
    unfold step
    simp only [hi]
    by_cases h0 : (s.ths i).pc = 0
    · simp [h0, upd, hb]
      intro l hl
      exact hthis.2 l hl
    · by_cases h1 : (s.ths i).pc = 1
      · simp [h1, upd]
        exact hthis.1 h0
      · simp [h0, h1]
        exact ⟨hthis.1 h0, hthis.2⟩
  · -- another goroutine's step leaves goroutine i's record alone
    have hsame : ((step false k s t).ths i) = s.ths i := by
      unfold step
      simp only []
      split
      · simp [upd, hit]
      · split
        · split
          · simp [upd, hit]
          · split
            · simp [upd, hit]
            · split
              · simp [upd, hit]
              · rfl
        · split
          · simp [upd, hit]
          · rfl
    rw [hsame]
    exact ht i hi

theorem inv_run (k : Nat → Bool) (b : List Nat) (s : St) (sched : List Nat) (h : Inv k b s) : Inv k b (run false k s sched) := by
  induction sched generalizing s with
  | nil => exact h
  | cons t rest ih => exact ih _ (inv_step k b s t h)

end Gorm.SharedStmt
