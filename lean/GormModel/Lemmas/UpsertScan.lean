/-
  C16 (round 4) — helper lemmas about Model.UpsertScan (`least`, `assign`).
-/
import GormModel.Model.UpsertScan
namespace Gorm.UpsertScan
open Gorm.UpsertK

theorem least_mem : ∀ {l : List KRow} {r : KRow}, least l = some r → r ∈ l
  | [], _, h => by simp [least] at h
  | x :: xs, r, h => by
    unfold least at h
    cases hm : least xs with
    | none =>
      rw [hm] at h
      simp only [Option.some.injEq] at h
      subst h; exact List.mem_cons_self
    | some m =>
      rw [hm] at h
      simp only at h
      by_cases hlt : k0 m < k0 x
      · rw [if_pos hlt] at h
        simp only [Option.some.injEq] at h
        subst h; exact List.mem_cons_of_mem _ (least_mem hm)
      · rw [if_neg hlt] at h
        simp only [Option.some.injEq] at h
        subst h; exact List.mem_cons_self

theorem least_le : ∀ {l : List KRow} {r : KRow}, least l = some r → ∀ x ∈ l, k0 r ≤ k0 x
  | [], _, h => by simp [least] at h
  | y :: ys, r, h => by
    intro x hx
    unfold least at h
    cases hm : least ys with
    | none =>
      rw [hm] at h
      simp only [Option.some.injEq] at h
      subst h
      have hys : ys = [] := by
        cases ys with
        | nil => rfl
        | cons z zs =>
          exfalso
          unfold least at hm
          cases hz : least zs <;> rw [hz] at hm <;> simp only at hm
          · cases hm
          · split at hm <;> cases hm
      subst hys
      simp only [List.mem_cons, List.not_mem_nil, or_false] at hx
      subst hx; exact Nat.le_refl _
    | some m =>
      rw [hm] at h
      simp only at h
      have ih := least_le hm
      by_cases hlt : k0 m < k0 y
      · rw [if_pos hlt] at h
        simp only [Option.some.injEq] at h
        subst h
        rcases List.mem_cons.mp hx with hx | hx
        · subst hx; exact Nat.le_of_lt hlt
        · exact ih x hx
      · rw [if_neg hlt] at h
        simp only [Option.some.injEq] at h
        subst h
        rcases List.mem_cons.mp hx with hx | hx
        · subst hx; exact Nat.le_refl _
        · exact Nat.le_trans (Nat.le_of_not_lt hlt) (ih x hx)

theorem least_none : ∀ {l : List KRow}, least l = none → l = []
  | [], _ => rfl
  | x :: xs, h => by
    exfalso
    unfold least at h
    cases hm : least xs <;> rw [hm] at h <;> simp only at h
    · cases h
    · split at h <;> cases h

theorem least_isSome_of_mem {l : List KRow} {x : KRow} (hx : x ∈ l) : ∃ r, least l = some r := by
  cases h : least l with
  | some r => exact ⟨r, rfl⟩
  | none => rw [least_none h] at hx; cases hx

theorem mem_matching {st : MStmt} {q : List (Nat × Nat)} {t : Tbl} {r : KRow} :
    r ∈ matching st q t ↔ r ∈ t ∧ (live st.unscoped r && holds q r) = true := by
  unfold matching; exact List.mem_filter

/-- elements without a row neither produce rows nor receive any once the rows are used up -/
theorem rowsOf_rowless : ∀ (es : List Elem), es.all (fun x => x.ret.isNone) = true → rowsOf es = []
  | [], _ => rfl
  | e :: es, h => by
    simp only [List.all_cons, Bool.and_eq_true] at h
    have hn : e.ret = none := by
      cases he : e.ret with
      | none => rfl
      | some v => rw [he] at h; simp at h
    have ih := rowsOf_rowless es h.2
    unfold rowsOf at ih ⊢
    simp [hn, ih]

theorem assign_nil_rows (skip : Bool) : ∀ (es : List Elem), assign skip es [] = es.map (fun _ => none)
  | [] => rfl
  | e :: es => by simp [assign, assign_nil_rows skip es]

theorem map_ret_rowless : ∀ (es : List Elem), es.all (fun x => x.ret.isNone) = true → es.map (·.ret) = es.map (fun _ => none)
  | [], _ => rfl
  | e :: es, h => by
    simp only [List.all_cons, Bool.and_eq_true] at h
    have hn : e.ret = none := by
      cases he : e.ret with
      | none => rfl
      | some v => rw [he] at h; simp at h
    simp [hn, map_ret_rowless es h.2]

theorem rowsOf_cons_some (e : Elem) (es : List Elem) (r : Nat) (h : e.ret = some r) : rowsOf (e :: es) = r :: rowsOf es := by
  unfold rowsOf; simp [h]

theorem rowsOf_cons_none (e : Elem) (es : List Elem) (h : e.ret = none) : rowsOf (e :: es) = rowsOf es := by
  unfold rowsOf; simp [h]

/-- stepping over an element in skip mode, whatever rows are left -/
theorem assign_skip_cons (e : Elem) (es : List Elem) (rs : List Nat) (h : e.nz = true) :
    assign true (e :: es) rs = none :: assign true es rs := by
  cases rs with
  | nil => simp [assign]
  | cons r rs => simp [assign, h]

end Gorm.UpsertScan
