/-
  Lemmas about Model/MigrateJoin.lean: what `removeSettingFromTag(appendSettingFromTag(tag, "primaryKey"), "column",
  "autoincrement", "index", "unique", "uniqueindex")` guarantees for the join-table column of a many2many relation.
-/
import GormModel.Model.MigrateJoin
namespace Gorm.Mig

/-- `(?i)` occurrence of a lower-case literal anywhere in `s` -/
def ciOccurs (name : Str) : Str → Bool
  | [] => name.isEmpty
  | c :: cs => ciPrefix name (c :: cs) || ciOccurs name cs

/-- a setting text none of the five strip names (nor a second `gorm:`) can touch: no separator / quote, and no
    case-insensitive occurrence of `unique`, `index`, `column`, `autoincrement`, `gorm:` (`uniqueindex` contains `unique`) -/
def CleanSetting (s : Str) : Prop :=
  ';' ∉ s ∧ '"' ∉ s ∧ ciOccurs "unique".toList s = false ∧ ciOccurs "index".toList s = false ∧
  ciOccurs "column".toList s = false ∧ ciOccurs "autoincrement".toList s = false ∧ ciOccurs "gorm:".toList s = false

/-- a uniqueness / index bearing setting `unique`, `uniqueIndex`, `index` in any letter case, bare or with a clean value -/
def HotSetting (h : Str) : Prop :=
  ∃ k w, (lower k = "unique".toList ∨ lower k = "uniqueindex".toList ∨ lower k = "index".toList) ∧
    CleanSetting w ∧ (h = k ∨ h = k ++ ':' :: w)

/-! ### ASCII case folding on `Char` -/

theorem toNat_ofNat_small (n : Nat) (h : n < 0xd800) : (Char.ofNat n).toNat = n := by
  have hv : n.isValidChar := Or.inl h
  simp [Char.ofNat, hv, Char.ofNatAux, Char.toNat]

theorem char_le_iff (a b : Char) : a ≤ b ↔ a.toNat ≤ b.toNat := by
  rw [Char.le_def, UInt32.le_iff_toNat_le]; rfl

theorem lowerC_cases (c : Char) : lowerC c = c ∨ ('A' ≤ c ∧ c ≤ 'Z' ∧ 'a' ≤ lowerC c ∧ lowerC c ≤ 'z') := by
  unfold lowerC
  split
  · right
    rename_i h
    have h1 := (char_le_iff _ _).1 h.1
    have h2 := (char_le_iff _ _).1 h.2
    have e1 : 'A'.toNat = 65 := by decide
    have e2 : 'Z'.toNat = 90 := by decide
    have e3 : 'a'.toNat = 97 := by decide
    have e4 : 'z'.toNat = 122 := by decide
    rw [e1] at h1; rw [e2] at h2
    have e5 : (Char.ofNat (c.toNat + 32)).toNat = c.toNat + 32 := toNat_ofNat_small _ (by omega)
    refine ⟨h.1, h.2, ?_, ?_⟩
    · rw [char_le_iff, e5, e3]; omega
    · rw [char_le_iff, e5, e4]; omega
  · left; rfl

theorem upperC_cases (c : Char) : upperC c = c ∨ ('a' ≤ c ∧ c ≤ 'z' ∧ 'A' ≤ upperC c ∧ upperC c ≤ 'Z') := by
  unfold upperC
  split
  · right
    rename_i h
    have h1 := (char_le_iff _ _).1 h.1
    have h2 := (char_le_iff _ _).1 h.2
    have e1 : 'A'.toNat = 65 := by decide
    have e2 : 'Z'.toNat = 90 := by decide
    have e3 : 'a'.toNat = 97 := by decide
    have e4 : 'z'.toNat = 122 := by decide
    rw [e3] at h1; rw [e4] at h2
    have e5 : (Char.ofNat (c.toNat - 32)).toNat = c.toNat - 32 := toNat_ofNat_small _ (by omega)
    refine ⟨h.1, h.2, ?_, ?_⟩
    · rw [char_le_iff, e5, e1]; omega
    · rw [char_le_iff, e5, e2]; omega
  · left; rfl

theorem lowerC_upperC (c : Char) : lowerC (upperC c) = lowerC c := by
  unfold upperC
  split
  · rename_i h
    have h1 := (char_le_iff _ _).1 h.1
    have h2 := (char_le_iff _ _).1 h.2
    have e1 : 'A'.toNat = 65 := by decide
    have e2 : 'Z'.toNat = 90 := by decide
    have e3 : 'a'.toNat = 97 := by decide
    have e4 : 'z'.toNat = 122 := by decide
    rw [e3] at h1; rw [e4] at h2
    have e5 : (Char.ofNat (c.toNat - 32)).toNat = c.toNat - 32 := toNat_ofNat_small _ (by omega)
    have hc : ¬ ('A' ≤ c ∧ c ≤ 'Z') := by
      intro hh; have := (char_le_iff _ _).1 hh.2; rw [e2] at this; omega
    have hu : 'A' ≤ Char.ofNat (c.toNat - 32) ∧ Char.ofNat (c.toNat - 32) ≤ 'Z' := by
      constructor
      · rw [char_le_iff, e5, e1]; omega
      · rw [char_le_iff, e5, e2]; omega
    unfold lowerC
    rw [if_pos hu, if_neg hc, e5]
    have : c.toNat - 32 + 32 = c.toNat := by omega
    rw [this, Char.ofNat_toNat]
  · rfl

theorem upperC_lowerC (c : Char) : upperC (lowerC c) = upperC c := by
  unfold lowerC
  split
  · rename_i h
    have h1 := (char_le_iff _ _).1 h.1
    have h2 := (char_le_iff _ _).1 h.2
    have e1 : 'A'.toNat = 65 := by decide
    have e2 : 'Z'.toNat = 90 := by decide
    have e3 : 'a'.toNat = 97 := by decide
    have e4 : 'z'.toNat = 122 := by decide
    rw [e1] at h1; rw [e2] at h2
    have e5 : (Char.ofNat (c.toNat + 32)).toNat = c.toNat + 32 := toNat_ofNat_small _ (by omega)
    have hc : ¬ ('a' ≤ c ∧ c ≤ 'z') := by
      intro hh; have := (char_le_iff _ _).1 hh.1; rw [e3] at this; omega
    have hu : 'a' ≤ Char.ofNat (c.toNat + 32) ∧ Char.ofNat (c.toNat + 32) ≤ 'z' := by
      constructor
      · rw [char_le_iff, e5, e3]; omega
      · rw [char_le_iff, e5, e4]; omega
    unfold upperC
    rw [if_pos hu, if_neg hc, e5]
    have : c.toNat + 32 - 32 = c.toNat := by omega
    rw [this, Char.ofNat_toNat]
  · rfl

theorem lower_upper (s : Str) : lower (upper s) = lower s := by
  induction s with
  | nil => rfl
  | cons c cs ih => simp only [lower, upper, List.map_cons, lowerC_upperC] at *; rw [ih]

theorem upper_lower (s : Str) : upper (lower s) = upper s := by
  induction s with
  | nil => rfl
  | cons c cs ih => simp only [lower, upper, List.map_cons, upperC_lowerC] at *; rw [ih]

theorem lower_append (a b : Str) : lower (a ++ b) = lower a ++ lower b := by simp [lower]
theorem upper_append (a b : Str) : upper (a ++ b) = upper a ++ upper b := by simp [upper]

theorem isSpace_upperC {c : Char} (h : isSpace (upperC c) = true) : isSpace c = true := by
  rcases upperC_cases c with e | ⟨_, _, h3, h4⟩
  · rw [e] at h; exact h
  · exfalso
    generalize upperC c = d at *
    simp only [isSpace, Bool.or_eq_true, decide_eq_true_eq] at h
    rcases h with ((((h | h) | h) | h) | h) | h <;> subst h <;> revert h3 <;> decide

theorem lowerC_ne_of_fixed {c x : Char} (hx : lowerC x = x) (h : lowerC c ≠ x) : c ≠ x := by
  intro e; subst e; exact h hx

/-! ### `ciPrefix` / `ciOccurs` -/

/-- what a strip name must satisfy: non-empty, free of the two terminators -/
structure NameOK (name : Str) : Prop where
  ne : name ≠ []
  semi : ';' ∉ name
  quote : '"' ∉ name

theorem lowerC_semi : lowerC ';' = ';' := by decide
theorem lowerC_quote : lowerC '"' = '"' := by decide
theorem lowerC_colon : lowerC ':' = ':' := by decide

theorem ciPrefix_cons_sep {name : Str} {c : Char} (hne : name ≠ []) (hc : lowerC c ∉ name) (r : Str) :
    ciPrefix name (c :: r) = false := by
  cases name with
  | nil => exact absurd rfl hne
  | cons n ns =>
    simp only [ciPrefix, Bool.and_eq_false_imp, beq_iff_eq]
    intro h; exact absurd (h ▸ List.mem_cons_self) hc

/-- a match that starts in `a` cannot run over a character that is not in the name -/
theorem ciPrefix_append_sep {name : Str} {c : Char} (hc : lowerC c ∉ name) :
    ∀ (a r : Str), ciPrefix name (a ++ c :: r) = true → ciPrefix name a = true := by
  induction name with
  | nil => intro a r _; cases a <;> rfl
  | cons n ns ih =>
    intro a r h
    cases a with
    | nil =>
      simp only [List.nil_append, ciPrefix, Bool.and_eq_true, beq_iff_eq] at h
      exact absurd (h.1 ▸ List.mem_cons_self) hc
    | cons x a' =>
      simp only [List.cons_append, ciPrefix, Bool.and_eq_true, beq_iff_eq] at h ⊢
      exact ⟨h.1, ih (fun hm => hc (List.mem_cons_of_mem _ hm)) a' r h.2⟩

theorem ciOccurs_nil {name : Str} (hne : name ≠ []) : ciOccurs name [] = false := by
  cases name with
  | nil => exact absurd rfl hne
  | cons _ _ => rfl

theorem ciOccurs_cons_false {name : Str} {c : Char} {cs : Str} (h : ciOccurs name (c :: cs) = false) :
    ciPrefix name (c :: cs) = false ∧ ciOccurs name cs = false := by
  simpa [ciOccurs] using h

theorem ciOccurs_append_sep {name : Str} {c : Char} (hne : name ≠ []) (hc : lowerC c ∉ name) :
    ∀ (a r : Str), ciOccurs name a = false → ciOccurs name r = false → ciOccurs name (a ++ c :: r) = false := by
  intro a r
  induction a with
  | nil =>
    intro _ hr
    simp only [List.nil_append, ciOccurs, Bool.or_eq_false_iff]
    exact ⟨ciPrefix_cons_sep hne hc r, hr⟩
  | cons x a' ih =>
    intro ha hr
    have ⟨h1, h2⟩ := ciOccurs_cons_false ha
    simp only [List.cons_append, ciOccurs, Bool.or_eq_false_iff]
    refine ⟨?_, ih h2 hr⟩
    cases hp : ciPrefix name (x :: (a' ++ c :: r)) with
    | false => rfl
    | true =>
      have := ciPrefix_append_sep hc (x :: a') r hp
      rw [h1] at this; exact absurd this (by decide)

theorem ciOccurs_drop {name : Str} : ∀ (n : Nat) (s : Str), ciOccurs name s = false → ciOccurs name (s.drop n) = false := by
  intro n
  induction n with
  | zero => intro s h; simpa using h
  | succ n ih =>
    intro s h
    cases s with
    | nil => simpa using h
    | cons c cs => simp only [List.drop_succ_cons]; exact ih cs (ciOccurs_cons_false h).2

theorem ciOccurs_append_right {name : Str} : ∀ (a b : Str), ciOccurs name (a ++ b) = false → ciOccurs name b = false := by
  intro a b h
  have := ciOccurs_drop a.length (a ++ b) h
  simpa using this

/-- `ciPrefix` only looks at the lower-cased text -/
theorem ciPrefix_of_lower_eq {name : Str} : ∀ (s b : Str), lower s = name ++ b → ciPrefix name s = true := by
  induction name with
  | nil => intro s b _; cases s <;> rfl
  | cons n ns ih =>
    intro s b h
    cases s with
    | nil => simp [lower] at h
    | cons c cs =>
      simp only [lower, List.map_cons, List.cons_append, List.cons.injEq] at h
      simp only [ciPrefix, Bool.and_eq_true, beq_iff_eq]
      exact ⟨h.1, ih cs b h.2⟩

theorem ciOccurs_of_lower_eq {name : Str} : ∀ (a s b : Str), lower s = a ++ name ++ b → ciOccurs name s = true := by
  intro a
  induction a with
  | nil =>
    intro s b h
    have hp := ciPrefix_of_lower_eq s b (by simpa using h)
    cases s with
    | nil =>
      cases name with
      | nil => rfl
      | cons _ _ => simp [lower] at h
    | cons c cs => simp [ciOccurs, hp]
  | cons x a' ih =>
    intro s b h
    cases s with
    | nil => simp [lower] at h
    | cons c cs =>
      simp only [lower, List.map_cons, List.cons_append, List.cons.injEq] at h
      simp only [ciOccurs, Bool.or_eq_true]
      exact Or.inr (ih cs b h.2)

theorem ciPrefix_lower_self (k r : Str) : ciPrefix (lower k) (k ++ r) = true :=
  ciPrefix_of_lower_eq (k ++ r) (lower r) (lower_append k r)

/-- an occurrence in a prefix is an occurrence in the whole -/
theorem ciPrefix_append_mono {name : Str} : ∀ (a b : Str), ciPrefix name a = true → ciPrefix name (a ++ b) = true := by
  induction name with
  | nil => intro a b _; cases a <;> cases b <;> rfl
  | cons n ns ih =>
    intro a b h
    cases a with
    | nil => simp [ciPrefix] at h
    | cons x a' =>
      simp only [List.cons_append, ciPrefix, Bool.and_eq_true, beq_iff_eq] at h ⊢
      exact ⟨h.1, ih a' b h.2⟩

theorem ciOccurs_append_mono {name : Str} (hne : name ≠ []) : ∀ (a b : Str), ciOccurs name a = true → ciOccurs name (a ++ b) = true := by
  intro a b
  induction a with
  | nil => intro h; rw [ciOccurs_nil hne] at h; exact absurd h (by decide)
  | cons x a' ih =>
    intro h
    simp only [ciOccurs, Bool.or_eq_true, List.cons_append] at h ⊢
    rcases h with h | h
    · exact Or.inl (ciPrefix_append_mono (x :: a') b h)
    · exact Or.inr (ih h)

/-- a longer name occurs only where its prefix occurs -/
theorem ciPrefix_name_append {n1 n2 : Str} : ∀ (s : Str), ciPrefix (n1 ++ n2) s = true → ciPrefix n1 s = true := by
  induction n1 with
  | nil => intro s _; cases s <;> rfl
  | cons n ns ih =>
    intro s h
    cases s with
    | nil => simp [ciPrefix] at h
    | cons c cs =>
      simp only [List.cons_append, ciPrefix, Bool.and_eq_true, beq_iff_eq] at h ⊢
      exact ⟨h.1, ih cs h.2⟩

theorem ciOccurs_name_append {n1 n2 : Str} (hne : n1 ≠ []) : ∀ (s : Str), ciOccurs n1 s = false → ciOccurs (n1 ++ n2) s = false := by
  intro s
  induction s with
  | nil => intro _; exact ciOccurs_nil (by cases n1 <;> simp_all)
  | cons c cs ih =>
    intro h
    have ⟨h1, h2⟩ := ciOccurs_cons_false h
    simp only [ciOccurs, Bool.or_eq_false_iff]
    refine ⟨?_, ih h2⟩
    cases hp : ciPrefix (n1 ++ n2) (c :: cs) with
    | false => rfl
    | true => rw [ciPrefix_name_append _ hp] at h1; exact absurd h1 (by decide)

/-! ### `scanName`, `afterName`, `removeSetting` -/

/-- put a skipped prefix back in front of the kept text -/
def pfx (a : Str) (x : Str × Str × Bool) : Str × Str × Bool := (a ++ x.1, x.2.1, x.2.2)

theorem pfx_nil (x : Str × Str × Bool) : pfx [] x = x := rfl
theorem pfx_pfx (a b : Str) (x : Str × Str × Bool) : pfx a (pfx b x) = pfx (a ++ b) x := by simp [pfx]

theorem scanName_skip1 {name : Str} {c : Char} {cs : Str} (h : ciPrefix name (c :: cs) = false) :
    scanName name (c :: cs) = (scanName name cs).map (pfx [c]) := by
  simp only [scanName, h]; rfl

theorem scanName_miss {name : Str} {c : Char} {cs : Str} (h : afterName ((c :: cs).drop name.length) = none) :
    scanName name (c :: cs) = (scanName name cs).map (pfx [c]) := by
  simp only [scanName, h]
  cases ciPrefix name (c :: cs) <;> rfl

theorem scanName_hit {name : Str} {c : Char} {cs rest : Str} {q : Bool} (hp : ciPrefix name (c :: cs) = true)
    (ha : afterName ((c :: cs).drop name.length) = some (rest, q)) : scanName name (c :: cs) = some ([], rest, q) := by
  simp only [scanName, hp, ha]; rfl

theorem scanName_absent {name : Str} : ∀ s : Str, ciOccurs name s = false → scanName name s = none := by
  intro s
  induction s with
  | nil => intro _; rfl
  | cons c cs ih =>
    intro h
    have ⟨h1, h2⟩ := ciOccurs_cons_false h
    rw [scanName_skip1 h1, ih h2]; rfl

/-- SCAN-SKIP: a stretch without occurrence that ends in a character outside the name is stepped over -/
theorem scanName_skip {name : Str} {sep : Char} (hne : name ≠ []) (hc : lowerC sep ∉ name) :
    ∀ (a r : Str), ciOccurs name a = false → scanName name (a ++ sep :: r) = (scanName name r).map (pfx (a ++ [sep])) := by
  intro a r
  induction a with
  | nil => intro _; exact scanName_skip1 (ciPrefix_cons_sep hne hc r)
  | cons x a' ih =>
    intro ha
    have ⟨h1, h2⟩ := ciOccurs_cons_false ha
    have hp : ciPrefix name (x :: (a' ++ sep :: r)) = false := by
      cases hp : ciPrefix name (x :: (a' ++ sep :: r)) with
      | false => rfl
      | true =>
        have := ciPrefix_append_sep hc (x :: a') r hp
        rw [h1] at this; exact absurd this (by decide)
    rw [List.cons_append, scanName_skip1 hp, ih h2, Option.map_map]
    congr 1

theorem findTerm_skip : ∀ (w : Str) (t : Char) (r : Str), ';' ∉ w → '"' ∉ w → (t = ';' ∨ t = '"') →
    findTerm (w ++ t :: r) = some (r, t == '"') := by
  intro w
  induction w with
  | nil =>
    intro t r _ _ ht
    rcases ht with rfl | rfl <;> simp [findTerm]
  | cons c cs ih =>
    intro t r h1 h2 ht
    simp only [List.mem_cons, not_or] at h1 h2
    simp only [List.cons_append, findTerm, if_neg (Ne.symm h1.1), if_neg (Ne.symm h2.1)]
    exact ih t r h1.2 h2.2 ht

theorem afterName_term (t : Char) (r : Str) (ht : t = ';' ∨ t = '"') : afterName (t :: r) = some (r, t == '"') := by
  rcases ht with rfl | rfl <;> simp [afterName]

theorem afterName_value (w : Str) (t : Char) (r : Str) (h1 : ';' ∉ w) (h2 : '"' ∉ w) (ht : t = ';' ∨ t = '"') :
    afterName (':' :: (w ++ t :: r)) = some (r, t == '"') := by
  simp only [afterName, if_true]; exact findTerm_skip w t r h1 h2 ht

theorem afterName_other (c : Char) (r : Str) (h1 : c ≠ ':') (h2 : c ≠ ';') (h3 : c ≠ '"') : afterName (c :: r) = none := by
  simp [afterName, h1, h2, h3]

/-- no `gorm:` left: nothing is replaced -/
theorem removeSettingAux_nogorm (name : Str) : ∀ (fuel : Nat) (s : Str), ciOccurs gormLit s = false →
    removeSettingAux name fuel s = s := by
  intro fuel
  induction fuel with
  | zero => intro s _; rfl
  | succ n ih =>
    intro s h
    cases s with
    | nil => rfl
    | cons c cs =>
      have ⟨h1, h2⟩ := ciOccurs_cons_false h
      simp only [removeSettingAux, h1, Bool.false_eq_true, if_false, ih cs h2]

theorem gormTag_eq (X : Str) : gormTag X = 'g' :: 'o' :: 'r' :: 'm' :: ':' :: '"' :: (X ++ ['"']) := rfl

theorem ciPrefix_gormLit (X : Str) : ciPrefix gormLit ('g' :: 'o' :: 'r' :: 'm' :: ':' :: X) = true := by
  have : gormLit = ['g', 'o', 'r', 'm', ':'] := rfl
  rw [this]
  simp only [ciPrefix, Bool.and_eq_true, beq_iff_eq]
  decide

theorem removeSetting_gormTag_none {name X : Str} (h : scanName name ('"' :: (X ++ ['"'])) = none) :
    removeSetting name (gormTag X) = gormTag X := by
  rw [gormTag_eq]
  simp only [removeSetting, List.length_cons, removeSettingAux, ciPrefix_gormLit, if_true, List.drop_succ_cons, List.drop_zero, h]

theorem removeSetting_gormTag_some {name X kept rest : Str} {q : Bool}
    (h : scanName name ('"' :: (X ++ ['"'])) = some (kept, rest, q)) (hr : ciOccurs gormLit rest = false) :
    removeSetting name (gormTag X) = 'g' :: 'o' :: 'r' :: 'm' :: ':' :: (kept ++ (if q then ['"'] else []) ++ rest) := by
  rw [gormTag_eq]
  simp only [removeSetting, List.length_cons, removeSettingAux, ciPrefix_gormLit, if_true, List.drop_succ_cons, List.drop_zero, h,
    removeSettingAux_nogorm name _ rest hr]
  simp

/-! ### the body `p1;…;pn;mid;q1;…;qm` -/

def preCat : List Str → Str
  | [] => []
  | p :: ps => p ++ ';' :: preCat ps
def postCat : List Str → Str
  | [] => []
  | p :: ps => ';' :: (p ++ postCat ps)
/-- `joinWith ';' (pre ++ mid :: post)` -/
def body3 (pre : List Str) (mid : Str) (post : List Str) : Str := preCat pre ++ (mid ++ postCat post)

theorem joinWith_cons (mid : Str) : ∀ post : List Str, joinWith ';' (mid :: post) = mid ++ postCat post := by
  intro post
  induction post generalizing mid with
  | nil => simp [joinWith, postCat]
  | cons p ps ih => simp only [joinWith, postCat, ih p]

theorem joinWith_body3 (pre : List Str) (mid : Str) (post : List Str) :
    joinWith ';' (pre ++ mid :: post) = body3 pre mid post := by
  induction pre with
  | nil => simp [body3, preCat, joinWith_cons]
  | cons p ps ih =>
    cases ps with
    | nil =>
      simp only [List.cons_append, List.nil_append, body3, preCat, joinWith_cons, postCat, List.append_assoc, List.cons_append]
    | cons p' ps' =>
      simp only [List.cons_append, joinWith] at ih ⊢
      rw [ih]; simp [body3, preCat]

theorem joinWith_any (ss : List Str) : ∃ mid post, joinWith ';' ss = body3 [] mid post ∧ (∀ s ∈ mid :: post, s ∈ ss ∨ s = []) := by
  cases ss with
  | nil => exact ⟨[], [], rfl, by simp⟩
  | cons s r => exact ⟨s, r, by simpa using joinWith_body3 [] s r, fun x hx => Or.inl hx⟩

/-- `name` cannot touch the setting text `s` -/
structure Free (name s : Str) : Prop where
  semi : ';' ∉ s
  quote : '"' ∉ s
  occ : ciOccurs name s = false

theorem Free.nil {name : Str} (hne : name ≠ []) : Free name [] := ⟨by simp, by simp, ciOccurs_nil hne⟩

theorem Free.tail {name : Str} {c : Char} {s : Str} (h : Free name (c :: s)) : Free name s :=
  ⟨fun hm => h.semi (List.mem_cons_of_mem _ hm), fun hm => h.quote (List.mem_cons_of_mem _ hm), (ciOccurs_cons_false h.occ).2⟩

theorem occ_postCat_end {name : Str} (hn : NameOK name) : ∀ post : List Str, (∀ s ∈ post, Free name s) →
    ciOccurs name (postCat post ++ ['"']) = false := by
  intro post
  induction post with
  | nil =>
    intro _
    exact ciOccurs_append_sep hn.ne (by rw [lowerC_quote]; exact hn.quote) [] [] (ciOccurs_nil hn.ne) (ciOccurs_nil hn.ne)
  | cons p ps ih =>
    intro h
    have hp := h p List.mem_cons_self
    have := ih (fun s hs => h s (List.mem_cons_of_mem _ hs))
    simp only [postCat, List.cons_append, List.append_assoc]
    apply ciOccurs_append_sep hn.ne (by rw [lowerC_semi]; exact hn.semi) [] _ (ciOccurs_nil hn.ne)
    cases hps : ps with
    | nil =>
      simp only [postCat, List.nil_append]
      exact ciOccurs_append_sep hn.ne (by rw [lowerC_quote]; exact hn.quote) p [] hp.occ (ciOccurs_nil hn.ne)
    | cons p' ps' =>
      rw [hps] at this
      simp only [postCat, List.cons_append, List.append_assoc] at this ⊢
      exact ciOccurs_append_sep hn.ne (by rw [lowerC_semi]; exact hn.semi) p _ hp.occ (ciOccurs_cons_false this).2

/-- text behind a setting: `mid ++ postCat post ++ "` -/
theorem occ_mid_postCat_end {name : Str} (hn : NameOK name) (mid : Str) (post : List Str) (hm : Free name mid)
    (h : ∀ s ∈ post, Free name s) : ciOccurs name (mid ++ (postCat post ++ ['"'])) = false := by
  have := occ_postCat_end hn (mid :: post) (by intro s hs; rcases List.mem_cons.1 hs with rfl | hs; exact hm; exact h s hs)
  simp only [postCat, List.cons_append, List.append_assoc] at this
  exact (ciOccurs_cons_false this).2

theorem scanName_preCat {name : Str} (hn : NameOK name) : ∀ (pre : List Str) (r : Str), (∀ s ∈ pre, Free name s) →
    scanName name (preCat pre ++ r) = (scanName name r).map (pfx (preCat pre)) := by
  intro pre
  induction pre with
  | nil =>
    intro r _
    have : pfx ([] : Str) = id := by funext x; rfl
    simp [preCat, this]
  | cons p ps ih =>
    intro r h
    have hp := h p List.mem_cons_self
    simp only [preCat, List.append_assoc, List.cons_append]
    rw [scanName_skip hn.ne (by rw [lowerC_semi]; exact hn.semi) p _ hp.occ, ih r (fun s hs => h s (List.mem_cons_of_mem _ hs)),
      Option.map_map]
    congr 1; funext x; simp [pfx]

/-- the scan over the quoted body reaches the middle setting when the settings in front are free of the name -/
theorem scanName_to_mid {name : Str} (hn : NameOK name) (pre : List Str) (mid : Str) (post : List Str)
    (h : ∀ s ∈ pre, Free name s) :
    scanName name ('"' :: (body3 pre mid post ++ ['"'])) =
      (scanName name (mid ++ (postCat post ++ ['"']))).map (pfx ('"' :: preCat pre)) := by
  have h0 := scanName_skip (name := name) (sep := '"') hn.ne (by rw [lowerC_quote]; exact hn.quote) [] (body3 pre mid post ++ ['"'])
    (ciOccurs_nil hn.ne)
  simp only [List.nil_append] at h0
  rw [h0, body3, List.append_assoc, List.append_assoc, scanName_preCat hn pre _ h, Option.map_map]
  congr 1

/-- CLEAN PASS: a name that occurs in no setting leaves the tag alone -/
theorem removeSetting_free {name : Str} (hn : NameOK name) (pre : List Str) (mid : Str) (post : List Str)
    (hpre : ∀ s ∈ pre, Free name s) (hmid : Free name mid) (hpost : ∀ s ∈ post, Free name s) :
    removeSetting name (gormTag (body3 pre mid post)) = gormTag (body3 pre mid post) := by
  apply removeSetting_gormTag_none
  rw [scanName_to_mid hn pre mid post hpre, scanName_absent _ (occ_mid_postCat_end hn mid post hmid hpost)]
  rfl

/-! ### reading the tag back: `tagGet`, `splitOn`, `parseTagSettings` -/

theorem takeWhile_ne_quote : ∀ (X r : Str), '"' ∉ X → (X ++ '"' :: r).takeWhile (· != '"') = X := by
  intro X r
  induction X with
  | nil => intro _; simp
  | cons c cs ih =>
    intro h
    simp only [List.mem_cons, not_or] at h
    have : (c != '"') = true := by simp [Ne.symm h.1]
    simp only [List.cons_append, List.takeWhile, this, ih h.2]

theorem tagGet_gormTag (X : Str) (h : '"' ∉ X) : tagGet ['g', 'o', 'r', 'm'] (gormTag X) = X := by
  rw [gormTag_eq]
  have e1 : ('g' :: 'o' :: 'r' :: 'm' :: ':' :: '"' :: (X ++ ['"'])).dropWhile (· = ' ') =
      'g' :: 'o' :: 'r' :: 'm' :: ':' :: '"' :: (X ++ ['"']) := by
    rw [List.dropWhile_cons_of_neg (by decide)]
  have e2 : ('g' :: 'o' :: 'r' :: 'm' :: ':' :: '"' :: (X ++ ['"'])).takeWhile
      (fun c => ' ' < c && c != ':' && c != '"' && c != Char.ofNat 127) = ['g', 'o', 'r', 'm'] := by
    rw [List.takeWhile_cons_of_pos (by decide), List.takeWhile_cons_of_pos (by decide), List.takeWhile_cons_of_pos (by decide),
      List.takeWhile_cons_of_pos (by decide), List.takeWhile_cons_of_neg (by decide)]
  have e3 := takeWhile_ne_quote X [] h
  simp only [tagGet, List.length_cons, tagGetAux, e1, e2, List.isEmpty_cons, Bool.false_eq_true, if_false, List.drop_succ_cons,
    List.length_nil, List.drop_zero, e3]
  have e4 : List.drop X.length (X ++ ['"']) = ['"'] := by simp
  simp only [e4, if_true]

theorem splitOn_nosep (c : Char) : ∀ s : Str, c ∉ s → splitOn c s = [s] := by
  intro s
  induction s with
  | nil => intro _; rfl
  | cons x xs ih =>
    intro h
    simp only [List.mem_cons, not_or] at h
    simp only [splitOn, if_neg (Ne.symm h.1), ih h.2]

theorem splitOn_append_sep (c : Char) : ∀ (s r : Str), c ∉ s → splitOn c (s ++ c :: r) = s :: splitOn c r := by
  intro s r
  induction s with
  | nil => intro _; simp [splitOn]
  | cons x xs ih =>
    intro h
    simp only [List.mem_cons, not_or] at h
    simp only [List.cons_append, splitOn, if_neg (Ne.symm h.1), ih h.2]

theorem splitOn_mid_postCat (mid : Str) : ∀ post : List Str, ';' ∉ mid → (∀ s ∈ post, ';' ∉ s) →
    splitOn ';' (mid ++ postCat post) = mid :: post := by
  intro post
  induction post generalizing mid with
  | nil => intro h _; simpa [postCat] using splitOn_nosep ';' mid h
  | cons p ps ih =>
    intro h hp
    simp only [postCat]
    rw [splitOn_append_sep ';' mid _ h, ih p (hp p List.mem_cons_self) (fun s hs => hp s (List.mem_cons_of_mem _ hs))]

theorem splitOn_body3 (pre : List Str) (mid : Str) (post : List Str) (hpre : ∀ s ∈ pre, ';' ∉ s) (hmid : ';' ∉ mid)
    (hpost : ∀ s ∈ post, ';' ∉ s) : splitOn ';' (body3 pre mid post) = pre ++ mid :: post := by
  induction pre with
  | nil => simpa [body3, preCat] using splitOn_mid_postCat mid post hmid hpost
  | cons p ps ih =>
    have := ih (fun s hs => hpre s (List.mem_cons_of_mem _ hs))
    simp only [body3, preCat, List.append_assoc, List.cons_append] at this ⊢
    rw [splitOn_append_sep ';' p _ (hpre p List.mem_cons_self), this]

theorem quote_body3 (pre : List Str) (mid : Str) (post : List Str) (hpre : ∀ s ∈ pre, '"' ∉ s) (hmid : '"' ∉ mid)
    (hpost : ∀ s ∈ post, '"' ∉ s) : '"' ∉ body3 pre mid post := by
  have h1 : ∀ post : List Str, (∀ s ∈ post, '"' ∉ s) → '"' ∉ postCat post := by
    intro post
    induction post with
    | nil => intro _; simp [postCat]
    | cons p ps ih =>
      intro h
      simp only [postCat, List.mem_cons, List.mem_append, not_or]
      exact ⟨by decide, h p List.mem_cons_self, ih (fun s hs => h s (List.mem_cons_of_mem _ hs))⟩
  induction pre with
  | nil => simp only [body3, preCat, List.nil_append, List.mem_append, not_or]; exact ⟨hmid, h1 post hpost⟩
  | cons p ps ih =>
    have := ih (fun s hs => hpre s (List.mem_cons_of_mem _ hs))
    simp only [body3, preCat, List.append_assoc, List.cons_append, List.mem_append, List.mem_cons, not_or] at this ⊢
    exact ⟨hpre p List.mem_cons_self, by decide, this⟩

/-- the map key ParseTagSetting assigns for the setting text `s` -/
def keyOf (s : Str) : Str := trimSpace (upper (s.takeWhile (· != ':')))

theorem splitOn_head (c : Char) : ∀ s : Str, ∃ t, splitOn c s = s.takeWhile (· != c) :: t := by
  intro s
  induction s with
  | nil => exact ⟨[], rfl⟩
  | cons x xs ih =>
    obtain ⟨t, ht⟩ := ih
    by_cases hx : x = c
    · subst hx; exact ⟨splitOn x xs, by simp [splitOn]⟩
    · refine ⟨t, ?_⟩
      have : (x != c) = true := by simp [hx]
      simp only [splitOn, if_neg hx, ht, List.takeWhile, this]

def parseOne (part : Str) : Option (Str × Str) :=
  match splitOn ':' part with
  | [] => none
  | [k0] => let k := trimSpace (upper k0); if k.isEmpty then none else some (k, k)
  | k0 :: rest => some (trimSpace (upper k0), joinWith ':' rest)

theorem parseTagSettings_eq (body : Str) : parseTagSettings body = (splitOn ';' body).filterMap parseOne := rfl

theorem parseOne_key (s : Str) (kv : Str × Str) (h : parseOne s = some kv) : kv.1 = keyOf s := by
  obtain ⟨t, ht⟩ := splitOn_head ':' s
  unfold parseOne at h
  rw [ht] at h
  cases t with
  | nil =>
    simp only at h
    split at h
    · exact absurd h (by simp)
    · simp only [Option.some.injEq] at h; rw [← h]; rfl
  | cons a b =>
    simp only [Option.some.injEq] at h; rw [← h]; rfl

theorem settingOf_absent (key : Str) : ∀ kv : List (Str × Str), (∀ p ∈ kv, p.1 ≠ key) → settingOf key kv = [] := by
  intro kv
  unfold settingOf
  induction kv with
  | nil => intro _; rfl
  | cons p ps ih =>
    intro h
    simp only [List.foldl_cons, if_neg (h p List.mem_cons_self)]
    exact ih (fun q hq => h q (List.mem_cons_of_mem _ hq))

/-- no setting text with map key `key`: the key is absent from the parsed tag -/
theorem settingOf_parse_absent (key : Str) (pre : List Str) (mid : Str) (post : List Str) (hpre : ∀ s ∈ pre, ';' ∉ s)
    (hmid : ';' ∉ mid) (hpost : ∀ s ∈ post, ';' ∉ s) (hk : ∀ s ∈ pre ++ mid :: post, keyOf s ≠ key) :
    settingOf key (parseTagSettings (body3 pre mid post)) = [] := by
  rw [parseTagSettings_eq, splitOn_body3 pre mid post hpre hmid hpost]
  apply settingOf_absent
  intro p hp
  obtain ⟨s, hs, hps⟩ := List.mem_filterMap.1 hp
  rw [parseOne_key s p hps]; exact hk s hs

/-! ### which map key a setting text can produce -/

theorem mem_takeWhile_imp' {α : Type} (p : α → Bool) : ∀ (l : List α) (c : α), c ∈ l.takeWhile p → p c = true := by
  intro l
  induction l with
  | nil => intro c h; simp at h
  | cons x xs ih =>
    intro c h
    by_cases hx : p x = true
    · rw [List.takeWhile_cons_of_pos hx] at h
      rcases List.mem_cons.1 h with rfl | h
      · exact hx
      · exact ih c h
    · rw [List.takeWhile_cons_of_neg hx] at h; simp at h

theorem trimRight_split (z : Str) : ∃ b, z = trimRight z ++ b ∧ ∀ c ∈ b, isSpace c = true := by
  refine ⟨(z.reverse.takeWhile isSpace).reverse, ?_, ?_⟩
  · have h := List.takeWhile_append_dropWhile (p := isSpace) (l := z.reverse)
    have h2 := congrArg List.reverse h
    simp only [List.reverse_append, List.reverse_reverse] at h2
    exact h2.symm
  · intro c hc
    exact mem_takeWhile_imp' isSpace _ c (List.mem_reverse.1 hc)

theorem trimSpace_split (x : Str) : ∃ a b, x = a ++ trimSpace x ++ b := by
  obtain ⟨b, hb, _⟩ := trimRight_split (trimLeft x)
  refine ⟨x.takeWhile isSpace, b, ?_⟩
  have h := List.takeWhile_append_dropWhile (p := isSpace) (l := x)
  rw [List.append_assoc, trimSpace, ← hb, trimLeft]
  exact h.symm

/-- a setting whose map key is `K` contains `K` (case-insensitively) -/
theorem keyOf_occurs (s K : Str) (hK : lower K ≠ []) (h : keyOf s = K) : ciOccurs (lower K) s = true := by
  obtain ⟨a, b, hab⟩ := trimSpace_split (upper (s.takeWhile (· != ':')))
  have hk : trimSpace (upper (s.takeWhile (· != ':'))) = K := h
  rw [hk] at hab
  have h2 := congrArg lower hab
  rw [lower_upper, lower_append, lower_append] at h2
  have h3 := ciOccurs_of_lower_eq _ _ _ h2
  have h4 := ciOccurs_append_mono hK _ (s.dropWhile (· != ':')) h3
  rwa [List.takeWhile_append_dropWhile] at h4

theorem keyOf_ne_of_free {s K : Str} (hK : lower K ≠ []) (h : ciOccurs (lower K) s = false) : keyOf s ≠ K := by
  intro hk; rw [keyOf_occurs s K hK hk] at h; exact absurd h (by decide)

theorem trimSpace_cons_nonspace (c : Char) (x : Str) (hc : isSpace c = false) :
    ∃ b, c :: x = trimSpace (c :: x) ++ b ∧ ∀ d ∈ b, isSpace d = true := by
  have : trimLeft (c :: x) = c :: x := by simp [trimLeft, List.dropWhile, hc]
  have h := trimRight_split (c :: x)
  rw [trimSpace, this]; exact h

/-! ### the five strip names, clean settings -/

def nColumn : Str := ['c', 'o', 'l', 'u', 'm', 'n']
def nAutoinc : Str := ['a', 'u', 't', 'o', 'i', 'n', 'c', 'r', 'e', 'm', 'e', 'n', 't']
def nIndex : Str := ['i', 'n', 'd', 'e', 'x']
def nUnique : Str := ['u', 'n', 'i', 'q', 'u', 'e']
def nUniqueIndex : Str := ['u', 'n', 'i', 'q', 'u', 'e', 'i', 'n', 'd', 'e', 'x']
def kUnique : Str := ['U', 'N', 'I', 'Q', 'U', 'E']
def kIndex : Str := ['I', 'N', 'D', 'E', 'X']
def kUniqueIndex : Str := ['U', 'N', 'I', 'Q', 'U', 'E', 'I', 'N', 'D', 'E', 'X']
def pkSetting : Str := ['p', 'r', 'i', 'm', 'a', 'r', 'y', 'K', 'e', 'y']

theorem joinStrip_eq : joinStrip = [nColumn, nAutoinc, nIndex, nUnique, nUniqueIndex] := by decide
theorem joinAppend_eq : joinAppend = pkSetting := by decide
theorem gormLit_eq : gormLit = ['g', 'o', 'r', 'm', ':'] := by decide
theorem nUniqueIndex_eq : nUniqueIndex = nUnique ++ nIndex := rfl

theorem nameOK_column : NameOK nColumn := ⟨by decide, by decide, by decide⟩
theorem nameOK_autoinc : NameOK nAutoinc := ⟨by decide, by decide, by decide⟩
theorem nameOK_index : NameOK nIndex := ⟨by decide, by decide, by decide⟩
theorem nameOK_unique : NameOK nUnique := ⟨by decide, by decide, by decide⟩
theorem nameOK_uniqueIndex : NameOK nUniqueIndex := ⟨by decide, by decide, by decide⟩
theorem nameOK_gorm : NameOK gormLit := ⟨by decide, by decide, by decide⟩

theorem clean_iff (s : Str) : CleanSetting s ↔ (';' ∉ s ∧ '"' ∉ s ∧ ciOccurs nUnique s = false ∧ ciOccurs nIndex s = false ∧
    ciOccurs nColumn s = false ∧ ciOccurs nAutoinc s = false ∧ ciOccurs gormLit s = false) := Iff.rfl

theorem CleanSetting.column {s : Str} (h : CleanSetting s) : Free nColumn s := ⟨h.1, h.2.1, h.2.2.2.2.1⟩
theorem CleanSetting.autoinc {s : Str} (h : CleanSetting s) : Free nAutoinc s := ⟨h.1, h.2.1, h.2.2.2.2.2.1⟩
theorem CleanSetting.index {s : Str} (h : CleanSetting s) : Free nIndex s := ⟨h.1, h.2.1, h.2.2.2.1⟩
theorem CleanSetting.unique {s : Str} (h : CleanSetting s) : Free nUnique s := ⟨h.1, h.2.1, h.2.2.1⟩
theorem CleanSetting.uniqueIndex {s : Str} (h : CleanSetting s) : Free nUniqueIndex s :=
  ⟨h.1, h.2.1, by rw [nUniqueIndex_eq]; exact ciOccurs_name_append (by decide) s h.2.2.1⟩
theorem CleanSetting.gorm {s : Str} (h : CleanSetting s) : Free gormLit s := ⟨h.1, h.2.1, h.2.2.2.2.2.2⟩

theorem clean_nil : CleanSetting [] := by
  rw [clean_iff]; refine ⟨by simp, by simp, ?_, ?_, ?_, ?_, ?_⟩ <;> exact ciOccurs_nil (by decide)
theorem clean_pk : CleanSetting pkSetting := by rw [clean_iff]; decide

theorem CleanSetting.tail {c : Char} {s : Str} (h : CleanSetting (c :: s)) : CleanSetting s := by
  rw [clean_iff] at h ⊢
  obtain ⟨h1, h2, h3, h4, h5, h6, h7⟩ := h
  exact ⟨fun hm => h1 (List.mem_cons_of_mem _ hm), fun hm => h2 (List.mem_cons_of_mem _ hm), (ciOccurs_cons_false h3).2,
    (ciOccurs_cons_false h4).2, (ciOccurs_cons_false h5).2, (ciOccurs_cons_false h6).2, (ciOccurs_cons_false h7).2⟩

/-- all settings clean -/
structure Clean3 (pre : List Str) (mid : Str) (post : List Str) : Prop where
  pre : ∀ s ∈ pre, CleanSetting s
  mid : CleanSetting mid
  post : ∀ s ∈ post, CleanSetting s

theorem removeSettings_five (a b c d e t : Str) :
    removeSettings [a, b, c, d, e] t = removeSetting e (removeSetting d (removeSetting c (removeSetting b (removeSetting a t)))) := rfl

/-- CLEAN: the five passes leave a tag of clean settings alone -/
theorem removeSettings_clean {pre : List Str} {mid : Str} {post : List Str} (h : Clean3 pre mid post) :
    removeSettings joinStrip (gormTag (body3 pre mid post)) = gormTag (body3 pre mid post) := by
  rw [joinStrip_eq, removeSettings_five,
    removeSetting_free nameOK_column pre mid post (fun s hs => (h.pre s hs).column) h.mid.column (fun s hs => (h.post s hs).column),
    removeSetting_free nameOK_autoinc pre mid post (fun s hs => (h.pre s hs).autoinc) h.mid.autoinc (fun s hs => (h.post s hs).autoinc),
    removeSetting_free nameOK_index pre mid post (fun s hs => (h.pre s hs).index) h.mid.index (fun s hs => (h.post s hs).index),
    removeSetting_free nameOK_unique pre mid post (fun s hs => (h.pre s hs).unique) h.mid.unique (fun s hs => (h.post s hs).unique),
    removeSetting_free nameOK_uniqueIndex pre mid post (fun s hs => (h.pre s hs).uniqueIndex) h.mid.uniqueIndex
      (fun s hs => (h.post s hs).uniqueIndex)]

/-- what the column reader needs: the three keys absent -/
theorem colOfTag_keys (X : Str) (hq : '"' ∉ X) (h1 : settingOf kUnique (parseTagSettings X) = [])
    (h2 : settingOf kIndex (parseTagSettings X) = []) (h3 : settingOf kUniqueIndex (parseTagSettings X) = []) :
    (colOfTag (gormTag X)).unique = false ∧ (colOfTag (gormTag X)).indexed = false := by
  have e0 : "gorm".toList = ['g', 'o', 'r', 'm'] := by decide
  have e1 : "UNIQUE".toList = kUnique := by decide
  have e2 : "INDEX".toList = kIndex := by decide
  have e3 : "UNIQUEINDEX".toList = kUniqueIndex := by decide
  unfold colOfTag
  simp only [e0, e1, e2, e3, tagGet_gormTag X hq, h1, h2, h3]
  exact ⟨rfl, rfl⟩

theorem clean_key_ne {s : Str} (h : CleanSetting s) : keyOf s ≠ kUnique ∧ keyOf s ≠ kIndex ∧ keyOf s ≠ kUniqueIndex := by
  have l1 : lower kUnique = nUnique := by decide
  have l2 : lower kIndex = nIndex := by decide
  have l3 : lower kUniqueIndex = nUniqueIndex := by decide
  refine ⟨keyOf_ne_of_free (by rw [l1]; decide) (by rw [l1]; exact h.unique.occ),
    keyOf_ne_of_free (by rw [l2]; decide) (by rw [l2]; exact h.index.occ),
    keyOf_ne_of_free (by rw [l3]; decide) (by rw [l3]; exact h.uniqueIndex.occ)⟩

theorem colOfTag_clean {pre : List Str} {mid : Str} {post : List Str} (h : Clean3 pre mid post) :
    (colOfTag (gormTag (body3 pre mid post))).unique = false ∧ (colOfTag (gormTag (body3 pre mid post))).indexed = false := by
  have hall : ∀ s ∈ pre ++ mid :: post, CleanSetting s := by
    intro s hs
    rcases List.mem_append.1 hs with hs | hs
    · exact h.pre s hs
    · rcases List.mem_cons.1 hs with rfl | hs
      · exact h.mid
      · exact h.post s hs
  apply colOfTag_keys
  · exact quote_body3 pre mid post (fun s hs => (h.pre s hs).2.1) h.mid.2.1 (fun s hs => (h.post s hs).2.1)
  · exact settingOf_parse_absent _ pre mid post (fun s hs => (h.pre s hs).1) h.mid.1 (fun s hs => (h.post s hs).1)
      (fun s hs => (clean_key_ne (hall s hs)).1)
  · exact settingOf_parse_absent _ pre mid post (fun s hs => (h.pre s hs).1) h.mid.1 (fun s hs => (h.post s hs).1)
      (fun s hs => (clean_key_ne (hall s hs)).2.1)
  · exact settingOf_parse_absent _ pre mid post (fun s hs => (h.pre s hs).1) h.mid.1 (fun s hs => (h.post s hs).1)
      (fun s hs => (clean_key_ne (hall s hs)).2.2)

/-! ### `appendSettingFromTag(tag, "primaryKey")` -/

theorem body3_cons (p : Str) (pre : List Str) (mid : Str) (post : List Str) :
    body3 (p :: pre) mid post = p ++ ';' :: body3 pre mid post := by
  simp [body3, preCat]

theorem gormTag_append_aux (l v X e : Str) : l ++ v ++ ';' :: X ++ e = l ++ (v ++ ';' :: X) ++ e := by simp

theorem appendSetting_body3 (pre : List Str) (mid : Str) (post : List Str) :
    appendSetting (gormTag (body3 pre mid post)) (body3 pre mid post) joinAppend = gormTag (body3 pre mid post) ∨
    appendSetting (gormTag (body3 pre mid post)) (body3 pre mid post) joinAppend = gormTag (body3 (pkSetting :: pre) mid post) := by
  unfold appendSetting
  split
  · exact Or.inl rfl
  · right
    rw [body3_cons, ← joinAppend_eq]
    exact gormTag_append_aux _ _ _ _

/-- the join column of a source field with gorm tag body `body3 pre mid post` is read off the stripped tag of
    `pre`, or of `primaryKey :: pre` -/
theorem joinCol_body3 (pre : List Str) (mid : Str) (post : List Str) (hq : '"' ∉ body3 pre mid post) :
    joinCol joinStrip (gormTag (body3 pre mid post)) = colOfTag (removeSettings joinStrip (gormTag (body3 pre mid post))) ∨
    joinCol joinStrip (gormTag (body3 pre mid post)) =
      colOfTag (removeSettings joinStrip (gormTag (body3 (pkSetting :: pre) mid post))) := by
  have e0 : "gorm".toList = ['g', 'o', 'r', 'm'] := by decide
  unfold joinCol joinFieldTag
  rw [e0, tagGet_gormTag _ hq]
  rcases appendSetting_body3 pre mid post with h | h <;> rw [h]
  · exact Or.inl rfl
  · exact Or.inr rfl

theorem Clean3.quote {pre : List Str} {mid : Str} {post : List Str} (h : Clean3 pre mid post) : '"' ∉ body3 pre mid post :=
  quote_body3 pre mid post (fun s hs => (h.pre s hs).2.1) h.mid.2.1 (fun s hs => (h.post s hs).2.1)

theorem Clean3.pk {pre : List Str} {mid : Str} {post : List Str} (h : Clean3 pre mid post) : Clean3 (pkSetting :: pre) mid post :=
  ⟨fun s hs => by rcases List.mem_cons.1 hs with rfl | hs; exact clean_pk; exact h.pre s hs, h.mid, h.post⟩

theorem joinCol_clean3 {pre : List Str} {mid : Str} {post : List Str} (h : Clean3 pre mid post) :
    (joinCol joinStrip (gormTag (body3 pre mid post))).unique = false ∧
    (joinCol joinStrip (gormTag (body3 pre mid post))).indexed = false := by
  rcases joinCol_body3 pre mid post h.quote with e | e <;> rw [e]
  · rw [removeSettings_clean h]; exact colOfTag_clean h
  · rw [removeSettings_clean h.pk]; exact colOfTag_clean h.pk

/-- T0: a source column without any uniqueness / index setting gives a join column that is neither unique nor indexed -/
theorem joinCol_clean (ss : List Str) (h : ∀ s ∈ ss, CleanSetting s) :
    (joinCol joinStrip (gormTag (joinWith ';' ss))).unique = false ∧
    (joinCol joinStrip (gormTag (joinWith ';' ss))).indexed = false := by
  obtain ⟨mid, post, e, hm⟩ := joinWith_any ss
  rw [e]
  have hc : ∀ s ∈ mid :: post, CleanSetting s := by
    intro s hs
    rcases hm s hs with h' | rfl
    · exact h s h'
    · exact clean_nil
  exact joinCol_clean3 ⟨by simp, hc mid List.mem_cons_self, fun s hs => hc s (List.mem_cons_of_mem _ hs)⟩


/-! ### one hot setting -/

theorem lowerC_idem (c : Char) : lowerC (lowerC c) = lowerC c := by
  rcases lowerC_cases c with e | ⟨_, _, h3, _⟩
  · rw [e, e]
  · generalize lowerC c = d at *
    unfold lowerC
    rw [if_neg]
    intro hh
    have a1 := (char_le_iff _ _).1 h3
    have a2 := (char_le_iff _ _).1 hh.2
    have e2 : 'Z'.toNat = 90 := by decide
    have e3 : 'a'.toNat = 97 := by decide
    rw [e3] at a1; rw [e2] at a2; omega

theorem ciPrefix_lower (name : Str) : ∀ s : Str, ciPrefix name (lower s) = ciPrefix name s := by
  induction name with
  | nil => intro s; cases s <;> rfl
  | cons n ns ih =>
    intro s
    cases s with
    | nil => rfl
    | cons c cs =>
      have := ih cs
      simp only [lower, List.map_cons, ciPrefix, lowerC_idem] at this ⊢
      rw [this]

theorem ciOccurs_lower (name : Str) : ∀ s : Str, ciOccurs name (lower s) = ciOccurs name s := by
  intro s
  induction s with
  | nil => rfl
  | cons c cs ih =>
    have h := ciPrefix_lower name (c :: cs)
    simp only [lower, List.map_cons, ciOccurs] at h ih ⊢
    rw [h, ih]

/-- a character that is no lower-case letter is only the image of itself -/
theorem eq_of_lowerC_eq {d x : Char} (hx : ¬ ('a' ≤ x ∧ x ≤ 'z')) (h : lowerC d = x) : d = x := by
  rcases lowerC_cases d with e | ⟨_, _, h3, h4⟩
  · rw [← e]; exact h
  · rw [h] at h3 h4; exact absurd ⟨h3, h4⟩ hx

theorem not_mem_of_lower {x : Char} (hx : lowerC x = x) {k : Str} (h : x ∉ lower k) : x ∉ k := by
  intro hm
  have : lowerC x ∈ lower k := List.mem_map_of_mem hm
  rw [hx] at this; exact h this

theorem lower_eq_cons {k : Str} {a : Char} {as : Str} (h : lower k = a :: as) :
    ∃ c cs, k = c :: cs ∧ lowerC c = a ∧ lower cs = as := by
  cases k with
  | nil => simp [lower] at h
  | cons c cs =>
    simp only [lower, List.map_cons, List.cons.injEq] at h
    exact ⟨c, cs, rfl, h.1, h.2⟩

theorem lower_eq_nil {k : Str} (h : lower k = []) : k = [] := by
  cases k with
  | nil => rfl
  | cons c cs => simp [lower] at h

theorem lower_eq_unique {k : Str} (h : lower k = nUnique) : ∃ c1 c2 c3 c4 c5 c6, k = [c1, c2, c3, c4, c5, c6] ∧
    lowerC c1 = 'u' ∧ lowerC c2 = 'n' ∧ lowerC c3 = 'i' ∧ lowerC c4 = 'q' ∧ lowerC c5 = 'u' ∧ lowerC c6 = 'e' := by
  obtain ⟨c1, k, rfl, e1, h⟩ := lower_eq_cons h
  obtain ⟨c2, k, rfl, e2, h⟩ := lower_eq_cons h
  obtain ⟨c3, k, rfl, e3, h⟩ := lower_eq_cons h
  obtain ⟨c4, k, rfl, e4, h⟩ := lower_eq_cons h
  obtain ⟨c5, k, rfl, e5, h⟩ := lower_eq_cons h
  obtain ⟨c6, k, rfl, e6, h⟩ := lower_eq_cons h
  rw [lower_eq_nil h]
  exact ⟨c1, c2, c3, c4, c5, c6, rfl, e1, e2, e3, e4, e5, e6⟩

theorem lower_eq_append {k a b : Str} (h : lower k = a ++ b) : ∃ k1 k2, k = k1 ++ k2 ∧ lower k1 = a ∧ lower k2 = b := by
  induction a generalizing k with
  | nil => exact ⟨[], k, rfl, rfl, h⟩
  | cons x xs ih =>
    obtain ⟨c, cs, rfl, e, h'⟩ := lower_eq_cons h
    obtain ⟨k1, k2, rfl, e1, e2⟩ := ih h'
    exact ⟨c :: k1, k2, rfl, by simp [lower, e] at e1 ⊢; exact e1, e2⟩

/-- the value part of a hot setting: nothing, or `:w` with a clean `w` -/
def HotValue (v : Str) : Prop := v = [] ∨ ∃ w, v = ':' :: w ∧ CleanSetting w

/-- a key/value text is free of every name that does not occur in the lower-cased key -/
theorem free_hot {name : Str} (hn : NameOK name) (hcolon : ':' ∉ name) {k v : Str} (hk : ciOccurs name (lower k) = false)
    (hk1 : ';' ∉ lower k) (hk2 : '"' ∉ lower k) (hv : v = [] ∨ ∃ w, v = ':' :: w ∧ Free name w) : Free name (k ++ v) := by
  have f1 := not_mem_of_lower lowerC_semi hk1
  have f2 := not_mem_of_lower lowerC_quote hk2
  rw [ciOccurs_lower] at hk
  rcases hv with rfl | ⟨w, rfl, hw⟩
  · simpa using (⟨f1, f2, hk⟩ : Free name k)
  · refine ⟨?_, ?_, ?_⟩
    · simp only [List.mem_append, List.mem_cons, not_or]; exact ⟨f1, by decide, hw.semi⟩
    · simp only [List.mem_append, List.mem_cons, not_or]; exact ⟨f2, by decide, hw.quote⟩
    · exact ciOccurs_append_sep hn.ne (by rw [lowerC_colon]; exact hcolon) k w hk hw.occ

theorem tail_cons (post : List Str) : ∃ t r, postCat post ++ ['"'] = t :: r ∧ (t = ';' ∨ t = '"') := by
  cases post with
  | nil => exact ⟨'"', [], rfl, Or.inr rfl⟩
  | cons p ps => exact ⟨';', _, rfl, Or.inl rfl⟩

/-- the body that is left when the middle setting is cut out together with its terminator -/
def afterHot (pre : List Str) : List Str → Str
  | [] => body3 pre [] []
  | p :: ps => body3 pre p ps

theorem afterName_hotValue {v : Str} (hv : HotValue v) (t : Char) (r : Str) (ht : t = ';' ∨ t = '"') :
    afterName (v ++ t :: r) = some (r, t == '"') := by
  rcases hv with rfl | ⟨w, rfl, hw⟩
  · exact afterName_term t r ht
  · exact afterName_value w t r hw.1 hw.2.1 ht

theorem length_of_lower {k name : Str} (h : lower k = name) : k.length = name.length := by
  rw [← h]; simp [lower]

/-- HOT PASS: the pass for `name` cuts the (first) setting whose key is `name` out of the tag -/
theorem removeSetting_hot {name : Str} (hn : NameOK name) {k v : Str} (hk : lower k = name) (hv : HotValue v)
    (pre post : List Str) (hpre : ∀ s ∈ pre, Free name s) (hpost : ∀ s ∈ post, Free gormLit s) :
    removeSetting name (gormTag (body3 pre (k ++ v) post)) = gormTag (afterHot pre post) := by
  have hkne : k ≠ [] := by intro e; rw [e] at hk; exact hn.ne hk.symm
  obtain ⟨c, k', rfl⟩ := List.exists_cons_of_ne_nil hkne
  have hp : ciPrefix name (c :: (k' ++ (v ++ (postCat post ++ ['"'])))) = true := by
    rw [← hk]; exact ciPrefix_lower_self (c :: k') _
  have hd : (c :: (k' ++ (v ++ (postCat post ++ ['"'])))).drop name.length = v ++ (postCat post ++ ['"']) := by
    rw [← length_of_lower hk]; exact List.drop_left (l₁ := c :: k')
  cases post with
  | nil =>
    have ha := afterName_hotValue hv '"' [] (Or.inr rfl)
    have hs : scanName name ('"' :: (body3 pre ((c :: k') ++ v) [] ++ ['"'])) = some ('"' :: preCat pre ++ [], [], true) := by
      rw [scanName_to_mid hn pre _ [] hpre, List.append_assoc]
      have := scanName_hit (name := name) (c := c) (cs := k' ++ (v ++ (postCat [] ++ ['"']))) hp (by rw [hd]; exact ha)
      simp only [List.cons_append] at this ⊢
      rw [this]; rfl
    rw [removeSetting_gormTag_some hs (ciOccurs_nil (by decide)), gormTag_eq]
    simp [afterHot, body3, postCat]
  | cons p ps =>
    have ha := afterName_hotValue hv ';' (p ++ (postCat ps ++ ['"'])) (Or.inl rfl)
    have hs : scanName name ('"' :: (body3 pre ((c :: k') ++ v) (p :: ps) ++ ['"'])) =
        some ('"' :: preCat pre ++ [], p ++ (postCat ps ++ ['"']), false) := by
      rw [scanName_to_mid hn pre _ (p :: ps) hpre, List.append_assoc]
      have := scanName_hit (name := name) (c := c) (cs := k' ++ (v ++ (postCat (p :: ps) ++ ['"']))) hp
        (by rw [hd]; simpa [postCat] using ha)
      simp only [List.cons_append] at this ⊢
      rw [this]; rfl
    rw [removeSetting_gormTag_some hs
      (occ_mid_postCat_end nameOK_gorm p ps (hpost p List.mem_cons_self) (fun s hs => hpost s (List.mem_cons_of_mem _ hs))), gormTag_eq]
    simp [afterHot, body3]

theorem afterHot_clean {pre post : List Str} (hpre : ∀ s ∈ pre, CleanSetting s) (hpost : ∀ s ∈ post, CleanSetting s) :
    ∃ mid post', afterHot pre post = body3 pre mid post' ∧ Clean3 pre mid post' := by
  cases post with
  | nil => exact ⟨[], [], rfl, hpre, clean_nil, by simp⟩
  | cons p ps => exact ⟨p, ps, rfl, hpre, hpost p List.mem_cons_self, fun s hs => hpost s (List.mem_cons_of_mem _ hs)⟩

theorem hotValue_free {name v : Str} (hv : HotValue v) (hf : ∀ w, CleanSetting w → Free name w) :
    v = [] ∨ ∃ w, v = ':' :: w ∧ Free name w := by
  rcases hv with rfl | ⟨w, rfl, hw⟩
  · exact Or.inl rfl
  · exact Or.inr ⟨w, rfl, hf w hw⟩

/-- the stripped tag is a tag of clean settings -/
def StripsClean (tag : Str) : Prop := ∃ a b c, removeSettings joinStrip tag = gormTag (body3 a b c) ∧ Clean3 a b c

theorem col_of_stripsClean {tag : Str} (h : StripsClean tag) :
    (colOfTag (removeSettings joinStrip tag)).unique = false ∧ (colOfTag (removeSettings joinStrip tag)).indexed = false := by
  obtain ⟨a, b, c, e, hc⟩ := h
  rw [e]; exact colOfTag_clean hc

theorem clean_pre_pk {pre : List Str} (h : ∀ s ∈ pre, CleanSetting s) : ∀ s ∈ pkSetting :: pre, CleanSetting s := by
  intro s hs
  rcases List.mem_cons.1 hs with rfl | hs
  · exact clean_pk
  · exact h s hs

/-- hot setting `index[:w]` -/
theorem strips_index {k v : Str} (hk : lower k = nIndex) (hv : HotValue v) {pre post : List Str}
    (hpre : ∀ s ∈ pre, CleanSetting s) (hpost : ∀ s ∈ post, CleanSetting s) :
    StripsClean (gormTag (body3 pre (k ++ v) post)) := by
  have f1 : Free nColumn (k ++ v) := free_hot nameOK_column (by decide) (by rw [hk]; decide) (by rw [hk]; decide)
    (by rw [hk]; decide) (hotValue_free hv fun _ h => h.column)
  have f2 : Free nAutoinc (k ++ v) := free_hot nameOK_autoinc (by decide) (by rw [hk]; decide) (by rw [hk]; decide)
    (by rw [hk]; decide) (hotValue_free hv fun _ h => h.autoinc)
  obtain ⟨mid, post', e, hc⟩ := afterHot_clean hpre hpost
  refine ⟨pre, mid, post', ?_, hc⟩
  rw [joinStrip_eq, removeSettings_five,
    removeSetting_free nameOK_column pre _ post (fun s hs => (hpre s hs).column) f1 (fun s hs => (hpost s hs).column),
    removeSetting_free nameOK_autoinc pre _ post (fun s hs => (hpre s hs).autoinc) f2 (fun s hs => (hpost s hs).autoinc),
    removeSetting_hot nameOK_index hk hv pre post (fun s hs => (hpre s hs).index) (fun s hs => (hpost s hs).gorm), e,
    removeSetting_free nameOK_unique pre mid post' (fun s hs => (hc.pre s hs).unique) hc.mid.unique (fun s hs => (hc.post s hs).unique),
    removeSetting_free nameOK_uniqueIndex pre mid post' (fun s hs => (hc.pre s hs).uniqueIndex) hc.mid.uniqueIndex
      (fun s hs => (hc.post s hs).uniqueIndex)]

/-- hot setting `unique[:w]` -/
theorem strips_unique {k v : Str} (hk : lower k = nUnique) (hv : HotValue v) {pre post : List Str}
    (hpre : ∀ s ∈ pre, CleanSetting s) (hpost : ∀ s ∈ post, CleanSetting s) :
    StripsClean (gormTag (body3 pre (k ++ v) post)) := by
  have f1 : Free nColumn (k ++ v) := free_hot nameOK_column (by decide) (by rw [hk]; decide) (by rw [hk]; decide)
    (by rw [hk]; decide) (hotValue_free hv fun _ h => h.column)
  have f2 : Free nAutoinc (k ++ v) := free_hot nameOK_autoinc (by decide) (by rw [hk]; decide) (by rw [hk]; decide)
    (by rw [hk]; decide) (hotValue_free hv fun _ h => h.autoinc)
  have f3 : Free nIndex (k ++ v) := free_hot nameOK_index (by decide) (by rw [hk]; decide) (by rw [hk]; decide)
    (by rw [hk]; decide) (hotValue_free hv fun _ h => h.index)
  obtain ⟨mid, post', e, hc⟩ := afterHot_clean hpre hpost
  refine ⟨pre, mid, post', ?_, hc⟩
  rw [joinStrip_eq, removeSettings_five,
    removeSetting_free nameOK_column pre _ post (fun s hs => (hpre s hs).column) f1 (fun s hs => (hpost s hs).column),
    removeSetting_free nameOK_autoinc pre _ post (fun s hs => (hpre s hs).autoinc) f2 (fun s hs => (hpost s hs).autoinc),
    removeSetting_free nameOK_index pre _ post (fun s hs => (hpre s hs).index) f3 (fun s hs => (hpost s hs).index),
    removeSetting_hot nameOK_unique hk hv pre post (fun s hs => (hpre s hs).unique) (fun s hs => (hpost s hs).gorm), e,
    removeSetting_free nameOK_uniqueIndex pre mid post' (fun s hs => (hc.pre s hs).uniqueIndex) hc.mid.uniqueIndex
      (fun s hs => (hc.post s hs).uniqueIndex)]

theorem hot_quote {k v : Str} (hk2 : '"' ∉ lower k) (hv : HotValue v) : '"' ∉ k ++ v := by
  have f2 := not_mem_of_lower lowerC_quote hk2
  rcases hv with rfl | ⟨w, rfl, hw⟩
  · simpa using f2
  · simp only [List.mem_append, List.mem_cons, not_or]; exact ⟨f2, by decide, hw.2.1⟩

/-- from "both candidate tags strip to something harmless" to the join column -/
theorem joinCol_of_strips {pre post : List Str} {mid : Str} (hq : '"' ∉ body3 pre mid post)
    (P : JoinCol → Prop) (h1 : P (colOfTag (removeSettings joinStrip (gormTag (body3 pre mid post)))))
    (h2 : P (colOfTag (removeSettings joinStrip (gormTag (body3 (pkSetting :: pre) mid post))))) :
    P (joinCol joinStrip (gormTag (body3 pre mid post))) := by
  rcases joinCol_body3 pre mid post hq with e | e <;> rw [e]
  · exact h1
  · exact h2

/-- hot setting with a given lower-case key -/
def HotWith (key h : Str) : Prop := ∃ k v, lower k = key ∧ HotValue v ∧ h = k ++ v

theorem hotSetting_iff (h : Str) : HotSetting h ↔ (HotWith nUnique h ∨ HotWith nUniqueIndex h ∨ HotWith nIndex h) := by
  have e1 : "unique".toList = nUnique := by decide
  have e2 : "uniqueindex".toList = nUniqueIndex := by decide
  have e3 : "index".toList = nIndex := by decide
  unfold HotSetting
  rw [e1, e2, e3]
  constructor
  · rintro ⟨k, w, hk, hw, hh⟩
    have hv : ∃ v, HotValue v ∧ h = k ++ v := by
      rcases hh with rfl | rfl
      · exact ⟨[], Or.inl rfl, by simp⟩
      · exact ⟨':' :: w, Or.inr ⟨w, rfl, hw⟩, rfl⟩
    obtain ⟨v, hv, rfl⟩ := hv
    rcases hk with hk | hk | hk
    · exact Or.inl ⟨k, v, hk, hv, rfl⟩
    · exact Or.inr (Or.inl ⟨k, v, hk, hv, rfl⟩)
    · exact Or.inr (Or.inr ⟨k, v, hk, hv, rfl⟩)
  · intro hh
    have key : ∀ key, HotWith key h → ∃ k w, lower k = key ∧ CleanSetting w ∧ (h = k ∨ h = k ++ ':' :: w) := by
      rintro key ⟨k, v, hk, hv, rfl⟩
      rcases hv with rfl | ⟨w, rfl, hw⟩
      · exact ⟨k, [], hk, clean_nil, Or.inl (by simp)⟩
      · exact ⟨k, w, hk, hw, Or.inr rfl⟩
    rcases hh with hh | hh | hh
    · obtain ⟨k, w, hk, hw, e⟩ := key _ hh; exact ⟨k, w, Or.inl hk, hw, e⟩
    · obtain ⟨k, w, hk, hw, e⟩ := key _ hh; exact ⟨k, w, Or.inr (Or.inl hk), hw, e⟩
    · obtain ⟨k, w, hk, hw, e⟩ := key _ hh; exact ⟨k, w, Or.inr (Or.inr hk), hw, e⟩

/-- T1 for `index[:w]` (any letter case): no extra hypothesis -/
theorem joinCol_hot_index (pre post : List Str) (hot : Str) (hpre : ∀ s ∈ pre, CleanSetting s)
    (hpost : ∀ s ∈ post, CleanSetting s) (hh : HotWith nIndex hot) :
    (joinCol joinStrip (gormTag (joinWith ';' (pre ++ hot :: post)))).unique = false ∧
    (joinCol joinStrip (gormTag (joinWith ';' (pre ++ hot :: post)))).indexed = false := by
  obtain ⟨k, v, hk, hv, rfl⟩ := hh
  rw [joinWith_body3]
  apply joinCol_of_strips (P := fun c => c.unique = false ∧ c.indexed = false)
  · exact quote_body3 pre _ post (fun s hs => (hpre s hs).2.1) (hot_quote (by rw [hk]; decide) hv) (fun s hs => (hpost s hs).2.1)
  · exact col_of_stripsClean (strips_index hk hv hpre hpost)
  · exact col_of_stripsClean (strips_index hk hv (clean_pre_pk hpre) hpost)

/-- T1 for `unique[:w]` (any letter case): no extra hypothesis -/
theorem joinCol_hot_unique (pre post : List Str) (hot : Str) (hpre : ∀ s ∈ pre, CleanSetting s)
    (hpost : ∀ s ∈ post, CleanSetting s) (hh : HotWith nUnique hot) :
    (joinCol joinStrip (gormTag (joinWith ';' (pre ++ hot :: post)))).unique = false ∧
    (joinCol joinStrip (gormTag (joinWith ';' (pre ++ hot :: post)))).indexed = false := by
  obtain ⟨k, v, hk, hv, rfl⟩ := hh
  rw [joinWith_body3]
  apply joinCol_of_strips (P := fun c => c.unique = false ∧ c.indexed = false)
  · exact quote_body3 pre _ post (fun s hs => (hpre s hs).2.1) (hot_quote (by rw [hk]; decide) hv) (fun s hs => (hpost s hs).2.1)
  · exact col_of_stripsClean (strips_unique hk hv hpre hpost)
  · exact col_of_stripsClean (strips_unique hk hv (clean_pre_pk hpre) hpost)


/-! ### `uniqueIndex`: the pass for `index` cuts the back half of the key -/

theorem scanName_at_hot {name : Str} (hn : NameOK name) {k v : Str} (hk : lower k = name) (hv : HotValue v) (t : Char) (r : Str)
    (ht : t = ';' ∨ t = '"') : scanName name (k ++ (v ++ t :: r)) = some ([], r, t == '"') := by
  have hkne : k ≠ [] := by intro e; rw [e] at hk; exact hn.ne hk.symm
  obtain ⟨c, k', rfl⟩ := List.exists_cons_of_ne_nil hkne
  have hp : ciPrefix name (c :: (k' ++ (v ++ t :: r))) = true := by
    rw [← hk]; exact ciPrefix_lower_self (c :: k') _
  have hd : (c :: (k' ++ (v ++ t :: r))).drop name.length = v ++ t :: r := by
    rw [← length_of_lower hk]; exact List.drop_left (l₁ := c :: k')
  have ha : afterName ((c :: (k' ++ (v ++ t :: r))).drop name.length) = some (r, t == '"') := by
    rw [hd]; exact afterName_hotValue hv t r ht
  exact scanName_hit (cs := k' ++ (v ++ t :: r)) hp ha

/-- what the pass for `index` leaves of `pre;uniqueIndex[:w];post` -/
def glued (pre : List Str) (k1 : Str) : List Str → Str
  | [] => body3 pre k1 []
  | p :: ps => body3 pre (k1 ++ p) ps

theorem removeSetting_index_glue {k1 k2 v : Str} (h1 : lower k1 = nUnique) (h2 : lower k2 = nIndex) (hv : HotValue v)
    (pre post : List Str) (hpre : ∀ s ∈ pre, Free nIndex s) (hpost : ∀ s ∈ post, Free gormLit s) :
    removeSetting nIndex (gormTag (body3 pre (k1 ++ (k2 ++ v)) post)) = gormTag (glued pre k1 post) := by
  obtain ⟨c1, c2, c3, c4, c5, c6, rfl, e1, e2, e3, e4, e5, e6⟩ := lower_eq_unique h1
  have skip : ∀ (t : Char) (r : Str), (t = ';' ∨ t = '"') →
      scanName nIndex ([c1, c2, c3, c4, c5, c6] ++ (k2 ++ v) ++ t :: r) = some ([c1, c2, c3, c4, c5, c6], r, t == '"') := by
    intro t r ht
    have hh := scanName_at_hot nameOK_index h2 hv t r ht
    simp only [List.cons_append, List.nil_append, List.append_assoc]
    rw [scanName_skip1 (by simp [ciPrefix, nIndex, e1]), scanName_skip1 (by simp [ciPrefix, nIndex, e2]),
      scanName_skip1 (by simp [ciPrefix, nIndex, e3, e4]), scanName_skip1 (by simp [ciPrefix, nIndex, e4]),
      scanName_skip1 (by simp [ciPrefix, nIndex, e5]), scanName_skip1 (by simp [ciPrefix, nIndex, e6]), hh]
    rfl
  cases post with
  | nil =>
    have hs : scanName nIndex ('"' :: (body3 pre ([c1, c2, c3, c4, c5, c6] ++ (k2 ++ v)) [] ++ ['"'])) =
        some ('"' :: preCat pre ++ [c1, c2, c3, c4, c5, c6], [], true) := by
      rw [scanName_to_mid nameOK_index pre _ [] hpre]
      have := skip '"' [] (Or.inr rfl)
      simp only [postCat, List.nil_append] at this ⊢
      rw [this]; rfl
    rw [removeSetting_gormTag_some hs (ciOccurs_nil (by decide)), gormTag_eq]
    simp [glued, body3, postCat]
  | cons p ps =>
    have hs : scanName nIndex ('"' :: (body3 pre ([c1, c2, c3, c4, c5, c6] ++ (k2 ++ v)) (p :: ps) ++ ['"'])) =
        some ('"' :: preCat pre ++ [c1, c2, c3, c4, c5, c6], p ++ (postCat ps ++ ['"']), false) := by
      rw [scanName_to_mid nameOK_index pre _ (p :: ps) hpre]
      have := skip ';' (p ++ (postCat ps ++ ['"'])) (Or.inl rfl)
      simp only [postCat, List.cons_append, List.append_assoc] at this ⊢
      rw [this]; rfl
    rw [removeSetting_gormTag_some hs
      (occ_mid_postCat_end nameOK_gorm p ps (hpost p List.mem_cons_self) (fun s hs => hpost s (List.mem_cons_of_mem _ hs))), gormTag_eq]
    simp [glued, body3]

/-- the head of the setting behind `uniqueIndex` must not be white space (see `joinCol_glue_space_witness`) -/
def GlueSafe (post : List Str) : Prop := ∀ p ps, post = p :: ps → ∀ c r, p = c :: r → isSpace c = false

theorem ciPrefix_name_drop {n1 n2 : Str} : ∀ s : Str, ciPrefix (n1 ++ n2) s = true → ciPrefix n2 (s.drop n1.length) = true := by
  induction n1 with
  | nil => intro s h; simpa using h
  | cons n ns ih =>
    intro s h
    cases s with
    | nil => simp [ciPrefix] at h
    | cons c cs =>
      simp only [List.cons_append, ciPrefix, Bool.and_eq_true, beq_iff_eq] at h
      simpa using ih cs h.2

theorem ne_colon_of_lowerC {d x : Char} (h : lowerC d = x) (hx : x ≠ ':') : (d != ':') = true := by
  simp only [bne_iff_ne, ne_eq]
  intro e; subst e; exact hx (by rw [← h]; decide)

section Glue
variable {c1 c2 c3 c4 c5 c6 c : Char} {p' : Str}
variable (e1 : lowerC c1 = 'u') (e2 : lowerC c2 = 'n') (e3 : lowerC c3 = 'i') (e4 : lowerC c4 = 'q')
  (e5 : lowerC c5 = 'u') (e6 : lowerC c6 = 'e')
include e1 e2 e3 e4 e5 e6

omit e1 in
/-- `unique` glued to a setting that does not start with `:` is not matched by the pass for `unique` -/
theorem removeSetting_unique_glue (hc1 : c ≠ ':') (hc2 : c ≠ ';') (hc3 : c ≠ '"') (pre ps : List Str)
    (hpre : ∀ s ∈ pre, Free nUnique s) (hp : Free nUnique (c :: p')) (hps : ∀ s ∈ ps, Free nUnique s) :
    removeSetting nUnique (gormTag (body3 pre ([c1, c2, c3, c4, c5, c6] ++ c :: p') ps)) =
      gormTag (body3 pre ([c1, c2, c3, c4, c5, c6] ++ c :: p') ps) := by
  apply removeSetting_gormTag_none
  rw [scanName_to_mid nameOK_unique pre _ ps hpre]
  have hab := scanName_absent _ (occ_mid_postCat_end nameOK_unique (c :: p') ps hp hps)
  simp only [List.cons_append, List.nil_append] at hab ⊢
  rw [scanName_miss (by simp [nUnique, afterName, hc1, hc2, hc3]),
    scanName_skip1 (by simp [ciPrefix, nUnique, e2]), scanName_skip1 (by simp [ciPrefix, nUnique, e3]),
    scanName_skip1 (by simp [ciPrefix, nUnique, e4]), scanName_skip1 (by simp [ciPrefix, nUnique, e5, e6]),
    scanName_skip1 (by simp [ciPrefix, nUnique, e6]), hab]
  rfl

omit e1 in
theorem removeSetting_uniqueIndex_glue (pre ps : List Str)
    (hpre : ∀ s ∈ pre, Free nUniqueIndex s) (hp : Free nUniqueIndex (c :: p')) (hpi : ciOccurs nIndex (c :: p') = false)
    (hps : ∀ s ∈ ps, Free nUniqueIndex s) :
    removeSetting nUniqueIndex (gormTag (body3 pre ([c1, c2, c3, c4, c5, c6] ++ c :: p') ps)) =
      gormTag (body3 pre ([c1, c2, c3, c4, c5, c6] ++ c :: p') ps) := by
  apply removeSetting_gormTag_none
  rw [scanName_to_mid nameOK_uniqueIndex pre _ ps hpre]
  have hab := scanName_absent _ (occ_mid_postCat_end nameOK_uniqueIndex (c :: p') ps hp hps)
  obtain ⟨t, r, htl, ht⟩ := tail_cons ps
  have h0 : ciPrefix nUniqueIndex (c1 :: c2 :: c3 :: c4 :: c5 :: c6 :: c :: (p' ++ (postCat ps ++ ['"']))) = false := by
    cases hh : ciPrefix nUniqueIndex (c1 :: c2 :: c3 :: c4 :: c5 :: c6 :: c :: (p' ++ (postCat ps ++ ['"']))) with
    | false => rfl
    | true =>
      rw [nUniqueIndex_eq] at hh
      have h2 := ciPrefix_name_drop _ hh
      have h3 : ciPrefix nIndex ((c :: p') ++ t :: r) = true := by rw [← htl]; simpa [nUnique] using h2
      have h4 := ciPrefix_append_sep (by rcases ht with rfl | rfl <;> decide) (c :: p') r h3
      rw [(ciOccurs_cons_false hpi).1] at h4; exact absurd h4 (by decide)
  simp only [List.cons_append, List.nil_append] at hab ⊢
  rw [scanName_skip1 h0,
    scanName_skip1 (by simp [ciPrefix, nUniqueIndex, e2]), scanName_skip1 (by simp [ciPrefix, nUniqueIndex, e3]),
    scanName_skip1 (by simp [ciPrefix, nUniqueIndex, e4]), scanName_skip1 (by simp [ciPrefix, nUniqueIndex, e5, e6]),
    scanName_skip1 (by simp [ciPrefix, nUniqueIndex, e6]), hab]
  rfl

/-- the glued setting `unique<p>` has none of the three keys -/
theorem glue_key_ne (hc1 : c ≠ ':') (hsp : isSpace c = false) (hpi : ciOccurs nIndex (c :: p') = false) :
    keyOf ([c1, c2, c3, c4, c5, c6] ++ c :: p') ≠ kUnique ∧ keyOf ([c1, c2, c3, c4, c5, c6] ++ c :: p') ≠ kIndex ∧
    keyOf ([c1, c2, c3, c4, c5, c6] ++ c :: p') ≠ kUniqueIndex := by
  have hc : (c != ':') = true := by simp [hc1]
  have u1 : upperC c1 = 'U' := by rw [← upperC_lowerC, e1]; decide
  have u2 : upperC c2 = 'N' := by rw [← upperC_lowerC, e2]; decide
  have u3 : upperC c3 = 'I' := by rw [← upperC_lowerC, e3]; decide
  have u4 : upperC c4 = 'Q' := by rw [← upperC_lowerC, e4]; decide
  have u5 : upperC c5 = 'U' := by rw [← upperC_lowerC, e5]; decide
  have u6 : upperC c6 = 'E' := by rw [← upperC_lowerC, e6]; decide
  have hk : keyOf ([c1, c2, c3, c4, c5, c6] ++ c :: p') =
      trimSpace ('U' :: 'N' :: 'I' :: 'Q' :: 'U' :: 'E' :: upperC c :: upper (p'.takeWhile (· != ':'))) := by
    unfold keyOf
    simp only [List.cons_append, List.nil_append]
    have n1 := ne_colon_of_lowerC e1 (by decide)
    have n2 := ne_colon_of_lowerC e2 (by decide)
    have n3 := ne_colon_of_lowerC e3 (by decide)
    have n4 := ne_colon_of_lowerC e4 (by decide)
    have n5 := ne_colon_of_lowerC e5 (by decide)
    have n6 := ne_colon_of_lowerC e6 (by decide)
    simp only [List.takeWhile_cons, n1, n2, n3, n4, n5, n6, hc, if_true]
    simp only [upper, List.map_cons, u1, u2, u3, u4, u5, u6]
  obtain ⟨b, hb, hbs⟩ := trimSpace_cons_nonspace 'U' ('N' :: 'I' :: 'Q' :: 'U' :: 'E' :: upperC c :: upper (p'.takeWhile (· != ':')))
    (by decide)
  rw [← hk] at hb
  refine ⟨?_, ?_, ?_⟩
  · intro h
    rw [h] at hb
    simp only [kUnique, List.cons_append, List.nil_append, List.cons.injEq, true_and] at hb
    have : isSpace (upperC c) = true := hbs _ (by rw [← hb]; exact List.mem_cons_self)
    rw [isSpace_upperC this] at hsp; exact absurd hsp (by decide)
  · intro h
    rw [h] at hb
    simp [kIndex] at hb
  · intro h
    rw [h] at hb
    simp only [kUniqueIndex, List.cons_append, List.cons.injEq, true_and] at hb
    have h2 : upper (c :: p'.takeWhile (· != ':')) = kIndex ++ b := by simpa [upper, kIndex] using hb
    have h3 := congrArg lower h2
    rw [lower_upper, lower_append] at h3
    have l2 : lower kIndex = nIndex := by decide
    rw [l2] at h3
    have h4 := ciPrefix_of_lower_eq _ _ h3
    have h5 := ciPrefix_append_mono _ (p'.dropWhile (· != ':')) h4
    rw [List.cons_append, List.takeWhile_append_dropWhile, (ciOccurs_cons_false hpi).1] at h5
    exact absurd h5 (by decide)

end Glue

/-- the last two passes when `unique[:w]` is a setting of its own -/
theorem finish_hot {k1 v : Str} (h1 : lower k1 = nUnique) (hv : HotValue v) {pre ps : List Str}
    (hpre : ∀ s ∈ pre, CleanSetting s) (hps : ∀ s ∈ ps, CleanSetting s) :
    (colOfTag (removeSetting nUniqueIndex (removeSetting nUnique (gormTag (body3 pre (k1 ++ v) ps))))).unique = false ∧
    (colOfTag (removeSetting nUniqueIndex (removeSetting nUnique (gormTag (body3 pre (k1 ++ v) ps))))).indexed = false := by
  obtain ⟨mid, post', e, hc⟩ := afterHot_clean hpre hps
  rw [removeSetting_hot nameOK_unique h1 hv pre ps (fun s hs => (hpre s hs).unique) (fun s hs => (hps s hs).gorm), e,
    removeSetting_free nameOK_uniqueIndex pre mid post' (fun s hs => (hc.pre s hs).uniqueIndex) hc.mid.uniqueIndex
      (fun s hs => (hc.post s hs).uniqueIndex)]
  exact colOfTag_clean hc

/-- hot setting `uniqueIndex[:w]` -/
theorem col_uniqueIndex {k v : Str} (hk : lower k = nUniqueIndex) (hv : HotValue v) {pre post : List Str}
    (hpre : ∀ s ∈ pre, CleanSetting s) (hpost : ∀ s ∈ post, CleanSetting s) (hg : GlueSafe post) :
    (colOfTag (removeSettings joinStrip (gormTag (body3 pre (k ++ v) post)))).unique = false ∧
    (colOfTag (removeSettings joinStrip (gormTag (body3 pre (k ++ v) post)))).indexed = false := by
  have f1 : Free nColumn (k ++ v) := free_hot nameOK_column (by decide) (by rw [hk]; decide) (by rw [hk]; decide)
    (by rw [hk]; decide) (hotValue_free hv fun _ h => h.column)
  have f2 : Free nAutoinc (k ++ v) := free_hot nameOK_autoinc (by decide) (by rw [hk]; decide) (by rw [hk]; decide)
    (by rw [hk]; decide) (hotValue_free hv fun _ h => h.autoinc)
  rw [joinStrip_eq, removeSettings_five,
    removeSetting_free nameOK_column pre _ post (fun s hs => (hpre s hs).column) f1 (fun s hs => (hpost s hs).column),
    removeSetting_free nameOK_autoinc pre _ post (fun s hs => (hpre s hs).autoinc) f2 (fun s hs => (hpost s hs).autoinc)]
  rw [nUniqueIndex_eq] at hk
  obtain ⟨k1, k2, rfl, h1, h2⟩ := lower_eq_append hk
  rw [List.append_assoc k1 k2 v,
    removeSetting_index_glue h1 h2 hv pre post (fun s hs => (hpre s hs).index) (fun s hs => (hpost s hs).gorm)]
  cases post with
  | nil =>
    have := finish_hot h1 (Or.inl rfl : HotValue []) hpre hpost
    simpa [glued] using this
  | cons p ps =>
    have hp := hpost p List.mem_cons_self
    have hps : ∀ s ∈ ps, CleanSetting s := fun s hs => hpost s (List.mem_cons_of_mem _ hs)
    cases p with
    | nil => exact finish_hot h1 (Or.inl rfl : HotValue []) hpre hps
    | cons c p' =>
      by_cases hc1 : c = ':'
      · subst hc1; exact finish_hot h1 (Or.inr ⟨p', rfl, hp.tail⟩ : HotValue (':' :: p')) hpre hps
      · have hc2 : c ≠ ';' := fun e => hp.1 (e ▸ List.mem_cons_self)
        have hc3 : c ≠ '"' := fun e => hp.2.1 (e ▸ List.mem_cons_self)
        have hsp : isSpace c = false := hg _ _ rfl c p' rfl
        obtain ⟨c1, c2, c3, c4, c5, c6, rfl, e1, e2, e3, e4, e5, e6⟩ := lower_eq_unique h1
        show (colOfTag (removeSetting nUniqueIndex (removeSetting nUnique
            (gormTag (body3 pre ([c1, c2, c3, c4, c5, c6] ++ c :: p') ps))))).unique = false ∧
          (colOfTag (removeSetting nUniqueIndex (removeSetting nUnique
            (gormTag (body3 pre ([c1, c2, c3, c4, c5, c6] ++ c :: p') ps))))).indexed = false
        rw [removeSetting_unique_glue e2 e3 e4 e5 e6 hc1 hc2 hc3 pre ps (fun s hs => (hpre s hs).unique) hp.unique
            (fun s hs => (hps s hs).unique),
          removeSetting_uniqueIndex_glue e2 e3 e4 e5 e6 pre ps (fun s hs => (hpre s hs).uniqueIndex) hp.uniqueIndex hp.index.occ
            (fun s hs => (hps s hs).uniqueIndex)]
        have hgl := glue_key_ne e1 e2 e3 e4 e5 e6 hc1 hsp hp.index.occ
        have hq1 : '"' ∉ [c1, c2, c3, c4, c5, c6] := not_mem_of_lower lowerC_quote (by rw [h1]; decide)
        have hs1 : ';' ∉ [c1, c2, c3, c4, c5, c6] := not_mem_of_lower lowerC_semi (by rw [h1]; decide)
        have hqm : '"' ∉ [c1, c2, c3, c4, c5, c6] ++ c :: p' := by
          intro hm; rcases List.mem_append.1 hm with hm | hm
          · exact hq1 hm
          · exact hp.2.1 hm
        have hsm : ';' ∉ [c1, c2, c3, c4, c5, c6] ++ c :: p' := by
          intro hm; rcases List.mem_append.1 hm with hm | hm
          · exact hs1 hm
          · exact hp.1 hm
        have hall : ∀ s ∈ pre ++ ([c1, c2, c3, c4, c5, c6] ++ c :: p') :: ps,
            keyOf s ≠ kUnique ∧ keyOf s ≠ kIndex ∧ keyOf s ≠ kUniqueIndex := by
          intro s hs
          rcases List.mem_append.1 hs with hs | hs
          · exact clean_key_ne (hpre s hs)
          · rcases List.mem_cons.1 hs with rfl | hs
            · exact hgl
            · exact clean_key_ne (hps s hs)
        apply colOfTag_keys
        · exact quote_body3 pre _ ps (fun s hs => (hpre s hs).2.1) hqm (fun s hs => (hps s hs).2.1)
        · exact settingOf_parse_absent _ pre _ ps (fun s hs => (hpre s hs).1) hsm (fun s hs => (hps s hs).1) (fun s hs => (hall s hs).1)
        · exact settingOf_parse_absent _ pre _ ps (fun s hs => (hpre s hs).1) hsm (fun s hs => (hps s hs).1) (fun s hs => (hall s hs).2.1)
        · exact settingOf_parse_absent _ pre _ ps (fun s hs => (hpre s hs).1) hsm (fun s hs => (hps s hs).1) (fun s hs => (hall s hs).2.2)

/-- T1 for `uniqueIndex[:w]` (any letter case): needs `GlueSafe post` -/
theorem joinCol_hot_uniqueIndex (pre post : List Str) (hot : Str) (hpre : ∀ s ∈ pre, CleanSetting s)
    (hpost : ∀ s ∈ post, CleanSetting s) (hh : HotWith nUniqueIndex hot) (hg : GlueSafe post) :
    (joinCol joinStrip (gormTag (joinWith ';' (pre ++ hot :: post)))).unique = false ∧
    (joinCol joinStrip (gormTag (joinWith ';' (pre ++ hot :: post)))).indexed = false := by
  obtain ⟨k, v, hk, hv, rfl⟩ := hh
  rw [joinWith_body3]
  apply joinCol_of_strips (P := fun c => c.unique = false ∧ c.indexed = false)
  · exact quote_body3 pre _ post (fun s hs => (hpre s hs).2.1) (hot_quote (by rw [hk]; decide) hv) (fun s hs => (hpost s hs).2.1)
  · exact col_uniqueIndex hk hv hpre hpost hg
  · exact col_uniqueIndex hk hv (clean_pre_pk hpre) hpost hg

/-- T1: exactly one uniqueness / index bearing setting (any letter case, bare or with a value) among otherwise clean settings
    never makes the join column unique or indexed — provided that, when the setting is `uniqueIndex`, the setting behind it
    does not start with white space (`joinCol_glue_space_witness` shows that this proviso is needed). -/
theorem joinCol_single_hot (pre post : List Str) (hot : Str) (hpre : ∀ s ∈ pre, CleanSetting s)
    (hpost : ∀ s ∈ post, CleanSetting s) (hh : HotSetting hot) (hg : HotWith nUniqueIndex hot → GlueSafe post) :
    let c := joinCol joinStrip (gormTag (joinWith ';' (pre ++ hot :: post)))
    c.unique = false ∧ c.indexed = false := by
  intro c
  rcases (hotSetting_iff hot).1 hh with h | h | h
  · exact joinCol_hot_unique pre post hot hpre hpost h
  · exact joinCol_hot_uniqueIndex pre post hot hpre hpost h (hg h)
  · exact joinCol_hot_index pre post hot hpre hpost h

/-- T1 without proviso when nothing follows the hot setting or what follows starts with a non-space character -/
theorem joinCol_single_hot_last (pre : List Str) (hot : Str) (hpre : ∀ s ∈ pre, CleanSetting s) (hh : HotSetting hot) :
    let c := joinCol joinStrip (gormTag (joinWith ';' (pre ++ [hot])))
    c.unique = false ∧ c.indexed = false :=
  joinCol_single_hot pre [] hot hpre (by simp) hh (fun _ p ps e => by simp at e)

example : (joinCol joinStrip (gormTag "size:10;uniqueIndex:ux;not null".toList)).unique = false ∧
    (joinCol joinStrip (gormTag "size:10;uniqueIndex:ux;not null".toList)).indexed = false := by
  have h := joinCol_single_hot ["size:10".toList] ["not null".toList] "uniqueIndex:ux".toList
    (by intro s hs; simp only [List.mem_cons, List.not_mem_nil, or_false] at hs; subst hs; rw [clean_iff]; decide)
    (by intro s hs; simp only [List.mem_cons, List.not_mem_nil, or_false] at hs; subst hs; rw [clean_iff]; decide)
    ⟨"uniqueIndex".toList, "ux".toList, Or.inr (Or.inl (by decide)), by rw [clean_iff]; decide, Or.inr (by decide)⟩
    (by
      intro _ p ps e c r ep
      simp only [List.cons.injEq] at e
      obtain ⟨rfl, _⟩ := e
      have : c = 'n' := by
        have := congrArg List.head? ep
        simpa using this.symm
      subst this; decide)
  exact h

/-! ### witnesses: what the passes do NOT guarantee -/

/-- two uniqueness settings on one column: the join column IS unique (defect) -/
theorem joinCol_two_unique_witness : (joinCol joinStrip (gormTag "unique;uniqueIndex".toList)).unique = true := by decide
theorem joinCol_two_uniqueIndex_witness : (joinCol joinStrip (gormTag "uniqueIndex:a;uniqueIndex:b".toList)).unique = true := by decide
theorem joinCol_two_index_witness : (joinCol joinStrip (gormTag "index:a;index:b".toList)).indexed = true := by decide
/-- `uniqueIndex` followed by a setting that starts with white space: `index` is cut, `unique ` stays and parses to the
    key UNIQUE — the reason for the `GlueSafe` proviso of `joinCol_single_hot` -/
theorem joinCol_glue_space_witness : (joinCol joinStrip (gormTag "uniqueIndex; ".toList)).unique = true := by decide
theorem joinCol_glue_space_tag : (joinCol joinStrip (gormTag "uniqueIndex; ".toList)).tag = "gorm:\"primaryKey;unique \"".toList := by
  decide
/-- the glue case with a harmless key -/
theorem joinCol_glue_tag : (joinCol joinStrip (gormTag "uniqueIndex;size:10".toList)).tag = "gorm:\"primaryKey;uniquesize:10\"".toList := by
  decide

/-! ### non-vacuity -/

example : CleanSetting "size:10".toList := by rw [clean_iff]; decide
example : CleanSetting "not null".toList := by rw [clean_iff]; decide
example : HotSetting "uniqueIndex:ux".toList :=
  ⟨"uniqueIndex".toList, "ux".toList, Or.inr (Or.inl (by decide)), by rw [clean_iff]; decide, Or.inr (by decide)⟩
example : HotSetting "INDEX".toList := ⟨"INDEX".toList, [], Or.inr (Or.inr (by decide)), clean_nil, Or.inl rfl⟩
example : (joinCol joinStrip (gormTag "size:10;not null".toList)).unique = false ∧
    (joinCol joinStrip (gormTag "size:10;not null".toList)).indexed = false :=
  joinCol_clean ["size:10".toList, "not null".toList] (by
    intro s hs
    simp only [List.mem_cons, List.not_mem_nil, or_false] at hs
    rcases hs with rfl | rfl <;> (rw [clean_iff]; decide))

end Gorm.Mig
