/-
  Lemmas about Model/MigrateJoin.lean: what `removeSettingFromTag(appendSettingFromTag(tag, "primaryKey"), "column",
  "autoincrement", "index", "unique", "uniqueindex")` guarantees for the join-table column of a many2many relation.
-/
import GormModel.Model.MigrateJoin
namespace Gorm.Mig

/-- `(?i)` occurrence of a lower-case literal anywhere in `s` -/
def ciOccurs (name : Str) : Str → Bool
  | [] => name.isEmpty
  | c :: cs => ciPrefix name (c :: cs) || ciOccurs name cs

/-- a setting text none of the five strip names (nor a second `gorm:`) can touch: no separator / quote, and no
    case-insensitive occurrence of `unique`, `index`, `column`, `autoincrement`, `gorm:` (`uniqueindex` contains `unique`) -/
def CleanSetting (s : Str) : Prop :=
  ';' ∉ s ∧ '"' ∉ s ∧ ciOccurs "unique".toList s = false ∧ ciOccurs "index".toList s = false ∧
  ciOccurs "column".toList s = false ∧ ciOccurs "autoincrement".toList s = false ∧ ciOccurs "gorm:".toList s = false

/-- a uniqueness / index bearing setting `unique`, `uniqueIndex`, `index` in any letter case, bare or with a clean value -/
def HotSetting (h : Str) : Prop :=
  ∃ k w, (lower k = "unique".toList ∨ lower k = "uniqueindex".toList ∨ lower k = "index".toList) ∧
    CleanSetting w ∧ (h = k ∨ h = k ++ ':' :: w)

end Gorm.Mig
