/-
  Lemmas.SchemaCacheInv — the inductive invariant of the schema-cache LTS and its frame rule.
-/
import GormModel.Model.SchemaCache
namespace Gorm.SchemaCache

theorem upd_ne {α : Type} (f : Nat → α) (k : Nat) (v : α) (i : Nat) (h : i ≠ k) : upd f k v i = f i := by
  simp [upd, h]

/-- hypothesis = negation of the F10/F12 pattern: no relation field points to a DIFFERENT model type -/
def OnlySelfRels (c : Cfg) : Prop := ∀ ty, ∀ r ∈ relsOf c ty, r.target = ty

def ownerPc : PC → Bool
  | .rel _ => true
  | .relSet _ _ => true
  | .fin1 => true
  | .fin2 => true
  | _ => false

/-- `o` is the live (unclosed) object of the activation of thread `t` at call depth `d`, parsing type `ty` -/
structure Own (s : State) (t d ty o : Nat) : Prop where
  lt : o < s.nobj
  ownT : (s.objs o).ownT = t
  ownD : (s.objs o).ownD = d
  ty : (s.objs o).ty = ty
  opn : (s.objs o).closed = false

/-- published, error free, `k` relations set -/
structure OwnK (s : State) (t d ty o k : Nat) : Prop where
  own : Own s t d ty o
  stamped : (s.objs o).stamp ≠ 0
  cached : s.cache ty = some o
  noerr : (s.objs o).err = false
  nrel : (s.objs o).nrel = k

def Below (s : State) (l : List Susp) (o : Nat) : Prop :=
  ∀ p ∈ l, (s.objs p.obj).stamp < (s.objs o).stamp

def PreMono (s : State) (l : List Susp) (ty : Nat) : Prop :=
  ∀ o, s.cache ty = some o → Below s l o

/-- unpublished own object -/
structure Pre (s : State) (t d ty o : Nat) : Prop where
  own : Own s t d ty o
  unstamped : (s.objs o).stamp = 0
  noerr : (s.objs o).err = false
  nrel : (s.objs o).nrel = 0

def PcOK (c : Cfg) (s : State) (t : Nat) (l : List Susp) (ty obj : Nat) : PC → Prop
  | .load1 => PreMono s l ty
  | .tableName => PreMono s l ty
  | .load2 => PreMono s l ty ∧ Pre s t l.length ty obj
  | .los => PreMono s l ty ∧ Pre s t l.length ty obj
  | .wait o => o < s.nobj ∧ (s.objs o).stamp ≠ 0 ∧ (s.objs o).ty = ty ∧ Below s l o
  | .rel k => OwnK s t l.length ty obj k ∧ k ≤ (relsOf c ty).length
  | .relSet k fs => OwnK s t l.length ty obj k ∧ k < (relsOf c ty).length ∧ (OnlySelfRels c → fs = obj)
  | .fin1 => Own s t l.length ty obj ∧ (s.objs obj).stamp ≠ 0 ∧ s.cache ty = some obj ∧
      ((s.objs obj).err = true ∨ (s.objs obj).nrel = (relsOf c ty).length)
  | .fin2 => Own s t l.length ty obj ∧ (s.objs obj).stamp ≠ 0 ∧
      ((s.objs obj).err = true ∨ (s.cache ty = some obj ∧ (s.objs obj).nrel = (relsOf c ty).length))

def SuspOK (c : Cfg) (s : State) (t d : Nat) (p : Susp) : Prop :=
  OwnK s t d p.ty p.obj p.k ∧ p.k < (relsOf c p.ty).length

def SuspsOK (c : Cfg) (s : State) (t : Nat) : List Susp → Prop
  | [] => True
  | p :: rest => SuspOK c s t rest.length p ∧ SuspsOK c s t rest

structure ThreadOK (c : Cfg) (s : State) (t : Nat) (th : Thread) : Prop where
  susp : SuspsOK c s t th.susp
  cur : ∀ f, th.cur = some f → PcOK c s t th.susp f.ty f.obj f.pc
  idle : th.cur = none → th.susp = []
  noSusp : OnlySelfRels c → th.susp = []

def Owns (th : Thread) (o : Nat) : Prop :=
  (∃ f, th.cur = some f ∧ f.obj = o ∧ ownerPc f.pc = true) ∨ (∃ p ∈ th.susp, p.obj = o)

structure RetOK (c : Cfg) (s : State) (r : Ret) : Prop where
  car : r.closedAtRet = true
  lt : r.obj < s.nobj
  closed : (s.objs r.obj).closed = true
  ok : r.err = false → (s.objs r.obj).err = false ∧ (s.objs r.obj).stamp ≠ 0 ∧ (s.objs r.obj).ty = r.ty ∧
    r.nrelAtRet = (relsOf c r.ty).length

/-- a logged getOrParse cache hit: the object was published, has the type of the relation's target, and under
  `OnlySelfRels` it is the getter's own object -/
structure GetOK (c : Cfg) (s : State) (g : Get) : Prop where
  lt : g.obj < s.nobj
  stamped : (s.objs g.obj).stamp ≠ 0
  ty : ∃ r, (relsOf c g.ty)[g.k]? = some r ∧ (s.objs g.obj).ty = r.target
  own : OnlySelfRels c → (s.objs g.obj).ownT = g.tid

structure Inv (c : Cfg) (s : State) : Prop where
  clock_pos : 1 ≤ s.clock
  stamp_lt : ∀ o, o < s.nobj → (s.objs o).stamp < s.clock
  cache_ok : ∀ ty o, s.cache ty = some o → o < s.nobj ∧ (s.objs o).stamp ≠ 0 ∧ (s.objs o).ty = ty
  closed_ok : ∀ o, o < s.nobj → (s.objs o).closed = true → (s.objs o).err = false → (s.objs o).stamp ≠ 0 →
    s.cache (s.objs o).ty = some o ∧ (s.objs o).nrel = (relsOf c (s.objs o).ty).length
  thr : ∀ t, ThreadOK c s t (s.thr t)
  owner : ∀ o, o < s.nobj → (s.objs o).stamp ≠ 0 → (s.objs o).closed = false → Owns (s.thr (s.objs o).ownT) o
  rets : ∀ r ∈ s.rets, RetOK c s r
  gets : ∀ g ∈ s.gets, GetOK c s g
  backs : OnlySelfRels c → ∀ o, (s.objs o).backs = []

/-- how one step may change the heap; `X` = objects whose core fields / cache entry the step touches -/
structure HeapRel (s s' : State) (X : List Nat) : Prop where
  nobj_le : s.nobj ≤ s'.nobj
  clock_le : s.clock ≤ s'.clock
  fresh : ∀ o, s.nobj ≤ o → o < s'.nobj → (s'.objs o).stamp = 0 ∧ (s'.objs o).closed = false
  ty : ∀ o, o < s.nobj → (s'.objs o).ty = (s.objs o).ty
  ownT : ∀ o, o < s.nobj → (s'.objs o).ownT = (s.objs o).ownT
  ownD : ∀ o, o < s.nobj → (s'.objs o).ownD = (s.objs o).ownD
  stamp : ∀ o, o < s.nobj → (s'.objs o).stamp = (s.objs o).stamp ∨
    ((s.objs o).stamp = 0 ∧ (s'.objs o).stamp = s.clock ∧ s.clock < s'.clock)
  core : ∀ o, o < s.nobj → o ∉ X → (s'.objs o).closed = (s.objs o).closed ∧ (s'.objs o).err = (s.objs o).err ∧
    (s'.objs o).nrel = (s.objs o).nrel ∧ (s'.objs o).stamp = (s.objs o).stamp
  cache_keep : ∀ ty o, s.cache ty = some o → o ∉ X → s'.cache ty = some o
  cache_new : ∀ ty o, s'.cache ty = some o → s.cache ty = some o ∨
    (o < s.nobj ∧ (s'.objs o).stamp = s.clock ∧ (s.objs o).ty = ty)

theorem HeapRel.pure {s s' : State} (h1 : s'.nobj = s.nobj) (h2 : s'.objs = s.objs) (h3 : s'.cache = s.cache)
    (h4 : s'.clock = s.clock) : HeapRel s s' [] := by
  refine ⟨by omega, by omega, ?_, ?_, ?_, ?_, ?_, ?_, ?_, ?_⟩
  · intro o h5 h6; omega
  · intro o _; rw [h2]
  · intro o _; rw [h2]
  · intro o _; rw [h2]
  · intro o _; rw [h2]; exact Or.inl rfl
  · intro o _ _; rw [h2]; exact ⟨rfl, rfl, rfl, rfl⟩
  · intro ty o h _; rw [h3]; exact h
  · intro ty o h; rw [h3] at h; exact Or.inl h

theorem HeapRel.stamp_eq {s s' : State} {X} (hR : HeapRel s s' X) {o : Nat} (h : o < s.nobj)
    (h0 : (s.objs o).stamp ≠ 0) : (s'.objs o).stamp = (s.objs o).stamp := by
  rcases hR.stamp o h with h | h
  · exact h
  · exact absurd h.1 h0

theorem Own.frame {s s' : State} {X t d ty o} (h : Own s t d ty o) (hR : HeapRel s s' X) (hx : o ∉ X) :
    Own s' t d ty o := by
  have hc := hR.core o h.lt hx
  exact ⟨Nat.lt_of_lt_of_le h.lt hR.nobj_le, by rw [hR.ownT o h.lt, h.ownT], by rw [hR.ownD o h.lt, h.ownD],
    by rw [hR.ty o h.lt, h.ty], by rw [hc.1, h.opn]⟩

theorem OwnK.frame {s s' : State} {X t d ty o k} (h : OwnK s t d ty o k) (hR : HeapRel s s' X) (hx : o ∉ X) :
    OwnK s' t d ty o k := by
  have hc := hR.core o h.own.lt hx
  exact ⟨h.own.frame hR hx, by rw [hc.2.2.2]; exact h.stamped, hR.cache_keep _ _ h.cached hx,
    by rw [hc.2.1, h.noerr], by rw [hc.2.2.1, h.nrel]⟩

theorem Pre.frame {s s' : State} {X t d ty o} (h : Pre s t d ty o) (hR : HeapRel s s' X) (hx : o ∉ X) :
    Pre s' t d ty o := by
  have hc := hR.core o h.own.lt hx
  exact ⟨h.own.frame hR hx, by rw [hc.2.2.2]; exact h.unstamped, by rw [hc.2.1, h.noerr], by rw [hc.2.2.1, h.nrel]⟩

theorem SuspsOK.frame {c : Cfg} {s s' : State} {X t} (hR : HeapRel s s' X) :
    ∀ l : List Susp, (∀ x ∈ X, x < s.nobj → (s.objs x).ownT = t → l.length ≤ (s.objs x).ownD) →
      SuspsOK c s t l → SuspsOK c s' t l
  | [], _, _ => trivial
  | p :: rest, hX, h => by
    obtain ⟨⟨hk, hlen⟩, hrest⟩ := h
    have hx : p.obj ∉ X := by
      intro hm
      have := hX _ hm hk.own.lt hk.own.ownT
      rw [hk.own.ownD] at this
      simp at this
      omega
    refine ⟨⟨hk.frame hR hx, hlen⟩, SuspsOK.frame hR rest ?_ hrest⟩
    intro x hm h1 h2
    have := hX x hm h1 h2
    simp at this
    omega

theorem SuspsOK.mem {c : Cfg} {s : State} {t} : ∀ {l : List Susp}, SuspsOK c s t l → ∀ p ∈ l,
    p.obj < s.nobj ∧ (s.objs p.obj).stamp ≠ 0
  | [], _, p, hp => by simp at hp
  | q :: rest, h, p, hp => by
    rcases List.mem_cons.1 hp with rfl | hp
    · exact ⟨h.1.1.own.lt, h.1.1.stamped⟩
    · exact SuspsOK.mem h.2 p hp

theorem Below.frame {c : Cfg} {s s' : State} {X t l o} (_hI : Inv c s) (hR : HeapRel s s' X)
    (hS : SuspsOK c s t l) (ho : o < s.nobj) (hst : (s.objs o).stamp ≠ 0) (h : Below s l o) : Below s' l o := by
  intro p hp
  have := SuspsOK.mem hS p hp
  rw [hR.stamp_eq this.1 this.2, hR.stamp_eq ho hst]
  exact h p hp

theorem PreMono.frame {c : Cfg} {s s' : State} {X t l ty} (hI : Inv c s) (hR : HeapRel s s' X)
    (hS : SuspsOK c s t l) (h : PreMono s l ty) : PreMono s' l ty := by
  intro o ho
  rcases hR.cache_new ty o ho with h1 | ⟨h1, h2, _⟩
  · have := hI.cache_ok ty o h1
    exact Below.frame hI hR hS this.1 this.2.1 (h o h1)
  · intro p hp
    have := SuspsOK.mem hS p hp
    rw [hR.stamp_eq this.1 this.2, h2]
    exact hI.stamp_lt _ this.1

theorem PcOK.frame {c : Cfg} {s s' : State} {X t l ty obj pc} (hI : Inv c s) (hR : HeapRel s s' X)
    (hS : SuspsOK c s t l)
    (hX : ∀ x ∈ X, x < s.nobj → (s.objs x).ownT = t → (s.objs x).ownD ≠ l.length)
    (h : PcOK c s t l ty obj pc) : PcOK c s' t l ty obj pc := by
  have key : ∀ {d}, Own s t l.length d obj → obj ∉ X := by
    intro d ho hm
    exact hX _ hm ho.lt ho.ownT ho.ownD
  cases pc with
  | load1 => exact PreMono.frame hI hR hS h
  | tableName => exact PreMono.frame hI hR hS h
  | load2 => exact ⟨PreMono.frame hI hR hS h.1, h.2.frame hR (key h.2.own)⟩
  | los => exact ⟨PreMono.frame hI hR hS h.1, h.2.frame hR (key h.2.own)⟩
  | wait o =>
    obtain ⟨h1, h2, h3, h4⟩ := h
    exact ⟨Nat.lt_of_lt_of_le h1 hR.nobj_le, by rw [hR.stamp_eq h1 h2]; exact h2, by rw [hR.ty o h1, h3],
      Below.frame hI hR hS h1 h2 h4⟩
  | rel k => exact ⟨h.1.frame hR (key h.1.own), h.2⟩
  | relSet k fs => exact ⟨h.1.frame hR (key h.1.own), h.2⟩
  | fin1 =>
    obtain ⟨h1, h2, h3, h4⟩ := h
    have hx := key h1
    have hc := hR.core obj h1.lt hx
    refine ⟨h1.frame hR hx, by rw [hc.2.2.2]; exact h2, hR.cache_keep _ _ h3 hx, ?_⟩
    rw [hc.2.1, hc.2.2.1]; exact h4
  | fin2 =>
    obtain ⟨h1, h2, h4⟩ := h
    have hx := key h1
    have hc := hR.core obj h1.lt hx
    refine ⟨h1.frame hR hx, by rw [hc.2.2.2]; exact h2, ?_⟩
    rw [hc.2.1, hc.2.2.1]
    rcases h4 with h4 | ⟨h4, h5⟩
    · exact Or.inl h4
    · exact Or.inr ⟨hR.cache_keep _ _ h4 hx, h5⟩

theorem ThreadOK.frame {c : Cfg} {s s' : State} {X t th} (hI : Inv c s) (hR : HeapRel s s' X)
    (hX : ∀ x ∈ X, x < s.nobj → (s.objs x).ownT ≠ t) (h : ThreadOK c s t th) : ThreadOK c s' t th := by
  refine ⟨SuspsOK.frame hR _ (fun x hm h1 h2 => absurd h2 (hX x hm h1)) h.susp, ?_, h.idle, h.noSusp⟩
  intro f hf
  exact PcOK.frame hI hR h.susp (fun x hm h1 h2 => absurd h2 (hX x hm h1)) (h.cur f hf)

theorem RetOK.frame {c : Cfg} {s s' : State} {X r} (hR : HeapRel s s' X) (hx : r.obj ∉ X) (h : RetOK c s r) :
    RetOK c s' r := by
  have hc := hR.core _ h.lt hx
  refine ⟨h.car, Nat.lt_of_lt_of_le h.lt hR.nobj_le, by rw [hc.1, h.closed], ?_⟩
  intro he
  rw [hc.2.1, hc.2.2.2, hR.ty _ h.lt]
  exact h.ok he

theorem GetOK.frame {c : Cfg} {s s' : State} {X g} (hR : HeapRel s s' X) (h : GetOK c s g) : GetOK c s' g := by
  refine ⟨Nat.lt_of_lt_of_le h.lt hR.nobj_le, by rw [hR.stamp_eq h.lt h.stamped]; exact h.stamped, ?_, ?_⟩
  · rw [hR.ty _ h.lt]; exact h.ty
  · rw [hR.ownT _ h.lt]; exact h.own

/-- the frame rule: everything not belonging to the acting thread `t` is preserved -/
theorem Inv.frame {c : Cfg} {s s' : State} {X : List Nat} {t : Nat} (hI : Inv c s) (hR : HeapRel s s' X)
    (hX : ∀ x ∈ X, x < s.nobj ∧ (s.objs x).closed = false ∧ (s.objs x).ownT = t)
    (hthr : ∀ t', t' ≠ t → s'.thr t' = s.thr t')
    (hT : ThreadOK c s' t (s'.thr t))
    (hXc : ∀ x ∈ X, (s'.objs x).closed = true → (s'.objs x).err = false → (s'.objs x).stamp ≠ 0 →
      s'.cache (s'.objs x).ty = some x ∧ (s'.objs x).nrel = (relsOf c (s'.objs x).ty).length)
    (hOwn : ∀ o, o ∉ X → Owns (s.thr t) o → Owns (s'.thr t) o)
    (hOwnX : ∀ x ∈ X, (s'.objs x).stamp ≠ 0 → (s'.objs x).closed = false → Owns (s'.thr t) x)
    (hrets : ∀ r ∈ s'.rets, r ∈ s.rets ∨ RetOK c s' r)
    (hgets : ∀ g ∈ s'.gets, g ∈ s.gets ∨ GetOK c s' g)
    (hB : OnlySelfRels c → (∀ o, (s.objs o).backs = []) → ∀ o, (s'.objs o).backs = []) : Inv c s' := by
  refine ⟨Nat.le_trans hI.clock_pos hR.clock_le, ?_, ?_, ?_, ?_, ?_, ?_, ?_, fun hs => hB hs (hI.backs hs)⟩
  · intro o ho
    by_cases h : o < s.nobj
    · have := hI.stamp_lt o h
      have := hR.clock_le
      rcases hR.stamp o h with h1 | ⟨_, h1, h2⟩ <;> omega
    · have := hR.fresh o (by omega) ho
      have := hI.clock_pos
      have := hR.clock_le
      omega
  · intro ty o ho
    have hcp := hI.clock_pos
    rcases hR.cache_new ty o ho with h1 | ⟨h1, h2, h3⟩
    · have := hI.cache_ok ty o h1
      exact ⟨Nat.lt_of_lt_of_le this.1 hR.nobj_le, by rw [hR.stamp_eq this.1 this.2.1]; exact this.2.1,
        by rw [hR.ty o this.1]; exact this.2.2⟩
    · exact ⟨Nat.lt_of_lt_of_le h1 hR.nobj_le, by omega, by rw [hR.ty o h1]; exact h3⟩
  · intro o ho h1 h2 h3
    by_cases h : o < s.nobj
    · by_cases hx : o ∈ X
      · exact hXc o hx h1 h2 h3
      · have hc := hR.core o h hx
        rw [hc.1] at h1; rw [hc.2.1] at h2; rw [hc.2.2.2] at h3
        have := hI.closed_ok o h h1 h2 h3
        rw [hR.ty o h, hc.2.2.1]
        exact ⟨hR.cache_keep _ _ this.1 hx, this.2⟩
    · have := hR.fresh o (by omega) ho
      rw [this.2] at h1; cases h1
  · intro t'
    by_cases ht : t' = t
    · subst ht; exact hT
    · rw [hthr t' ht]
      exact ThreadOK.frame hI hR (fun x hm _ h2 => ht (by rw [← h2, (hX x hm).2.2])) (hI.thr t')
  · intro o ho h1 h2
    by_cases h : o < s.nobj
    · rw [hR.ownT o h]
      by_cases hx : o ∈ X
      · rw [(hX o hx).2.2]; exact hOwnX o hx h1 h2
      · have hc := hR.core o h hx
        rw [hc.2.2.2] at h1; rw [hc.1] at h2
        have := hI.owner o h h1 h2
        by_cases ht : (s.objs o).ownT = t
        · rw [ht] at this ⊢; exact hOwn o hx this
        · rw [hthr _ ht]; exact this
    · have := hR.fresh o (by omega) ho
      exact absurd this.1 h1
  · intro r hr
    rcases hrets r hr with h | h
    · have hro := hI.rets r h
      refine hro.frame hR ?_
      intro hm
      have := (hX _ hm).2.1
      rw [hro.closed] at this; cases this
    · exact h
  · intro g hg
    rcases hgets g hg with h | h
    · exact (hI.gets g h).frame hR
    · exact h

end Gorm.SchemaCache
