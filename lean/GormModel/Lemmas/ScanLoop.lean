/-
  Lemmas for Model/ScanLoop.lean: the `for … rows.Next()` loops over a cursor that fails after k rows,
  association-list maps (`recSet` / `recGet`), `scanIntoMap` and `scanIntoStruct`.
-/
import GormModel.Model.ScanLoop
namespace Gorm.ScanLoop

/-! ### the loops -/

theorem loopG_rows {α : Type} (body : α → SRow → α) (rs : List SRow) (tail : List Ev) (a : α) (ra : Nat) :
    loopG body (rs.map Ev.row ++ tail) a ra = loopG body tail (rs.foldl body a) (ra + rs.length) := by
  induction rs generalizing a ra with
  | nil => simp
  | cons r rs ih =>
    simp only [List.map_cons, List.cons_append, loopG, List.foldl_cons, List.length_cons]
    rw [ih]; congr 1; omega

theorem delivered_of_not_reached (rows : List SRow) (k : Nat) (h : ¬ k ≤ rows.length) : rows.take k = rows :=
  List.take_of_length_le (by omega)

/-- the generic loop on a cursor that fails after k rows: it folds exactly the rows delivered before the fault,
    counts them, and leaves `rows.Err()` set iff the fault was reached -/
theorem loopG_mkCursor {α : Type} (body : α → SRow → α) (rows : List SRow) (f : Option Nat) (a : α) (ra : Nat) :
    (loopG body (mkCursor rows f) a ra).acc = (delivered rows f).foldl body a
    ∧ (loopG body (mkCursor rows f) a ra).ra = ra + (delivered rows f).length
    ∧ (loopG body (mkCursor rows f) a ra).err = faultReached rows f := by
  cases f with
  | none =>
    have h := loopG_rows body rows [] a ra
    simp only [List.append_nil] at h
    simp [mkCursor, delivered, faultReached, h, loopG]
  | some k =>
    by_cases hk : k ≤ rows.length
    · simp only [mkCursor, hk, if_true, delivered, faultReached, decide_true]
      rw [loopG_rows]
      simp [loopG]
    · have h := loopG_rows body rows [] a ra
      simp only [List.append_nil] at h
      simp only [mkCursor, hk, if_false, delivered, faultReached, decide_false, h, delivered_of_not_reached rows k hk]
      simp [loopG]

theorem foldl_append_singleton {β : Type} (g : SRow → β) (rs : List SRow) (acc : List β) :
    rs.foldl (fun acc r => acc ++ [g r]) acc = acc ++ rs.map g := by
  induction rs generalizing acc with
  | nil => simp
  | cons r rs ih => simp [ih]

/-- no fault reached ⇒ every row was delivered -/
theorem delivered_all_of_not_reached (rows : List SRow) (f : Option Nat) (h : faultReached rows f = false) :
    delivered rows f = rows := by
  cases f with
  | none => rfl
  | some k =>
    simp only [faultReached, decide_eq_false_iff_not] at h
    exact delivered_of_not_reached rows k h

theorem delivered_length_le (rows : List SRow) (f : Option Nat) : (delivered rows f).length ≤ rows.length := by
  cases f with
  | none => simp [delivered]
  | some k => simp [delivered, List.length_take]; omega

/-- normal form of the cursor: the rows delivered before the fault, then `fail` iff the fault is reached -/
theorem mkCursor_eq (rows : List SRow) (f : Option Nat) :
    mkCursor rows f = (delivered rows f).map Ev.row ++ (if faultReached rows f then [Ev.fail] else []) := by
  cases f with
  | none => simp [mkCursor, delivered, faultReached]
  | some k =>
    by_cases hk : k ≤ rows.length
    · simp [mkCursor, delivered, faultReached, hk]
    · simp [mkCursor, delivered, faultReached, hk, delivered_of_not_reached rows k hk]

/-! ### association lists -/

theorem recGet_recSet_same (m : Rec) (k : String) (v : Cell) : recGet (recSet m k v) k = some v := by
  induction m with
  | nil => simp [recSet, recGet]
  | cons p t ih =>
    obtain ⟨k', v'⟩ := p
    simp only [recSet]
    by_cases h : k' = k
    · simp [h, recGet]
    · simp [h, recGet, ih]

theorem recGet_recSet_other (m : Rec) (k c : String) (v : Cell) (h : c ≠ k) :
    recGet (recSet m k v) c = recGet m c := by
  induction m with
  | nil => simp [recSet, recGet, Ne.symm h]
  | cons p t ih =>
    obtain ⟨k', v'⟩ := p
    simp only [recSet]
    by_cases hk : k' = k
    · subst hk; simp [recGet, Ne.symm h]
    · simp only [hk, if_false, recGet]
      by_cases hc : k' = c
      · simp [hc]
      · simp [hc, ih]

/-! ### scanIntoMap -/

theorem scanIntoMap_cons (m : Rec) (c : String) (cs : List String) (v : Cell) (vs : SRow) :
    scanIntoMap m (c :: cs) (v :: vs) = scanIntoMap (recSet m c v) cs vs := by
  cases v <;> rfl

/-- a key that is not a result column is left alone (a pre-populated map keeps its other entries) -/
theorem scanIntoMap_get_other (m : Rec) (cols : List String) (r : SRow) (k : String) (h : k ∉ cols) :
    recGet (scanIntoMap m cols r) k = recGet m k := by
  induction cols generalizing m r with
  | nil => cases r <;> rfl
  | cons c cs ih =>
    cases r with
    | nil => rfl
    | cons v vs =>
      rw [scanIntoMap_cons, ih _ _ (fun hk => h (List.mem_cons_of_mem _ hk))]
      exact recGet_recSet_other _ _ _ _ (fun e => h (e ▸ List.mem_cons_self))

/-- every result column is ASSIGNED — present as a key afterwards, holding the cell of this row, NULL included —
    whatever the map held before -/
theorem scanIntoMap_get (m : Rec) (cols : List String) (r : SRow) (hn : cols.Nodup)
    (c : String) (v : Cell) (h : (c, v) ∈ cols.zip r) : recGet (scanIntoMap m cols r) c = some v := by
  induction cols generalizing m r with
  | nil => simp at h
  | cons c0 cs ih =>
    cases r with
    | nil => simp at h
    | cons v0 vs =>
      rw [scanIntoMap_cons]
      rw [List.nodup_cons] at hn
      simp only [List.zip_cons_cons, List.mem_cons, Prod.mk.injEq] at h
      rcases h with ⟨rfl, rfl⟩ | h
      · rw [scanIntoMap_get_other _ _ _ _ hn.1]; exact recGet_recSet_same _ _ _
      · exact ih _ _ hn.2 h

/-! ### scanIntoStruct -/

theorem recGet_zeroRec (sch : Schema) (c : String) (f : FieldSpec) (h : sch.field? c = some f) :
    recGet (zeroRec sch) c = some f.zero := by
  induction sch with
  | nil => simp [Schema.field?] at h
  | cons g sch ih =>
    simp only [Schema.field?, List.find?_cons] at h
    by_cases hg : g.name = c
    · simp [hg] at h; subst h; simp [zeroRec, recGet, hg]
    · simp [hg] at h
      simp only [zeroRec, List.map_cons, recGet, hg, if_false]
      exact ih h

theorem scanIntoStruct_get_other (sch : Schema) (s : Rec) (cols : List String) (r : SRow) (k : String)
    (h : k ∉ cols) : recGet (scanIntoStruct sch s cols r) k = recGet s k := by
  induction cols generalizing s r with
  | nil => cases r <;> rfl
  | cons c cs ih =>
    cases r with
    | nil => rfl
    | cons v vs =>
      have hk : k ∉ cs := fun hk => h (List.mem_cons_of_mem _ hk)
      have hne : k ≠ c := fun e => h (e ▸ List.mem_cons_self)
      simp only [scanIntoStruct]
      cases hf : sch.field? c with
      | none => simp only []; exact ih _ _ hk
      | some f => simp only []; rw [ih _ _ hk]; exact recGet_recSet_other _ _ _ _ hne

/-- a selected column with a readable field: the field holds `fieldSet f old cell` afterwards -/
theorem scanIntoStruct_get (sch : Schema) (s : Rec) (cols : List String) (r : SRow) (hn : cols.Nodup)
    (c : String) (v : Cell) (f : FieldSpec) (hf : sch.field? c = some f) (h : (c, v) ∈ cols.zip r) :
    recGet (scanIntoStruct sch s cols r) c = some (fieldSet f ((recGet s c).getD f.zero) v) := by
  induction cols generalizing s r with
  | nil => simp at h
  | cons c0 cs ih =>
    cases r with
    | nil => simp at h
    | cons v0 vs =>
      rw [List.nodup_cons] at hn
      simp only [List.zip_cons_cons, List.mem_cons, Prod.mk.injEq] at h
      rcases h with ⟨rfl, rfl⟩ | h
      · simp only [scanIntoStruct, hf]
        rw [scanIntoStruct_get_other _ _ _ _ _ hn.1]; exact recGet_recSet_same _ _ _
      · have hne : c ≠ c0 := fun e => hn.1 (e ▸ (List.of_mem_zip h).1)
        simp only [scanIntoStruct]
        cases hf0 : sch.field? c0 with
        | none => simp only []; exact ih _ _ hn.2 h
        | some f0 =>
          simp only []
          rw [ih _ _ hn.2 h, recGet_recSet_other _ _ _ _ hne]

/-! ### the streaming loop with one reused destination -/

/-- the snapshots `for rows.Next() { ScanRows(rows, &d) }` takes of ONE destination over the rows `rs` -/
def snapsOf (cols : List String) : Dest → List SRow → List Dest
  | _, [] => []
  | d, r :: rs => scanRow1 cols d r :: snapsOf cols (scanRow1 cols d r) rs

theorem rowsLoop_rows (cols : List String) (rs : List SRow) (tail : List Ev) (d : Dest) (acc : List Dest) :
    rowsLoop cols (rs.map Ev.row ++ tail) d acc
      = rowsLoop cols tail ((snapsOf cols d rs).getLast?.getD d) (acc ++ snapsOf cols d rs) := by
  induction rs generalizing d acc with
  | nil => simp [snapsOf]
  | cons r rs ih =>
    simp only [List.map_cons, List.cons_append, rowsLoop, snapsOf]
    rw [ih, List.append_assoc]
    congr 1
    cases h : snapsOf cols (scanRow1 cols d r) rs with
    | nil => simp
    | cons x xs => simp [List.getLast?_cons]

theorem rowsLoop_mkCursor (cols : List String) (rows : List SRow) (f : Option Nat) (d : Dest) :
    rowsLoop cols (mkCursor rows f) d [] = (snapsOf cols d (delivered rows f), faultReached rows f) := by
  cases f with
  | none =>
    have h := rowsLoop_rows cols rows [] d []
    simp only [List.append_nil, List.nil_append] at h
    simp [mkCursor, delivered, faultReached, h, rowsLoop]
  | some k =>
    by_cases hk : k ≤ rows.length
    · simp only [mkCursor, hk, if_true, delivered, faultReached, decide_true]
      rw [rowsLoop_rows]; simp [rowsLoop]
    · have h := rowsLoop_rows cols rows [] d []
      simp only [List.append_nil, List.nil_append] at h
      simp only [mkCursor, hk, if_false, delivered, faultReached, decide_false, h, delivered_of_not_reached rows k hk]
      simp [rowsLoop]

theorem snapsOf_length (cols : List String) (d : Dest) (rs : List SRow) : (snapsOf cols d rs).length = rs.length := by
  induction rs generalizing d with
  | nil => rfl
  | cons r rs ih => simp [snapsOf, ih]

/-- one reused map: the i-th snapshot reports the i-th row on every result column, whatever earlier rows left behind -/
theorem snapsOf_map_reports (cols : List String) (hn : cols.Nodup) (m : Rec) (rs : List SRow)
    (i : Nat) (hi : i < rs.length) :
    ∃ mi, (snapsOf cols (.map1 m) rs)[i]? = some (Dest.map1 mi)
      ∧ ∀ c v, (c, v) ∈ cols.zip rs[i] → recGet mi c = some v := by
  induction rs generalizing m i with
  | nil => simp at hi
  | cons r rs ih =>
    cases i with
    | zero => exact ⟨_, by simp [snapsOf, scanRow1], fun c v h => scanIntoMap_get m cols r hn c v (by simpa using h)⟩
    | succ i =>
      obtain ⟨mi, h1, h2⟩ := ih (scanIntoMap m cols r) i (by simpa using hi)
      exact ⟨mi, by simpa [snapsOf, scanRow1] using h1, by simpa using h2⟩

/-- one reused struct: `ScanRows` zeroes it first, so every snapshot is what a fresh struct would hold -/
theorem snapsOf_struct_fresh (cols : List String) (sch : Schema) (v : Rec) (rs : List SRow) :
    snapsOf cols (.struct1 sch v) rs = rs.map (fun r => Dest.struct1 sch (scanIntoStruct sch (zeroRec sch) cols r)) := by
  induction rs generalizing v with
  | nil => rfl
  | cons r rs ih => simp only [snapsOf, scanRow1, List.map_cons]; rw [ih]

end Gorm.ScanLoop
