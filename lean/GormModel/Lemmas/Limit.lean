import GormModel.Model.Limit
import GormModel.Lemmas.ListExtra
namespace Gorm

theorem applyCalls_snoc (st : Option Limit) (cs : List LimCall) (c : LimCall) :
    applyCalls st (cs ++ [c]) = some (c.toLimit.merge (applyCalls st cs)) := by
  simp [applyCalls, List.foldl_append]

theorem lastNZLimit_snoc (cs : List LimCall) (c : LimCall) :
    lastNZLimit (cs ++ [c]) = (match c with
      | .limit n => if n ≠ 0 then some n else lastNZLimit cs
      | .offset _ => lastNZLimit cs) := by
  simp [lastNZLimit, List.foldl_append]; cases c <;> rfl

theorem lastNZOffset_snoc (cs : List LimCall) (c : LimCall) :
    lastNZOffset (cs ++ [c]) = (match c with
      | .offset n => if n ≠ 0 then some n else lastNZOffset cs
      | .limit _ => lastNZOffset cs) := by
  simp [lastNZOffset, List.foldl_append]; cases c <;> rfl

theorem hasLimitCall_snoc (cs : List LimCall) (c : LimCall) :
    hasLimitCall (cs ++ [c]) = (hasLimitCall cs || match c with | .limit _ => true | .offset _ => false) := by
  simp [hasLimitCall, List.any_append]; cases c <;> rfl

/-- raw invariant on the stored `limit` field -/
def rawLimit (cs : List LimCall) : Option Int :=
  match lastNZLimit cs with
  | some n => some n
  | none => if hasLimitCall cs then some 0 else none

theorem raw_limit_inv (cs : List LimCall) :
    (applyCalls none cs).bind (·.limit) = rawLimit cs := by
  induction cs using snoc_induction with
  | nil => simp [applyCalls, rawLimit, lastNZLimit, hasLimitCall]
  | snoc cs c ih =>
    rw [applyCalls_snoc]
    simp only [rawLimit, lastNZLimit_snoc, hasLimitCall_snoc] at *
    cases hst : applyCalls none cs with
    | none =>
      rw [hst] at ih
      cases c with
      | limit n =>
        simp [Limit.merge, LimCall.toLimit]
        by_cases hn : n = 0
        · subst hn; simp at ih ⊢
          cases h1 : lastNZLimit cs <;> simp [h1] at ih ⊢
        · simp [hn]
      | offset n =>
        simp [Limit.merge, LimCall.toLimit]
        cases h1 : lastNZLimit cs <;> simp [h1] at ih ⊢
        · simpa using ih
    | some v =>
      rw [hst] at ih
      simp at ih
      cases c with
      | limit n =>
        simp [Limit.merge, LimCall.toLimit]
        by_cases hn : n = 0
        · subst hn; simp
          cases hv : v.limit with
          | none =>
            simp [hv] at ih ⊢
            cases h1 : lastNZLimit cs <;> simp [h1] at ih ⊢
          | some m =>
            simp [hv] at ih ⊢
            cases h1 : lastNZLimit cs <;> simp [h1] at ih ⊢
            · exact ih.2
            · exact ih
        · simp [hn]
      | offset n =>
        simp [Limit.merge, LimCall.toLimit]
        cases hv : v.limit with
        | none => simp [hv] at ih ⊢; exact ih
        | some m => simp [hv] at ih ⊢; exact ih

theorem limit_merge_limit (cs : List LimCall) :
    effLimitOf (applyCalls none cs) =
      match lastNZLimit cs with
      | some n => if n > 0 then some n else none
      | none => if hasLimitCall cs then some 0 else none := by
  have h := raw_limit_inv cs
  unfold rawLimit at h
  unfold effLimitOf
  cases hst : applyCalls none cs with
  | none =>
    rw [hst] at h; simp at h ⊢
    cases h1 : lastNZLimit cs <;> simp [h1] at h ⊢
    · simpa using h
  | some v =>
    rw [hst] at h; simp at h
    simp [Limit.effLimit, h]
    cases h1 : lastNZLimit cs with
    | none =>
      simp [h1] at h ⊢
      split at h <;> simp_all
    | some n =>
      simp [h1] at h ⊢
      have := lastNZ_ne_zero cs n h1
      by_cases h0 : 0 ≤ n <;> by_cases h2 : 0 < n <;> simp [h0, h2] <;> omega
where
  lastNZ_ne_zero (cs : List LimCall) (n : Int) (h : lastNZLimit cs = some n) : n ≠ 0 := by
    induction cs using snoc_induction generalizing n with
    | nil => simp [lastNZLimit] at h
    | snoc cs c ih =>
      rw [lastNZLimit_snoc] at h
      cases c with
      | limit m =>
        simp at h
        by_cases hm : m = 0
        · simp [hm] at h; exact ih n h
        · simp [hm] at h; omega
      | offset m => simp at h; exact ih n h

theorem lastNZOffset_ne_zero (cs : List LimCall) (n : Int) (h : lastNZOffset cs = some n) : n ≠ 0 := by
  induction cs using snoc_induction generalizing n with
  | nil => simp [lastNZOffset] at h
  | snoc cs c ih =>
    rw [lastNZOffset_snoc] at h
    cases c with
    | offset m =>
      simp at h
      by_cases hm : m = 0
      · simp [hm] at h; exact ih n h
      · simp [hm] at h; omega
    | limit m => simp at h; exact ih n h

theorem limit_merge_offset (cs : List LimCall) :
    effOffsetOf (applyCalls none cs) =
      match lastNZOffset cs with
      | some n => if n > 0 then some n else none
      | none => none := by
  induction cs using snoc_induction with
  | nil => simp [applyCalls, effOffsetOf, lastNZOffset]
  | snoc cs c ih =>
    rw [applyCalls_snoc, lastNZOffset_snoc]
    unfold effOffsetOf at *
    cases hst : applyCalls none cs with
    | none =>
      rw [hst] at ih; simp at ih
      cases c with
      | limit n =>
        simp [Limit.merge, LimCall.toLimit, Limit.effOffset]
        cases h1 : lastNZOffset cs with
        | none => simp
        | some m => simp [h1] at ih; simp; omega
      | offset n =>
        simp [Limit.merge, LimCall.toLimit, Limit.effOffset]
        by_cases hn : n = 0
        · subst hn; simp
          cases h1 : lastNZOffset cs with
          | none => simp
          | some m => simp [h1] at ih; simp; omega
        · simp [hn]
    | some v =>
      rw [hst] at ih; simp [Limit.effOffset] at ih
      cases c with
      | limit n =>
        simp [Limit.merge, LimCall.toLimit, Limit.effOffset]
        by_cases hv : 0 < v.offset
        · simp [hv] at ih ⊢
          cases h1 : lastNZOffset cs with
          | none => simp [h1] at ih
          | some m =>
            simp [h1] at ih ⊢
            by_cases hm : 0 < m <;> simp [hm] at ih ⊢
            exact ih
        · simp [hv] at ih ⊢
          cases h1 : lastNZOffset cs with
          | none => simp
          | some m =>
            simp [h1] at ih ⊢; omega
      | offset n =>
        simp [Limit.merge, LimCall.toLimit, Limit.effOffset]
        by_cases hn : n = 0
        · subst hn; simp
          by_cases hv : 0 < v.offset
          · simp [hv] at ih ⊢
            cases h1 : lastNZOffset cs with
            | none => simp [h1] at ih
            | some m =>
              simp [h1] at ih ⊢
              by_cases hm : 0 < m <;> simp [hm] at ih ⊢
              exact ih
          · simp [hv] at ih ⊢
            cases h1 : lastNZOffset cs with
            | none => simp
            | some m => simp [h1] at ih ⊢; omega
        · simp [hn]
          by_cases hp : 0 < n
          · simp [hp]
            have : ¬ n < 0 := by omega
            simp [this, hp]
          · simp [hp]
            have : n < 0 := by omega
            simp [this]

end Gorm
