/-
  C07 (round 3): lemmas about `Model.StmtWait` — when both wait sites of `prepare` test `prepareErr`, the wrapper IS C14's LTS
  (so every C14 invariant transfers); when one does not, a waiter on a failed prepare leaves with a nil statement.
-/
import GormModel.Model.StmtWait
import GormModel.Lemmas.StmtCacheStep
import GormModel.Lemmas.StmtCacheInv
import GormModel.Lemmas.StmtCacheLeak
import GormModel.Lemmas.StmtCacheBroadcast
import GormModel.Lemmas.StmtCacheTransp
namespace Gorm.SW
open Gorm.SC

def allChecked : WCfg := { errFast := true, errDouble := true }

theorem checked_all (v : Via) : checked allChecked v = true := by cases v <;> rfl

theorem unchecked_all (w : WSt) (h : w.wcfg = allChecked) (t e : Nat) : unchecked w t e = false := by
  simp [unchecked, h, checked_all]

/-- with both sites checked a wrapper step is exactly a step of C14's LTS on the base state; the configuration is constant -/
theorem wact_base (w : WSt) (h : w.wcfg = allChecked) (x : Act) :
    (wact w x).map (·.base) = act w.base x ∧ ∀ w', wact w x = some w' → w'.wcfg = w.wcfg := by
  cases x with
  | thr t a =>
    simp only [wact, act]
    split
    · unfold wtstep
      split
      · constructor
        · simp [Option.map_map, Function.comp_def]
        · intro w' hw'
          simp only [Option.map_eq_some_iff] at hw'
          obtain ⟨b, _, rfl⟩ := hw'
          rfl
      · constructor
        · simp [Option.map_map, Function.comp_def]
        · intro w' hw'
          simp only [Option.map_eq_some_iff] at hw'
          obtain ⟨b, _, rfl⟩ := hw'
          rfl
      · rw [unchecked_all w h]
        constructor
        · simp [Option.map_map, Function.comp_def]
        · intro w' hw'
          simp only [Bool.false_eq_true, if_false, Option.map_eq_some_iff] at hw'
          obtain ⟨b, _, rfl⟩ := hw'
          rfl
      · constructor
        · simp [Option.map_map, Function.comp_def]
        · intro w' hw'
          simp only [Option.map_eq_some_iff] at hw'
          obtain ⟨b, _, rfl⟩ := hw'
          rfl
    · exact ⟨rfl, fun w' hw' => by cases hw'⟩
  | closeE e =>
    simp only [wact]
    constructor
    · simp [Option.map_map, Function.comp_def]
    · intro w' hw'
      simp only [Option.map_eq_some_iff] at hw'
      obtain ⟨b, _, rfl⟩ := hw'
      rfl
  | closeH e =>
    simp only [wact]
    constructor
    · simp [Option.map_map, Function.comp_def]
    · intro w' hw'
      simp only [Option.map_eq_some_iff] at hw'
      obtain ⟨b, _, rfl⟩ := hw'
      rfl

/-- REFINEMENT: with both wait sites checked, the wrapper's run projects onto C14's run for every schedule -/
theorem wrun_base (w : WSt) (h : w.wcfg = allChecked) (sched : List Act) : (wrun w sched).base = run w.base sched := by
  induction sched generalizing w with
  | nil => rfl
  | cons a rest ih =>
    simp only [wrun, run, List.foldl_cons]
    obtain ⟨h1, h2⟩ := wact_base w h a
    cases hw : wact w a with
    | none =>
      rw [hw] at h1
      have : act w.base a = none := by simpa using h1.symm
      rw [this]
      simpa [wrun, run] using ih w h
    | some w' =>
      rw [hw] at h1
      have : act w.base a = some w'.base := by simpa using h1.symm
      rw [this]
      have hc : w'.wcfg = allChecked := by rw [h2 w' hw]; exact h
      simpa [wrun, run] using ih w' hc

/-- C14's failure broadcast on the base LTS (same derivation as `C14_failure_broadcast`, from the invariants `Inv2` and `FB` of
    Lemmas/StmtCacheLeak + StmtCacheBroadcast): every returned operation that resolved to a failed entry returned `prepErr` -/
theorem failure_broadcast (ops : List Op) (nV : Nat) (cfg : Cfg) (sched : List Act) (hw : wfOps ops nV) (e : Nat) :
    let s := run (init ops nV cfg) sched
    e < s.nE → (s.entries e).err = true → ∀ t r, (s.threads t).ent = some e → result s t = some r → r = .prepErr := by
  intro s _ herr t r hent hres
  have h2 : Inv2 s := inv2_reachable ops nV cfg hw sched
  have hT := h2.1.1.1 t
  unfold result at hres
  split at hres
  next r' hpc =>
    have hr : r' = r := by simpa using hres
    rw [← hr]
    exact ((hT.2.2.2.2.2.2.2.2 r' hpc e hent).2.2).mp herr
  next => cases hres

end Gorm.SW
