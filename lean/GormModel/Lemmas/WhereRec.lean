/-
  The all-depth statement for C02: a recursive reading `Ex.sem` of an expression tree in which EVERY nested
  And/Or/Not member is an indivisible operand, and the proof (mutual structural recursion over the tree) that
  the meaning SQL gives to gorm's rendering equals it whenever `Ex.sound` holds.
-/
import GormModel.Lemmas.Where
namespace Gorm

mutual
/-- the unit reading of a tree: And = left-to-right AND/OR combination of its members (a single-member Or is
    OR-joined), Or = OR of its members, Not = member-wise negation when some member is a generated comparison
    (gorm's `NegationBuild` branch) and negation of the whole combination otherwise -/
def Ex.sem (env : Nat → V3) : Ex → V3
  | .raw _ _ _ f => evalFlat env (expandFlat f)
  | .atom a => cmpVal env a
  | .and es => semList env .and es
  | .or es => semList env .or es
  | .not es => if es.any Ex.negatable then semNotA env .t es else (semNotB env es).not
def semList (env : Nat → V3) (jc : Joiner) : List Ex → V3
  | [] => .t
  | e :: r => semRuns env jc .f (e.sem env) r
def semRuns (env : Nat → V3) (jc : Joiner) (acc cur : V3) : List Ex → V3
  | [] => acc.or cur
  | e :: r =>
    match memberJoin jc e with
    | .and => semRuns env jc acc (cur.and (e.sem env)) r
    | .or => semRuns env jc (acc.or cur) (e.sem env) r
def semNotA (env : Nat → V3) (cur : V3) : List Ex → V3
  | [] => cur
  | e :: r => semNotA env (cur.and (e.sem env).not) r
def semNotB (env : Nat → V3) : List Ex → V3
  | [] => .t
  | e :: r => semRunsB env .f (e.sem env) r
def semRunsB (env : Nat → V3) (acc cur : V3) : List Ex → V3
  | [] => acc.or cur
  | e :: r =>
    match notJoin e with
    | .and => semRunsB env acc (cur.and (e.sem env)) r
    | .or => semRunsB env (acc.or cur) (e.sem env) r
end

/-! ### non-recursive building blocks, parametrised by "members already agree" -/

def MembersAgree (env : Nat → V3) (es : List Ex) : Prop := ∀ e ∈ es, unitVal env e = e.sem env

theorem listSpecRuns_eq_semRuns (env : Nat → V3) (jc : Joiner) (es : List Ex) (acc cur : V3)
    (h : MembersAgree env es) : listSpecRuns env jc acc cur es = semRuns env jc acc cur es := by
  induction es generalizing acc cur with
  | nil => simp [listSpecRuns, semRuns]
  | cons e r ih =>
    have he := h e List.mem_cons_self
    have hr : MembersAgree env r := fun x hx => h x (List.mem_cons_of_mem _ hx)
    simp only [listSpecRuns, semRuns, he]
    cases memberJoin jc e <;> simp [ih _ _ hr]

theorem listSpec_eq_semList (env : Nat → V3) (jc : Joiner) (es : List Ex) (h : MembersAgree env es) :
    listSpec env jc es = semList env jc es := by
  cases es with
  | nil => simp [listSpec, semList]
  | cons e r =>
    have he := h e List.mem_cons_self
    have hr : MembersAgree env r := fun x hx => h x (List.mem_cons_of_mem _ hx)
    simp only [listSpec, semList, he]
    exact listSpecRuns_eq_semRuns env jc r _ _ hr

theorem soundList_members (m : Bool) (es : List Ex) (h : soundList m es = true) : ∀ e ∈ es, e.sound = true := by
  induction es with
  | nil => intro e he; cases he
  | cons y ys ih =>
    intro e he
    simp only [soundList, Bool.and_eq_true] at h
    rcases List.mem_cons.mp he with rfl | h'
    · exact h.1.1
    · exact ih h.2 e h'

theorem evalFlat_setFirst_zero (env : Nat → V3) (j : Joiner) (l : Flat) :
    evalFlat env (setFirst j 0 l) = evalFlat env l := by
  cases l with
  | nil => rfl
  | cons x r => obtain ⟨a, b, c⟩ := x; simp [setFirst, evalFlat]

theorem unitVal_raw (env : Nat → V3) (t : List Char) (n : Bool) (o : String) (f : Flat) :
    unitVal env (.raw t n o f) = evalFlat env (expandFlat f) := by
  simp only [unitVal, sqlEval, Ex.build, expandFlat, expandItem, List.append_nil]
  cases hf : expandFlat f with
  | nil => simp [evalFlat, evalCore, evalRuns, applyNegs_zero]
  | cons x r => exact evalFlat_setFirst_zero env .and (x :: r)

/-- the `NOT ( … )` body: same shape as `buildExprs`, joiner by `isOr`, wrap test `notWrap` -/
theorem notListB_runs (env : Nat → V3) (es : List Ex) (acc cur : V3)
    (h : ∀ e ∈ es, e.build ≠ [] ∧ (notWrap e = true ∨ noTopOr (expandFlat e.build) = true)) :
    evalRuns env acc cur (expandFlat (notListB false es)) =
      (es.foldl (fun (s : V3 × V3) e => match notJoin e with
          | .and => (s.1, s.2.and (unitVal env e))
          | .or => (s.1.or s.2, unitVal env e)) (acc, cur)).1.or
      (es.foldl (fun (s : V3 × V3) e => match notJoin e with
          | .and => (s.1, s.2.and (unitVal env e))
          | .or => (s.1.or s.2, unitVal env e)) (acc, cur)).2 := by
  induction es generalizing acc cur with
  | nil => simp [notListB, expandFlat, evalRuns]
  | cons e r ih =>
    obtain ⟨hne, hsafe⟩ := h e List.mem_cons_self
    have hr : ∀ x ∈ r, x.build ≠ [] ∧ (notWrap x = true ∨ noTopOr (expandFlat x.build) = true) :=
      fun x hx => h x (List.mem_cons_of_mem _ hx)
    have hne' : expandFlat e.build ≠ [] := expandFlat_ne_nil _ hne
    have key : ∀ (j : Joiner) (post : Flat),
        evalRuns env acc cur (expandFlat ((if notWrap e then [(j, 0, Core.paren e.build)] else setJoin j e.build)) ++ post)
          = evalRuns env acc cur ((j, 0, .paren (expandFlat e.build)) :: post) := by
      intro j post
      by_cases hw : notWrap e = true
      · simp [hw, expandFlat, expandItem]
      · have hs : noTopOr (expandFlat e.build) = true := by
          rcases hsafe with h1 | h1
          · exact absurd h1 hw
          · exact h1
        simp only [hw, Bool.false_eq_true, if_false]
        rw [expandFlat_setJoin]
        exact evalRuns_splice env acc cur j _ post hne' hs
    simp only [notListB, Bool.false_eq_true, if_false, List.foldl_cons]
    rw [expandFlat_append, key]
    cases hj : notJoin e with
    | and =>
      simp only [evalRuns, evalCore, applyNegs_zero]
      exact ih _ _ hr
    | or =>
      simp only [evalRuns, evalCore, applyNegs_zero]
      exact ih _ _ hr

theorem semRunsB_fold (env : Nat → V3) (es : List Ex) (acc cur : V3) (h : MembersAgree env es) :
    semRunsB env acc cur es =
      (es.foldl (fun (s : V3 × V3) e => match notJoin e with
          | .and => (s.1, s.2.and (unitVal env e))
          | .or => (s.1.or s.2, unitVal env e)) (acc, cur)).1.or
      (es.foldl (fun (s : V3 × V3) e => match notJoin e with
          | .and => (s.1, s.2.and (unitVal env e))
          | .or => (s.1.or s.2, unitVal env e)) (acc, cur)).2 := by
  induction es generalizing acc cur with
  | nil => simp [semRunsB]
  | cons e r ih =>
    have he := h e List.mem_cons_self
    have hr : MembersAgree env r := fun x hx => h x (List.mem_cons_of_mem _ hx)
    simp only [semRunsB, List.foldl_cons, ← he]
    cases notJoin e <;> simp [ih _ _ hr]

theorem soundNotB_members (m : Bool) (es : List Ex) (h : soundNotB m es = true) :
    ∀ e ∈ es, e.sound = true ∧ e.build ≠ [] ∧
      (notWrap e = true ∨ (if m then noTopOr (expandFlat e.build) else singleItem (expandFlat e.build)) = true) := by
  induction es with
  | nil => intro e he; cases he
  | cons y ys ih =>
    intro e he
    simp only [soundNotB, Bool.and_eq_true, Bool.not_eq_true', Bool.or_eq_true] at h
    rcases List.mem_cons.mp he with rfl | h'
    · obtain ⟨⟨⟨h1, h2⟩, h3⟩, _⟩ := h
      refine ⟨h1, ?_, h3⟩
      intro hnil; rw [hnil] at h2; simp at h2
    · exact ih h.2 e h'

theorem soundNotA_members (es : List Ex) (h : soundNotA es = true) :
    ∀ e ∈ es, e.negatable = true ∨ (e.sound = true ∧ e.build ≠ [] ∧
      (notWrap e = true ∨ singleItem (expandFlat e.build) = true)) := by
  induction es with
  | nil => intro e he; cases he
  | cons y ys ih =>
    intro e he
    cases y with
    | atom a =>
      simp only [soundNotA] at h
      rcases List.mem_cons.mp he with rfl | h'
      · left; rfl
      · exact ih h e h'
    | raw t n o f =>
      simp only [soundNotA, Bool.and_eq_true, Bool.not_eq_true', Bool.or_eq_true] at h
      rcases List.mem_cons.mp he with rfl | h'
      · right; obtain ⟨⟨⟨h1, h2⟩, h3⟩, _⟩ := h
        exact ⟨h1, by intro hnil; rw [hnil] at h2; simp at h2, h3⟩
      · exact ih h.2 e h'
    | and l =>
      simp only [soundNotA, Bool.and_eq_true, Bool.not_eq_true', Bool.or_eq_true] at h
      rcases List.mem_cons.mp he with rfl | h'
      · right; obtain ⟨⟨⟨h1, h2⟩, h3⟩, _⟩ := h
        exact ⟨h1, by intro hnil; rw [hnil] at h2; simp at h2, h3⟩
      · exact ih h.2 e h'
    | or l =>
      simp only [soundNotA, Bool.and_eq_true, Bool.not_eq_true', Bool.or_eq_true] at h
      rcases List.mem_cons.mp he with rfl | h'
      · right; obtain ⟨⟨⟨h1, h2⟩, h3⟩, _⟩ := h
        exact ⟨h1, by intro hnil; rw [hnil] at h2; simp at h2, h3⟩
      · exact ih h.2 e h'
    | not l =>
      simp only [soundNotA, Bool.and_eq_true, Bool.not_eq_true', Bool.or_eq_true] at h
      rcases List.mem_cons.mp he with rfl | h'
      · right; obtain ⟨⟨⟨h1, h2⟩, h3⟩, _⟩ := h
        exact ⟨h1, by intro hnil; rw [hnil] at h2; simp at h2, h3⟩
      · exact ih h.2 e h'

/-- one negated member written by the member-wise branch has the value `¬(member)` -/
theorem notItem_val (env : Nat → V3) (e : Ex) (acc cur : V3) (post : Flat) (hne : e.build ≠ [])
    (h : notWrap e = true ∨ singleItem (expandFlat e.build) = true) :
    evalRuns env acc cur (expandFlat (if notWrap e then [(Joiner.and, 1, Core.paren e.build)] else setJoin .and (addNeg e.build)) ++ post)
      = evalRuns env acc (cur.and (unitVal env e).not) post := by
  by_cases hw : notWrap e = true
  · simp [hw, expandFlat, expandItem, evalRuns, evalCore, applyNegs, unitVal, sqlEval]
  · have hs : singleItem (expandFlat e.build) = true := by
      rcases h with h1 | h1
      · exact absurd h1 hw
      · exact h1
    simp only [hw, Bool.false_eq_true, if_false]
    rw [expandFlat_setJoin, expandFlat_addNeg]
    have hne' := expandFlat_ne_nil _ hne
    cases hx : expandFlat e.build with
    | nil => exact absurd hx hne'
    | cons y ys =>
      obtain ⟨a1, b1, c1⟩ := y
      rw [hx] at hs
      have : ys = [] := by
        cases ys with
        | nil => rfl
        | cons z zs => simp [singleItem] at hs
      subst this
      simp [setJoin, addNeg, evalRuns, applyNegs_succ, unitVal, sqlEval, hx, evalFlat]

theorem notListA_runs (env : Nat → V3) (es : List Ex) (acc cur : V3)
    (hs : soundNotA es = true) (hm : ∀ e ∈ es, e.sound = true → unitVal env e = e.sem env) :
    evalRuns env acc cur (expandFlat (notListA es)) = acc.or (semNotA env cur es) := by
  induction es generalizing cur with
  | nil => simp [notListA, expandFlat, evalRuns, semNotA]
  | cons e r ih =>
    have hmem := soundNotA_members (e :: r) hs e List.mem_cons_self
    have hsr : soundNotA r = true := by
      cases e <;> simp only [soundNotA, Bool.and_eq_true] at hs <;> first | exact hs | exact hs.2
    have hmr : ∀ x ∈ r, x.sound = true → unitVal env x = x.sem env := fun x hx => hm x (List.mem_cons_of_mem _ hx)
    cases e with
    | atom a =>
      simp only [notListA, expandFlat, expandItem, List.cons_append, List.nil_append, evalRuns, evalCore, Atom.core,
        applyNegs_zero, semNotA, Ex.sem]
      have e1 : (if a.negate.kind.pol = true then env a.negate.id else (env a.negate.id).not) = (cmpVal env a).not := by
        rw [← cmpVal_negate]; rfl
      rw [e1]
      exact ih _ hsr hmr
    | raw t n o f =>
      rcases hmem with hneg | ⟨h1, h2, h3⟩
      · simp [Ex.negatable] at hneg
      · simp only [notListA, semNotA]
        rw [expandFlat_append, notItem_val env _ acc cur _ h2 h3, hm _ List.mem_cons_self h1]
        exact ih _ hsr hmr
    | and l =>
      rcases hmem with hneg | ⟨h1, h2, h3⟩
      · simp [Ex.negatable] at hneg
      · simp only [notListA, semNotA]
        rw [expandFlat_append, notItem_val env _ acc cur _ h2 h3, hm _ List.mem_cons_self h1]
        exact ih _ hsr hmr
    | or l =>
      rcases hmem with hneg | ⟨h1, h2, h3⟩
      · simp [Ex.negatable] at hneg
      · simp only [notListA, semNotA]
        rw [expandFlat_append, notItem_val env _ acc cur _ h2 h3, hm _ List.mem_cons_self h1]
        exact ih _ hsr hmr
    | not l =>
      rcases hmem with hneg | ⟨h1, h2, h3⟩
      · simp [Ex.negatable] at hneg
      · simp only [notListA, semNotA]
        rw [expandFlat_append, notItem_val env _ acc cur _ h2 h3, hm _ List.mem_cons_self h1]
        exact ih _ hsr hmr

end Gorm
