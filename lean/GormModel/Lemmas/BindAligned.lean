/-
  C01 — the builder invariant: every builder of `Model/Bind.lean`, run on a well-formed input from ANY state,
  appends exactly the specified flattening (`Model/BindSpec.lean`) to `Vars` and writes exactly the placeholders
  `len(Vars)+1 … len(Vars)+k` for them, in order (`Step`).  Proved by one lemma per builder, generic in the
  `AddVar` callback, and induction over the fuel of `addVar` (adequacy: `Val.depth < fuel`).
-/
import GormModel.Model.BindSpec
namespace Gorm.Bind
variable {β : Type}

/-! ### Sp algebra -/

@[simp] theorem Sp.app_ok (a b : Sp β) : (a.app b).ok = (a.ok && b.ok) := rfl
@[simp] theorem Sp.app_xs (a b : Sp β) : (a.app b).xs = a.xs ++ b.xs := rfl
@[simp] theorem Sp.none_ok : (Sp.none : Sp β).ok = true := rfl
@[simp] theorem Sp.none_xs : (Sp.none : Sp β).xs = [] := rfl
@[simp] theorem Sp.bad_ok : (Sp.bad : Sp β).ok = false := rfl
@[simp] theorem Sp.one_ok (v : Val β) : (Sp.one v).ok = true := rfl
@[simp] theorem Sp.one_xs (v : Val β) : (Sp.one v).xs = [v] := rfl
@[simp] theorem Sp.cat_nil : Sp.cat ([] : List (Sp β)) = Sp.none := rfl
@[simp] theorem Sp.cat_cons (s : Sp β) (r : List (Sp β)) : Sp.cat (s :: r) = s.app (Sp.cat r) := rfl

theorem Sp.cat_ones (d : Dialect) (l : List (Val β)) (h : ∀ x ∈ l, spec d x = Sp.one x) :
    Sp.cat (l.map (spec d)) = ⟨true, l⟩ := by
  induction l with
  | nil => rfl
  | cons x xs ih =>
    have hx := h x (by simp)
    have := ih (fun y hy => h y (by simp [hy]))
    simp only [List.map, Sp.cat_cons, hx, this]
    rfl

/-! ### nice equations for `annot` / the name table -/

theorem annot_eq (d : Dialect) (vs : List (Val β)) : annot d vs = vs.map (fun v => (v, spec d v)) := by
  induction vs with
  | nil => simp [annot]
  | cons v vs ih => simp [annot, ih]

theorem catSnd_annot (d : Dialect) (vs : List (Val β)) : catSnd (annot d vs) = Sp.cat (vs.map (spec d)) := by
  simp [catSnd, annot_eq, List.map_map, Function.comp_def]

theorem catSnd_annot_take (d : Dialect) (vs : List (Val β)) (k : Nat) :
    catSnd ((annot d vs).take k) = Sp.cat ((vs.take k).map (spec d)) := by
  simp [catSnd, annot_eq, List.map_map, Function.comp_def, List.map_take]

theorem catCols_annot (d : Dialect) (vs : List (Val β)) :
    catCols (annot d vs) = Sp.cat (vs.map (fun c => colSp c (spec d c))) := by
  simp [catCols, annot_eq, List.map_map, Function.comp_def]

/-- entry of the name map ↦ entry of the spec table -/
abbrev es (d : Dialect) : List Char × Val β → List Char × Sp β := fun e => (e.1, spec d e.2)

theorem fieldsSp_eq (d : Dialect) (n : Nat)
    (hsub : ∀ v : Val β, structSp d n v = (structEntries n v).map (es d)) (fs : List (List Char × Bool)) (vs : List (Val β)) :
    fieldsSp d n fs vs = (fieldsLoop (structEntries n) fs vs).map (es d) := by
  induction fs generalizing vs with
  | nil => simp [fieldsSp, fieldsLoop]
  | cons p fs ih =>
    obtain ⟨nm, anon⟩ := p
    cases vs with
    | nil => simp [fieldsSp, fieldsLoop]
    | cons v vs =>
      simp only [fieldsSp, fieldsLoop, ih, hsub, List.map_append]
      cases isExported nm <;> cases anon <;> simp

theorem structSp_eq (d : Dialect) (n : Nat) (v : Val β) : structSp d n v = (structEntries n v).map (es d) := by
  induction n generalizing v with
  | zero => simp [structSp, structEntries]
  | succ n ih =>
    cases v <;> simp [structSp, structEntries]
    exact fieldsSp_eq d n ih _ _

theorem tableSp_eq (d : Dialect) (args : List (Val β)) : tableSp d args = (namedEntries args).map (es d) := by
  induction args with
  | nil => simp [tableSp, namedEntries]
  | cons a as ih =>
    simp only [tableSp, namedEntries, ih, List.map_append]
    congr 1
    cases a <;> simp [entSp, annot_eq, List.map_map, Function.comp_def, List.zip_map_right]
    rename_i fs vs
    have := fieldsSp_eq d 7 (structSp_eq d 7) fs vs
    simpa [structEntries] using this

theorem lookupLastSp_map (d : Dialect) (m : List (List Char × Val β)) (nm : List Char) :
    lookupLastSp (m.map (es d)) nm = (lookupLast m nm).map (spec d) := by
  unfold lookupLastSp lookupLast
  rw [← List.map_reverse, List.find?_map]
  have : ((fun e : List Char × Sp β => e.1 == nm) ∘ es d) = (fun e : List Char × Val β => e.1 == nm) := by
    funext e; simp [es]
  rw [this]
  cases List.find? (fun e : List Char × Val β => e.1 == nm) m.reverse <;> simp [es]

theorem lookupLast_mem (m : List (List Char × Val β)) (nm : List Char) (nv : Val β)
    (h : lookupLast m nm = some nv) : ∃ e ∈ m, e.2 = nv := by
  unfold lookupLast at h
  cases hf : List.find? (fun e : List Char × Val β => e.1 == nm) m.reverse with
  | none => simp [hf] at h
  | some e =>
    simp [hf] at h
    exact ⟨e, by simpa using List.mem_of_find?_eq_some hf, h⟩

/-! ### depth facts (fuel adequacy) -/

theorem depthL_mem {w : Val β} {vs : List (Val β)} (h : w ∈ vs) : w.depth + 1 ≤ Val.depthL vs := by
  induction vs with
  | nil => cases h
  | cons v vs ih =>
    simp only [Val.depthL]
    cases h with
    | head => omega
    | tail _ h' => have := ih h'; omega

theorem depthL_take (vs : List (Val β)) (k : Nat) : Val.depthL (vs.take k) ≤ Val.depthL vs := by
  induction vs generalizing k with
  | nil => simp [Val.depthL]
  | cons v vs ih =>
    cases k with
    | zero => simp [Val.depthL]
    | succ k => simp only [List.take, Val.depthL]; have := ih k; omega

theorem fieldsLoop_depth (sub : Val β → List (List Char × Val β))
    (hsub : ∀ v, ∀ e ∈ sub v, e.2.depth < v.depth) (fs : List (List Char × Bool)) (vs : List (Val β)) :
    ∀ e ∈ fieldsLoop sub fs vs, e.2.depth + 1 ≤ Val.depthL vs := by
  induction fs generalizing vs with
  | nil => simp [fieldsLoop]
  | cons p fs ih =>
    obtain ⟨nm, anon⟩ := p
    cases vs with
    | nil => simp [fieldsLoop]
    | cons v vs =>
      intro e he
      simp only [fieldsLoop, List.mem_append] at he
      simp only [Val.depthL]
      cases he with
      | inl h1 =>
        cases hx : isExported nm <;> simp [hx] at h1
        cases h1 with
        | inl h2 => subst h2; simp; omega
        | inr h2 =>
          cases anon <;> simp at h2
          have := hsub v e h2; omega
      | inr h1 => have := ih vs e h1; omega

theorem structEntries_depth (n : Nat) (v : Val β) : ∀ e ∈ structEntries n v, e.2.depth < v.depth := by
  induction n generalizing v with
  | zero => simp [structEntries]
  | succ n ih =>
    cases v <;> simp [structEntries]
    rename_i fs vs
    intro a b hab
    have := fieldsLoop_depth (structEntries n) ih fs vs (a, b) hab
    simp only [] at this
    simp [Val.depth]; omega

theorem namedEntries_depth (args : List (Val β)) : ∀ e ∈ namedEntries args, e.2.depth + 2 ≤ Val.depthL args := by
  induction args with
  | nil => simp [namedEntries]
  | cons a as ih =>
    intro e he
    simp only [namedEntries, List.mem_append] at he
    simp only [Val.depthL]
    cases he with
    | inr h => have := ih e h; omega
    | inl h =>
      suffices e.2.depth < a.depth by omega
      cases a <;> simp at h
      · subst h; simp [Val.depth]
      · rename_i ks vs
        have hm : e.2 ∈ vs := (List.of_mem_zip h).2
        have := depthL_mem hm
        simp [Val.depth]; omega
      · exact structEntries_depth 8 _ e h

/-! ### the step relation -/

/-- `o` was reached from `st` by binding exactly `xs`: the vars were appended, one placeholder each was written,
    numbered from `len(st.Vars)+1` on, in the same order; no other placeholder was written; flags unchanged -/
structure Step (o st : St β) (xs : List (Val β)) : Prop where
  vars_eq : o.vars = st.vars ++ xs
  phs_eq : phs o.segs = phs st.segs ++ List.range' (st.vars.length + 1) xs.length
  oof_eq : o.oof = st.oof
  uns_eq : o.unsupported = st.unsupported

theorem phs_app (a b : List Seg) : phs (a ++ b) = phs a ++ phs b := by
  induction a with
  | nil => rfl
  | cons x xs ih => cases x <;> simp [phs, ih]

theorem Step.rfl' (st : St β) : Step st st [] := ⟨by simp, by simp, rfl, rfl⟩

theorem Step.trans {o1 o2 st : St β} {xs ys : List (Val β)} (h1 : Step o1 st xs) (h2 : Step o2 o1 ys) :
    Step o2 st (xs ++ ys) := by
  refine ⟨?_, ?_, h2.oof_eq.trans h1.oof_eq, h2.uns_eq.trans h1.uns_eq⟩
  · rw [h2.vars_eq, h1.vars_eq, List.append_assoc]
  · rw [h2.phs_eq, h1.phs_eq, h1.vars_eq, List.append_assoc, List.length_append, List.length_append]
    congr 1
    rw [show st.vars.length + xs.length + 1 = (st.vars.length + 1) + 1 * xs.length by omega]
    exact List.range'_append ..

theorem Step.pre {o st' st : St β} {xs : List (Val β)} (h1 : Step st' st []) (h2 : Step o st' xs) : Step o st xs := by
  simpa using h1.trans h2

theorem Step.post {o o' st : St β} {xs : List (Val β)} (h1 : Step o st xs) (h2 : Step o' o []) : Step o' st xs := by
  simpa using h1.trans h2

theorem Step.writeByte (st : St β) (c : Char) : Step (st.writeByte c) st [] :=
  ⟨by simp [St.writeByte], by simp [St.writeByte, phs_app, phs], rfl, rfl⟩
theorem Step.writeString (st : St β) (s : List Char) : Step (st.writeString s) st [] :=
  ⟨by simp [St.writeString], by simp [St.writeString, phs_app, phs], rfl, rfl⟩
theorem Step.writeStr (st : St β) (s : String) : Step (st.writeStr s) st [] := Step.writeString st _
theorem Step.quote (st : St β) (s : List Char) : Step (st.quote s) st [] :=
  ⟨by simp [St.quote], by simp [St.quote, phs_app, phs], rfl, rfl⟩
theorem Step.writeId (raw : Bool) (s : List Char) (st : St β) : Step (writeId raw s st) st [] := by
  unfold Gorm.Bind.writeId; split
  · exact Step.writeString st s
  · exact Step.quote st s
theorem Step.bind (st : St β) (v : Val β) : Step (st.bind v) st [v] :=
  ⟨by simp [St.bind, St.bindVarTo, St.appendVar],
   by simp [St.bind, St.bindVarTo, St.appendVar, phs_app, phs], rfl, rfl⟩

/-- alignment of a state: the placeholders written so far are `1..len(Vars)` -/
def AlignedSt (st : St β) : Prop := Gorm.Bind.phs st.segs = List.range' 1 st.vars.length

theorem Step.aligned {o st : St β} {xs : List (Val β)} (h : Step o st xs) (ha : AlignedSt st) : AlignedSt o := by
  unfold AlignedSt at *
  rw [h.phs_eq, h.vars_eq, ha, List.length_append]
  rw [show st.vars.length + 1 = 1 + 1 * st.vars.length by omega]
  exact List.range'_append ..

/-! ### one lemma per builder, generic in the `AddVar` callback -/

/-- the callback is correct on `w` -/
def Good (d : Dialect) (av : Val β → St β → St β) (w : Val β) : Prop :=
  (spec d w).ok = true → ∀ st, Step (av w st) st (spec d w).xs

/-- generic comma-separated loop -/
theorem commaSepAux_stepG (h : Val β → St β → St β) (F : Val β → Sp β) (vs : List (Val β))
    (hG : ∀ w ∈ vs, (F w).ok = true → ∀ st, Step (h w st) st (F w).xs) :
    ∀ (first : Bool) (st : St β), (Sp.cat (vs.map F)).ok = true →
      Step (commaSepAux h first vs st) st (Sp.cat (vs.map F)).xs := by
  induction vs with
  | nil => intro first st _; exact Step.rfl' st
  | cons v vs ih =>
    intro first st hok
    simp only [List.map, Sp.cat_cons, Sp.app_ok, Bool.and_eq_true] at hok
    simp only [commaSepAux, List.map, Sp.cat_cons, Sp.app_xs]
    have h0 : Step (if first then st else st.writeByte ',') st [] := by
      cases first
      · exact Step.writeByte st ','
      · exact Step.rfl' st
    have h1 := hG v (by simp) hok.1 (if first then st else st.writeByte ',')
    have h2 := ih (fun w hw => hG w (by simp [hw])) false (h v (if first then st else st.writeByte ',')) hok.2
    exact Step.pre h0 (h1.trans h2)

section
variable {d : Dialect} {av : Val β → St β → St β} {n : Nat}

theorem commaSep_step (hG : ∀ w, w.depth < n → Good d av w) (vs : List (Val β)) (hd : ∀ w ∈ vs, w.depth < n)
    (st : St β) (hok : (Sp.cat (vs.map (spec d))).ok = true) :
    Step (commaSep av vs st) st (Sp.cat (vs.map (spec d))).xs :=
  commaSepAux_stepG av (spec d) vs (fun w hw => hG w (hd w hw)) true st hok

theorem expandElems_cases (w : Val β) :
    (∃ s vs, w = .list s vs) ∨ (∃ vs, w = .ilist vs) ∨ (∃ nm bs, w = .bytes nm bs) ∨
    (∃ nm cs vs, w = .clauseI nm (.set cs vs)) ∨ (expandElems w = none ∧ ∀ s : Sp β, expandSp w s = s) := by
  cases w with
  | list s vs => exact Or.inl ⟨s, vs, rfl⟩
  | ilist vs => exact Or.inr (Or.inl ⟨vs, rfl⟩)
  | bytes nm bs => exact Or.inr (Or.inr (Or.inl ⟨nm, bs, rfl⟩))
  | clauseI nm e =>
    cases e with
    | set cs vs => exact Or.inr (Or.inr (Or.inr (Or.inl ⟨nm, cs, vs, rfl⟩)))
    | _ => exact Or.inr (Or.inr (Or.inr (Or.inr ⟨rfl, fun _ => rfl⟩)))
  | _ => exact Or.inr (Or.inr (Or.inr (Or.inr ⟨rfl, fun _ => rfl⟩)))

theorem assignments_spec (cs vs : List (Val β)) : ∀ x ∈ assignments cs vs, spec d x = Sp.one x := by
  induction cs generalizing vs with
  | nil => simp [assignments]
  | cons c cs ih =>
    cases vs with
    | nil => simp [assignments]
    | cons v vs =>
      intro x hx
      simp only [assignments, List.mem_cons] at hx
      cases hx with
      | inl h => subst h; simp [spec]
      | inr h => exact ih vs x h

theorem assignments_depth (cs vs : List (Val β)) : ∀ x ∈ assignments cs vs, x.depth ≤ max (Val.depthL cs) (Val.depthL vs) := by
  induction cs generalizing vs with
  | nil => simp [assignments]
  | cons c cs ih =>
    cases vs with
    | nil => simp [assignments]
    | cons v vs =>
      intro x hx
      simp only [assignments, List.mem_cons] at hx
      simp only [Val.depthL]
      cases hx with
      | inl h => subst h; simp only [Val.depth]; omega
      | inr h => have := ih vs x h; omega

/-- Expr.Build / NamedExpr.Build: one `?` slot -/
theorem slot_step (hG : ∀ w, w.depth < n → Good d av w) (expand : Bool) (w : Val β) (hd : w.depth < n) (st : St β)
    (hok : (if expand then expandSp w (spec d w) else spec d w).ok = true) :
    Step (slot av expand w st) st (if expand then expandSp w (spec d w) else spec d w).xs := by
  cases expand
  · simp only [slot, Bool.false_eq_true, if_false] at hok ⊢
    exact hG w hd hok st
  · simp only [slot, if_true] at hok ⊢
    have hnil : Step (av .nil st) st [Val.nil] := by
      have := hG .nil (by simp [Val.depth]; omega) (by simp [spec]) st
      simpa [spec] using this
    rcases expandElems_cases w with ⟨s, vs, rfl⟩ | ⟨vs, rfl⟩ | ⟨nm, bs, rfl⟩ | ⟨nm, cs, vs, rfl⟩ | ⟨hn, he⟩
    · simp only [expandElems, expandSp, spec, catSnd_annot] at hok ⊢
      cases hv : vs.isEmpty
      · simp only [hv, Bool.false_eq_true, if_false] at hok ⊢
        exact commaSep_step hG vs (fun x hx => by have := depthL_mem hx; simp [Val.depth] at hd; omega) st hok
      · simpa [hv] using hnil
    · simp only [expandElems, expandSp, spec, catSnd_annot] at hok ⊢
      cases hv : vs.isEmpty
      · simp only [hv, Bool.false_eq_true, if_false] at hok ⊢
        exact commaSep_step hG vs (fun x hx => by have := depthL_mem hx; simp [Val.depth] at hd; omega) st hok
      · simpa [hv] using hnil
    · simp only [expandElems, expandSp, List.isEmpty_map] at hok ⊢
      cases hv : bs.isEmpty
      · simp only [Bool.false_eq_true, if_false]
        have hc : Sp.cat ((bs.map Val.scalar).map (spec d)) = ⟨true, bs.map Val.scalar⟩ :=
          Sp.cat_ones d _ (fun x hx => by
            obtain ⟨b, _, rfl⟩ := List.mem_map.1 hx
            simp [spec])
        have := commaSep_step hG (bs.map Val.scalar) (fun x hx => by
            obtain ⟨b, _, rfl⟩ := List.mem_map.1 hx
            simp [Val.depth]; omega) st (by rw [hc])
        rw [hc] at this
        exact this
      · simpa [hv] using hnil
    · simp only [expandElems, expandSp] at hok ⊢
      cases hv : (assignments cs vs).isEmpty
      · simp only [Bool.false_eq_true, if_false]
        have hc : Sp.cat ((assignments cs vs).map (spec d)) = ⟨true, assignments cs vs⟩ :=
          Sp.cat_ones d _ (assignments_spec cs vs)
        have := commaSep_step hG (assignments cs vs) (fun x hx => by
            have := assignments_depth cs vs x hx
            simp [Val.depth] at hd; omega) st (by rw [hc])
        rw [hc] at this
        exact this
      · simpa [hv] using hnil
    · rw [he] at hok ⊢
      simp only [hn]
      exact hG w hd hok st

/-- Expr.Build: scanner + the (never reached for a well-formed input) surplus tail -/
theorem exprLoop_step (hG : ∀ w, w.depth < n → Good d av w) (wop : Bool) (sql : List Char) :
    ∀ (rest : List (Val β)) (ap : Bool) (st : St β), (∀ w ∈ rest, w.depth < n) →
      (pickSlots wop (slotFlags sql ap) (rest.map fun v => (v, spec d v))).ok = true →
      Step (exprLoop av wop sql rest ap st) st (pickSlots wop (slotFlags sql ap) (rest.map fun v => (v, spec d v))).xs := by
  induction sql with
  | nil =>
    intro rest ap st _ hok
    cases rest with
    | nil => exact Step.rfl' st
    | cons v r => simp [slotFlags, pickSlots] at hok
  | cons c cs ih =>
    intro rest ap st hd hok
    by_cases hc : c = '?'
    · subst hc
      cases rest with
      | nil => simp [slotFlags, pickSlots] at hok
      | cons v r =>
        simp only [slotFlags, if_true, List.map, pickSlots, Sp.app_ok, Bool.and_eq_true] at hok
        simp only [exprLoop, decide_true, slotFlags, if_true, List.map, pickSlots, Sp.app_xs]
        have h1 := slot_step hG (ap || wop) v (hd v (by simp)) st hok.1
        have h2 := ih r ap (slot av (ap || wop) v st) (fun w hw => hd w (by simp [hw])) hok.2
        exact h1.trans h2
    · have hdc : decide (c = '?') = false := by simp [hc]
      simp only [slotFlags, hc, if_false] at hok
      have h2 := ih rest (c == '(') (st.writeByte c) hd hok
      have : exprLoop av wop (c :: cs) rest ap st = exprLoop av wop cs rest (c == '(') (st.writeByte c) := by
        cases rest <;> simp [exprLoop, hdc]
      rw [this]
      simp only [slotFlags, hc, if_false]
      exact Step.pre (Step.writeByte st c) h2

theorem exprBuild_step (hG : ∀ w, w.depth < n → Good d av w) (sql : List Char) (args : List (Val β)) (wop : Bool)
    (st : St β) (hd : ∀ w ∈ args, w.depth < n)
    (hok : (pickSlots wop (slotFlags sql false) (annot d args)).ok = true) :
    Step (exprBuild av sql args wop st) st (pickSlots wop (slotFlags sql false) (annot d args)).xs := by
  rw [annot_eq] at hok ⊢
  exact exprLoop_step hG wop sql args false st hd hok

/-- NamedExpr.Build: `if nv, ok := namedMap[name]; ok { AddVar(nv) } else { write "@name" }` -/
theorem flushName_step (hG : ∀ w, w.depth < n → Good d av w) (m : List (List Char × Val β))
    (hm : ∀ e ∈ m, e.2.depth < n) (name : List Char) (st : St β)
    (hok : ((lookupLastSp (m.map (es d)) name).getD Sp.none).ok = true) :
    Step (flushName av m name st) st ((lookupLastSp (m.map (es d)) name).getD Sp.none).xs := by
  rw [lookupLastSp_map] at hok ⊢
  unfold flushName
  cases hl : lookupLast m name with
  | none =>
    simp only [Option.map, Option.getD, Sp.none_xs]
    exact (Step.writeByte st '@').post (Step.writeString _ name)
  | some nv =>
    simp only [hl, Option.map, Option.getD] at hok ⊢
    obtain ⟨e, he, rfl⟩ := lookupLast_mem m name nv hl
    exact hG e.2 (hm e he) hok st

/-! equations of the NamedExpr scanner and of its control-flow abstraction, branch by branch -/

theorem nexprLoop_at (av : Val β → St β → St β) (m : List (List Char × Val β)) (c : Char) (cs : List Char)
    (rest : List (Val β)) (inName : Bool) (name : List Char) (ap : Bool) (st : St β)
    (h1 : (c == '@' && !inName) = true) :
    nexprLoop av m (c :: cs) rest inName name ap st = nexprLoop av m cs rest true [] ap st := by
  simp only [nexprLoop, h1, if_true]

theorem nexprItems_at (c : Char) (cs : List Char) (k : Nat) (inName : Bool) (name : List Char) (ap : Bool)
    (h1 : (c == '@' && !inName) = true) :
    nexprItems (c :: cs) k inName name ap = nexprItems cs k true [] ap := by
  simp only [nexprItems, h1, if_true]

theorem nexprLoop_term (av : Val β → St β → St β) (m : List (List Char × Val β)) (c : Char) (cs : List Char)
    (rest : List (Val β)) (inName : Bool) (name : List Char) (ap : Bool) (st : St β)
    (h1 : (c == '@' && !inName) = false) (h2 : isTerm c = true) :
    nexprLoop av m (c :: cs) rest inName name ap st
      = nexprLoop av m cs rest false name false ((if inName then flushName av m name st else st).writeByte c) := by
  simp only [nexprLoop, h1, h2, if_true, Bool.false_eq_true, if_false]

theorem nexprItems_term (c : Char) (cs : List Char) (k : Nat) (inName : Bool) (name : List Char) (ap : Bool)
    (h1 : (c == '@' && !inName) = false) (h2 : isTerm c = true) :
    nexprItems (c :: cs) k inName name ap
      = (if inName then [Item.name name] else []) ++ nexprItems cs k false name false := by
  simp only [nexprItems, h1, h2, if_true, Bool.false_eq_true, if_false]

theorem nexprLoop_q (av : Val β → St β → St β) (m : List (List Char × Val β)) (cs : List Char)
    (v : Val β) (r : List (Val β)) (inName : Bool) (name : List Char) (ap : Bool) (st : St β)
    (h1 : (('?' : Char) == '@' && !inName) = false) :
    nexprLoop av m ('?' :: cs) (v :: r) inName name ap st = nexprLoop av m cs r inName name ap (slot av ap v st) := by
  have h2 : isTerm '?' = false := by decide
  simp only [nexprLoop, h1, h2, Bool.false_eq_true, if_false, decide_true]

theorem nexprItems_q (cs : List Char) (k : Nat) (inName : Bool) (name : List Char) (ap : Bool)
    (h1 : (('?' : Char) == '@' && !inName) = false) :
    nexprItems ('?' :: cs) (k+1) inName name ap = Item.slot ap :: nexprItems cs k inName name ap := by
  have h2 : isTerm '?' = false := by decide
  simp only [nexprItems, h1, h2, Bool.false_eq_true, if_false, decide_true]

theorem nexprItems_q0 (cs : List Char) (inName : Bool) (name : List Char) (ap : Bool)
    (h1 : (('?' : Char) == '@' && !inName) = false) :
    ∃ r, nexprItems ('?' :: cs) 0 inName name ap = Item.stray :: r := by
  have h2 : isTerm '?' = false := by decide
  simp only [nexprItems, h1, h2, Bool.false_eq_true, if_false, decide_true]
  exact ⟨_, rfl⟩

theorem nexprLoop_other (av : Val β → St β → St β) (m : List (List Char × Val β)) (c : Char) (cs : List Char)
    (rest : List (Val β)) (inName : Bool) (name : List Char) (ap : Bool) (st : St β)
    (h1 : (c == '@' && !inName) = false) (h2 : isTerm c = false) (hc : c ≠ '?') :
    nexprLoop av m (c :: cs) rest inName name ap st
      = (if inName then nexprLoop av m cs rest true (name ++ [c]) ap st
         else nexprLoop av m cs rest false name (c == '(') (st.writeByte c)) := by
  have hdc : decide (c = '?') = false := by simp [hc]
  cases rest <;> simp only [nexprLoop, h1, h2, hdc, Bool.false_eq_true, if_false]

theorem nexprItems_other (c : Char) (cs : List Char) (k : Nat) (inName : Bool) (name : List Char) (ap : Bool)
    (h1 : (c == '@' && !inName) = false) (h2 : isTerm c = false) (hc : c ≠ '?') :
    nexprItems (c :: cs) k inName name ap
      = (if inName then nexprItems cs k true (name ++ [c]) ap else nexprItems cs k false name (c == '(')) := by
  have hdc : decide (c = '?') = false := by simp [hc]
  cases k <;> simp only [nexprItems, h1, h2, hdc, Bool.false_eq_true, if_false]

/-- NamedExpr.Build: scanner -/
theorem nexprLoop_step (hG : ∀ w, w.depth < n → Good d av w) (m : List (List Char × Val β))
    (hm : ∀ e ∈ m, e.2.depth < n) (sql : List Char) :
    ∀ (rest : List (Val β)) (inName : Bool) (name : List Char) (ap : Bool) (st : St β), (∀ w ∈ rest, w.depth < n) →
      (itemsSp (m.map (es d)) (nexprItems sql rest.length inName name ap) (rest.map fun v => (v, spec d v))).ok = true →
      Step (nexprLoop av m sql rest inName name ap st) st
        (itemsSp (m.map (es d)) (nexprItems sql rest.length inName name ap) (rest.map fun v => (v, spec d v))).xs := by
  induction sql with
  | nil =>
    intro rest inName name ap st _ hok
    cases inName
    · simp only [nexprLoop, nexprItems, Bool.false_eq_true, if_false, itemsSp]
      exact Step.rfl' st
    · simp only [nexprItems, if_true, itemsSp, Sp.app_ok, Bool.and_eq_true] at hok
      simp only [nexprLoop, nexprItems, if_true, itemsSp, Sp.app_xs, Sp.none_xs, List.append_nil]
      exact flushName_step hG m hm name st hok.1
  | cons c cs ih =>
    intro rest inName name ap st hd hok
    by_cases h1 : (c == '@' && !inName) = true
    · rw [nexprLoop_at _ _ _ _ _ _ _ _ _ h1]
      rw [nexprItems_at _ _ _ _ _ _ h1] at hok ⊢
      exact ih rest true [] ap st hd hok
    · have h1' : (c == '@' && !inName) = false := by simpa using h1
      by_cases h2 : isTerm c = true
      · rw [nexprLoop_term _ _ _ _ _ _ _ _ _ h1' h2]
        rw [nexprItems_term _ _ _ _ _ _ h1' h2] at hok ⊢
        cases inName
        · simp only [Bool.false_eq_true, if_false, List.nil_append] at hok ⊢
          exact Step.pre (Step.writeByte st c) (ih rest false name false (st.writeByte c) hd hok)
        · simp only [if_true, List.singleton_append, itemsSp, Sp.app_ok, Bool.and_eq_true] at hok
          simp only [if_true, List.singleton_append, itemsSp, Sp.app_xs]
          have f := flushName_step hG m hm name st hok.1
          have f2 := f.post (Step.writeByte _ c)
          exact f2.trans (ih rest false name false _ hd hok.2)
      · have h2' : isTerm c = false := by simpa using h2
        by_cases hc : c = '?'
        · subst hc
          cases rest with
          | nil =>
            obtain ⟨r, hr⟩ := nexprItems_q0 cs inName name ap h1'
            simp only [List.length_nil, hr, itemsSp, Sp.bad_ok] at hok
            cases hok
          | cons v r =>
            rw [nexprLoop_q _ _ _ _ _ _ _ _ _ h1']
            simp only [List.length_cons, nexprItems_q _ _ _ _ _ h1', List.map, itemsSp, Sp.app_ok, Bool.and_eq_true] at hok
            simp only [List.length_cons, nexprItems_q _ _ _ _ _ h1', List.map, itemsSp, Sp.app_xs]
            have s1 := slot_step hG ap v (hd v (by simp)) st hok.1
            exact s1.trans (ih r inName name ap _ (fun w hw => hd w (by simp [hw])) hok.2)
        · rw [nexprLoop_other _ _ _ _ _ _ _ _ _ h1' h2' hc]
          rw [nexprItems_other _ _ _ _ _ _ h1' h2' hc] at hok ⊢
          cases inName
          · simp only [Bool.false_eq_true, if_false] at hok ⊢
            exact Step.pre (Step.writeByte st c) (ih rest false name (c == '(') _ hd hok)
          · simp only [if_true] at hok ⊢
            exact ih rest true (name ++ [c]) ap st hd hok

theorem nexprBuild_step (hG : ∀ w, w.depth < n → Good d av w) (sql : List Char) (args : List (Val β)) (st : St β)
    (hd : Val.depthL args + 1 ≤ n)
    (hok : (itemsSp (tableSp d args) (nexprItems sql args.length false [] false) (annot d args)).ok = true) :
    Step (nexprBuild av sql args st) st
      (itemsSp (tableSp d args) (nexprItems sql args.length false [] false) (annot d args)).xs := by
  rw [annot_eq, tableSp_eq] at hok ⊢
  unfold nexprBuild
  exact nexprLoop_step hG (namedEntries args) (fun e he => by have := namedEntries_depth args e he; omega) sql args
    false [] false st (fun w hw => by have := depthL_mem hw; omega) hok

/-- `WriteQuoted` of an identifier position -/
theorem quoteTo_step (hG : ∀ w, w.depth < n → Good d av w) (c : Val β) (hd : c.depth ≤ n + 1) (st : St β)
    (hok : (colSp c (spec d c)).ok = true) : Step (quoteTo av c st) st (colSp c (spec d c)).xs := by
  cases c with
  | column t nm al raw =>
    simp only [quoteTo, colSp, spec, Sp.none_xs]
    have a1 : Step (if t.isEmpty then st else (writeId raw t st).writeByte '.') st [] := by
      split
      · exact Step.rfl' st
      · exact (Step.writeId raw t st).post (Step.writeByte _ '.')
    have a2 := a1.post (Step.writeId raw nm _)
    split
    · exact a2
    · exact (a2.post (Step.writeStr _ " AS ")).post (Step.writeId raw al _)
  | table nm al raw =>
    simp only [quoteTo, colSp, spec, Sp.none_xs]
    have a1 := Step.writeId raw nm st
    split
    · exact a1
    · exact (a1.post (Step.writeByte _ ' ')).post (Step.writeId raw al _)
  | expr sql args wop =>
    simp only [quoteTo, colSp, spec] at hok ⊢
    exact exprBuild_step hG sql args wop st (fun w hw => by
      have := depthL_mem hw; simp only [Val.depth] at hd; omega) hok
  | _ => simp [colSp] at hok

/-- clause/where.go buildExprs over plain members -/
theorem whereLoop_step (hG : ∀ w, w.depth < n → Good d av w) (multi : Bool) (es : List (Val β))
    (hd : ∀ w ∈ es, w.depth < n) :
    ∀ (first : Bool) (st : St β), (Sp.cat (es.map (spec d))).ok = true →
      Step (whereLoop av multi first es st) st (Sp.cat (es.map (spec d))).xs := by
  induction es with
  | nil => intro first st _; exact Step.rfl' st
  | cons e es ih =>
    intro first st hok
    simp only [List.map, Sp.cat_cons, Sp.app_ok, Bool.and_eq_true] at hok
    simp only [whereLoop, List.map, Sp.cat_cons, Sp.app_xs]
    have h0 : Step (if first then st else st.writeStr " AND ") st [] := by
      cases first
      · exact Step.writeStr st _
      · exact Step.rfl' st
    have he := hG e (hd e (by simp)) hok.1
    have ih' := ih (fun w hw => hd w (by simp [hw])) false
    cases hw : (multi && needsWrap e)
    · simp only [Bool.false_eq_true, if_false]
      exact Step.pre h0 ((he _).trans (ih' _ hok.2))
    · simp only [if_true]
      have a := (Step.pre (h0.post (Step.writeByte _ '(')) (he _)).post (Step.writeByte _ ')')
      exact a.trans (ih' _ hok.2)

theorem optWhere_step (hG : ∀ w, w.depth < n → Good d av w) (es : List (Val β)) (hd : ∀ w ∈ es, w.depth < n)
    (st : St β) (hok : (Sp.cat (es.map (spec d))).ok = true) :
    Step (optWhere av es st) st (Sp.cat (es.map (spec d))).xs := by
  unfold optWhere
  cases es with
  | nil => exact Step.rfl' st
  | cons e r =>
    simp only [List.isEmpty_cons, Bool.false_eq_true, if_false]
    exact (Step.pre (Step.writeStr st _) (whereLoop_step hG _ (e :: r) hd true _ hok)).post (Step.writeByte _ ' ')

/-- clause/set.go Set.Build -/
theorem setLoop_step (hG : ∀ w, w.depth < n → Good d av w) (cs : List (Val β)) :
    ∀ (vs : List (Val β)) (first : Bool) (st : St β), (∀ c ∈ cs, c.depth ≤ n + 1) → (∀ w ∈ vs, w.depth < n) →
      (setSp (cs.map fun v => (v, spec d v)) (vs.map fun v => (v, spec d v))).ok = true →
      Step (setLoop (quoteTo av) av first cs vs st) st
        (setSp (cs.map fun v => (v, spec d v)) (vs.map fun v => (v, spec d v))).xs := by
  induction cs with
  | nil => intro vs first st _ _ _; simp only [setLoop, List.map, setSp, Sp.none_xs]; exact Step.rfl' st
  | cons c cs ih =>
    intro vs first st hc hv hok
    cases vs with
    | nil => simp only [setLoop, List.map, setSp, Sp.none_xs]; exact Step.rfl' st
    | cons v vs =>
      simp only [List.map, setSp, Sp.app_ok, Bool.and_eq_true] at hok
      simp only [setLoop, List.map, setSp, Sp.app_xs]
      have h0 : Step (if first then st else st.writeByte ',') st [] := by
        cases first
        · exact Step.writeByte st ','
        · exact Step.rfl' st
      have q := quoteTo_step hG c (hc c (by simp)) (if first then st else st.writeByte ',') hok.1.1
      have a := (Step.pre h0 q).post (Step.writeByte _ '=')
      have b := a.trans (hG v (hv v (by simp)) hok.1.2 _)
      exact b.trans (ih vs false _ (fun x hx => hc x (by simp [hx])) (fun x hx => hv x (by simp [hx])) hok.2)

/-- one row of clause.Values -/
theorem row_step (hG : ∀ w, w.depth < n → Good d av w) (r : Val β) (hd : r.depth < n) (st : St β)
    (hok : (spec d r).ok = true) : Step (commaSep av (rowCells r) st) st (spec d r).xs := by
  cases r with
  | ilist cs =>
    simp only [rowCells, spec, catSnd_annot] at hok ⊢
    exact commaSep_step hG cs (fun x hx => by have := depthL_mem hx; simp only [Val.depth] at hd; omega) st hok
  | _ =>
    simp only [rowCells, commaSep, commaSepAux, if_true]
    exact hG _ hd hok st

theorem rowsLoop_step (hG : ∀ w, w.depth < n → Good d av w) (rs : List (Val β)) (hd : ∀ r ∈ rs, r.depth < n) :
    ∀ (first : Bool) (st : St β), (Sp.cat (rs.map (spec d))).ok = true →
      Step (rowsLoop av first rs st) st (Sp.cat (rs.map (spec d))).xs := by
  induction rs with
  | nil => intro first st _; exact Step.rfl' st
  | cons r rs ih =>
    intro first st hok
    simp only [List.map, Sp.cat_cons, Sp.app_ok, Bool.and_eq_true] at hok
    simp only [rowsLoop, List.map, Sp.cat_cons, Sp.app_xs]
    have h0 : Step ((if first then st else st.writeByte ',').writeByte '(') st [] := by
      cases first
      · exact (Step.writeByte st ',').post (Step.writeByte _ '(')
      · exact Step.writeByte st '('
    have a := (Step.pre h0 (row_step hG r (hd r (by simp)) _ hok.1)).post (Step.writeByte _ ')')
    exact a.trans (ih (fun x hx => hd x (by simp [hx])) false _ hok.2)

/-- Statement.Build / Clause.Build over the present clauses -/
theorem clausesLoop_step (hG : ∀ w, w.depth < n → Good d av w) (ns : List (List Char)) :
    ∀ (es : List (Val β)) (first : Bool) (st : St β), (∀ w ∈ es, w.depth < n) →
      (Sp.cat ((es.take ns.length).map (spec d))).ok = true →
      Step (clausesLoop av first ns es st) st (Sp.cat ((es.take ns.length).map (spec d))).xs := by
  induction ns with
  | nil => intro es first st _ _; simp only [clausesLoop, List.length_nil, List.take_zero, List.map, Sp.cat_nil, Sp.none_xs]; exact Step.rfl' st
  | cons nm ns ih =>
    intro es first st hd hok
    cases es with
    | nil => simp only [clausesLoop, List.take_nil, List.map, Sp.cat_nil, Sp.none_xs]; exact Step.rfl' st
    | cons e es =>
      simp only [List.length_cons, List.take_succ_cons, List.map, Sp.cat_cons, Sp.app_ok, Bool.and_eq_true] at hok
      simp only [clausesLoop, List.length_cons, List.take_succ_cons, List.map, Sp.cat_cons, Sp.app_xs]
      have h0 : Step (if first then st else st.writeByte ' ') st [] := by
        cases first
        · exact Step.writeByte st ' '
        · exact Step.rfl' st
      have h1 : Step (if nm.isEmpty then (if first then st else st.writeByte ' ')
          else ((if first then st else st.writeByte ' ').writeString nm).writeByte ' ') st [] := by
        split
        · exact h0
        · exact (h0.post (Step.writeString _ nm)).post (Step.writeByte _ ' ')
      have a := Step.pre h1 (hG e (hd e (by simp)) hok.1 _)
      exact a.trans (ih es false _ (fun x hx => hd x (by simp [hx])) hok.2)

theorem eqListElems_some {x : Val β} {vs : List (Val β)} (h : eqListElems x = some vs) :
    spec d x = Sp.cat (vs.map (spec d)) ∧ eqNil x = false ∧ Val.depthL vs + 1 = x.depth := by
  cases x with
  | list s l =>
    cases s <;> simp [eqListElems] at h
    subst h
    simp [spec, catSnd_annot, eqNil, Val.depth]
  | ilist l =>
    simp [eqListElems] at h
    subst h
    simp [spec, catSnd_annot, eqNil, Val.depth]
  | _ => simp [eqListElems] at h

theorem innSingle_some {vs : List (Val β)} {x : Val β} (h : innSingle vs = some x) : vs = [x] := by
  match vs, h with
  | [], h => simp [innSingle] at h
  | [y], h => cases y <;> simp_all [innSingle]
  | _ :: _ :: _, h => simp [innSingle] at h

end

/-! ### the main induction: `AddVar` -/

/-- **Builder invariant for `Statement.AddVar`** (every arm), any fuel above the depth of the value (adequacy),
    any start state: a well-formed value appends exactly its flattening and writes exactly the placeholders for it. -/
theorem addVar_step (d : Dialect) : ∀ (n : Nat) (w : Val β), w.depth < n → Good d (addVar d n) w := by
  intro n
  induction n with
  | zero => intro w h; omega
  | succ n ih =>
    intro v hd hok st
    have hq := fun (c : Val β) (hc : c.depth ≤ n + 1) (s : St β) (h : (colSp c (spec d c)).ok = true) =>
      quoteTo_step (d := d) ih c hc s h
    cases v with
    | nil => simp only [addVar, spec, Sp.one_xs]; exact Step.bind st _
    | scalar b => simp only [addVar, spec, Sp.one_xs]; exact Step.bind st _
    | dvaluer i b => simp only [addVar, spec, Sp.one_xs]; exact Step.bind st _
    | nmap ks vs => simp only [addVar, spec, Sp.one_xs]; exact Step.bind st _
    | strct fs vs => simp only [addVar, spec, Sp.one_xs]; exact Step.bind st _
    | assign c x => simp only [addVar, spec, Sp.one_xs]; exact Step.bind st _
    | named nm x => simp [spec] at hok
    | bytes named bs =>
      simp only [addVar, spec]
      split
      · exact Step.writeStr st _
      · exact Step.bind st _
    | gvaluer nilPtr inner =>
      simp only [Val.depth] at hd
      cases nilPtr
      · simp only [addVar, spec, Bool.false_eq_true, if_false] at hok ⊢
        exact ih inner (by omega) hok st
      · simp only [addVar, spec, if_true]
        have := ih .nil (by simp only [Val.depth]; omega) (by simp [spec]) st
        simpa [spec] using this
    | list s vs =>
      simp only [Val.depth] at hd
      simp only [addVar, spec, catSnd_annot] at hok ⊢
      cases vs with
      | nil => simp only [List.isEmpty_nil, if_true, List.map, Sp.cat_nil, Sp.none_xs]; exact Step.writeStr st _
      | cons x xs =>
        simp only [List.isEmpty_cons, Bool.false_eq_true, if_false]
        exact (Step.pre (Step.writeByte st '(') (commaSep_step ih (x :: xs)
          (fun w hw => by have := depthL_mem hw; omega) _ hok)).post (Step.writeByte _ ')')
    | ilist vs =>
      simp only [Val.depth] at hd
      simp only [addVar, spec, catSnd_annot] at hok ⊢
      cases vs with
      | nil => simp only [List.isEmpty_nil, if_true, List.map, Sp.cat_nil, Sp.none_xs]; exact Step.writeStr st _
      | cons x xs =>
        simp only [List.isEmpty_cons, Bool.false_eq_true, if_false]
        exact (Step.pre (Step.writeByte st '(') (commaSep_step ih (x :: xs)
          (fun w hw => by have := depthL_mem hw; omega) _ hok)).post (Step.writeByte _ ')')
    | column t nm al raw =>
      have := hq (.column t nm al raw) (by simp [Val.depth]) st (by simp [colSp, spec])
      simpa [addVar, colSp] using this
    | table nm al raw =>
      have := hq (.table nm al raw) (by simp [Val.depth]) st (by simp [colSp, spec])
      simpa [addVar, colSp] using this
    | expr sql args wop =>
      simp only [Val.depth] at hd
      simp only [addVar, spec] at hok ⊢
      exact exprBuild_step ih sql args wop st (fun w hw => by have := depthL_mem hw; omega) hok
    | nexpr sql args =>
      simp only [Val.depth] at hd
      simp only [addVar, spec] at hok ⊢
      exact nexprBuild_step ih sql args st (by omega) hok
    | cmp op col x =>
      simp only [Val.depth] at hd
      simp only [spec, Sp.app_ok, Bool.and_eq_true] at hok
      simp only [addVar, spec, Sp.app_xs]
      have s1 := hq col (by omega) st hok.1
      have hx : x.depth < n := by omega
      have plain : ∀ (t : String), (spec d x).ok = true →
          Step (addVar d n x ((quoteTo (addVar d n) col st).writeStr t)) st ((colSp col (spec d col)).xs ++ (spec d x).xs) :=
        fun t h => (s1.post (Step.writeStr _ t)).trans (ih x hx h _)
      cases op with
      | eq =>
        simp only [beq_self_eq_true, Bool.true_or, Bool.true_and] at hok ⊢
        cases hl : eqListElems x with
        | some vs =>
          obtain ⟨e1, e2, e3⟩ := eqListElems_some (d := d) hl
          simp only [e2, Bool.false_eq_true, if_false] at hok ⊢
          rw [e1] at hok ⊢
          cases vs with
          | nil => simp only [List.isEmpty_nil, if_true, List.map, Sp.cat_nil, Sp.none_xs, List.append_nil]; exact s1.post (Step.writeStr _ _)
          | cons y ys =>
            simp only [List.isEmpty_cons, Bool.false_eq_true, if_false]
            exact ((s1.post (Step.writeStr _ _)).trans (commaSep_step ih (y :: ys)
              (fun w hw => by have := depthL_mem hw; omega) _ hok.2)).post (Step.writeByte _ ')')
        | none =>
          cases hn : eqNil x
          · simp only [hn, Bool.false_eq_true, if_false] at hok ⊢
            exact plain _ hok.2
          · simp only [hn, if_true, Sp.none_xs, List.append_nil]
            exact s1.post (Step.writeStr _ _)
      | neq =>
        simp only [beq_self_eq_true, Bool.or_true, Bool.true_and] at hok ⊢
        cases hl : eqListElems x with
        | some vs =>
          obtain ⟨e1, e2, e3⟩ := eqListElems_some (d := d) hl
          simp only [e2, Bool.false_eq_true, if_false] at hok ⊢
          rw [e1] at hok ⊢
          exact ((s1.post (Step.writeStr _ _)).trans (commaSep_step ih vs
            (fun w hw => by have := depthL_mem hw; omega) _ hok.2)).post (Step.writeByte _ ')')
        | none =>
          cases hn : eqNil x
          · simp only [hn, Bool.false_eq_true, if_false] at hok ⊢
            exact plain _ hok.2
          · simp only [hn, if_true, Sp.none_xs, List.append_nil]
            exact s1.post (Step.writeStr _ _)
      | gt => exact plain _ (by simpa using hok.2)
      | gte => exact plain _ (by simpa using hok.2)
      | lt => exact plain _ (by simpa using hok.2)
      | lte => exact plain _ (by simpa using hok.2)
      | like => exact plain _ (by simpa using hok.2)
      | notLike => exact plain _ (by simpa using hok.2)
    | inn neg col vs =>
      simp only [Val.depth] at hd
      simp only [spec, catSnd_annot, Sp.app_ok, Bool.and_eq_true] at hok
      simp only [addVar, spec, catSnd_annot, Sp.app_xs]
      have s1 := hq col (by omega) st hok.1
      cases vs with
      | nil => simp only [List.isEmpty_nil, if_true, List.map, Sp.cat_nil, Sp.none_xs, List.append_nil]; exact s1.post (Step.writeStr _ _)
      | cons y ys =>
        simp only [List.isEmpty_cons, Bool.false_eq_true, if_false]
        cases hs : innSingle (y :: ys) with
        | some x =>
          have e := innSingle_some hs
          simp only [List.cons.injEq] at e
          obtain ⟨rfl, rfl⟩ := e
          simp only [List.map, Sp.cat_cons, Sp.cat_nil, Sp.app_ok, Sp.app_xs, Sp.none_xs, List.append_nil, Bool.and_eq_true] at hok ⊢
          have hy : y.depth < n := by simp only [Val.depthL] at hd; omega
          exact (s1.post (Step.writeStr _ _)).trans (ih y hy hok.2.1 _)
        | none =>
          exact ((s1.post (Step.writeStr _ _)).trans (commaSep_step ih (y :: ys)
            (fun w hw => by have := depthL_mem hw; omega) _ hok.2)).post (Step.writeByte _ ')')
    | values cols rows =>
      simp only [Val.depth] at hd
      simp only [addVar, spec, catSnd_annot, catCols_annot] at hok ⊢
      cases hc : cols.isEmpty
      · simp only [hc, Bool.false_eq_true, if_false, Sp.app_ok, Bool.and_eq_true, Sp.app_xs] at hok ⊢
        have c1 := commaSepAux_stepG (quoteTo (addVar d n)) (fun c => colSp c (spec d c)) cols
          (fun w hw h s => hq w (by have := depthL_mem hw; omega) s h) true (st.writeByte '(') hok.1
        have c2 := ((Step.pre (Step.writeByte st '(') c1).post (Step.writeByte _ ')')).post (Step.writeStr _ " VALUES ")
        exact c2.trans (rowsLoop_step ih rows (fun r hr => by have := depthL_mem hr; omega) true _ hok.2)
      · simp only [hc, if_true, Sp.none_xs]
        exact Step.writeStr st _
    | set cols vals =>
      simp only [Val.depth] at hd
      simp only [addVar, spec, annot_eq] at hok ⊢
      cases hc : cols.isEmpty
      · simp only [hc, Bool.false_eq_true, if_false] at hok ⊢
        exact setLoop_step ih cols vals true st (fun c hc => by have := depthL_mem hc; omega)
          (fun w hw => by have := depthL_mem hw; omega) hok
      · simp [hc] at hok
    | limit hl nn lim op off =>
      simp only [Val.depth] at hd
      have hs : ∀ (b : β) (s : St β), Step (addVar d n (.scalar b) s) s [Val.scalar b] := fun b s => by
        have := ih (.scalar b) (by simp only [Val.depth]; omega) (by simp [spec]) s
        simpa [spec] using this
      simp only [addVar, spec, Sp.app_xs]
      cases hc : (hl && nn) <;> cases op <;>
        simp only [Bool.false_eq_true, if_false, if_true, Sp.none_xs, Sp.one_xs, List.append_nil, List.nil_append]
      · exact Step.rfl' st
      · exact Step.pre (Step.writeStr st _) (hs off _)
      · exact Step.pre (Step.writeStr st _) (hs lim _)
      · exact (Step.pre (Step.writeStr st _) (hs lim _)).trans
          (Step.pre ((Step.writeByte _ ' ').post (Step.writeStr _ _)) (hs off _))
    | onConflict cons cols tw dn du w =>
      simp only [Val.depth] at hd
      simp only [spec, catSnd_annot, catCols_annot, Sp.app_ok, Bool.and_eq_true] at hok
      simp only [addVar, spec, catSnd_annot, catCols_annot, Sp.app_xs]
      obtain ⟨⟨hk1, hk2⟩, hk3⟩ := hok
      -- target part
      have t1 : Step (if (!cons.isEmpty) = true then ((st.writeStr "ON CONSTRAINT ").writeString cons).writeByte ' '
            else optWhere (addVar d n) tw
              (if cols.isEmpty = true then st else (commaSep (quoteTo (addVar d n)) cols (st.writeByte '(')).writeStr ") ")) st
          (if (!cons.isEmpty) = true then Sp.none
            else (Sp.cat (cols.map fun c => colSp c (spec d c))).app (Sp.cat (tw.map (spec d)))).xs := by
        cases hcs : (!cons.isEmpty)
        · simp only [hcs, Bool.false_eq_true, if_false, Sp.app_ok, Bool.and_eq_true, Sp.app_xs] at hk1 ⊢
          have a : Step (if cols.isEmpty = true then st else (commaSep (quoteTo (addVar d n)) cols (st.writeByte '(')).writeStr ") ") st
              (Sp.cat (cols.map fun c => colSp c (spec d c))).xs := by
            cases cols with
            | nil => simp only [List.isEmpty_nil, if_true, List.map, Sp.cat_nil, Sp.none_xs]; exact Step.rfl' st
            | cons c cs =>
              simp only [List.isEmpty_cons, Bool.false_eq_true, if_false]
              have c1 := commaSepAux_stepG (quoteTo (addVar d n)) (fun c => colSp c (spec d c)) (c :: cs)
                (fun w hw h s => hq w (by have := depthL_mem hw; omega) s h) true (st.writeByte '(') hk1.1
              exact (Step.pre (Step.writeByte st '(') c1).post (Step.writeStr _ ") ")
          exact a.trans (optWhere_step ih tw (fun x hx => by have := depthL_mem hx; omega) _ hk1.2)
        · simp only [if_true, Sp.none_xs]
          exact ((Step.writeStr st _).post (Step.writeString _ cons)).post (Step.writeByte _ ' ')
      refine (Step.trans (Step.trans t1 ?_) (optWhere_step ih w (fun x hx => by have := depthL_mem hx; omega) _ hk3))
      cases dn
      · simp only [Bool.false_eq_true, if_false] at hk2 ⊢
        exact Step.pre (Step.writeStr _ _) (ih du (by omega) hk2 _)
      · simp only [if_true, Sp.none_xs]
        exact Step.writeStr _ _
    | whereC es =>
      simp only [Val.depth] at hd
      simp only [addVar, spec, catSnd_annot] at hok ⊢
      exact whereLoop_step ih _ es (fun x hx => by have := depthL_mem hx; omega) true st hok
    | clauseI nm e =>
      simp only [Val.depth] at hd
      simp only [addVar, spec] at hok ⊢
      have h0 : Step (if nm.isEmpty then st else (st.writeString nm).writeByte ' ') st [] := by
        split
        · exact Step.rfl' st
        · exact (Step.writeString st nm).post (Step.writeByte _ ' ')
      exact Step.pre h0 (ih e (by omega) hok _)
    | clauses ns es =>
      simp only [Val.depth] at hd
      simp only [addVar, spec, catSnd_annot_take] at hok ⊢
      exact clausesLoop_step ih ns es true st (fun x hx => by have := depthL_mem hx; omega) hok
    | subq ns es =>
      simp only [Val.depth] at hd
      simp only [addVar, spec, catSnd_annot_take] at hok ⊢
      exact clausesLoop_step ih ns es true st (fun x hx => by have := depthL_mem hx; omega) hok
    | rsub text vars =>
      simp only [Val.depth] at hd
      simp only [addVar, spec] at hok ⊢
      cases hb : (d == Dialect.dollar && ((retemplate d 1 vars.length text).contains '$' || qDigit (retemplate d 1 vars.length text)))
      · simp only [hb, Bool.false_eq_true, if_false] at hok ⊢
        split
        · rename_i hc
          simp only [hc, if_true] at hok
          exact nexprBuild_step ih _ vars st (by omega) hok
        · rename_i hc
          simp only [hc, if_false] at hok
          exact exprBuild_step ih _ vars false st (fun w hw => by have := depthL_mem hw; omega) hok
      · rw [hb] at hok
        simp at hok

end Gorm.Bind
