import GormModel.Model.Identity
namespace Gorm

theorem split_at_sep (p p' x y : List Char) (hp : '_' ∉ p) (hp' : '_' ∉ p')
    (h : p ++ '_' :: x = p' ++ '_' :: y) : p = p' ∧ x = y := by
  induction p generalizing p' with
  | nil =>
    cases p' with
    | nil => simpa using h
    | cons c cs =>
      simp at h
      exact absurd (by rw [← h.1]; simp) hp'
  | cons a as ih =>
    cases p' with
    | nil =>
      simp at h
      exact absurd (by rw [h.1]; simp) hp
    | cons c cs =>
      simp at h
      have hp2 : '_' ∉ as := fun hm => hp (List.mem_cons_of_mem _ hm)
      have hp2' : '_' ∉ cs := fun hm => hp' (List.mem_cons_of_mem _ hm)
      obtain ⟨h1, h2⟩ := ih cs hp2 hp2' h.2
      exact ⟨by rw [h.1, h1], h2⟩

theorem no_sep_ne (p p' y : List Char) (hp : '_' ∉ p) (h : p = p' ++ '_' :: y) : False := by
  apply hp; rw [h]; simp

theorem joinKey_injective (a b : List (List Char)) (hlen : a.length = b.length)
    (ha : KeySafe a) (hb : KeySafe b) (h : joinKey a = joinKey b) : a = b := by
  induction a generalizing b with
  | nil => cases b with
    | nil => rfl
    | cons _ _ => simp at hlen
  | cons p ar ih =>
    cases b with
    | nil => simp at hlen
    | cons p' br =>
      have hp : '_' ∉ p := ha p (by simp)
      have hp' : '_' ∉ p' := hb p' (by simp)
      cases ar with
      | nil =>
        cases br with
        | nil => simp [joinKey] at h; rw [h]
        | cons _ _ => simp at hlen
      | cons q r =>
        cases br with
        | nil => simp at hlen
        | cons q' r' =>
          simp only [joinKey] at h
          obtain ⟨h1, h2⟩ := split_at_sep p p' _ _ hp hp' h
          have := ih (q' :: r') (by simpa using hlen)
            (fun x hx => ha x (List.mem_cons_of_mem _ hx))
            (fun x hx => hb x (List.mem_cons_of_mem _ hx)) h2
          rw [h1, this]

end Gorm

namespace Gorm

/-! ### `GetIdentityFieldValuesMap` -/

theorem find_map_fst (g : List (List Char × List Nat)) (f : List Char × List Nat → List Char × List Nat)
    (hf : ∀ x, (f x).1 = x.1) (s : List Char) :
    (g.map f).find? (fun x => x.1 == s) = (g.find? (fun x => x.1 == s)).map f := by
  induction g with
  | nil => rfl
  | cons x xs ih =>
    simp only [List.map_cons, List.find?_cons, hf]
    cases h : (x.1 == s) <;> simp [ih]

theorem hasKey_false_find (m : IdMap) (s : List Char) (h : m.hasKey s = false) :
    m.groups.find? (fun g => g.1 == s) = none := by
  unfold IdMap.hasKey at h
  rw [List.find?_eq_none]
  intro x hx hxs
  have : m.groups.any (fun g => g.1 == s) = true := List.any_eq_true.mpr ⟨x, hx, hxs⟩
  rw [h] at this; cases this

theorem lookup_insert (m : IdMap) (s s' : List Char) (a : Nat) (v : List KeyVal) :
    (m.insert s a v).lookup s' = if s' = s then m.lookup s ++ [a] else m.lookup s' := by
  unfold IdMap.insert
  by_cases hk : m.hasKey s = true
  · simp only [hk, if_true, IdMap.lookup]
    rw [find_map_fst _ _ (by intro x; by_cases hx : (x.1 == s) = true <;> simp [hx])]
    by_cases hs : s' = s
    · subst hs
      simp only [if_true]
      cases hfd : m.groups.find? (fun g => g.1 == s') with
      | none =>
        exfalso
        unfold IdMap.hasKey at hk
        obtain ⟨x, hx, hxs⟩ := List.any_eq_true.mp hk
        have := List.find?_eq_none.mp hfd x hx
        exact this hxs
      | some g =>
        have hg : g.1 = s' := by
          have := List.find?_some hfd
          simpa using this
        simp [hg]
    · simp only [hs, if_false]
      cases hfd : m.groups.find? (fun g => g.1 == s') with
      | none => simp
      | some g =>
        have hg : (g.1 == s') = true := by
          have := List.find?_some hfd
          simpa using this
        have hg' : g.1 = s' := by simpa using hg
        have hne : ¬ g.1 = s := by
          intro h; exact hs (hg'.symm.trans h)
        simp [hne]
  · have hk' : m.hasKey s = false := by simpa using hk
    have hnone := hasKey_false_find m s hk'
    simp only [hk', Bool.false_eq_true, if_false, IdMap.lookup]
    rw [List.find?_append]
    by_cases hs : s' = s
    · subst hs
      simp [hnone]
    · have hne : (s == s') = false := by
        simp only [beq_eq_false_iff_ne, ne_eq]; intro h; exact hs h.symm
      simp only [hs, if_false]
      cases hfd : m.groups.find? (fun g => g.1 == s') with
      | none => simp [hne]
      | some g => simp

theorem mem_lookup_insert (m : IdMap) (s s' : List Char) (a a' : Nat) (v : List KeyVal) :
    a' ∈ (m.insert s a v).lookup s' ↔ (a' ∈ m.lookup s' ∨ (s' = s ∧ a' = a)) := by
  rw [lookup_insert]
  by_cases hs : s' = s
  · subst hs; simp
  · simp [hs]

/-- invariant tying `results` to `dataResults`: one value tuple per key string, in the same order -/
def IdMap.Aligned (m : IdMap) : Prop := m.values.map toStringKey = m.groups.map (·.1)

theorem aligned_insert (m : IdMap) (v : List KeyVal) (a : Nat) (h : m.Aligned) :
    (m.insert (toStringKey v) a v).Aligned := by
  unfold IdMap.insert IdMap.Aligned at *
  by_cases hk : m.hasKey (toStringKey v) = true
  · simp only [hk, if_true, List.map_map]
    rw [h]
    apply List.map_congr_left
    intro x _
    by_cases hx : x.1 = toStringKey v <;> simp [hx]
  · simp [hk, h]

theorem foldl_idStep_inv (P : IdState → Prop) (all : List IdRow)
    (hstep : ∀ st r, r ∈ all → P st → P (idStep st r)) :
    ∀ (rows : List IdRow) (st : IdState), (∀ r ∈ rows, r ∈ all) → P st → P (rows.foldl idStep st) := by
  intro rows
  induction rows with
  | nil => intro st _ h; exact h
  | cons r rs ih =>
    intro st hsub h
    simp only [List.foldl_cons]
    exact ih _ (fun x hx => hsub x (List.mem_cons_of_mem _ hx)) (hstep st r (hsub r (by simp)) h)

theorem idStep_cases (st : IdState) (r : IdRow) :
    (r.addr ∈ st.loaded ∧ idStep st r = st) ∨
    (r.addr ∉ st.loaded ∧ allZero r.key = true ∧ idStep st r = { st with loaded := r.addr :: st.loaded }) ∨
    (r.addr ∉ st.loaded ∧ allZero r.key = false ∧
      idStep st r = { loaded := r.addr :: st.loaded, map := st.map.insert r.keyStr r.addr r.vals }) := by
  unfold idStep
  by_cases hl : r.addr ∈ st.loaded
  · left; simp [hl]
  · right
    by_cases hz : allZero r.key = true
    · left; simp [hl, hz]
    · right
      have hz' : allZero r.key = false := by simpa using hz
      simp [hl, hz']

theorem idStep_loaded_mono (st : IdState) (r : IdRow) (a : Nat) (h : a ∈ st.loaded) : a ∈ (idStep st r).loaded := by
  rcases idStep_cases st r with ⟨_, e⟩ | ⟨_, _, e⟩ | ⟨_, _, e⟩ <;> rw [e] <;> simp [h]

theorem idStep_loaded_self (st : IdState) (r : IdRow) : r.addr ∈ (idStep st r).loaded := by
  rcases idStep_cases st r with ⟨h, e⟩ | ⟨_, _, e⟩ | ⟨_, _, e⟩
  · rw [e]; exact h
  · rw [e]; simp
  · rw [e]; simp

theorem foldl_loaded_mono (rows : List IdRow) (st : IdState) (a : Nat) (h : a ∈ st.loaded) :
    a ∈ (rows.foldl idStep st).loaded := by
  induction rows generalizing st with
  | nil => exact h
  | cons r rs ih => simp only [List.foldl_cons]; exact ih _ (idStep_loaded_mono st r a h)

theorem foldl_loaded_all (rows : List IdRow) (st : IdState) (r : IdRow) (hr : r ∈ rows) :
    r.addr ∈ (rows.foldl idStep st).loaded := by
  induction rows generalizing st with
  | nil => cases hr
  | cons x xs ih =>
    simp only [List.foldl_cons]
    rcases List.mem_cons.mp hr with h | h
    · subst h; exact foldl_loaded_mono xs _ _ (idStep_loaded_self st r)
    · exact ih _ h

def IdSound (all : List IdRow) (st : IdState) : Prop :=
  ∀ s a, a ∈ st.map.lookup s → ∃ r ∈ all, r.addr = a ∧ allZero r.key = false ∧ r.keyStr = s

theorem idSound_step (all : List IdRow) (st : IdState) (r : IdRow) (hr : r ∈ all) (h : IdSound all st) :
    IdSound all (idStep st r) := by
  rcases idStep_cases st r with ⟨_, e⟩ | ⟨_, _, e⟩ | ⟨_, hz, e⟩ <;> rw [e]
  · exact h
  · exact h
  · intro s a ha
    rcases (mem_lookup_insert _ _ _ _ _ _).mp ha with h1 | ⟨h1, h2⟩
    · exact h s a h1
    · exact ⟨r, hr, h2.symm, hz, h1.symm⟩

def IdGood (all : List IdRow) (st : IdState) : Prop :=
  ∀ r ∈ all, r.addr ∈ st.loaded → allZero r.key = false → r.addr ∈ st.map.lookup r.keyStr

theorem idGood_step (all : List IdRow)
    (hf : ∀ r r', r ∈ all → r' ∈ all → r.addr = r'.addr → r.key = r'.key)
    (st : IdState) (r0 : IdRow) (hr0 : r0 ∈ all) (h : IdGood all st) : IdGood all (idStep st r0) := by
  rcases idStep_cases st r0 with ⟨_, e⟩ | ⟨hl, hz, e⟩ | ⟨hl, hz, e⟩ <;> rw [e]
  · exact h
  · intro r hr hld hnz
    simp only [List.mem_cons] at hld
    rcases hld with ha | ha
    · have := hf r r0 hr hr0 ha
      rw [this, hz] at hnz; cases hnz
    · exact h r hr ha hnz
  · intro r hr hld hnz
    simp only [List.mem_cons] at hld
    apply (mem_lookup_insert _ _ _ _ _ _).mpr
    rcases hld with ha | ha
    · right
      have hk := hf r r0 hr hr0 ha
      refine ⟨?_, ha⟩
      unfold IdRow.keyStr IdRow.vals; rw [hk]
    · left; exact h r hr ha hnz

def IdVals (all : List IdRow) (st : IdState) : Prop :=
  st.map.Aligned ∧ ∀ v ∈ st.map.values, ∃ r ∈ all, r.vals = v ∧ allZero r.key = false

theorem idVals_step (all : List IdRow) (st : IdState) (r : IdRow) (hr : r ∈ all) (h : IdVals all st) :
    IdVals all (idStep st r) := by
  rcases idStep_cases st r with ⟨_, e⟩ | ⟨_, _, e⟩ | ⟨_, hz, e⟩ <;> rw [e]
  · exact h
  · exact h
  · refine ⟨aligned_insert _ _ _ h.1, ?_⟩
    intro v hv
    simp only [IdMap.insert] at hv
    by_cases hk : st.map.hasKey r.keyStr = true
    · simp only [hk, if_true] at hv; exact h.2 v hv
    · simp only [hk, Bool.false_eq_true, if_false, List.mem_append, List.mem_singleton] at hv
      rcases hv with hv | hv
      · exact h.2 v hv
      · exact ⟨r, hr, hv.symm, hz⟩

theorem lookup_mem_groups (m : IdMap) (s : List Char) (a : Nat) (h : a ∈ m.lookup s) : s ∈ m.groups.map (·.1) := by
  unfold IdMap.lookup at h
  cases hfd : m.groups.find? (fun g => g.1 == s) with
  | none => rw [hfd] at h; cases h
  | some g =>
    have hg : (g.1 == s) = true := by have := List.find?_some hfd; simpa using this
    have hg' : g.1 = s := by simpa using hg
    exact List.mem_map.mpr ⟨g, List.mem_of_find?_eq_some hfd, hg'⟩

/-! ## ToQueryConditions: tuple equality of the IN list = one SQL equality per (column, field) pair -/

theorem sqlEq_iff (a b : KeyVal) : sqlEq a b = true ↔ a ≠ .nil ∧ a = b := by
  unfold sqlEq
  constructor
  · intro h
    simp only [Bool.and_eq_true, bne_iff_ne, ne_eq, beq_iff_eq] at h
    exact ⟨h.1.1, h.2⟩
  · rintro ⟨h1, h2⟩
    subst h2
    simp [h1]

/-- the row's IN tuple is NULL-free and equals the record's value tuple iff every pair is SQL-equal -/
theorem tuple_eq_iff_pairs (row : QRow) (cols : List Char → KeyComp) (ps : List (List Char × List Char)) :
    (KeyVal.nil ∉ ps.map (fun pr => row pr.1) ∧ ps.map (fun pr => row pr.1) = ps.map (fun pr => (cols pr.2).val)) ↔
    ∀ pr ∈ ps, sqlEq (row pr.1) (cols pr.2).val = true := by
  induction ps with
  | nil => simp
  | cons pr rest ih =>
    simp only [sqlEq_iff] at ih
    simp only [List.map_cons, List.mem_cons, not_or, List.cons.injEq, forall_eq_or_imp, sqlEq_iff]
    constructor
    · rintro ⟨⟨h1, h2⟩, h3, h4⟩
      exact ⟨⟨fun h => h1 h.symm, h3⟩, ih.mp ⟨h2, h4⟩⟩
    · rintro ⟨⟨h1, h3⟩, h⟩
      obtain ⟨h2, h4⟩ := ih.mpr h
      exact ⟨⟨fun h => h1 h.symm, h2⟩, h3, h4⟩

/-- every reference holds iff every (column, field) pair is SQL-equal and every extra condition holds -/
theorem refs_hold_iff (ft : List Char) (jt : Option (List Char)) (p : PRow) (env : QEnv) (refs : List JoinRef) :
    (∀ r ∈ refs, refHolds ft jt p env r = true) ↔
    ((∀ pr ∈ refs.filterMap (qcPair jt.isSome), sqlEq (env (jt.getD ft) pr.1) (p.cols pr.2).val = true) ∧
     (∀ a ∈ refs.filterMap (qcAtom ft jt), a.holds env = true)) := by
  induction refs with
  | nil => simp
  | cons r rest ih =>
    simp only [List.mem_cons, forall_eq_or_imp, ih]
    by_cases ho : r.ownPK = true
    · simp [qcPair, qcAtom, refHolds, ho, and_assoc]
    · have ho' : r.ownPK = false := by simpa using ho
      by_cases hv : r.primaryValue = []
      · cases jt with
        | none =>
          simp [qcPair, qcAtom, refHolds, ho', hv, and_assoc]
        | some j =>
          simp only [List.filterMap_cons, qcPair, qcAtom, refHolds, ho', hv, Option.isSome_some, Bool.false_eq_true,
            if_false, ne_eq, not_true_eq_false, if_true, List.mem_cons, forall_eq_or_imp, QAtom.holds]
          constructor
          · rintro ⟨h1, h2, h3⟩; exact ⟨h2, h1, h3⟩
          · rintro ⟨h2, h1, h3⟩; exact ⟨h1, h2, h3⟩
      · simp only [List.filterMap_cons, qcPair, qcAtom, refHolds, ho', hv, Bool.false_eq_true, if_false, ne_eq,
          not_false_eq_true, if_true, List.mem_cons, forall_eq_or_imp, QAtom.holds]
        constructor
        · rintro ⟨h1, h2, h3⟩; exact ⟨h2, h1, h3⟩
        · rintro ⟨h2, h1, h3⟩; exact ⟨h1, h2, h3⟩

theorem idRow_vals (p : PRow) (ps : List (List Char × List Char)) :
    (p.idRow (ps.map (·.2))).vals = ps.map (fun pr => (p.cols pr.2).val) := by
  simp [PRow.idRow, IdRow.vals, List.map_map, Function.comp_def]

end Gorm
