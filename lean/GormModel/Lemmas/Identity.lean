import GormModel.Model.Identity
namespace Gorm

theorem split_at_sep (p p' x y : List Char) (hp : '_' ∉ p) (hp' : '_' ∉ p')
    (h : p ++ '_' :: x = p' ++ '_' :: y) : p = p' ∧ x = y := by
  induction p generalizing p' with
  | nil =>
    cases p' with
    | nil => simpa using h
    | cons c cs =>
      simp at h
      exact absurd (by rw [← h.1]; simp) hp'
  | cons a as ih =>
    cases p' with
    | nil =>
      simp at h
      exact absurd (by rw [h.1]; simp) hp
    | cons c cs =>
      simp at h
      have hp2 : '_' ∉ as := fun hm => hp (List.mem_cons_of_mem _ hm)
      have hp2' : '_' ∉ cs := fun hm => hp' (List.mem_cons_of_mem _ hm)
      obtain ⟨h1, h2⟩ := ih cs hp2 hp2' h.2
      exact ⟨by rw [h.1, h1], h2⟩

theorem no_sep_ne (p p' y : List Char) (hp : '_' ∉ p) (h : p = p' ++ '_' :: y) : False := by
  apply hp; rw [h]; simp

theorem joinKey_injective (a b : List (List Char)) (hlen : a.length = b.length)
    (ha : KeySafe a) (hb : KeySafe b) (h : joinKey a = joinKey b) : a = b := by
  induction a generalizing b with
  | nil => cases b with
    | nil => rfl
    | cons _ _ => simp at hlen
  | cons p ar ih =>
    cases b with
    | nil => simp at hlen
    | cons p' br =>
      have hp : '_' ∉ p := ha p (by simp)
      have hp' : '_' ∉ p' := hb p' (by simp)
      cases ar with
      | nil =>
        cases br with
        | nil => simp [joinKey] at h; rw [h]
        | cons _ _ => simp at hlen
      | cons q r =>
        cases br with
        | nil => simp at hlen
        | cons q' r' =>
          simp only [joinKey] at h
          obtain ⟨h1, h2⟩ := split_at_sep p p' _ _ hp hp' h
          have := ih (q' :: r') (by simpa using hlen)
            (fun x hx => ha x (List.mem_cons_of_mem _ hx))
            (fun x hx => hb x (List.mem_cons_of_mem _ hx)) h2
          rw [h1, this]

end Gorm
