/-
  C02 "slice values mean IN" — the ELEMENTS of the slice (round 3).
  Model/InList.lean: `mapEntryAtom`/`mapConds` (statement.go BuildCondition, map branch) and `inListVal` (reference
  reading of `x IN (…)` with NULL elements, validated against SQLite by suite in.sem).
-/
import GormModel.Lemmas.Where
import GormModel.Model.InList
namespace Gorm

/-- a map contributes exactly ONE comparison per key — however many elements a slice value has and however many of
    them are NULL: nothing is pulled out of the list into a second condition -/
theorem C02_map_one_cond_per_key (entries : List (String × Nat × MapVal)) :
    (mapConds entries).length = entries.length := by
  simp [mapConds]

/-- a slice value is ONE `IN` comparison over ALL its elements (NULL elements are counted: they stay in the list) -/
theorem C02_map_slice_is_one_in (col : String) (id : Nat) (es : List Elem) :
    mapEntryAtom col id (.slice es) = { col := col, kind := .inK, val := .list es.length, id := id } := rfl

theorem qmarks_succ_succ (n : Nat) : qmarks (n + 2) = "?," ++ qmarks (n + 1) := rfl

/-- … rendered `col IN (?,…,?)` with one placeholder per element (two or more elements), `col = ?` for one element,
    `col IN (NULL)` for none — never an `OR`, never an `IS NULL` -/
theorem C02_map_slice_text (col : String) (id : Nat) (e1 e2 : Elem) (r : List Elem) :
    (mapEntryAtom col id (.slice (e1 :: e2 :: r))).text = col ++ " IN (" ++ qmarks (r.length + 2) ++ ")" ∧
    (mapEntryAtom col id (.slice [e1])).text = col ++ " = ?" ∧
    (mapEntryAtom col id (.slice [])).text = col ++ " IN (NULL)" := by
  refine ⟨?_, rfl, rfl⟩
  simp [mapEntryAtom, Atom.text, String.append_assoc]

/-- the unit's value is its ONE base predicate (the IN over all elements): `Where(map{col: slice})` selects exactly the
    rows for which that predicate is TRUE, `Not(map{col: slice})` exactly those for which it is FALSE -/
theorem C02_map_slice_unit (env : Nat → V3) (col : String) (id : Nat) (es : List Elem) :
    unitVal env (.atom (mapEntryAtom col id (.slice es))) = env id ∧
    unitVal env (.atom (mapEntryAtom col id (.slice es)).negate) = (env id).not := by
  constructor
  · rw [unitVal_cmp]; rfl
  · rw [unitVal_cmp, cmpVal_negate]; rfl

/-- nil map values (untyped nil, nil pointer, invalid sql.Null*) mean IS NULL -/
theorem C02_map_nil_is_null (col : String) (id : Nat) :
    (mapEntryAtom col id .nil).text = col ++ " IS NULL" := rfl

/-! ### the reading of `IN` with NULLs (reference semantics, tied to SQLite by suite in.sem) -/

theorem eqVal_none_left (e : Option Int) : eqVal none e = .u := by cases e <;> rfl

/-- a row whose column is NULL is never selected by `IN`, whatever the elements (NULL elements included) … -/
theorem C02_in_null_row_unknown (e : Option Int) (es : List (Option Int)) : inListVal none (e :: es) = .u := by
  induction es generalizing e with
  | nil => simp [inListVal, eqVal_none_left, V3.or]
  | cons e2 r ih =>
    have := ih e2
    simp only [inListVal] at this ⊢
    rw [this, eqVal_none_left]; rfl

theorem C02_in_null_row_not_selected (es : List (Option Int)) : inListVal none es ≠ .t := by
  cases es with
  | nil => simp [inListVal]
  | cons e r => rw [C02_in_null_row_unknown]; simp

theorem V3.or_ne_f_left (a b : V3) (h : a ≠ .f) : a.or b ≠ .f := by
  cases a <;> cases b <;> simp_all [V3.or]

theorem V3.or_ne_f_right (a b : V3) (h : b ≠ .f) : a.or b ≠ .f := by
  cases a <;> cases b <;> simp_all [V3.or]

/-- … and `NOT IN` over a list that holds a NULL element selects NO row at all: `x IN (…, NULL, …)` is never FALSE -/
theorem C02_in_with_null_never_false (x : Option Int) (es : List (Option Int)) (h : none ∈ es) :
    inListVal x es ≠ .f := by
  induction es with
  | nil => simp at h
  | cons e r ih =>
    simp only [inListVal]
    rcases List.mem_cons.mp h with he | hr
    · subst he
      apply V3.or_ne_f_left
      cases x <;> simp [eqVal]
    · exact V3.or_ne_f_right _ _ (ih hr)

theorem C02_not_in_with_null_selects_nothing (x : Option Int) (es : List (Option Int)) (h : none ∈ es) :
    (inListVal x es).not ≠ .t := by
  have := C02_in_with_null_never_false x es h
  cases hv : inListVal x es <;> simp_all [V3.not]

/-- `IN` is TRUE exactly on a match with a non-NULL element -/
theorem C02_in_true_iff (x : Option Int) (es : List (Option Int)) :
    inListVal x es = .t ↔ ∃ v, x = some v ∧ some v ∈ es := by
  induction es with
  | nil => simp [inListVal]
  | cons e r ih =>
    simp only [inListVal]
    constructor
    · intro h
      have : eqVal x e = .t ∨ inListVal x r = .t := by
        cases h1 : eqVal x e <;> cases h2 : inListVal x r <;> simp_all [V3.or]
      rcases this with h1 | h2
      · cases x with
        | none => simp [eqVal] at h1
        | some a =>
          cases e with
          | none => simp [eqVal] at h1
          | some b =>
            by_cases hab : a = b
            · exact ⟨a, rfl, by simp [hab]⟩
            · simp [eqVal, hab] at h1
      · obtain ⟨v, hx, hm⟩ := ih.mp h2
        exact ⟨v, hx, List.mem_cons_of_mem _ hm⟩
    · rintro ⟨v, hx, hm⟩
      rcases List.mem_cons.mp hm with he | hr
      · subst hx; subst he; simp [eqVal, V3.or]
      · have := ih.mpr ⟨v, hx, hr⟩
        rw [this]; cases eqVal x e <;> rfl

/-- what the "pull the NULL elements out into `OR col IS NULL`" reading would select instead (kernel-checked witness): a
    NULL row for `IN (1, NULL)`, and a non-matching row for `NOT IN (1, NULL)` -/
theorem C02_in_null_pulled_counterexample :
    inListVal none [some 1, none] = .u ∧ inListNullPulled none [some 1, none] = .t ∧
    (inListVal (some 2) [some 1, none]).not = .u ∧ (inListNullPulled (some 2) [some 1, none]).not = .t := by
  decide

/-- non-vacuity: a three-key map with a nil value, a scalar and a slice holding a NULL element -/
example :
    (mapConds [("a", 0, .nil), ("b", 1, .scalar), ("s", 2, .slice [.val, .null, .val])]).map Atom.text
      = ["a IS NULL", "b = ?", "s IN (?,?,?)"] := by decide

end Gorm
