/- C07: theorems over regenerated shared-write facts (Gen/SharedWrites.lean). -/
namespace Gorm
end Gorm
