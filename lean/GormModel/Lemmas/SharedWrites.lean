/-
  C07: theorems over regenerated shared-write facts (Gen/SharedWrites.lean, Gen/CloneFacts.lean): which handle-wide
  shared locations are assigned at all by the code every concurrent operation runs through.  Each theorem is a `decide`
  over a table the extractor regenerates from /repo on every run, so adding a write re-states (and breaks) it.
-/
import GormModel.Gen.SharedWrites
import GormModel.Gen.CloneFacts
namespace Gorm
open Gorm.Gen

/-- configuration-time API (gorm.Open, db.Use, Callback().Register/Remove/Replace → compile): not part of "using" a handle -/
def c07ConfigTimeFns : List String :=
  ["Open", "DB.Use", "processor.compile", "callback.Register", "callback.Remove", "callback.Replace"]

/-- processor.fns / processor.callbacks / Config.callbacks / Config.cacheStore / Config.Plugins are assigned only by
  configuration-time functions — no finisher, callback or chain method assigns them. -/
theorem C07_shared_fields_assigned_only_at_config_time :
    ∀ s ∈ sharedFieldWrites, s.fn ∈ c07ConfigTimeFns := by decide

/-- `processor.fns` (read by every Execute) is only assigned in `compile` -/
theorem C07_fns_only_assigned_in_compile :
    ∀ s ∈ sharedFieldWrites, s.field = "fns" → s.fn = "processor.compile" := by decide

/-- `Config.cacheStore` is only assigned in `Open` -/
theorem C07_cacheStore_only_assigned_in_open :
    ∀ s ∈ sharedFieldWrites, s.field = "cacheStore" → s.fn = "Open" := by decide

/-- `processor.Execute` assigns fields only through `stmt` / `db` — the operation's own instance — never through the
  processor `p` (shared by all goroutines using the handle) -/
theorem C07_execute_assigns_only_operation_state :
    ∀ s ∈ hotFuncWrites, s.fn = "processor.Execute" → (s.base = "stmt" ∨ s.base = "db") := by decide

/-- `getInstance` assigns only fields of the NEW instance `tx`, never of the shared receiver `db` -/
theorem C07_getInstance_assigns_only_new_instance :
    ∀ s ∈ hotFuncWrites, s.fn = "DB.getInstance" → s.base = "tx" := by decide

/-- `Statement.clone` assigns only fields of the new statement -/
theorem C07_clone_assigns_only_new_statement :
    ∀ s ∈ hotFuncWrites, s.fn = "Statement.clone" → s.base = "newStmt" := by decide

/-- the per-operation statement gets FRESH maps (Clauses in getInstance; Clauses and Preloads in clone), so map writes of
  one goroutine's operation never land in a map reachable from the shared handle -/
theorem C07_instance_statement_has_fresh_maps :
    getInstanceLiteral.lookup "Clauses" = some "map[string]clause.Clause{}" ∧
    cloneLiteral.lookup "Clauses" = some "map[string]clause.Clause{}" ∧
    cloneLiteral.lookup "Preloads" = some "map[string][]interface{}{}" := by decide

/-- non-vacuity: the tables are populated for each function the theorems speak about -/
example : (∃ s ∈ hotFuncWrites, s.fn = "processor.Execute") ∧ (∃ s ∈ hotFuncWrites, s.fn = "DB.getInstance") ∧
    (∃ s ∈ hotFuncWrites, s.fn = "Statement.clone") ∧ (∃ s ∈ sharedFieldWrites, s.field = "fns") ∧
    (∃ s ∈ sharedFieldWrites, s.field = "cacheStore") := by decide

end Gorm
