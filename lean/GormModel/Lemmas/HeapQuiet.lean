/-
  C06 — on the configuration "copies everywhere" (`cfgSafe`) every LINEAR history is QUIET: no step ever
  writes an exposed (already initialised) slot of a backing array.
-/
import GormModel.Lemmas.Heap
namespace Gorm.Heap

def cfgSafe : Cfg :=
  { cl := { clauses := .freshMapShallow, selects := .shared, omits := .shared, joins := .makeCopy, scopes := .makeCopy, clone2UsesClone := true },
    mg := { wher := .makeCopy, order := .makeCopy, group := .makeCopy, ret := .makeCopy },
    fx := { groupCopies := true, groupInstance := true, buildCopies := true, selectCopies := true } }

/-! ## linear histories -/

/-- the handles an op uses: its source and its arguments (`skip` uses nothing) -/
def Op.uses : Op → List Nat
  | .skip => []
  | op => op.src :: op.args

/-- is handle `i ≥ 1` the result of a derivation (Session / Session{NewDB} / WithContext / Begin)? -/
def derivedAt (ops : List Op) (i : Nat) : Bool :=
  match ops[i - 1]? with
  | some (.session _) | some (.newdb _) | some (.ctx _) | some (.begin _) => true
  | _ => false

/-- derivation results and the results of `skip` (a fresh root handle) -/
def reusableAt (ops : List Op) (i : Nat) : Bool :=
  match ops[i - 1]? with
  | some (.session _) | some (.newdb _) | some (.ctx _) | some (.begin _) | some .skip => true
  | _ => false

def Linear (ops : List Op) : Prop :=
  (∀ i, 1 ≤ i → derivedAt ops i = false → ((ops.flatMap Op.uses).count i) ≤ 1) ∧
  (∀ (j : Nat) (op : Op), ops[j]? = some op → ∀ u ∈ op.uses, u ≤ j)

/-- weaker: results of `skip` may be reused as well -/
def LinearW (ops : List Op) : Prop :=
  (∀ i, 1 ≤ i → reusableAt ops i = false → ((ops.flatMap Op.uses).count i) ≤ 1) ∧
  (∀ (j : Nat) (op : Op), ops[j]? = some op → ∀ u ∈ op.uses, u ≤ j)

/-! ### helpers -/

/-- `reusableAt` / `derivedAt` only depend on the op at index `i - 1` -/
theorem reusableAt_congr {l l' : List Op} {i : Nat} (h : l[i - 1]? = l'[i - 1]?) :
    reusableAt l i = reusableAt l' i := by
  unfold reusableAt; rw [h]

theorem derivedAt_congr {l l' : List Op} {i : Nat} (h : l[i - 1]? = l'[i - 1]?) :
    derivedAt l i = derivedAt l' i := by
  unfold derivedAt; rw [h]

theorem derivedAt_false_of_reusableAt_false {ops : List Op} {i : Nat}
    (h : reusableAt ops i = false) : derivedAt ops i = false := by
  unfold reusableAt at h
  unfold derivedAt
  cases hx : ops[i - 1]? with
  | none => rfl
  | some o => rw [hx] at h; cases o <;> simp_all

/-- no forward references ⇒ every used handle is below the length -/
theorem uses_lt_length {l : List Op}
    (h : ∀ (j : Nat) (op : Op), l[j]? = some op → ∀ u ∈ op.uses, u ≤ j) :
    ∀ x ∈ l.flatMap Op.uses, x < l.length := by
  intro x hx
  rcases List.mem_flatMap.1 hx with ⟨o, ho, hxo⟩
  rcases List.mem_iff_getElem?.1 ho with ⟨j, hj⟩
  have h1 := h j o hj x hxo
  have h2 : j < l.length := by
    rcases List.getElem?_eq_some_iff.1 hj with ⟨hlt, _⟩
    exact hlt
  omega

theorem count_uses_eq_zero_of_length_lt {l : List Op}
    (h : ∀ (j : Nat) (op : Op), l[j]? = some op → ∀ u ∈ op.uses, u ≤ j) {i : Nat} (hi : l.length ≤ i) :
    (l.flatMap Op.uses).count i = 0 := by
  apply List.count_eq_zero.2
  intro hm
  have := uses_lt_length h i hm
  omega

theorem count_take_le (ops : List Op) (n i : Nat) :
    ((ops.take n).flatMap Op.uses).count i ≤ (ops.flatMap Op.uses).count i := by
  conv => rhs; rw [← List.take_append_drop n ops]
  rw [List.flatMap_append, List.count_append]
  omega

theorem take_noforward {ops : List Op}
    (h : ∀ (j : Nat) (op : Op), ops[j]? = some op → ∀ u ∈ op.uses, u ≤ j) (n : Nat) :
    ∀ (j : Nat) (op : Op), (ops.take n)[j]? = some op → ∀ u ∈ op.uses, u ≤ j := by
  intro j op hj
  rw [List.getElem?_take] at hj
  split at hj
  · exact h j op hj
  · cases hj

/-! ### main theorems -/

theorem Linear.toW {ops : List Op} (h : Linear ops) : LinearW ops :=
  ⟨fun i hi hr => h.1 i hi (derivedAt_false_of_reusableAt_false hr), h.2⟩

theorem Linear.take {ops : List Op} (h : Linear ops) (n : Nat) : Linear (ops.take n) := by
  refine ⟨?_, take_noforward h.2 n⟩
  intro i hi hd
  by_cases hlt : i - 1 < n
  · have heq : (ops.take n)[i - 1]? = ops[i - 1]? := by
      rw [List.getElem?_take]; simp [hlt]
    rw [derivedAt_congr heq] at hd
    exact Nat.le_trans (count_take_le ops n i) (h.1 i hi hd)
  · have : ((ops.take n).flatMap Op.uses).count i = 0 := by
      apply count_uses_eq_zero_of_length_lt (take_noforward h.2 n)
      have := List.length_take_le n ops
      omega
    omega

theorem LinearW.take {ops : List Op} (h : LinearW ops) (n : Nat) : LinearW (ops.take n) := by
  refine ⟨?_, take_noforward h.2 n⟩
  intro i hi hd
  by_cases hlt : i - 1 < n
  · have heq : (ops.take n)[i - 1]? = ops[i - 1]? := by
      rw [List.getElem?_take]; simp [hlt]
    rw [reusableAt_congr heq] at hd
    exact Nat.le_trans (count_take_le ops n i) (h.1 i hi hd)
  · have : ((ops.take n).flatMap Op.uses).count i = 0 := by
      apply count_uses_eq_zero_of_length_lt (take_noforward h.2 n)
      have := List.length_take_le n ops
      omega
    omega

theorem count_mask_le (ops : List Op) (mask : List Bool) (i : Nat) :
    ((ops.zipWith (fun op b => if b then op else Op.skip) mask).flatMap Op.uses).count i
      ≤ (ops.flatMap Op.uses).count i := by
  induction ops generalizing mask with
  | nil => simp
  | cons o os ih =>
    cases mask with
    | nil => simp
    | cons b bs =>
      simp only [List.zipWith_cons_cons, List.flatMap_cons, List.count_append]
      have := ih bs
      cases b
      · simp only [Bool.false_eq_true, if_false]
        have : (Op.uses Op.skip).count i = 0 := by simp [Op.uses]
        omega
      · simp only [if_true]
        omega

theorem mask_getElem?_some {ops : List Op} {mask : List Bool} {j : Nat} {o' : Op}
    (h : (ops.zipWith (fun op b => if b then op else Op.skip) mask)[j]? = some o') :
    ∃ op b, ops[j]? = some op ∧ mask[j]? = some b ∧ o' = if b then op else Op.skip := by
  rw [List.getElem?_zipWith] at h
  cases ho : ops[j]? with
  | none => rw [ho] at h; simp at h
  | some op =>
    cases hb : mask[j]? with
    | none => rw [ho, hb] at h; simp at h
    | some b =>
      rw [ho, hb] at h
      simp only [Option.some.injEq] at h
      exact ⟨op, b, rfl, rfl, h.symm⟩

theorem mask_noforward {ops : List Op}
    (h : ∀ (j : Nat) (op : Op), ops[j]? = some op → ∀ u ∈ op.uses, u ≤ j) (mask : List Bool) :
    ∀ (j : Nat) (op : Op), (ops.zipWith (fun op b => if b then op else Op.skip) mask)[j]? = some op →
      ∀ u ∈ op.uses, u ≤ j := by
  intro j o' hj u hu
  rcases mask_getElem?_some hj with ⟨op, b, ho, _, rfl⟩
  cases b
  · simp [Op.uses] at hu
  · simp only [if_true] at hu
    exact h j op ho u hu

theorem LinearW.mask {ops : List Op} (h : LinearW ops) (mask : List Bool) :
    LinearW (ops.zipWith (fun op b => if b then op else Op.skip) mask) := by
  refine ⟨?_, mask_noforward h.2 mask⟩
  intro i hi hr
  cases hm : (ops.zipWith (fun op b => if b then op else Op.skip) mask)[i - 1]? with
  | none =>
    have hlen : (ops.zipWith (fun op b => if b then op else Op.skip) mask).length ≤ i - 1 :=
      List.getElem?_eq_none_iff.1 hm
    have : ((ops.zipWith (fun op b => if b then op else Op.skip) mask).flatMap Op.uses).count i = 0 := by
      apply count_uses_eq_zero_of_length_lt (mask_noforward h.2 mask)
      omega
    omega
  | some o' =>
    rcases mask_getElem?_some hm with ⟨op, b, ho, _, rfl⟩
    have hr' : reusableAt ops i = false := by
      unfold reusableAt at hr ⊢
      rw [hm] at hr
      rw [ho]
      cases b
      · simp at hr
      · simpa using hr
    exact Nat.le_trans (count_mask_le ops mask i) (h.1 i hi hr')

/-- what the main induction needs: a non-reusable handle used by op number `n` was not used by ops 0..n-1 -/
theorem LinearW.fresh {ops : List Op} (h : LinearW ops) (n : Nat) (op : Op) (hop : ops[n]? = some op)
    (u : Nat) (hu : u ∈ op.uses) (h1 : 1 ≤ u) (hr : reusableAt ops u = false) :
    u ∉ (ops.take n).flatMap Op.uses := by
  rcases List.getElem?_eq_some_iff.1 hop with ⟨hlt, hget⟩
  have hsplit : ops = ops.take n ++ op :: ops.drop (n + 1) := by
    have := List.take_append_drop n ops
    rw [List.drop_eq_getElem_cons hlt, hget] at this
    exact this.symm
  have hc := h.1 u h1 hr
  rw [hsplit, List.flatMap_append, List.flatMap_cons, List.count_append, List.count_append] at hc
  have hpos : 0 < op.uses.count u := List.count_pos_iff.2 hu
  apply List.count_eq_zero.1
  omega

/-! ## heaps that leave every old array untouched -/

/-- counter unmoved, every array of `H` is still there with exactly the same initialised slots -/
def Same (H H' : Heap) : Prop :=
  H'.writes = H.writes ∧ H.arrs.length ≤ H'.arrs.length ∧ ∀ b, b < H.arrs.length → H'.cells b = H.cells b

theorem Same.refl (H : Heap) : Same H H := ⟨rfl, Nat.le_refl _, fun _ _ => rfl⟩

theorem Same.trans {A B C : Heap} (h1 : Same A B) (h2 : Same B C) : Same A C :=
  ⟨h2.1.trans h1.1, Nat.le_trans h1.2.1 h2.2.1,
   fun b hb => (h2.2.2 b (Nat.lt_of_lt_of_le hb h1.2.1)).trans (h1.2.2 b hb)⟩

theorem alloc_same (H : Heap) (cs : List Cell) (cap : Nat) : Same H (alloc H cs cap).1 := by
  refine ⟨rfl, by simp [alloc], fun b hb => ?_⟩
  simp only [alloc]
  exact cells_append_lt H.arrs cs H.writes b hb

theorem makeCopy_same (H : Heap) (s : Slice) : Same H (makeCopy H s).1 := alloc_same _ _ _

def Full (s : Slice) : Prop := s.cap ≤ s.len

/-- the slice ends exactly at the frontier of its (existing) array -/
def Tight (H : Heap) (s : Slice) : Prop := s.off + s.len = (H.cells s.arr).length ∧ s.arr < H.arrs.length

def Good (H : Heap) (s : Slice) : Prop := Full s ∨ Tight H s

theorem full_nil : Full Slice.nil := by simp [Full, Slice.nil]

theorem Tight.same {H H' : Heap} {s : Slice} (h : Tight H s) (hs : Same H H') : Tight H' s :=
  ⟨by rw [hs.2.2 _ h.2]; exact h.1, Nat.lt_of_lt_of_le h.2 hs.2.1⟩

theorem Good.same {H H' : Heap} {s : Slice} (h : Good H s) (hs : Same H H') : Good H' s :=
  h.elim Or.inl (fun t => Or.inr (t.same hs))

theorem alloc_tight (H : Heap) (cs : List Cell) (cap : Nat) :
    Tight (alloc H cs cap).1 (alloc H cs cap).2 ∧ (alloc H cs cap).2.arr = H.arrs.length := by
  refine ⟨⟨?_, by simp [alloc]⟩, rfl⟩
  simp [alloc, Heap.cells, List.getD_eq_getElem?_getD]

theorem appendS_full_same (H : Heap) (s : Slice) (cs : List Cell) (h : Full s) : Same H (appendS H s cs).1 := by
  unfold appendS
  split
  · exact Same.refl H
  · rename_i hne
    split
    · rename_i hfit
      have : cs.length = 0 := by unfold Full at h; omega
      simp [List.length_eq_zero_iff.mp this] at hne
    · exact alloc_same _ _ _

/-! ## writes at the frontier -/

theorem writeAt_frontier (H : Heap) (a : Nat) (c : Cell) (ha : a < H.arrs.length) :
    (writeAt H a (H.cells a).length c).writes = H.writes ∧
    (writeAt H a (H.cells a).length c).arrs.length = H.arrs.length ∧
    (writeAt H a (H.cells a).length c).cells a = H.cells a ++ [c] ∧
    ∀ b, b ≠ a → (writeAt H a (H.cells a).length c).cells b = H.cells b := by
  unfold writeAt
  simp only [Nat.lt_irrefl, if_false, true_and, ha, if_true]
  refine ⟨by simp, ?_, fun b hb => ?_⟩
  · simp [Heap.cells, List.getD_eq_getElem?_getD, ha]
  · simp [Heap.cells, List.getD_eq_getElem?_getD, List.getElem?_set_ne (Ne.symm hb)]

theorem writeFrom_frontier (cs : List Cell) : ∀ (H : Heap) (a i : Nat), i = (H.cells a).length → a < H.arrs.length →
    (writeFrom H a i cs).writes = H.writes ∧
    (writeFrom H a i cs).arrs.length = H.arrs.length ∧
    (writeFrom H a i cs).cells a = H.cells a ++ cs ∧
    ∀ b, b ≠ a → (writeFrom H a i cs).cells b = H.cells b := by
  induction cs with
  | nil => intro H a i _ _; simp [writeFrom]
  | cons c cs ih =>
    intro H a i hi ha
    subst hi
    obtain ⟨w1, l1, c1, o1⟩ := writeAt_frontier H a c ha
    have := ih (writeAt H a (H.cells a).length c) a ((H.cells a).length + 1) (by rw [c1]; simp) (by rw [l1]; exact ha)
    obtain ⟨w2, l2, c2, o2⟩ := this
    simp only [writeFrom]
    refine ⟨w2.trans w1, l2.trans l1, by rw [c2, c1]; simp, fun b hb => (o2 b hb).trans (o1 b hb)⟩

/-- `append` onto a slice that is full or ends at its array's frontier -/
theorem appendS_good (H : Heap) (s : Slice) (cs : List Cell) (hne : cs ≠ []) (hg : Good H s) :
    (appendS H s cs).1.writes = H.writes ∧ H.arrs.length ≤ (appendS H s cs).1.arrs.length ∧
    (∀ b, b < H.arrs.length → (b ≠ s.arr ∨ Full s) → (appendS H s cs).1.cells b = H.cells b) ∧
    Tight (appendS H s cs).1 (appendS H s cs).2 ∧
    (((appendS H s cs).2.arr = s.arr ∧ ¬ Full s) ∨ H.arrs.length ≤ (appendS H s cs).2.arr) := by
  unfold appendS
  have h0 : cs.isEmpty = false := by cases cs <;> simp_all
  simp only [h0, Bool.false_eq_true, if_false]
  split
  · rename_i hfit
    have hl : 0 < cs.length := by cases cs <;> simp_all
    have hnf : ¬ Full s := by unfold Full; omega
    have ht : Tight H s := hg.elim (fun h => absurd h hnf) id
    obtain ⟨w, l, c, o⟩ := writeFrom_frontier cs H s.arr (s.off + s.len) ht.1 ht.2
    refine ⟨w, by rw [l]; exact Nat.le_refl _, fun b _ hb => ?_, ⟨?_, by rw [l]; exact ht.2⟩, Or.inl ⟨rfl, hnf⟩⟩
    · exact o b (hb.elim id (fun h => absurd h hnf))
    · simp only [c, List.length_append]; have := ht.1; omega
  · have hs := alloc_same H (readS H s ++ cs) (growCap s.cap (s.len + cs.length))
    have ht := alloc_tight H (readS H s ++ cs) (growCap s.cap (s.len + cs.length))
    exact ⟨hs.1, hs.2.1, fun b hb _ => hs.2.2 b hb, ht.1, Or.inr (Nat.le_of_eq ht.2.symm)⟩

/-! ## the append folds of `Select` -/

def FoldInv (H0 : Heap) (p : Heap × Slice) : Prop :=
  Same H0 p.1 ∧ (Full p.2 ∨ (Tight p.1 p.2 ∧ H0.arrs.length ≤ p.2.arr))

theorem appendFold_inv (H0 : Heap) (l : List Nat) (p : Heap × Slice) (hp : FoldInv H0 p) :
    FoldInv H0 (l.foldl (fun (p : Heap × Slice) b => appendS p.1 p.2 [.atom b]) p) := by
  induction l generalizing p with
  | nil => exact hp
  | cons b l ih =>
    apply ih
    obtain ⟨hs, hq⟩ := hp
    have hg : Good p.1 p.2 := hq.elim Or.inl (fun h => Or.inr h.1)
    obtain ⟨w, ln, c, t, o⟩ := appendS_good p.1 p.2 [.atom b] (by simp) hg
    refine ⟨⟨w.trans hs.1, Nat.le_trans hs.2.1 ln, fun x hx => ?_⟩, Or.inr ⟨t, ?_⟩⟩
    · rw [c x (Nat.lt_of_lt_of_le hx hs.2.1) ?_]
      · exact hs.2.2 x hx
      · rcases hq with hf | ⟨_, ha⟩
        · exact Or.inr hf
        · exact Or.inl (by omega)
    · rcases o with ⟨e, nf⟩ | o
      · rcases hq with hf | ⟨_, ha⟩
        · exact absurd hf nf
        · rw [e]; exact ha
      · exact Nat.le_trans hs.2.1 o

theorem appendFold_same (H : Heap) (l : List Nat) (p : Heap × Slice) (hs : Same H p.1) (hf : Full p.2) :
    Same H (l.foldl (fun (p : Heap × Slice) b => appendS p.1 p.2 [.atom b]) p).1 :=
  (appendFold_inv H l p ⟨hs, Or.inl hf⟩).1

/-! ## clone / getInstance -/

theorem cloneField_same (k : CopyKind) (H : Heap) (s : Slice) : Same H (cloneField k H s).1 := by
  unfold cloneField
  cases k <;> simp only <;> try exact Same.refl H
  split
  · exact makeCopy_same _ _
  · exact Same.refl H

theorem cloneField_full (H : Heap) (s : Slice) : Full (cloneField .makeCopy H s).2 := by
  unfold cloneField
  simp only
  split
  · exact makeCopy_cap H s
  · exact full_nil

theorem cloneStmt_same (c : CloneCfg) (H : Heap) (st : Stmt) : Same H (cloneStmt c H st).1 := by
  unfold cloneStmt
  exact Same.trans (cloneField_same _ _ _) (Same.trans (cloneField_same _ _ _) (Same.trans (cloneField_same _ _ _) (cloneField_same _ _ _)))

def fieldOf (st : Stmt) : Bool → Slice
  | false => st.joins
  | true => st.scopes

theorem cloneStmt_full (H : Heap) (st : Stmt) (b : Bool) : Full (fieldOf (cloneStmt cfgSafe.cl H st).2 b) := by
  cases b
  · simp only [fieldOf, cloneStmt, cfgSafe]
    exact cloneField_full _ _
  · simp only [fieldOf, cloneStmt, cfgSafe]
    exact cloneField_full _ _

theorem getInstance_safe (H : Heap) (h : Handle) :
    Same H (getInstance cfgSafe.cl H h).1 ∧
    ((h.clone = 0 ∧ getInstance cfgSafe.cl H h = (H, h)) ∨
     (h.clone ≠ 0 ∧ ∀ b, Full (fieldOf (getInstance cfgSafe.cl H h).2.st b))) := by
  unfold getInstance
  split
  · rename_i h0
    exact ⟨Same.refl H, Or.inl ⟨h0, rfl⟩⟩
  · rename_i h0
    split
    · exact ⟨Same.refl H, Or.inr ⟨h0, fun b => by cases b <;> exact full_nil⟩⟩
    · have : cfgSafe.cl.clone2UsesClone = true := rfl
      simp only [this, if_true]
      exact ⟨cloneStmt_same _ _ _, Or.inr ⟨h0, cloneStmt_full H h.st⟩⟩

/-! ## merges, conditions and rendering under `cfgSafe`: old arrays are never touched -/

/-- the two appendable fields are passed on unchanged -/
def Keeps (st st' : Stmt) : Prop := st'.joins = st.joins ∧ st'.scopes = st.scopes

def Safe (H : Heap) (st : Stmt) (p : Heap × Stmt) : Prop := Same H p.1 ∧ Keeps st p.2

theorem Safe.of_same {H H1 : Heap} {st : Stmt} {p : Heap × Stmt} (h : Same H H1) (hp : Safe H1 st p) : Safe H st p :=
  ⟨Same.trans h hp.1, hp.2⟩

theorem mergeSlices_same (H : Heap) (o n : Slice) : Same H (mergeSlices .makeCopy H o n).1 := by
  simp only [mergeSlices]
  exact Same.trans (makeCopy_same H o) (appendS_full_same _ _ _ (makeCopy_cap H o))

theorem mergeWhere_same (H : Heap) (o : Option Slice) (n : Slice) : Same H (mergeWhere .makeCopy H o n).1 := by
  unfold mergeWhere
  cases o with
  | none => exact Same.refl H
  | some o => exact alloc_same _ _ _

theorem addWhere_safe (m : MergeCfg) (hk : m.wher = .makeCopy) (H : Heap) (st : Stmt) (n : Slice) :
    Safe H st (addWhere m H st n) := by
  unfold addWhere
  rw [hk]
  exact ⟨mergeWhere_same _ _ _, rfl, rfl⟩

theorem addOrder_safe (m : MergeCfg) (hk : m.order = .makeCopy) (H : Heap) (st : Stmt) (n : Slice) :
    Safe H st (addOrder m H st n) := by
  unfold addOrder
  split
  · exact ⟨Same.refl H, rfl, rfl⟩
  · rw [hk]; exact ⟨mergeSlices_same _ _ _, rfl, rfl⟩

theorem addGroup_safe (m : MergeCfg) (hk : m.group = .makeCopy) (H : Heap) (st : Stmt) (c hv : Slice) :
    Safe H st (addGroup m H st c hv) := by
  unfold addGroup
  split
  · exact ⟨Same.refl H, rfl, rfl⟩
  · rw [hk]; exact ⟨Same.trans (mergeSlices_same _ _ _) (mergeSlices_same _ _ _), rfl, rfl⟩

theorem addRet_safe (m : MergeCfg) (hk : m.ret = .makeCopy) (H : Heap) (st : Stmt) (n : Option Slice) :
    Safe H st (addRet m H st n) := by
  unfold addRet
  split
  · split
    · rw [hk]; exact ⟨mergeSlices_same _ _ _, rfl, rfl⟩
    · exact ⟨Same.refl H, rfl, rfl⟩
  · split <;> exact ⟨Same.refl H, rfl, rfl⟩
  · exact ⟨Same.refl H, rfl, rfl⟩

theorem addLimit_keeps (st : Stmt) (l : Option Nat) (o : Nat) : Keeps st (addLimit st l o) := by
  unfold addLimit
  split <;> exact ⟨rfl, rfl⟩

theorem wrapCond_same (H : Heap) (kind : Nat) (conds : Slice) : Same H (wrapCond H kind conds).1 := by
  unfold wrapCond
  split
  · exact Same.refl H
  · split
    · exact Same.refl H
    · split
      · split
        · exact Same.refl H
        · rename_i c _
          exact Same.trans (alloc_same H [c] 1) (alloc_same (alloc H [c] 1).1 [.orc (alloc H [c] 1).2] 1)
      · exact alloc_same H _ 1

theorem buildCondGroup_same (cp : Bool) (hcp : cp = true) (H : Heap) (arg : Stmt) : Same H (buildCondGroup cp H arg).1 := by
  unfold buildCondGroup
  split
  · exact alloc_same _ _ _
  · simp only
    have h1 : ∀ w : Slice, Same H (match readS H w with
        | [.orc o] => if cp then alloc H [.andc o] 1 else (writeAt H w.arr w.off (.andc o), w)
        | _ => (H, w) : Heap × Slice).1 := by
      intro w; split
      · split
        · exact alloc_same _ _ _
        · rename_i h; exact absurd hcp h
      · exact Same.refl H
    split
    · exact Same.trans (h1 _) (alloc_same _ _ _)
    · exact Same.trans (h1 _) (alloc_same _ _ _)

theorem foldl_same {α β : Type} (f : Heap × β → α → Heap × β) (hf : ∀ p a, Same p.1 (f p a).1) (l : List α) (p : Heap × β) :
    Same p.1 (l.foldl f p).1 := by
  induction l generalizing p with
  | nil => exact Same.refl _
  | cons a l ih => exact Same.trans (hf p a) (ih _)

theorem execScopes_same (m : MergeCfg) (hk : m.wher = .makeCopy) (H : Heap) (st : Stmt) : Same H (execScopes m H st).1 := by
  unfold execScopes
  exact foldl_same _ (fun p a => Same.trans (alloc_same p.1 [.atom a] 1) (addWhere_safe m hk _ _ _).1) _ (H, _)

theorem firstPrep_same (m : MergeCfg) (hk : m.order = .makeCopy) (fin : Nat) (H : Heap) (st : Stmt) :
    Same H (firstPrep m fin H st).1 := by
  unfold firstPrep
  split
  · exact Same.trans (alloc_same H [.atom 0] 1) (addOrder_safe m hk _ _ _).1
  · exact Same.refl H

theorem whereToks_heap (fuel : Nat) (H : Heap) (st : Stmt) : (whereToks true fuel H st).1 = H := by
  unfold whereToks
  split
  · exact whereBuild_copies_heap _ _ _
  · rfl

theorem groupToks_heap (fuel : Nat) (H : Heap) (st : Stmt) : (groupToks true fuel H st).1 = H := by
  unfold groupToks
  split
  · split
    · exact whereBuild_copies_heap _ _ _
    · rfl
  · rfl

theorem renderStmt_same (m : MergeCfg) (hw : m.wher = .makeCopy) (ho : m.order = .makeCopy) (fuel : Nat) (H : Heap)
    (st : Stmt) (fin : Nat) : Same H (renderStmt m true fuel H st fin).1 := by
  unfold renderStmt
  simp only
  split
  · rw [whereToks_heap]; exact Same.trans (execScopes_same m hw H st) (firstPrep_same m ho _ _ _)
  · rw [groupToks_heap, whereToks_heap]; exact Same.trans (execScopes_same m hw H st) (firstPrep_same m ho _ _ _)

theorem groupArgStmt_same (inst : Bool) (hi : inst = true) (H : Heap) (arg : Handle) :
    Same H (groupArgStmt cfgSafe.cl cfgSafe.mg inst H arg).1 := by
  unfold groupArgStmt
  split
  · exact Same.refl H
  · subst hi
    exact Same.trans (cloneStmt_same _ H arg.st) (execScopes_same _ rfl _ _)

/-- the ops that `append` onto a slice of the instance -/
def Op.appends : Op → Bool
  | .joins _ _ | .scopes _ _ => true
  | _ => false

/-- every chain method other than `Joins` / `Scopes`: old arrays untouched, `joins` / `scopes` passed on -/
theorem chainOn_safe (sl : List (List Nat × Nat)) (S : State) (H : Heap) (st : Stmt) (op : Op) (hop : op.appends = false) :
    Safe H st (chainOn cfgSafe sl S H st op) := by
  cases op <;> (try (simp [Op.appends] at hop)) <;> simp only [chainOn] <;> try exact ⟨Same.refl H, rfl, rfl⟩
  case cond kind _ a =>
    have h0 := Same.trans (alloc_same H [.atom a] 1) (wrapCond_same (condAtom H a).1 kind (condAtom H a).2)
    split
    · rename_i e; rw [e] at h0; exact Safe.of_same h0 (addWhere_safe _ rfl _ _ _)
    · rename_i e; rw [e] at h0; exact ⟨h0, rfl, rfl⟩
  case condG kind _ arg =>
    have hg := groupArgStmt_same cfgSafe.fx.groupInstance rfl H (S.handle arg)
    generalize groupArgStmt cfgSafe.cl cfgSafe.mg cfgSafe.fx.groupInstance H (S.handle arg) = ga at hg ⊢
    have h0 := Same.trans hg (Same.trans (buildCondGroup_same cfgSafe.fx.groupCopies rfl ga.1 ga.2) (wrapCond_same (buildCondGroup cfgSafe.fx.groupCopies ga.1 ga.2).1 kind (buildCondGroup cfgSafe.fx.groupCopies ga.1 ga.2).2))
    split
    · rename_i e; rw [e] at h0; exact Safe.of_same h0 (addWhere_safe _ rfl _ _ _)
    · rename_i e; rw [e] at h0; exact ⟨h0, rfl, rfl⟩
  case order _ a => exact Safe.of_same (alloc_same H [.atom a] 1) (addOrder_safe _ rfl _ _ _)
  case orderC => exact addOrder_safe _ rfl _ _ _
  case group _ a => exact Safe.of_same (alloc_same H [.atom a] 1) (addGroup_safe _ rfl _ _ _ _)
  case having _ a => exact Safe.of_same (alloc_same H [.atom a] 1) (addGroup_safe _ rfl _ _ _ _)
  case havingG _ arg =>
    exact Safe.of_same (Same.trans (groupArgStmt_same cfgSafe.fx.groupInstance rfl H (S.handle arg)) (buildCondGroup_same _ rfl _ _))
      (addGroup_safe _ rfl _ _ _ _)
  case ret _ cols => exact Safe.of_same (alloc_same H (cols.map .atom) cols.length) (addRet_safe _ rfl _ _ _)
  case retStar => exact addRet_safe _ rfl _ _ _
  case limit => exact ⟨Same.refl H, addLimit_keeps _ _ _⟩
  case offset => exact ⟨Same.refl H, addLimit_keeps _ _ _⟩
  case select _ cols =>
    cases cols with
    | nil => exact ⟨Same.refl H, rfl, rfl⟩
    | cons a rest =>
      exact ⟨appendFold_same H rest (alloc H [.atom a] 1) (alloc_same _ _ _) (by simp [Full, alloc]), rfl, rfl⟩
  case selectS _ sl' k extra =>
    have hsc : cfgSafe.fx.selectCopies = true := rfl
    simp only [hsc, if_true]
    exact ⟨appendFold_same H extra (makeCopy H _) (makeCopy_same _ _) (makeCopy_cap _ _), rfl, rfl⟩
  case «omit» _ cols => exact ⟨alloc_same H (cols.map .atom) cols.length, rfl, rfl⟩

/-! ## the invariant: unused chain instances own the spare capacity of their `joins` / `scopes` -/

/-- handle `i` is a chain instance (clone = 0) that no op has used so far -/
def Live (U : List Nat) (env : List Handle) (i : Nat) (h : Handle) : Prop :=
  env[i]? = some h ∧ h.clone = 0 ∧ i ∉ U

structure Inv (U : List Nat) (S : State) : Prop where
  good : ∀ i h, Live U S.env i h → ∀ b, Good S.heap (fieldOf h.st b)
  excl : ∀ i h b i' h' b', Live U S.env i h → Live U S.env i' h' →
    ¬ Full (fieldOf h.st b) → ¬ Full (fieldOf h'.st b') →
    (fieldOf h.st b).arr = (fieldOf h'.st b').arr → i = i' ∧ b = b'

theorem live_push {U us : List Nat} {env : List Handle} {hn : Handle} {i : Nat} {h : Handle}
    (hl : Live (U ++ us) (env ++ [hn]) i h) :
    (Live U env i h ∧ i ∉ us) ∨ (i = env.length ∧ h = hn ∧ hn.clone = 0) := by
  obtain ⟨e, c, nu⟩ := hl
  simp only [List.mem_append, not_or] at nu
  by_cases hi : i < env.length
  · rw [List.getElem?_append_left hi] at e
    exact Or.inl ⟨⟨e, c, nu.1⟩, nu.2⟩
  · rw [List.getElem?_append_right (by omega)] at e
    cases hk : i - env.length with
    | zero =>
      simp [hk] at e
      exact Or.inr ⟨by omega, e.symm, e ▸ c⟩
    | succ k => simp [hk] at e

theorem Inv.push {U : List Nat} {S : State} (hinv : Inv U S) (H' : Heap) (hn : Handle) (us : List Nat) (outs : List (List Tok))
    (hlen : S.heap.arrs.length ≤ H'.arrs.length)
    (hcells : ∀ i h b, Live U S.env i h → i ∉ us → ¬ Full (fieldOf h.st b) →
      H'.cells (fieldOf h.st b).arr = S.heap.cells (fieldOf h.st b).arr)
    (hgood : hn.clone = 0 → ∀ b, Good H' (fieldOf hn.st b))
    (hexcl : hn.clone = 0 → ∀ b, ¬ Full (fieldOf hn.st b) → ∀ i h b', Live U S.env i h → i ∉ us →
      ¬ Full (fieldOf h.st b') → (fieldOf hn.st b).arr ≠ (fieldOf h.st b').arr)
    (hself : hn.clone = 0 → ¬ Full (fieldOf hn.st false) → ¬ Full (fieldOf hn.st true) →
      (fieldOf hn.st false).arr ≠ (fieldOf hn.st true).arr) :
    Inv (U ++ us) ⟨H', S.env ++ [hn], outs⟩ := by
  constructor
  · intro i h hl b
    rcases live_push hl with ⟨hl, hu⟩ | ⟨_, rfl, hc⟩
    · rcases hinv.good i h hl b with hf | ht
      · exact Or.inl hf
      · by_cases hf : Full (fieldOf h.st b)
        · exact Or.inl hf
        · exact Or.inr ⟨by rw [hcells i h b hl hu hf]; exact ht.1, Nat.lt_of_lt_of_le ht.2 hlen⟩
    · exact hgood hc b
  · intro i h b i' h' b' hl hl' nf nf' ha
    rcases live_push hl with ⟨hl0, hu⟩ | ⟨ei, rfl, hc⟩
    · rcases live_push hl' with ⟨hl0', hu'⟩ | ⟨ei', rfl, hc'⟩
      · exact hinv.excl i h b i' h' b' hl0 hl0' nf nf' ha
      · exact absurd ha.symm (hexcl hc' b' nf' i h b hl0 hu nf)
    · rcases live_push hl' with ⟨hl0', hu'⟩ | ⟨ei', rfl, hc'⟩
      · exact absurd ha (hexcl hc b nf i' h' b' hl0' hu' nf')
      · refine ⟨ei.trans ei'.symm, ?_⟩
        cases b <;> cases b' <;> first | rfl | exact absurd ha (hself hc nf nf') | exact absurd ha.symm (hself hc nf' nf)

/-- a step that touches no old array, whose new handle is reusable, or all-full, or inherits from a used live handle -/
theorem Inv.push_same {U : List Nat} {S : State} (hinv : Inv U S) (H' : Heap) (hn : Handle) (us : List Nat) (outs : List (List Tok))
    (hs : Same S.heap H')
    (hprov : hn.clone = 0 → (∀ b, Full (fieldOf hn.st b)) ∨
      (∃ i h, Live U S.env i h ∧ i ∈ us ∧ ∀ b, fieldOf hn.st b = fieldOf h.st b)) :
    Inv (U ++ us) ⟨H', S.env ++ [hn], outs⟩ := by
  have htight : ∀ i h b, Live U S.env i h → ¬ Full (fieldOf h.st b) → Tight S.heap (fieldOf h.st b) :=
    fun i h b hl nf => (hinv.good i h hl b).elim (fun f => absurd f nf) id
  apply hinv.push H' hn us outs hs.2.1
  · intro i h b hl _ nf
    exact hs.2.2 _ (htight i h b hl nf).2
  · intro hc b
    rcases hprov hc with hf | ⟨i, h, hl, _, e⟩
    · exact Or.inl (hf b)
    · rw [e b]; exact (hinv.good i h hl b).same hs
  · intro hc b nf i' h' b' hl' hu' nf' ha
    rcases hprov hc with hf | ⟨i, h, hl, hiu, e⟩
    · exact nf (hf b)
    · rw [e b] at nf ha
      have := (hinv.excl i h b i' h' b' hl hl' nf nf' ha).1
      exact hu' (this ▸ hiu)
  · intro hc nf nf' ha
    rcases hprov hc with hf | ⟨i, h, hl, hiu, e⟩
    · exact nf (hf false)
    · rw [e false] at nf ha
      rw [e true] at nf' ha
      have := (hinv.excl i h false i h true hl hl nf nf' ha).2
      exact absurd this (by decide)

/-- where the instance of a source handle comes from -/
theorem instance_prov (U : List Nat) (S : State) (src : Nat)
    (hsrc : ∀ h, S.env[src]? = some h → h.clone = 0 → src ∉ U) :
    Same S.heap (getInstance cfgSafe.cl S.heap (S.handle src)).1 ∧
    ((∀ b, Full (fieldOf (getInstance cfgSafe.cl S.heap (S.handle src)).2.st b)) ∨
     ((getInstance cfgSafe.cl S.heap (S.handle src)).1 = S.heap ∧
      ∃ h, Live U S.env src h ∧ (getInstance cfgSafe.cl S.heap (S.handle src)).2.st = h.st)) := by
  obtain ⟨hs, hc⟩ := getInstance_safe S.heap (S.handle src)
  refine ⟨hs, ?_⟩
  rcases hc with ⟨h0, e⟩ | ⟨_, hf⟩
  · right
    rw [e]
    refine ⟨rfl, S.handle src, ⟨?_, h0, ?_⟩, rfl⟩
    · unfold State.handle at h0 ⊢
      rw [List.getD_eq_getElem?_getD] at h0 ⊢
      cases hg : S.env[src]? with
      | none => simp [hg] at h0
      | some h => simp
    · have : S.env[src]? = some (S.handle src) := by
        unfold State.handle at h0 ⊢
        rw [List.getD_eq_getElem?_getD] at h0 ⊢
        cases hg : S.env[src]? with
        | none => simp [hg] at h0
        | some h => simp
      exact hsrc _ this h0
  · exact Or.inl hf

theorem keeps_field {st st' : Stmt} (hk : Keeps st st') (b : Bool) : fieldOf st' b = fieldOf st b := by
  cases b
  · exact hk.1
  · exact hk.2

/-- a step whose new handle is `⟨st', 0⟩` with `st'` keeping the instance's `joins` / `scopes`, old arrays untouched -/
theorem Inv.push_inst {U : List Nat} {S : State} (hinv : Inv U S) (src : Nat) (us : List Nat) (hsu : src ∈ us)
    (hsrc : ∀ h, S.env[src]? = some h → h.clone = 0 → src ∉ U)
    (H' : Heap) (st' : Stmt) (outs : List (List Tok))
    (hs : Same (getInstance cfgSafe.cl S.heap (S.handle src)).1 H')
    (hk : Keeps (getInstance cfgSafe.cl S.heap (S.handle src)).2.st st') :
    H'.writes = S.heap.writes ∧ Inv (U ++ us) ⟨H', S.env ++ [⟨st', 0⟩], outs⟩ := by
  obtain ⟨hg, hp⟩ := instance_prov U S src hsrc
  have hs' := Same.trans hg hs
  refine ⟨hs'.1, hinv.push_same H' _ us outs hs' (fun _ => ?_)⟩
  rcases hp with hf | ⟨_, h, hl, e⟩
  · exact Or.inl (fun b => by rw [keeps_field hk b]; exact hf b)
  · exact Or.inr ⟨src, h, hl, hsu, fun b => by rw [keeps_field hk b, e]⟩

/-- `Joins` / `Scopes`: the instance's field `b0` is appended in place (at the frontier of an array nobody else
    claims) or reallocated -/
theorem Inv.push_append {U : List Nat} {S : State} (hinv : Inv U S) (src : Nat) (us : List Nat) (hsu : src ∈ us)
    (G : Heap) (st : Stmt) (hg : Same S.heap G)
    (hp : (∀ b, Full (fieldOf st b)) ∨ (G = S.heap ∧ ∃ h, Live U S.env src h ∧ st = h.st))
    (b0 : Bool) (c : Cell) (st' : Stmt) (outs : List (List Tok))
    (hb0 : fieldOf st' b0 = (appendS G (fieldOf st b0) [c]).2)
    (hb1 : fieldOf st' (!b0) = fieldOf st (!b0)) :
    (appendS G (fieldOf st b0) [c]).1.writes = S.heap.writes ∧
    Inv (U ++ us) ⟨(appendS G (fieldOf st b0) [c]).1, S.env ++ [⟨st', 0⟩], outs⟩ := by
  have htight : ∀ i h b, Live U S.env i h → ¬ Full (fieldOf h.st b) → Tight S.heap (fieldOf h.st b) :=
    fun i h b hl nf => (hinv.good i h hl b).elim (fun f => absurd f nf) id
  have hgood0 : Good G (fieldOf st b0) := by
    rcases hp with hf | ⟨rfl, h, hl, rfl⟩
    · exact Or.inl (hf b0)
    · exact hinv.good src h hl b0
  obtain ⟨w, ln, cl, tt, fr⟩ := appendS_good G (fieldOf st b0) [c] (by simp) hgood0
  generalize appendS G (fieldOf st b0) [c] = R at *
  have K : ∀ i h b, Live U S.env i h → ¬ Full (fieldOf h.st b) → (i ≠ src ∨ b ≠ b0) →
      (fieldOf h.st b).arr ≠ (fieldOf st b0).arr ∨ Full (fieldOf st b0) := by
    intro i h b hl nf hne
    by_cases hf0 : Full (fieldOf st b0)
    · exact Or.inr hf0
    · left
      rcases hp with hf | ⟨_, h0, hl0, rfl⟩
      · exact absurd (hf b0) hf0
      · intro ha
        have := hinv.excl i h b src h0 b0 hl hl0 nf hf0 ha
        rcases hne with hne | hne
        · exact hne this.1
        · exact hne this.2
  have hother : ∀ b, b ≠ b0 → b = !b0 := by intro b; cases b <;> cases b0 <;> simp
  -- the new handle's other field against the appended one
  have P : ¬ Full R.2 → ¬ Full (fieldOf st (!b0)) → R.2.arr ≠ (fieldOf st (!b0)).arr := by
    intro _ nf1
    rcases hp with hf | ⟨rfl, h0, hl0, rfl⟩
    · exact absurd (hf _) nf1
    · have t1 := htight src h0 (!b0) hl0 nf1
      rcases fr with ⟨e, nf0⟩ | fr
      · intro ha
        have := (hinv.excl src h0 b0 src h0 (!b0) hl0 hl0 nf0 nf1 (e.symm.trans ha)).2
        cases b0 <;> simp at this
      · have := t1.2; omega
  refine ⟨w.trans hg.1, ?_⟩
  apply hinv.push R.1 _ us outs (Nat.le_trans hg.2.1 ln)
  · intro i h b hl hu nf
    have hne : i ≠ src := fun e => hu (e ▸ hsu)
    have t := htight i h b hl nf
    rw [cl _ (Nat.lt_of_lt_of_le t.2 hg.2.1) (K i h b hl nf (Or.inl hne))]
    exact hg.2.2 _ t.2
  · intro _ b
    by_cases hb : b = b0
    · subst hb; rw [hb0]; exact Or.inr tt
    · rw [hother b hb, hb1]
      by_cases nf1 : Full (fieldOf st (!b0))
      · exact Or.inl nf1
      · rcases hp with hf | ⟨rfl, h0, hl0, rfl⟩
        · exact absurd (hf _) nf1
        · have t1 := htight src h0 (!b0) hl0 nf1
          have hb' : (!b0) ≠ b0 := by cases b0 <;> simp
          refine Or.inr ⟨?_, Nat.lt_of_lt_of_le t1.2 ln⟩
          rw [cl _ t1.2 (K src h0 (!b0) hl0 nf1 (Or.inr hb'))]
          exact t1.1
  · intro _ b nf i h b' hl hu nf'
    have hne : i ≠ src := fun e => hu (e ▸ hsu)
    have t := htight i h b' hl nf'
    by_cases hb : b = b0
    · subst hb
      rw [hb0] at nf ⊢
      rcases fr with ⟨e, nf0⟩ | fr
      · rw [e]
        rcases K i h b' hl nf' (Or.inl hne) with k | k
        · exact fun x => k x.symm
        · exact absurd k nf0
      · have := t.2; have := hg.2.1; omega
    · rw [hother b hb, hb1] at nf ⊢
      rcases hp with hf | ⟨_, h0, hl0, rfl⟩
      · exact absurd (hf _) nf
      · intro ha
        exact hne (hinv.excl src h0 (!b0) i h b' hl0 hl nf nf' ha).1.symm
  · intro _ nf nf'
    cases b0
    · simp only [Bool.not_false] at hb1 P
      rw [hb0] at nf ⊢
      rw [hb1] at nf' ⊢
      exact P nf nf'
    · simp only [Bool.not_true] at hb1 P
      rw [hb0] at nf' ⊢
      rw [hb1] at nf ⊢
      exact fun x => P nf' nf x.symm

/-! ## one step -/

theorem envAfter_safe (S : State) (op : Op) : envAfter cfgSafe S op = S.env := by
  have key : ∀ a, (if a < S.env.length ∧ (S.handle a).st.scopes.len ≠ 0
      then S.env.set a (argAfter cfgSafe.fx.groupInstance (S.handle a)) else S.env) = S.env := by
    intro a
    split
    · rename_i h
      have : argAfter cfgSafe.fx.groupInstance (S.handle a) = S.handle a := rfl
      rw [this]; unfold State.handle; rw [List.getD_eq_getElem?_getD]
      simp [h.1]
    · rfl
  cases op <;> simp only [envAfter] <;> first | rfl | exact key _

/-- one step under `cfgSafe`, from a state satisfying the invariant, by an op whose source — if it is a chain
    instance — has not been used before: the counter does not move and the invariant survives -/
theorem step_inv (sl : List (List Nat × Nat)) (fuel : Nat) (S : State) (U : List Nat) (op : Op) (hinv : Inv U S)
    (hsrc : ∀ h, S.env[op.src]? = some h → h.clone = 0 → op.src ∉ U) :
    (step cfgSafe sl fuel S op).heap.writes = S.heap.writes ∧ Inv (U ++ op.uses) (step cfgSafe sl fuel S op) := by
  have hc : ∀ (src : Nat) (o : Op) (us : List Nat), o.appends = false → src ∈ us →
      (∀ h, S.env[src]? = some h → h.clone = 0 → src ∉ U) →
      (chainOn cfgSafe sl S (getInstance cfgSafe.cl S.heap (S.handle src)).1 (getInstance cfgSafe.cl S.heap (S.handle src)).2.st o).1.writes = S.heap.writes ∧
      Inv (U ++ us) ⟨(chainOn cfgSafe sl S (getInstance cfgSafe.cl S.heap (S.handle src)).1 (getInstance cfgSafe.cl S.heap (S.handle src)).2.st o).1,
        S.env ++ [⟨(chainOn cfgSafe sl S (getInstance cfgSafe.cl S.heap (S.handle src)).1 (getInstance cfgSafe.cl S.heap (S.handle src)).2.st o).2, 0⟩], S.outs⟩ := by
    intro src o us ho hsu hs
    have := chainOn_safe sl S (getInstance cfgSafe.cl S.heap (S.handle src)).1 (getInstance cfgSafe.cl S.heap (S.handle src)).2.st o ho
    exact hinv.push_inst src us hsu hs _ _ _ this.1 this.2
  cases op <;> simp only [step, push, Op.src, envAfter_safe, Op.uses, Op.args] at hsrc ⊢
  case skip => exact ⟨trivial, hinv.push_same _ _ _ _ (Same.refl _) (fun h => absurd h (by simp))⟩
  case session => exact ⟨trivial, hinv.push_same _ _ _ _ (Same.refl _) (fun h => absurd h (by simp))⟩
  case newdb => exact ⟨trivial, hinv.push_same _ _ _ _ (Same.refl _) (fun h => absurd h (by simp))⟩
  case ctx src =>
    have hs := cloneStmt_same cfgSafe.cl S.heap (S.handle src).st
    exact ⟨hs.1, hinv.push_same _ _ _ _ hs (fun h => absurd h (by simp))⟩
  case begin src =>
    have hs := Same.trans (getInstance_safe S.heap (S.handle src)).1 (cloneStmt_same cfgSafe.cl _ (getInstance cfgSafe.cl S.heap (S.handle src)).2.st)
    exact ⟨hs.1, hinv.push_same _ _ _ _ hs (fun h => by simp only at h; by_cases hh : (S.handle src).clone = 1 <;> simp [hh] at h)⟩
  case render src fin =>
    exact hinv.push_inst src _ List.mem_cons_self hsrc _ _ _ (renderStmt_same cfgSafe.mg rfl rfl fuel _ _ fin) ⟨rfl, rfl⟩
  case joins src a =>
    simp only [chainOn]
    obtain ⟨hg, hp⟩ := instance_prov U S src hsrc
    exact hinv.push_append src [src] List.mem_cons_self (getInstance cfgSafe.cl S.heap (S.handle src)).1
      (getInstance cfgSafe.cl S.heap (S.handle src)).2.st hg hp false (.atom a) _ S.outs (by rfl) (by rfl)
  case scopes src a =>
    simp only [chainOn]
    obtain ⟨hg, hp⟩ := instance_prov U S src hsrc
    exact hinv.push_append src [src] List.mem_cons_self (getInstance cfgSafe.cl S.heap (S.handle src)).1
      (getInstance cfgSafe.cl S.heap (S.handle src)).2.st hg hp true (.atom a) _ S.outs (by rfl) (by rfl)
  all_goals exact hc _ _ _ rfl List.mem_cons_self hsrc

/-! ## the run -/

theorem ite12_ne_zero (c : Prop) [Decidable c] : (if c then 1 else 2) ≠ 0 := by
  split <;> simp

/-- every op appends exactly one handle; it is a chain instance only if the op is neither a derivation nor `skip` -/
theorem step_env (sl : List (List Nat × Nat)) (fuel : Nat) (S : State) (op : Op) :
    ∃ hn, (step cfgSafe sl fuel S op).env = S.env ++ [hn] ∧
      (hn.clone = 0 → ∀ (ops : List Op) (i : Nat), ops[i - 1]? = some op → reusableAt ops i = false) := by
  cases op <;> simp only [step, push, envAfter_safe] <;> refine ⟨_, rfl, ?_⟩ <;> intro h ops i e <;>
    first
    | (exfalso; simp at h; done)
    | exact absurd h (ite12_ne_zero _)
    | (unfold reusableAt; rw [e])

theorem src_mem_uses (op : Op) : op.src ∈ op.uses ∨ op.src = 0 := by
  cases op <;> simp [Op.uses, Op.src]

/-- the state after `n` ops of a linear history -/
theorem run_inv (sl : List (List Nat × Nat)) (fuel : Nat) (ops : List Op) (hl : LinearW ops) :
    ∀ n, n ≤ ops.length →
      (runFrom cfgSafe sl fuel (initState sl) (ops.take n)).heap.writes = 0 ∧
      (runFrom cfgSafe sl fuel (initState sl) (ops.take n)).env.length = n + 1 ∧
      (∀ i h, (runFrom cfgSafe sl fuel (initState sl) (ops.take n)).env[i]? = some h → h.clone = 0 →
        1 ≤ i ∧ reusableAt ops i = false) ∧
      Inv ((ops.take n).flatMap Op.uses) (runFrom cfgSafe sl fuel (initState sl) (ops.take n)) := by
  intro n
  induction n with
  | zero =>
    intro _
    simp only [List.take_zero, runFrom, List.foldl_nil, List.flatMap_nil]
    refine ⟨rfl, rfl, ?_, ⟨?_, ?_⟩⟩
    · intro i h e hc
      cases i with
      | zero => simp [initState] at e; subst e; simp at hc
      | succ i => simp [initState] at e
    · intro i h hlv
      obtain ⟨e, hc, _⟩ := hlv
      cases i with
      | zero => simp [initState] at e; subst e; simp at hc
      | succ i => simp [initState] at e
    · intro i h b i' h' b' hlv
      obtain ⟨e, hc, _⟩ := hlv
      cases i with
      | zero => simp [initState] at e; subst e; simp at hc
      | succ i => simp [initState] at e
  | succ n ih =>
    intro hn
    obtain ⟨hw, hlen, hcl, hinv⟩ := ih (by omega)
    have hop : ops[n]? = some ops[n] := List.getElem?_eq_getElem (by omega)
    have htake : ops.take (n + 1) = ops.take n ++ [ops[n]] := by
      rw [List.take_add_one, hop]; rfl
    rw [htake, runFrom_append, List.flatMap_append]
    generalize runFrom cfgSafe sl fuel (initState sl) (ops.take n) = S at hw hlen hcl hinv ⊢
    have hstep : runFrom cfgSafe sl fuel S [ops[n]] = step cfgSafe sl fuel S ops[n] := rfl
    rw [hstep]
    have huses : List.flatMap Op.uses [ops[n]] = ops[n].uses := by simp
    rw [huses]
    have hsrc : ∀ h, S.env[ops[n].src]? = some h → h.clone = 0 → ops[n].src ∉ (ops.take n).flatMap Op.uses := by
      intro h e hc
      obtain ⟨h1, hr⟩ := hcl _ h e hc
      rcases src_mem_uses ops[n] with hm | h0
      · exact hl.fresh n ops[n] hop _ hm h1 hr
      · omega
    obtain ⟨w, inv'⟩ := step_inv sl fuel S _ ops[n] hinv hsrc
    obtain ⟨hnew, henv, hnc⟩ := step_env sl fuel S ops[n]
    refine ⟨w.trans hw, by rw [henv]; simp [hlen], ?_, inv'⟩
    intro i h e hc
    rw [henv] at e
    by_cases hi : i < S.env.length
    · rw [List.getElem?_append_left hi] at e
      exact hcl i h e hc
    · rw [List.getElem?_append_right (by omega)] at e
      cases hk : i - S.env.length with
      | zero =>
        simp [hk] at e
        subst e
        have : i = n + 1 := by omega
        subst this
        exact ⟨by omega, hnc hc ops (n + 1) (by simp)⟩
      | succ k => simp [hk] at e

/-- no step ever writes an exposed (already initialised) slot -/
def Quiet (sl : List (List Nat × Nat)) (fuel : Nat) (ops : List Op) : Prop :=
  ∀ n, (runFrom cfgSafe sl fuel (initState sl) (ops.take n)).heap.writes = 0

/-- MAIN, weak quantifier (results of `skip` count as reusable, too) -/
theorem quiet_of_linearW (sl : List (List Nat × Nat)) (fuel : Nat) (ops : List Op) (hl : LinearW ops) : Quiet sl fuel ops := by
  intro n
  by_cases hn : n ≤ ops.length
  · exact (run_inv sl fuel ops hl n hn).1
  · rw [List.take_of_length_le (by omega), ← List.take_length (l := ops)]
    exact (run_inv sl fuel ops hl ops.length (Nat.le_refl _)).1

/-- MAIN: with copies everywhere, every linear history is quiet -/
theorem quiet_of_linear (sl : List (List Nat × Nat)) (fuel : Nat) (ops : List Op) (hl : Linear ops) : Quiet sl fuel ops :=
  quiet_of_linearW sl fuel ops hl.toW

/-- the dependency slices of a linear history are quiet as well (any mask, any prefix) -/
theorem quiet_mask_of_linear (sl : List (List Nat × Nat)) (fuel : Nat) (ops : List Op) (hl : Linear ops) (k : Nat) (mask : List Bool) :
    Quiet sl fuel ((ops.take k).zipWith (fun op b => if b then op else Op.skip) mask) :=
  quiet_of_linearW sl fuel _ ((hl.toW.take k).mask mask)

/-- in the shape the caller uses: `sliceFor` of a linear history is quiet -/
theorem quiet_sliceFor (fuel : Nat) (h : History) (hl : Linear h.ops) (k : Nat) :
    Quiet (sliceFor h k).slices fuel (sliceFor h k).ops :=
  quiet_mask_of_linear h.slices fuel h.ops hl (k + 1) _

/-! ## why `LinearW`: `Linear` itself is NOT inherited by arbitrary masks -/

/-- masking the derivation that created a reusable handle turns it into the result of a `skip`, which `Linear`
    (unlike `LinearW`) does not count as reusable: `[Session(0), h1.Where(7), h1.Where(8)]` is linear, the same
    history with the `Session` masked out is not.  (`depMask` never produces such a mask — it keeps the creators
    of every handle a kept op uses — but the statement for arbitrary masks needs `LinearW`.) -/
theorem linear_mask_counterexample :
    ∃ (ops : List Op) (mask : List Bool), Linear ops ∧ ¬ Linear (ops.zipWith (fun op b => if b then op else Op.skip) mask) := by
  refine ⟨[.session 0, .cond 0 1 7, .cond 0 1 8], [false, true, true], ⟨?_, ?_⟩, ?_⟩
  · intro i h1 hd
    have hi : i ≠ 1 := by
      rintro rfl
      simp [derivedAt] at hd
    have h1' : ¬ (1 = i) := fun e => hi e.symm
    have h0' : ¬ (0 = i) := by omega
    simp [Op.uses, Op.src, Op.args, h1', h0']
  · intro j op hj u hu
    match j, hj with
    | 0, hj => simp at hj; subst hj; simp [Op.uses, Op.src, Op.args] at hu; omega
    | 1, hj => simp at hj; subst hj; simp [Op.uses, Op.src, Op.args] at hu; omega
    | 2, hj => simp at hj; subst hj; simp [Op.uses, Op.src, Op.args] at hu; omega
    | (k + 3), hj => simp at hj
  · intro h
    have := h.1 1 (Nat.le_refl _) (by simp [derivedAt])
    simp [Op.uses, Op.src, Op.args] at this

/-! ## a decidable form of `Linear` (what the harness generator obeys) -/

def linearB (ops : List Op) : Bool :=
  (List.range (ops.length + 1)).all (fun i => i == 0 || derivedAt ops i || decide ((ops.flatMap Op.uses).count i ≤ 1)) &&
  (List.range ops.length).all (fun j => (ops.getD j Op.skip).uses.all (fun u => decide (u ≤ j)))

theorem linear_iff_linearB (ops : List Op) : Linear ops ↔ linearB ops = true := by
  have hfw : (∀ (j : Nat) (op : Op), ops[j]? = some op → ∀ u ∈ op.uses, u ≤ j) ↔
      (List.range ops.length).all (fun j => (ops.getD j Op.skip).uses.all (fun u => decide (u ≤ j))) = true := by
    simp only [List.all_eq_true, List.mem_range, decide_eq_true_eq]
    constructor
    · intro h j hj u hu
      exact h j _ (by rw [List.getD_eq_getElem?_getD, List.getElem?_eq_getElem hj]; rfl) u hu
    · intro h j op hop u hu
      obtain ⟨hj, e⟩ := List.getElem?_eq_some_iff.1 hop
      have := h j hj u
      rw [List.getD_eq_getElem?_getD, hop] at this
      exact this hu
  unfold Linear linearB
  rw [Bool.and_eq_true, ← hfw]
  constructor
  · rintro ⟨h1, h2⟩
    refine ⟨?_, h2⟩
    simp only [List.all_eq_true, List.mem_range, Bool.or_eq_true, beq_iff_eq, decide_eq_true_eq]
    intro i _
    by_cases h0 : i = 0
    · exact Or.inl (Or.inl h0)
    · cases hd : derivedAt ops i with
      | true => exact Or.inl (Or.inr rfl)
      | false => exact Or.inr (h1 i (by omega) hd)
  · rintro ⟨h1, h2⟩
    refine ⟨?_, h2⟩
    simp only [List.all_eq_true, List.mem_range, Bool.or_eq_true, beq_iff_eq, decide_eq_true_eq] at h1
    intro i hi hd
    by_cases hlt : i < ops.length + 1
    · rcases h1 i hlt with (h0 | hd') | hc
      · omega
      · rw [hd] at hd'; exact absurd hd' (by simp)
      · exact hc
    · rw [count_uses_eq_zero_of_length_lt h2 (by omega)]; exact Nat.zero_le _

theorem quiet_of_linearB (sl : List (List Nat × Nat)) (fuel : Nat) (ops : List Op) (hl : linearB ops = true) : Quiet sl fuel ops :=
  quiet_of_linear sl fuel ops ((linear_iff_linearB ops).2 hl)

end Gorm.Heap
