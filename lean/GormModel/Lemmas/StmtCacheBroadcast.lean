/-
  Failure broadcast: the preparer's ghost `ent` is its own entry, and a failed entry is not cached in the current
  map of the struct it was published through once its preparer has run the delete section.
-/
import GormModel.Lemmas.StmtCacheLeak
namespace Gorm.SC

def FB (s : St) : Prop :=
  (∀ e, e < s.nE → (s.threads (s.entries e).owner).ent = some e) ∧
  (∀ e, e < s.nE → (s.entries e).err = true →
    ((s.entries e).prepared = true ∨ (s.threads (s.entries e).owner).pc = .closingErr e) →
    cachedAt s (s.entries e).view (s.entries e).text ≠ some e)

theorem fb2_frame (s s' : St) (h : FB s) (hnE : s'.nE = s.nE)
    (hE : ∀ e, e < s.nE → (s'.entries e).err = (s.entries e).err ∧ (s'.entries e).view = (s.entries e).view ∧
      (s'.entries e).text = (s.entries e).text ∧ (s'.entries e).owner = (s.entries e).owner ∧
      ((s'.entries e).prepared = true → (s.entries e).prepared = true ∨ (s.threads (s.entries e).owner).pc = .closingErr e))
    (hpc : ∀ e, e < s.nE → (s'.threads (s.entries e).owner).pc = .closingErr e →
      (s.threads (s.entries e).owner).pc = .closingErr e)
    (hc : ∀ e v q, e < s.nE → cachedAt s' v q = some e → cachedAt s v q = some e) :
    ∀ e, e < s'.nE → (s'.entries e).err = true →
      ((s'.entries e).prepared = true ∨ (s'.threads (s'.entries e).owner).pc = .closingErr e) →
      cachedAt s' (s'.entries e).view (s'.entries e).text ≠ some e := by
  intro e he herr hp hcache
  rw [hnE] at he
  obtain ⟨e1, e2, e3, e4, e5⟩ := hE e he
  rw [e1] at herr
  rw [e2, e3] at hcache
  rw [e4] at hp
  have hp' : (s.entries e).prepared = true ∨ (s.threads (s.entries e).owner).pc = .closingErr e := by
    rcases hp with hp | hp
    · exact e5 hp
    · exact Or.inr (hpc e he hp)
  exact h.2 e he herr hp' (hc e _ _ he hcache)

theorem cachedAt_same (s s' : St) (hm : s'.maps = s.maps) (hv : s'.views = s.views) (v q : Nat) :
    cachedAt s' v q = cachedAt s v q := by
  unfold cachedAt; rw [hm, hv]

theorem cachedAt_shrink (s s' : St) (hv : s'.views = s.views)
    (hm : ∀ m q e, s'.maps m q = some e → s.maps m q = some e) (v q e : Nat) (h : cachedAt s' v q = some e) :
    cachedAt s v q = some e := by
  unfold cachedAt at h ⊢; rw [hv] at h
  cases hvm : s.views v with
  | none => rw [hvm] at h; cases h
  | some m => rw [hvm] at h; exact hm _ _ _ h

/-- P1 for steps that leave every `ent` and every owner alone -/
theorem fb1_frame (s s' : St) (h : FB s) (hnE : s'.nE = s.nE)
    (hE : ∀ e, e < s.nE → (s'.entries e).owner = (s.entries e).owner)
    (hent : ∀ t, (s'.threads t).ent = (s.threads t).ent) :
    ∀ e, e < s'.nE → (s'.threads (s'.entries e).owner).ent = some e := by
  intro e he; rw [hnE] at he; rw [hE e he, hent]; exact h.1 e he

theorem step_fb (s s' : St) (h : FB s) (hS : Shape s) (hM : Maps s) (hO : EOp s) (hs : Step s s') : FB s' := by
  have hg := step_ghost s s' hs
  cases hs with
  | hit t v q tx m e0 ht hop hpc hv hm hu =>
    have hnone : (s.threads t).ent = none := (hS.1 t).2.2.2.2.2.2.2.1 hpc
    refine ⟨fun e he => ?_, fb2_frame s _ h rfl (fun e _ => ⟨rfl, rfl, rfl, rfl, fun a => Or.inl a⟩) (fun e he hp => ?_)
      (fun e v q _ a => by simpa [cachedAt] using a)⟩
    · have he' : e < s.nE := he
      have h1 := h.1 e he'
      have hne : (s.entries e).owner ≠ t := by intro heq; rw [heq, hnone] at h1; cases h1
      simp only [setWait_entries, setWait_ent, hne, if_false]; exact h1
    · have h1 := h.1 e he
      have hne : (s.entries e).owner ≠ t := by intro heq; rw [heq, hnone] at h1; cases h1
      simpa [hne] using hp
  | pub t v q tx m ht hop hpc hv hm =>
    have hnone : (s.threads t).ent = none := (hS.1 t).2.2.2.2.2.2.2.1 (Or.inr hpc)
    have hown : ∀ e, e < s.nE → (s.entries e).owner ≠ t := by
      intro e he heq; have h1 := h.1 e he; rw [heq, hnone] at h1; cases h1
    refine ⟨fun e he => ?_, fun e he herr hp => ?_⟩
    · by_cases hee : e = s.nE
      · subst hee; simp [upd, publish_ent]
      · have he' : e < s.nE := by simp at he; omega
        simp only [publish_entries, upd, hee, if_false, publish_ent, hown e he']; exact h.1 e he'
    · by_cases hee : e = s.nE
      · subst hee; simp [upd] at herr
      · have he' : e < s.nE := by simp at he; omega
        simp only [publish_entries, upd, hee, if_false, publish_pc, hown e he'] at herr hp ⊢
        have h2 := h.2 e he' herr hp
        intro hc; apply h2
        unfold cachedAt at hc ⊢
        simp only [publish_views, publish_maps] at hc
        cases hvm : s.views (s.entries e).view with
        | none => rw [hvm] at hc; cases hc
        | some m' =>
          rw [hvm] at hc
          by_cases hmm : m' = m
          · subst hmm
            by_cases hqq : (s.entries e).text = q
            · simp [upd, hqq] at hc; omega
            · simpa [upd, hqq] using hc
          · simpa [upd, hmm] using hc
  | fail t v q tx e0 ht hop hpc =>
    have ho := (hS.1 t).2.1 e0 (by simp [hpc, owns])
    have hop0 := hO e0 ho.1
    rw [ho.2.1, hop] at hop0
    simp only [Op.use.injEq] at hop0
    refine ⟨fb1_frame s _ h (by simp) (fun e _ => by simp) (fun t' => by simp), fun e he herr hp => ?_⟩
    have he' : e < s.nE := by simpa using he
    simp only [setPc_entries, delFail_entries] at herr hp ⊢
    by_cases hee : e = e0
    · subst hee
      rw [← hop0.1, ← hop0.2.1]
      intro hc
      have hc' : cachedAt (delFail s v q e) v q = some e := by
        rw [← cachedAt_same (delFail s v q e) (setPc (delFail s v q e) t (.closingErr e)) rfl rfl]; exact hc
      unfold delFail at hc'
      split at hc'
      · rename_i hg'
        simp only [Bool.and_eq_true, bne_iff_ne, ne_eq] at hg'
        exact hg'.2 hc'
      · have := (delAt_spec s v q e).1
        unfold cachedAt at hc'
        simp only [delAt_views] at hc'
        cases hvm : s.views v with
        | none => rw [hvm] at hc'; cases hc'
        | some m =>
          rw [hvm] at hc'
          simp [this m q, hvm] at hc'
    · have hp' : (s.entries e).prepared = true ∨ (s.threads (s.entries e).owner).pc = .closingErr e := by
        rcases hp with hp | hp
        · exact Or.inl hp
        · right
          by_cases hto : (s.entries e).owner = t
          · simp [pc_cases, hto] at hp; exact absurd hp.symm hee
          · simpa [pc_cases, hto] using hp
      have h2 := h.2 e he' herr hp'
      intro hc; apply h2
      have hc' : cachedAt (delFail s v q e0) (s.entries e).view (s.entries e).text = some e := by
        rw [← cachedAt_same (delFail s v q e0) (setPc (delFail s v q e0) t (.closingErr e0)) rfl rfl]; exact hc
      exact cachedAt_shrink s _ (by simp) (fun m q' e' a => delFail_maps_some _ _ _ _ _ _ _ a) _ _ _ hc'
  | evict t v q tx e0 x0 ht hop hpc =>
    refine ⟨fb1_frame s _ h (by simp) (fun e _ => by simp) (fun t' => by simp),
      fb2_frame s _ h (by simp) (fun e _ => ⟨by simp, by simp, by simp, by simp, fun a => Or.inl (by simpa using a)⟩)
        (fun e he hp => ?_) (fun e v' q' _ a => ?_)⟩
    · by_cases hto : (s.entries e).owner = t
      · simp [finish_pc, pc_cases, hto] at hp
      · simpa [finish_pc, pc_cases, hto] using hp
    · exact cachedAt_shrink s _ (by simp) (fun m q'' e' a => by
        have := delEvict_maps_some _ _ _ _ _ _ _ _ (by simpa using a); exact this) _ _ _ a
  | reset t v ht hop hpc =>
    refine ⟨fb1_frame s _ h (by simp) (fun e _ => by simp [markView_owner]) (fun t' => by simp),
      fb2_frame s _ h (by simp) (fun e _ => ⟨by simp, by simp [markView_view], by simp, by simp [markView_owner],
        fun a => Or.inl (by simpa using a)⟩) (fun e he hp => ?_) (fun e v' q' _ a => ?_)⟩
    · by_cases hto : (s.entries e).owner = t
      · simp [finish_pc, pc_cases, hto] at hp
      · simpa [finish_pc, pc_cases, hto] using hp
    · unfold cachedAt at a ⊢
      simp only [finish_views, finish_maps, markView_maps, markView_views, markView_nM, upd_apply] at a
      by_cases hvv : v' = v
      · simp only [hvv, if_true] at a
        have := (hM.1 _ _ _ a).2.2.2; omega
      · simpa [hvv] using a
  | close t v ht hop hpc =>
    refine ⟨fb1_frame s _ h (by simp) (fun e _ => by simp [markView_owner]) (fun t' => by simp),
      fb2_frame s _ h (by simp) (fun e _ => ⟨by simp, by simp [markView_view], by simp, by simp [markView_owner],
        fun a => Or.inl (by simpa using a)⟩) (fun e he hp => ?_) (fun e v' q' _ a => ?_)⟩
    · by_cases hto : (s.entries e).owner = t
      · simp [finish_pc, pc_cases, hto] at hp
      · simpa [finish_pc, pc_cases, hto] using hp
    · unfold cachedAt at a ⊢
      simp only [finish_views, finish_maps, markView_maps, markView_views, upd_apply] at a
      by_cases hvv : v' = v
      · simp [hvv] at a
      · simpa [hvv] using a
  | closeErr t v q tx e0 ht hop hpc =>
    have ho := (hS.1 t).2.1 e0 (by simp [hpc, owns])
    refine ⟨fb1_frame s _ h (by simp) (fun e _ => ?_) (fun t' => by simp),
      fb2_frame s _ h (by simp) (fun e _ => ?_) (fun e he hp => ?_)
        (fun e v' q' _ a => by simpa [cachedAt] using a)⟩
    · simp only [finish_entries, upd_apply]; split <;> simp_all
    · simp only [finish_entries, upd_apply]; split
      · rename_i hee; subst hee
        exact ⟨rfl, rfl, rfl, rfl, fun _ => Or.inr (by rw [ho.2.1]; exact hpc)⟩
      · exact ⟨rfl, rfl, rfl, rfl, fun a => Or.inl a⟩
    · by_cases hto : (s.entries e).owner = t
      · simp [finish_pc, pc_cases, hto] at hp
      · simpa [finish_pc, pc_cases, hto] using hp
  | prepErr t v q tx e0 ht hop hpc =>
    have ho := (hS.1 t).2.1 e0 (by simp [hpc, owns])
    refine ⟨fb1_frame s _ h rfl (fun e _ => ?_) (fun t' => by simp), fun e he herr hp => ?_⟩
    · simp only [setPc_entries, upd_apply]; split <;> simp_all
    · have he' : e < s.nE := he
      by_cases hee : e = e0
      · subst hee
        simp [upd, pc_cases, ho.2.1, ho.2.2.1] at hp
      · simp only [setPc_entries, upd, hee, if_false] at herr hp ⊢
        have hp' : (s.entries e).prepared = true ∨ (s.threads (s.entries e).owner).pc = .closingErr e := by
          rcases hp with hp | hp
          · exact Or.inl hp
          · right
            by_cases hto : (s.entries e).owner = t
            · simp [pc_cases, hto] at hp
            · simpa [pc_cases, hto] using hp
        have := h.2 e he' herr hp'
        simpa [cachedAt] using this
  | store t v q tx e0 x0 ht hop hpc | closeOk t v q tx e0 x0 ht hop hpc =>
    have ho := (hS.1 t).2.1 e0 (by simp [hpc, owns])
    have herr0 : (s.entries e0).err = false := by
      first
        | exact ((hS.1 t).2.2.2.1 e0 x0 hpc).1
        | exact ((hS.1 t).2.2.2.2.2.1 e0 x0 hpc).1
    refine ⟨fb1_frame s _ h rfl (fun e _ => ?_) (fun t' => by simp), fun e he herr hp => ?_⟩
    · simp only [setPc_entries, upd_apply]; split <;> simp_all
    · have he' : e < s.nE := he
      by_cases hee : e = e0
      · subst hee; simp [upd, herr0] at herr
      · simp only [setPc_entries, upd, hee, if_false] at herr hp ⊢
        have hp' : (s.entries e).prepared = true ∨ (s.threads (s.entries e).owner).pc = .closingErr e := by
          rcases hp with hp | hp
          · exact Or.inl hp
          · right
            by_cases hto : (s.entries e).owner = t
            · simp [pc_cases, hto] at hp
            · simpa [pc_cases, hto] using hp
        have := h.2 e he' herr hp'
        simpa [cachedAt] using this
  | closeE e0 | closeEH e0 x0 =>
    refine ⟨fb1_frame s _ h rfl (fun e _ => ?_) (fun t' => rfl),
      fb2_frame s _ h rfl (fun e _ => ?_) (fun e he hp => hp) (fun e v' q' _ a => a)⟩
    · simp only [upd_apply]; split <;> simp_all
    · simp only [upd_apply]; split
      · rename_i hee; subst hee; exact ⟨rfl, rfl, rfl, rfl, fun a => Or.inl a⟩
      · exact ⟨rfl, rfl, rfl, rfl, fun a => Or.inl a⟩
  | closeH x0 =>
    exact ⟨fb1_frame s _ h rfl (fun e _ => rfl) (fun t' => rfl),
      fb2_frame s _ h rfl (fun e _ => ⟨rfl, rfl, rfl, rfl, fun a => Or.inl a⟩) (fun e he hp => hp) (fun e v' q' _ a => a)⟩
  | miss t v q tx ht hop hpc | invalid t v q tx ht hop hpc | waitErr t v q tx e0 ht hop hpc | waitOk t v q tx e0 x0 ht hop hpc
  | waitNil t v q tx e0 ht hop hpc | prepOk t v q tx e0 ht hop hpc | readyClosed t v q e0 x0 ht hop hpc
  | readyUse t v q tx e0 x0 ht hop hpc | useFin t v q tx e0 x0 r ht hop hpc | useBad t v q tx e0 x0 ht hop hpc =>
    refine ⟨fb1_frame s _ h (by simp) (fun e _ => by simp) (fun t' => by simp),
      fb2_frame s _ h (by simp) (fun e _ => ⟨by simp, by simp, by simp, by simp, fun a => Or.inl (by simpa using a)⟩)
        (fun e he hp => ?_) (fun e v' q' _ a => by simpa [cachedAt] using a)⟩
    by_cases hto : (s.entries e).owner = t
    · simp [finish_pc, pc_cases, hto] at hp
    · simpa [finish_pc, pc_cases, hto] using hp

end Gorm.SC
