import GormModel.Model.AssocKeys
import GormModel.Lemmas.Identity
namespace Gorm.Assoc

/-- the rendered components of a string key are the strings themselves -/
theorem strKey_render (key : List KeyComp) (h : ∀ c ∈ key, ∃ s, c.val = .str s ∧ '_' ∉ s) :
    ∃ ss : List (List Char), key.map (·.val) = ss.map KeyVal.str ∧ ss.length = key.length ∧ KeySafe ss := by
  induction key with
  | nil => exact ⟨[], rfl, rfl, by intro p hp; simp at hp⟩
  | cons c cs ih =>
    obtain ⟨ss, hv, hl, hs⟩ := ih (fun x hx => h x (List.mem_cons_of_mem _ hx))
    obtain ⟨s, hc, hns⟩ := h c (by simp)
    refine ⟨s :: ss, by simp [hc, hv], by simp [hl], ?_⟩
    intro p hp
    rcases List.mem_cons.1 hp with rfl | hp
    · exact hns
    · exact hs p hp

theorem render_str_map (ss : List (List Char)) : (ss.map KeyVal.str).map KeyVal.render = ss := by
  induction ss with
  | nil => rfl
  | cons s ss ih => simp [KeyVal.render, ih]

/-- two string keys of one arity without the separator: equal key STRINGS mean equal key TUPLES (whatever the characters are:
    letter case, blanks, digits, non-ASCII) -/
theorem strKey_exact (n : Nat) (r r' : IdRow) (h : StrKey n r) (h' : StrKey n r') (hk : r.keyStr = r'.keyStr) :
    r.vals = r'.vals := by
  obtain ⟨ss, hv, hl, hs⟩ := strKey_render r.key h.2
  obtain ⟨ss', hv', hl', hs'⟩ := strKey_render r'.key h'.2
  unfold IdRow.keyStr toStringKey IdRow.vals at hk
  unfold IdRow.vals
  rw [hv, hv', render_str_map, render_str_map] at hk
  rw [hv, hv', joinKey_injective ss ss' (by rw [hl, hl', h.1, h'.1]) hs hs' hk]

/-- the same element (address) always carries the same key - true of any Go slice -/
def AddrKeyFun (rows : List IdRow) : Prop :=
  ∀ r r', r ∈ rows → r' ∈ rows → r.addr = r'.addr → r.key = r'.key

theorem slice_values_sound (rows : List IdRow) :
    (identitySlice rows).values.map toStringKey = (identitySlice rows).groups.map (·.1) ∧
    ∀ v ∈ (identitySlice rows).values, ∃ r ∈ rows, r.vals = v ∧ allZero r.key = false :=
  foldl_idStep_inv (IdVals rows) rows (fun st r0 hr0 h => idVals_step rows st r0 hr0 h) rows _
    (fun _ h => h) ⟨rfl, by intro v hv; simp [IdMap.empty] at hv⟩

theorem slice_values_complete (rows : List IdRow) (hf : AddrKeyFun rows) (r : IdRow) (hr : r ∈ rows)
    (hz : allZero r.key = false) (hinj : ∀ r' ∈ rows, r'.keyStr = r.keyStr → r'.vals = r.vals) :
    r.vals ∈ (identitySlice rows).values := by
  have hgood : IdGood rows (rows.foldl idStep ⟨[], IdMap.empty⟩) :=
    foldl_idStep_inv (IdGood rows) rows (fun st r0 hr0 h => idGood_step rows hf st r0 hr0 h) rows _
      (fun _ h => h) (by intro r _ hl; cases hl)
  have hk : r.addr ∈ (identitySlice rows).lookup r.keyStr := hgood r hr (foldl_loaded_all rows _ r hr) hz
  obtain ⟨hal, hvs⟩ := slice_values_sound rows
  have hs := lookup_mem_groups _ _ _ hk
  rw [← hal] at hs
  obtain ⟨v, hv, hvk⟩ := List.mem_map.mp hs
  obtain ⟨r', hr', hrv, _⟩ := hvs v hv
  have : r'.vals = r.vals := hinj r' hr' (by unfold IdRow.keyStr; rw [hrv]; exact hvk)
  rw [← this, hrv]; exact hv

theorem fromValues_values_aux (args : List ArgV) (acc : IdMap) :
    (args.foldl (fun acc a => let m := identityArg a; ⟨mergeGroups acc.groups m.groups, acc.values ++ m.values⟩) acc).values
      = acc.values ++ args.flatMap (fun a => (identityArg a).values) := by
  induction args generalizing acc with
  | nil => simp
  | cons a as ih => simp [List.foldl, ih, List.append_assoc]

/-- the IN list of a call = the per-argument value lists, concatenated -/
theorem fromValues_values (args : List ArgV) :
    (identityFromValues args).values = args.flatMap (fun a => (identityArg a).values) := by
  unfold identityFromValues
  rw [fromValues_values_aux]
  simp [IdMap.empty]

theorem arg_values_sound (a : ArgV) (t : List KeyVal) (h : t ∈ (identityArg a).values) :
    ∃ r ∈ a.rows, r.vals = t ∧ allZero r.key = false := by
  cases a with
  | one r =>
    simp only [identityArg, identityStruct] at h
    split at h
    · simp [IdMap.empty] at h
    · rename_i hz
      simp at h
      exact ⟨r, by simp [ArgV.rows], h.symm, by simpa using hz⟩
  | many rs => exact (slice_values_sound rs).2 t h

theorem arg_values_complete (n : Nat) (a : ArgV) (hf : AddrKeyFun a.rows) (hs : ∀ r ∈ a.rows, StrKey n r)
    (r : IdRow) (hr : r ∈ a.rows) (hz : allZero r.key = false) : r.vals ∈ (identityArg a).values := by
  cases a with
  | one r0 =>
    simp only [ArgV.rows, List.mem_singleton] at hr
    subst hr
    simp [identityArg, identityStruct, hz]
  | many rs =>
    exact slice_values_complete rs hf r hr hz (fun r' hr' hk => strKey_exact n r' r (hs r' hr') (hs r hr) hk)

end Gorm.Assoc
