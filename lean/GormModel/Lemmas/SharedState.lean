/-
  C07 (round 4): theorems over the regenerated Gen/SharedState.lean (extract/gen_c07d.go, go/types over gorm's own packages):
  package-level state, writes through the receiver of a *DB method, writes into the structs the schema cache hands out.
  Each is a `decide` over a table regenerated from /repo on every run: a new shared object / write site re-states the theorem.
-/
import GormModel.Gen.SharedState
import GormModel.Model.SharedStmt
namespace Gorm
open Gorm.Gen

/-! ### A. package-level variables -/

/-- kinds that are immutable values or synchronise internally: error sentinels, compiled regular expressions (documented safe for
  concurrent use), sync.Map / sync.Pool / atomics, function values, scalars, reflect.Type values, `var _ I = …` interface checks -/
def c07SafeKinds : List String := ["error", "regexp", "sync", "func", "scalar", "rtype", "iface-check"]

/-- reviewed package-level objects of any other kind, with the reason each is harmless when every goroutine of the process uses it:
  * gorm.ErrRecordNotFound             — alias of the logger package's error sentinel
  * gorm.matchName                     — closure over one compiled regexp, no other captured state
  * logger.Default / logger.Discard    — *logger values built by New: Writer + Config fixed at construction, LogMode works on a copy
  * schema.commonInitialismsReplacer   — *strings.Replacer assigned once in init(); a Replacer is safe for concurrent use -/
def c07PkgVarAllow : List (String × String) :=
  [("gorm", "ErrRecordNotFound"), ("gorm", "matchName"), ("logger", "Default"), ("logger", "Discard"),
   ("schema", "commonInitialismsReplacer")]

/-- a package-level variable is harmless under concurrency: never written outside its declaration / the package's init(), and
  either of a safe kind, or a literal table (map / slice / array / struct literal that is only read), or reviewed -/
def pkgVarSafe (v : PkgVar) : Bool :=
  v.writers.all (· == "init") &&
  (c07SafeKinds.contains v.kind || v.kind == "table" || c07PkgVarAllow.contains (v.pkg, v.name))

/-- PACKAGE-LEVEL STATE.  No package of gorm keeps a mutable, unsynchronised object at package level: every package-level variable
  is immutable after init() and is an error sentinel / regexp / sync type / function / scalar / reflect.Type / read-only literal
  table, or one of the five reviewed objects.  (A shared `cases.Caser`, `strings.Builder`, `bytes.Buffer`, scratch slice or cache
  map introduced at package level is of kind `other:…` / has a writer and breaks this statement.) -/
theorem C07_package_state_immutable_or_synchronised : ∀ v ∈ pkgVars, pkgVarSafe v = true := by decide

/-- the only package-level objects that are written at all are written by init() -/
theorem C07_package_state_written_only_by_init : ∀ v ∈ pkgVars, ∀ w ∈ v.writers, w = "init" := by decide

/-! ### B. writes through the receiver of a *DB method -/

/-- methods of *DB that write their RECEIVER, with the reason the receiver is never a handle shared between goroutines:
  * DB.AddError        — called by callbacks / finishers on the operation's own instance (`tx.AddError`, `db.AddError` inside callbacks)
  * DB.Association     — documented entry `db.Model(&v).Association(…)`: the receiver is the chain instance Model() returned
  * DB.SavePoint / DB.RollbackTo — transaction handles (owned by the goroutine that began the transaction)
  * DB.Use             — configuration time
  * DB.executeScopes, DB.scanIntoStruct — unexported, invoked on the operation's instance by Execute / Scan -/
def c07RecvWriterAllow : List String :=
  ["DB.AddError", "DB.Association", "DB.SavePoint", "DB.RollbackTo", "DB.Use", "DB.executeScopes", "DB.scanIntoStruct"]

/-- RECEIVER WRITES.  Outside the seven reviewed methods no method of *DB — no chainable method, no finisher — assigns a field of its
  receiver, writes / deletes an element of one of the receiver's Statement maps or slices, or calls a Statement method that writes
  its receiver, unless it has re-bound the receiver to a fresh instance first: everything an operation writes belongs to the instance
  `getInstance` returned. -/
theorem C07_receiver_statement_never_written :
    ∀ w ∈ recvWrites, w.rebound = false → c07RecvWriterAllow.contains w.fn = true := by decide

/-- in particular Count's temporary removal of ORDER BY does not touch the receiver -/
theorem C07_count_strips_on_instance : countStripsOnReceiver = false := by decide

/-- the Statement methods whose call through the receiver counts as a write include the clause / variable / schema mutators -/
example : "AddClause" ∈ stmtMutators ∧ "AddVar" ∈ stmtMutators ∧ "Parse" ∈ stmtMutators := by decide

/-! ### C. writes into the cached schema -/

/-- functions that run only while a schema is being built: before `LoadOrStore` publishes it the object is private to the parser,
  afterwards other goroutines wait on `initialized` (C07_parse_waits) -/
def c07ParsePhaseFns : List String :=
  ["ParseWithSpecialTableName", "Schema.ParseField", "Field.setupValuerAndSetter", "Field.setupNewValuePool", "Schema.parseRelation",
   "Schema.buildPolymorphicRelation", "Schema.buildMany2ManyRelation", "Schema.guessRelation", "Schema.setRelation"]

/-- entry points of the parse phase (may be called from anywhere) -/
def c07ParseEntryFns : List String := ["ParseWithSpecialTableName"]

/-- configuration / migration time API that edits a cached schema by design: DB.SetupJoinTable (registers a custom join model,
  documented to be called before use), Schema.ParseIndexes (Migrator: AutoMigrate / CreateTable / LookIndex; writes the idempotent
  `UniqueIndex` name and the schema's `err`) -/
def c07SchemaConfigFns : List String := ["DB.SetupJoinTable", "Schema.ParseIndexes"]

set_option maxRecDepth 16384 in
/-- CACHED SCHEMA IS READ-ONLY AFTER ITS PARSE.  Every write (in all seven packages) to a field, map element or slice element of
  Schema / Field / Relationships / Relationship / Polymorphic / Reference sits in a parse-phase function or in the reviewed
  configuration-time API — no lookup, scan, clause builder or callback memoises into the schema. -/
theorem C07_cached_schema_written_only_while_parsing :
    ∀ w ∈ schemaWrites, c07ParsePhaseFns.contains w.fn = true ∨ c07SchemaConfigFns.contains w.fn = true := by decide

/-- …and the parse-phase functions other than the entry point are only ever called from parse-phase functions of the schema
  package (so none of them runs on a request path against a published schema) -/
theorem C07_parse_phase_functions_called_only_while_parsing :
    ∀ e ∈ schemaCallers, c07ParsePhaseFns.contains e.callee = true → c07ParseEntryFns.contains e.callee = false →
      e.pkg = "schema" ∧ c07ParsePhaseFns.contains e.caller = true := by decide

set_option maxRecDepth 16384 in
/-- writes inside function literals (they could run later than the function that creates them): only the two literals that are
  invoked synchronously by their enclosing parse-phase function -/
theorem C07_no_deferred_schema_writes :
    ∀ w ∈ schemaWrites, w.inLit = true →
      (w.fn, w.field) = ("Schema.ParseField", "TagSettings") ∨ (w.fn, w.field) = ("Schema.guessRelation", "err") := by decide

set_option maxRecDepth 16384 in
/-- non-vacuity: the tables are populated and the lookup functions are absent from the writers -/
example : (∃ w ∈ schemaWrites, w.fn = "Schema.buildMany2ManyRelation") ∧ (∃ w ∈ schemaWrites, w.strct = "Relationships") ∧
    (∀ w ∈ schemaWrites, w.fn ≠ "Schema.LookUpField") ∧ (∃ v ∈ pkgVars, v.kind = "sync") ∧ (∃ v ∈ pkgVars, v.pkg = "schema" ∧ v.kind = "table") ∧
    (∃ w ∈ recvWrites, w.fn = "DB.AddError") := by decide

end Gorm
