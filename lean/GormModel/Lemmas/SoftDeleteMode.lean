/-
  Lemmas.SoftDeleteMode — (C08) theorems about Model.SoftDeleteMode, tied to the tree by the regenerated facts
  Gen.SoftDeleteModeFacts (extract/gen_c08_modes.go reads soft_delete.go):

  * on this tree the query, update and delete paths all filter live rows with the model's OWN ZeroValue (NULL, or the timestamp of
    a valid `zeroValue:` tag) — `C08_mode_filter_uniform`;
  * under ANY mode, for all tables and selectors: a scoped Delete marks exactly the live matching rows, which then disappear from
    every scoped read; marked rows are untouched by a scoped delete / update; a repeated delete changes nothing; an Unscoped
    delete removes rows physically;
  * the DELETE→UPDATE rewrite runs iff the statement is unbuilt and scoped — it does not depend on the `soft_delete_enabled`
    marker of a reused statement;
  * a delete path that filters in NULL mode on a `zeroValue:` model marks nothing (counterexample), and a delegation by a literal
    without `ZeroValue:` is exactly such a path.
-/
import GormModel.Model.SoftDeleteMode
import GormModel.Gen.SoftDeleteModeFacts
namespace Gorm
open SoftMode

namespace SoftMode

/-- does a path hand the tag's mode through unchanged? (constructor AND delegation keep it) -/
def pathKeeps (ctors : List Gen.SoftClauseCtor) (delegs : List Gen.SoftDelegation) : Path → Bool
  | .query =>
    match findCtor ctors "QueryClauses" with
    | some c => ctorKeeps c
    | none => false
  | .update =>
    match findCtor ctors "UpdateClauses", findDeleg delegs "SoftDeleteUpdateClause" with
    | some c, some d => ctorKeeps c && delegKeeps d
    | _, _ => false
  | .delete =>
    match findCtor ctors "DeleteClauses", findDeleg delegs "SoftDeleteDeleteClause" with
    | some c, some d => ctorKeeps c && delegKeeps d
    | _, _ => false

/-- `filterMode` is the tag's mode on a keeping path, for every list of constructors / delegations -/
theorem filterMode_of_keeps (ctors : List Gen.SoftClauseCtor) (delegs : List Gen.SoftDelegation) (tag : Mode) (p : Path)
    (h : pathKeeps ctors delegs p = true) : filterMode ctors delegs tag p = tag := by
  cases p
  · simp only [pathKeeps] at h
    simp only [filterMode]
    cases hc : findCtor ctors "QueryClauses" with
    | none => simp [hc] at h
    | some c => simp only [hc] at h; simp [ctorMode, h]
  · simp only [pathKeeps] at h
    simp only [filterMode]
    cases hc : findCtor ctors "UpdateClauses" with
    | none => simp [hc] at h
    | some c =>
      cases hd : findDeleg delegs "SoftDeleteUpdateClause" with
      | none => simp [hc, hd] at h
      | some d =>
        simp only [hc, hd, Bool.and_eq_true] at h
        simp [ctorMode, delegMode, h.1, h.2]
  · simp only [pathKeeps] at h
    simp only [filterMode]
    cases hc : findCtor ctors "DeleteClauses" with
    | none => simp [hc] at h
    | some c =>
      cases hd : findDeleg delegs "SoftDeleteDeleteClause" with
      | none => simp [hc, hd] at h
      | some d =>
        simp only [hc, hd, Bool.and_eq_true] at h
        simp [ctorMode, delegMode, h.1, h.2]

/-- a NULL-mode tag comes out as NULL mode whatever the path does; so a path that does NOT keep the mode filters in NULL mode -/
theorem filterMode_of_not_keeps (ctors : List Gen.SoftClauseCtor) (delegs : List Gen.SoftDelegation) (tag : Mode) (p : Path)
    (h : pathKeeps ctors delegs p = false) : filterMode ctors delegs tag p = .null := by
  cases p
  · simp only [pathKeeps] at h
    simp only [filterMode]
    cases hc : findCtor ctors "QueryClauses" with
    | none => rfl
    | some c => simp only [hc] at h; simp [ctorMode, h]
  · simp only [pathKeeps] at h
    simp only [filterMode]
    cases hc : findCtor ctors "UpdateClauses" with
    | none => rfl
    | some c =>
      cases hd : findDeleg delegs "SoftDeleteUpdateClause" with
      | none => rfl
      | some d =>
        simp only [hc, hd, Bool.and_eq_false_iff] at h
        rcases h with h | h
        · cases hk : delegKeeps d <;> simp [ctorMode, delegMode, h, hk]
        · simp [delegMode, h]
  · simp only [pathKeeps] at h
    simp only [filterMode]
    cases hc : findCtor ctors "DeleteClauses" with
    | none => rfl
    | some c =>
      cases hd : findDeleg delegs "SoftDeleteDeleteClause" with
      | none => rfl
      | some d =>
        simp only [hc, hd, Bool.and_eq_false_iff] at h
        rcases h with h | h
        · cases hk : delegKeeps d <;> simp [ctorMode, delegMode, h, hk]
        · simp [delegMode, h]

/-- the pointwise action of a scoped delete -/
def mark (m : Mode) (now : String) (sel : Row → Bool) (r : Row) : Row :=
  if sel r && m.live r.cell then { r with cell := .at now } else r

theorem softDelete_eq_map (m : Mode) (now : String) (sel : Row → Bool) (rows : List Row) :
    softDelete m now sel rows = rows.map (mark m now sel) := rfl

theorem mark_id (m : Mode) (now : String) (sel : Row → Bool) (r : Row) : (mark m now sel r).id = r.id := by
  unfold mark; split <;> rfl

theorem mark_of_not_live {m : Mode} {now : String} {sel : Row → Bool} {r : Row} (h : m.live r.cell = false) :
    mark m now sel r = r := by
  simp [mark, h]

/-- marking twice = marking once (the freshly written timestamp is not live) -/
theorem mark_mark {m : Mode} {now : String} (hnow : m.live (.at now) = false) (sel : Row → Bool) (r : Row) :
    mark m now sel (mark m now sel r) = mark m now sel r := by
  by_cases h : (sel r && m.live r.cell) = true
  · have h1 : mark m now sel r = { r with cell := .at now } := by simp only [mark, h, if_true]
    rw [h1]
    simp [mark, hnow]
  · have h1 : mark m now sel r = r := by simp only [mark, h]; rfl
    rw [h1, h1]

end SoftMode

/-! ## the tree -/

/-- **The shapes the mode argument rests on** (regenerated from soft_delete.go on every run):
    the three constructors return one clause each, built from the field and `parseZeroValueTag(field)`; the three clause structs
    are field-for-field identical (so the conversion is legal and total) and carry `ZeroValue sql.NullString` / `Field
    *schema.Field`; the update and the delete clause each delegate exactly once to the query clause, by conversion of the receiver
    (or a literal that copies both fields), under the single guard "unbuilt and scoped"; the query clause filters on
    `sd.ZeroValue`, under `!marker && !Unscoped`, and sets the marker; the delete rewrite sets `<field> = NowFunc()`, adds the
    UPDATE clause and builds the update clauses under that same single guard, with the delegation in between;
    parseZeroValueTag reads the `ZEROVALUE` setting and yields a valid NullString only when `now.Parse` accepts it. -/
theorem C08_mode_facts_current_tree :
    -- constructors
    (Gen.softClauseCtors.map (fun c => (c.method, c.clauseType))
        = [("QueryClauses", "SoftDeleteQueryClause"), ("UpdateClauses", "SoftDeleteUpdateClause"),
           ("DeleteClauses", "SoftDeleteDeleteClause")]) ∧
    (∀ c ∈ Gen.softClauseCtors, c.nElems = 1 ∧ c.nStmts = 1 ∧ c.param ≠ "" ∧ c.fieldFrom = c.param ∧
        c.zeroFrom = "parseZeroValueTag(" ++ c.param ++ ")") ∧
    -- struct types
    (Gen.softStructFields.map (·.1) = ["SoftDeleteQueryClause", "SoftDeleteUpdateClause", "SoftDeleteDeleteClause"]) ∧
    (∀ s ∈ Gen.softStructFields, ∀ t ∈ Gen.softStructFields, s.2 = t.2) ∧
    (∀ s ∈ Gen.softStructFields, "ZeroValue sql.NullString" ∈ s.2 ∧ "Field *schema.Field" ∈ s.2) ∧
    -- delegations
    (Gen.softDelegations.map (·.inType) = ["SoftDeleteUpdateClause", "SoftDeleteDeleteClause"]) ∧
    (∀ d ∈ Gen.softDelegations,
        (d.how = "conversion" ∨ (d.how = "literal" ∧ d.field = d.recv ++ ".Field" ∧ d.zero = d.recv ++ ".ZeroValue")) ∧
        d.guards = [SoftMode.knownRewriteGuard]) ∧
    -- query clause body
    (Gen.softQueryBody.found = true ∧ Gen.softQueryBody.filterValue = "sd.ZeroValue" ∧
      Gen.softQueryBody.filterColumn = "clause.Column{Table: clause.CurrentTable, Name: sd.Field.DBName}" ∧
      Gen.softQueryBody.guard = "!ok && !stmt.Statement.Unscoped" ∧
      Gen.softQueryBody.guards = ["!ok && !stmt.Statement.Unscoped"] ∧
      Gen.softQueryBody.okFrom = "stmt.Clauses[\"soft_delete_enabled\"]" ∧ Gen.softQueryBody.setsMarker = true) ∧
    -- delete rewrite
    (Gen.softDeleteRewrite.found = true ∧ Gen.softDeleteRewrite.guards = [SoftMode.knownRewriteGuard] ∧
      Gen.softDeleteRewrite.setColumn = "sd.Field.DBName" ∧ Gen.softDeleteRewrite.setValue = "curTime" ∧
      Gen.softDeleteRewrite.curTimeFrom = "stmt.DB.NowFunc()" ∧ Gen.softDeleteRewrite.addsUpdateClause = true ∧
      Gen.softDeleteRewrite.buildsUpdate = true ∧ Gen.softDeleteRewrite.delegationAfterSet = true) ∧
    -- parseZeroValueTag
    (Gen.softZeroTag.found = true ∧ Gen.softZeroTag.key = "ZEROVALUE" ∧ Gen.softZeroTag.validWhen = "err == nil" ∧
      Gen.softZeroTag.validInit = "_, err := now.Parse(v)" ∧ Gen.softZeroTag.validGuards = ["ok", "err == nil"] ∧
      Gen.softZeroTag.validReturn = "sql.NullString{String: v, Valid: true}" ∧
      Gen.softZeroTag.fallbackReturn = "sql.NullString{Valid: false}") := by
  decide

/-- every path of this tree keeps the mode (finite regenerated table) -/
theorem C08_mode_paths_keep : ∀ p : Path, pathKeeps Gen.softClauseCtors Gen.softDelegations p = true := by
  intro p; cases p <;> decide

/-- **One mode for all three paths.**  For a model whose `zeroValue:` tag yields `tag` (NULL mode when absent / unparsable),
    the live-row filter of a query, of an update and of a delete is `deleted_at = tag`: what Delete marks is exactly what the
    reads hide, whatever the model's mode. -/
theorem C08_mode_filter_uniform : ∀ (tag : Mode) (p : Path), filterModeNow tag p = tag := by
  intro tag p
  -- (the finite fact is re-decided here rather than quoted, so that this theorem itself stops compiling when a path changes)
  exact filterMode_of_keeps _ _ tag p (by cases p <;> decide)

/-- non-vacuity: a `zeroValue:` model really filters by value, a plain one by NULL -/
example : filterModeNow (tagMode true true "1970-01-01 00:00:01") .delete = .zero "1970-01-01 00:00:01" := by decide
example : (filterModeNow (tagMode true true "1970-01-01 00:00:01") .delete).filterText = " = ?" := by decide
example : (filterModeNow (tagMode false false "") .update).filterText = " IS NULL" := by decide
/-- a tag that `now.Parse` rejects falls back to NULL mode -/
example : filterModeNow (tagMode true false "garbage") .query = .null := by decide

/-! ## what the statements do to a table, under any mode -/

/-- **Delete marks instead of removing; the marked rows vanish from every scoped read.**  `now` is a timestamp that is not the
    model's live value (`NowFunc()` ≠ the `zeroValue:` tag; always true in NULL mode).  For every table, selector and mode:
    no row is removed and no id changes; the rows a scoped read shows afterwards are exactly those it showed before minus the
    selected ones; rows that were already marked are still there, untouched. -/
theorem C08_mode_delete_marks (m : Mode) (now : String) (hnow : m.live (.at now) = false) (sel : Row → Bool) (rows : List Row) :
    (softDelete m now sel rows).length = rows.length ∧
    (softDelete m now sel rows).map (·.id) = rows.map (·.id) ∧
    visible m (softDelete m now sel rows) = (visible m rows).filter (fun r => !sel r) ∧
    (∀ r ∈ rows, m.live r.cell = false → r ∈ softDelete m now sel rows) ∧
    (∀ r ∈ rows, sel r = true → m.live r.cell = true → { r with cell := .at now } ∈ softDelete m now sel rows) := by
  refine ⟨by simp [softDelete], ?_, ?_, ?_, ?_⟩
  · rw [softDelete_eq_map, List.map_map]
    apply List.map_congr_left
    intro r _
    exact mark_id m now sel r
  · induction rows with
    | nil => rfl
    | cons r rs ih =>
      rw [softDelete_eq_map] at ih ⊢
      simp only [visible, List.map_cons] at ih ⊢
      by_cases hl : m.live r.cell = true
      · by_cases hs : sel r = true
        · have h1 : mark m now sel r = { r with cell := .at now } := by simp [mark, hs, hl]
          simp only [List.filter_cons, h1, hnow, hl, hs, if_true, Bool.not_true, Bool.false_eq_true, if_false]
          exact ih
        · have hs' : sel r = false := by simpa using hs
          have h1 : mark m now sel r = r := by simp [mark, hs']
          simp only [List.filter_cons, h1, hl, hs', if_true, Bool.not_false]
          rw [ih]
      · have hl' : m.live r.cell = false := by simpa using hl
        have h1 : mark m now sel r = r := mark_of_not_live hl'
        simp only [List.filter_cons, h1, hl', Bool.false_eq_true, if_false]
        exact ih
  · intro r hr hl
    rw [softDelete_eq_map]
    have : mark m now sel r ∈ rows.map (mark m now sel) := List.mem_map_of_mem hr
    rwa [mark_of_not_live hl] at this
  · intro r hr hs hl
    rw [softDelete_eq_map]
    have : mark m now sel r ∈ rows.map (mark m now sel) := List.mem_map_of_mem hr
    simpa [mark, hs, hl] using this

/-- **A repeated delete changes nothing** (no hypothesis on the selector is needed: a row marked by the first delete is not live,
    so the second one skips it; every other row is as it was). -/
theorem C08_mode_delete_idempotent (m : Mode) (now : String) (hnow : m.live (.at now) = false) (sel : Row → Bool)
    (rows : List Row) :
    softDelete m now sel (softDelete m now sel rows) = softDelete m now sel rows := by
  simp only [softDelete_eq_map, List.map_map]
  apply List.map_congr_left
  intro r _
  exact mark_mark hnow sel r

/-- … even with a later timestamp, the second delete finds nothing to mark among the rows the first one marked: the visible
    rows after two deletes are those after one -/
theorem C08_mode_delete_twice_visible (m : Mode) (now now' : String) (hnow : m.live (.at now) = false)
    (hnow' : m.live (.at now') = false) (sel : Row → Bool) (rows : List Row) :
    visible m (softDelete m now' sel (softDelete m now sel rows)) = visible m (softDelete m now sel rows) := by
  rw [(C08_mode_delete_marks m now' hnow' sel _).2.2.1, (C08_mode_delete_marks m now hnow sel rows).2.2.1, List.filter_filter]
  simp

/-- **A scoped update skips marked rows**: every row that is not live is still in the table, at the same position, unchanged. -/
theorem C08_mode_update_skips_marked (m : Mode) (sel : Row → Bool) (f : Row → Row) (rows : List Row) :
    (∀ r ∈ rows, m.live r.cell = false → r ∈ scopedUpdate m sel f rows) ∧
    (∀ (i : Nat) (r : Row), rows[i]? = some r → m.live r.cell = false → (scopedUpdate m sel f rows)[i]? = some r) ∧
    (scopedUpdate m sel f rows).length = rows.length := by
  refine ⟨?_, ?_, by simp [scopedUpdate]⟩
  · intro r hr hl
    have : (fun r => if (sel r && m.live r.cell) = true then f r else r) r ∈ scopedUpdate m sel f rows :=
      List.mem_map_of_mem hr
    simpa [hl] using this
  · intro i r hi hl
    simp [scopedUpdate, List.getElem?_map, hi, hl]

/-- **Unscoped: Delete removes physically**, marked and live rows alike; what is left is exactly the unselected rows; and on this
    tree the DELETE→UPDATE rewrite does not run for an Unscoped statement (regenerated guard list). -/
theorem C08_mode_unscoped_delete_physical (sel : Row → Bool) (rows : List Row) :
    (∀ r ∈ hardDelete sel rows, sel r = false) ∧
    (∀ r ∈ rows, sel r = true → r ∉ hardDelete sel rows) ∧
    (∀ r ∈ rows, sel r = false → r ∈ hardDelete sel rows) ∧
    (∀ sqlEmpty marker, rewriteRuns Gen.softDeleteRewrite.guards sqlEmpty true marker = false) := by
  refine ⟨?_, ?_, ?_, by decide⟩
  · intro r hr
    simpa [hardDelete] using (List.mem_filter.mp hr).2
  · intro r _ hs hmem
    have := (List.mem_filter.mp hmem).2
    simp [hs] at this
  · intro r hr hs
    exact List.mem_filter.mpr ⟨hr, by simp [hs]⟩

/-- **With Unscoped the marked rows are visible again; without it they are hidden.**  On this tree (regenerated guard list of the
    query clause) a read on a fresh statement returns the whole table when Unscoped, and exactly the live rows otherwise; a
    statement that already carries the marker does not get the filter a second time. -/
theorem C08_mode_unscoped_read_sees_all (m : Mode) (rows : List Row) :
    readRows m Gen.softQueryBody.guards true rows = some rows ∧
    readRows m Gen.softQueryBody.guards false rows = some (visible m rows) ∧
    (∀ unscoped, queryFilterAdded Gen.softQueryBody.guards true unscoped = some false) := by
  refine ⟨?_, ?_, by decide⟩
  · have h : queryFilterAdded Gen.softQueryBody.guards false true = some false := by decide
    simp [readRows, h]
  · have h : queryFilterAdded Gen.softQueryBody.guards false false = some true := by decide
    simp [readRows, h]

/-- **The rewrite does not look at the marker.**  Whether the DELETE→UPDATE rewrite of SoftDeleteDeleteClause.ModifyStatement
    runs is `stmt.SQL.Len() == 0 && !Unscoped` — independent of whether the (reused) statement already carries
    `soft_delete_enabled`.  Any additional guard or early return in front of the rewrite falsifies this. -/
theorem C08_mode_rewrite_ignores_marker :
    ∀ sqlEmpty unscoped marker : Bool,
      rewriteRuns Gen.softDeleteRewrite.guards sqlEmpty unscoped marker = (sqlEmpty && !unscoped) := by
  decide

/-- the same for the two delegations (an early return in front of the live-row filter would drop it on a reused statement) -/
theorem C08_mode_delegation_ignores_marker :
    ∀ d ∈ Gen.softDelegations, ∀ sqlEmpty unscoped marker : Bool,
      rewriteRuns d.guards sqlEmpty unscoped marker = (sqlEmpty && !unscoped) := by
  decide

/-- the pessimistic reading is not idle: an early `if _, ok := stmt.Clauses["soft_delete_enabled"]; ok { return }` shows up as
    a "skip:ok" guard and makes the rewrite depend on the marker -/
example : rewriteRuns ["skip:ok", knownRewriteGuard] true false true = false := by decide
example : rewriteRuns [knownRewriteGuard] true false true = true := by decide

/-! ## mode mismatch: the failure the uniformity theorem excludes -/

/-- **A delete path in NULL mode on a `zeroValue:` model marks nothing.**  For any table all of whose rows are live under
    `.zero z` (they hold the timestamp `z`, not NULL), any selector, any `now`: the table is unchanged — Delete reports success
    and every row is still visible. -/
theorem C08_mode_mismatch_counterexample (z now : String) (sel : Row → Bool) (rows : List Row)
    (hlive : ∀ r ∈ rows, r.cell = .at z) :
    softDelete .null now sel rows = rows ∧ visible (.zero z) (softDelete .null now sel rows) = rows := by
  have h1 : softDelete .null now sel rows = rows := by
    rw [softDelete_eq_map]
    conv => rhs; rw [← List.map_id rows]
    apply List.map_congr_left
    intro r hr
    have : Mode.null.live r.cell = false := by rw [hlive r hr]; rfl
    simp [mark_of_not_live this]
  refine ⟨h1, ?_⟩
  rw [h1, visible, List.filter_eq_self]
  intro r hr
  rw [hlive r hr]
  simp [Mode.live]

/-- concrete instance: two live rows of a `zeroValue:'1970-01-01 00:00:01'` model, "delete everything" in NULL mode -/
example :
    softDelete .null "2026-01-01" (fun _ => true)
      [⟨1, .at "1970-01-01 00:00:01", 10⟩, ⟨2, .at "1970-01-01 00:00:01", 20⟩]
      = [⟨1, .at "1970-01-01 00:00:01", 10⟩, ⟨2, .at "1970-01-01 00:00:01", 20⟩] := by decide

/-- … whereas in the model's own mode both rows get marked and disappear from scoped reads -/
example :
    visible (.zero "1970-01-01 00:00:01")
      (softDelete (.zero "1970-01-01 00:00:01") "2026-01-01" (fun _ => true)
        [⟨1, .at "1970-01-01 00:00:01", 10⟩, ⟨2, .at "1970-01-01 00:00:01", 20⟩]) = [] := by decide

/-- **A delegation by a literal without `ZeroValue:` is a NULL-mode path**: whatever the clause's own mode, the query clause
    it runs filters `IS NULL`. -/
theorem C08_mode_literal_drops_zero (d : Gen.SoftDelegation) (z : String) (hhow : d.how = "literal") (hzero : d.zero = "") :
    delegMode d (.zero z) = .null := by
  have hne : ("" == d.recv ++ ".ZeroValue") = false := by
    apply beq_false_of_ne
    intro h
    have hl := congrArg String.length h
    rw [String.length_append] at hl
    have : ".ZeroValue".length = 10 := by decide
    simp only [String.length_empty, this] at hl
    omega
  have hconv : (d.how == "conversion") = false := by rw [hhow]; decide
  simp [delegMode, delegKeeps, hconv, hzero, hne]

/-- the seeded shape `SoftDeleteQueryClause{Field: sd.Field}`, end to end: had the delete delegation this shape, the delete
    path of a `zeroValue:` model would filter in NULL mode while its reads filter by value -/
example (z : String) :
    filterMode Gen.softClauseCtors
      [{ inType := "SoftDeleteUpdateClause", how := "conversion", field := "sd.Field", zero := "sd.ZeroValue", recv := "sd",
         guards := [knownRewriteGuard] },
       { inType := "SoftDeleteDeleteClause", how := "literal", field := "sd.Field", zero := "", recv := "sd",
         guards := [knownRewriteGuard] }] (.zero z) .delete = .null := by
  apply filterMode_of_not_keeps
  decide

/-! ## non-vacuity: a three-row table in each mode (row 2 already marked) -/

/-- NULL mode: delete row 1 -/
example :
    softDelete .null "t9" (fun r => r.id == 1) [⟨1, .null, 10⟩, ⟨2, .at "t1", 20⟩, ⟨3, .null, 30⟩]
      = [⟨1, .at "t9", 10⟩, ⟨2, .at "t1", 20⟩, ⟨3, .null, 30⟩] ∧
    visible .null (softDelete .null "t9" (fun r => r.id == 1) [⟨1, .null, 10⟩, ⟨2, .at "t1", 20⟩, ⟨3, .null, 30⟩])
      = [⟨3, .null, 30⟩] ∧
    Mode.null.live (.at "t9") = false := by decide

/-- zero mode ("z0" is the live value): delete everything — row 2, already marked with "t1", keeps its mark -/
example :
    softDelete (.zero "z0") "t9" (fun _ => true) [⟨1, .at "z0", 10⟩, ⟨2, .at "t1", 20⟩, ⟨3, .at "z0", 30⟩]
      = [⟨1, .at "t9", 10⟩, ⟨2, .at "t1", 20⟩, ⟨3, .at "t9", 30⟩] ∧
    visible (.zero "z0") [⟨1, .at "z0", 10⟩, ⟨2, .at "t1", 20⟩, ⟨3, .at "z0", 30⟩] = [⟨1, .at "z0", 10⟩, ⟨3, .at "z0", 30⟩] ∧
    (Mode.zero "z0").live (.at "t9") = false := by decide

/-- scoped update in zero mode touches live selected rows only; the unscoped delete removes the marked row too -/
example :
    scopedUpdate (.zero "z0") (fun _ => true) (fun r => { r with v := r.v + 1 })
        [⟨1, .at "z0", 10⟩, ⟨2, .at "t1", 20⟩, ⟨3, .at "z0", 30⟩]
      = [⟨1, .at "z0", 11⟩, ⟨2, .at "t1", 20⟩, ⟨3, .at "z0", 31⟩] ∧
    hardDelete (fun r => r.id != 3) [⟨1, .at "z0", 10⟩, ⟨2, .at "t1", 20⟩, ⟨3, .at "z0", 30⟩] = [⟨3, .at "z0", 30⟩] := by decide

end Gorm
