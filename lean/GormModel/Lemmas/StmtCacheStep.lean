/-
  One-step characterisation of the prepared-statement-cache LTS (Model/StmtCache.lean): every enabled action is
  one of the `Step` constructors below, with the successor state written out.  All invariants are proved by
  `cases` on `Step` and lifted to arbitrary schedules by `run_inv`.
-/
import GormModel.Model.StmtCache
namespace Gorm.SC

/-- what `finish` does besides setting the pc: a transaction's statements are closed by database/sql -/
def closeTx (s : St) (t : Nat) : St :=
  { s with handles := fun h => if (s.handles h).tx && (s.handles h).thr == t
                               then { s.handles h with closed := true } else s.handles h }

theorem finish_eq (s : St) (t : Nat) (r : Res) :
    finish s t r = setPc s t (.fin r) ∨ finish s t r = closeTx (setPc s t (.fin r)) t := by
  unfold finish
  split
  · right; rfl
  · left; rfl

inductive Step (s : St) : St → Prop
  | hit (t v q tx m e) : t < s.nT → (s.threads t).op = .use v q tx →
      ((s.threads t).pc = .init ∨ (s.threads t).pc = .missed) →
      s.views v = some m → s.maps m q = some e → usable s e tx = true → Step s (setWait s t e)
  | miss (t v q tx) : t < s.nT → (s.threads t).op = .use v q tx → (s.threads t).pc = .init →
      Step s (setPc s t .missed)
  | invalid (t v q tx) : t < s.nT → (s.threads t).op = .use v q tx → (s.threads t).pc = .missed →
      s.views v = none → Step s (finish s t .invalidDB)
  | pub (t v q tx m) : t < s.nT → (s.threads t).op = .use v q tx → (s.threads t).pc = .missed →
      s.views v = some m → (∀ e', s.maps m q = some e' → usable s e' tx = false) →
      Step s (publish s t v m q tx)
  | waitErr (t v q tx e) : t < s.nT → (s.threads t).op = .use v q tx → (s.threads t).pc = .waiting e →
      (s.entries e).prepared = true → (s.entries e).err = true → Step s (finish s t .prepErr)
  | waitOk (t v q tx e h) : t < s.nT → (s.threads t).op = .use v q tx → (s.threads t).pc = .waiting e →
      (s.entries e).prepared = true → (s.entries e).err = false → (s.entries e).handle = some h →
      Step s (setPc s t (.ready e h))
  | waitNil (t v q tx e) : t < s.nT → (s.threads t).op = .use v q tx → (s.threads t).pc = .waiting e →
      (s.entries e).prepared = true → (s.entries e).err = false → (s.entries e).handle = none →
      Step s (finish s t .nilStmt)
  | prepOk (t v q tx e) : t < s.nT → (s.threads t).op = .use v q tx → (s.threads t).pc = .preparing e →
      Step s (setPc { s with nH := s.nH + 1, handles := upd s.handles s.nH { tx := tx, thr := t, entry := e } } t
               (.storing e s.nH))
  | prepErr (t v q tx e) : t < s.nT → (s.threads t).op = .use v q tx → (s.threads t).pc = .preparing e →
      Step s (setPc { s with entries := upd s.entries e { s.entries e with err := true } } t (.failing e))
  | store (t v q tx e h) : t < s.nT → (s.threads t).op = .use v q tx → (s.threads t).pc = .storing e h →
      Step s (setPc { s with entries := upd s.entries e { s.entries e with handle := some h } } t (.closingOk e h))
  | fail (t v q tx e) : t < s.nT → (s.threads t).op = .use v q tx → (s.threads t).pc = .failing e →
      Step s (setPc (delFail s v q e) t (.closingErr e))
  | closeOk (t v q tx e h) : t < s.nT → (s.threads t).op = .use v q tx → (s.threads t).pc = .closingOk e h →
      Step s (setPc { s with entries := upd s.entries e { s.entries e with prepared := true } } t (.ready e h))
  | closeErr (t v q tx e) : t < s.nT → (s.threads t).op = .use v q tx → (s.threads t).pc = .closingErr e →
      Step s (finish { s with entries := upd s.entries e { s.entries e with prepared := true } } t .prepErr)
  | readyClosed (t v q e h) : t < s.nT → (s.threads t).op = .use v q false → (s.threads t).pc = .ready e h →
      (s.handles h).closed = true → Step s (finish s t .stmtClosed)
  | readyUse (t v q tx e h) : t < s.nT → (s.threads t).op = .use v q tx → (s.threads t).pc = .ready e h →
      Step s (setPc s t (.using e h))
  | useFin (t v q tx e h r) : t < s.nT → (s.threads t).op = .use v q tx → (s.threads t).pc = .using e h →
      (r = .rows ∨ r = .useErr) → Step s (finish s t r)
  | useBad (t v q tx e h) : t < s.nT → (s.threads t).op = .use v q tx → (s.threads t).pc = .using e h →
      Step s (setPc s t (.evicting e h))
  | evict (t v q tx e h) : t < s.nT → (s.threads t).op = .use v q tx → (s.threads t).pc = .evicting e h →
      Step s (finish (delEvict { s with handles := upd s.handles h { s.handles h with closeReq := true } } v q e h) t .badConn)
  | reset (t v) : t < s.nT → (s.threads t).op = .reset v → (s.threads t).pc = .init →
      Step s (finish { markView s v with views := upd (markView s v).views v (some (markView s v).nM),
                                         nM := (markView s v).nM + 1 } t .done)
  | close (t v) : t < s.nT → (s.threads t).op = .close v → (s.threads t).pc = .init →
      Step s (finish { markView s v with views := upd (markView s v).views v none } t .done)
  | closeE (e) : e < s.nE → (s.entries e).closeReq = true → (s.entries e).closeDone = false →
      (s.entries e).prepared = true → (s.entries e).handle = none →
      Step s { s with entries := upd s.entries e { s.entries e with closeDone := true } }
  | closeEH (e h) : e < s.nE → (s.entries e).closeReq = true → (s.entries e).closeDone = false →
      (s.entries e).prepared = true → (s.entries e).handle = some h →
      Step s { s with entries := upd s.entries e { s.entries e with closeDone := true },
                      handles := upd s.handles h { s.handles h with closed := true } }
  | closeH (h) : h < s.nH → (s.handles h).closeReq = true → (s.handles h).closed = false →
      Step s { s with handles := upd s.handles h { s.handles h with closed := true } }

theorem act_step (s : St) (a : Act) (s' : St) (hs : act s a = some s') : Step s s' := by
  cases a with
  | thr t an =>
    simp only [act] at hs
    split at hs
    · rename_i ht
      unfold tstep at hs
      split at hs
      · rename_i v hop
        cases hpc : (s.threads t).pc <;> rw [hpc] at hs <;> simp only [stepReset] at hs
        all_goals first
          | (cases hs; done)
          | (simp only [Option.some.injEq] at hs; subst hs; exact Step.reset t v ht hop hpc)
      · rename_i v hop
        cases hpc : (s.threads t).pc <;> rw [hpc] at hs <;> simp only [stepClose] at hs
        all_goals first
          | (cases hs; done)
          | (simp only [Option.some.injEq] at hs; subst hs; exact Step.close t v ht hop hpc)
      · rename_i v q tx hop
        cases hpc : (s.threads t).pc <;> rw [hpc] at hs <;> simp only [stepUse] at hs
        case init =>
          repeat' split at hs
          all_goals (simp only [Option.some.injEq] at hs; subst hs)
          · exact Step.miss t v q tx ht hop hpc
          · exact Step.hit t v q tx _ _ ht hop (Or.inl hpc) ‹_› ‹_› ‹_›
          · exact Step.miss t v q tx ht hop hpc
          · exact Step.miss t v q tx ht hop hpc
        case missed =>
          repeat' split at hs
          all_goals (simp only [Option.some.injEq] at hs; subst hs)
          · exact Step.invalid t v q tx ht hop hpc ‹_›
          · exact Step.hit t v q tx _ _ ht hop (Or.inr hpc) ‹_› ‹_› ‹_›
          · rename_i m _ e hm hu
            exact Step.pub t v q tx _ ht hop hpc ‹_› (by intro e' he'; rw [hm] at he'; cases he'; simpa using hu)
          · rename_i m _ hm
            exact Step.pub t v q tx _ ht hop hpc ‹_› (by intro e' he'; rw [hm] at he'; cases he')
        case waiting e =>
          repeat' split at hs
          all_goals first
            | (cases hs; done)
            | (simp only [Option.some.injEq] at hs; subst hs)
          · exact Step.waitErr t v q tx e ht hop hpc ‹_› ‹_›
          · exact Step.waitOk t v q tx e _ ht hop hpc ‹_› (by simp_all) ‹_›
          · exact Step.waitNil t v q tx e ht hop hpc ‹_› (by simp_all) ‹_›
        case preparing e =>
          repeat' split at hs
          all_goals (simp only [Option.some.injEq] at hs; subst hs)
          · exact Step.prepOk t v q tx e ht hop hpc
          · exact Step.prepErr t v q tx e ht hop hpc
        case storing e h =>
          simp only [Option.some.injEq] at hs; subst hs
          exact Step.store t v q tx e h ht hop hpc
        case failing e =>
          simp only [Option.some.injEq] at hs; subst hs
          exact Step.fail t v q tx e ht hop hpc
        case closingOk e h =>
          simp only [Option.some.injEq] at hs; subst hs
          exact Step.closeOk t v q tx e h ht hop hpc
        case closingErr e =>
          simp only [Option.some.injEq] at hs; subst hs
          exact Step.closeErr t v q tx e ht hop hpc
        case ready e h =>
          split at hs
          · rename_i hc
            simp only [Option.some.injEq] at hs; subst hs
            simp only [Bool.and_eq_true, Bool.not_eq_true'] at hc
            obtain ⟨h1, h2⟩ := hc
            subst h1
            exact Step.readyClosed t v q e h ht hop hpc h2
          · simp only [Option.some.injEq] at hs; subst hs
            exact Step.readyUse t v q tx e h ht hop hpc
        case «using» e h =>
          split at hs
          all_goals (simp only [Option.some.injEq] at hs; subst hs)
          · exact Step.useFin t v q tx e h .rows ht hop hpc (Or.inl rfl)
          · exact Step.useFin t v q tx e h .useErr ht hop hpc (Or.inr rfl)
          · exact Step.useBad t v q tx e h ht hop hpc
        case evicting e h =>
          simp only [Option.some.injEq] at hs; subst hs
          exact Step.evict t v q tx e h ht hop hpc
        case fin r => cases hs
    · cases hs
  | closeE e =>
    simp only [act] at hs
    split at hs
    · rename_i hc
      obtain ⟨h1, h2, h3, h4⟩ := hc
      split at hs
      · simp only [Option.some.injEq] at hs; subst hs
        exact Step.closeEH e _ h1 h2 (by simpa using h3) h4 ‹_›
      · simp only [Option.some.injEq] at hs; subst hs
        exact Step.closeE e h1 h2 (by simpa using h3) h4 ‹_›
    · cases hs
  | closeH h =>
    simp only [act] at hs
    split at hs
    · rename_i hc
      obtain ⟨h1, h2, h3⟩ := hc
      simp only [Option.some.injEq] at hs; subst hs
      exact Step.closeH h h1 h2 (by simpa using h3)
    · cases hs

/-- lifting a step invariant to arbitrary schedules -/
theorem run_inv (P : St → Prop) (hstep : ∀ s s', P s → Step s s' → P s')
    (s : St) (sched : List Act) (h0 : P s) : P (run s sched) := by
  induction sched generalizing s with
  | nil => simpa [run] using h0
  | cons a rest ih =>
    simp only [run, List.foldl_cons]
    cases hact : act s a with
    | none => simpa [run] using ih s h0
    | some s' => simpa [run] using ih s' (hstep s s' h0 (act_step s a s' hact))

end Gorm.SC
