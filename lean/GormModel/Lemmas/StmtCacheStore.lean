/-
  Invariants of the derivation world of Model/StmtCacheStore.lean under the healthy configurations (`goodWith r`: the five
  cooperating sites healthy, the session-level handle either a struct copy (`r = false`) or the registered struct itself
  (`r = true`, repair of F14a)): one cache object per Open, every struct belongs to it, the stored struct stays stored,
  handle 0 stays the root; with `r = true` there is ONE struct.
-/
import GormModel.Model.StmtCacheStore
namespace Gorm.SCS

variable {r : Bool}

structure Inv (r : Bool) (w : World) : Prop where
  cfg : w.cfg = goodWith r
  cache0 : ∀ st ∈ w.structs, st.cache = 0
  bound : ∀ p ∈ w.handles, ∀ s, structOf p = some s → s < w.structs.length
  cnt : (w.nC = 0 ∧ w.store = none) ∨ (w.nC = 1 ∧ ∃ s, w.store = some s ∧ s < w.structs.length)

theorem inv_open (prepare : Bool) : Inv r (openW (goodWith r) prepare) := by
  cases prepare <;> constructor <;> simp [openW, newCache, goodWith, structOf]

theorem cacheFor_some (w : World) (hc : w.cfg = goodWith r) (s : Nat) (hs : w.store = some s) : cacheFor w = (w, s) := by
  simp [cacheFor, lookupOrCreate, hc, goodWith, hs]

/-- the world after `NewPreparedStmtDB` + `Store` -/
def created (w : World) : World :=
  { w with nC := w.nC + 1, nM := w.nM + 1, structs := w.structs ++ [{ cache := w.nC, map := some w.nM }],
           store := some w.structs.length }

theorem cacheFor_none (w : World) (hc : w.cfg = goodWith r) (hs : w.store = none) :
    cacheFor w = (created w, w.structs.length) := by
  simp [cacheFor, lookupOrCreate, hc, goodWith, hs, newCache, created]

theorem store_none_nC (w : World) (hI : Inv r w) (hs : w.store = none) : w.nC = 0 := by
  rcases hI.cnt with ⟨h, _⟩ | ⟨_, s', h, _⟩
  · exact h
  · rw [hs] at h; cases h

theorem store_some_lt (w : World) (hI : Inv r w) (s : Nat) (hs : w.store = some s) : s < w.structs.length := by
  rcases hI.cnt with ⟨_, h⟩ | ⟨_, s', h, hl⟩
  · rw [hs] at h; cases h
  · rw [hs] at h; cases h; exact hl

theorem inv_created (w : World) (hI : Inv r w) (hs : w.store = none) : Inv r (created w) := by
  have hn := store_none_nC w hI hs
  refine ⟨hI.cfg, ?_, ?_, ?_⟩
  · intro st hst
    simp only [created, List.mem_append, List.mem_singleton] at hst
    rcases hst with h | h
    · exact hI.cache0 st h
    · rw [h]; exact hn
  · intro p hp s hps
    have := hI.bound p hp s hps
    simp only [created, List.length_append, List.length_singleton]; omega
  · right
    refine ⟨by simp [created, hn], w.structs.length, rfl, ?_⟩
    simp [created]

/-- what `Session(PrepareStmt)` works with in a healthy world: the stored struct (created and stored now if there was
    none); nothing else changes -/
theorem cacheFor_good (w : World) (hI : Inv r w) :
    Inv r (cacheFor w).1 ∧ (cacheFor w).1.handles = w.handles ∧ (cacheFor w).2 < (cacheFor w).1.structs.length ∧
    (cacheFor w).1.store = some (cacheFor w).2 := by
  cases hs : w.store with
  | some s =>
    rw [cacheFor_some w hI.cfg s hs]
    exact ⟨hI, rfl, store_some_lt w hI s hs, hs⟩
  | none =>
    rw [cacheFor_none w hI.cfg hs]
    exact ⟨inv_created w hI hs, rfl, by simp [created], rfl⟩

/-- appending a handle whose struct exists / a copy of an existing struct keeps the invariant -/
theorem inv_add_handle (w : World) (hI : Inv r w) (q : Pool) (hq : ∀ s, structOf q = some s → s < w.structs.length) :
    Inv r ({ w with handles := w.handles ++ [q] }) :=
  ⟨hI.cfg, hI.cache0, fun q' hq' s hs => by
    simp only [List.mem_append, List.mem_singleton] at hq'
    rcases hq' with h' | h'
    · exact hI.bound q' h' s hs
    · rw [h'] at hs; exact hq s hs, hI.cnt⟩

theorem inv_add_copy (w : World) (hI : Inv r w) (s : Nat) (hs : s < w.structs.length) :
    Inv r ({ w with structs := w.structs ++ [w.structs[s]?.getD { cache := 0, map := none }],
                    handles := w.handles ++ [.pdb w.structs.length] }) := by
  have hget : w.structs[s]? = some w.structs[s] := List.getElem?_eq_getElem hs
  refine ⟨hI.cfg, fun st hst' => ?_, fun q hq s' hs' => ?_, ?_⟩
  · simp only [List.mem_append, List.mem_singleton] at hst'
    rcases hst' with h' | h'
    · exact hI.cache0 st h'
    · rw [h', hget]; simp only [Option.getD_some]
      exact hI.cache0 _ (List.getElem_mem hs)
  · simp only [List.mem_append, List.mem_singleton] at hq
    simp only [List.length_append, List.length_singleton]
    rcases hq with hq | hq
    · have := hI.bound q hq s' hs'; omega
    · rw [hq] at hs'; simp [structOf] at hs'; omega
  · rcases hI.cnt with h0 | ⟨h1, s0, hs0, hl0⟩
    · left; exact h0
    · right; exact ⟨h1, s0, hs0, by simp only [List.length_append, List.length_singleton]; omega⟩

theorem inv_set_map (w : World) (hI : Inv r w) (s : Nat) (st : PStruct) (hst : w.structs[s]? = some st) (m : Option Nat) (nM : Nat) :
    Inv r ({ w with nM := nM, structs := w.structs.set s { st with map := m } }) := by
  have hmem : st ∈ w.structs := List.mem_of_getElem? hst
  refine ⟨hI.cfg, fun st' h' => ?_, fun p hp s' hs' => ?_, ?_⟩
  · rcases List.mem_or_eq_of_mem_set h' with h' | h'
    · exact hI.cache0 st' h'
    · rw [h']; exact hI.cache0 st hmem
  · simp only [List.length_set]; exact hI.bound p hp s' hs'
  · simp only [List.length_set]; exact hI.cnt

theorem step_inv (w : World) (hI : Inv r w) (op : DOp) : Inv r (stepD w op) := by
  have hc := hI.cfg
  cases op with
  | session h prep =>
    simp only [stepD]
    cases hh : w.handles[h]? with
    | none => exact hI
    | some p =>
      have hp : p ∈ w.handles := List.mem_of_getElem? hh
      cases prep with
      | false =>
        simp only [Bool.not_false, if_true]
        exact inv_add_handle w hI p (fun s hs => hI.bound p hp s hs)
      | true =>
        obtain ⟨hI1, hh1, hlt, hst⟩ := cacheFor_good w hI
        simp only [Bool.not_true, Bool.false_eq_true, if_false]
        by_cases htx : isTx p = true
        · simp only [htx, if_true]
          exact inv_add_handle _ hI1 _ (fun s hs => by simp [structOf] at hs; omega)
        · have hr : w.cfg.sessReuse = r := by rw [hc]; rfl
          simp only [htx, Bool.false_eq_true, if_false, hr]
          cases r with
          | true =>
            simp only [if_true]
            exact inv_add_handle _ hI1 _ (fun s hs => by simp [structOf] at hs; omega)
          | false =>
            simp only [Bool.false_eq_true, if_false]
            exact inv_add_copy _ hI1 _ hlt
  | begin h =>
    simp only [stepD]
    cases hh : w.handles[h]? with
    | none => exact hI
    | some p =>
      have hp : p ∈ w.handles := List.mem_of_getElem? hh
      cases p with
      | plain => exact inv_add_handle w hI _ (by intro s hs; simp [structOf] at hs)
      | plainTx => exact inv_add_handle w hI _ (by intro s hs; simp [structOf] at hs)
      | ptx s => exact inv_add_handle w hI _ (by intro s' hs; exact hI.bound _ hp s' (by simpa [structOf] using hs))
      | pdb s =>
        have htb : w.cfg.txBinds = true := by rw [hc]; rfl
        simp only [htb, if_true]
        exact inv_add_handle w hI _ (by intro s' hs; exact hI.bound _ hp s' (by simpa [structOf] using hs))
  | reset h =>
    cases hb : (w.handles[h]?).bind structOf with
    | none => simp only [stepD, hb]; exact hI
    | some s =>
      cases hst : w.structs[s]? with
      | none => simp only [stepD, hb, hst]; exact hI
      | some st => simp only [stepD, hb, hst]; exact inv_set_map w hI s st hst _ _
  | close h =>
    cases hb : (w.handles[h]?).bind structOf with
    | none => simp only [stepD, hb]; exact hI
    | some s =>
      cases hst : w.structs[s]? with
      | none => simp only [stepD, hb, hst]; exact hI
      | some st => simp only [stepD, hb, hst]; exact inv_set_map w hI s st hst _ w.nM

theorem fold_inv (P : World → Prop) (hstep : ∀ w op, P w → P (stepD w op)) (seq : List DOp) (w : World) (h0 : P w) :
    P (seq.foldl stepD w) := by
  induction seq generalizing w with
  | nil => exact h0
  | cons op rest ih => exact ih _ (hstep w op h0)

theorem inv_run (r prepare : Bool) (seq : List DOp) : Inv r (runD (goodWith r) prepare seq) :=
  fold_inv (Inv r) (fun w op h => step_inv w h op) seq _ (inv_open prepare)

theorem oneCache_of_inv (w : World) (hI : Inv r w) : OneCache w := by
  refine ⟨?_, hI.cache0, ?_⟩
  · rcases hI.cnt with ⟨h, _⟩ | ⟨h, _⟩ <;> omega
  · intro h1
    rcases hI.cnt with ⟨h, _⟩ | ⟨_, s, hs, hl⟩
    · omega
    · exact ⟨s, hs, hl⟩

/-! ### single generation: without Reset / Close every struct points to map object 0 -/

structure Inv2 (r : Bool) (w : World) : Prop extends Inv r w where
  nm : w.nM = w.nC
  map0 : ∀ st ∈ w.structs, st.map = some 0

theorem inv2_open (prepare : Bool) : Inv2 r (openW (goodWith r) prepare) := by
  refine ⟨inv_open prepare, ?_, ?_⟩ <;> cases prepare <;> simp [openW, newCache, goodWith]

theorem cacheFor_good2 (w : World) (hI : Inv2 r w) :
    (cacheFor w).1.nM = (cacheFor w).1.nC ∧ ∀ st ∈ (cacheFor w).1.structs, st.map = some 0 := by
  cases hs : w.store with
  | some s =>
    rw [cacheFor_some w hI.cfg s hs]
    exact ⟨hI.nm, hI.map0⟩
  | none =>
    rw [cacheFor_none w hI.cfg hs]
    have hn := store_none_nC w hI.toInv hs
    have hm : w.nM = 0 := by rw [hI.nm, hn]
    refine ⟨by simp [created, hI.nm], ?_⟩
    intro st hst
    simp only [created, List.mem_append, List.mem_singleton] at hst
    rcases hst with h | h
    · exact hI.map0 st h
    · rw [h, hm]

theorem step_inv2 (w : World) (hI : Inv2 r w) (op : DOp) (hop : noRC [op] = true) : Inv2 r (stepD w op) := by
  have hI0 := step_inv w hI.toInv op
  have hc := hI.cfg
  cases op with
  | session h prep =>
    refine ⟨hI0, ?_, ?_⟩
    all_goals
      simp only [stepD]
      cases hh : w.handles[h]? with
      | none => first | exact hI.nm | exact hI.map0
      | some p =>
        cases prep with
        | false => first | exact hI.nm | exact hI.map0
        | true =>
          obtain ⟨_, _, hlt, _⟩ := cacheFor_good w hI.toInv
          obtain ⟨hnm, hmap⟩ := cacheFor_good2 w hI
          simp only [Bool.not_true, Bool.false_eq_true, if_false]
          by_cases htx : isTx p = true
          · simp only [htx, if_true]
            first | exact hnm | exact hmap
          · have hr : w.cfg.sessReuse = r := by rw [hc]; rfl
            simp only [htx, Bool.false_eq_true, if_false, hr]
            cases r with
            | true =>
              simp only [if_true]
              first | exact hnm | exact hmap
            | false =>
              simp only [Bool.false_eq_true, if_false]
              first
                | exact hnm
                | (intro st hst'
                   simp only [List.mem_append, List.mem_singleton] at hst'
                   rcases hst' with h' | h'
                   · exact hmap st h'
                   · rw [h', List.getElem?_eq_getElem hlt]; simp only [Option.getD_some]
                     exact hmap _ (List.getElem_mem hlt))
  | begin h =>
    refine ⟨hI0, ?_, ?_⟩
    all_goals
      simp only [stepD]
      cases hh : w.handles[h]? with
      | none => first | exact hI.nm | exact hI.map0
      | some p =>
        cases p <;> simp only [hc, goodWith, if_true] <;> first | exact hI.nm | exact hI.map0
  | reset h => simp [noRC] at hop
  | close h => simp [noRC] at hop

theorem noRC_cons (op : DOp) (rest : List DOp) : noRC (op :: rest) = (noRC [op] && noRC rest) := by
  cases op <;> simp [noRC]

theorem inv2_run (r prepare : Bool) (seq : List DOp) (h : noRC seq = true) : Inv2 r (runD (goodWith r) prepare seq) := by
  unfold runD
  generalize hw : openW (goodWith r) prepare = w0
  have h0 : Inv2 r w0 := hw ▸ inv2_open prepare
  clear hw
  induction seq generalizing w0 with
  | nil => exact h0
  | cons op rest ih =>
    rw [noRC_cons, Bool.and_eq_true] at h
    exact ih h.2 _ (step_inv2 w0 h0 op h.1)

/-! ### the root of a PrepareStmt database stays the stored struct -/

structure Inv3 (r : Bool) (w : World) : Prop extends Inv r w where
  root : w.handles[0]? = some (.pdb 0)
  stored : w.store = some 0
  pos : 0 < w.structs.length

theorem inv3_open : Inv3 r (openW (goodWith r) true) := by
  refine ⟨inv_open true, ?_, ?_, ?_⟩ <;> simp [openW, newCache, goodWith]

theorem head_append {α : Type} (l : List α) (x a : α) (h : l[0]? = some a) : (l ++ [x])[0]? = some a := by
  cases l with
  | nil => simp at h
  | cons b t => simpa using h

theorem step_inv3 (w : World) (hI : Inv3 r w) (op : DOp) : Inv3 r (stepD w op) := by
  have hI0 := step_inv w hI.toInv op
  have hc := hI.cfg
  have hcf := cacheFor_some w hc 0 hI.stored
  refine ⟨hI0, ?_, ?_, ?_⟩
  all_goals
    cases op with
    | session h prep =>
      simp only [stepD]
      cases hh : w.handles[h]? with
      | none => first | exact hI.root | exact hI.stored | exact hI.pos
      | some p =>
        cases prep with
        | false => first | exact head_append _ _ _ hI.root | exact hI.stored | exact hI.pos
        | true =>
          simp only [Bool.not_true, Bool.false_eq_true, if_false, hcf]
          by_cases htx : isTx p = true
          · simp only [htx, if_true]
            first | exact head_append _ _ _ hI.root | exact hI.stored | exact hI.pos
          · have hr : w.cfg.sessReuse = r := by rw [hc]; rfl
            simp only [htx, Bool.false_eq_true, if_false, hr]
            cases r with
            | true =>
              simp only [if_true]
              first | exact head_append _ _ _ hI.root | exact hI.stored | exact hI.pos
            | false =>
              simp only [Bool.false_eq_true, if_false]
              first
                | exact head_append _ _ _ hI.root
                | exact hI.stored
                | (simp only [List.length_append, List.length_singleton]; omega)
    | begin h =>
      simp only [stepD]
      cases hh : w.handles[h]? with
      | none => first | exact hI.root | exact hI.stored | exact hI.pos
      | some p =>
        cases p <;> simp only [hc, goodWith, if_true] <;>
          first | exact head_append _ _ _ hI.root | exact hI.stored | exact hI.pos
    | reset h =>
      cases hb : (w.handles[h]?).bind structOf with
      | none => simp only [stepD, hb]; first | exact hI.root | exact hI.stored | exact hI.pos
      | some s =>
        cases hst : w.structs[s]? with
        | none => simp only [stepD, hb, hst]; first | exact hI.root | exact hI.stored | exact hI.pos
        | some st =>
          simp only [stepD, hb, hst]
          first | exact hI.root | exact hI.stored | (simp only [List.length_set]; exact hI.pos)
    | close h =>
      cases hb : (w.handles[h]?).bind structOf with
      | none => simp only [stepD, hb]; first | exact hI.root | exact hI.stored | exact hI.pos
      | some s =>
        cases hst : w.structs[s]? with
        | none => simp only [stepD, hb, hst]; first | exact hI.root | exact hI.stored | exact hI.pos
        | some st =>
          simp only [stepD, hb, hst]
          first | exact hI.root | exact hI.stored | (simp only [List.length_set]; exact hI.pos)

theorem inv3_run (r : Bool) (seq : List DOp) : Inv3 r (runD (goodWith r) true seq) :=
  fold_inv (Inv3 r) (fun w op h => step_inv3 w h op) seq _ inv3_open

end Gorm.SCS

namespace Gorm.SCS

variable {r : Bool}

/-- every handle of a healthy world works with cache object 0 (or with none) -/
theorem cacheOf_zero (w : World) (hI : Inv r w) (p : Pool) (hp : p ∈ w.handles) (c : Nat) (hcp : cacheOfPool w p = some c) : c = 0 := by
  unfold cacheOfPool at hcp
  cases hs : structOf p with
  | none => simp [hs] at hcp
  | some s =>
    have hlt := hI.bound p hp s hs
    simp only [hs, Option.bind_some, List.getElem?_eq_getElem hlt, Option.map_some, Option.some.injEq] at hcp
    rw [← hcp]; exact hI.cache0 _ (List.getElem_mem hlt)

/-- in a single generation every prepared handle points to map object 0 -/
theorem mapOf_zero (w : World) (hI : Inv2 r w) (p : Pool) (hp : p ∈ w.handles) (s : Nat) (hs : structOf p = some s) :
    mapOfPool w p = some 0 := by
  have hlt := hI.bound p hp s hs
  simp only [mapOfPool, hs, Option.bind_some, List.getElem?_eq_getElem hlt]
  exact hI.map0 _ (List.getElem_mem hlt)

theorem runD_snoc (cfg : SCfg) (prepare : Bool) (seq : List DOp) (op : DOp) :
    runD cfg prepare (seq ++ [op]) = stepD (runD cfg prepare seq) op := by
  simp [runD, List.foldl_append]

/-- Close through the root of a PrepareStmt database, then a prepared session from ANY handle: the new handle's struct
    has a nil map -/
theorem session_after_close (w0 : World) (hI : Inv3 r w0) (h : Nat) :
    let w := stepD w0 (.close 0)
    h < w.handles.length →
    mapOfPool w (.pdb 0) = none ∧
    ∃ p, (stepD w (.session h true)).handles = w.handles ++ [p] ∧ (structOf p).isSome = true ∧
         mapOfPool (stepD w (.session h true)) p = none := by
  intro w hh
  have hI' : Inv3 r w := step_inv3 w0 hI (.close 0)
  obtain ⟨st0, hst0⟩ : ∃ st, w0.structs[0]? = some st := ⟨_, List.getElem?_eq_getElem hI.pos⟩
  have hw : w = { w0 with structs := w0.structs.set 0 { st0 with map := none } } := by
    show stepD w0 (.close 0) = _
    simp [stepD, hI.root, structOf, hst0]
  have hmap0 : (w.structs[0]?).bind (·.map) = none := by
    rw [hw]; simp [hI.pos]
  have hcf := cacheFor_some w hI'.cfg 0 hI'.stored
  refine ⟨by simpa [mapOfPool, structOf] using hmap0, ?_⟩
  obtain ⟨p, hp⟩ : ∃ p, w.handles[h]? = some p := ⟨_, List.getElem?_eq_getElem hh⟩
  simp only [stepD, hp, Bool.not_true, Bool.false_eq_true, if_false, hcf]
  by_cases htx : isTx p = true
  · simp only [htx, if_true]
    exact ⟨_, rfl, by simp [structOf], by simpa [mapOfPool, structOf] using hmap0⟩
  · have hr : w.cfg.sessReuse = r := by rw [hI'.cfg]; rfl
    simp only [htx, Bool.false_eq_true, if_false, hr]
    cases r with
    | true =>
      simp only [if_true]
      exact ⟨_, rfl, by simp [structOf], by simpa [mapOfPool, structOf] using hmap0⟩
    | false =>
      simp only [Bool.false_eq_true, if_false]
      refine ⟨_, rfl, by simp [structOf], ?_⟩
      have hpos := hI'.pos
      have hget : w.structs[0]? = some w.structs[0] := List.getElem?_eq_getElem hpos
      rw [hget] at hmap0
      simp only [mapOfPool, structOf, Option.bind_some, hget, Option.getD_some]
      simpa using hmap0

end Gorm.SCS

namespace Gorm.SCS

/-! ### ONE struct: when the session-level handle is the registered struct itself (`sessReuse`, repair of F14a) -/

structure InvR (w : World) : Prop extends Inv true w where
  one : w.structs.length = w.nC

theorem invR_open (prepare : Bool) : InvR (openW (goodWith true) prepare) := by
  refine ⟨inv_open prepare, ?_⟩
  cases prepare <;> simp [openW, newCache, goodWith]

theorem cacheFor_goodR (w : World) (hI : InvR w) : (cacheFor w).1.structs.length = (cacheFor w).1.nC := by
  cases hs : w.store with
  | some s => rw [cacheFor_some w hI.cfg s hs]; exact hI.one
  | none =>
    rw [cacheFor_none w hI.cfg hs]
    simp [created, hI.one]

theorem step_invR (w : World) (hI : InvR w) (op : DOp) : InvR (stepD w op) := by
  have hI0 := step_inv w hI.toInv op
  have hc := hI.cfg
  refine ⟨hI0, ?_⟩
  cases op with
  | session h prep =>
    simp only [stepD]
    cases hh : w.handles[h]? with
    | none => exact hI.one
    | some p =>
      cases prep with
      | false => exact hI.one
      | true =>
        have hone := cacheFor_goodR w hI
        have hr : w.cfg.sessReuse = true := by rw [hc]; rfl
        simp only [Bool.not_true, Bool.false_eq_true, if_false, hr, if_true]
        by_cases htx : isTx p = true
        · simp only [htx, if_true]; exact hone
        · simp only [htx, Bool.false_eq_true, if_false]; exact hone
  | begin h =>
    simp only [stepD]
    cases hh : w.handles[h]? with
    | none => exact hI.one
    | some p => cases p <;> simp only [hc, goodWith, if_true] <;> exact hI.one
  | reset h =>
    cases hb : (w.handles[h]?).bind structOf with
    | none => simp only [stepD, hb]; exact hI.one
    | some s =>
      cases hst : w.structs[s]? with
      | none => simp only [stepD, hb, hst]; exact hI.one
      | some st => simp only [stepD, hb, hst, List.length_set]; exact hI.one
  | close h =>
    cases hb : (w.handles[h]?).bind structOf with
    | none => simp only [stepD, hb]; exact hI.one
    | some s =>
      cases hst : w.structs[s]? with
      | none => simp only [stepD, hb, hst]; exact hI.one
      | some st => simp only [stepD, hb, hst, List.length_set]; exact hI.one

theorem invR_run (prepare : Bool) (seq : List DOp) : InvR (runD (goodWith true) prepare seq) :=
  fold_inv InvR (fun w op h => step_invR w h op) seq _ (invR_open prepare)

/-- one struct: at most one `PreparedStmtDB` value exists and every prepared handle is on it -/
theorem oneStruct_of_invR (w : World) (hI : InvR w) :
    w.structs.length ≤ 1 ∧ ∀ p ∈ w.handles, ∀ s, structOf p = some s → s = 0 := by
  have hn : w.nC ≤ 1 := by rcases hI.cnt with ⟨h, _⟩ | ⟨h, _⟩ <;> omega
  refine ⟨by rw [hI.one]; exact hn, fun p hp s hs => ?_⟩
  have := hI.bound p hp s hs
  rw [hI.one] at this; omega

end Gorm.SCS

namespace Gorm.SCS

/-- once a cache is registered, every `Session(PrepareStmt)` that STARTS afterwards ends up on it, whatever the
    interleaving of the calls and whichever way a created cache would be registered (`Store` or `LoadOrStore`) -/
structure CInv (c : Nat) (n : Nat) (rs : List Nat) (s : CState) : Prop where
  store : s.store = some c
  nC : s.nC = n
  regs : s.regs = rs
  loaded : ∀ g, s.loaded g = none ∨ s.loaded g = some (some c)
  got : ∀ g, s.got g = none ∨ s.got g = some c

theorem cstep_inv (ato : Bool) (c n : Nat) (rs : List Nat) (s : CState) (hI : CInv c n rs s) (a : CAct) :
    CInv c n rs (cstep ato s a) := by
  cases a with
  | load g =>
    simp only [cstep]
    cases hl : s.loaded g with
    | some x => exact hI
    | none =>
      refine ⟨hI.store, hI.nC, hI.regs, fun j => ?_, hI.got⟩
      by_cases hj : j = g
      · simp [hj, hI.store]
      · simp only [hj, if_false]; exact hI.loaded j
  | build g =>
    simp only [cstep]
    rcases hI.loaded g with hl | hl
    · rw [hl]; exact hI
    · rw [hl]
      rcases hI.got g with hg | hg
      · rw [hg]
        refine ⟨hI.store, hI.nC, hI.regs, hI.loaded, fun j => ?_⟩
        by_cases hj : j = g
        · simp [hj]
        · simp only [hj, if_false]; exact hI.got j
      · rw [hg]; exact hI

theorem crun_inv (ato : Bool) (c n : Nat) (rs : List Nat) (sched : List CAct) (s : CState) (hI : CInv c n rs s) :
    CInv c n rs (crun ato s sched) := by
  induction sched generalizing s with
  | nil => exact hI
  | cons a rest ih => exact ih _ (cstep_inv ato c n rs s hI a)

/-- registration with `LoadOrStore` (repaired code): whatever the interleaving, the registered cache is never replaced, at
    most one cache object is ever registered, and whatever a goroutine loaded or ended up with IS the registered one -/
structure AInv (s : CState) : Prop where
  regs : (s.store = none ∧ s.regs = []) ∨ (∃ c, s.store = some c ∧ s.regs = [c])
  loaded : ∀ g x, s.loaded g = some (some x) → s.store = some x
  got : ∀ g x, s.got g = some x → s.store = some x

theorem astep_inv (s : CState) (hI : AInv s) (a : CAct) : AInv (cstep true s a) := by
  cases a with
  | load g =>
    simp only [cstep]
    cases hl : s.loaded g with
    | some x => exact hI
    | none =>
      refine ⟨hI.regs, fun j x hx => ?_, hI.got⟩
      by_cases hj : j = g
      · simp only [hj, if_true, Option.some.injEq] at hx; exact hx
      · simp only [hj, if_false] at hx; exact hI.loaded j x hx
  | build g =>
    simp only [cstep]
    cases hl : s.loaded g with
    | none => exact hI
    | some l =>
      cases hg : s.got g with
      | some y => cases l <;> exact hI
      | none =>
        cases l with
        | some c =>
          have hc := hI.loaded g c hl
          refine ⟨hI.regs, hI.loaded, fun j x hx => ?_⟩
          by_cases hj : j = g
          · simp only [hj, if_true, Option.some.injEq] at hx; rw [← hx]; exact hc
          · simp only [hj, if_false] at hx; exact hI.got j x hx
        | none =>
          simp only [if_true]
          cases hs : s.store with
          | some c =>
            refine ⟨by simpa [hs] using hI.regs, fun j x hx => by simpa [hs] using hI.loaded j x hx, fun j x hx => ?_⟩
            by_cases hj : j = g
            · simp only [hj, if_true, Option.some.injEq] at hx; rw [← hx]
            · simp only [hj, if_false] at hx; simpa [hs] using hI.got j x hx
          | none =>
            have hr : s.regs = [] := by
              rcases hI.regs with ⟨_, h⟩ | ⟨c, h, _⟩
              · exact h
              · rw [hs] at h; cases h
            refine ⟨Or.inr ⟨s.nC, rfl, by simp [hr]⟩, fun j x hx => ?_, fun j x hx => ?_⟩
            · have := hI.loaded j x hx; rw [hs] at this; cases this
            · by_cases hj : j = g
              · simp only [hj, if_true, Option.some.injEq] at hx; rw [← hx]
              · simp only [hj, if_false] at hx
                have := hI.got j x hx; rw [hs] at this; cases this

theorem arun_inv (sched : List CAct) (s : CState) (hI : AInv s) : AInv (crun true s sched) := by
  induction sched generalizing s with
  | nil => exact hI
  | cons a rest ih => exact ih _ (astep_inv s hI a)

end Gorm.SCS
