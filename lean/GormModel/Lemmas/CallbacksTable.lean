import GormModel.Model.Callbacks
import GormModel.Lemmas.Callbacks
import GormModel.Lemmas.CallbacksReach
import GormModel.Lemmas.CallbacksPost
/-!
  Table level: `sortCallbacks` on an arbitrary callback table; processor level: `compile`, histories.
-/
namespace Gorm.CbL
open Gorm

/-! ### the `sort.SliceStable` pre-pass only permutes -/

theorem mem_insertBack (x : Cb) (l : List Cb) (y : Cb) : y ∈ insertBack x l ↔ y = x ∨ y ∈ l := by
  induction l with
  | nil => simp [insertBack]
  | cons z zs ih =>
    unfold insertBack
    split
    · simp [ih]
      constructor
      · rintro (h | h | h)
        · exact Or.inr (Or.inl h)
        · exact Or.inl h
        · exact Or.inr (Or.inr h)
      · rintro (h | h | h)
        · exact Or.inr (Or.inl h)
        · exact Or.inl h
        · exact Or.inr (Or.inr h)
    · simp

theorem mem_foldl_insertBack (l acc : List Cb) (y : Cb) :
    y ∈ l.foldl (fun acc x => insertBack x acc) acc ↔ y ∈ l ∨ y ∈ acc := by
  induction l generalizing acc with
  | nil => simp
  | cons x xs ih =>
    simp only [List.foldl_cons, ih, mem_insertBack, List.mem_cons]
    constructor
    · rintro (h | h | h)
      · exact Or.inl (Or.inr h)
      · exact Or.inl (Or.inl h)
      · exact Or.inr h
    · rintro ((h | h) | h)
      · exact Or.inr (Or.inl h)
      · exact Or.inl h
      · exact Or.inr (Or.inr h)

theorem mem_stableSortCbs (l : List Cb) (y : Cb) : y ∈ stableSortCbs l ↔ y ∈ l := by
  simp [stableSortCbs, insertionSortRev, mem_foldl_insertBack]

theorem length_insertBack (x : Cb) (l : List Cb) : (insertBack x l).length = l.length + 1 := by
  induction l with
  | nil => simp [insertBack]
  | cons z zs ih => unfold insertBack; split <;> simp [ih]

/-! ### initial state -/

theorem wf_init (cs : List Cb) : WF (cs.map (·.name)) { cs := cs.toArray, sorted := [] } := by
  refine ⟨by simp, ?_⟩
  intro j hj
  simp at hj
  simp [hj]

theorem WF.toList {names : List String} {st : SortSt} (h : WF names st) :
    st.cs.toList.map (·.name) = names := by
  apply List.ext_getElem
  · simp [h.1]
  · intro j h1 h2
    have hj : j < st.cs.size := by simpa using h1
    have := h.2 j hj
    simp [hj, h2] at this
    simp [this]

/-- the run of the main loop inside `sortCallbacks`, as a chain of primitive steps from the empty order -/
theorem sortCallbacks_loop_reach (cs : List Cb) :
    Reach (cs.map (·.name)) { cs := cs.toArray, sorted := [] }
      (sortLoop (cs.map (·.name)) (sortFuel cs.length) cs.length 0 { cs := cs.toArray, sorted := [] }).1 :=
  sortLoop_reach _ _ _ 0 _ (wf_init cs) (by simp)

/-- the callback slice written back to `p.callbacks` has the same names at the same positions as the
    pre-sorted input (only `before`/`after` fields are rewritten) -/
theorem sortCallbacks_cs_names (cs0 : List Cb) :
    (sortCallbacks cs0).cs.map (·.name) = (stableSortCbs cs0).map (·.name) := by
  unfold sortCallbacks
  simp only
  have hr := sortCallbacks_loop_reach (stableSortCbs cs0)
  have hw := reach_wf hr (wf_init _)
  split
  · rename_i st e heq
    rw [heq] at hw; exact hw.toList
  · rename_i st heq
    rw [heq] at hw; exact hw.toList

theorem sortCallbacks_mem_names (cs0 : List Cb) (n : String) :
    n ∈ (sortCallbacks cs0).cs.map (·.name) ↔ n ∈ cs0.map (·.name) := by
  rw [sortCallbacks_cs_names]
  simp only [List.mem_map, mem_stableSortCbs]

/-- SOUNDNESS of the order: only names of the table are ever placed (error or not) -/
theorem sortCallbacks_sorted_subset (cs0 : List Cb) :
    ∀ s ∈ (sortCallbacks cs0).sorted, s ∈ cs0.map (·.name) := by
  have hr := sortCallbacks_loop_reach (stableSortCbs cs0)
  have hsub := reach_subset hr (by simp)
  intro s hs
  have : s ∈ (stableSortCbs cs0).map (·.name) := by
    unfold sortCallbacks at hs
    simp only at hs
    split at hs
    · rename_i st e heq
      rw [heq] at hsub; exact hsub s hs
    · rename_i st heq
      rw [heq] at hsub; exact hsub s hs
  simpa only [List.mem_map, mem_stableSortCbs] using this

/-- COMPLETENESS of the order: without an error every name of the table is placed -/
theorem sortCallbacks_complete (cs0 : List Cb) (hok : (sortCallbacks cs0).err = none) :
    ∀ c ∈ cs0, c.name ∈ (sortCallbacks cs0).sorted := by
  intro c hc
  have hc' : c ∈ stableSortCbs cs0 := (mem_stableSortCbs cs0 c).mpr hc
  obtain ⟨j, hj, hget⟩ := List.getElem_of_mem hc'
  have hp := sortLoop_post ((stableSortCbs cs0).map (·.name)) (sortFuel (stableSortCbs cs0).length)
    (stableSortCbs cs0).length 0 { cs := (stableSortCbs cs0).toArray, sorted := [] } (wf_init _) (by simp)
  unfold sortCallbacks at hok ⊢
  simp only at hok ⊢
  split at hok
  · cases hok
  · rename_i st heq
    rw [heq] at hp
    have := hp rfl j (by omega) (by omega)
    simp [hj, hget] at this
    exact this

/-- the records written back keep their identity fields (only `before`/`after` are rewritten):
    every output record has a pre-image in the input table with the same name/remove/match/handler -/
theorem sortCallbacks_cs_sameId (cs0 : List Cb) :
    ∀ c ∈ (sortCallbacks cs0).cs, ∃ c0 ∈ cs0, sameId c c0 := by
  have hr := sortCallbacks_loop_reach (stableSortCbs cs0)
  have key : ∀ st : SortSt, Reach ((stableSortCbs cs0).map (·.name))
      { cs := (stableSortCbs cs0).toArray, sorted := [] } st → ∀ c ∈ st.cs.toList, ∃ c0 ∈ cs0, sameId c c0 := by
    intro st hst c hc
    obtain ⟨j, hj, hget⟩ := List.getElem_of_mem hc
    have hsz := reach_size hst
    simp at hsz hj
    have hid := reach_sameId hst j
    have hj' : j < (stableSortCbs cs0).length := by omega
    simp [hj, hj'] at hid
    simp only [Array.getElem_toList] at hget
    rw [hget] at hid
    exact ⟨(stableSortCbs cs0)[j], (mem_stableSortCbs cs0 _).mp (List.getElem_mem hj'), hid⟩
  unfold sortCallbacks
  simp only
  split
  · rename_i st e heq
    rw [heq] at hr; exact key st hr
  · rename_i st heq
    rw [heq] at hr; exact key st hr

/-! ### processor level -/

/-- the table `compile` hands to `sortCallbacks` -/
def compileTable (p : Proc) : List Cb :=
  let cbs := p.callbacks.filter (·.matchOk)
  let removed := (p.callbacks.filter (·.remove)).map (·.name)
  if removed.isEmpty then cbs else removeCallbacks cbs removed

theorem compile_eq (p : Proc) :
    p.compile = ({ callbacks := (sortCallbacks (compileTable p)).cs, fns := (sortCallbacks (compileTable p)).fns,
                   order := (sortCallbacks (compileTable p)).sorted }, (sortCallbacks (compileTable p)).err) := rfl

/-- processor invariant between calls: a compile leaves neither Remove markers nor unmatched records behind -/
def Clean (cs : List Cb) : Prop := ∀ c ∈ cs, c.remove = false ∧ c.matchOk = true

theorem mem_compileTable (p : Proc) (c : Cb) :
    c ∈ compileTable p ↔ c ∈ p.callbacks ∧ c.matchOk = true ∧ ∀ r ∈ p.callbacks, r.remove = true → r.name ≠ c.name := by
  unfold compileTable
  simp only
  split
  · rename_i he
    simp only [List.isEmpty_iff, List.map_eq_nil_iff, List.filter_eq_nil_iff] at he
    simp only [List.mem_filter]
    constructor
    · rintro ⟨h1, h2⟩
      exact ⟨h1, h2, fun r hr hrm => absurd hrm (he r hr)⟩
    · rintro ⟨h1, h2, _⟩
      exact ⟨h1, h2⟩
  · simp only [removeCallbacks, List.mem_filter, List.contains_eq_mem, List.mem_map,
      Bool.not_eq_eq_eq_not, Bool.not_true, decide_eq_false_iff_not, not_exists, not_and]
    constructor
    · rintro ⟨⟨h1, h2⟩, h3⟩
      exact ⟨h1, h2, fun r hr hrm => h3 r ⟨hr, hrm⟩⟩
    · rintro ⟨h1, h2, h3⟩
      exact ⟨⟨h1, h2⟩, fun r hr => h3 r hr.1 hr.2⟩

theorem compileTable_clean (p : Proc) : Clean (compileTable p) := by
  intro c hc
  obtain ⟨h1, h2, h3⟩ := (mem_compileTable p c).mp hc
  refine ⟨?_, h2⟩
  cases hr : c.remove with
  | false => rfl
  | true => exact absurd rfl (h3 c h1 hr)

theorem compile_clean (p : Proc) : Clean (p.compile).1.callbacks := by
  rw [compile_eq]
  intro c hc
  obtain ⟨c0, hc0, hid⟩ := sortCallbacks_cs_sameId _ c hc
  have := compileTable_clean p c0 hc0
  exact ⟨hid.2.1.trans this.1, hid.2.2.1.trans this.2⟩

/-- which names are live after one more call, given which were live before -/
def liveStep (L : String → Prop) (op : RegOp) (n : String) : Prop :=
  match op with
  | .register m _ _ ok _ => (m = n ∧ ok = true) ∨ L n
  | .replace m _ _ _ => m = n ∨ L n
  | .remove m => m ≠ n ∧ L n

theorem apply_names (p : Proc) (hc : Clean p.callbacks) (op : RegOp) (n : String) :
    n ∈ (p.apply op).1.callbacks.map (·.name) ↔ liveStep (fun x => x ∈ p.callbacks.map (·.name)) op n := by
  unfold Proc.apply
  rw [compile_eq]
  simp only
  rw [sortCallbacks_mem_names]
  simp only [List.mem_map, mem_compileTable, List.mem_append, List.mem_singleton]
  cases op with
  | register m b a ok h =>
    simp only [liveStep, RegOp.toCb]
    constructor
    · rintro ⟨c, ⟨hc1 | hc1, hm, _⟩, rfl⟩
      · exact Or.inr ⟨c, hc1, rfl⟩
      · subst hc1; exact Or.inl ⟨rfl, hm⟩
    · rintro (⟨rfl, hok⟩ | ⟨c, hc1, rfl⟩)
      · refine ⟨_, ⟨Or.inr rfl, hok, ?_⟩, rfl⟩
        rintro r (hr | hr) hrm
        · exact absurd hrm (by simp [(hc r hr).1])
        · subst hr; simp at hrm
      · refine ⟨c, ⟨Or.inl hc1, (hc c hc1).2, ?_⟩, rfl⟩
        rintro r (hr | hr) hrm
        · exact absurd hrm (by simp [(hc r hr).1])
        · subst hr; simp at hrm
  | replace m b a h =>
    simp only [liveStep, RegOp.toCb]
    constructor
    · rintro ⟨c, ⟨hc1 | hc1, hm, _⟩, rfl⟩
      · exact Or.inr ⟨c, hc1, rfl⟩
      · subst hc1; exact Or.inl rfl
    · rintro (rfl | ⟨c, hc1, rfl⟩)
      · refine ⟨_, ⟨Or.inr rfl, rfl, ?_⟩, rfl⟩
        rintro r (hr | hr) hrm
        · exact absurd hrm (by simp [(hc r hr).1])
        · subst hr; simp at hrm
      · refine ⟨c, ⟨Or.inl hc1, (hc c hc1).2, ?_⟩, rfl⟩
        rintro r (hr | hr) hrm
        · exact absurd hrm (by simp [(hc r hr).1])
        · subst hr; simp at hrm
  | remove m =>
    simp only [liveStep, RegOp.toCb]
    constructor
    · rintro ⟨c, ⟨hc1 | hc1, hm, h3⟩, rfl⟩
      · exact ⟨h3 _ (Or.inr rfl) rfl, c, hc1, rfl⟩
      · subst hc1; exact absurd rfl (h3 _ (Or.inr rfl) rfl)
    · rintro ⟨hne, c, hc1, rfl⟩
      refine ⟨c, ⟨Or.inl hc1, (hc c hc1).2, ?_⟩, rfl⟩
      rintro r (hr | hr) hrm
      · exact absurd hrm (by simp [(hc r hr).1])
      · subst hr; exact hne

theorem liveStep_congr {A B : String → Prop} (h : ∀ n, A n ↔ B n) (op : RegOp) (n : String) :
    liveStep A op n ↔ liveStep B op n := by
  cases op <;> simp only [liveStep, h]

/-- the names live after a history: registered (with a matching `Match`) or `Replace`d after the last
    `Remove` of that name -/
def liveName (h : List RegOp) : String → Prop := h.foldl liveStep (fun _ => False)

theorem liveName_snoc (h : List RegOp) (op : RegOp) (n : String) :
    liveName (h ++ [op]) n ↔ liveStep (liveName h) op n := by
  simp [liveName, List.foldl_append]

theorem run_inv (ops : List RegOp) (p : Proc) (errs : List (Option SortErr)) (L : String → Prop)
    (hc : Clean p.callbacks) (hl : ∀ n, n ∈ p.callbacks.map (·.name) ↔ L n) :
    Clean (ops.foldl (fun (acc : Proc × List (Option SortErr)) op =>
        let (p', e) := acc.1.apply op
        (p', acc.2 ++ [e])) (p, errs)).1.callbacks ∧
    ∀ n, n ∈ (ops.foldl (fun (acc : Proc × List (Option SortErr)) op =>
        let (p', e) := acc.1.apply op
        (p', acc.2 ++ [e])) (p, errs)).1.callbacks.map (·.name) ↔ ops.foldl liveStep L n := by
  induction ops generalizing p errs L with
  | nil => exact ⟨hc, hl⟩
  | cons op ops ih =>
    simp only [List.foldl_cons]
    apply ih
    · exact compile_clean _
    · intro n
      rw [apply_names p hc op n]
      exact liveStep_congr hl op n

theorem run_clean (h : List RegOp) : Clean (Proc.run {} h).1.callbacks :=
  (run_inv h {} [] (fun _ => False) (by intro c hc; cases hc) (by intro n; simp)).1

theorem run_names (h : List RegOp) (n : String) :
    n ∈ (Proc.run {} h).1.callbacks.map (·.name) ↔ liveName h n :=
  (run_inv h {} [] (fun _ => False) (by intro c hc; cases hc) (by intro n; simp)).2 n

/-- one more call on a clean processor: if it returns no error, the execution order consists of exactly
    the live names -/
theorem apply_order (p : Proc) (hc : Clean p.callbacks) (op : RegOp) (hok : (p.apply op).2 = none) (n : String) :
    n ∈ (p.apply op).1.order ↔ liveStep (fun x => x ∈ p.callbacks.map (·.name)) op n := by
  rw [← apply_names p hc op n]
  unfold Proc.apply at hok ⊢
  rw [compile_eq] at hok ⊢
  simp only at hok ⊢
  rw [sortCallbacks_mem_names]
  constructor
  · exact sortCallbacks_sorted_subset _ n
  · intro hn
    obtain ⟨c, hc1, rfl⟩ := List.mem_map.mp hn
    exact sortCallbacks_complete _ hok c hc1

/-! ### which handler runs for a placed name: `p.fns` -/

/-- the handler `sortCallbacks` selects for a name: that of the LAST record with the name, unless it
    is a Remove marker (same rule as `processor.Get`) -/
def handlerOf (cs : List Cb) (n : String) : Option Nat :=
  match getRIndex (cs.map (·.name)) n with
  | some idx => if (cs[idx]!).remove then none else some (cs[idx]!).hid
  | none => none

theorem sortCallbacks_fns (cs0 : List Cb) (hok : (sortCallbacks cs0).err = none) :
    (sortCallbacks cs0).fns = (sortCallbacks cs0).sorted.filterMap (handlerOf (sortCallbacks cs0).cs) := by
  have hn := sortCallbacks_cs_names cs0
  unfold sortCallbacks at hok hn ⊢
  simp only at hok hn ⊢
  split at hok
  · cases hok
  · rename_i st heq
    rw [heq] at hn
    simp only at hn ⊢
    unfold selectFns handlerOf
    rw [hn]
    rfl

theorem length_filterMap_of_isSome {α β : Type} (f : α → Option β) (l : List α)
    (h : ∀ x ∈ l, (f x).isSome = true) : (l.filterMap f).length = l.length := by
  induction l with
  | nil => rfl
  | cons x xs ih =>
    have hx := h x (by simp)
    cases hfx : f x with
    | none => simp [hfx] at hx
    | some y =>
      simp only [List.filterMap_cons, hfx, List.length_cons]
      rw [ih (fun z hz => h z (by simp [hz]))]

theorem handlerOf_isSome (cs : List Cb) (hc : Clean cs) (n : String) (hn : n ∈ cs.map (·.name)) :
    (handlerOf cs n).isSome = true := by
  unfold handlerOf
  obtain ⟨k, hk⟩ := (getRIndex_isSome_iff _ _).mpr hn
  rw [hk]
  have hlt := (getRIndex_some _ _ _ hk).1
  simp at hlt
  have : (cs[k]!).remove = false := by
    have := (hc (cs[k]) (List.getElem_mem hlt)).1
    simpa [hlt] using this
  show (if (cs[k]!).remove = true then none else some (cs[k]!).hid).isSome = true
  rw [this]; rfl

end Gorm.CbL
