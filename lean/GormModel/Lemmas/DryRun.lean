/-
  Generic lemmas about `Model/DryRun.lean`: for ANY table `fns` in which
    (H1) every call dominated by a DryRun test is a driver call or consumes a driver result, and
    (H2) every driver call is dominated by `!db.DryRun`,
  the build part of every function / pipeline is independent of DryRun, and a DryRun run issues no
  driver call.  The two hypotheses are discharged for the regenerated table in Props/C19.lean.
-/
import GormModel.Model.DryRun
namespace Gorm
open Gen

def TableScoped (fns : List DFn) : Prop :=
  ∀ f ∈ fns, ∀ c ∈ f.calls, c.hasDry = true → (c.cls = .driver ∨ c.cls = .consume)

def TableGuarded (fns : List DFn) : Prop :=
  ∀ f ∈ fns, ∀ c ∈ f.calls, c.cls = .driver → "!db.DryRun" ∈ c.guards

theorem atomVal_dry_indep (st : RunSt) (env : String → Bool) (b : Bool) (a : String)
    (h1 : a ≠ "!db.DryRun") (h2 : a ≠ "db.DryRun") :
    atomVal { st with dryRun := b } env a = atomVal st env a := by
  simp [atomVal, h1, h2]

theorem all_atomVal_dry_indep (st : RunSt) (env : String → Bool) (b : Bool) (gs : List String)
    (h : gs.any (fun g => g = "!db.DryRun" || g = "db.DryRun") = false) :
    gs.all (atomVal { st with dryRun := b } env) = gs.all (atomVal st env) := by
  induction gs with
  | nil => rfl
  | cons g gs ih =>
    simp only [List.any_cons, Bool.or_eq_false_iff] at h
    obtain ⟨hg, hrest⟩ := h
    have hg' : g ≠ "!db.DryRun" ∧ g ≠ "db.DryRun" := by
      simp only [decide_eq_false_iff_not] at hg
      exact hg
    simp only [List.all_cons]
    rw [atomVal_dry_indep st env b g hg'.1 hg'.2, ih hrest]

theorem enabled_dry_indep (c : DCall) (st : RunSt) (env : String → Bool) (b : Bool)
    (h : c.hasDry = false) : c.enabled { st with dryRun := b } env = c.enabled st env := by
  unfold DCall.enabled
  exact all_atomVal_dry_indep st env b c.guards h

theorem dcall_enabled_false_of_mem (c : DCall) (st : RunSt) (env : String → Bool) (a : String)
    (ha : a ∈ c.guards) (hv : atomVal st env a = false) : c.enabled st env = false := by
  unfold DCall.enabled
  apply Bool.eq_false_iff.mpr
  intro hall
  rw [List.all_eq_true] at hall
  have := hall a ha
  rw [hv] at this
  exact Bool.noConfusion this

theorem findFn_mem {fns : List DFn} {name : String} {f : DFn} (h : findFn fns name = some f) : f ∈ fns :=
  List.mem_of_find?_eq_some h

/-- per-call step of `runFn`, as a function (so that list lemmas apply) -/
def callStep (fns : List DFn) (st : RunSt) (env : String → Bool) (fuel : Nat) (name : String) (c : DCall) : List DEv :=
  if c.enabled st env then
    (if c.cls = .pkgcall then runFn fns st env fuel c.what else [⟨c.cls, name, c.what⟩])
  else []

theorem runFn_succ (fns : List DFn) (st : RunSt) (env : String → Bool) (fuel : Nat) (name : String) :
    runFn fns st env (fuel + 1) name =
      match findFn fns name with
      | none => []
      | some f => f.calls.flatMap (callStep fns st env fuel name) := by
  rfl

theorem filter_flatMap_congr {α β : Type} (p : β → Bool) (l : List α) (f g : α → List β)
    (h : ∀ a ∈ l, (f a).filter p = (g a).filter p) :
    (l.flatMap f).filter p = (l.flatMap g).filter p := by
  induction l with
  | nil => rfl
  | cons a l ih =>
    simp only [List.flatMap_cons, List.filter_append]
    rw [h a (List.mem_cons_self ..), ih (fun x hx => h x (List.mem_cons_of_mem _ hx))]

theorem filter_flatMap_nil {α β : Type} (p : β → Bool) (l : List α) (f : α → List β)
    (h : ∀ a ∈ l, (f a).filter p = []) : (l.flatMap f).filter p = [] := by
  induction l with
  | nil => rfl
  | cons a l ih =>
    simp only [List.flatMap_cons, List.filter_append]
    rw [h a (List.mem_cons_self ..), ih (fun x hx => h x (List.mem_cons_of_mem _ hx))]
    rfl

/-- BUILD PART: the shaping trace of every function is the same with DryRun on and off -/
theorem runFn_shape_dry_indep (fns : List DFn) (hs : TableScoped fns) (st : RunSt) (env : String → Bool) (b : Bool) :
    ∀ (fuel : Nat) (name : String),
      (runFn fns { st with dryRun := b } env fuel name).filter (fun e => e.cls = .shape) =
      (runFn fns st env fuel name).filter (fun e => e.cls = .shape) := by
  intro fuel
  induction fuel with
  | zero => intro name; rfl
  | succ fuel ih =>
    intro name
    rw [runFn_succ, runFn_succ]
    cases hf : findFn fns name with
    | none => rfl
    | some f =>
      simp only
      apply filter_flatMap_congr
      intro c hc
      have hmem := findFn_mem hf
      unfold callStep
      cases hd : c.hasDry with
      | false =>
        rw [enabled_dry_indep c st env b hd]
        by_cases he : c.enabled st env = true
        · simp only [he, if_true]
          by_cases hp : c.cls = .pkgcall
          · simp only [hp, if_true]; exact ih c.what
          · simp only [hp, if_false]
        · simp only [he]; rfl
      | true =>
        have hcls := hs f hmem c hc hd
        have hnp : c.cls ≠ .pkgcall := by
          rcases hcls with h | h <;> rw [h] <;> decide
        have hns : (decide (c.cls = DCls.shape)) = false := by
          rcases hcls with h | h <;> rw [h] <;> decide
        by_cases he1 : c.enabled { st with dryRun := b } env = true <;>
          by_cases he2 : c.enabled st env = true <;>
          simp [he1, he2, hnp, List.filter, hns]

/-- calls of class `k` all carry the guard atom `a` -/
def TableClsGuarded (fns : List DFn) (k : DCls) (a : String) : Prop :=
  ∀ f ∈ fns, ∀ c ∈ f.calls, c.cls = k → a ∈ c.guards

/-- if every call of class `k` is dominated by the atom `a` and `a` is false in `st`, no function
    issues a call of class `k` -/
theorem runFn_cls_nil (fns : List DFn) (k : DCls) (a : String)
    (hg : TableClsGuarded fns k a) (st : RunSt) (env : String → Bool) (ha : atomVal st env a = false) :
    ∀ (fuel : Nat) (name : String),
      (runFn fns st env fuel name).filter (fun e => e.cls = k) = [] := by
  intro fuel
  induction fuel with
  | zero => intro name; rfl
  | succ fuel ih =>
    intro name
    rw [runFn_succ]
    cases hf : findFn fns name with
    | none => rfl
    | some f =>
      simp only
      apply filter_flatMap_nil
      intro c hc
      have hmem := findFn_mem hf
      unfold callStep
      by_cases he : c.enabled st env = true
      · simp only [he, if_true]
        by_cases hp : c.cls = .pkgcall
        · simp only [hp, if_true]; exact ih c.what
        · simp only [hp, if_false]
          by_cases hdv : c.cls = k
          · exfalso
            have hin := hg f hmem c hc hdv
            have := dcall_enabled_false_of_mem c st env a hin ha
            rw [this] at he
            exact Bool.noConfusion he
          · simp [List.filter, hdv]
      · simp only [he]; rfl

/-- EXECUTE PART: with DryRun set no function issues a driver call -/
theorem runFn_driver_nil (fns : List DFn) (hg : TableGuarded fns) (st : RunSt) (env : String → Bool)
    (hdry : st.dryRun = true) :
    ∀ (fuel : Nat) (name : String),
      (runFn fns st env fuel name).filter (fun e => e.cls = .driver) = [] :=
  runFn_cls_nil fns .driver "!db.DryRun" hg st env (atomVal_notDryRun st env hdry)

theorem pipelineTrace_cls_nil (fns : List DFn) (k : DCls) (a : String)
    (hg : TableClsGuarded fns k a) (regs : List CbReg) (st : RunSt) (env : String → Bool)
    (ha : atomVal st env a = false) (fuel : Nat) :
    (pipelineTrace fns regs st env fuel).filter (fun e => e.cls = k) = [] := by
  unfold pipelineTrace
  apply filter_flatMap_nil
  intro r _
  by_cases hact : r.active st = true
  · simp only [hact, if_true]; exact runFn_cls_nil fns k a hg st env ha fuel r.handler
  · simp only [hact]; rfl

theorem atomVal_skipTx (st : RunSt) (env : String → Bool) (h : st.skipDefaultTx = true) :
    atomVal st env "!db.Config.SkipDefaultTransaction" = false := by
  simp [atomVal, h]

theorem pipelineTrace_shape_dry_indep (fns : List DFn) (hs : TableScoped fns) (regs : List CbReg)
    (st : RunSt) (env : String → Bool) (b : Bool) (fuel : Nat) :
    (pipelineTrace fns regs { st with dryRun := b } env fuel).filter (fun e => e.cls = .shape) =
    (pipelineTrace fns regs st env fuel).filter (fun e => e.cls = .shape) := by
  unfold pipelineTrace
  apply filter_flatMap_congr
  intro r _
  have hact : r.active { st with dryRun := b } = r.active st := by
    simp [CbReg.active]
  rw [hact]
  by_cases ha : r.active st = true
  · simp only [ha, if_true]; exact runFn_shape_dry_indep fns hs st env b fuel r.handler
  · simp only [ha]; rfl

theorem pipelineTrace_driver_nil (fns : List DFn) (hg : TableGuarded fns) (regs : List CbReg)
    (st : RunSt) (env : String → Bool) (hdry : st.dryRun = true) (fuel : Nat) :
    (pipelineTrace fns regs st env fuel).filter (fun e => e.cls = .driver) = [] := by
  unfold pipelineTrace
  apply filter_flatMap_nil
  intro r _
  by_cases ha : r.active st = true
  · simp only [ha, if_true]; exact runFn_driver_nil fns hg st env hdry fuel r.handler
  · simp only [ha]; rfl

/-- `processor.Execute`: DryRun ⇒ same build part as the real run, nothing sent (whichever `DB.Begin` exists) -/
theorem execute_dry_equals_real (b : Bool) (fns : List DFn) (hs : TableScoped fns) (hg : TableGuarded fns)
    (regs : List CbReg) (st : RunSt) (env : String → Bool) (fuel : Nat) (hdry : st.dryRun = true) :
    (execute b fns regs st env fuel).built = (execute b fns regs st.real env fuel).built ∧
    (execute b fns regs st env fuel).sent = [] := by
  constructor
  · unfold execute RunSt.real
    simp only
    exact (pipelineTrace_shape_dry_indep fns hs regs st env false fuel).symm
  · unfold execute
    simp only
    exact pipelineTrace_driver_nil fns hg regs st env hdry fuel

/-- transaction-control calls of the callbacks reach the pool only if `txReaches` -/
theorem execute_txs_nil_of_not_reaches (b : Bool) (fns : List DFn) (regs : List CbReg) (st : RunSt)
    (env : String → Bool) (fuel : Nat) (h : txReaches b st = false) :
    (execute b fns regs st env fuel).txs = [] := by
  simp [execute, h]

/-- with the repaired `DB.Begin` a DryRun handle never reaches the pool with a transaction-control call -/
theorem txReaches_dry (st : RunSt) (hd : st.dryRun = true) : txReaches true st = false := by
  simp [txReaches, hd]

/-- the unrepaired `DB.Begin` does not look at DryRun -/
theorem txReaches_off (st : RunSt) : txReaches false st = true := by
  simp [txReaches]

/-- … hence the model without the repair is the former model: every transaction call of the trace -/
theorem execute_txs_off (fns : List DFn) (regs : List CbReg) (st : RunSt) (env : String → Bool) (fuel : Nat) :
    (execute false fns regs st env fuel).txs = (pipelineTrace fns regs st env fuel).filter (fun e => e.cls = .tx) := by
  simp [execute, txReaches]

end Gorm
