/-
  C16 (round 5) — lemmas about Model.UpsertForms: `find`, the resolution order of `LookUpField`, and the fold that
  builds the not-found record.
-/
import GormModel.Model.UpsertForms
namespace Gorm.UpsertForms

/-- what `find` returns satisfies the predicate and sits at the reported index -/
theorem find_some_spec (p : FField → Bool) :
    ∀ (fs : List FField) (k i : Nat), find p fs k = some i → ∃ j f, i = k + j ∧ fs[j]? = some f ∧ p f = true := by
  intro fs
  induction fs with
  | nil => intro k i h; simp [find] at h
  | cons g gs ih =>
    intro k i h
    unfold find at h
    by_cases hp : p g = true
    · simp [hp] at h
      exact ⟨0, g, by omega, by simp, hp⟩
    · simp [hp] at h
      obtain ⟨j, f, hi, hj, hf⟩ := ih (k + 1) i h
      exact ⟨j + 1, f, by omega, by simpa using hj, hf⟩

/-- the first field satisfying the predicate is the one found -/
theorem find_first (p : FField → Bool) :
    ∀ (fs : List FField) (k j : Nat) (f : FField), fs[j]? = some f → p f = true →
      (∀ j' g, j' < j → fs[j']? = some g → p g = false) → find p fs k = some (k + j) := by
  intro fs
  induction fs with
  | nil => intro k j f h; simp at h
  | cons g gs ih =>
    intro k j f h hp hfirst
    cases j with
    | zero =>
      simp at h
      subst h
      simp [find, hp]
    | succ j =>
      have hg : p g = false := hfirst 0 g (by omega) (by simp)
      have h' : gs[j]? = some f := by simpa using h
      have := ih (k + 1) j f h' hp (fun j' g' hlt hg' => hfirst (j' + 1) g' (by omega) (by simpa using hg'))
      simp [find, hg, this]
      omega

theorem find_none (p : FField → Bool) :
    ∀ (fs : List FField) (k : Nat), (∀ f ∈ fs, p f = false) → find p fs k = none := by
  intro fs
  induction fs with
  | nil => intro k _; rfl
  | cons g gs ih =>
    intro k h
    have hg : p g = false := h g (by simp)
    simp [find, hg]
    exact ih (k + 1) (fun f hf => h f (by simp [hf]))

/-- a legal schema as far as names go: columns are distinct, Go names are distinct, and no field's Go name is ANOTHER
    field's column (a field whose Go name equals its own column is fine) -/
def WF (fs : List FField) : Prop :=
  ∀ (i j : Nat) (f g : FField), fs[i]? = some f → fs[j]? = some g → (f.db = g.db ∨ f.go = g.go ∨ f.go = g.db) → i = j

/-- `LookUpField` as written: column names first, Go names second -/
def full : Order := [true, false]

theorem lookUp_db {fs : List FField} (hwf : WF fs) {i : Nat} {f : FField} (hi : fs[i]? = some f) :
    lookUp full fs f.db = some i := by
  have h : byDB fs f.db = some (0 + i) := by
    unfold byDB
    apply find_first _ fs 0 i f hi (by simp)
    intro j' g hlt hg
    by_cases hdb : g.db = f.db
    · have := hwf j' i g f hg hi (Or.inl hdb); omega
    · simp [hdb]
  simp [full, lookUp, h]

theorem lookUp_go {fs : List FField} (hwf : WF fs) {i : Nat} {f : FField} (hi : fs[i]? = some f) :
    lookUp full fs f.go = some i := by
  cases hdb : byDB fs f.go with
  | some j =>
    unfold byDB at hdb
    obtain ⟨j', g, hj, hg, hp⟩ := find_some_spec _ fs 0 j hdb
    have hgdb : g.db = f.go := by simpa using hp
    have : i = j' := hwf i j' f g hi hg (Or.inr (Or.inr hgdb.symm))
    have hij : j = i := by omega
    have hdb' : byDB fs f.go = some j := by unfold byDB; exact hdb
    simp [full, lookUp, hdb', hij]
  | none =>
    have h : byGo fs f.go = some (0 + i) := by
      unfold byGo
      apply find_first _ fs 0 i f hi (by simp)
      intro j' g hlt hg
      by_cases hgo : g.go = f.go
      · have := hwf j' i g f hg hi (Or.inr (Or.inl hgo)); omega
      · simp [hgo]
    simp [full, lookUp, hdb, h]

theorem lookUp_unknown (o : Order) {fs : List FField} {n : Name} (h : ∀ f ∈ fs, f.db ≠ n ∧ f.go ≠ n) :
    lookUp o fs n = none := by
  have hd : byDB fs n = none := by
    unfold byDB; apply find_none; intro f hf; simp [(h f hf).1]
  have hg : byGo fs n = none := by
    unfold byGo; apply find_none; intro f hf; simp [(h f hf).2]
  induction o with
  | nil => rfl
  | cons b r ih => cases b <;> simp [lookUp, hd, hg, ih]

/-- either spelling of a field's name reaches that field -/
theorem assignEq_either {fs : List FField} (hwf : WF fs) {i : Nat} {f : FField} (hi : fs[i]? = some f)
    (r : Rec) (n : Name) (v : Nat) (hn : n = f.go ∨ n = f.db) : assignEq full fs r (n, v) = r.set i v := by
  rcases hn with rfl | rfl
  · simp [assignEq, lookUp_go hwf hi]
  · simp [assignEq, lookUp_db hwf hi]

/-- two (name, value) pairs that name the same field, whatever the spelling, and carry the same value -/
def Respell (fs : List FField) (a b : Name × Nat) : Prop :=
  a.2 = b.2 ∧ ∃ (i : Nat) (f : FField), fs[i]? = some f ∧ (a.1 = f.go ∨ a.1 = f.db) ∧ (b.1 = f.go ∨ b.1 = f.db)

/-- pointwise `Respell` of two argument lists -/
inductive RespellL (fs : List FField) : List (Name × Nat) → List (Name × Nat) → Prop
  | nil : RespellL fs [] []
  | cons {a b : Name × Nat} {l l' : List (Name × Nat)} : Respell fs a b → RespellL fs l l' → RespellL fs (a :: l) (b :: l')

theorem foldl_respell {fs : List FField} (hwf : WF fs) {kvs kvs' : List (Name × Nat)}
    (h : RespellL fs kvs kvs') (r : Rec) :
    kvs.foldl (assignEq full fs) r = kvs'.foldl (assignEq full fs) r := by
  induction h generalizing r with
  | nil => rfl
  | @cons a b l l' hab _ ih =>
    obtain ⟨hv, i, f, hi, ha, hb⟩ := hab
    have e1 : assignEq full fs r a = r.set i a.2 := assignEq_either hwf hi r a.1 a.2 ha
    have e2 : assignEq full fs r b = r.set i b.2 := assignEq_either hwf hi r b.1 b.2 hb
    simp only [List.foldl_cons, e1, e2, hv]
    exact ih _

/-- the (name, value) pairs an argument contributes -/
def Arg.kvs : Arg → List (Name × Nat)
  | .eqs kvs => kvs
  | .cols kvs => kvs
  | .strct kvs => kvs.filter (fun kv => kv.2 != 0)

def allKvs : List Arg → List (Name × Nat)
  | [] => []
  | a :: as => a.kvs ++ allKvs as

/-- every site resolves through `LookUpField` -/
def Sites.allFull (s : Sites) : Prop := s.eqString = full ∧ s.eqColumn = full ∧ s.structField = full

theorem foldl_applyArg {s : Sites} (hs : s.allFull) (fs : List FField) (args : List Arg) (r : Rec) :
    args.foldl (applyArg s fs) r = (allKvs args).foldl (assignEq full fs) r := by
  obtain ⟨h1, h2, h3⟩ := hs
  induction args generalizing r with
  | nil => rfl
  | cons a as ih =>
    simp only [List.foldl_cons, allKvs, List.foldl_append]
    rw [ih]
    cases a <;> simp [applyArg, Arg.kvs, h1, h2, h3]

end Gorm.UpsertForms
