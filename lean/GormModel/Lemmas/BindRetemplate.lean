/-
  C01 — the textual re-templating loop of statement.go AddVar `case *DB`
    `for i.. { sql = strings.Replace(sql, BindVar(i), "?", 1) }`
  hits exactly the i-th placeholder when the rendering is ALIGNED (placeholders numbered i, i+1, … left to
  right) and no other `$` occurs in the text.  Core Lean only.
-/
import GormModel.Model.Bind
namespace Gorm.Bind

/-- no `$` byte in literal text or inside quoted identifiers -/
def NoDollar (segs : List Seg) : Prop :=
  ∀ s ∈ segs, match s with | .lit t => '$' ∉ t | .quoted t => '$' ∉ t | .ph _ => True

/-- no `?` byte in literal text or inside quoted identifiers -/
def NoQ (segs : List Seg) : Prop :=
  ∀ s ∈ segs, match s with | .lit t => '?' ∉ t | .quoted t => '?' ∉ t | .ph _ => True

instance (segs : List Seg) : Decidable (NoDollar segs) :=
  @List.decidableBAll _ _ (fun s => by cases s <;> (dsimp only; infer_instance)) segs

instance (segs : List Seg) : Decidable (NoQ segs) :=
  @List.decidableBAll _ _ (fun s => by cases s <;> (dsimp only; infer_instance)) segs

/-! ### replaceFirst -/

theorem replaceFirst_skip' (a ds new rest : List Char) (h : '$' ∉ a) :
    replaceFirst (a ++ ('$' :: (ds ++ rest))) ('$' :: ds) new = a ++ (new ++ rest) := by
  induction a with
  | nil =>
    have hp : (ds.isPrefixOf (ds ++ rest)) = true := by
      rw [List.isPrefixOf_iff_prefix]; exact List.prefix_append ds rest
    simp [replaceFirst, hp]
  | cons c a ih =>
    have hc : ¬ ('$' = c) := fun e => h (e ▸ List.mem_cons_self)
    have ha : '$' ∉ a := fun m => h (List.mem_cons_of_mem _ m)
    simp [replaceFirst, hc, ih ha]

/-- the first `$` of the text is where the first match of any old-string starting with `$` begins -/
theorem replaceFirst_skip (a ds new rest : List Char) (h : '$' ∉ a) :
    replaceFirst (a ++ '$' :: ds ++ rest) ('$' :: ds) new = a ++ new ++ rest := by
  have := replaceFirst_skip' a ds new rest h
  simpa using this

theorem replaceFirst_self_q (s : List Char) : replaceFirst s ['?'] ['?'] = s := by
  induction s with
  | nil => simp [replaceFirst]
  | cons c t ih =>
    by_cases hc : '?' = c
    · subst hc; simp [replaceFirst]
    · simp [replaceFirst, hc, ih]

theorem retemplate_qmark (i k : Nat) (s : List Char) : retemplate .qmark i k s = s := by
  induction k generalizing i s with
  | zero => rfl
  | succ k ih => simp [retemplate, phText, replaceFirst_self_q, ih]

/-! ### concretize / phs -/

theorem concretize_nil (d : Dialect) : concretize d [] = [] := rfl

theorem concretize_cons (d : Dialect) (s : Seg) (r : List Seg) :
    concretize d (s :: r) = segText d s ++ concretize d r := by
  simp [concretize]

theorem concretize_append (d : Dialect) (a b : List Seg) :
    concretize d (a ++ b) = concretize d a ++ concretize d b := by
  simp [concretize]

theorem phs_split (segs : List Seg) (n : Nat) (r : List Nat) (h : phs segs = n :: r) :
    ∃ a b, segs = a ++ .ph n :: b ∧ phs a = [] ∧ phs b = r := by
  induction segs with
  | nil => simp [phs] at h
  | cons s t ih =>
    cases s with
    | ph m =>
      simp only [phs, List.cons.injEq] at h
      obtain ⟨rfl, ht⟩ := h
      exact ⟨[], t, rfl, rfl, ht⟩
    | lit x =>
      obtain ⟨a, b, e, ha, hb⟩ := ih (by simpa [phs] using h)
      exact ⟨.lit x :: a, b, by simp [e], by simpa [phs] using ha, hb⟩
    | quoted x =>
      obtain ⟨a, b, e, ha, hb⟩ := ih (by simpa [phs] using h)
      exact ⟨.quoted x :: a, b, by simp [e], by simpa [phs] using ha, hb⟩

theorem NoDollar.tail {s : Seg} {t : List Seg} (h : NoDollar (s :: t)) : NoDollar t :=
  fun x hx => h x (List.mem_cons_of_mem _ hx)

theorem NoDollar.left {a b : List Seg} (h : NoDollar (a ++ b)) : NoDollar a :=
  fun x hx => h x (List.mem_append_left _ hx)

theorem NoDollar.right {a b : List Seg} (h : NoDollar (a ++ b)) : NoDollar b :=
  fun x hx => h x (List.mem_append_right _ hx)

/-- without placeholders the two dialects print the same text -/
theorem concretize_nophs (a : List Seg) (h : phs a = []) :
    concretize .dollar a = concretize .qmark a := by
  induction a with
  | nil => rfl
  | cons s t ih =>
    cases s with
    | ph m => simp [phs] at h
    | lit x => rw [concretize_cons, concretize_cons, ih (by simpa [phs] using h)]; rfl
    | quoted x => rw [concretize_cons, concretize_cons, ih (by simpa [phs] using h)]; rfl

/-- … and that text has no `$` under `NoDollar` (quoting adds backticks only) -/
theorem noDollar_concretize (d : Dialect) (a : List Seg) (hnd : NoDollar a) (h : phs a = []) :
    '$' ∉ concretize d a := by
  induction a with
  | nil => simp [concretize]
  | cons s t ih =>
    have hs := hnd s List.mem_cons_self
    cases s with
    | ph m => simp [phs] at h
    | lit x =>
      have := ih hnd.tail (by simpa [phs] using h)
      rw [concretize_cons]
      simp only [segText, List.mem_append, not_or]
      exact ⟨hs, this⟩
    | quoted x =>
      have := ih hnd.tail (by simpa [phs] using h)
      rw [concretize_cons]
      simp only [segText, List.mem_append, List.mem_cons, not_or]
      exact ⟨⟨by decide, hs, by decide, List.not_mem_nil⟩, this⟩

/-! ### the main lemma -/

/-- The textual re-templating loop hits exactly the i-th placeholder each time: the placeholders of an aligned
    rendering carry increasing numbers left to right and no other `$` occurs, so when the loop looks for `$i`
    every earlier `$j` has already been replaced and the FIRST `$` of the remaining text is the placeholder
    `$i` itself; the prefix problem (`$1` is a prefix of `$10`) cannot arise. -/
theorem retemplate_aligned (segs : List Seg) (i k : Nat) (pre : List Char) (hpre : '$' ∉ pre)
    (hnd : NoDollar segs) (hal : phs segs = List.range' i k) :
    retemplate .dollar i k (pre ++ concretize .dollar segs) = pre ++ concretize .qmark segs := by
  induction k generalizing i segs pre with
  | zero =>
    rw [concretize_nophs segs (by simpa using hal)]
    rfl
  | succ k ih =>
    rw [List.range'_succ] at hal
    obtain ⟨a, b, rfl, ha, hb⟩ := phs_split segs i _ hal
    have hda : '$' ∉ concretize .qmark a := noDollar_concretize .qmark a hnd.left ha
    have hpre' : '$' ∉ (pre ++ concretize .qmark a) ++ ['?'] := by
      simp only [List.mem_append, List.mem_singleton, not_or]
      exact ⟨⟨hpre, hda⟩, by decide⟩
    have hstep :
        replaceFirst (pre ++ concretize .dollar (a ++ .ph i :: b)) (phText .dollar i) ['?']
          = ((pre ++ concretize .qmark a) ++ ['?']) ++ concretize .dollar b := by
      rw [concretize_append, concretize_cons, concretize_nophs a ha]
      have := replaceFirst_skip' (pre ++ concretize .qmark a) (Nat.toDigits 10 i) ['?']
        (concretize .dollar b) (by simp only [List.mem_append, not_or]; exact ⟨hpre, hda⟩)
      simpa [segText, phText] using this
    rw [retemplate, hstep, ih b (i+1) _ hpre' hnd.right.tail hb]
    simp [concretize_append, concretize_cons, segText, phText]

theorem retemplate_aligned' (segs : List Seg) (k : Nat) (hnd : NoDollar segs)
    (hal : phs segs = List.range' 1 k) :
    retemplate .dollar 1 k (concretize .dollar segs) = concretize .qmark segs := by
  simpa using retemplate_aligned segs 1 k [] (by simp) hnd hal

/-! ### the hypothesis is needed -/

/-- a `$` inside a literal breaks the loop through the prefix problem: the literal is hit, the real
    placeholder stays -/
theorem retemplate_dollar_literal_counterexample :
    String.ofList (retemplate .dollar 1 1
      (concretize .dollar [.lit "label = '$100' AND age > ".toList, .ph 1]))
      = "label = '?00' AND age > $1" := by decide

/-- twelve aligned placeholders `$1 … $12`: `$1` is a prefix of `$10`, `$11`, `$12`, and still every
    replacement hits its own placeholder -/
def twelve : List Seg :=
  [.lit "INSERT INTO t VALUES (".toList,
   .ph 1, .lit [','], .ph 2, .lit [','], .ph 3, .lit [','], .ph 4, .lit [','], .ph 5, .lit [','], .ph 6,
   .lit [','], .ph 7, .lit [','], .ph 8, .lit [','], .ph 9, .lit [','], .ph 10, .lit [','], .ph 11,
   .lit [','], .ph 12, .lit [')']]

example : String.ofList (retemplate .dollar 1 12 (concretize .dollar twelve))
    = "INSERT INTO t VALUES (?,?,?,?,?,?,?,?,?,?,?,?)" := by decide

example : retemplate .dollar 1 12 (concretize .dollar twelve) = concretize .qmark twelve :=
  retemplate_aligned' twelve 12 (by decide) (by decide)

/-! ### counting -/

theorem count_q_concretize (segs : List Seg) (h : NoQ segs) :
    (concretize .qmark segs).count '?' = (phs segs).length := by
  induction segs with
  | nil => rfl
  | cons s t ih =>
    have hs := h s List.mem_cons_self
    have ht := ih (fun x hx => h x (List.mem_cons_of_mem _ hx))
    rw [concretize_cons, List.count_append, ht]
    cases s with
    | ph m => simp [segText, phText, phs]; omega
    | lit x =>
      have : x.count '?' = 0 := List.count_eq_zero.mpr hs
      simp [segText, phs, this]
    | quoted x =>
      have : x.count '?' = 0 := List.count_eq_zero.mpr hs
      simp [segText, phs, List.count_append, this]

/-- the `?` rendering of segments without `$` in their literal text contains no `$` at all -/
theorem noDollar_concretize_qmark (a : List Seg) (hnd : NoDollar a) : '$' ∉ concretize .qmark a := by
  induction a with
  | nil => simp [concretize]
  | cons s r ih =>
    rw [concretize_cons]
    have hs := hnd s (by simp)
    have hr := ih (NoDollar.tail hnd)
    intro hm
    rcases List.mem_append.1 hm with h | h
    · cases s with
      | lit t => exact hs (by simpa [segText] using h)
      | quoted t =>
        simp only [segText, List.mem_cons, List.mem_append, List.mem_singleton] at h
        rcases h with h | h | h
        · exact absurd h (by decide)
        · exact hs h
        · exact absurd h (by decide)
      | ph n => simp [segText, phText] at h
    · exact hr h

end Gorm.Bind
