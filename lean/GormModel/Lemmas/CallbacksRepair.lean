import GormModel.Model.Callbacks
import GormModel.Lemmas.Callbacks
import GormModel.Lemmas.CallbacksReach
import GormModel.Lemmas.CallbacksPost
import GormModel.Lemmas.CallbacksTable
import GormModel.Lemmas.CallbacksFuel
import GormModel.Lemmas.CallbacksSortBy
/-!
  `sortCallbacksR r` / `compileR r` / `runR r`: the model of the tree under check, for EVERY combination `r`
  of repairs.  With no repair it is the original model (`sortCallbacksR_none`, `runR_none`); the facts that hold
  "whatever the table" (duplicate-free, complete, live names, handler selection) hold for every `r`.
-/
namespace Gorm.CbL
open Gorm

/-- the run of the main loop inside `sortCallbacksR` -/
def loopR (r : CbRepairs) (cs0 : List Cb) : SortRes :=
  sortLoop ((prepass r cs0).map (·.name))
    (if r.depthGuard then depthBound (prepass r cs0).length else sortFuel (prepass r cs0).length)
    (prepass r cs0).length 0 { cs := (prepass r cs0).toArray, sorted := [] }

theorem sortCallbacksR_sorted (r : CbRepairs) (cs0 : List Cb) :
    (sortCallbacksR r cs0).sorted = (loopR r cs0).1.sorted := by
  unfold sortCallbacksR loopR; simp only; split <;> rfl

theorem sortCallbacksR_cs (r : CbRepairs) (cs0 : List Cb) :
    (sortCallbacksR r cs0).cs = if r.sortCopies then prepass r cs0 else (loopR r cs0).1.cs.toList := by
  unfold sortCallbacksR loopR; simp only; split <;> rfl

theorem sortCallbacksR_err (r : CbRepairs) (cs0 : List Cb) :
    (sortCallbacksR r cs0).err = (loopR r cs0).2.map (fun e => if r.depthGuard then e.guarded else e) := by
  unfold sortCallbacksR loopR; simp only
  split
  · rename_i e he; rw [he]; rfl
  · rename_i he; rw [he]; rfl

theorem sortCallbacksR_err_none (r : CbRepairs) (cs0 : List Cb) :
    (sortCallbacksR r cs0).err = none ↔ (loopR r cs0).2 = none := by
  rw [sortCallbacksR_err]
  cases (loopR r cs0).2 <;> simp

theorem sortCallbacksR_fns (r : CbRepairs) (cs0 : List Cb) (h : (loopR r cs0).2 = none) :
    (sortCallbacksR r cs0).fns =
      selectFns ((prepass r cs0).map (·.name)) (loopR r cs0).1.cs.toList (loopR r cs0).1.sorted := by
  unfold loopR at h
  unfold sortCallbacksR loopR; simp only
  split
  · rename_i e he; rw [he] at h; cases h
  · rfl

/-- with no repair, the model of the tree under check is the original model -/
theorem sortCallbacksR_none (cs0 : List Cb) : sortCallbacksR {} cs0 = sortCallbacks cs0 := by
  unfold sortCallbacksR sortCallbacks prepass
  simp only [Bool.false_eq_true, if_false]
  generalize sortLoop ((stableSortCbs cs0).map (·.name)) (sortFuel (stableSortCbs cs0).length)
      (stableSortCbs cs0).length 0 { cs := (stableSortCbs cs0).toArray, sorted := [] } = res
  rcases res with ⟨st, _ | e⟩ <;> rfl

theorem compileR_none (p : Proc) : p.compileR {} = p.compile := by
  unfold Proc.compileR Proc.compile
  simp only [sortCallbacksR_none]

theorem applyR_none (p : Proc) (op : RegOp) : p.applyR {} op = p.apply op := by
  unfold Proc.applyR Proc.apply
  exact compileR_none _

theorem runR_none (p : Proc) (ops : List RegOp) : p.runR {} ops = p.run ops := by
  unfold Proc.runR Proc.run
  congr 1
  funext acc op
  rw [applyR_none]

/-! ### facts that hold for every combination of repairs -/

theorem loopR_reach (r : CbRepairs) (cs0 : List Cb) :
    Reach ((prepass r cs0).map (·.name)) { cs := (prepass r cs0).toArray, sorted := [] } (loopR r cs0).1 :=
  sortLoop_reach _ _ _ 0 _ (wf_init _) (by simp)

theorem sortCallbacksR_nodup (r : CbRepairs) (cs0 : List Cb) : (sortCallbacksR r cs0).sorted.Nodup := by
  rw [sortCallbacksR_sorted]
  exact sortLoop_nodup _ _ _ 0 _ (by simp)

theorem sortCallbacksR_sorted_subset (r : CbRepairs) (cs0 : List Cb) :
    ∀ s ∈ (sortCallbacksR r cs0).sorted, s ∈ cs0.map (·.name) := by
  intro s hs
  rw [sortCallbacksR_sorted] at hs
  have := reach_subset (loopR_reach r cs0) (by simp) s hs
  simpa only [List.mem_map, mem_prepass] using this

theorem sortCallbacksR_complete (r : CbRepairs) (cs0 : List Cb) (hok : (sortCallbacksR r cs0).err = none) :
    ∀ c ∈ cs0, c.name ∈ (sortCallbacksR r cs0).sorted := by
  intro c hc
  have hc' : c ∈ prepass r cs0 := (mem_prepass r cs0 c).mpr hc
  obtain ⟨j, hj, hget⟩ := List.getElem_of_mem hc'
  have hp := sortLoop_post ((prepass r cs0).map (·.name))
    (if r.depthGuard then depthBound (prepass r cs0).length else sortFuel (prepass r cs0).length)
    (prepass r cs0).length 0 { cs := (prepass r cs0).toArray, sorted := [] } (wf_init _) (by simp)
  rw [sortCallbacksR_sorted]
  have hok' := (sortCallbacksR_err_none r cs0).mp hok
  unfold loopR at hok' ⊢
  have := hp hok' j (by omega) (by omega)
  simp [hj, hget] at this
  exact this

theorem sortCallbacksR_cs_names (r : CbRepairs) (cs0 : List Cb) :
    (sortCallbacksR r cs0).cs.map (·.name) = (prepass r cs0).map (·.name) := by
  rw [sortCallbacksR_cs]
  split
  · rfl
  · exact (reach_wf (loopR_reach r cs0) (wf_init _)).toList

theorem sortCallbacksR_mem_names (r : CbRepairs) (cs0 : List Cb) (n : String) :
    n ∈ (sortCallbacksR r cs0).cs.map (·.name) ↔ n ∈ cs0.map (·.name) := by
  rw [sortCallbacksR_cs_names]
  simp only [List.mem_map, mem_prepass]

theorem sameId_refl (c : Cb) : sameId c c := ⟨rfl, rfl, rfl, rfl, rfl⟩

theorem sameId_symm {a b : Cb} (h : sameId a b) : sameId b a :=
  ⟨h.1.symm, h.2.1.symm, h.2.2.1.symm, h.2.2.2.1.symm, h.2.2.2.2.symm⟩

theorem sameId_trans {a b c : Cb} (h : sameId a b) (g : sameId b c) : sameId a c :=
  ⟨h.1.trans g.1, h.2.1.trans g.2.1, h.2.2.1.trans g.2.2.1, h.2.2.2.1.trans g.2.2.2.1, h.2.2.2.2.trans g.2.2.2.2⟩

theorem toList_getElem! (a : Array Cb) (j : Nat) : a.toList[j]! = a[j]! := by
  simp [getElem!_def]

theorem toArray_getElem! (l : List Cb) (j : Nat) : l.toArray[j]! = l[j]! := by
  simp [getElem!_def]

/-- position by position, the table the main loop ends with has the identity fields of the pre-sorted input -/
theorem loopR_sameId_at (r : CbRepairs) (cs0 : List Cb) (j : Nat) :
    sameId ((loopR r cs0).1.cs.toList[j]!) ((prepass r cs0)[j]!) := by
  have h := reach_sameId (loopR_reach r cs0) j
  rw [toList_getElem!, ← toArray_getElem!]
  exact h

/-- position by position, the records written back have the identity fields of the pre-sorted input -/
theorem sortCallbacksR_cs_sameId_at (r : CbRepairs) (cs0 : List Cb) (j : Nat) :
    sameId ((sortCallbacksR r cs0).cs[j]!) ((prepass r cs0)[j]!) := by
  rw [sortCallbacksR_cs]
  split
  · exact sameId_refl _
  · exact loopR_sameId_at r cs0 j

theorem sortCallbacksR_cs_length (r : CbRepairs) (cs0 : List Cb) :
    (sortCallbacksR r cs0).cs.length = (prepass r cs0).length := by
  have := congrArg List.length (sortCallbacksR_cs_names r cs0)
  simpa using this

theorem sortCallbacksR_cs_sameId (r : CbRepairs) (cs0 : List Cb) :
    ∀ c ∈ (sortCallbacksR r cs0).cs, ∃ c0 ∈ cs0, sameId c c0 := by
  intro c hc
  obtain ⟨j, hj, hget⟩ := List.getElem_of_mem hc
  have hj' : j < (prepass r cs0).length := by rw [← sortCallbacksR_cs_length]; exact hj
  have hid := sortCallbacksR_cs_sameId_at r cs0 j
  simp [hj, hj', hget] at hid
  exact ⟨(prepass r cs0)[j], (mem_prepass r cs0 _).mp (List.getElem_mem hj'), hid⟩

/-- `handlerOf` only looks at names, Remove markers and handler ids -/
theorem filterMap_congr' {α β : Type} (f g : α → Option β) (l : List α) (h : ∀ x ∈ l, f x = g x) :
    l.filterMap f = l.filterMap g := by
  induction l with
  | nil => rfl
  | cons x xs ih =>
    simp only [List.filterMap_cons, h x (by simp)]
    rw [ih (fun y hy => h y (by simp [hy]))]

theorem handlerOf_congr (a b : List Cb) (hl : a.length = b.length) (h : ∀ j : Nat, sameId (a[j]!) (b[j]!)) (n : String) :
    handlerOf a n = handlerOf b n := by
  have hn : a.map (·.name) = b.map (·.name) := by
    apply List.ext_getElem
    · simp [hl]
    · intro j h1 h2
      have h1' : j < a.length := by simpa using h1
      have h2' : j < b.length := by simpa using h2
      have := (h j).1
      simp [h1', h2'] at this
      simp [this]
  unfold handlerOf
  rw [hn]
  cases getRIndex (b.map (·.name)) n with
  | none => rfl
  | some idx =>
    have := h idx
    show (if (a[idx]!).remove = true then none else some (a[idx]!).hid) =
      (if (b[idx]!).remove = true then none else some (b[idx]!).hid)
    rw [this.2.1, this.2.2.2.1]

theorem sortCallbacksR_fns_handlerOf (r : CbRepairs) (cs0 : List Cb) (hok : (sortCallbacksR r cs0).err = none) :
    (sortCallbacksR r cs0).fns = (sortCallbacksR r cs0).sorted.filterMap (handlerOf (sortCallbacksR r cs0).cs) := by
  have hok' := (sortCallbacksR_err_none r cs0).mp hok
  rw [sortCallbacksR_fns r cs0 hok', sortCallbacksR_sorted]
  have hw := (reach_wf (loopR_reach r cs0) (wf_init _)).toList
  -- selectFns on the loop's table = handlerOf on the loop's table
  have h1 : selectFns ((prepass r cs0).map (·.name)) (loopR r cs0).1.cs.toList (loopR r cs0).1.sorted =
      (loopR r cs0).1.sorted.filterMap (handlerOf (loopR r cs0).1.cs.toList) := by
    unfold selectFns handlerOf
    rw [hw]
    rfl
  rw [h1]
  apply filterMap_congr'
  intro n _
  apply handlerOf_congr
  · rw [sortCallbacksR_cs_length]
    have := congrArg List.length hw
    simpa using this
  · intro j
    exact sameId_trans (loopR_sameId_at r cs0 j) (sameId_symm (sortCallbacksR_cs_sameId_at r cs0 j))

/-! ### processor level, for every combination of repairs -/

theorem compileR_eq (r : CbRepairs) (p : Proc) :
    p.compileR r =
      ({ callbacks := (sortCallbacksR r (compileTable p)).cs,
         fns := (sortCallbacksR r (compileTable p)).fns,
         order := (sortCallbacksR r (compileTable p)).sorted }, (sortCallbacksR r (compileTable p)).err) := rfl

theorem compileR_clean (r : CbRepairs) (p : Proc) : Clean (p.compileR r).1.callbacks := by
  rw [compileR_eq]
  intro c hc
  obtain ⟨c0, hc0, hid⟩ := sortCallbacksR_cs_sameId r _ c hc
  have := compileTable_clean p c0 hc0
  exact ⟨hid.2.1.trans this.1, hid.2.2.1.trans this.2⟩

theorem applyR_names (r : CbRepairs) (p : Proc) (hc : Clean p.callbacks) (op : RegOp) (n : String) :
    n ∈ (p.applyR r op).1.callbacks.map (·.name) ↔ liveStep (fun x => x ∈ p.callbacks.map (·.name)) op n := by
  have h0 := apply_names p hc op n
  rw [← h0]
  unfold Proc.applyR Proc.apply
  rw [compileR_eq, compile_eq]
  simp only
  rw [sortCallbacksR_mem_names, sortCallbacks_mem_names]

theorem runR_inv (r : CbRepairs) (ops : List RegOp) (p : Proc) (errs : List (Option SortErr)) (L : String → Prop)
    (hc : Clean p.callbacks) (hl : ∀ n, n ∈ p.callbacks.map (·.name) ↔ L n) :
    Clean (ops.foldl (fun (acc : Proc × List (Option SortErr)) op =>
        let (p', e) := acc.1.applyR r op
        (p', acc.2 ++ [e])) (p, errs)).1.callbacks ∧
    ∀ n, n ∈ (ops.foldl (fun (acc : Proc × List (Option SortErr)) op =>
        let (p', e) := acc.1.applyR r op
        (p', acc.2 ++ [e])) (p, errs)).1.callbacks.map (·.name) ↔ ops.foldl liveStep L n := by
  induction ops generalizing p errs L with
  | nil => exact ⟨hc, hl⟩
  | cons op ops ih =>
    simp only [List.foldl_cons]
    apply ih
    · exact compileR_clean r _
    · intro n
      rw [applyR_names r p hc op n]
      exact liveStep_congr hl op n

theorem runR_clean (r : CbRepairs) (h : List RegOp) : Clean (Proc.runR r {} h).1.callbacks :=
  (runR_inv r h {} [] (fun _ => False) (by intro c hc; cases hc) (by intro n; simp)).1

theorem runR_names (r : CbRepairs) (h : List RegOp) (n : String) :
    n ∈ (Proc.runR r {} h).1.callbacks.map (·.name) ↔ liveName h n :=
  (runR_inv r h {} [] (fun _ => False) (by intro c hc; cases hc) (by intro n; simp)).2 n

theorem applyR_order (r : CbRepairs) (p : Proc) (hc : Clean p.callbacks) (op : RegOp)
    (hok : (p.applyR r op).2 = none) (n : String) :
    n ∈ (p.applyR r op).1.order ↔ liveStep (fun x => x ∈ p.callbacks.map (·.name)) op n := by
  rw [← applyR_names r p hc op n]
  unfold Proc.applyR at hok ⊢
  rw [compileR_eq] at hok ⊢
  simp only at hok ⊢
  rw [sortCallbacksR_mem_names]
  constructor
  · exact sortCallbacksR_sorted_subset r _ n
  · intro hn
    obtain ⟨c, hc1, rfl⟩ := List.mem_map.mp hn
    exact sortCallbacksR_complete r _ hok c hc1

/-! ### the sort works on copies (repair of F20): nothing a sort writes reaches `p.callbacks` -/

/-- with copies, `compile` leaves in `p.callbacks` exactly the records it was given (filtered, pre-sorted):
    no `before`/`after` field is ever rewritten -/
theorem compileR_copies (r : CbRepairs) (hc : r.sortCopies = true) (p : Proc) :
    (p.compileR r).1.callbacks = prepass r (compileTable p) := by
  rw [compileR_eq]
  simp only
  rw [sortCallbacksR_cs, if_pos hc]

theorem runR_copies_fold (r : CbRepairs) (hc : r.sortCopies = true) (Q : Cb → Prop) (ops : List RegOp)
    (hops : ∀ op ∈ ops, Q op.toCb) (p : Proc) (errs : List (Option SortErr)) (hp : ∀ c ∈ p.callbacks, Q c) :
    ∀ c ∈ (ops.foldl (fun (acc : Proc × List (Option SortErr)) op =>
        let (p', e) := acc.1.applyR r op
        (p', acc.2 ++ [e])) (p, errs)).1.callbacks, Q c := by
  induction ops generalizing p errs with
  | nil => exact hp
  | cons op ops ih =>
    simp only [List.foldl_cons]
    apply ih (fun o ho => hops o (by simp [ho]))
    intro c hcm
    unfold Proc.applyR at hcm
    rw [compileR_copies r hc] at hcm
    have := ((mem_compileTable _ c).mp ((mem_prepass r _ c).mp hcm)).1
    rcases List.mem_append.mp this with h | h
    · exact hp c h
    · simp at h; subst h; exact hops op (by simp)

/-- with copies, after ANY history every record of `p.callbacks` is literally one of the registrations of the
    history: same name, same handler, and the `before`/`after` it was registered with -/
theorem runR_copies_records (r : CbRepairs) (hc : r.sortCopies = true) (h : List RegOp) :
    ∀ c ∈ (Proc.runR r {} h).1.callbacks, ∃ op ∈ h, c = op.toCb :=
  runR_copies_fold r hc (fun c => ∃ op ∈ h, c = op.toCb) h (fun op ho => ⟨op, ho, rfl⟩) {} []
    (by intro c hc; cases hc)

end Gorm.CbL
